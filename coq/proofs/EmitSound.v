(* EmitSound.v — C05, layer P2 (first-order part): inlining preserves evaluation.

   For a first-order body (Emit.first_order_body) whose free names are bound locally or captured,
   evaluating the body with the captured scope in the environment and evaluating the INLINED body
   (subst) without it give the same outcome and the same store, at every call depth, whatever the
   rest of the two environments contains.  Proved over the evaluator model for every
   implementation of the operators and built-ins that (H*_ext) uses its callback only through
   the callback's behaviour on lambda-free values and (H*_lf) returns lambda-free values from
   lambda-free arguments — properties the transcribed implementations have because they only
   ever apply the callback to functions found among their arguments.                        *)
From Coq Require Import String Ascii List ZArith Bool Lia.
Require Import Blots.Num Blots.gen.Builtins Blots.Ast Blots.Value Blots.Outcome Blots.Binop
               Blots.Env Blots.Eval Blots.Emit Blots.proofs.ValueInd Blots.proofs.ExprInd
               Blots.proofs.EmitLit Blots.proofs.EmitSubst Blots.proofs.Closures.
Import ListNotations.
Open Scope list_scope.

(* ------------------------------------------------------------------ lambda-free values *)
Definition lfs (l : list value) : bool := forallb lf l.
Definition frame_lf (f : frame) : bool := forallb (fun kv => lf (snd kv)) f.
Definition frames_lf (fr : frames) : bool := forallb (fun kf => frame_lf (snd kf)) fr.

Lemma lf_list l : lf (VList l) = lfs l. Proof. reflexivity. Qed.
Lemma lf_rec r : lf (VRec r) = forallb (fun kv => lf (snd kv)) r. Proof. reflexivity. Qed.

Lemma fo_lf v : fo v = true -> lf v = true.
Proof.
  induction v using value_ind'; cbn; intros Hf; try reflexivity; try discriminate.
  - induction H as [|x l Hx Hl IH]; cbn in *; [reflexivity|].
    apply andb_prop in Hf as [A B]. now rewrite Hx, IH.
  - apply andb_prop in Hf as [_ Hf]. induction H as [|[k x] l Hx Hl IH]; cbn in *; [reflexivity|].
    apply andb_prop in Hf as [A B]. now rewrite Hx, IH.
Qed.
Lemma emittable_gen_lf v : emittable_gen v = true -> lf v = true.
Proof. unfold emittable_gen. intros H. apply andb_prop in H as [H _]. apply andb_prop in H as [H _]. now apply fo_lf. Qed.

Lemma lfs_app a b : lfs (a ++ b) = lfs a && lfs b.
Proof. apply forallb_app. Qed.
Lemma lfs_map_str l : lfs (map VStr l) = true.
Proof. induction l; cbn; auto. Qed.
Lemma lf_spread_items v : lf v = true -> lfs (spread_items v) = true.
Proof.
  destruct v; cbn; intros H; try reflexivity; try assumption.
  - apply lfs_map_str.
  - induction r as [|[k x] r IH]; cbn in *; [reflexivity|].
    apply andb_prop in H as [A B]. now rewrite A, IH.
Qed.
Lemma lfs_flatten l : lfs l = true -> lfs (flatten_spreads l) = true.
Proof.
  unfold lfs. induction l as [|v l IH]; [reflexivity|]. cbn [forallb]. intros H.
  apply andb_prop in H as [A B]. specialize (IH B).
  destruct v; cbn [flatten_spreads forallb]; try (rewrite A, IH; reflexivity).
  rewrite forallb_app, IH. cbn in A. fold (lfs (spread_items v)). now rewrite lf_spread_items.
Qed.
Lemma lf_rec_get (r : list (string * value)) k v :
  forallb (fun kv => lf (snd kv)) r = true -> rec_get r k = Some v -> lf v = true.
Proof.
  induction r as [|[k' x] r IH]; cbn; [discriminate|]. intros H. apply andb_prop in H as [A B].
  destruct (String.eqb k k'); [intros E; now inversion E; subst|auto].
Qed.
Lemma lf_rec_insert (r : list (string * value)) k v :
  forallb (fun kv => lf (snd kv)) r = true -> lf v = true ->
  forallb (fun kv => lf (snd kv)) (rec_insert r k v) = true.
Proof.
  induction r as [|[k' x] r IH]; cbn; intros H Hv; [now rewrite Hv|].
  apply andb_prop in H as [A B]. destruct (String.eqb k k'); cbn; [now rewrite Hv, B|now rewrite A, IH].
Qed.
Lemma lf_rec_insert_all es : forall (r : list (string * value)),
  forallb (fun kv => lf (snd kv)) r = true -> forallb (fun kv => lf (snd kv)) es = true ->
  forallb (fun kv => lf (snd kv)) (rec_insert_all r es) = true.
Proof.
  unfold rec_insert_all. induction es as [|[k x] es IH]; cbn; intros r Hr He; [assumption|].
  apply andb_prop in He as [A B]. apply IH; [|assumption]. now apply lf_rec_insert.
Qed.
Lemma lfs_nth (l : list value) k : lfs l = true -> lf (nth k l VNull) = true.
Proof.
  revert k. induction l as [|x l IH]; intros [|k] H; cbn in *; try reflexivity;
    apply andb_prop in H as [A B]; auto.
Qed.
Lemma lf_enum_entries {A} (f : A -> value) (l : list A) : forall n,
  forallb (fun a => lf (f a)) l = true ->
  forallb (fun kv : string * value => lf (snd kv))
          (map (fun iv : nat * A => (nat_to_dec (fst iv), f (snd iv))) (enum_from n l)) = true.
Proof.
  induction l as [|a l IH]; intros n H; cbn in *; [reflexivity|].
  apply andb_prop in H as [X Y]. now rewrite X, IH.
Qed.
Lemma lf_record_spread_entries v : lf v = true ->
  forallb (fun kv => lf (snd kv)) (record_spread_entries v) = true.
Proof.
  destruct v as [| | | | | | | |w]; try reflexivity.
  destruct w as [| | |s|l|r| | |]; try reflexivity; intros H; cbn [record_spread_entries].
  - apply (lf_enum_entries VStr). induction (chars s); cbn [forallb lf]; auto.
  - apply (lf_enum_entries (fun x => x)). exact H.
  - exact H.
Qed.
Lemma lf_access_val v i r : lf v = true -> access_val v i = Ok r -> lf r = true.
Proof.
  destruct v; cbn; try discriminate; intros Hv.
  - destruct (as_number i); cbn; try discriminate. intros E; inversion E; subst; clear E.
    destruct (index_from _ _); [|reflexivity]. destruct (nth_error _ _); reflexivity.
  - destruct (as_number i); cbn; try discriminate. intros E; inversion E; subst; clear E.
    destruct (index_from _ _); [|reflexivity]. now apply lfs_nth.
  - destruct (as_string i); cbn; try discriminate. intros E; inversion E; subst; clear E.
    destruct (rec_get r0 a) eqn:G; [|reflexivity]. eapply lf_rec_get; eauto.
Qed.
Lemma lf_dot_val v f r : lf v = true -> dot_val v f = Ok r -> lf r = true.
Proof.
  destruct v; cbn; try discriminate; intros Hv E; inversion E; subst.
  destruct (rec_get r0 f) eqn:G; [|reflexivity]. eapply lf_rec_get; eauto.
Qed.
Lemma lf_spread_val v r : lf v = true -> spread_val v = Ok r -> lf r = true.
Proof. destruct v; cbn; try discriminate; intros Hv E; inversion E; subst; exact Hv. Qed.
Lemma lf_factorial rel n r : factorial_val rel n = Ok r -> lf r = true.
Proof.
  unfold factorial_val. destruct (_ && _); [|discriminate]. intros E; now inversion E.
Qed.

(* ------------------------------------------------------------------ environments *)
Lemma lookup_app (a b : frames) x :
  lookup (a ++ b) x = match lookup a x with Some v => Some v | None => lookup b x end.
Proof.
  induction a as [|[k f] a IH]; cbn; [reflexivity|]. destruct (lookup_frame f x); [reflexivity|apply IH].
Qed.
Lemma lookup_frame_rec_get (f : frame) x : lookup_frame f x = rec_get f x.
Proof. induction f as [|[k v] f IH]; cbn; [reflexivity|]. now rewrite IH. Qed.
Lemma lf_lookup_frame (f : frame) x v : frame_lf f = true -> lookup_frame f x = Some v -> lf v = true.
Proof. rewrite lookup_frame_rec_get. apply lf_rec_get. Qed.
Lemma lf_lookup (fr : frames) x v : frames_lf fr = true -> lookup fr x = Some v -> lf v = true.
Proof.
  induction fr as [|[k f] fr IH]; cbn; [discriminate|]. intros H. apply andb_prop in H as [A B].
  destruct (lookup_frame f x) eqn:E; [intros E'; inversion E'; subst; eapply lf_lookup_frame; eauto|auto].
Qed.

(* callbacks that agree on lambda-free values / return lambda-free values on them *)
Definition cb_lf_equiv (cb cb' : callback) : Prop :=
  forall this f args st, lf this = true -> lf f = true -> lfs args = true ->
    cb this f args st = cb' this f args st.
Definition cb_lf_closed (cb : callback) : Prop :=
  forall this f args st v st', lf this = true -> lf f = true -> lfs args = true ->
    cb this f args st = (Ok v, st') -> lf v = true.

(* ------------------------------------------------------------------ the pieces of [subst] *)
Definition subst_items (m : smap) :=
  fix go (l : list (commented expr)) : list (commented expr) :=
    match l with [] => [] | Cm a n t :: r => Cm a (subst true m n) t :: go r end.
Definition subst_args (m : smap) :=
  fix go (l : list expr) : list expr :=
    match l with [] => [] | a :: r => subst true m a :: go r end.
Definition subst_entry (m : smap) (k : rkey) (v : expr) : rentry :=
  match k with
  | KStatic s => REntry (KStatic s) (subst true m v)
  | KDyn ke => REntry (KDyn (subst true m ke)) (subst true m v)
  | KShort x => match rec_get m x with
                | Some lit => REntry (KStatic x) lit
                | None => REntry (KShort x) v
                end
  | KSpread se => REntry (KSpread (subst true m se)) v
  end.
Definition subst_entries (m : smap) :=
  fix go (l : list (commented rentry)) : list (commented rentry) :=
    match l with [] => [] | Cm a (REntry k v) t :: r => Cm a (subst_entry m k v) t :: go r end.
Definition subst_stmts :=
  fix go (l : list (commented expr)) (m' : smap) {struct l} : list (commented expr) :=
    match l with
    | [] => []
    | Cm a s t :: r => Cm a (subst true m' s) t :: go r (do_step_map true m' s)
    end.
Lemma subst_EList m items : subst true m (EList items) = EList (subst_items m items).
Proof. reflexivity. Qed.
Lemma subst_ERec m es : subst true m (ERec es) = ERec (subst_entries m es).
Proof. reflexivity. Qed.
Lemma subst_ECall m f args : subst true m (ECall f args) = ECall (subst true m f) (subst_args m args).
Proof. reflexivity. Qed.
Lemma subst_EDo m stmts rl ret rt :
  subst true m (EDo stmts (Cm rl ret rt)) =
  EDo (subst_stmts stmts m) (Cm rl (subst true (do_final_map true m stmts) ret) rt).
Proof. reflexivity. Qed.

(* ------------------------------------------------------------------ decomposition of the premises *)
Definition fob_entry (k : rkey) (v : expr) : bool :=
  match k with
  | KDyn a => first_order_body a && first_order_body v
  | KSpread a => first_order_body a
  | KStatic _ => first_order_body v
  | KShort _ => true
  end.
Definition fv_entry (b : list string) (k : rkey) (v : expr) : list string :=
  match k with
  | KDyn a => free_vars a b ++ free_vars v b
  | KSpread a => free_vars a b
  | KStatic _ => free_vars v b
  | KShort x => if mem x b then [] else [x]
  end.
Lemma fob_EList items : first_order_body (EList items) = true ->
  Forall (fun c => first_order_body (cnode c) = true) items.
Proof.
  cbn. induction items as [|[a n t] l IH]; intros H; constructor.
  - apply andb_prop in H as [A _]. exact A.
  - apply andb_prop in H as [_ B]. auto.
Qed.
Lemma fv_EList items b : free_vars (EList items) b = [] ->
  Forall (fun c => free_vars (cnode c) b = []) items.
Proof.
  cbn. induction items as [|[a n t] l IH]; intros H; constructor.
  - apply app_eq_nil in H as [A _]. exact A.
  - apply app_eq_nil in H as [_ B]. auto.
Qed.
Lemma fob_args f args : first_order_body (ECall f args) = true ->
  first_order_body f = true /\ Forall (fun a => first_order_body a = true) args.
Proof.
  cbn. intros H. apply andb_prop in H as [A B]. split; [exact A|]. clear A.
  induction args as [|a l IH]; constructor.
  - apply andb_prop in B as [X _]. exact X.
  - apply andb_prop in B as [_ Y]. auto.
Qed.
Lemma fv_args f args b : free_vars (ECall f args) b = [] ->
  free_vars f b = [] /\ Forall (fun a => free_vars a b = []) args.
Proof.
  cbn. intros H. apply app_eq_nil in H as [A B]. split; [exact A|]. clear A.
  induction args as [|a l IH]; constructor.
  - apply app_eq_nil in B as [X _]. exact X.
  - apply app_eq_nil in B as [_ Y]. auto.
Qed.
Lemma fob_ERec es : first_order_body (ERec es) = true ->
  Forall (fun c => match cnode c with REntry k v => fob_entry k v = true end) es.
Proof.
  cbn. induction es as [|[a [k v] t] l IH]; intros H; constructor.
  - apply andb_prop in H as [A _]. exact A.
  - apply andb_prop in H as [_ B]. auto.
Qed.
Lemma fv_ERec es b : free_vars (ERec es) b = [] ->
  Forall (fun c => match cnode c with REntry k v => fv_entry b k v = [] end) es.
Proof.
  cbn. induction es as [|[a [k v] t] l IH]; intros H; constructor.
  - apply app_eq_nil in H as [A _]. cbn. destruct k; exact A.
  - apply app_eq_nil in H as [_ B]. auto.
Qed.

(* ------------------------------------------------------------------ the simulation *)
Section Sound.
  Variable release : bool.
  Variable binop_impl : callback -> binop -> value -> value -> store -> outcome value * store.
  Variable apply : frames -> callback.
  Notation evalE := (evalE release binop_impl apply).

  Hypothesis Hbin_ext : forall cb cb' op l r st, cb_lf_equiv cb cb' -> cb_lf_closed cb ->
    lf l = true -> lf r = true ->
    binop_impl cb op l r st = binop_impl cb' op l r st.
  Hypothesis Hbin_lf : forall cb op l r st v st', cb_lf_closed cb -> lf l = true -> lf r = true ->
    binop_impl cb op l r st = (Ok v, st') -> lf v = true.
  Hypothesis Happ_ext : forall fr fr', cb_lf_equiv (apply fr) (apply fr').
  Hypothesis Happ_lf : forall fr, cb_lf_closed (apply fr).

  Variable nanfix : bool.
  Variable sv : list (string * value).                 (* the captured scope *)
  Hypothesis Hsv_emit : forallb (fun kv => emittable_gen (snd kv)) sv = true.
  Hypothesis Hsv_special : forall x, special_name x = true -> rec_get sv x = None.
  Variables R1 R2 : frames.                            (* the rest of the two environments *)
  Notation F1 L := (L ++ (FShared, sv) :: R1).
  Notation F2 L := (L ++ R2).
  Notation lit := (value_to_ast nanfix true).

  Lemma sv_get_emit x v : rec_get sv x = Some v -> emittable_gen v = true.
  Proof.
    clear Hsv_special. induction sv as [|[k w] s IH]; cbn in *; [discriminate|].
    apply andb_prop in Hsv_emit as [A B]. destruct (String.eqb x k); [intros E; now inversion E; subst|auto].
  Qed.

  (* The two runs use local frames L1 / L2 that agree on the names the body can mention
     ([bound]); names bound there are not inlined; on the other names of [bound] the inlining
     scope is the captured scope; names the evaluator never looks up are not inlined. *)
  Definition Inv (bound : list string) (L1 : frames) (m : smap) : Prop :=
    forall x, mem x bound = true ->
              match lookup L1 x with
              | Some _ => rec_get m x = None
              | None => rec_get m x = option_map lit (rec_get sv x)
              end.
  Definition msp (m : smap) : Prop :=
    (forall x, special_name x = true -> rec_get m x = None) /\
    (forall x a, rec_get m x = Some a -> exists v, a = lit v).
  Definition bound_ok (bound : list string) (L1 : frames) : Prop :=
    forall x, mem x bound = true ->
      (exists v, lookup L1 x = Some v /\ lf v = true) \/ (lookup L1 x = None /\ rec_get sv x <> None).
  Definition agree (bound : list string) (L1 L2 : frames) : Prop :=
    forall x v, mem x bound = true -> lookup L1 x = Some v -> lookup L2 x = Some v.
  Definition Env (bound : list string) (L1 L2 : frames) (m : smap) : Prop :=
    Inv bound L1 m /\ msp m /\ bound_ok bound L1 /\ agree bound L1 L2.

  Definition Sim (L1 L2 : frames) (st : store) (e : expr) (m : smap) : Prop :=
    exists r st', evalE (st, F1 L1) e = (r, (st', F1 L1)) /\
                  evalE (st, F2 L2) (subst true m e) = (r, (st', F2 L2)) /\
                  (forall v, r = Ok v -> lf v = true).
  Definition Q (e : expr) : Prop :=
    first_order_body e = true -> forall L1 L2 m bound st,
      Env bound L1 L2 m -> free_vars e bound = [] -> Sim L1 L2 st e m.
  Definition P (e : expr) : Prop := Q e /\ (forall x v, e = EAssign x v -> Q v).

  Lemma lookup_F1 L x : lookup (F1 L) x =
    match lookup L x with Some v => Some v | None =>
      match rec_get sv x with Some v => Some v | None => lookup R1 x end end.
  Proof. rewrite lookup_app. cbn. now rewrite lookup_frame_rec_get. Qed.

  (* an identifier (also used for record shorthand): what the original finds is what the
     inlined expression evaluates to *)
  Lemma ident_sim L1 L2 m bound x : Env bound L1 L2 m -> mem x bound = true ->
    exists v, lookup (F1 L1) x = Some v /\ lf v = true /\
      match rec_get m x with
      | Some a => a = lit v /\ emittable_gen v = true
      | None => lookup (F2 L2) x = Some v
      end.
  Proof.
    intros (HI & _ & HB & HA) Hm. specialize (HI x Hm).
    rewrite lookup_F1, lookup_app. destruct (HB x Hm) as [(v & EL & Hv)|[EL ES]].
    - rewrite (HA x v Hm EL). rewrite EL in *. exists v. rewrite HI. auto.
    - rewrite EL in *. destruct (rec_get sv x) eqn:E; [|congruence].
      exists v. rewrite HI. cbn. pose proof (sv_get_emit _ _ E). repeat split; auto.
      now apply emittable_gen_lf.
  Qed.

  Ltac fin := eexists; eexists; split; [reflexivity|split; [reflexivity|]].

  Lemma Q_id x : Q (EId x).
  Proof.
    intros _ L1 L2 m bound st HE HFV. cbn [free_vars] in HFV.
    unfold Sim. cbn [subst].
    destruct (special_name x) eqn:Hsp.
    - (* never looked up, never inlined *)
      assert (Hm : rec_get m x = None) by (destruct HE as (_ & [Hs _] & _); exact (Hs x Hsp)).
      rewrite Hm. cbn [Eval.evalE]. unfold special_name in Hsp.
      destruct (String.eqb x "infinity" || String.eqb x "inf")%bool eqn:E1.
      + fin. intros v E; inversion E; reflexivity.
      + try rewrite E1 in Hsp. cbn [orb] in Hsp. rewrite Hsp. fin. intros v E; inversion E; reflexivity.
    - assert (Hmem : mem x bound = true).
      { unfold special_name in Hsp. destruct (mem x bound); [reflexivity|].
        cbn [orb] in HFV. rewrite Hsp in HFV. discriminate. }
      destruct (ident_sim L1 L2 m bound x HE Hmem) as (v & E1 & Hlf & Hm).
      unfold special_name in Hsp. apply orb_false_elim in Hsp as [Hsp E3].
      destruct (rec_get m x) eqn:Em.
      + destruct Hm as [-> Hem]. cbn [Eval.evalE snd fst]. rewrite Hsp, E3, E1.
        rewrite (lit_roundtrip release binop_impl apply nanfix true v Hem). cbn.
        fin. intros w E; inversion E; subst; exact Hlf.
      + cbn [Eval.evalE snd fst]. rewrite Hsp, E3, E1, Hm. cbn.
        fin. intros w E; inversion E; subst; exact Hlf.
  Qed.

  (* ---- lists of sub-expressions ---- *)
  Lemma evalCL_sim items : Forall (fun c => Q (cnode c)) items ->
    Forall (fun c => first_order_body (cnode c) = true) items ->
    forall L1 L2 m bound, Env bound L1 L2 m ->
    Forall (fun c => free_vars (cnode c) bound = []) items ->
    forall st, exists r st',
      evalCL evalE (st, F1 L1) items = (r, (st', F1 L1)) /\
      evalCL evalE (st, F2 L2) (subst_items m items) = (r, (st', F2 L2)) /\
      (forall vs, r = Ok vs -> lfs vs = true).
  Proof.
    intros HQ. induction HQ as [|[a n t] l Hn Hl IH]; intros Hf L1 L2 m bound HE HV st.
    - cbn. fin. intros vs E; inversion E; reflexivity.
    - pose proof (Forall_inv Hf) as Hf1. pose proof (Forall_inv_tail Hf) as Hf2.
      pose proof (Forall_inv HV) as HV1. pose proof (Forall_inv_tail HV) as HV2.
      cbn [cnode] in Hn, Hf1, HV1. cbn [evalCL subst_items].
      destruct (Hn Hf1 L1 L2 m bound st HE HV1) as (r & st1 & E1 & E2 & Hlf). rewrite E1, E2.
      destruct r as [v| | | |]; try (cbn [cast_fail]; fin; discriminate).
      destruct (IH Hf2 L1 L2 m bound HE HV2 st1) as (r2 & st2 & E3 & E4 & Hlf2). rewrite E3, E4.
      destruct r2 as [vs| | | |]; try (fin; discriminate).
      fin. intros ws E; inversion E; subst. cbn. rewrite (Hlf v eq_refl). exact (Hlf2 vs eq_refl).
  Qed.

  Lemma evalL_sim args : Forall Q args ->
    Forall (fun a => first_order_body a = true) args ->
    forall L1 L2 m bound, Env bound L1 L2 m ->
    Forall (fun a => free_vars a bound = []) args ->
    forall st, exists r st',
      evalL evalE (st, F1 L1) args = (r, (st', F1 L1)) /\
      evalL evalE (st, F2 L2) (subst_args m args) = (r, (st', F2 L2)) /\
      (forall vs, r = Ok vs -> lfs vs = true).
  Proof.
    intros HQ. induction HQ as [|n l Hn Hl IH]; intros Hf L1 L2 m bound HE HV st.
    - cbn. fin. intros vs E; inversion E; reflexivity.
    - pose proof (Forall_inv Hf) as Hf1. pose proof (Forall_inv_tail Hf) as Hf2.
      pose proof (Forall_inv HV) as HV1. pose proof (Forall_inv_tail HV) as HV2.
      cbn [evalL subst_args].
      destruct (Hn Hf1 L1 L2 m bound st HE HV1) as (r & st1 & E1 & E2 & Hlf). rewrite E1, E2.
      destruct r as [v| | | |]; try (cbn [cast_fail]; fin; discriminate).
      destruct (IH Hf2 L1 L2 m bound HE HV2 st1) as (r2 & st2 & E3 & E4 & Hlf2). rewrite E3, E4.
      destruct r2 as [vs| | | |]; try (fin; discriminate).
      fin. intros ws E; inversion E; subst. cbn. rewrite (Hlf v eq_refl). exact (Hlf2 vs eq_refl).
  Qed.

  Definition Qentry (c : commented rentry) : Prop :=
    match cnode c with
    | REntry k v => (match k with KDyn e | KSpread e => Q e | _ => True end) /\ Q v
    end.

  Lemma evalRec_sim es : Forall Qentry es ->
    Forall (fun c => match cnode c with REntry k v => fob_entry k v = true end) es ->
    forall L1 L2 m bound, Env bound L1 L2 m ->
    Forall (fun c => match cnode c with REntry k v => fv_entry bound k v = [] end) es ->
    forall acc st, forallb (fun kv => lf (snd kv)) acc = true ->
    exists r st',
      evalRecL evalE (st, F1 L1) acc es = (r, (st', F1 L1)) /\
      evalRecL evalE (st, F2 L2) acc (subst_entries m es) = (r, (st', F2 L2)) /\
      (forall v, r = Ok v -> lf v = true).
  Proof.
    intros HQ. induction HQ as [|[a [k v] t] l Hn Hl IH]; intros Hf L1 L2 m bound HE HV acc st Hacc.
    - cbn. fin. intros w E; inversion E; subst. exact Hacc.
    - pose proof (Forall_inv Hf) as Hf1. pose proof (Forall_inv_tail Hf) as Hf2.
      pose proof (Forall_inv HV) as HV1. pose proof (Forall_inv_tail HV) as HV2.
      unfold Qentry in Hn. cbn [cnode] in Hn, Hf1, HV1. destruct Hn as [Hk Hv].
      cbn [evalRecL subst_entries]. destruct k as [key|ke|x|se]; cbn [subst_entry fob_entry fv_entry] in *.
      + (* static key *)
        destruct (Hv Hf1 L1 L2 m bound st HE HV1) as (r & st1 & E1 & E2 & Hlf). rewrite E1, E2.
        destruct r as [w| | | |]; try (fin; discriminate).
        apply (IH Hf2 L1 L2 m bound HE HV2). apply lf_rec_insert; auto.
      + (* computed key *)
        apply andb_prop in Hf1 as [Fa Fb]. apply app_eq_nil in HV1 as [Va Vb].
        destruct (Hk Fa L1 L2 m bound st HE Va) as (r & st1 & E1 & E2 & Hlf). rewrite E1, E2.
        destruct r as [kv| | | |]; try (fin; discriminate).
        destruct (as_string kv) as [key| | | |]; try (cbn [cast_fail]; fin; discriminate).
        destruct (Hv Fb L1 L2 m bound st1 HE Vb) as (r2 & st2 & E3 & E4 & Hlf2). rewrite E3, E4.
        destruct r2 as [w| | | |]; try (fin; discriminate).
        apply (IH Hf2 L1 L2 m bound HE HV2). apply lf_rec_insert; auto.
      + (* shorthand: the variable is looked up / its literal is written *)
        assert (Hmem : mem x bound = true) by (destruct (mem x bound); [reflexivity|discriminate]).
        destruct (ident_sim L1 L2 m bound x HE Hmem) as (w & E1 & Hlfw & Hm).
        cbn [snd]. rewrite E1. destruct (rec_get m x) eqn:Em.
        * destruct Hm as [-> Hem]. cbn [evalRecL].
          rewrite (lit_roundtrip release binop_impl apply nanfix true w Hem).
          apply (IH Hf2 L1 L2 m bound HE HV2). apply lf_rec_insert; auto.
        * cbn [evalRecL snd]. rewrite Hm.
          apply (IH Hf2 L1 L2 m bound HE HV2). apply lf_rec_insert; auto.
      + (* spread *)
        destruct (Hk Hf1 L1 L2 m bound st HE HV1) as (r & st1 & E1 & E2 & Hlf). rewrite E1, E2.
        destruct r as [w| | | |]; try (fin; discriminate).
        apply (IH Hf2 L1 L2 m bound HE HV2). apply lf_rec_insert_all; auto.
        apply lf_record_spread_entries. auto.
  Qed.

  (* ---- do-blocks ---- *)
  Definition not_assign (e : expr) : bool := match e with EAssign _ _ => false | _ => true end.
  Definition fv_do (ret : expr) :=
    fix go (l : list (commented expr)) (bnd : list string) : list string :=
      match l with
      | [] => free_vars ret bnd
      | Cm _ s _ :: r =>
          match s with
          | EAssign x v => free_vars v bnd ++ go r (x :: bnd)
          | _ => free_vars s bnd ++ go r bnd
          end
      end.
  Definition fob_stmts :=
    fix go (l : list (commented expr)) : bool :=
      match l with
      | [] => true
      | Cm _ a _ :: r =>
          (match a with EAssign _ v => first_order_body v | _ => first_order_body a end) && go r
      end.
  Lemma fv_EDo stmts a ret t b : free_vars (EDo stmts (Cm a ret t)) b = fv_do ret stmts b.
  Proof. reflexivity. Qed.
  Lemma fob_EDo stmts a ret t :
    first_order_body (EDo stmts (Cm a ret t)) = fob_stmts stmts && first_order_body ret.
  Proof. reflexivity. Qed.
  Lemma na_do_step (ev : cfg -> expr -> result) c s : not_assign s = true -> do_step ev c s = ev c s.
  Proof. destruct s; try reflexivity; discriminate. Qed.
  Lemma na_step_map m s : not_assign s = true -> do_step_map true m s = m.
  Proof. destruct s; try reflexivity; discriminate. Qed.
  Lemma na_fv_do ret a s t l b : not_assign s = true ->
    fv_do ret (Cm a s t :: l) b = free_vars s b ++ fv_do ret l b.
  Proof. destruct s; try reflexivity; discriminate. Qed.
  Lemma na_fob a s t l : not_assign s = true ->
    fob_stmts (Cm a s t :: l) = first_order_body s && fob_stmts l.
  Proof. destruct s; try reflexivity; discriminate. Qed.
  Lemma assign_or_not s : (exists x v, s = EAssign x v) \/ not_assign s = true.
  Proof. destruct s; try (right; reflexivity). left; eauto. Qed.
  Lemma fob_not_assign e : first_order_body e = true -> not_assign e = true.
  Proof. destruct e; try reflexivity; discriminate. Qed.

  Lemma concat_ast_na l : forall acc, not_assign acc = true -> not_assign (concat_ast acc l) = true.
  Proof. induction l as [|p l IH]; intros acc H; cbn; [exact H|]. apply IH. reflexivity. Qed.
  Lemma lit_not_assign v : not_assign (lit v) = true.
  Proof.
    destruct v; try reflexivity.
    - cbn. unfold num_to_ast. destruct x as [[|]|[|]| |[|] ? ?]; cbn; try reflexivity; destruct nanfix; reflexivity.
    - cbn. unfold str_to_ast. destruct (both_quotes s); [|reflexivity].
      destruct (split_dq s ""); [reflexivity|]. apply concat_ast_na. reflexivity.
  Qed.
  Lemma subst_not_assign m e : msp m -> first_order_body e = true ->
    not_assign (subst true m e) = true.
  Proof.
    intros [_ Hm] Hf. destruct e; try reflexivity; try discriminate.
    - cbn. destruct (rec_get m x) eqn:E; [|reflexivity].
      destruct (Hm x e E) as [v ->]. apply lit_not_assign.
    - cbn. destruct ret. reflexivity.
  Qed.
  Lemma name_lf n0 st v x : lf v = true -> name_if_created n0 st v x = st.
  Proof. destruct v; try reflexivity; discriminate. Qed.

  Definition do_body (c : cfg) (stmts : list (commented expr)) (ret : expr) : result :=
    match evalDoL evalE c stmts with
    | (Ok _, c1) => do_step evalE c1 ret
    | (o, c1) => (cast_fail o, c1)
    end.

  Lemma msp_remove m x : msp m -> msp (smap_remove m x).
  Proof.
    intros [A B]. split.
    - intros y Hy. rewrite rec_get_remove. destruct (String.eqb y x); auto.
    - intros y a. rewrite rec_get_remove. destruct (String.eqb y x); [discriminate|apply B].
  Qed.
  Lemma Env_bind bound f1 f2 L1 L2 m x v : lf v = true ->
    Env bound ((FOwned, f1) :: L1) ((FOwned, f2) :: L2) m ->
    Env (x :: bound) ((FOwned, (x, v) :: f1) :: L1) ((FOwned, (x, v) :: f2) :: L2) (smap_remove m x).
  Proof.
    intros Hv (HI & Hm & HB & HA). repeat split.
    - intros y Hy. rewrite rec_get_remove. cbn [lookup lookup_frame].
      destruct (String.eqb y x) eqn:E; [reflexivity|].
      cbn [mem existsb] in Hy. rewrite E in Hy. exact (HI y Hy).
    - apply (msp_remove m x Hm).
    - apply (msp_remove m x Hm).
    - intros y Hy. cbn [lookup lookup_frame]. destruct (String.eqb y x) eqn:E.
      + left. exists v. auto.
      + cbn [mem existsb] in Hy. rewrite E in Hy. exact (HB y Hy).
    - intros y u Hy. cbn [lookup lookup_frame]. destruct (String.eqb y x) eqn:E; [auto|].
      cbn [mem existsb] in Hy. rewrite E in Hy. exact (HA y u Hy).
  Qed.

  Lemma do_sim stmts : Forall (fun c => P (cnode c)) stmts ->
    forall ret, Q ret -> first_order_body ret = true -> fob_stmts stmts = true ->
    forall f1 f2 L1 L2 m bound st, Env bound ((FOwned, f1) :: L1) ((FOwned, f2) :: L2) m ->
      fv_do ret stmts bound = [] ->
      exists r st' f1' f2',
        do_body (st, (FOwned, f1) :: F1 L1) stmts ret = (r, (st', (FOwned, f1') :: F1 L1)) /\
        do_body (st, (FOwned, f2) :: F2 L2) (subst_stmts stmts m)
                (subst true (do_final_map true m stmts) ret) = (r, (st', (FOwned, f2') :: F2 L2)) /\
        (forall v, r = Ok v -> lf v = true).
  Proof.
    intros HP. induction HP as [|[a s t] l Hs Hl IH]; intros ret HQr Hfr Hfs f1 f2 L1 L2 m bound st HE HV.
    - cbn [fv_do] in HV. unfold do_body. cbn [evalDoL subst_stmts do_final_map].
      rewrite na_do_step by (now apply fob_not_assign).
      rewrite na_do_step by (apply subst_not_assign; [apply HE|exact Hfr]).
      destruct (HQr Hfr _ _ m bound st HE HV) as (r & st1 & E1 & E2 & Hlf).
      cbn [app] in E1, E2. rewrite E1, E2. exists r, st1, f1, f2. auto.
    - cbn [cnode] in Hs. destruct Hs as [HQs HAs].
      destruct (assign_or_not s) as [(x & v & ->)|Hna].
      + (* x = v : binds x in the block frame; x is no longer inlined *)
        cbn [fob_stmts] in Hfs. apply andb_prop in Hfs as [Hf1 Hf2].
        cbn [fv_do] in HV. apply app_eq_nil in HV as [HV1 HV2].
        unfold do_body. cbn [evalDoL subst_stmts do_final_map do_step_map subst do_step].
        destruct (mem x do_assign_keywords).
        { cbn [cast_fail]. exists Err, st, f1, f2. repeat split; discriminate. }
        unfold assign_value.
        destruct (HAs x v eq_refl Hf1 _ _ m bound st HE HV1) as (r & st1 & E1 & E2 & Hlf).
        cbn [app] in E1, E2. rewrite E1, E2.
        destruct r as [w| | | |];
          try (cbn [cast_fail]; eexists _, st1, f1, f2; repeat split; discriminate).
        unfold bind_value. cbn [snd fst insert_head]. rewrite (name_lf _ st1 w x (Hlf w eq_refl)).
        destruct (IH ret HQr Hfr Hf2 ((x, w) :: f1) ((x, w) :: f2) L1 L2 (smap_remove m x) (x :: bound) st1
                     (Env_bind bound f1 f2 L1 L2 m x w (Hlf w eq_refl) HE) HV2)
          as (r & st2 & g1 & g2 & E3 & E4 & Hlf2).
        unfold do_body in E3, E4. exists r, st2, g1, g2. auto.
      + rewrite (na_fob a s t l Hna) in Hfs. apply andb_prop in Hfs as [Hf1 Hf2].
        rewrite (na_fv_do ret a s t l bound Hna) in HV. apply app_eq_nil in HV as [HV1 HV2].
        unfold do_body. cbn [evalDoL subst_stmts do_final_map]. rewrite (na_step_map m s Hna).
        rewrite na_do_step by exact Hna.
        rewrite na_do_step by (apply subst_not_assign; [apply HE|exact Hf1]).
        destruct (HQs Hf1 _ _ m bound st HE HV1) as (r & st1 & E1 & E2 & Hlf).
        cbn [app] in E1, E2. rewrite E1, E2.
        destruct r as [w| | | |];
          try (cbn [cast_fail]; eexists _, st1, f1, f2; repeat split; discriminate).
        destruct (IH ret HQr Hfr Hf2 f1 f2 L1 L2 m bound st1 HE HV2) as (r & st2 & g1 & g2 & E3 & E4 & Hlf2).
        unfold do_body in E3, E4. exists r, st2, g1, g2. auto.
  Qed.

  Lemma evalE_EDo c stmts a ret t :
    evalE c (EDo stmts (Cm a ret t)) =
    (fst (do_body (fst c, (FOwned, []) :: snd c) stmts ret),
     (fst (snd (do_body (fst c, (FOwned, []) :: snd c) stmts ret)), snd c)).
  Proof. reflexivity. Qed.
  Lemma pair_proj {A B C} (x : A * (B * C)) (a : A) (b : B) (c d : C) :
    x = (a, (b, c)) -> (fst x, (fst (snd x), d)) = (a, (b, d)).
  Proof. intros ->. reflexivity. Qed.
  Lemma Env_push bound L1 L2 m : Env bound L1 L2 m ->
    Env bound ((FOwned, []) :: L1) ((FOwned, []) :: L2) m.
  Proof. intros (HI & Hm & HB & HA). repeat split; try apply Hm; [intros x Hx; exact (HI x Hx)|intros x Hx; exact (HB x Hx)|intros x v Hx; exact (HA x v Hx)]. Qed.

  Ltac failcase := try (cbn [cast_fail]; fin; discriminate).

  Theorem sim_all : forall e, P e.
  Proof.
    induction e using expr_ind'; (split; [|intros x0 v0 Heq; try discriminate]).
    - intros _ L1 L2 m bound st _ _. cbn. fin. intros v E; inversion E; reflexivity.
    - intros _ L1 L2 m bound st _ _. cbn. fin. intros v E; inversion E; reflexivity.
    - intros _ L1 L2 m bound st _ _. cbn. fin. intros v E; inversion E; reflexivity.
    - intros _ L1 L2 m bound st _ _. cbn. fin. intros v E; inversion E; reflexivity.
    - apply Q_id.
    - intros Hf; discriminate.
    - intros _ L1 L2 m bound st _ _. cbn. fin. intros v E; inversion E; reflexivity.
    - (* list *)
      intros Hf L1 L2 m bound st HE HV. unfold Sim. rewrite subst_EList. cbn [Eval.evalE].
      assert (HQ : Forall (fun c => Q (cnode c)) items).
      { eapply Forall_impl; [|exact H]. intros c Hc. exact (proj1 Hc). }
      destruct (evalCL_sim items HQ (fob_EList items Hf) L1 L2 m bound HE (fv_EList items bound HV) st)
        as (r & st1 & E1 & E2 & Hlf).
      rewrite E1, E2. cbn [fst snd]. fin.
      intros v E. destruct r; cbn in E; inversion E; subst. rewrite lf_list. apply lfs_flatten. auto.
    - (* record *)
      intros Hf L1 L2 m bound st HE HV. unfold Sim. rewrite subst_ERec. cbn [Eval.evalE].
      assert (HQ : Forall Qentry entries).
      { eapply Forall_impl; [|exact H]. intros [a [k v] t] Hc. unfold Qentry. cbn in *.
        destruct Hc as [Hk Hv]. split; [|exact (proj1 Hv)]. destruct k; auto; exact (proj1 Hk). }
      apply (evalRec_sim entries HQ (fob_ERec entries Hf) L1 L2 m bound HE (fv_ERec entries bound HV)).
      reflexivity.
    - intros Hf; discriminate.
    - (* conditional *)
      intros Hf L1 L2 m bound st HE HV. cbn [first_order_body] in Hf. cbn [free_vars] in HV.
      apply andb_prop in Hf as [Hf Hf3]. apply andb_prop in Hf as [Hf1 Hf2].
      apply app_eq_nil in HV as [HV1 HV]. apply app_eq_nil in HV as [HV2 HV3].
      unfold Sim. cbn [subst Eval.evalE].
      destruct (proj1 IHe1 Hf1 L1 L2 m bound st HE HV1) as (r & st1 & E1 & E2 & Hlf). rewrite E1, E2.
      destruct r as [cv| | | |]; try (fin; discriminate).
      destruct (as_bool cv) as [[|]| | | |]; failcase.
      + apply (proj1 IHe2 Hf2 L1 L2 m bound st1 HE HV2).
      + apply (proj1 IHe3 Hf3 L1 L2 m bound st1 HE HV3).
    - (* do-block *)
      intros Hf L1 L2 m bound st HE HV. destruct ret as [rl ret rt]. cbn [cnode] in IHe.
      rewrite fob_EDo in Hf. apply andb_prop in Hf as [Hfs Hfr]. rewrite fv_EDo in HV.
      unfold Sim. rewrite subst_EDo. rewrite !evalE_EDo. cbn [fst snd].
      destruct (do_sim stmts H ret (proj1 IHe) Hfr Hfs [] [] L1 L2 m bound st (Env_push bound L1 L2 m HE) HV)
        as (r & st1 & f1 & f2 & E1 & E2 & Hlf).
      exists r, st1. split; [exact (pair_proj _ _ _ _ _ E1)|split; [exact (pair_proj _ _ _ _ _ E2)|exact Hlf]].
    - intros Hf; discriminate.
    - inversion Heq; subst. exact (proj1 IHe).
    - intros Hf; discriminate.
    - (* call *)
      intros Hf L1 L2 m bound st HE HV. unfold Sim. rewrite subst_ECall. cbn [Eval.evalE].
      destruct (fob_args _ _ Hf) as [Hff Hfa]. destruct (fv_args _ _ _ HV) as [HVf HVa].
      destruct (proj1 IHe Hff L1 L2 m bound st HE HVf) as (r & st1 & E1 & E2 & Hlf). rewrite E1, E2.
      destruct r as [fv| | | |]; try (fin; discriminate).
      assert (HQ : Forall Q args) by (eapply Forall_impl; [|exact H]; intros c Hc; exact (proj1 Hc)).
      destruct (evalL_sim args HQ Hfa L1 L2 m bound HE HVa st1) as (r2 & st2 & E3 & E4 & Hlf2).
      rewrite E3, E4. destruct r2 as [raw| | | |]; failcase.
      destruct (negb (is_function fv)); [fin; discriminate|].
      pose proof (Hlf fv eq_refl) as Hfv. pose proof (lfs_flatten raw (Hlf2 raw eq_refl)) as Hargs.
      rewrite (Happ_ext (F1 L1) (F2 L2) fv fv (flatten_spreads raw) st2 Hfv Hfv Hargs).
      destruct (apply (F2 L2) fv fv (flatten_spreads raw) st2) as [res st3] eqn:EA.
      fin. intros v E; subst. eapply (Happ_lf (F2 L2)); eauto.
    - (* index *)
      intros Hf L1 L2 m bound st HE HV. cbn [first_order_body] in Hf. cbn [free_vars] in HV.
      apply andb_prop in Hf as [Hf1 Hf2]. apply app_eq_nil in HV as [HV1 HV2].
      unfold Sim. cbn [subst Eval.evalE].
      destruct (proj1 IHe1 Hf1 L1 L2 m bound st HE HV1) as (r & st1 & E1 & E2 & Hlf). rewrite E1, E2.
      destruct r as [v| | | |]; try (fin; discriminate).
      destruct (proj1 IHe2 Hf2 L1 L2 m bound st1 HE HV2) as (r2 & st2 & E3 & E4 & Hlf2). rewrite E3, E4.
      destruct r2 as [i| | | |]; try (fin; discriminate).
      fin. intros w E. eapply lf_access_val; eauto.
    - (* field *)
      intros Hf L1 L2 m bound st HE HV. cbn [first_order_body] in Hf. cbn [free_vars] in HV.
      unfold Sim. cbn [subst Eval.evalE].
      destruct (proj1 IHe Hf L1 L2 m bound st HE HV) as (r & st1 & E1 & E2 & Hlf). rewrite E1, E2.
      destruct r as [v| | | |]; try (fin; discriminate).
      fin. intros w E. eapply lf_dot_val; eauto.
    - (* binary operator *)
      intros Hf L1 L2 m bound st HE HV. cbn [first_order_body] in Hf. cbn [free_vars] in HV.
      apply andb_prop in Hf as [Hf1 Hf2]. apply app_eq_nil in HV as [HV1 HV2].
      unfold Sim. cbn [subst Eval.evalE].
      destruct (proj1 IHe1 Hf1 L1 L2 m bound st HE HV1) as (r & st1 & E1 & E2 & Hlf). rewrite E1, E2.
      destruct r as [lv| | | |]; try (fin; discriminate).
      destruct (proj1 IHe2 Hf2 L1 L2 m bound st1 HE HV2) as (r2 & st2 & E3 & E4 & Hlf2). rewrite E3, E4.
      destruct r2 as [rv| | | |]; try (fin; discriminate).
      rewrite (Hbin_ext (apply (F1 L1)) (apply (F2 L2)) op lv rv st2 (Happ_ext _ _) (Happ_lf _) (Hlf lv eq_refl) (Hlf2 rv eq_refl)).
      destruct (binop_impl (apply (F2 L2)) op lv rv st2) as [res st3] eqn:EB.
      fin. intros v E; subst. exact (Hbin_lf (apply (F2 L2)) op lv rv st2 v st3 (Happ_lf _) (Hlf lv eq_refl) (Hlf2 rv eq_refl) EB).
    - (* unary operator *)
      intros Hf L1 L2 m bound st HE HV. cbn [first_order_body] in Hf. cbn [free_vars] in HV.
      unfold Sim. cbn [subst Eval.evalE].
      destruct (proj1 IHe Hf L1 L2 m bound st HE HV) as (r & st1 & E1 & E2 & Hlf). rewrite E1, E2.
      destruct r as [v| | | |]; try (fin; discriminate).
      fin. intros w E. destruct op; [destruct (as_number v)|destruct (as_bool v)|destruct (as_bool v)];
        cbn in E; inversion E; reflexivity.
    - (* factorial *)
      intros Hf L1 L2 m bound st HE HV. cbn [first_order_body] in Hf. cbn [free_vars] in HV.
      unfold Sim. cbn [subst Eval.evalE].
      destruct (proj1 IHe Hf L1 L2 m bound st HE HV) as (r & st1 & E1 & E2 & Hlf). rewrite E1, E2.
      destruct r as [v| | | |]; try (fin; discriminate).
      fin. intros w E. destruct (as_number v); cbn in E; try discriminate. eapply lf_factorial; eauto.
    - (* spread *)
      intros Hf L1 L2 m bound st HE HV. cbn [first_order_body] in Hf. cbn [free_vars] in HV.
      unfold Sim. cbn [subst Eval.evalE].
      destruct (proj1 IHe Hf L1 L2 m bound st HE HV) as (r & st1 & E1 & E2 & Hlf). rewrite E1, E2.
      destruct r as [v| | | |]; try (fin; discriminate).
      fin. intros w E. eapply lf_spread_val; eauto.
  Qed.
End Sound.

(* ------------------------------------------------------------------ binding the parameters *)
Lemma bind_params_none_iff ps : forall idx args acc acc',
  bind_params ps idx args acc = None <-> bind_params ps idx args acc' = None.
Proof.
  induction ps as [|p ps IH]; intros idx args acc acc'; cbn [bind_params]; [split; discriminate|].
  destruct p as [x|x|x]; [destruct (nth_error args idx); [apply IH|tauto]|apply IH|apply IH].
Qed.
Lemma lfs_nth_error (l : list value) k v : lfs l = true -> nth_error l k = Some v -> lf v = true.
Proof.
  revert k. induction l as [|x l IH]; intros [|k] H E; cbn in *; try discriminate;
    apply andb_prop in H as [A B]; [inversion E; subst; exact A|eauto].
Qed.
Lemma lfs_skipn (l : list value) k : lfs l = true -> lfs (skipn k l) = true.
Proof.
  revert k. induction l as [|x l IH]; intros [|k] H; cbn in *; auto.
  apply andb_prop in H as [A B]. auto.
Qed.
(* every parameter name ends up bound to a lambda-free value, the same in both runs *)
Lemma bind_params_good ps : forall idx args acc acc' fr fr',
  lfs args = true ->
  bind_params ps idx args acc = Some fr -> bind_params ps idx args acc' = Some fr' ->
  forall x, (In x (map arg_name ps) \/
             (exists v, lookup_frame acc x = Some v /\ lookup_frame acc' x = Some v /\ lf v = true)) ->
    exists v, lookup_frame fr x = Some v /\ lookup_frame fr' x = Some v /\ lf v = true.
Proof.
  induction ps as [|p ps IH]; intros idx args acc acc' fr fr' Ha H H' x Hx; cbn [bind_params] in *.
  - inversion H; inversion H'; subst. destruct Hx as [[]|Hx]. exact Hx.
  - assert (Hgen : forall pv, lf pv = true ->
      In x (map arg_name ps) \/
      (exists v, lookup_frame ((arg_name p, pv) :: acc) x = Some v /\
                 lookup_frame ((arg_name p, pv) :: acc') x = Some v /\ lf v = true)).
    { intros pv Hpv. cbn [map In] in Hx. cbn [lookup_frame].
      destruct (String.eqb_spec x (arg_name p)) as [->|Hne].
      - right. exists pv. auto.
      - destruct Hx as [[E|Hin]|Hacc]; [congruence|left; exact Hin|right; exact Hacc]. }
    destruct p as [y|y|y]; cbn [arg_name] in *.
    + destruct (nth_error args idx) eqn:E; [|discriminate].
      eapply IH; eauto. apply Hgen. eapply lfs_nth_error; eauto.
    + eapply IH; eauto. apply Hgen. destruct (nth_error args idx) eqn:E; [eapply lfs_nth_error; eauto|reflexivity].
    + eapply IH; eauto. apply Hgen. rewrite lf_list. now apply lfs_skipn.
Qed.

(* ------------------------------------------------------------------ the evaluator at depth d *)
Section Top.
  Variable release : bool.
  Variable binop_impl : callback -> binop -> value -> value -> store -> outcome value * store.
  Variable builtin_impl : callback -> builtin -> list value -> store -> outcome value * store.
  Notation AD := (AD release binop_impl builtin_impl).

  (* what is assumed of the operator / built-in implementations *)
  Definition impl_lf_respecting : Prop :=
    (forall cb cb' op l r st, cb_lf_equiv cb cb' -> cb_lf_closed cb -> lf l = true -> lf r = true ->
       binop_impl cb op l r st = binop_impl cb' op l r st) /\
    (forall cb op l r st v st', cb_lf_closed cb -> lf l = true -> lf r = true ->
       binop_impl cb op l r st = (Ok v, st') -> lf v = true) /\
    (forall cb cb' b args st, cb_lf_equiv cb cb' -> cb_lf_closed cb -> lfs args = true ->
       builtin_impl cb b args st = builtin_impl cb' b args st) /\
    (forall cb b args st v st', cb_lf_closed cb -> lfs args = true ->
       builtin_impl cb b args st = (Ok v, st') -> lf v = true).
  Hypothesis Himpl : impl_lf_respecting.

  Lemma too_deep_closed : cb_lf_closed (fun _ f a s => call_too_deep f a s).
  Proof. intros this f args st v st' _ _ _ E. unfold call_too_deep in E. destruct (check_arity _ _); discriminate. Qed.

  Definition ADok (d : nat) : Prop :=
    (forall fr fr', cb_lf_equiv (AD d fr) (AD d fr')) /\ (forall fr, cb_lf_closed (AD d fr)).

  Lemma AD_lf_two : forall d, ADok d /\ ADok (S d).
  Proof.
    destruct Himpl as (_ & _ & Hbe & Hbl).
    assert (Hstep : forall d' (cbf : frames -> callback),
               (forall fr fr', cb_lf_equiv (cbf fr) (cbf fr')) -> (forall fr, cb_lf_closed (cbf fr)) ->
               (forall fr, AD (S d') fr = apply_at builtin_impl (Some (evalE release binop_impl (AD d'), cbf fr)) fr) ->
               ADok (S d')).
    { intros d' cbf He Hc Hdef. split.
      - intros fr fr' this f args st Hthis Hf Hargs. rewrite !Hdef. unfold apply_at.
        destruct (negb (check_arity f (Datatypes.length args))); [reflexivity|].
        destruct f; try reflexivity; try discriminate. cbn [call_passed]. apply Hbe; auto.
      - intros fr this f args st v st' Hthis Hf Hargs. rewrite Hdef. unfold apply_at.
        destruct (negb (check_arity f (Datatypes.length args))); [discriminate|].
        destruct f; try discriminate. cbn [call_passed]. apply Hbl; auto. }
    induction d as [|d [IH0 IH1]].
    - split.
      + split.
        * intros fr fr' this f args st _ _ _. cbn. reflexivity.
        * intros fr this f args st v st' _ _ _ E. cbn in E. unfold apply_at in E.
          destruct (negb _); discriminate.
      + apply (Hstep O (fun _ => fun _ f a s => call_too_deep f a s)).
        * intros fr fr' this f args st _ _ _. reflexivity.
        * intros fr. apply too_deep_closed.
        * intros fr. reflexivity.
    - split; [exact IH1|].
      apply (Hstep (S d) (fun fr => AD d fr)).
      + apply IH0.
      + apply IH0.
      + intros fr. reflexivity.
  Qed.
  Lemma AD_lf d : ADok d.
  Proof. exact (proj1 (AD_lf_two d)). Qed.

  (* P2, first-order part: a call of the original closure and a call of the reloaded emission
     give the same outcome and the same store — at every depth, from any two call sites *)
  Theorem emit_equiv_first_order : forall nanfix d fr fr' this this' id id' params body sv args st,
    first_order_body body = true ->
    free_vars body (map arg_name params ++ map fst sv) = [] ->
    forallb (fun kv => emittable_gen (snd kv)) sv = true ->
    (forall x, special_name x = true -> rec_get sv x = None) ->
    (forall x, In x (map arg_name params) -> rec_get sv x = None) ->
    rec_get sv "inputs"%string = None ->
    (forall n, lam_name st id = Some n -> rec_get sv n = None) ->
    lfs args = true ->
    AD d fr this (VLam id params body sv) args st =
    AD d fr' this' (VLam id' params (subst true (scope_map nanfix true sv) body) []) args st.
  Proof.
    intros nanfix d fr fr' this this' id id' params body sv args st
           Hfob Hfv Hem Hsp Hpar Hinp Hself Hargs.
    destruct d as [|d']; [reflexivity|].
    cbn [Eval.AD]. unfold apply_at. cbn [check_arity accepts fn_arity].
    destruct (negb (can_accept (lambda_arity params) (Datatypes.length args))); [reflexivity|].
    cbn [call_passed].
    (* the self reference is installed on both sides: the original's name is not captured (Hself),
       the reloaded function captures nothing *)
    assert (Hs1 : match lam_name st id with
                  | Some n => match lookup_frame sv n with Some _ => [] | None => [(n, this)] end
                  | None => []
                  end = match lam_name st id with Some n => [(n, this)] | None => [] end).
    { destruct (lam_name st id) as [n0|] eqn:En; [|reflexivity].
      rewrite lookup_frame_rec_get, (Hself n0 eq_refl). reflexivity. }
    rewrite Hs1.
    (* F9 repaired: `inputs` is not captured (Hinp), so the caller's `inputs` is copied on both sides *)
    rewrite (lookup_frame_rec_get sv "inputs"), Hinp. cbn [lookup_frame].
    set (acc := (match lookup fr "inputs" with Some i => [("inputs"%string, i)] | None => [] end ++
                 match lam_name st id with Some n => [(n, this)] | None => [] end)).
    set (acc' := (match lookup fr' "inputs" with Some i => [("inputs"%string, i)] | None => [] end ++
                  match lam_name st id' with Some n => [(n, this')] | None => [] end)).
    destruct (bind_params params 0 args acc) as [local|] eqn:EB.
    2:{ apply (bind_params_none_iff params 0 args acc acc') in EB. rewrite EB. reflexivity. }
    destruct (bind_params params 0 args acc') as [local'|] eqn:EB'.
    2:{ apply (bind_params_none_iff params 0 args acc' acc) in EB'. congruence. }
    destruct Himpl as (Hb1 & Hb2 & _ & _).
    destruct (AD_lf d') as [Hae Hac].
    (* names of the local frame that are not parameters are not captured *)
    assert (Hacc : forall x, rec_get sv x <> None -> lookup_frame acc x = None).
    { intros x Hx. unfold acc. destruct (lookup fr "inputs"); destruct (lam_name st id) eqn:En; cbn;
        repeat match goal with |- context [String.eqb x ?y] => destruct (String.eqb_spec x y); subst end;
        try reflexivity; try congruence; exfalso; apply Hx; auto. }
    set (bound := (map arg_name params ++ map fst sv)%list).
    change (free_vars body bound = []) in Hfv.
    assert (Hbound : forall x, mem x bound = true -> In x (map arg_name params) \/ rec_get sv x <> None).
    { intros x Hx. unfold bound, mem in Hx. rewrite existsb_app in Hx. apply orb_prop in Hx as [Hx|Hx].
      - left. apply existsb_exists in Hx as (y & Hy & E). apply String.eqb_eq in E. now subst.
      - right. apply existsb_exists in Hx as (y & Hy & E). apply String.eqb_eq in E. subst y.
        intros Hn. apply rec_get_None_notin in Hn. contradiction. }
    assert (HE : Env nanfix sv bound [(FOwned, local)] [(FOwned, local')] (scope_map nanfix true sv)).
    { repeat split.
      - intros x Hx. rewrite scope_map_get. cbn [lookup].
        destruct (Hbound x Hx) as [Hin|Hsv].
        + destruct (bind_params_good params 0 args acc acc' local local' Hargs EB EB' x (or_introl Hin))
            as (v & E1 & _ & _). rewrite E1. rewrite (Hpar x Hin). reflexivity.
        + destruct (lookup_frame local x) eqn:EL; [|reflexivity].
          assert (Hnp : ~ In x (map arg_name params)) by (intros Hin; apply Hsv; auto).
          rewrite (bind_params_keeps params 0 args acc local x EB Hnp), (Hacc x Hsv) in EL. discriminate.
      - intros x Hx. rewrite scope_map_get, (Hsp x Hx). reflexivity.
      - intros x a. rewrite scope_map_get. destruct (rec_get sv x); cbn; [|discriminate].
        intros E; inversion E. eauto.
      - intros x Hx. cbn [lookup]. destruct (Hbound x Hx) as [Hin|Hsv].
        + destruct (bind_params_good params 0 args acc acc' local local' Hargs EB EB' x (or_introl Hin))
            as (v & E1 & _ & Hv). left. exists v. rewrite E1. auto.
        + destruct (in_dec string_dec x (map arg_name params)) as [Hin|Hnp].
          * destruct (bind_params_good params 0 args acc acc' local local' Hargs EB EB' x (or_introl Hin))
              as (v & E1 & _ & Hv). left. exists v. rewrite E1. auto.
          * right. rewrite (bind_params_keeps params 0 args acc local x EB Hnp), (Hacc x Hsv). auto.
      - intros x v Hx. cbn [lookup]. destruct (lookup_frame local x) eqn:EL; [|discriminate].
        intros E; inversion E; subst v0.
        destruct (in_dec string_dec x (map arg_name params)) as [Hin|Hnp].
        + destruct (bind_params_good params 0 args acc acc' local local' Hargs EB EB' x (or_introl Hin))
            as (w & E1 & E2 & _). rewrite E2. congruence.
        + destruct (Hbound x Hx) as [Hin|Hsv]; [contradiction|].
          rewrite (bind_params_keeps params 0 args acc local x EB Hnp), (Hacc x Hsv) in EL. discriminate. }
    pose proof (fun R1 R2 => proj1 (sim_all release binop_impl (AD d') Hb1 Hb2 Hae Hac nanfix sv Hem R1 R2 body)) as HQ.
    unfold Q in HQ.
    assert (HEsame : Env nanfix sv bound [(FOwned, local)] [(FOwned, local)] (scope_map nanfix true sv)).
    { destruct HE as (A & B & C & D). repeat split; try apply B; auto. intros x v _ E; exact E. }
    destruct sv as [|kv0 sv0] eqn:Esv.
    - (* nothing captured: no shared frame; the inlined body is the body *)
      cbn [scope_map map] in *. rewrite subst_nil.
      destruct (HQ fr fr Hfob _ _ _ bound st HEsame Hfv) as (r & st1 & E1 & E2 & _).
      destruct (HQ fr fr' Hfob _ _ _ bound st HE Hfv) as (r' & st1' & E1' & E2' & _).
      rewrite subst_nil in E2, E2'. cbn [app] in *. rewrite E2, E2'. congruence.
    - rewrite <- Esv in *.
      destruct (HQ fr fr' Hfob _ _ _ bound st HE Hfv) as (r & st1 & E1 & E2 & _).
      cbn [app] in E1, E2. rewrite Esv in E1 at 2. rewrite E1, E2. reflexivity.
  Qed.
End Top.

(* ------------------------------------------------------------------ refutations (current code) *)
Require Import Blots.EvalInst Blots.Program.

(* F50: k = 5; f = x => do { y = k; k = x; return k + y }.  The current inlining (dofix = false)
   replaces the do-block local k by the captured 5 in `return k + y`. *)
Definition f50_body : expr :=
  EDo [Cm [] (EAssign "y" (EId "k")) None; Cm [] (EAssign "k" (EId "x")) None]
      (Cm [] (EBin Add (EId "k") (EId "y")) None).
Definition f50_fun : value := VLam 0 [AReq "x"%string] f50_body [("k"%string, VNum (nb 0x4014000000000000))].
Definition call_on (f : value) (arg : value) : outcome value :=
  fst (AD true binop_impl builtin_impl LIMIT [(FOwned, [])] f f [arg] [None; None]).
Definition reloaded (nanfix dofix : bool) (f : value) : value :=
  match emit_ast nanfix dofix f with
  | Some e => match reload_ast 1 e with Some v => v | None => VNull end
  | None => VNull
  end.

Lemma do_shadow_current_refuted :
  closed_after_capture f50_fun = true /\
  call_on f50_fun (VNum (nb 0x3ff0000000000000)) = Ok (VNum (nb 0x4018000000000000)) /\
  call_on (reloaded false false f50_fun) (VNum (nb 0x3ff0000000000000)) = Ok (VNum (nb 0x4024000000000000)).
Proof. vm_compute. repeat split; reflexivity. Qed.
(* ... and the repaired inlining (dofix = true) gives the original's 6 *)
Lemma do_shadow_fixed_witness :
  call_on (reloaded true true f50_fun) (VNum (nb 0x3ff0000000000000)) = Ok (VNum (nb 0x4018000000000000)).
Proof. vm_compute. reflexivity. Qed.

(* F15: the text `-5!` is read as -(5!); the inlined value is (-5)! *)
Lemma neg_postfix_refuted :
  fst (eval_release ([], [(FOwned, [])]) (EUn Negate (EFact (ENum (nb 0x4014000000000000)))))
    = Ok (VNum (nb 0xc05e000000000000)) /\
  fst (eval_release ([], [(FOwned, [])]) (EFact (EUn Negate (ENum (nb 0x4014000000000000))))) = Err.
Proof. vm_compute. split; reflexivity. Qed.

(* NaN and strings with both quote characters: their repaired literals are operator expressions,
   evaluated by the transcribed `/` and `+` *)
Lemma lit_nan_inst : forall c, eval_release c (value_to_ast true true (VNum nnan)) = (Ok (VNum nnan), c).
Proof. intros [st fr]. vm_compute. reflexivity. Qed.
Lemma lit_both_quotes_inst_example : forall c,
  eval_release c (value_to_ast true true (VStr (String dq (String sq "x")))) =
  (Ok (VStr (String dq (String sq "x"))), c).
Proof. intros [st fr]. vm_compute. reflexivity. Qed.

(* the hypothesis of emit_equiv_first_order is satisfiable by implementations that do call
   their callback: `+` on numbers, and a built-in that applies its second argument to its first *)
Definition ex_binop (cb : callback) (op : binop) (l r : value) (st : store) : outcome value * store :=
  match op, l, r with
  | Add, VNum a, VNum b => (Ok (VNum (nadd a b)), st)
  | Into, x, f => cb f f [x] st
  | _, _, _ => (Err, st)
  end.
Definition ex_builtin (cb : callback) (b : builtin) (args : list value) (st : store) : outcome value * store :=
  match args with
  | [x; f] => cb f f [x] st
  | _ => (Err, st)
  end.
Lemma impl_lf_respecting_example : impl_lf_respecting ex_binop ex_builtin.
Proof.
  repeat split.
  - intros cb cb' op l r st H _ Hl Hr. destruct op; try reflexivity.
    cbn. apply H; auto. cbn. now rewrite Hl.
  - intros cb op l r st v st' H Hl Hr E. destruct op; try discriminate.
    + destruct l; try discriminate. destruct r; try discriminate. inversion E. reflexivity.
    + cbn in E. eapply H; eauto. cbn. now rewrite Hl.
  - intros cb cb' b args st H _ Ha. destruct args as [|x [|f [|? ?]]]; try reflexivity.
    cbn in *. apply andb_prop in Ha as [A B]. apply andb_prop in B as [B _]. apply H; auto. cbn. now rewrite A.
  - intros cb b args st v st' H Ha E. destruct args as [|x [|f [|? ?]]]; try discriminate.
    cbn in *. apply andb_prop in Ha as [A B]. apply andb_prop in B as [B _]. eapply H; eauto. cbn. now rewrite A.
Qed.
