(* AllLf.v — C05: the COMPLETE operator table and built-in set (EvalAll.binop_all o / builtin_all o, for
   every oracle o) satisfy the hypothesis of EmitSound.emit_equiv_first_order (impl_lf_respecting): on
   function-free values they treat their callback parametrically and return function-free results.
   LfInst.v shows this for EvalInst.builtin_impl (19 built-ins); here
     - the 35 further arms of EvalFull.builtin_full come from AllGenClosed.v (FullClosed.v / FullAgree.v
       generalised to an arbitrary predicate) instantiated with "contains no function", the full
       relation on stores;
     - the 17 new arms of EvalAll.v return a number, a string or null;
     - `^` through the oracle's powf is GenOps.eval_binop_agree (generic in powf). *)
From Coq Require Import String Ascii List ZArith Bool Lia.
Require Import Blots.Num Blots.gen.Builtins Blots.Ast Blots.Value Blots.Outcome Blots.Binop
               Blots.Env Blots.Eval Blots.BuiltinsHof Blots.Program Blots.EvalInst Blots.EvalFull Blots.EvalAll
               Blots.BuiltinsList Blots.Emit
               Blots.proofs.ValueInd Blots.proofs.GenOps Blots.proofs.EmitSound Blots.proofs.LfInst
               Blots.proofs.AllGenClosed.
Import ListNotations.
Open Scope list_scope.

Lemma lfp_VRec : forall st r, lfp st (VRec r) <-> closed_frame lfp st r.
Proof.
  intros st r. unfold lfp, closed_frame. rewrite lf_rec, forallb_forall, Forall_forall. reflexivity.
Qed.
Lemma lfp_VSpread : forall st w, lfp st (VSpread w) <-> lfp st w.
Proof. intros st w. unfold lfp. cbn [lf]. reflexivity. Qed.

(* ---- EvalFull.builtin_full ---- *)
Lemma builtin_full_lf : forall cb cb' b args st, cb_lf_equiv cb cb' -> cb_lf_closed cb -> lfs args = true ->
  builtin_full cb b args st = builtin_full cb' b args st /\
  (forall v st', builtin_full cb b args st = (Ok v, st') -> lf v = true).
Proof.
  intros cb cb' b args st He Hc Ha.
  destruct (builtin_full_agree0_gen anyst anyst_refl anyst_trans lfp lfp_VList lfp_VRec lfp_VSpread lfp_atomic lfp_mono
              cb cb' st (equiv_agree _ _ _ He) (closed_closed _ _ Hc) b args st I
              (proj2 (lfp_list_iff st args) Ha)) as [Heq [_ Hpost]].
  split; [exact Heq|]. intros v st' E. rewrite E in Hpost. cbn [fst snd] in Hpost. exact (Hpost v eq_refl).
Qed.

(* ---- the new arms: atoms ---- *)
Lemma obind_ok'' : forall {A B} (m : outcome A) (f : A -> outcome B) v,
  obind m f = Ok v -> exists a, m = Ok a /\ f a = Ok v.
Proof. intros A B m f v H. destruct m; try discriminate H. eexists; split; [reflexivity|exact H]. Qed.
Ltac ob H x := apply obind_ok'' in H; destruct H as [x [_ H]].

Lemma builtin_all_lf : forall o cb cb' b args st, cb_lf_equiv cb cb' -> cb_lf_closed cb -> lfs args = true ->
  builtin_all o cb b args st = builtin_all o cb' b args st /\
  (forall v st', builtin_all o cb b args st = (Ok v, st') -> lf v = true).
Proof.
  intros o cb cb' b args st He Hc Ha.
  destruct b; cbn [builtin_all];
    try (exact (builtin_full_lf cb cb' _ args st He Hc Ha));
    (split; [reflexivity|]; intros v st' E; unfold pure_bi in E; inversion E as [[E1 E2]]; clear E).
  (* libm x 9 *)
  1-9: (unfold num1 in E1; ob E1 a; ob E1 x; injection E1 as <-; reflexivity).
  - unfold bi_join_all in E1. ob E1 a1. ob E1 d. ob E1 a0. ob E1 l. injection E1 as <-. reflexivity.
  - unfold bi_trim in E1. ob E1 a. ob E1 x. injection E1 as <-. reflexivity.
  - unfold bi_uppercase in E1. ob E1 a. ob E1 x. injection E1 as <-. reflexivity.
  - unfold bi_lowercase in E1. ob E1 a. ob E1 x. injection E1 as <-. reflexivity.
  - unfold bi_to_string_all in E1. ob E1 a. destruct a; injection E1 as <-; reflexivity.
  - unfold bi_format in E1. ob E1 a0. ob E1 f. ob E1 rest. ob E1 fa. ob E1 s. injection E1 as <-. reflexivity.
  - unfold bi_print in E1. ob E1 l. injection E1 as <-. reflexivity.
  - unfold bi_time_now in E1. inversion E1; subst; reflexivity.
Qed.

Lemma binop_all_lf : forall o cb cb' op l r st, cb_lf_equiv cb cb' -> cb_lf_closed cb -> lf l = true -> lf r = true ->
  binop_all o cb op l r st = binop_all o cb' op l r st /\
  (forall v st', binop_all o cb op l r st = (Ok v, st') -> lf v = true).
Proof.
  intros o cb cb' op l r st He Hc Hl Hr.
  destruct impl_lf_respecting_inst as (B1 & B2 & _ & _).
  unfold binop_all. destruct op;
    try (split; [exact (B1 cb cb' _ l r st He Hc Hl Hr)|intros v st' E; exact (B2 cb _ l r st v st' Hc Hl Hr E)]).
  destruct (eval_binop_agree anyst anyst_refl anyst_trans lfp lfp_mono lfp_VList lfp_atomic
              cb cb' st (equiv_agree _ _ _ He) (closed_closed _ _ Hc)
              fn_accepts2_of_value (o_powf o) Power l r st I Hl Hr) as [Heq Hpost].
  split; [exact Heq|intros v st' E; destruct (Hpost _ _ E) as [_ Hv]; exact (Hv v eq_refl)].
Qed.

Theorem impl_lf_respecting_all : forall o, impl_lf_respecting (binop_all o) (builtin_all o).
Proof.
  intros o. repeat split.
  - intros cb cb' op l r st He Hc Hl Hr. exact (proj1 (binop_all_lf o cb cb' op l r st He Hc Hl Hr)).
  - intros cb op l r st v st' Hc Hl Hr E.
    exact (proj2 (binop_all_lf o cb cb op l r st (fun _ _ _ _ _ _ _ => eq_refl) Hc Hl Hr) v st' E).
  - intros cb cb' b args st He Hc Ha. exact (proj1 (builtin_all_lf o cb cb' b args st He Hc Ha)).
  - intros cb b args st v st' Hc Ha E.
    exact (proj2 (builtin_all_lf o cb cb b args st (fun _ _ _ _ _ _ _ => eq_refl) Hc Ha) v st' E).
Qed.

Theorem impl_lf_respecting_full : impl_lf_respecting binop_impl builtin_full.
Proof.
  destruct impl_lf_respecting_inst as (B1 & B2 & _ & _).
  repeat split; [exact B1|exact B2| |].
  - intros cb cb' b args st He Hc Ha. exact (proj1 (builtin_full_lf cb cb' b args st He Hc Ha)).
  - intros cb b args st v st' Hc Ha E.
    exact (proj2 (builtin_full_lf cb cb b args st (fun _ _ _ _ _ _ _ => eq_refl) Hc Ha) v st' E).
Qed.
