(* proofs/NumTextFloat.v — the facts about binary64 rounding that C16 needs, obtained from
   Flocq (IEEE754.BinarySingleNaN).  These lemmas depend on the standard library's classical
   real-number axioms (the four names of AXIOM_ALLOW); nothing else. *)
From Coq Require Import ZArith Reals Floats.SpecFloat Bool Lia Lra.
From Flocq Require Import Core.Core IEEE754.BinarySingleNaN.
Require Import Blots.Num Blots.NumText.
Open Scope Z_scope.

Local Instance Hprec : Prec_gt_0 53 := eq_refl.
Local Instance Hmax : Prec_lt_emax 53 1024 := eq_refl.

Notation vb := (valid_binary 53 1024).
Notation fexp64 := (SpecFloat.fexp 53 1024).

(* SpecFloat's rounding is Flocq's in mode_NE (as in Flocq's PrimFloat.v, re-proved here so that
   nothing about primitive floats is imported) *)
Lemma round_nearest_even_equiv s m l :
  round_nearest_even m l = choice_mode mode_NE s m l.
Proof.
  case l; [reflexivity|intro c]. case c; [ | reflexivity..].
  now simpl; unfold Round.cond_incr; case Z.even.
Qed.
Lemma binary_round_aux_equiv sx mx ex lx :
  SpecFloat.binary_round_aux 53 1024 sx mx ex lx = binary_round_aux 53 1024 mode_NE sx mx ex lx.
Proof.
  unfold SpecFloat.binary_round_aux, binary_round_aux.
  set (mrse' := shr_fexp _ _ _ _ _). case mrse'; intros mrs' e'; simpl.
  now rewrite (round_nearest_even_equiv sx).
Qed.
Lemma binary_round_equiv s m e :
  SpecFloat.binary_round 53 1024 s m e = binary_round 53 1024 mode_NE s m e.
Proof.
  unfold SpecFloat.binary_round, binary_round, shl_align_fexp.
  set (mez := shl_align _ _ _); case mez as [mz ez]. apply binary_round_aux_equiv.
Qed.

(* two valid finite doubles with the same real value and the same sign are the same datum *)
Lemma SF_eq : forall x y : spec_float,
  vb x = true -> vb y = true -> is_finite_SF x = true -> is_finite_SF y = true ->
  SF2R radix2 x = SF2R radix2 y -> sign_SF x = sign_SF y -> x = y.
Proof.
  intros x y Hx Hy Fx Fy HR Hs.
  rewrite <- (B2SF_SF2B 53 1024 x Hx), <- (B2SF_SF2B 53 1024 y Hy). f_equal.
  apply B2R_Bsign_inj.
  - now rewrite is_finite_SF2B.
  - now rewrite is_finite_SF2B.
  - now rewrite !B2R_SF2B.
  - now rewrite !Bsign_SF2B.
Qed.

(* the value of a valid finite double is representable, and below 2^1024 *)
Lemma valid_finite_format : forall s m e,
  vb (S754_finite s m e) = true ->
  let x := F2R (Float radix2 (cond_Zopp s (Zpos m)) e) in
  generic_format radix2 fexp64 x /\ (Rabs x < bpow radix2 1024)%R.
Proof.
  intros s m e Hv x.
  pose (b := @SF2B 53 1024 (S754_finite s m e) Hv).
  assert (Hb : B2R b = x) by (unfold b; now rewrite B2R_SF2B).
  split.
  - rewrite <- Hb. apply generic_format_B2R.
  - rewrite <- Hb. apply abs_B2R_lt_emax.
Qed.

(* rounding a representable value gives the double itself *)
Lemma binary_round_exact : forall s m e,
  vb (S754_finite s m e) = true ->
  SpecFloat.binary_round 53 1024 s m e = S754_finite s m e.
Proof.
  intros s m e Hv.
  rewrite binary_round_equiv.
  destruct (valid_finite_format s m e Hv) as [Hg Hlt].
  generalize (binary_round_correct 53 1024 Hprec Hmax mode_NE s m e).
  cbv zeta. intros [Hvz Hz].
  rewrite round_generic in Hz by (auto with typeclass_instances).
  rewrite Rlt_bool_true in Hz by exact Hlt.
  destruct Hz as (HR & HF & HS).
  apply SF_eq; auto.
Qed.

(* ... more generally, rounding any (m1, e1) whose value is that of a valid double gives it *)
Lemma binary_round_value : forall s m1 e1 m e,
  vb (S754_finite s m e) = true ->
  F2R (Float radix2 (Zpos m1) e1) = F2R (Float radix2 (Zpos m) e) ->
  SpecFloat.binary_round 53 1024 s m1 e1 = S754_finite s m e.
Proof.
  intros s m1 e1 m e Hv HR.
  rewrite binary_round_equiv.
  destruct (valid_finite_format s m e Hv) as [Hg Hlt].
  generalize (binary_round_correct 53 1024 Hprec Hmax mode_NE s m1 e1).
  cbv zeta. intros [Hvz Hz].
  assert (HX : F2R (Float radix2 (cond_Zopp s (Zpos m1)) e1)
             = F2R (Float radix2 (cond_Zopp s (Zpos m)) e)).
  { rewrite !F2R_cond_Zopp. now rewrite HR. }
  rewrite HX in Hz.
  rewrite round_generic in Hz by (auto with typeclass_instances).
  rewrite Rlt_bool_true in Hz by exact Hlt.
  destruct Hz as (HR' & HF & HS).
  apply SF_eq; auto.
Qed.

Lemma with_sign_finite : forall s m e, with_sign s (S754_finite false m e) = S754_finite s m e.
Proof. now intros [|] m e. Qed.

(* an integral finite double is the correctly rounded value of its own integer *)
Lemma rn_decimal_integral : forall x,
  vb x = true -> is_finite x = true -> nfract_is_zero x = true ->
  rn_decimal (nsign x) (int_abs x) 0 = x.
Proof.
  intros [s|s| |s m e] Hv Hf Hz; try discriminate; try reflexivity.
  unfold nfract_is_zero, int_abs, nsign, split_int in *.
  destruct (0 <=? e) eqn:He.
  - (* e >= 0 : |x| = m * 2^e *)
    apply Z.leb_le in He.
    assert (Hq : exists q, Zpos m * 2 ^ e = Zpos q).
    { destruct (Zpos m * 2 ^ e) eqn:E; try (exists p; reflexivity);
      assert (0 < Zpos m * 2 ^ e) by (apply Z.mul_pos_pos; [lia | apply Z.pow_pos_nonneg; lia]); lia. }
    destruct Hq as [q Hq]. rewrite Hq. unfold rn_decimal, rn_pos.
    change (400 <? 0) with false. cbv iota.
    assert (Hl : (0 <? - (400 + Z.log2 (Z.pos q))) = false).
    { apply Z.ltb_ge. pose proof (Z.log2_nonneg (Zpos q)). lia. }
    rewrite Hl. change (0 <=? 0) with true. cbv iota.
    rewrite Z.pow_0_r, Z.mul_1_r. cbv iota. unfold Num.prec, Num.emax.
    rewrite (binary_round_value false q 0 m e).
    + apply with_sign_finite.
    + destruct s; exact Hv.
    + rewrite <- Hq. rewrite (F2R_change_exp radix2 0 (Zpos m) e) by lia.
      now rewrite Z.sub_0_r.
  - (* e < 0 : the fraction bits are all zero *)
    apply Z.leb_gt in He. apply Z.eqb_eq in Hz.
    set (d := - e) in *.
    assert (Hd : 0 < 2 ^ d) by (apply Z.pow_pos_nonneg; lia).
    assert (Hm : Zpos m = 2 ^ d * (Zpos m / 2 ^ d)).
    { pose proof (Z.div_mod (Zpos m) (2 ^ d)). lia. }
    assert (Hq : exists q, Zpos m / 2 ^ d = Zpos q).
    { destruct (Zpos m / 2 ^ d) eqn:E; try (exists p; reflexivity); nia. }
    destruct Hq as [q Hq]. rewrite Hq in *. unfold rn_decimal, rn_pos.
    change (400 <? 0) with false. cbv iota.
    assert (Hl : (0 <? - (400 + Z.log2 (Z.pos q))) = false).
    { apply Z.ltb_ge. pose proof (Z.log2_nonneg (Zpos q)). lia. }
    rewrite Hl. change (0 <=? 0) with true. cbv iota.
    rewrite Z.pow_0_r, Z.mul_1_r. cbv iota. unfold Num.prec, Num.emax.
    rewrite (binary_round_value false q 0 m e).
    + apply with_sign_finite.
    + destruct s; exact Hv.
    + rewrite (F2R_change_exp radix2 e (Zpos q) 0) by lia.
      f_equal. f_equal. rewrite Hm. replace (0 - e) with d by (unfold d; lia).
      change (radix2 ^ d) with (2 ^ d). ring.
Qed.

(* 1.0 * y = y for every double *)
Lemma n_one_eq : n_one = S754_finite false 4503599627370496 (-52).
Proof. reflexivity. Qed.
Lemma nmul_one_l : forall y, vb y = true -> nmul n_one y = y.
Proof.
  intros [s|s| |s m e] Hv; try reflexivity; try (now destruct s).
  rewrite n_one_eq. unfold nmul, Num.prec, Num.emax. cbv beta iota delta [SFmul].
  rewrite Bool.xorb_false_l.
  rewrite binary_round_aux_equiv.
  assert (H1 : SpecFloat.bounded 53 1024 4503599627370496 (-52) = true) by reflexivity.
  assert (Hy : SpecFloat.bounded 53 1024 m e = true) by exact Hv.
  generalize (Bmult_correct_aux 53 1024 Hprec Hmax mode_NE false 4503599627370496 (-52) H1 s m e Hy).
  cbv zeta. rewrite Bool.xorb_false_l. intros [Hvz Hz].
  destruct (valid_finite_format s m e Hv) as [Hg Hlt].
  assert (HX : (F2R (Float radix2 (cond_Zopp false (Zpos 4503599627370496)) (-52)) *
                F2R (Float radix2 (cond_Zopp s (Zpos m)) e))%R
             = F2R (Float radix2 (cond_Zopp s (Zpos m)) e)).
  { replace (F2R (Float radix2 (cond_Zopp false (Zpos 4503599627370496)) (-52))) with 1%R.
    - ring.
    - unfold F2R, cond_Zopp, Fnum, Fexp. simpl bpow.
      change (IZR (Zpos 4503599627370496)) with (IZR (Z.pow_pos 2 52)).
      rewrite Rinv_r; [reflexivity | apply IZR_neq; discriminate]. }
  rewrite HX in Hz.
  rewrite round_generic in Hz by (auto with typeclass_instances).
  rewrite Rlt_bool_true in Hz by exact Hlt.
  destruct Hz as (HR' & HF & HS).
  apply SF_eq; auto.
Qed.

(* num_of_Z always produces a valid double *)
Lemma num_of_Z_valid : forall z, vb (num_of_Z z) = true.
Proof.
  intros [|p|p]; [reflexivity | | ];
    cbv beta iota delta [num_of_Z SpecFloat.binary_normalize Num.prec Num.emax];
    rewrite binary_round_equiv;
    apply (binary_round_correct 53 1024 Hprec Hmax mode_NE).
Qed.
