(* DisplayNumDischarge6.v — C20: WELL-FORMEDNESS for the executable library models.
   display_wellformed_total (proofs/DisplayNumFinite.v) assumes of the library: the shapes of
   {:.N$} and {:.14e}, finiteness of parse::<f64> on mantissa texts, coarse bounds on
   floor(log10) in the standard range and on powi(10, -2..21).  All of them are proved here for
   the executable models (the log10 bound from log10_sane), so every valid double is displayed
   as a well-formed numeral by the model that the DISPLAY correspondence runs — the only
   hypothesis left is log10_sane.
   {:.14e}'s shape holds for valid doubles only (see DisplayNumDischarge3.v); since
   format_display_number applies fmt_exp14 to its argument only, the model is wrapped
   (fmt_exp14_v = the model on valid doubles) without changing the displayed text. *)
From Coq Require Import ZArith Reals Bool String Ascii List Lia Lra QArith Qreals Qabs Qpower Floats.SpecFloat.
From Flocq Require Import Core.Core IEEE754.BinarySingleNaN.
Require Import Blots.Num Blots.Outcome Blots.DisplayNum.
Require Import Blots.proofs.DisplayNumGroup Blots.proofs.DisplayNumSpec Blots.proofs.DisplayNumText
               Blots.proofs.DisplayNumInt Blots.proofs.DisplayNum Blots.proofs.DisplayNumAcc
               Blots.proofs.DisplayNumFloat Blots.proofs.DisplayNumFinite Blots.proofs.DisplayNumAccStd
               Blots.proofs.DisplayNumAccAll Blots.proofs.DisplayNumExec
               Blots.proofs.DisplayNumDischarge1 Blots.proofs.DisplayNumDischarge2.
Import ListNotations.
Open Scope R_scope.

(* ---------- every valid finite non-zero double lies in a decade ---------- *)
Lemma valid_decade : forall s m e, valid (S754_finite s m e) ->
  exists k, in_decade (S754_finite s m e) k /\ (-340 <= k <= 320)%Z.
Proof.
  intros s m e V. destruct (mag_frac m e) as [N D] eqn:E.
  destruct (e10_frac_spec s m e N D V E) as [Dk Rk].
  destruct (RV_mag_frac s m e N D E) as [_ RA].
  exists (e10_frac N D). split; [|exact Rk]. apply in_decade_of_R. now rewrite RA.
Qed.

(* ---------- {:.14e}: shape ---------- *)
Lemma mant14_is_mant : forall s, mant14_shape s = true -> mant_shape s = true.
Proof.
  intros s H. unfold mant14_shape in H. unfold mant_shape.
  destruct (strip_sign s) as [|d [|dot fp]]; try discriminate H.
  apply andb_true_iff in H. now destruct H as [H _].
Qed.

Theorem fmt_exp14_exec_shape : forall x, valid x -> Num.is_finite x = true ->
  exp_shape (fmt_exp14_exec x) = true.
Proof.
  intros x V F. destruct x as [s|s| |s m e]; try discriminate F.
  - destruct s; reflexivity.
  - destruct (valid_decade s m e V) as (k & Hk & _).
    destruct (fmt_exp14_exec_correct_strong _ k V F Hk) as (ms & es & kk & Sp & Hm & _ & _ & He).
    unfold exp_shape. rewrite Sp, (mant14_is_mant _ Hm), He. reflexivity.
Qed.

(* the model on valid doubles, a shaped constant elsewhere: same display text on valid doubles *)
Definition fmt_exp14_v (x : num) : text :=
  if valid_binary prec emax x then fmt_exp14_exec x else toy_exp x.

Lemma fmt_exp14_v_shape : forall x, Num.is_finite x = true -> exp_shape (fmt_exp14_v x) = true.
Proof.
  intros x F. unfold fmt_exp14_v. destruct (valid_binary prec emax x) eqn:V.
  - now apply fmt_exp14_exec_shape.
  - now apply toy_exp_shape.
Qed.

Lemma fdn_fmt_exp14_ext : forall log10 powi fp fe fe' pf fx x, fe x = fe' x ->
  format_display_number log10 powi fp fe pf fx x = format_display_number log10 powi fp fe' pf fx x.
Proof.
  intros. unfold format_display_number, format_scientific. rewrite H. reflexivity.
Qed.

(* ---------- parse::<f64> on mantissa texts -?d.d+ is finite ---------- *)
Lemma mant_inv1 : forall s, mant_shape s = true ->
  exists neg d fp, s = mk_plain neg [d] (Some fp) /\ Blots.DisplayNum.is_digit d = true /\ all_digits fp = true.
Proof.
  intros s H. unfold mant_shape in H.
  assert (P : exists d fp, strip_sign s = (d :: "." :: fp)%char /\ Blots.DisplayNum.is_digit d = true /\
                           all_digits fp = true).
  { destruct (strip_sign s) as [|d [|dot fp]]; try discriminate.
    apply andb_true_iff in H. destruct H as [H Hf].
    apply andb_true_iff in H. destruct H as [Hd Hdot]. apply Ascii.eqb_eq in Hdot. subst dot.
    now exists d, fp. }
  destruct P as (d & fp & E & Hd & Hf).
  unfold strip_sign in E. destruct (starts_with "-"%char s) eqn:S.
  - destruct s as [|a r]; [discriminate|]. cbn in S. apply Ascii.eqb_eq in S. subst a. cbn [tl] in E.
    exists true, d, fp. subst r. repeat split; auto.
  - exists false, d, fp. subst s. repeat split; auto.
Qed.

Lemma parse_f64_exec_mant : forall neg d fp,
  Blots.DisplayNum.is_digit d = true -> all_digits fp = true ->
  parse_f64_exec (mk_plain neg [d] (Some fp)) =
  Some (rn_ratio neg (digits_value (d :: fp)) (10 ^ Z.of_nat (length fp))).
Proof.
  intros neg d fp Hd Hf.
  assert (Hi : all_digits [d] = true) by (unfold all_digits; cbn; now rewrite Hd).
  assert (B : parse_f64_body neg (mk_plain false [d] (Some fp)) =
              Some (rn_ratio neg (digits_value (d :: fp)) (10 ^ Z.of_nat (length fp)))).
  { unfold parse_f64_body. rewrite break_at_mk_plain by exact Hi.
    pose proof (all_digits_forallb _ Hf) as Ff. pose proof (all_digits_forallb _ Hi) as Fi.
    rewrite Fi, Ff. reflexivity. }
  destruct neg.
  - change (mk_plain true [d] (Some fp)) with ("-"%char :: mk_plain false [d] (Some fp)).
    rewrite parse_f64_exec_negative. exact B.
  - change (mk_plain false [d] (Some fp)) with (d :: "."%char :: fp) in *.
    rewrite (parse_f64_exec_unsigned d _ Hd). exact B.
Qed.

Theorem parse_f64_exec_finite : forall s m,
  mant_shape s = true -> parse_f64_exec s = Some m -> Num.is_finite m = true.
Proof.
  intros s m H P. destruct (mant_inv1 s H) as (neg & d & fp & -> & Hd & Hf).
  rewrite (parse_f64_exec_mant neg d fp Hd Hf) in P. injection P as <-.
  set (Nn := digits_value (d :: fp)). set (L := length fp).
  assert (Bn : (0 <= Nn < 10 * 10 ^ Z.of_nat L)%Z).
  { assert (Fa : forallb Blots.DisplayNum.is_digit (d :: fp) = true).
    { cbn [forallb]. rewrite Hd. now apply all_digits_forallb. }
    pose proof (digits_value_bound (d :: fp) Fa) as Bv. cbn [length] in Bv. fold L in Bv.
    rewrite pow10_S in Bv. exact Bv. }
  assert (PL : (0 < 10 ^ Z.of_nat L)%Z) by (apply Z.pow_pos_nonneg; lia).
  destruct (Z.eq_dec Nn 0) as [Z0|NZ].
  - rewrite Z0. reflexivity.
  - destruct (rn_ratio_correct neg Nn (10 ^ Z.of_nat L) ltac:(lia) PL) as [_ C]. cbv zeta in C.
    apply C.
    assert (DD : 0 < IZR (10 ^ Z.of_nat L)) by now apply (IZR_lt 0).
    assert (Bv : 0 <= IZR Nn / IZR (10 ^ Z.of_nat L) <= 16).
    { split.
      - apply Rmult_le_pos; [apply IZR_le; lia|]. left. now apply Rinv_0_lt_compat.
      - apply Rmult_le_reg_r with (IZR (10 ^ Z.of_nat L)); [exact DD|].
        unfold Rdiv. rewrite Rmult_assoc, Rinv_l, Rmult_1_r by lra.
        destruct Bn as [_ Bu]. apply IZR_lt in Bu. rewrite mult_IZR in Bu. lra. }
    eapply Rle_lt_trans; [apply (rnd_abs_le_bpow _ 4); [lia|]|apply bpow_lt; lia].
    rewrite Rabs_pos_eq by tauto. change (bpow radix2 4) with 16. tauto.
Qed.

(* ---------- powi(10, j), -2 <= j <= 21: finite, non-zero, between 2^-80 and 2^80 ---------- *)
Lemma p10_21_le : p10 21 <= bpow radix2 80.
Proof. apply le10_2_correct. vm_compute. reflexivity. Qed.
Lemma p10_m2_ge : bpow radix2 (-80) <= p10 (-2).
Proof. apply le2_10_correct. vm_compute. reflexivity. Qed.

Theorem powi_exec_std_bounds : forall j, (-2 <= j <= 21)%Z ->
  exists s m e, powi_exec c_ten j = S754_finite s m e /\ valid (powi_exec c_ten j) /\
                bpow radix2 (-80) <= Rabs (RV (powi_exec c_ten j)) <= bpow radix2 80.
Proof.
  intros j Hj. destruct (Z_le_gt_dec 0 j) as [P|N].
  - destruct (powi_exec_exact j ltac:(lia)) as (V & (s & m & e & E) & R).
    exists s, m, e. split; [exact E|]. split; [exact V|]. rewrite R.
    rewrite Rabs_pos_eq by (left; apply p10_pos). split.
    + apply Rle_trans with (p10 (-2)); [exact p10_m2_ge|apply bpow_le; lia].
    + apply Rle_trans with (p10 21); [apply bpow_le; lia|exact p10_21_le].
  - destruct (powi_exec_neg j ltac:(lia)) as (V & (s & m & e & E) & R & G).
    exists s, m, e. split; [exact E|]. split; [exact V|].
    assert (Pj : 0 < p10 j) by apply p10_pos.
    rewrite Rabs_pos_eq by lra. split.
    + apply Rle_trans with (p10 j); [|exact G].
      apply Rle_trans with (p10 (-2)); [exact p10_m2_ge|apply bpow_le; lia].
    + rewrite R. apply Rle_trans with (bpow radix2 0); [|apply bpow_le; lia].
      rewrite <- (Rabs_pos_eq (rnd64 (p10 j))).
      * apply rnd_abs_le_bpow; [lia|]. rewrite Rabs_pos_eq by lra.
        change (bpow radix2 0) with (p10 0). apply bpow_le. lia.
      * rewrite <- R. lra.
Qed.

(* ---------- floor(log10 a) in the standard range, from log10_sane ---------- *)
Lemma log10_sane_std : forall log10,
  (forall a k, valid_binary prec emax a = true -> nsign a = false -> in_decade a k ->
               (k <= as_i32 (nfloor (log10 a)) <= k + 1)%Z) ->
  forall a, valid a -> Num.is_finite a = true -> scientific_range a = false ->
  (-5 <= as_i32 (nfloor (log10 a)) <= 15)%Z.
Proof.
  intros log10 HL a Va Fa Hs.
  unfold scientific_range in Hs. apply negb_false_iff in Hs. apply andb_true_iff in Hs.
  destruct Hs as [Hlo Hhi].
  apply (nleb_correct c_1e_4 a) in Hlo; [|reflexivity|exact Va|reflexivity|exact Fa].
  apply (nltb_correct a c_1e15) in Hhi; [|exact Va|reflexivity|exact Fa|reflexivity].
  rewrite RV_c_1e15 in Hhi. pose proof RV_c_1e_4 as L4. pose proof (p10_pos (-4)) as P4.
  destruct a as [s|s| |s m e]; try discriminate Fa.
  - exfalso. unfold RV in Hlo at 2. cbn [SF2R] in Hlo. lra.
  - destruct (valid_decade s m e Va) as (k & Hk & _).
    assert (Ns : nsign (S754_finite s m e) = false) by (apply RV_pos_nsign; lra).
    pose proof (HL _ k Va Ns Hk) as B. apply in_decade_R in Hk.
    rewrite Rabs_pos_eq in Hk by lra.
    assert (A1 : (k < 15)%Z) by (apply (lt_bpow radix10); lra).
    assert (A2 : (-4 < k + 1)%Z) by (apply (lt_bpow radix10); lra).
    lia.
Qed.

(* ====================================================================================
   every valid double is displayed as a well-formed numeral by the executable model
   ==================================================================================== *)
Theorem display_wellformed_exec_pos : forall log10 fx,
  (forall a k, valid_binary prec emax a = true -> nsign a = false -> in_decade a k ->
               (k <= as_i32 (nfloor (log10 a)) <= k + 1)%Z) ->
  forall x t, valid_binary 53 1024 x = true ->
  format_display_number log10 powi_exec fmt_prec_exec fmt_exp14_exec parse_f64_exec fx x = Ok t ->
  wf_numeral t = true.
Proof.
  intros log10 fx HL x t V H.
  rewrite (fdn_fmt_exp14_ext log10 powi_exec fmt_prec_exec fmt_exp14_exec fmt_exp14_v parse_f64_exec fx x) in H.
  - apply (display_wellformed_total log10 powi_exec fmt_prec_exec fmt_exp14_v parse_f64_exec fx
             fmt_prec_exec_shape fmt_exp14_v_shape parse_f64_exec_finite
             (log10_sane_std log10 HL) powi_exec_std_bounds x t V H).
  - unfold fmt_exp14_v. change prec with 53%Z. change emax with 1024%Z. now rewrite V.
Qed.

Theorem display_wellformed_exec : forall log10 fx,
  (forall a k, valid_binary prec emax a = true -> in_decade a k ->
               (k <= as_i32 (nfloor (log10 a)) <= k + 1)%Z) ->
  forall x t, valid_binary 53 1024 x = true ->
  format_display_number log10 powi_exec fmt_prec_exec fmt_exp14_exec parse_f64_exec fx x = Ok t ->
  wf_numeral t = true.
Proof. intros log10 fx HL. apply display_wellformed_exec_pos. intros a k V _ D. exact (HL a k V D). Qed.
