(* TextValidStreams.v — the glue-panic hypothesis of C01_text_run_no_panic_all reduced to a DECIDABLE shape predicate of
   the PEG output (C01, extension PF2): every `statement` pair starts with expression / output_declaration / comment, and
   the token stream of the first two kinds alternates deeply (TextValidNoGlue.stream_ok over the crate's table).  That the
   grammar only produces such forests ([text_streams_ok_full]) is NOT proved (PegShape.kids_spec has no clause for the
   inner pairs of `expression`); the predicate is computable, so it can be checked by vm_compute for a given text.
   All unfolding is done at a GENERIC fuel and instantiated by rewriting (conversion through Peg.parse on the concrete
   grammar at [peg_fuel text] does not terminate in practice). *)
From Coq Require Import String Ascii List NArith ZArith Bool Arith.
Require Import Blots.Peg Blots.gen.Grammar Blots.PrattTypes Blots.Pratt Blots.PegToItems.
Require Import Blots.Num Blots.gen.Builtins Blots.Ast Blots.Value Blots.Outcome Blots.Env Blots.Eval
               Blots.Program Blots.EvalAll Blots.TextRun Blots.Valid.
Require Import Blots.proofs.TextRunFacts Blots.proofs.TextValid Blots.proofs.TextValidNoGlue.
Import ListNotations.
Local Open Scope list_scope.

Definition stmt_streams_ok (text : string) (cf : nat) (t : tree grule) : bool :=
  match tkids t with
  | first :: _ =>
      match trule first with
      | PG_expression | PG_output_declaration => impl_stream_ok (map (conv text cf) (tkids first))
      | PG_comment => true
      | _ => false
      end
  | [] => true
  end.
Definition forest_streams_ok (text : string) (forest : list (tree grule)) : bool :=
  let cf := forest_conv_fuel forest in
  forallb (fun t => if is_rule PG_statement t then stmt_streams_ok text cf t else true) forest.
Definition text_streams_ok_fuel (fuel : nat) (text : string) : bool :=
  match Peg.parse blots_grammar fuel PG_input text with
  | Peg.Ok s => forest_streams_ok text (rev (Peg.out s))
  | _ => true
  end.
Definition text_streams_ok (text : string) : bool := text_streams_ok_fuel (peg_fuel text) text.
Lemma text_streams_ok_unfold : forall text, text_streams_ok text = text_streams_ok_fuel (peg_fuel text) text.
Proof. intro text. unfold text_streams_ok. reflexivity. Qed.

Lemma glue_stmt_not_panic : forall mk r, r <> Outcome.Panic -> glue_stmt mk r <> TGluePanic.
Proof. intros mk r H. destruct r as [[e|]| | | |]; cbn [glue_stmt]; try discriminate. exfalso; apply H; reflexivity. Qed.

Lemma text_stmt_of_no_glue_panic : forall text cf t r,
  stmt_streams_ok text cf t = true -> text_stmt_of text cf t = Some r -> r <> TGluePanic.
Proof.
  intros text cf t r S H. unfold text_stmt_of in H. unfold stmt_streams_ok in S.
  destruct (tkids t) as [|first rest]; [discriminate H|].
  destruct (trule first); try discriminate S; injection H as <-; try discriminate.
  - apply glue_stmt_not_panic. apply pratt_impl_no_panic. exact S.
  - apply glue_stmt_not_panic. apply pratt_impl_no_panic. exact S.
Qed.

Lemma stmts_of_forest_no_glue_panic : forall text forest,
  forest_streams_ok text forest = true -> Forall (fun t => t <> TGluePanic) (stmts_of_forest text forest).
Proof.
  intros text forest. unfold stmts_of_forest, forest_streams_ok. generalize (forest_conv_fuel forest) as cf. intro cf.
  induction forest as [|t l IH]; intro S; [constructor|]. cbn [flat_map forallb] in *.
  apply andb_true_iff in S as [St Sl]. apply Forall_app. split; [|exact (IH Sl)].
  destruct (is_rule PG_statement t); [|constructor].
  destruct (text_stmt_of text cf t) as [r|] eqn:E; [|constructor].
  constructor; [|constructor]. eapply text_stmt_of_no_glue_panic; eassumption.
Qed.

Lemma text_no_glue_panic_fuel : forall fuel text l,
  parse_text_stmts_fuel fuel text = TIOk l -> text_streams_ok_fuel fuel text = true ->
  Forall (fun t => t <> TGluePanic) l.
Proof.
  intros fuel text l H S. unfold parse_text_stmts_fuel in H. unfold text_streams_ok_fuel in S.
  destruct (Peg.parse blots_grammar fuel PG_input text); try discriminate H.
  injection H as <-. apply stmts_of_forest_no_glue_panic. exact S.
Qed.
Theorem text_no_glue_panic : forall text l,
  parse_text_stmts text = TIOk l -> text_streams_ok text = true -> Forall (fun t => t <> TGluePanic) l.
Proof.
  intros text l H S. rewrite parse_text_stmts_unfold in H. rewrite text_streams_ok_unfold in S.
  eapply text_no_glue_panic_fuel; eassumption.
Qed.

(* what remains for "EVERY text": the grammar only produces deeply alternating statement streams *)
Definition text_streams_ok_full : Prop := forall text, text_streams_ok text = true.

Theorem text_run_no_panic_streams : forall o, oracle_valid o -> oracle_display_safe o ->
  forall release inputs text l, valid_inputs inputs ->
  parse_text_stmts text = TIOk l -> text_streams_ok text = true ->
  exists sr, run_text_res (eval_top release (binop_all o) (builtin_all_fit o)) inputs text = TRun sr
             /\ Forall result_fine (snd sr).
Proof.
  intros o Ho Hd release inputs text l Hin H S.
  exact (text_run_no_panic o Ho Hd release inputs text l Hin H (text_no_glue_panic text l H S)).
Qed.
