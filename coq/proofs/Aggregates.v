(* Aggregates.v — lemmas about the aggregate built-ins of BuiltinsAgg.v (property C15). *)
From Coq Require Import ZArith String List Bool Lia Floats.SpecFloat Permutation Sorted Arith.
Require Import Blots.Num Blots.gen.Builtins Blots.Ast Blots.Value Blots.Show Blots.Outcome
  Blots.BuiltinsAgg Blots.proofs.Order.
Import ListNotations.
Open Scope Z_scope.

(* ------------------------------------------------------------------ argument collection *)
Definition nums (l : list num) : list value := map VNum l.

(* the one function the six copies are copies of *)
Definition collect_nums (args : list value) : outcome (list num) :=
  match args with
  | [VList l] => mapM as_number l
  | [a] => do x <- as_number a; Ok [x]
  | _ => mapM as_number args
  end.

Lemma collect_min_eq args : collect_nums_min args = collect_nums args.
Proof. destruct args as [|a [|b r]]; try reflexivity. now destruct a. Qed.

Lemma collect_copies_agree args :
  collect_nums_max args = collect_nums_min args /\ collect_nums_avg args = collect_nums_min args /\
  collect_nums_prod args = collect_nums_min args /\ collect_nums_sum args = collect_nums_min args /\
  collect_nums_median args = collect_nums_min args.
Proof. repeat split; reflexivity. Qed.

Lemma mapM_as_number_nums l : mapM as_number (nums l) = Ok l.
Proof. induction l as [|x l IH]; cbn; [reflexivity|]. unfold nums in IH. now rewrite IH. Qed.

Lemma mapM_single (a : value) : mapM as_number [a] = (do x <- as_number a; Ok [x]).
Proof. cbn. now destruct (as_number a). Qed.

(* a value that is not itself a list *)
Definition not_list (v : value) : bool := match v with VList _ => false | _ => true end.
(* the argument vector is not "exactly one list": the only shape on which the two calling
   conventions are read differently *)
Definition not_single_list (vs : list value) : bool :=
  match vs with [VList _] => false | _ => true end.

(* one list argument is read exactly as the same values passed separately / spread *)
Lemma collect_conventions vs :
  not_single_list vs = true -> collect_nums [VList vs] = collect_nums vs.
Proof.
  intros H. destruct vs as [|a [|b r]]; [reflexivity| |];
    destruct a; cbn in H; try discriminate; reflexivity.
Qed.

Lemma collect_nums_list l : collect_nums [VList (nums l)] = Ok l.
Proof. cbn. apply mapM_as_number_nums. Qed.

Lemma collect_nums_sep l : collect_nums (nums l) = Ok l.
Proof.
  rewrite <- (collect_conventions (nums l)); [apply collect_nums_list|].
  now destruct l as [|x [|y r]].
Qed.

(* the six list-or-varargs aggregates *)
Definition is_varargs (a : agg) : bool :=
  match a with AMin | AMax | AAvg | ASum | AProd | AMedian => true | _ => false end.

(* each of the six is "collect, reject the empty vector, reduce" *)
Definition reduce (a : agg) (ns : list num) : outcome value :=
  match a with
  | AMin => Ok (VNum (fold_min ns))
  | AMax => Ok (VNum (fold_max ns))
  | AAvg => Ok (VNum (ndiv (fold_sum ns) (num_of_Z (len ns))))
  | ASum => Ok (VNum (fold_sum ns))
  | AProd => Ok (VNum (fold_prod ns))
  | AMedian =>
      do s <- sort_pc ns;
      let n := len s in
      if n mod 2 =? 0 then
        do x <- index_num s (n / 2 - 1); do y <- index_num s (n / 2); Ok (VNum (ndiv (nadd x y) n2))
      else do x <- index_num s (n / 2); Ok (VNum x)
  | _ => Unmodelled
  end.

Lemma bi_agg_collect a args :
  is_varargs a = true ->
  bi_agg a args = (do ns <- collect_nums args; if is_empty ns then Err else reduce a ns).
Proof.
  intros H. destruct a; try discriminate; cbn [bi_agg];
    unfold bi_min, bi_max, bi_avg, bi_sum, bi_prod, bi_median;
    change collect_nums_max with collect_nums_min; change collect_nums_avg with collect_nums_min;
    change collect_nums_sum with collect_nums_min; change collect_nums_prod with collect_nums_min;
    change collect_nums_median with collect_nums_min;
    rewrite collect_min_eq; reflexivity.
Qed.

(* conventions_agree, at full generality: any argument values, not only numbers *)
Lemma conventions_agree a vs :
  is_varargs a = true -> not_single_list vs = true -> bi_agg a [VList vs] = bi_agg a vs.
Proof.
  intros Ha H. rewrite !(bi_agg_collect a) by assumption. now rewrite collect_conventions.
Qed.

Lemma not_single_list_nums l : not_single_list (nums l) = true.
Proof. now destruct l as [|x [|y r]]. Qed.

Lemma conventions_agree_nums a l :
  is_varargs a = true -> bi_agg a [VList (nums l)] = bi_agg a (nums l).
Proof. intros Ha. apply conventions_agree; [assumption|apply not_single_list_nums]. Qed.

(* the length-1 disambiguation: a single argument that is a list is always "the list of numbers",
   so a list whose only element is a list is a type error while the bare inner list is aggregated *)
Lemma single_list_is_the_list a l :
  is_varargs a = true ->
  bi_agg a [VList l] = (do ns <- mapM as_number l; if is_empty ns then Err else reduce a ns).
Proof. intros Ha. now rewrite bi_agg_collect. Qed.

Lemma nested_single_list_rejected a l :
  is_varargs a = true -> bi_agg a [VList [VList l]] = Err.
Proof. intros Ha. now rewrite bi_agg_collect. Qed.

(* on a non-empty list of numbers, in either convention *)
Lemma bi_agg_nums a l :
  is_varargs a = true -> l <> [] ->
  bi_agg a [VList (nums l)] = reduce a l /\ bi_agg a (nums l) = reduce a l.
Proof.
  intros Ha Hl. rewrite <- conventions_agree_nums by assumption.
  rewrite bi_agg_collect, collect_nums_list by assumption. cbn.
  destruct l; [contradiction|]. now split.
Qed.

Lemma bi_agg_empty a : is_varargs a = true -> bi_agg a [VList []] = Err /\ bi_agg a [] = Err.
Proof. intros Ha. rewrite !bi_agg_collect by assumption. now split. Qed.

(* ------------------------------------------------------------------ sum prod avg *)
Lemma sum_is_fold l : l <> [] ->
  bi_sum [VList (nums l)] = Ok (VNum (fold_left nadd l nnzero)) /\
  bi_sum (nums l) = Ok (VNum (fold_left nadd l nnzero)).
Proof. intros H. exact (bi_agg_nums ASum l eq_refl H). Qed.

Lemma prod_is_fold l : l <> [] ->
  bi_prod [VList (nums l)] = Ok (VNum (fold_left nmul l n1)) /\
  bi_prod (nums l) = Ok (VNum (fold_left nmul l n1)).
Proof. intros H. exact (bi_agg_nums AProd l eq_refl H). Qed.

Lemma avg_is_sum_div_count l : l <> [] ->
  exists s, bi_sum (nums l) = Ok (VNum s) /\
            bi_avg (nums l) = Ok (VNum (ndiv s (num_of_Z (Z.of_nat (length l))))) /\
            bi_avg [VList (nums l)] = Ok (VNum (ndiv s (num_of_Z (Z.of_nat (length l))))).
Proof.
  intros H. exists (fold_sum l). split; [apply (sum_is_fold l H)|].
  destruct (bi_agg_nums AAvg l eq_refl H) as [A B]. now split.
Qed.
