(* Aggregates.v — lemmas about the aggregate built-ins of BuiltinsAgg.v (property C15). *)
From Coq Require Import ZArith String List Bool Lia Floats.SpecFloat Permutation Sorted Arith.
Require Import Blots.Num Blots.gen.Builtins Blots.Ast Blots.Value Blots.Show Blots.Outcome
  Blots.BuiltinsAgg Blots.proofs.Order.
Import ListNotations.
Open Scope Z_scope.

(* ------------------------------------------------------------------ argument collection *)
Definition nums (l : list num) : list value := map VNum l.

(* the one function the six copies are copies of *)
Definition collect_nums (args : list value) : outcome (list num) :=
  match args with
  | [VList l] => mapM as_number l
  | [a] => do x <- as_number a; Ok [x]
  | _ => mapM as_number args
  end.

Lemma collect_min_eq args : collect_nums_min args = collect_nums args.
Proof. destruct args as [|a [|b r]]; try reflexivity. now destruct a. Qed.

Lemma collect_copies_agree args :
  collect_nums_max args = collect_nums_min args /\ collect_nums_avg args = collect_nums_min args /\
  collect_nums_prod args = collect_nums_min args /\ collect_nums_sum args = collect_nums_min args /\
  collect_nums_median args = collect_nums_min args.
Proof. repeat split; reflexivity. Qed.

Lemma mapM_as_number_nums l : mapM as_number (nums l) = Ok l.
Proof. induction l as [|x l IH]; cbn; [reflexivity|]. unfold nums in IH. now rewrite IH. Qed.

Lemma mapM_single (a : value) : mapM as_number [a] = (do x <- as_number a; Ok [x]).
Proof. cbn. now destruct (as_number a). Qed.

(* a value that is not itself a list *)
Definition not_list (v : value) : bool := match v with VList _ => false | _ => true end.
(* the argument vector is not "exactly one list": the only shape on which the two calling
   conventions are read differently *)
Definition not_single_list (vs : list value) : bool :=
  match vs with [VList _] => false | _ => true end.

(* one list argument is read exactly as the same values passed separately / spread *)
Lemma collect_conventions vs :
  not_single_list vs = true -> collect_nums [VList vs] = collect_nums vs.
Proof.
  intros H. destruct vs as [|a [|b r]]; [reflexivity| |];
    destruct a; cbn in H; try discriminate; reflexivity.
Qed.

Lemma collect_nums_list l : collect_nums [VList (nums l)] = Ok l.
Proof. cbn. apply mapM_as_number_nums. Qed.

Lemma collect_nums_sep l : collect_nums (nums l) = Ok l.
Proof.
  rewrite <- (collect_conventions (nums l)); [apply collect_nums_list|].
  now destruct l as [|x [|y r]].
Qed.

(* the six list-or-varargs aggregates *)
Definition is_varargs (a : agg) : bool :=
  match a with AMin | AMax | AAvg | ASum | AProd | AMedian => true | _ => false end.

(* each of the six is "collect, reject the empty vector, reduce" *)
Definition reduce (a : agg) (ns : list num) : outcome value :=
  match a with
  | AMin => Ok (VNum (fold_min ns))
  | AMax => Ok (VNum (fold_max ns))
  | AAvg => Ok (VNum (ndiv (fold_sum ns) (num_of_Z (len ns))))
  | ASum => Ok (VNum (fold_sum ns))
  | AProd => Ok (VNum (fold_prod ns))
  | AMedian =>
      if has_nan ns then Ok (VNum nnan) else
      do s <- sort_pc ns;
      let n := len s in
      if n mod 2 =? 0 then
        do x <- index_num s (n / 2 - 1); do y <- index_num s (n / 2); Ok (VNum (ndiv (nadd x y) n2))
      else do x <- index_num s (n / 2); Ok (VNum x)
  | _ => Unmodelled
  end.

Lemma bi_agg_collect a args :
  is_varargs a = true ->
  bi_agg a args = (do ns <- collect_nums args; if is_empty ns then Err else reduce a ns).
Proof.
  intros H. destruct a; try discriminate; cbn [bi_agg];
    unfold bi_min, bi_max, bi_avg, bi_sum, bi_prod, bi_median;
    change collect_nums_max with collect_nums_min; change collect_nums_avg with collect_nums_min;
    change collect_nums_sum with collect_nums_min; change collect_nums_prod with collect_nums_min;
    change collect_nums_median with collect_nums_min;
    rewrite collect_min_eq; reflexivity.
Qed.

(* conventions_agree, at full generality: any argument values, not only numbers *)
Lemma conventions_agree a vs :
  is_varargs a = true -> not_single_list vs = true -> bi_agg a [VList vs] = bi_agg a vs.
Proof.
  intros Ha H. rewrite !(bi_agg_collect a) by assumption. now rewrite collect_conventions.
Qed.

Lemma not_single_list_nums l : not_single_list (nums l) = true.
Proof. now destruct l as [|x [|y r]]. Qed.

Lemma conventions_agree_nums a l :
  is_varargs a = true -> bi_agg a [VList (nums l)] = bi_agg a (nums l).
Proof. intros Ha. apply conventions_agree; [assumption|apply not_single_list_nums]. Qed.

(* the length-1 disambiguation: a single argument that is a list is always "the list of numbers",
   so a list whose only element is a list is a type error while the bare inner list is aggregated *)
Lemma single_list_is_the_list a l :
  is_varargs a = true ->
  bi_agg a [VList l] = (do ns <- mapM as_number l; if is_empty ns then Err else reduce a ns).
Proof. intros Ha. now rewrite bi_agg_collect. Qed.

Lemma nested_single_list_rejected a l :
  is_varargs a = true -> bi_agg a [VList [VList l]] = Err.
Proof. intros Ha. now rewrite bi_agg_collect. Qed.

(* on a non-empty list of numbers, in either convention *)
Lemma bi_agg_nums a l :
  is_varargs a = true -> l <> [] ->
  bi_agg a [VList (nums l)] = reduce a l /\ bi_agg a (nums l) = reduce a l.
Proof.
  intros Ha Hl. rewrite <- conventions_agree_nums by assumption.
  rewrite bi_agg_collect, collect_nums_list by assumption. cbn.
  destruct l; [contradiction|]. now split.
Qed.

Lemma bi_agg_empty a : is_varargs a = true -> bi_agg a [VList []] = Err /\ bi_agg a [] = Err.
Proof. intros Ha. rewrite !bi_agg_collect by assumption. now split. Qed.

(* ------------------------------------------------------------------ sum prod avg *)
Lemma sum_is_fold l : l <> [] ->
  bi_sum [VList (nums l)] = Ok (VNum (fold_left nadd l nnzero)) /\
  bi_sum (nums l) = Ok (VNum (fold_left nadd l nnzero)).
Proof. intros H. exact (bi_agg_nums ASum l eq_refl H). Qed.

Lemma prod_is_fold l : l <> [] ->
  bi_prod [VList (nums l)] = Ok (VNum (fold_left nmul l n1)) /\
  bi_prod (nums l) = Ok (VNum (fold_left nmul l n1)).
Proof. intros H. exact (bi_agg_nums AProd l eq_refl H). Qed.

Lemma avg_is_sum_div_count l : l <> [] ->
  exists s, bi_sum (nums l) = Ok (VNum s) /\
            bi_avg (nums l) = Ok (VNum (ndiv s (num_of_Z (Z.of_nat (length l))))) /\
            bi_avg [VList (nums l)] = Ok (VNum (ndiv s (num_of_Z (Z.of_nat (length l))))).
Proof.
  intros H. exists (fold_sum l). split; [apply (sum_is_fold l H)|].
  destruct (bi_agg_nums AAvg l eq_refl H) as [A B]. now split.
Qed.

(* ------------------------------------------------------------------ the order on numbers *)
Definition nle (a b : num) : Prop := nleb a b = true.
Definition nlt (a b : num) : Prop := nltb a b = true.
Definition neq (a b : num) : Prop := ncmp a b = Some Eq.     (* f64 ==  : +0 and -0 identified *)
Definition nan_free (l : list num) : bool := forallb (fun x => negb (is_nan x)) l.

Lemma nleb_spec a b : nleb a b = true <-> ncmp a b = Some Lt \/ ncmp a b = Some Eq.
Proof.
  unfold nleb, SFleb, ncmp. destruct (SFcompare a b) as [[]|]; split; intros H; auto;
    try discriminate; destruct H; discriminate.
Qed.
Lemma nltb_spec a b : nltb a b = true <-> ncmp a b = Some Lt.
Proof. unfold nltb, SFltb, ncmp. destruct (SFcompare a b) as [[]|]; split; congruence. Qed.

Lemma ncmp_none a b : ncmp a b = None <-> is_nan a = true \/ is_nan b = true.
Proof.
  rewrite ncmp_key.
  assert (K : forall x, key x = None <-> is_nan x = true).
  { intros x. destruct x as [[]|[]| |[] ? ?]; cbn; split; congruence. }
  destruct (key a) eqn:Ea, (key b) eqn:Eb; split; intros H; try discriminate; try tauto.
  - destruct H as [H|H]; apply K in H; congruence.
  - right. now apply K.
  - left. now apply K.
  - left. now apply K.
Qed.

Lemma ncmp_some a b : is_nan a = false -> is_nan b = false -> exists o, ncmp a b = Some o.
Proof.
  intros Ha Hb. destruct (ncmp a b) eqn:E; [eauto|].
  apply ncmp_none in E. destruct E; congruence.
Qed.

Lemma nle_not_nan a b : nle a b -> is_nan a = false /\ is_nan b = false.
Proof.
  intros H. apply nleb_spec in H.
  destruct (is_nan a) eqn:Ea, (is_nan b) eqn:Eb; auto;
    assert (N : ncmp a b = None) by (apply ncmp_none; auto); destruct H; congruence.
Qed.

Lemma nle_refl a : is_nan a = false -> nle a a.
Proof. intros H. apply nleb_spec. right. now apply ncmp_refl. Qed.

Lemma nle_trans a b c : nle a b -> nle b c -> nle a c.
Proof.
  intros H1 H2. apply nleb_spec in H1. apply nleb_spec in H2. apply nleb_spec.
  destruct H1 as [H1|H1], H2 as [H2|H2];
    rewrite (ncmp_trans _ _ _ _ _ H1 H2) by discriminate; cbn; auto.
Qed.

Lemma nle_total a b : is_nan a = false -> is_nan b = false -> nle a b \/ nle b a.
Proof.
  intros Ha Hb. destruct (ncmp_some a b Ha Hb) as [o E].
  destruct o; [left|left|right]; apply nleb_spec; auto.
  rewrite ncmp_antisym, E. cbn. auto.
Qed.

Lemma nlt_nle a b : nlt a b -> nle a b.
Proof. intros H. apply nltb_spec in H. apply nleb_spec. auto. Qed.

Lemma not_nlt_nle a b : is_nan a = false -> is_nan b = false -> nltb b a = false -> nle a b.
Proof.
  intros Ha Hb H. destruct (ncmp_some b a Hb Ha) as [o E].
  apply nleb_spec. rewrite ncmp_antisym, E.
  destruct o; cbn; auto. exfalso. apply nltb_spec in E. unfold nlt in *. congruence.
Qed.

Lemma nle_antisym a b : nle a b -> nle b a -> neq a b.
Proof.
  intros H1 H2. apply nleb_spec in H1. apply nleb_spec in H2. unfold neq.
  rewrite ncmp_antisym in H2. destruct (ncmp a b) as [[]|]; cbn in *; auto;
    destruct H1, H2; congruence.
Qed.

Lemma neq_nle a b : neq a b -> nle a b /\ nle b a.
Proof.
  unfold neq. intros H. split; apply nleb_spec; right; auto. now rewrite ncmp_antisym, H.
Qed.

Lemma nlt_not_nle a b : nlt a b -> nle b a -> False.
Proof.
  intros H1 H2. apply nltb_spec in H1. apply nleb_spec in H2. rewrite ncmp_antisym, H1 in H2.
  cbn in H2. destruct H2; discriminate.
Qed.

Lemma nle_nlt_trans a b c : nle a b -> nlt b c -> nlt a c.
Proof.
  intros H1 H2. apply nleb_spec in H1. apply nltb_spec in H2. apply nltb_spec.
  destruct H1 as [H1|H1]; rewrite (ncmp_trans _ _ _ _ _ H1 H2) by discriminate; reflexivity.
Qed.

Lemma nleb_false_nlt a b : is_nan a = false -> is_nan b = false -> nleb a b = false -> nlt b a.
Proof.
  intros Ha Hb H. destruct (ncmp_some a b Ha Hb) as [o E]. apply nltb_spec.
  rewrite ncmp_antisym, E. destruct o; cbn; auto; exfalso;
    assert (nleb a b = true) by (apply nleb_spec; auto); congruence.
Qed.

(* numeric equality is Leibniz equality except for the two zeros *)
Definition is_zero (x : num) : bool := match x with S754_zero _ => true | _ => false end.
Lemma lexcmp_eq a b : lexcmp a b = Eq -> a = b.
Proof.
  destruct a as [[a1 a2] a3], b as [[b1 b2] b3]; cbn.
  destruct (Z.compare_spec a1 b1); try discriminate.
  destruct (Z.compare_spec a2 b2); try discriminate.
  destruct (Z.compare_spec a3 b3); try discriminate. intros _. congruence.
Qed.
Lemma neq_cases a b : neq a b -> a = b \/ (is_zero a = true /\ is_zero b = true).
Proof.
  unfold neq. rewrite ncmp_key.
  destruct (key a) as [ka|] eqn:Ea, (key b) as [kb|] eqn:Eb; try discriminate.
  intros H. injection H as H. apply lexcmp_eq in H. subst kb.
  destruct a as [[]|[]| |[] ma ea], b as [[]|[]| |[] mb eb]; cbn in Ea, Eb; auto;
    try congruence; left; injection Ea as <-; injection Eb as E1 E2;
    f_equal; try lia; try congruence.
Qed.

Lemma nan_free_forall l : nan_free l = true <-> forall x, In x l -> is_nan x = false.
Proof.
  unfold nan_free. rewrite forallb_forall. split; intros H x Hx; specialize (H x Hx);
    now destruct (is_nan x).
Qed.
Lemma nan_free_cons x l : nan_free (x :: l) = true <-> is_nan x = false /\ nan_free l = true.
Proof. cbn. rewrite andb_true_iff, negb_true_iff. tauto. Qed.
Lemma has_nan_nan_free l : has_nan l = negb (nan_free l).
Proof.
  unfold has_nan, nan_free. induction l as [|x l IH]; [reflexivity|]. cbn. rewrite IH.
  now destruct (is_nan x).
Qed.
Lemma nan_free_perm l l' : Permutation l l' -> nan_free l = true -> nan_free l' = true.
Proof.
  intros P H. apply nan_free_forall. intros x Hx. apply (proj1 (nan_free_forall l) H).
  now apply (Permutation_in _ (Permutation_sym P)).
Qed.

(* ------------------------------------------------------------------ min / max *)
Lemma nmin_spec a b : is_nan a = false -> is_nan b = false ->
  (nmin a b = a \/ nmin a b = b) /\ nle (nmin a b) a /\ nle (nmin a b) b.
Proof.
  intros Ha Hb. unfold nmin. rewrite Ha, Hb. destruct (nltb b a) eqn:E.
  - split; [auto|split]; [now apply nlt_nle|now apply nle_refl].
  - split; [auto|split]; [now apply nle_refl|now apply not_nlt_nle].
Qed.
Lemma nmax_spec a b : is_nan a = false -> is_nan b = false ->
  (nmax a b = a \/ nmax a b = b) /\ nle a (nmax a b) /\ nle b (nmax a b).
Proof.
  intros Ha Hb. unfold nmax. rewrite Ha, Hb. destruct (nltb a b) eqn:E.
  - split; [auto|split]; [now apply nlt_nle|now apply nle_refl].
  - split; [auto|split]; [now apply nle_refl|now apply not_nlt_nle].
Qed.

Lemma fold_min_spec l : forall acc, is_nan acc = false -> nan_free l = true ->
  let r := fold_left nmin l acc in
  (r = acc \/ In r l) /\ nle r acc /\ (forall x, In x l -> nle r x).
Proof.
  induction l as [|y l IH]; intros acc Ha Hl; cbn.
  - split; [auto|split]; [now apply nle_refl|tauto].
  - apply nan_free_cons in Hl. destruct Hl as [Hy Hl].
    destruct (nmin_spec acc y Ha Hy) as (Hc & H1 & H2).
    assert (Hm : is_nan (nmin acc y) = false) by (destruct Hc as [->| ->]; assumption).
    destruct (IH (nmin acc y) Hm Hl) as (A & B & C).
    split; [|split].
    + destruct A as [A|A]; [|auto]. rewrite A. destruct Hc as [->| ->]; auto.
    + eapply nle_trans; eauto.
    + intros x [<-|Hx]; [eapply nle_trans; eauto|auto].
Qed.
Lemma fold_max_spec l : forall acc, is_nan acc = false -> nan_free l = true ->
  let r := fold_left nmax l acc in
  (r = acc \/ In r l) /\ nle acc r /\ (forall x, In x l -> nle x r).
Proof.
  induction l as [|y l IH]; intros acc Ha Hl; cbn.
  - split; [auto|split]; [now apply nle_refl|tauto].
  - apply nan_free_cons in Hl. destruct Hl as [Hy Hl].
    destruct (nmax_spec acc y Ha Hy) as (Hc & H1 & H2).
    assert (Hm : is_nan (nmax acc y) = false) by (destruct Hc as [->| ->]; assumption).
    destruct (IH (nmax acc y) Hm Hl) as (A & B & C).
    split; [|split].
    + destruct A as [A|A]; [|auto]. rewrite A. destruct Hc as [->| ->]; auto.
    + eapply nle_trans; eauto.
    + intros x [<-|Hx]; [eapply nle_trans; eauto|auto].
Qed.

Lemma nle_pinf_eq x : nle npinf x -> x = npinf.
Proof.
  intros H. apply nleb_spec in H. unfold ncmp, npinf in H.
  destruct x as [[]|[]| |[] ? ?]; cbn in H; destruct H; try discriminate; reflexivity.
Qed.
Lemma nle_ninf_eq x : nle x nninf -> x = nninf.
Proof.
  intros H. apply nleb_spec in H. unfold ncmp, nninf in H.
  destruct x as [[]|[]| |[] ? ?]; cbn in H; destruct H; try discriminate; reflexivity.
Qed.

(* min / max are elements of the list bounding all others *)
Lemma min_bound l : l <> [] -> nan_free l = true ->
  exists m, bi_min (nums l) = Ok (VNum m) /\ bi_min [VList (nums l)] = Ok (VNum m) /\
            In m l /\ forall x, In x l -> nle m x.
Proof.
  intros Hne Hl. exists (fold_min l).
  destruct (bi_agg_nums AMin l eq_refl Hne) as [A B]. cbn in A, B.
  destruct (fold_min_spec l npinf eq_refl Hl) as (C & D & E).
  repeat split; auto.
  destruct C as [C|C]; [|exact C].
  destruct l as [|x l]; [contradiction|]. unfold fold_min.
  assert (X : x = npinf). { apply nle_pinf_eq. rewrite <- C. apply E. now left. }
  rewrite C, <- X. now left.
Qed.
Lemma max_bound l : l <> [] -> nan_free l = true ->
  exists m, bi_max (nums l) = Ok (VNum m) /\ bi_max [VList (nums l)] = Ok (VNum m) /\
            In m l /\ forall x, In x l -> nle x m.
Proof.
  intros Hne Hl. exists (fold_max l).
  destruct (bi_agg_nums AMax l eq_refl Hne) as [A B]. cbn in A, B.
  destruct (fold_max_spec l nninf eq_refl Hl) as (C & D & E).
  repeat split; auto.
  destruct C as [C|C]; [|exact C].
  destruct l as [|x l]; [contradiction|]. unfold fold_max.
  assert (X : x = nninf). { apply nle_ninf_eq. rewrite <- C. apply E. now left. }
  rewrite C, <- X. now left.
Qed.

(* ------------------------------------------------------------------ sort_by(partial_cmp.unwrap) *)
Definition sort_step (acc : outcome (list num)) (x : num) : outcome (list num) :=
  do a <- acc; insert_pc x a.
Definition sort_from (acc : outcome (list num)) (l : list num) := fold_left sort_step l acc.
Lemma sort_pc_from l : sort_pc l = sort_from (Ok []) l.
Proof. reflexivity. Qed.

Lemma sort_from_panic l : sort_from Panic l = Panic.
Proof. induction l; cbn; auto. Qed.
Lemma sort_from_cons acc x l : sort_from (Ok acc) (x :: l) = sort_from (insert_pc x acc) l.
Proof. reflexivity. Qed.

Lemma HdRel_insert a x : forall l s,
  insert_pc x l = Ok s -> nle a x -> HdRel nle a l -> HdRel nle a s.
Proof.
  intros l s H Hax Hl. destruct l as [|y r]; cbn in H.
  - injection H as <-. now constructor.
  - destruct (ncmp x y) as [[]|]; try discriminate.
    + destruct (insert_pc x r); try discriminate. injection H as <-.
      constructor. now inversion Hl.
    + injection H as <-. now constructor.
    + destruct (insert_pc x r); try discriminate. injection H as <-.
      constructor. now inversion Hl.
Qed.

(* inserting a non-NaN into a sorted NaN-free list: succeeds, permutes, stays sorted *)
Lemma insert_pc_ok x : is_nan x = false -> forall l, nan_free l = true -> Sorted nle l ->
  exists s, insert_pc x l = Ok s /\ Permutation (x :: l) s /\ Sorted nle s.
Proof.
  intros Hx. induction l as [|y r IH]; intros Hl Hs.
  - exists [x]. cbn. repeat split; auto.
  - apply nan_free_cons in Hl. destruct Hl as [Hy Hr]. cbn [insert_pc].
    destruct (ncmp_some x y Hx Hy) as [o E]. rewrite E.
    assert (Hs' : Sorted nle r) by now inversion Hs.
    destruct (IH Hr Hs') as (s & A & B & C).
    assert (Hyx : o <> Lt -> nle y x).
    { intros Ho. apply nleb_spec. rewrite ncmp_antisym, E. destruct o; cbn; auto. congruence. }
    destruct o.
    + rewrite A. cbn. exists (y :: s). repeat split.
      * rewrite perm_swap. now constructor.
      * constructor; [assumption|]. eapply HdRel_insert; eauto. apply Hyx. discriminate.
        now inversion Hs.
    + exists (x :: y :: r). repeat split; auto. constructor; [assumption|].
      constructor. apply nleb_spec. auto.
    + rewrite A. cbn. exists (y :: s). repeat split.
      * rewrite perm_swap. now constructor.
      * constructor; [assumption|]. eapply HdRel_insert; eauto. apply Hyx. discriminate.
        now inversion Hs.
Qed.

(* the first comparison of an insertion into a non-empty list aborts on a NaN *)
Lemma insert_pc_nan x y r : is_nan x = true \/ is_nan y = true -> insert_pc x (y :: r) = Panic.
Proof. intros H. cbn. now rewrite (proj2 (ncmp_none x y) H). Qed.

Lemma sort_from_ok l : forall acc, nan_free acc = true -> Sorted nle acc -> nan_free l = true ->
  exists s, sort_from (Ok acc) l = Ok s /\ Permutation (acc ++ l) s /\ Sorted nle s.
Proof.
  induction l as [|x l IH]; intros acc Ha Hs Hl.
  - exists acc. cbn. rewrite app_nil_r. auto.
  - apply nan_free_cons in Hl. destruct Hl as [Hx Hl].
    destruct (insert_pc_ok x Hx acc Ha Hs) as (s1 & A & B & C).
    cbn. rewrite A.
    assert (H1 : nan_free s1 = true).
    { apply (nan_free_perm _ _ B). apply nan_free_cons. auto. }
    destruct (IH s1 H1 C Hl) as (s & D & E & F).
    exists s. repeat split; auto.
    rewrite <- E, <- B. cbn. now rewrite <- Permutation_middle.
Qed.

Lemma sort_from_nan l : forall y r, nan_free (y :: r) = true -> Sorted nle (y :: r) ->
  has_nan l = true -> sort_from (Ok (y :: r)) l = Panic.
Proof.
  induction l as [|x l IH]; intros y r Ha Hs Hl; [discriminate|].
  rewrite sort_from_cons.
  destruct (is_nan x) eqn:Hx.
  - rewrite insert_pc_nan by auto. apply sort_from_panic.
  - cbn in Hl. rewrite Hx in Hl. cbn in Hl.
    destruct (insert_pc_ok x Hx (y :: r) Ha Hs) as (s1 & A & B & C). rewrite A.
    assert (H1 : nan_free s1 = true).
    { apply (nan_free_perm _ _ B). apply nan_free_cons. auto. }
    destruct s1 as [|y1 r1].
    + apply Permutation_sym, Permutation_nil in B. discriminate.
    + now apply IH.
Qed.

(* the complete behaviour of the sort as the code uses it *)
Theorem sort_pc_spec l :
  (length l < 2)%nat -> sort_pc l = Ok l.
Proof. destruct l as [|x [|y r]]; cbn; intros; try reflexivity; lia. Qed.

Theorem sort_pc_nan_panics l :
  (2 <= length l)%nat -> has_nan l = true -> sort_pc l = Panic.
Proof.
  destruct l as [|x [|y r]]; cbn [length]; intros Hlen Hn; try lia.
  rewrite sort_pc_from, sort_from_cons. change (insert_pc x []) with (Ok [x]).
  rewrite sort_from_cons.
  destruct (is_nan x) eqn:Hx.
  - rewrite insert_pc_nan by auto. apply sort_from_panic.
  - destruct (is_nan y) eqn:Hy.
    + rewrite insert_pc_nan by auto. apply sort_from_panic.
    + cbn in Hn. rewrite Hx, Hy in Hn. cbn in Hn.
      assert (Hx1 : nan_free [x] = true) by (cbn; now rewrite Hx).
      destruct (insert_pc_ok y Hy [x] Hx1 (Sorted_cons (Sorted_nil _) (HdRel_nil _ _)))
        as (s1 & A & B & C).
      rewrite A.
      assert (H1 : nan_free s1 = true).
      { apply (nan_free_perm _ _ B). cbn. now rewrite Hx, Hy. }
      destruct s1 as [|y1 r1].
      * apply Permutation_sym, Permutation_nil in B. discriminate.
      * now apply sort_from_nan.
Qed.

Theorem sort_pc_sorts l : nan_free l = true ->
  exists s, sort_pc l = Ok s /\ Permutation l s /\ Sorted nle s.
Proof. intros H. exact (sort_from_ok l [] eq_refl (Sorted_nil _) H). Qed.

(* sort_pc never returns Err / ErrDepth / Unmodelled *)
Lemma sort_pc_ok_or_panic l : (exists s, sort_pc l = Ok s) \/ sort_pc l = Panic.
Proof.
  destruct (has_nan l) eqn:Hn.
  - destruct (le_lt_dec 2 (length l)) as [H|H].
    + right. now apply sort_pc_nan_panics.
    + left. exists l. now apply sort_pc_spec.
  - left. rewrite has_nan_nan_free in Hn. apply negb_false_iff in Hn.
    destruct (sort_pc_sorts l Hn) as (s & A & _). eauto.
Qed.

Theorem sort_pc_panic_iff l :
  sort_pc l = Panic <-> ((2 <= length l)%nat /\ has_nan l = true).
Proof.
  split.
  - intros H. destruct (has_nan l) eqn:Hn.
    + destruct (le_lt_dec 2 (length l)) as [L|L]; [auto|].
      rewrite sort_pc_spec in H by assumption. discriminate.
    + rewrite has_nan_nan_free in Hn. apply negb_false_iff in Hn.
      destruct (sort_pc_sorts l Hn) as (s & A & _). congruence.
  - intros [A B]. now apply sort_pc_nan_panics.
Qed.

(* ------------------------------------------------------------------ order statistics by rank *)
(* The k-th order statistic (k = 0 is the smallest) of a list, defined by counting and therefore
   manifestly invariant under permutation: v occurs in l, at most k elements are strictly
   smaller, and more than k elements are smaller or equal. *)
Definition count_lt (v : num) (l : list num) : nat := length (filter (fun x => nltb x v) l).
Definition count_le (v : num) (l : list num) : nat := length (filter (fun x => nleb x v) l).
Definition is_order_stat (l : list num) (k : nat) (v : num) : Prop :=
  In v l /\ (count_lt v l <= k)%nat /\ (k < count_le v l)%nat.

Lemma filter_length_perm {A} (f : A -> bool) l l' :
  Permutation l l' -> length (filter f l) = length (filter f l').
Proof.
  induction 1; cbn; auto.
  - destruct (f x); cbn; auto.
  - destruct (f x), (f y); cbn; auto.
  - congruence.
Qed.

Lemma filter_length_le {A} (f g : A -> bool) l :
  (forall x, In x l -> f x = true -> g x = true) ->
  (length (filter f l) <= length (filter g l))%nat.
Proof.
  induction l as [|x l IH]; intros H; cbn; [lia|].
  assert (IH' := IH (fun y Hy => H y (or_intror Hy))).
  destruct (f x) eqn:Ef.
  - rewrite (H x (or_introl eq_refl) Ef). cbn. lia.
  - destruct (g x); cbn; lia.
Qed.

Lemma filter_length_all {A} (f : A -> bool) l :
  (forall x, In x l -> f x = true) -> length (filter f l) = length l.
Proof.
  induction l as [|x l IH]; intros H; cbn; [reflexivity|].
  rewrite (H x (or_introl eq_refl)). cbn. f_equal. apply IH. intros; apply H; now right.
Qed.
Lemma filter_length_none {A} (f : A -> bool) l :
  (forall x, In x l -> f x = false) -> length (filter f l) = 0%nat.
Proof.
  induction l as [|x l IH]; intros H; cbn; [reflexivity|].
  rewrite (H x (or_introl eq_refl)). apply IH. intros; apply H; now right.
Qed.

Lemma order_stat_perm l l' k v : Permutation l l' -> is_order_stat l k v -> is_order_stat l' k v.
Proof.
  intros P (A & B & C). unfold is_order_stat, count_lt, count_le in *.
  rewrite <- !(filter_length_perm _ _ _ P). split; [|auto]. eapply Permutation_in; eauto.
Qed.

(* two values of the same rank are numerically equal *)
Lemma order_stat_unique l k v w :
  nan_free l = true -> is_order_stat l k v -> is_order_stat l k w -> neq v w.
Proof.
  intros Hl (Av & Bv & Cv) (Aw & Bw & Cw).
  assert (Nv := proj1 (nan_free_forall l) Hl v Av). assert (Nw := proj1 (nan_free_forall l) Hl w Aw).
  assert (X : forall a b, In a l -> In b l -> (count_lt b l <= k)%nat -> (k < count_le a l)%nat -> nle b a).
  { intros a b Ha Hb Hb1 Ha1.
    assert (Na := proj1 (nan_free_forall l) Hl a Ha). assert (Nb := proj1 (nan_free_forall l) Hl b Hb).
    destruct (nleb b a) eqn:E; [exact E|]. exfalso.
    assert (Hlt : nlt a b) by now apply nleb_false_nlt.
    assert (count_le a l <= count_lt b l)%nat; [|lia].
    apply filter_length_le. intros x Hx Hxa. eapply nle_nlt_trans; eauto. }
  apply nle_antisym; apply X; auto.
Qed.

Lemma Sorted_nle_strong s : Sorted nle s -> StronglySorted nle s.
Proof. apply Sorted_StronglySorted. intros a b c. apply nle_trans. Qed.

(* in a sorted list the element at index k has rank k *)
Lemma sorted_nth_order_stat s k v :
  nan_free s = true -> Sorted nle s -> nth_error s k = Some v -> is_order_stat s k v.
Proof.
  unfold num in *. intros Hn Hs Hk. apply Sorted_nle_strong in Hs.
  destruct (nth_error_split s k Hk) as (s1 & s2 & -> & Hlen).
  assert (Nv : is_nan v = false).
  { apply (proj1 (nan_free_forall _) Hn). apply in_or_app. right. now left. }
  assert (H1 : forall x, In x s1 -> nle x v).
  { clear Hk Hn Hlen. induction s1 as [|y s1 IH]; intros x Hx; [contradiction|].
    cbn in Hs. inversion Hs as [|? ? Hs' Hall]; subst. destruct Hx as [<-|Hx].
    - rewrite Forall_forall in Hall. apply Hall. apply in_or_app. right. now left.
    - now apply IH. }
  assert (H2 : forall x, In x s2 -> nle v x).
  { clear Hk Hn H1 Hlen. induction s1 as [|y s1 IH]; cbn in Hs.
    - inversion Hs as [|? ? Hs' Hall]; subst. now rewrite Forall_forall in Hall.
    - inversion Hs; subst. now apply IH. }
  unfold is_order_stat, count_lt, count_le. rewrite !filter_app, !app_length. cbn [filter].
  rewrite (proj2 (nleb_spec v v)) by (right; now apply ncmp_refl).
  assert (E : nltb v v = false).
  { destruct (nltb v v) eqn:E; [|reflexivity]. apply nltb_spec in E.
    rewrite ncmp_refl in E by assumption. discriminate. }
  rewrite E. cbn [length].
  match goal with |- context [(length (filter ?f s1) + length (filter ?f s2))%nat] => rewrite (filter_length_none f s2) end.
  2:{ intros x Hx. destruct (nltb x v) eqn:F; [|reflexivity]. exfalso.
      eapply nlt_not_nle; [exact F|]. now apply H2. }
  match goal with |- context [(length (filter ?f s1) + S _)%nat] => rewrite (filter_length_all f s1) by exact H1 end.
  split; [apply in_or_app; right; now left|].
  match goal with |- context [(length (filter ?f s1) + 0)%nat] =>
    assert (length (filter f s1) <= length s1)%nat by
      (clear; induction s1 as [|y s1 IH]; cbn; [lia|]; destruct (nltb y v); cbn; lia) end.
  lia.
Qed.

(* rank 0 is the minimum, rank n-1 the maximum *)
Lemma order_stat_0_min l v m : nan_free l = true ->
  is_order_stat l 0 v -> In m l -> (forall x, In x l -> nle m x) -> neq v m.
Proof.
  unfold num in *. intros Hl (A & B & C) Hm Hb.
  assert (Nv := proj1 (nan_free_forall l) Hl v A). assert (Nm := proj1 (nan_free_forall l) Hl m Hm).
  apply nle_antisym; [|now apply Hb].
  destruct (nleb v m) eqn:E; [exact E|]. exfalso.
  assert (Hlt : nlt m v) by now apply nleb_false_nlt.
  unfold count_lt in B.
  assert (1 <= length (filter (fun x => nltb x v) l))%nat; [|lia].
  clear - Hm Hlt. induction l as [|y l IH]; [contradiction|]. cbn. destruct Hm as [->|Hm].
  - unfold nlt in Hlt. rewrite Hlt. cbn. lia.
  - destruct (nltb y v); cbn; [lia|auto].
Qed.
Lemma order_stat_last_max l v m : nan_free l = true ->
  is_order_stat l (length l - 1) v -> In m l -> (forall x, In x l -> nle x m) -> neq v m.
Proof.
  unfold num in *. intros Hl (A & B & C) Hm Hb.
  assert (Nv := proj1 (nan_free_forall l) Hl v A). assert (Nm := proj1 (nan_free_forall l) Hl m Hm).
  apply nle_antisym; [now apply Hb|].
  destruct (nleb m v) eqn:E; [exact E|]. exfalso.
  assert (Hlt : nlt v m) by now apply nleb_false_nlt.
  unfold count_le in C.
  assert (length (filter (fun x => nleb x v) l) < length l)%nat; [|lia].
  clear - Hm Hlt. induction l as [|y l IH]; [contradiction|]. cbn.
  assert (G : forall l, (length (filter (fun x => nleb x v) l) <= length l)%nat).
  { clear. induction l as [|y l IH]; cbn; [lia|]. destruct (nleb y v); cbn; lia. }
  destruct Hm as [->|Hm].
  - destruct (nleb m v) eqn:F; [exfalso; eapply nlt_not_nle; eauto|]. specialize (G l). lia.
  - specialize (IH Hm). destruct (nleb y v); cbn; lia.
Qed.

(* monotone in the rank *)
Lemma order_stat_mono l j k v w : nan_free l = true -> (j <= k)%nat ->
  is_order_stat l j v -> is_order_stat l k w -> nle v w.
Proof.
  intros Hl Hjk (Av & Bv & Cv) (Aw & Bw & Cw).
  assert (Nv := proj1 (nan_free_forall l) Hl v Av). assert (Nw := proj1 (nan_free_forall l) Hl w Aw).
  destruct (nleb v w) eqn:E; [exact E|]. exfalso.
  assert (Hlt : nlt w v) by now apply nleb_false_nlt.
  assert (count_le w l <= count_lt v l)%nat; [|lia].
  apply filter_length_le. intros x Hx Hxa. eapply nle_nlt_trans; eauto.
Qed.

(* ------------------------------------------------------------------ median *)
Lemma index_num_nth s i : 0 <= i < len s ->
  exists v, index_num s i = Ok v /\ nth_error s (Z.to_nat i) = Some v.
Proof.
  intros H. unfold index_num, len in *.
  replace (i <? 0) with false by lia. replace (Z.of_nat (length s) <=? i) with false by lia. cbn.
  destruct (nth_error s (Z.to_nat i)) eqn:E; [eauto|].
  apply nth_error_None in E. lia.
Qed.

(* median of a non-empty NaN-free list: the middle order statistic, or the mean (x + y) / 2.0 of
   the two middle ones *)
Lemma median_order_stat l : l <> [] -> nan_free l = true ->
  let n := length l in
  exists m, bi_median (nums l) = Ok (VNum m) /\ bi_median [VList (nums l)] = Ok (VNum m) /\
    if Nat.even n
    then exists x y, is_order_stat l (n / 2 - 1) x /\ is_order_stat l (n / 2) y /\
                     m = ndiv (nadd x y) n2
    else is_order_stat l (n / 2) m.
Proof.
  intros Hne Hl n.
  destruct (bi_agg_nums AMedian l eq_refl Hne) as [A B]. cbn [bi_agg] in A, B. rewrite A, B.
  cbn [reduce]. replace (has_nan l) with false by (rewrite has_nan_nan_free, Hl; reflexivity).
  destruct (sort_pc_sorts l Hl) as (s & Hs & P & S). rewrite Hs. cbn [obind].
  assert (Hlen : length s = n) by (symmetry; now apply Permutation_length).
  assert (Hns : nan_free s = true) by (eapply nan_free_perm; eauto).
  assert (Hn0 : (0 < n)%nat) by (subst n; destruct l; [contradiction|cbn; lia]).
  unfold len. rewrite Hlen.
  assert (Hev : (Z.of_nat n mod 2 =? 0) = Nat.even n).
  { rewrite <- Nat2Z.inj_mod with (m := 2%nat). change 0 with (Z.of_nat 0).
    destruct (Nat.even n) eqn:E.
    - apply Nat.even_spec in E. destruct E as [q ->].
      rewrite Nat.mul_comm, Nat.mod_mul by lia. reflexivity.
    - rewrite <- Nat.negb_odd in E. apply negb_false_iff, Nat.odd_spec in E. destruct E as [q ->].
      replace ((2 * q + 1) mod 2)%nat with 1%nat; [reflexivity|].
      rewrite Nat.add_comm, Nat.mul_comm, Nat.mod_add by lia. reflexivity. }
  rewrite Hev.
  assert (Hdiv : Z.of_nat n / 2 = Z.of_nat (n / 2)) by (now rewrite (Nat2Z.inj_div n 2)).
  assert (Hhalf : (n / 2 < n)%nat) by (apply Nat.div_lt; lia).
  destruct (Nat.even n) eqn:E.
  - assert (H2 : (1 <= n / 2)%nat).
    { apply Nat.even_spec in E. destruct E as [q Eq]. rewrite Eq, Nat.mul_comm, Nat.div_mul by lia. lia. }
    destruct (index_num_nth s (Z.of_nat n / 2 - 1)) as (x & X1 & X2); [unfold len; lia|].
    destruct (index_num_nth s (Z.of_nat n / 2)) as (y & Y1 & Y2); [unfold len; lia|].
    rewrite X1, Y1. cbn [obind]. eexists; split; [reflexivity|split; [reflexivity|]].
    exists x, y. split; [|split; [|reflexivity]].
    + apply order_stat_perm with (l := s); [now apply Permutation_sym|].
      apply sorted_nth_order_stat; auto. rewrite <- X2. f_equal. lia.
    + apply order_stat_perm with (l := s); [now apply Permutation_sym|].
      apply sorted_nth_order_stat; auto. rewrite <- Y2. f_equal. lia.
  - destruct (index_num_nth s (Z.of_nat n / 2)) as (y & Y1 & Y2); [unfold len; lia|].
    rewrite Y1. cbn [obind]. eexists; split; [reflexivity|split; [reflexivity|]].
    apply order_stat_perm with (l := s); [now apply Permutation_sym|].
    apply sorted_nth_order_stat; auto. rewrite <- Y2. f_equal. lia.
Qed.

(* ------------------------------------------------------------------ permutation invariance *)
(* equal as numbers: the same value (this covers NaN = NaN, the model has one NaN), or == *)
Definition same_num (a b : num) : Prop := a = b \/ neq a b.

Lemma n2_value : n2 = S754_finite false 4503599627370496 (-51).
Proof. vm_compute. reflexivity. Qed.

Lemma neq_refl_or_nan x : same_num x x.
Proof. now left. Qed.

Lemma nadd_compat a a' b b' : neq a a' -> neq b b' -> same_num (nadd a b) (nadd a' b').
Proof.
  intros Ha Hb. destruct (neq_cases _ _ Ha) as [<-|[Za Za']], (neq_cases _ _ Hb) as [<-|[Zb Zb']].
  - now left.
  - destruct b as [sb|?| |? ? ?]; try discriminate. destruct b' as [sb'|?| |? ? ?]; try discriminate.
    destruct a as [sa|sa| |sa ma ea]; try destruct sa; destruct sb, sb'; cbn;
      try (now left); try (right; reflexivity); right; exact Ha.
  - destruct a as [sa|?| |? ? ?]; try discriminate. destruct a' as [sa'|?| |? ? ?]; try discriminate.
    destruct b as [sb|sb| |sb mb eb]; try destruct sb; destruct sa, sa'; cbn;
      try (now left); try (right; reflexivity); right; exact Hb.
  - destruct a as [sa|?| |? ? ?]; try discriminate. destruct a' as [sa'|?| |? ? ?]; try discriminate.
    destruct b as [sb|?| |? ? ?]; try discriminate. destruct b' as [sb'|?| |? ? ?]; try discriminate.
    destruct sa, sa', sb, sb'; cbn; try (now left); right; reflexivity.
Qed.

Lemma ndiv2_compat x x' : same_num x x' -> same_num (ndiv x n2) (ndiv x' n2).
Proof.
  intros [<-|H]; [now left|]. destruct (neq_cases _ _ H) as [<-|[Z Z']]; [now left|].
  destruct x as [s|?| |? ? ?]; try discriminate. destruct x' as [s'|?| |? ? ?]; try discriminate.
  rewrite n2_value. destruct s, s'; cbn; try (now left); right; reflexivity.
Qed.

Lemma min_perm_invariant l l' : Permutation l l' -> l <> [] -> nan_free l = true ->
  exists m m', bi_min (nums l) = Ok (VNum m) /\ bi_min (nums l') = Ok (VNum m') /\ neq m m'.
Proof.
  intros P Hne Hl.
  assert (Hne' : l' <> []) by (intros ->; apply Permutation_sym, Permutation_nil in P; auto).
  destruct (min_bound l Hne Hl) as (m & A & _ & B & C).
  destruct (min_bound l' Hne' (nan_free_perm _ _ P Hl)) as (m' & A' & _ & B' & C').
  exists m, m'. repeat split; auto. apply nle_antisym.
  - apply C. eapply Permutation_in; [apply Permutation_sym|]; eauto.
  - apply C'. eapply Permutation_in; eauto.
Qed.
Lemma max_perm_invariant l l' : Permutation l l' -> l <> [] -> nan_free l = true ->
  exists m m', bi_max (nums l) = Ok (VNum m) /\ bi_max (nums l') = Ok (VNum m') /\ neq m m'.
Proof.
  intros P Hne Hl.
  assert (Hne' : l' <> []) by (intros ->; apply Permutation_sym, Permutation_nil in P; auto).
  destruct (max_bound l Hne Hl) as (m & A & _ & B & C).
  destruct (max_bound l' Hne' (nan_free_perm _ _ P Hl)) as (m' & A' & _ & B' & C').
  exists m, m'. repeat split; auto. apply nle_antisym.
  - apply C'. eapply Permutation_in; eauto.
  - apply C. eapply Permutation_in; [apply Permutation_sym|]; eauto.
Qed.

Lemma median_perm_invariant l l' : Permutation l l' -> l <> [] -> nan_free l = true ->
  exists m m', bi_median (nums l) = Ok (VNum m) /\ bi_median (nums l') = Ok (VNum m') /\
               same_num m m'.
Proof.
  intros P Hne Hl.
  assert (Hne' : l' <> []) by (intros ->; apply Permutation_sym, Permutation_nil in P; auto).
  assert (Hl' := nan_free_perm _ _ P Hl).
  destruct (median_order_stat l Hne Hl) as (m & A & _ & B).
  destruct (median_order_stat l' Hne' Hl') as (m' & A' & _ & B').
  exists m, m'. split; [exact A|split; [exact A'|]].
  rewrite <- (Permutation_length P) in B'. cbv zeta in B, B'.
  destruct (Nat.even (length l)).
  - destruct B as (x & y & X & Y & ->). destruct B' as (x' & y' & X' & Y' & ->).
    apply ndiv2_compat. apply nadd_compat.
    + eapply order_stat_unique; [exact Hl|exact X|]. eapply order_stat_perm; [apply Permutation_sym|]; eauto.
    + eapply order_stat_unique; [exact Hl|exact Y|]. eapply order_stat_perm; [apply Permutation_sym|]; eauto.
  - right. eapply order_stat_unique; [exact Hl|exact B|].
    eapply order_stat_perm; [apply Permutation_sym|]; eauto.
Qed.
