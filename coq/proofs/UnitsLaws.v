(* UnitsLaws.v — lemmas and proofs for C17 (unit conversion is consistent across the whole
   unit table).  Three kinds of statement:
   (1) finite, exhaustive by vm_compute over the table regenerated from the built crate
       (coq/gen/UnitsTable.v): the bound is the table; re-checked whenever it changes;
   (2) unbounded over identifiers / values / arithmetic instance, by ordinary proof;
   (3) exact-rational laws about the conversion code at the instance [qa]. *)
From Coq Require Import ZArith QArith String List Bool Ascii Lia Field.
Require Import Blots.Num Blots.UnitsBase Blots.gen.UnitsTable Blots.Units.
Import ListNotations.
Open Scope Z_scope.

(* ------------------------------------------------------------------ decidable equality *)
Definition literal_eq_dec (a b : literal) : {a = b} + {a <> b}.
Proof. decide equality; apply Z.eq_dec. Defined.
Definition tempfn_eq_dec (a b : tempfn) : {a = b} + {a <> b}.
Proof. decide equality. Defined.
Definition conversion_eq_dec (a b : conversion) : {a = b} + {a <> b}.
Proof. decide equality; solve [apply literal_eq_dec | apply tempfn_eq_dec]. Defined.
Definition unit_eq_dec (a b : unit) : {a = b} + {a <> b}.
Proof.
  decide equality; solve [apply conversion_eq_dec | apply (list_eq_dec string_dec)
                         | apply string_dec | apply Z.eq_dec].
Defined.
Definition ures_unit_eqb (r : ures unit) (u : unit) : bool :=
  match r with UOk u' => if unit_eq_dec u' u then true else false | UErr _ => false end.
Lemma ures_unit_eqb_true r u : ures_unit_eqb r u = true -> r = UOk u.
Proof. destruct r; simpl; try discriminate. destruct (unit_eq_dec a u); congruence. Qed.

Lemma str_in_In s l : str_in s l = true <-> In s l.
Proof.
  unfold str_in. rewrite existsb_exists. split.
  - intros [x [Hi He]]. apply String.eqb_eq in He. subst; auto.
  - intros H. exists s. split; auto. apply String.eqb_refl.
Qed.

(* ------------------------------------------------------------------ (2) resolve_unit, any table *)
(* What an answer of resolve_unit means: a unit only when it is the unique exact match, or
   there is no exact match and it is the unique case-insensitive match; never a guess. *)
Theorem resolve_spec : forall units s l,
  let ex := filter (fun u => matches_exact u s) units in
  let cs := filter (fun u => matches_case u l) units in
  match resolve_in units s l with
  | UOk u => ex = [u] \/ (ex = [] /\ cs = [u])
  | UErr EUnknown => ex = [] /\ cs = []
  | UErr EAmbigExact => (2 <= List.length ex)%nat
  | UErr EAmbigCase => ex = [] /\ (2 <= List.length cs)%nat
  | UErr _ => False
  end.
Proof.
  intros units s l ex cs. unfold resolve_in. fold ex. fold cs.
  destruct ex as [|u1 [|u2 r]]; simpl.
  - destruct cs as [|c1 [|c2 r]]; simpl; auto. split; auto. lia.
  - auto.
  - lia.
Qed.

Lemma resolve_in_In units s l u : resolve_in units s l = UOk u -> In u units.
Proof.
  intros H. pose proof (resolve_spec units s l) as S. cbv zeta in S. rewrite H in S.
  destruct S as [E | [_ E]];
    match type of E with filter ?f _ = _ =>
      assert (I : In u (filter f units)) by (rewrite E; simpl; auto); apply filter_In in I; tauto end.
Qed.

Lemma filter_nil_iff {A} (f : A -> bool) l : filter f l = [] <-> (forall x, In x l -> f x = false).
Proof.
  induction l as [|a l IH]; simpl.
  - split; auto. intros _ x [].
  - destruct (f a) eqn:E.
    + split; [discriminate|]. intros H. specialize (H a (or_introl eq_refl)). congruence.
    + rewrite IH. split.
      * intros H x [->|Hx]; auto.
      * intros H x Hx. apply H. auto.
Qed.

(* a filter by a stronger predicate of a list whose weaker filter is a singleton *)
Lemma filter_sub_singleton {A} (f g : A -> bool) l u :
  (forall x, In x l -> f x = true -> g x = true) -> filter g l = [u] ->
  filter f l = [] \/ filter f l = [u].
Proof.
  induction l as [|a l IH]; simpl; intros Hfg Hg; [discriminate|].
  destruct (g a) eqn:Ga.
  - injection Hg as -> Hg'.
    assert (Fl : filter f l = []).
    { apply filter_nil_iff. intros x Hx. destruct (f x) eqn:Fx; auto.
      assert (Gx : g x = true) by (apply Hfg; auto).
      assert (In x (filter g l)) by (apply filter_In; auto). rewrite Hg' in H. destruct H. }
    rewrite Fl. destruct (f u); auto.
  - destruct (f a) eqn:Fa.
    + rewrite (Hfg a (or_introl eq_refl) Fa) in Ga. discriminate.
    + apply IH; auto.
Qed.

(* ------------------------------------------------------------------ (1) table facts *)
(* the lower-cased identifiers dumped from Rust are what the model's to_lowercase computes:
   ties [to_lowercase] to Rust's on every identifier of the table *)
Lemma lower_consistent_ok :
  forallb (fun u => if list_eq_dec string_dec (map to_lowercase (u_ids u)) (u_lower u) then true else false)
          all_units = true.
Proof. vm_cast_no_check (eq_refl true). Qed.
Lemma lower_consistent : forall u, In u all_units -> u_lower u = map to_lowercase (u_ids u).
Proof.
  intros u Hu. pose proof lower_consistent_ok as H.
  rewrite forallb_forall in H. specialize (H u Hu).
  destruct (list_eq_dec string_dec (map to_lowercase (u_ids u)) (u_lower u)); congruence.
Qed.

(* no identifier is listed for two units (finite: all identifiers of the table) *)
Lemma no_duplicate_identifiers_ok : forallb (fun i => negb (dup_listed i)) all_idents = true.
Proof. vm_cast_no_check (eq_refl true). Qed.
Theorem no_duplicate_identifiers : forall u i, In u all_units -> In i (u_ids u) -> dup_listed i = false.
Proof.
  intros u i Hu Hi. pose proof no_duplicate_identifiers_ok as H. rewrite forallb_forall in H.
  apply negb_true_iff. apply H. unfold all_idents. apply in_flat_map. eauto.
Qed.

(* every listed identifier resolves to its unit *)
Lemma every_identifier_resolves_ok :
  forallb (fun u => forallb (fun i => ures_unit_eqb (resolve_unit i) u) (u_ids u)) all_units = true.
Proof. vm_cast_no_check (eq_refl true). Qed.
Theorem every_identifier_resolves : forall u i,
  In u all_units -> In i (u_ids u) -> resolve_unit i = UOk u.
Proof.
  intros u i Hu Hi. pose proof every_identifier_resolves_ok as H.
  rewrite forallb_forall in H. specialize (H u Hu).
  rewrite forallb_forall in H. specialize (H i Hi). apply ures_unit_eqb_true. exact H.
Qed.

(* an identifier listed for two units is an error (ambiguity), not a guess; holds for every table *)
Lemma dup_ident_is_error_ok :
  forallb (fun i => match resolve_unit i with UErr EAmbigExact => true | _ => false end)
          (filter dup_listed all_idents) = true.
Proof. vm_cast_no_check (eq_refl true). Qed.
Theorem dup_ident_is_error : forall u i,
  In u all_units -> In i (u_ids u) -> dup_listed i = true -> resolve_unit i = UErr EAmbigExact.
Proof.
  intros u i Hu Hi Hd. pose proof dup_ident_is_error_ok as H.
  rewrite forallb_forall in H.
  assert (I : In i (filter dup_listed all_idents)).
  { apply filter_In. split; auto. unfold all_idents. apply in_flat_map. eauto. }
  specialize (H i I). destruct (resolve_unit i) as [|[]]; congruence.
Qed.

(* two units of the table with the same identifier list are the same unit (so the self-conversion
   short-circuit `from.identifiers == to.identifiers` fires exactly for a unit and itself) *)
Lemma same_ids_same_unit_ok :
  forallb (fun u => forallb (fun x => if list_eq_dec string_dec (u_ids u) (u_ids x)
                                     then (if unit_eq_dec u x then true else false) else true)
                            all_units) all_units = true.
Proof. vm_cast_no_check (eq_refl true). Qed.
Theorem same_ids_same_unit : forall u x,
  In u all_units -> In x all_units -> u_ids u = u_ids x -> u = x.
Proof.
  intros u x Hu Hx E. pose proof same_ids_same_unit_ok as H.
  rewrite forallb_forall in H. specialize (H u Hu).
  rewrite forallb_forall in H. specialize (H x Hx).
  destruct (list_eq_dec string_dec (u_ids u) (u_ids x)); [|contradiction].
  destruct (unit_eq_dec u x); congruence.
Qed.

(* ------------------------------------------------------------------ case-insensitive resolution *)
(* proved for any table and any lower-casing function that is consistent with the table's dumped
   lower-cased identifiers, then instantiated (keeps the concrete table out of the proof terms) *)
Section ResolveAnyTable.
  Variable units : list unit.
  Variable lower : string -> string.
  Hypothesis lower_ok : forall u, In u units -> u_lower u = map lower (u_ids u).

  Lemma exact_implies_case_gen u s : In u units ->
    matches_exact u s = true -> matches_case u (lower s) = true.
  Proof.
    intros Hu H. unfold matches_exact, matches_case in *. apply str_in_In in H. apply str_in_In.
    rewrite (lower_ok u Hu). apply in_map. exact H.
  Qed.

  Lemma case_insensitive_gen : forall u i s,
    In u units -> In i (u_ids u) -> lower s = lower i ->
    List.length (filter (fun u0 => matches_case u0 (lower i)) units) = 1%nat ->
    resolve_in units s (lower s) = UOk u.
  Proof.
    intros u i s Hu Hi Hs Hc. unfold resolve_in. rewrite Hs.
    remember (filter (fun u0 => matches_case u0 (lower i)) units) as cs eqn:Ecs.
    destruct cs as [|c1 [|c2 r]]; simpl in Hc; try discriminate.
    assert (In u [c1]) as Hin.
    { rewrite Ecs. apply filter_In. split; auto.
      apply exact_implies_case_gen; auto. apply str_in_In. exact Hi. }
    destruct Hin as [->|[]].
    destruct (filter_sub_singleton (fun u0 => matches_exact u0 s)
                (fun u0 => matches_case u0 (lower i)) units u) as [E|E].
    - intros x Hx Hm. rewrite <- Hs. apply exact_implies_case_gen; auto.
    - symmetry. exact Ecs.
    - rewrite E. reflexivity.
    - rewrite E. reflexivity.
  Qed.

  Lemma unknown_gen : forall s,
    (forall u, In u units -> ~ In (lower s) (u_lower u)) -> resolve_in units s (lower s) = UErr EUnknown.
  Proof.
    intros s H. unfold resolve_in.
    assert (C : filter (fun u => matches_case u (lower s)) units = []).
    { apply filter_nil_iff. intros u Hu. destruct (matches_case u (lower s)) eqn:E; auto.
      apply str_in_In in E. destruct (H u Hu E). }
    assert (X : filter (fun u => matches_exact u s) units = []).
    { apply filter_nil_iff. intros u Hu. destruct (matches_exact u s) eqn:E; auto.
      apply exact_implies_case_gen in E; auto.
      rewrite filter_nil_iff in C. rewrite (C u Hu) in E. discriminate. }
    rewrite X, C. reflexivity.
  Qed.
End ResolveAnyTable.

Definition case_count (l : string) : nat := List.length (filter (fun u => matches_case u l) all_units).
Lemma case_count_eq l : case_count l = List.length (filter (fun u => matches_case u l) all_units).
Proof. reflexivity. Qed.
Lemma resolve_unit_eq s : resolve_unit s = resolve_in all_units s (to_lowercase s).
Proof. reflexivity. Qed.

(* any spelling s of a listed identifier i (same lower-casing) resolves to i's unit whenever the
   lower-casing is unambiguous, i.e. listed (case-insensitively) for one unit only.
   Unbounded over s; finite over the table only through [lower_consistent]. *)
Theorem case_insensitive_when_unambiguous : forall u i s,
  In u all_units -> In i (u_ids u) -> to_lowercase s = to_lowercase i ->
  case_count (to_lowercase i) = 1%nat -> resolve_unit s = UOk u.
Proof.
  intros u i s Hu Hi Hs Hc. rewrite resolve_unit_eq. rewrite case_count_eq in Hc.
  apply (case_insensitive_gen all_units to_lowercase lower_consistent u i s Hu Hi Hs). exact Hc.
Qed.

(* an identifier that no unit lists, even case-insensitively, is an error *)
Theorem unknown_is_error : forall s,
  (forall u, In u all_units -> ~ In (to_lowercase s) (u_lower u)) -> resolve_unit s = UErr EUnknown.
Proof. intros s H. rewrite resolve_unit_eq. apply (unknown_gen all_units to_lowercase lower_consistent s). exact H. Qed.

(* ------------------------------------------------------------------ convert: structure (any arithmetic) *)
(* proved for any table / lower-casing (Section variables), then instantiated by rewriting with
   [convert_eq] / [resolve_unit_eq]: the concrete table never enters a conversion problem *)
Section ConvertStructureGen.
  Variable A : arith.
  Variable units : list unit.
  Variable lower : string -> string.
  Let res (s : string) := resolve_in units s (lower s).
  Let cv := convert_with A units lower.

  Lemma convert_resolved_gen : forall v a b ua ub,
    res a = UOk ua -> res b = UOk ub -> cv v a b = convert_units A v ua ub.
  Proof. intros. unfold cv, convert_with. unfold res in *. rewrite H, H0. reflexivity. Qed.

  Lemma aliases_gen : forall a a' u, res a = UOk u -> res a' = UOk u ->
    forall v x, cv v a x = cv v a' x /\ cv v x a = cv v x a'.
  Proof.
    intros a a' u Ha Ha' v x. unfold cv, convert_with. unfold res in *.
    rewrite Ha, Ha'. split; auto.
  Qed.

  Lemma diffcat_gen : forall v a b ua ub,
    res a = UOk ua -> res b = UOk ub -> u_cat ua <> u_cat ub -> cv v a b = UErr ECategory.
  Proof.
    intros. rewrite (convert_resolved_gen v a b ua ub); auto. unfold convert_units.
    destruct (String.eqb (u_cat ua) (u_cat ub)) eqn:E; [|reflexivity].
    apply String.eqb_eq in E. contradiction.
  Qed.

  Lemma samecat_gen : forall v a b ua ub,
    res a = UOk ua -> res b = UOk ub -> u_cat ua = u_cat ub ->
    cv v a b = UOk (if same_ids ua ub then v else through_base A v ua ub).
  Proof.
    intros. rewrite (convert_resolved_gen v a b ua ub); auto. unfold convert_units.
    rewrite H1, String.eqb_refl. simpl. destruct (same_ids ua ub); reflexivity.
  Qed.

  Lemma unresolved_gen : forall v a b e,
    (res a = UErr e \/ (exists ua, res a = UOk ua) /\ res b = UErr e) -> cv v a b = UErr e.
  Proof.
    intros v a b e [H | [[ua Ha] Hb]]; unfold cv, convert_with; unfold res in *.
    - rewrite H. reflexivity.
    - rewrite Ha, Hb. reflexivity.
  Qed.

  Lemma self_gen : forall v a b u, res a = UOk u -> res b = UOk u -> cv v a b = UOk v.
  Proof.
    intros. unfold cv, convert_with. unfold res in *. rewrite H, H0.
    unfold convert_units. rewrite String.eqb_refl. simpl. unfold same_ids.
    destruct (list_eq_dec string_dec (u_ids u) (u_ids u)); congruence.
  Qed.
End ConvertStructureGen.

Lemma convert_eq A v a b : convert A v a b = convert_with A all_units to_lowercase v a b.
Proof. reflexivity. Qed.

Section ConvertStructure.
  Variable A : arith.

  Lemma convert_resolved : forall v a b ua ub,
    resolve_unit a = UOk ua -> resolve_unit b = UOk ub -> convert A v a b = convert_units A v ua ub.
  Proof.
    intros v a b ua ub. rewrite !resolve_unit_eq, convert_eq. apply convert_resolved_gen.
  Qed.

  (* all identifiers of a unit behave identically, as source and as target *)
  Theorem aliases_behave_identically : forall a a' u,
    resolve_unit a = UOk u -> resolve_unit a' = UOk u ->
    forall v x, convert A v a x = convert A v a' x /\ convert A v x a = convert A v x a'.
  Proof.
    intros a a' u. rewrite !resolve_unit_eq. intros Ha Ha' v x. rewrite !convert_eq.
    exact (aliases_gen A all_units to_lowercase a a' u Ha Ha' v x).
  Qed.

  Theorem different_categories_never_convert : forall v a b ua ub,
    resolve_unit a = UOk ua -> resolve_unit b = UOk ub -> u_cat ua <> u_cat ub ->
    convert A v a b = UErr ECategory.
  Proof. intros v a b ua ub. rewrite !resolve_unit_eq, convert_eq. apply diffcat_gen. Qed.

  Theorem same_category_converts : forall v a b ua ub,
    resolve_unit a = UOk ua -> resolve_unit b = UOk ub -> u_cat ua = u_cat ub ->
    convert A v a b = UOk (if same_ids ua ub then v else through_base A v ua ub).
  Proof. intros v a b ua ub. rewrite !resolve_unit_eq, convert_eq. apply samecat_gen. Qed.

  (* an identifier that does not resolve makes convert fail with the same error: nothing is guessed *)
  Theorem unresolved_is_error : forall v a b e,
    (resolve_unit a = UErr e \/ (exists ua, resolve_unit a = UOk ua) /\ resolve_unit b = UErr e) ->
    convert A v a b = UErr e.
  Proof.
    intros v a b e H. rewrite convert_eq. apply unresolved_gen.
    destruct H as [H | [[ua Ha] Hb]]; rewrite resolve_unit_eq in *; eauto.
  Qed.

  (* converting a unit to itself is the identity, in every arithmetic (binary64: bit for bit) *)
  Theorem self_identity : forall v a b u,
    resolve_unit a = UOk u -> resolve_unit b = UOk u -> convert A v a b = UOk v.
  Proof. intros v a b u. rewrite !resolve_unit_eq, convert_eq. apply self_gen. Qed.
End ConvertStructure.

(* the batched form used by the correspondence stream is convert, magnitude by magnitude *)
Lemma convert_many_spec A vs a b :
  convert_many A vs a b = map (fun v => convert A v a b) vs.
Proof.
  unfold convert_many. apply eq_sym.
  erewrite map_ext; [|intros v; rewrite convert_eq; reflexivity].
  unfold convert_with. rewrite <- !resolve_unit_eq.
  destruct (resolve_unit a) as [f|e]; [|reflexivity].
  destruct (resolve_unit b) as [t|e]; reflexivity.
Qed.

Theorem aliases_same_unit : forall A u i j (v : T A) x,
  In u all_units -> In i (u_ids u) -> In j (u_ids u) ->
  resolve_unit i = resolve_unit j /\
  convert A v i x = convert A v j x /\ convert A v x i = convert A v x j.
Proof.
  intros A u i j v x Hu Hi Hj.
  pose proof (every_identifier_resolves u i Hu Hi) as Ri.
  pose proof (every_identifier_resolves u j Hu Hj) as Rj.
  split; [congruence|]. exact (aliases_behave_identically A i j u Ri Rj v x).
Qed.

Theorem builtin_is_convert : forall v a b, builtin_convert (ANum v) (AStr a) (AStr b) = convert fl v a b.
Proof. reflexivity. Qed.

(* ------------------------------------------------------------------ float level: why the short-circuit *)
(* going through the base unit computes v * c / c, which is not the identity in binary64: without the
   short-circuit of fix e6d26e9 self-conversion would not be the identity (this was finding F28).
   Table-independent witness: a linear unit with coefficient 8e15 (petabytes), v = 123456.789 *)
Definition witness_unit : unit :=
  Unit 0 "InformationStorage" ["petabytes"] ["petabytes"] (Linear (Lit 0x433c6bf526340000 8 15)).
Lemma through_base_not_identity :
  exists u v, literal_ok (match u_conv u with Linear c => c | _ => lit_5 end) = true /\
              through_base fl v u u <> v.
Proof.
  exists witness_unit, (num_of_bits 0x40fe240c9fbe76c9). split; [vm_compute; reflexivity|].
  vm_compute. discriminate.
Qed.

(* ------------------------------------------------------------------ (1) the table is well formed *)
Lemma table_wf_ok : forallb unit_wf all_units = true.
Proof. vm_cast_no_check (eq_refl true). Qed.
Theorem table_wellformed : forall u, In u all_units -> unit_wf u = true.
Proof. intros u Hu. pose proof table_wf_ok as H. rewrite forallb_forall in H. exact (H u Hu). Qed.

Lemma temp_probes_ok_true : temp_probes_ok = true.
Proof. vm_cast_no_check (eq_refl true). Qed.

Lemma temp_literals_ok : forallb literal_ok [lit_273_15; lit_32; lit_5; lit_9] = true.
Proof. vm_cast_no_check (eq_refl true). Qed.

(* ------------------------------------------------------------------ (1) prefix ratios, exact over Q *)
Lemma prefix_ratio_metric_ok :
  forallb (fun h : unit * unit * Z => let '(u, b, k) := h in
             (same_linear_category u b && Qeq_bool (coef_dec u) (coef_dec b * Qpow10 k))%bool)
          (prefix_hits metric_prefixes) = true.
Proof. vm_cast_no_check (eq_refl true). Qed.
Theorem prefix_ratio_metric : forall u b k,
  In (u, b, k) (prefix_hits metric_prefixes) ->
  same_linear_category u b = true /\ (coef_dec u == coef_dec b * Qpow10 k)%Q.
Proof.
  intros u b k H. pose proof prefix_ratio_metric_ok as P. rewrite forallb_forall in P.
  specialize (P _ H). cbv beta iota in P. apply andb_true_iff in P. destruct P as [P1 P2].
  split; auto. apply Qeq_bool_iff. exact P2.
Qed.

Lemma prefix_ratio_binary_ok :
  forallb (fun h : unit * unit * Z => let '(u, b, k) := h in
             (same_linear_category u b && Qeq_bool (coef_exact u) (coef_exact b * Qpow2 k))%bool)
          (prefix_hits binary_prefixes) = true.
Proof. vm_cast_no_check (eq_refl true). Qed.
Theorem prefix_ratio_binary : forall u b k,
  In (u, b, k) (prefix_hits binary_prefixes) ->
  same_linear_category u b = true /\ (coef_exact u == coef_exact b * Qpow2 k)%Q.
Proof.
  intros u b k H. pose proof prefix_ratio_binary_ok as P. rewrite forallb_forall in P.
  specialize (P _ H). cbv beta iota in P. apply andb_true_iff in P. destruct P as [P1 P2].
  split; auto. apply Qeq_bool_iff. exact P2.
Qed.

(* every identifier listed for two units is one recorded in the open known finding C17-dup-ident *)
Lemma dup_idents_are_known_ok : forallb (fun i => str_in i known_dup_idents) dup_idents = true.
Proof. vm_cast_no_check (eq_refl true). Qed.
Theorem dup_idents_are_known : forall i, In i dup_idents -> In i known_dup_idents.
Proof.
  intros i H. pose proof dup_idents_are_known_ok as P. rewrite forallb_forall in P.
  apply str_in_In. exact (P i H).
Qed.

(* ------------------------------------------------------------------ (3) exact-rational laws *)
Lemma qx_eq_refl x : qx_eq x x.
Proof. destruct x; simpl; auto. reflexivity. Qed.
Lemma qx_eq_sym x y : qx_eq x y -> qx_eq y x.
Proof. destruct x, y; simpl; auto. intros H; symmetry; exact H. Qed.
Lemma qx_eq_trans x y z : qx_eq x y -> qx_eq y z -> qx_eq x z.
Proof. destruct x, y, z; simpl; auto; try contradiction. intros H1 H2. rewrite H1. exact H2. Qed.

Lemma qzero_iff q : qzero q = true <-> (q == 0)%Q.
Proof. unfold qzero. apply Qeq_bool_iff. Qed.
Lemma qzero_false q : qzero q = false <-> ~ (q == 0)%Q.
Proof.
  rewrite <- qzero_iff. destruct (qzero q); split; intros; try congruence; auto.
Qed.
Lemma qzero_proper x y : (x == y)%Q -> qzero x = qzero y.
Proof.
  intros H. destruct (qzero x) eqn:Ex, (qzero y) eqn:Ey; auto.
  - apply qzero_iff in Ex. apply qzero_false in Ey. rewrite H in Ex. contradiction.
  - apply qzero_iff in Ey. apply qzero_false in Ex. rewrite H in Ex. contradiction.
Qed.

(* the operations respect qx_eq in their variable argument *)
Lemma qx_add_proper x y c : qx_eq x y -> qx_eq (qx_add x c) (qx_add y c).
Proof. destruct x, y, c; simpl; auto. intros H; rewrite H; reflexivity. Qed.
Lemma qx_sub_proper x y c : qx_eq x y -> qx_eq (qx_sub x c) (qx_sub y c).
Proof. destruct x, y, c; simpl; auto. intros H; rewrite H; reflexivity. Qed.
Lemma qx_mul_proper x y c : qx_eq x y -> qx_eq (qx_mul x c) (qx_mul y c).
Proof. destruct x, y, c; simpl; auto. intros H; rewrite H; reflexivity. Qed.
Lemma qx_div_proper_l x y c : qx_eq x y -> qx_eq (qx_div x c) (qx_div y c).
Proof.
  destruct x, y, c; simpl; auto; try contradiction; try reflexivity.
  intros H. destruct (qzero q1); simpl; auto. rewrite H; reflexivity.
Qed.
Lemma qx_div_proper_r c x y : qx_eq x y -> qx_eq (qx_div (Fin c) x) (qx_div (Fin c) y).
Proof.
  destruct x, y; simpl; auto; try contradiction; try reflexivity.
  intros H. rewrite (qzero_proper _ _ H). destruct (qzero q0); simpl; auto. rewrite H; reflexivity.
Qed.
Lemma qx_is_zero_proper x y : qx_eq x y -> qx_is_zero x = qx_is_zero y.
Proof. destruct x, y; simpl; auto; try contradiction. apply qzero_proper. Qed.

Lemma tempfn_proper f x y : qx_eq x y -> qx_eq (tempfn_apply qa f x) (tempfn_apply qa f y).
Proof.
  intros H. destruct f; simpl; auto using qx_add_proper, qx_sub_proper, qx_mul_proper, qx_div_proper_l.
Qed.

Lemma to_base_proper u x y : qx_eq x y -> qx_eq (convert_to_base qa u x) (convert_to_base qa u y).
Proof.
  intros H. unfold convert_to_base. destruct (u_conv u); simpl.
  - apply qx_mul_proper; auto.
  - rewrite (qx_is_zero_proper _ _ H). destruct (qx_is_zero y); simpl; auto. apply qx_div_proper_r; auto.
  - apply tempfn_proper; auto.
Qed.
Lemma from_base_proper u x y : qx_eq x y -> qx_eq (convert_from_base qa u x) (convert_from_base qa u y).
Proof.
  intros H. unfold convert_from_base. destruct (u_conv u); simpl.
  - apply qx_div_proper_l; auto.
  - rewrite (qx_is_zero_proper _ _ H). destruct (qx_is_zero y); simpl; auto. apply qx_div_proper_r; auto.
  - apply tempfn_proper; auto.
Qed.

(* what the laws need from a unit: a non-zero coefficient / an inverse pair of temperature functions *)
Definition wfQ (u : unit) : Prop :=
  match u_conv u with
  | Linear c | Reciprocal c => ~ (lit_Q c == 0)%Q
  | Temperature t f => inverse_pair t f = true
  end.
Lemma unit_wf_wfQ u : unit_wf u = true -> wfQ u.
Proof.
  unfold unit_wf, wfQ. destruct (u_conv u); auto;
    intros H; apply andb_true_iff in H; destruct H as [_ H]; apply negb_true_iff in H;
    apply qzero_false; exact H.
Qed.

Lemma lit9 : lit_Q lit_9 = (9 # 1)%Q. Proof. reflexivity. Qed.
Lemma lit5 : lit_Q lit_5 = (5 # 1)%Q. Proof. reflexivity. Qed.
Lemma lit32 : lit_Q lit_32 = (32 # 1)%Q. Proof. reflexivity. Qed.
Lemma lit27315 : lit_Q lit_273_15 = (27315 # 100)%Q. Proof. reflexivity. Qed.

(* the temperature functions of an inverse pair undo each other, exactly *)
Lemma temp_inverse t f x : inverse_pair t f = true ->
  qx_eq (tempfn_apply qa f (tempfn_apply qa t x)) x /\ qx_eq (tempfn_apply qa t (tempfn_apply qa f x)) x.
Proof.
  destruct t, f; simpl; try discriminate; intros _; destruct x as [q|]; simpl; auto;
    rewrite ?lit9, ?lit5, ?lit32, ?lit27315; simpl; split; try reflexivity; field.
Qed.

Lemma recip_inv c v : ~ (c == 0)%Q ->
  qx_eq ((fun w => if qx_is_zero w then Inf else qx_div (Fin c) w)
          ((fun w => if qx_is_zero w then Inf else qx_div (Fin c) w) v)) v.
Proof.
  intros W. destruct v as [x|]; cbn -[Qeq Qdiv qzero].
  - destruct (qzero x) eqn:Zx; cbn -[Qeq Qdiv qzero].
    + apply qzero_iff in Zx. symmetry. exact Zx.
    + assert (Hd : qzero (c / x) = false).
      { apply qzero_false. apply qzero_false in Zx. intros E.
        apply W. rewrite <- (Qmult_div_r c x Zx). rewrite E. ring. }
      rewrite Hd. cbn -[Qeq Qdiv qzero]. 
      apply qzero_false in Zx. field. split; auto.
  - assert (Z0 : qzero 0 = true) by reflexivity. rewrite Z0. exact I.
Qed.
Lemma lin_inv1 c v : ~ (c == 0)%Q -> qx_eq (qx_div (qx_mul v (Fin c)) (Fin c)) v.
Proof.
  intros W. destruct v as [x|]; cbn -[Qeq Qdiv Qmult qzero]; auto.
  apply qzero_false in W. rewrite W. cbn -[Qeq Qdiv Qmult qzero]. field. apply qzero_false; exact W.
Qed.
Lemma lin_inv2 c v : ~ (c == 0)%Q -> qx_eq (qx_mul (qx_div v (Fin c)) (Fin c)) v.
Proof.
  intros W. destruct v as [x|]; cbn -[Qeq Qdiv Qmult qzero]; auto.
  apply qzero_false in W. rewrite W. cbn -[Qeq Qdiv Qmult qzero]. field. apply qzero_false; exact W.
Qed.
Lemma from_to u v : wfQ u -> qx_eq (convert_from_base qa u (convert_to_base qa u v)) v.
Proof.
  unfold wfQ, convert_from_base, convert_to_base. destruct (u_conv u) as [c|c|t f]; intros W.
  - apply (lin_inv1 (lit_Q c) v W).
  - apply (recip_inv (lit_Q c) v W).
  - apply (temp_inverse t f v W).
Qed.
Lemma to_from u b : wfQ u -> qx_eq (convert_to_base qa u (convert_from_base qa u b)) b.
Proof.
  unfold wfQ, convert_from_base, convert_to_base. destruct (u_conv u) as [c|c|t f]; intros W.
  - apply (lin_inv2 (lit_Q c) b W).
  - apply (recip_inv (lit_Q c) b W).
  - apply (temp_inverse t f b W).
Qed.

Lemma resolve_unit_In s u : resolve_unit s = UOk u -> In u all_units.
Proof. rewrite resolve_unit_eq. apply resolve_in_In. Qed.
Lemma resolved_wfQ s u : resolve_unit s = UOk u -> wfQ u.
Proof. intros H. apply unit_wf_wfQ, table_wellformed, (resolve_unit_In s u H). Qed.

(* what convert computes once resolved, up to exact equality: the value carried through the base unit
   (the short-circuit returns v itself, which is exactly that for a well-formed unit) *)
Lemma convert_Q_through_base : forall a b ua ub v,
  resolve_unit a = UOk ua -> resolve_unit b = UOk ub -> u_cat ua = u_cat ub ->
  exists r, convert qa v a b = UOk r /\ qx_eq r (through_base qa v ua ub).
Proof.
  intros a b ua ub v Ha Hb Hc. rewrite (same_category_converts qa v a b ua ub Ha Hb Hc).
  eexists. split; [reflexivity|]. unfold same_ids.
  destruct (list_eq_dec string_dec (u_ids ua) (u_ids ub)) as [E|E]; [|apply qx_eq_refl].
  assert (ua = ub) by (apply same_ids_same_unit; eauto using resolve_unit_In). subst ub.
  apply qx_eq_sym. apply from_to. exact (resolved_wfQ a ua Ha).
Qed.

(* converting there and back returns the original value, exactly *)
Theorem there_and_back_Q : forall a b ua ub v,
  resolve_unit a = UOk ua -> resolve_unit b = UOk ub -> u_cat ua = u_cat ub ->
  exists r1 r2, convert qa v a b = UOk r1 /\ convert qa r1 b a = UOk r2 /\ qx_eq r2 v.
Proof.
  intros a b ua ub v Ha Hb Hc.
  destruct (convert_Q_through_base a b ua ub v Ha Hb Hc) as [r1 [E1 Q1]].
  destruct (convert_Q_through_base b a ub ua r1 Hb Ha (eq_sym Hc)) as [r2 [E2 Q2]].
  exists r1, r2. split; auto. split; auto.
  eapply qx_eq_trans; [exact Q2|]. unfold through_base.
  eapply qx_eq_trans.
  - apply from_base_proper. apply to_base_proper. exact Q1.
  - unfold through_base. eapply qx_eq_trans.
    + apply from_base_proper. apply to_from. exact (resolved_wfQ b ub Hb).
    + apply from_to. exact (resolved_wfQ a ua Ha).
Qed.

(* converting A to B to C equals converting A to C, exactly *)
Theorem composition_Q : forall a b c ua ub uc v,
  resolve_unit a = UOk ua -> resolve_unit b = UOk ub -> resolve_unit c = UOk uc ->
  u_cat ua = u_cat ub -> u_cat ub = u_cat uc ->
  exists r1 r2 r3, convert qa v a b = UOk r1 /\ convert qa r1 b c = UOk r2 /\
                   convert qa v a c = UOk r3 /\ qx_eq r2 r3.
Proof.
  intros a b c ua ub uc v Ha Hb Hc Hab Hbc.
  destruct (convert_Q_through_base a b ua ub v Ha Hb Hab) as [r1 [E1 Q1]].
  destruct (convert_Q_through_base b c ub uc r1 Hb Hc Hbc) as [r2 [E2 Q2]].
  destruct (convert_Q_through_base a c ua uc v Ha Hc (eq_trans Hab Hbc)) as [r3 [E3 Q3]].
  exists r1, r2, r3. repeat (split; auto).
  eapply qx_eq_trans; [exact Q2|]. eapply qx_eq_trans; [|apply qx_eq_sym; exact Q3].
  unfold through_base. eapply qx_eq_trans.
  - apply from_base_proper. apply to_base_proper. exact Q1.
  - unfold through_base. apply from_base_proper. apply to_from. exact (resolved_wfQ b ub Hb).
Qed.
