(* EmitClosed.v — C05: the emitted text is closed.  For EVERY closed-after-capture function value
   (captured closures, closures capturing closures, ... included) the AST of its emission has no
   free names: every name it mentions is a parameter or do-block local of the emission itself, a
   built-in, or one of inf / infinity / constants.  So loading it can never fail with an unknown
   identifier, and nothing it computes depends on the session it is loaded into (except `inputs`
   references, excluded by closed_after_capture). *)
From Coq Require Import String Ascii List ZArith Bool Lia Floats.SpecFloat.
Require Import Blots.Num Blots.gen.Builtins Blots.Ast Blots.Value Blots.Outcome Blots.Env
               Blots.Emit Blots.proofs.ValueInd Blots.proofs.ExprInd Blots.proofs.EmitSubst.
Import ListNotations.
Open Scope list_scope.

Definition na (e : expr) : bool := match e with EAssign _ _ => false | _ => true end.
Definition lits_closed (m : smap) : Prop :=
  forall y a, rec_get m y = Some a -> (forall b, free_vars a b = []) /\ na a = true.

Lemma concat_ast_closed l : forall acc b, free_vars acc b = [] -> free_vars (concat_ast acc l) b = [].
Proof.
  induction l as [|p l IH]; intros acc b H; cbn [concat_ast]; [exact H|].
  apply IH. cbn [free_vars]. now rewrite H.
Qed.
Lemma concat_ast_na l : forall acc, na acc = true -> na (concat_ast acc l) = true.
Proof. induction l as [|p l IH]; intros acc H; cbn [concat_ast]; [exact H|]. apply IH. reflexivity. Qed.
Lemma str_to_ast_closed s b : free_vars (str_to_ast s) b = [] /\ na (str_to_ast s) = true.
Proof.
  unfold str_to_ast. destruct (both_quotes s); [|split; reflexivity].
  destruct (split_dq s ""); [split; reflexivity|]. split; [apply concat_ast_closed|apply concat_ast_na]; reflexivity.
Qed.

Lemma fv_do_nil a ret t b : free_vars (EDo [] (Cm a ret t)) b = free_vars ret b.
Proof. reflexivity. Qed.
Lemma fv_do_cons_na a s t l R b : na s = true ->
  free_vars (EDo (Cm a s t :: l) R) b = free_vars s b ++ free_vars (EDo l R) b.
Proof. destruct R. destruct s; try reflexivity; discriminate. Qed.
Lemma fv_do_cons_as a x v t l R b :
  free_vars (EDo (Cm a (EAssign x v) t :: l) R) b = free_vars v b ++ free_vars (EDo l R) (x :: b).
Proof. destruct R. reflexivity. Qed.
Lemma subst_do_cons m a s t l R :
  subst true m (EDo (Cm a s t :: l) R) =
  match subst true (do_step_map true m s) (EDo l R) with
  | EDo l' R' => EDo (Cm a (subst true m s) t :: l') R'
  | other => other
  end.
Proof. destruct R. reflexivity. Qed.
Lemma subst_do_shape m l R : exists l' R', subst true m (EDo l R) = EDo l' R'.
Proof. destruct R. cbn. eauto. Qed.
Lemma subst_na m s : lits_closed m -> na s = true -> na (subst true m s) = true.
Proof.
  intros Hm Hs. destruct s; try reflexivity; try discriminate.
  - cbn. destruct (rec_get m x) eqn:E; [apply (Hm x e E)|reflexivity].
  - cbn. destruct (rec_get m "inputs"); [destruct (is_valid_identifier x)|]; reflexivity.
  - cbn. destruct ret. reflexivity.
Qed.

Lemma lits_closed_remove m x : lits_closed m -> lits_closed (smap_remove m x).
Proof.
  intros H y a. rewrite rec_get_remove. destruct (String.eqb y x); [discriminate|apply H].
Qed.
Lemma lits_closed_remove_all xs : forall m, lits_closed m -> lits_closed (smap_remove_all m xs).
Proof. induction xs as [|x xs IH]; cbn; intros m H; [exact H|]. apply IH. now apply lits_closed_remove. Qed.
Lemma lits_closed_step m s : lits_closed m -> lits_closed (do_step_map true m s).
Proof. intros H. destruct s; cbn; auto. now apply lits_closed_remove. Qed.

Lemma mem_app x a b : mem x (a ++ b) = mem x a || mem x b.
Proof. unfold mem. apply existsb_app. Qed.
Lemma remove_all_get xs : forall m x, rec_get (smap_remove_all m xs) x = None ->
  mem x xs = true \/ rec_get m x = None.
Proof.
  induction xs as [|y xs IH]; intros m x H; [right; exact H|].
  cbn [smap_remove_all fold_left] in H. fold (smap_remove_all (smap_remove m y) xs) in H.
  destruct (IH _ _ H) as [A|A].
  - left. unfold mem in *. cbn [existsb]. rewrite A. apply orb_true_r.
  - rewrite rec_get_remove in A. destruct (String.eqb x y) eqn:E.
    + left. unfold mem. cbn [existsb]. now rewrite E.
    + right; exact A.
Qed.

(* what the statement says about one expression *)
Definition FVok (e : expr) : Prop :=
  forall m bound x, lits_closed m ->
    In x (free_vars (subst true m e) bound) ->
    In x (free_vars e bound) /\ rec_get m x = None /\ mem x bound = false.

Lemma mem_cons_false x y b : mem x (y :: b) = false -> mem x b = false.
Proof. cbn. intros H. apply orb_false_elim in H. tauto. Qed.
Lemma mem_app_false x a b : mem x (a ++ b) = false -> mem x b = false.
Proof. rewrite mem_app. intros H. apply orb_false_elim in H. tauto. Qed.

Theorem subst_fv : forall e, FVok e.
Proof.
  induction e using expr_ind'; intros m bound z Hm; try (cbn; tauto).
  - (* identifier *)
    cbn [subst].
    destruct (rec_get m x) eqn:E.
    + rewrite (proj1 (Hm x e E) bound). intros [].
    + cbn [free_vars]. destruct (mem x bound || _ || _ || _)%bool eqn:C; [intros []|].
      intros [<-|[]]. repeat split; auto. now left.
      apply orb_false_elim in C as [C _]. apply orb_false_elim in C as [C _]. apply orb_false_elim in C as [C _]. exact C.
  - (* input reference: `inputs.field` with `inputs` inlined, or left in place *)
    cbn [subst]. destruct (rec_get m "inputs") eqn:E.
    + destruct (is_valid_identifier x); cbn [free_vars]; rewrite (proj1 (Hm _ e E) bound);
        [|rewrite (proj1 (str_to_ast_closed x bound))]; intros [].
    + cbn [free_vars]. destruct (mem "inputs" bound) eqn:C; [intros []|].
      intros [<-|[]]. repeat split; auto. now left.
  - (* list *)
    cbn [subst].
    cbn [free_vars]. induction H as [|[a n t] l Hn Hl IH]; [intros []|].
    cbn in Hn. intros Hin. apply in_app_or in Hin as [Hin|Hin].
    + destruct (Hn m bound z Hm Hin) as (A & B & C). repeat split; auto. apply in_or_app. now left.
    + destruct (IH Hin) as (A & B & C). repeat split; auto. apply in_or_app. now right.
  - (* record *)
    cbn [subst].
    cbn [free_vars]. induction H as [|[a [k v] t] l Hn Hl IH]; [intros []|].
    cbn in Hn. destruct Hn as [Hk Hv].
    destruct k as [s|ke|y|se]; cbn [Pkey] in Hk.
    + cbv beta iota. intros Hin. apply in_app_or in Hin as [Hin|Hin].
      * destruct (Hv m bound z Hm Hin) as (A & B & C). repeat split; auto. apply in_or_app. now left.
      * destruct (IH Hin) as (A & B & C). repeat split; auto. apply in_or_app. now right.
    + cbv beta iota. intros Hin. apply in_app_or in Hin as [Hin|Hin].
      * apply in_app_or in Hin as [Hin|Hin].
        -- destruct (Hk m bound z Hm Hin) as (A & B & C). repeat split; auto.
           apply in_or_app. left. apply in_or_app. now left.
        -- destruct (Hv m bound z Hm Hin) as (A & B & C). repeat split; auto.
           apply in_or_app. left. apply in_or_app. now right.
      * destruct (IH Hin) as (A & B & C). repeat split; auto. apply in_or_app. now right.
    + cbv beta iota. destruct (rec_get m y) eqn:E; cbv beta iota; intros Hin; apply in_app_or in Hin as [Hin|Hin].
      * rewrite (proj1 (Hm y e E) bound) in Hin. destruct Hin.
      * destruct (IH Hin) as (A & B & C). repeat split; auto. apply in_or_app. now right.
      * destruct (mem y bound) eqn:My; [destruct Hin|]. destruct Hin as [<-|[]].
        repeat split; auto. apply in_or_app. left. now left.
      * destruct (IH Hin) as (A & B & C). repeat split; auto. apply in_or_app. now right.
    + cbv beta iota. intros Hin. apply in_app_or in Hin as [Hin|Hin].
      * destruct (Hk m bound z Hm Hin) as (A & B & C). repeat split; auto. apply in_or_app. now left.
      * destruct (IH Hin) as (A & B & C). repeat split; auto. apply in_or_app. now right.
  - (* lambda: parameters are bound and removed from the scope *)
    cbn [subst].
    cbn [free_vars]. intros Hin.
    destruct (IHe _ _ z (lits_closed_remove_all (map arg_name args) m Hm) Hin) as (A & B & C).
    split; [exact A|]. split; [|eapply mem_app_false; eauto].
    destruct (remove_all_get _ _ _ B) as [D|D]; [|exact D].
    rewrite mem_app, D in C. discriminate.
  - (* conditional *)
    cbn [subst].
    cbn [free_vars]. intros Hin. apply in_app_or in Hin as [Hin|Hin].
    + destruct (IHe1 m bound z Hm Hin) as (A & B & C). repeat split; auto. apply in_or_app. now left.
    + apply in_app_or in Hin as [Hin|Hin].
      * destruct (IHe2 m bound z Hm Hin) as (A & B & C). repeat split; auto. apply in_or_app. right. apply in_or_app. now left.
      * destruct (IHe3 m bound z Hm Hin) as (A & B & C). repeat split; auto. apply in_or_app. right. apply in_or_app. now right.
  - (* do-block: an assigned name is bound and removed from the scope for what follows *)
    revert m bound Hm. induction H as [|[a s t] l Hs Hl IH]; intros m bound Hm.
    + destruct ret as [rl ret rt]. cbn [cnode] in IHe. cbn. apply IHe. exact Hm.
    + rewrite subst_do_cons.
      destruct (subst_do_shape (do_step_map true m s) l ret) as (l' & R' & Esh). rewrite Esh.
      cbn in Hs. assert (Hstep := lits_closed_step m s Hm).
      destruct (na s) eqn:Ena.
      * rewrite (fv_do_cons_na a _ t l' R' bound (subst_na m s Hm Ena)).
        rewrite (fv_do_cons_na a s t l ret bound Ena).
        assert (Em : do_step_map true m s = m) by (destruct s; try reflexivity; discriminate).
        rewrite Em in Esh. intros Hin. apply in_app_or in Hin as [Hin|Hin].
        -- destruct (Hs m bound z Hm Hin) as (A & B & C). repeat split; auto. apply in_or_app. now left.
        -- rewrite <- Esh in Hin. destruct (IH m bound Hm Hin) as (A & B & C).
           repeat split; auto. apply in_or_app. now right.
      * destruct s; try discriminate. cbn [subst do_step_map] in *.
        rewrite fv_do_cons_as, fv_do_cons_as. intros Hin. apply in_app_or in Hin as [Hin|Hin].
        -- assert (Hv : In z (free_vars (subst true m (EAssign x s)) bound)) by exact Hin.
           destruct (Hs m bound z Hm Hv) as (A & B & C). cbn [free_vars] in A.
           repeat split; auto. apply in_or_app. now left.
        -- rewrite <- Esh in Hin. destruct (IH _ (x :: bound) Hstep Hin) as (A & B & C).
           split; [apply in_or_app; now right|]. split; [|eapply mem_cons_false; eauto].
           rewrite rec_get_remove in B. destruct (String.eqb z x) eqn:E; [|exact B].
           cbn in C. rewrite E in C. discriminate.
  - (* assignment *)
    cbn [subst].
    cbn [free_vars]. apply IHe. exact Hm.
  - (* call *)
    cbn [subst].
    cbn [free_vars]. intros Hin. apply in_app_or in Hin as [Hin|Hin].
    + destruct (IHe m bound z Hm Hin) as (A & B & C). repeat split; auto. apply in_or_app. now left.
    + assert (G : In z ((fix go (l : list expr) : list string :=
                           match l with [] => [] | a :: r => free_vars a bound ++ go r end) args)
                  /\ rec_get m z = None /\ mem z bound = false).
      { induction H as [|a l Ha Hl IH]; [destruct Hin|]. apply in_app_or in Hin as [Hin|Hin].
        - destruct (Ha m bound z Hm Hin) as (A & B & C). repeat split; auto. apply in_or_app. now left.
        - destruct (IH Hin) as (A & B & C). repeat split; auto. apply in_or_app. now right. }
      destruct G as (A & B & C). repeat split; auto. apply in_or_app. now right.
  - cbn [subst]. cbn [free_vars]. intros Hin. apply in_app_or in Hin as [Hin|Hin].
    + destruct (IHe1 m bound z Hm Hin) as (A & B & C). repeat split; auto. apply in_or_app. now left.
    + destruct (IHe2 m bound z Hm Hin) as (A & B & C). repeat split; auto. apply in_or_app. now right.
  - cbn [subst]. cbn [free_vars]. apply IHe. exact Hm.
  - cbn [subst]. cbn [free_vars]. intros Hin. apply in_app_or in Hin as [Hin|Hin].
    + destruct (IHe1 m bound z Hm Hin) as (A & B & C). repeat split; auto. apply in_or_app. now left.
    + destruct (IHe2 m bound z Hm Hin) as (A & B & C). repeat split; auto. apply in_or_app. now right.
  - cbn [subst]. cbn [free_vars]. apply IHe. exact Hm.
  - cbn [subst]. cbn [free_vars]. apply IHe. exact Hm.
  - cbn [subst]. cbn [free_vars]. apply IHe. exact Hm.
Qed.

(* ---- literals of first-order values are closed (and are not assignments) ---- *)

Lemma lit_closed_fo nanfix v : fo v = true -> (nanfix = true \/ has_nan v = false) ->
  forall bb, free_vars (value_to_ast nanfix true v) bb = [] /\ na (value_to_ast nanfix true v) = true.
Proof.
  induction v using value_ind'; intros Hf Hn bb; try (split; reflexivity); try discriminate.
  - cbn [value_to_ast]. unfold num_to_ast. destruct x as [[|]|[|]| |[|] ? ?]; try (split; reflexivity);
      try (split; [cbn; destruct (mem "inf" bb); reflexivity|reflexivity]).
    destruct Hn as [->|Hn]; [split; reflexivity|discriminate].
  - cbn [value_to_ast]. apply str_to_ast_closed.
  - split; [|reflexivity]. cbn [value_to_ast free_vars]. cbn [fo] in Hf. cbn [has_nan] in Hn.
    induction H as [|x l Hx Hl IH]; [reflexivity|]. cbn in Hf. apply andb_prop in Hf as [F1 F2].
    assert (N : (nanfix = true \/ has_nan x = false) /\ (nanfix = true \/ existsb has_nan l = false)).
    { destruct Hn as [->|Hn]; [auto|]. cbn in Hn. apply orb_false_elim in Hn. tauto. }
    destruct N as [N1 N2]. rewrite (proj1 (Hx F1 N1 bb)). cbn. apply IH; auto.
  - split; [|reflexivity]. cbn [value_to_ast free_vars]. cbn [fo] in Hf. cbn [has_nan] in Hn.
    apply andb_prop in Hf as [_ Hf].
    induction H as [|[k x] l Hx Hl IH]; [reflexivity|]. cbn in Hf, Hx. apply andb_prop in Hf as [F1 F2].
    assert (N : (nanfix = true \/ has_nan x = false) /\
                (nanfix = true \/ existsb (fun kv => has_nan (snd kv)) l = false)).
    { destruct Hn as [->|Hn]; [auto|]. cbn in Hn. apply orb_false_elim in Hn. tauto. }
    destruct N as [N1 N2].
    assert (K : match key_to_rkey k with
                | KDyn a => free_vars a bb ++ free_vars (value_to_ast nanfix true x) bb
                | KSpread a => free_vars a bb
                | KStatic _ => free_vars (value_to_ast nanfix true x) bb
                | KShort y => if mem y bb then [] else [y]
                end = []).
    { unfold key_to_rkey. destruct (both_quotes k); [rewrite (proj1 (str_to_ast_closed k bb))|];
        now rewrite (proj1 (Hx F1 N1 bb)). }
    cbv beta iota. rewrite K. cbn. apply IH; auto.
Qed.

(* P1 (closedness), first-order captured values: if every free name of the body is a parameter
   or captured, the inlined body has no free name at all — whatever the body contains (lambdas
   with shadowing parameters, do-blocks with shadowing locals, shorthand, spreads ...) *)
Theorem emitted_body_closed : forall nanfix params body sv,
  forallb (fun kv => fo (snd kv)) sv = true ->
  (nanfix = true \/ existsb (fun kv => has_nan (snd kv)) sv = false) ->
  (forall z, In z (free_vars body (map arg_name params)) -> rec_get sv z <> None) ->
  free_vars (subst true (scope_map nanfix true sv) body) (map arg_name params) = [].
Proof.
  intros nanfix params body sv Hfo Hnan Hcl.
  assert (Hm : lits_closed (scope_map nanfix true sv)).
  { intros y a. rewrite scope_map_get. destruct (rec_get sv y) eqn:E; cbn; [|discriminate].
    intros Ea; inversion Ea; subst a. intros. apply rec_get_In in E.
    assert (F : fo v = true) by (rewrite forallb_forall in Hfo; exact (Hfo _ E)).
    assert (N : nanfix = true \/ has_nan v = false).
    { destruct Hnan as [->|Hn]; [auto|]. right. destruct (has_nan v) eqn:X; [|reflexivity].
      assert (existsb (fun kv => has_nan (snd kv)) sv = true) by (apply existsb_exists; exists (y, v); auto).
      congruence. }
    split; [intros b; apply (lit_closed_fo nanfix v F N b)|apply (lit_closed_fo nanfix v F N [])]. }
  destruct (free_vars (subst true (scope_map nanfix true sv) body) (map arg_name params)) as [|z l] eqn:E;
    [reflexivity|].
  exfalso. destruct (subst_fv body (scope_map nanfix true sv) (map arg_name params) z Hm) as (A & B & _).
  { rewrite E. now left. }
  rewrite scope_map_get in B. apply (Hcl z A). destruct (rec_get sv z); [discriminate|reflexivity].
Qed.
