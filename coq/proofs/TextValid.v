(* TextValid.v — VALIDITY OF PARSED PROGRAMS and the end-to-end never-Panic statement from bytes (C01, extension PF2).

   1. conv_valid           every token-stream item PegToItems.conv builds (any text, any fuel, ANY pair tree) carries valid
                           binary64 numbers only: a number enters through number_item (AllValidLit.number_item_valid), every
                           other arm copies slices of the text or converted sub-trees.
   2. parsed_stmts_valid   every statement of  parse_text_stmts text = TIOk l  that is a TStmt satisfies valid_stmtb
                           (conv_valid + TextValidPratt.pratt_impl_valid);  parsed_program_valid: parse_text_ast text = TPOk p
                           -> valid_prog p.
   3. run_tstmts_no_panic  the statement loop over valid text statements, none of which is a glue panic (pairs_to_expr's own
                           `unreachable!`, a parse-side event), from an invariant-satisfying session: no result is a Panic,
                           every value valid (AllValidEval.exec_stmt_ok per statement).
   4. text_run_no_panic    for every oracle with oracle_valid / oracle_display_safe, valid inputs, EVERY text the parser
                           accepts: the run of  eval_top release (binop_all o) (builtin_all_fit o)  over it contains no Panic
                           that comes from the evaluator: a Panic result implies a TGluePanic statement in the parse.
   The grammar stays opaque: only the *_unfold equations of TextRunFacts.v are used on parse_text_stmts. *)
From Coq Require Import String Ascii List NArith ZArith Bool Arith Lia.
Require Import Blots.Peg Blots.gen.Grammar Blots.PrattTypes Blots.Pratt Blots.PegToItems.
Require Import Blots.Num Blots.gen.Builtins Blots.Ast Blots.Value Blots.Outcome Blots.Env Blots.Eval
               Blots.Program Blots.EvalAll Blots.TextRun Blots.Valid.
Require Import Blots.proofs.AllValidLit Blots.proofs.AllValidEval Blots.proofs.AllValidOps Blots.proofs.AllValidBuiltins Blots.proofs.AllValid
               Blots.proofs.TextRunFacts Blots.proofs.TextValidPratt.
Import ListNotations.
Local Open Scope list_scope.

(* ------------------------------------------------------------------ 1. conv *)
Lemma valid_lelsb_app : forall a b, valid_lelsb (a ++ b) = valid_lelsb a && valid_lelsb b.
Proof.
  induction a as [|x a IH]; intro b; [reflexivity|].
  destruct x; cbn [app valid_lelsb]; rewrite IH; try reflexivity; apply andb_assoc.
Qed.
Lemma valid_relsb_app : forall a b, valid_relsb (a ++ b) = valid_relsb a && valid_relsb b.
Proof.
  induction a as [|x a IH]; intro b; [reflexivity|].
  destruct x; cbn [app valid_relsb]; rewrite IH; try reflexivity; apply andb_assoc.
Qed.
Lemma valid_delsb_app : forall a b, valid_delsb (a ++ b) = valid_delsb a && valid_delsb b.
Proof.
  induction a as [|x a IH]; intro b; [reflexivity|].
  destruct x; cbn [app valid_delsb]; rewrite IH; try reflexivity; apply andb_assoc.
Qed.

Section ConvValid.
  Variable text : string.

  Lemma number_item_validb : forall tok, valid_itemb (number_item tok) = true.
  Proof.
    intro tok. unfold number_item. destruct (NumText.literal_value_rf true NumText.ref_str_parse tok) eqn:E; [|reflexivity].
    cbn [valid_itemb]. exact (literal_value_valid _ _ E).
  Qed.

  Section Step.
    Variable f : nat.
    Hypothesis IH : forall t, valid_itemb (conv text f t) = true.
    Notation inner := (fun k => map (conv text f) (tkids k)).

    Lemma convs_valid : forall l, valid_itemsb (map (conv text f) l) = true.
    Proof. induction l as [|t l IHl]; [reflexivity|]. cbn [map valid_itemsb]. rewrite IH, IHl. reflexivity. Qed.
    Lemma args_valid : forall l, valid_argsb (map inner l) = true.
    Proof. induction l as [|t l IHl]; [reflexivity|]. cbn [map valid_argsb]. rewrite convs_valid, IHl. reflexivity. Qed.

    (* the element functions of conv's list / record / do_block arms, verbatim *)
    Definition v_list_elem (k : tree grule) : lelem :=
      match trule k with
      | PG_comment => LCom (tspan text k)
      | PG_list_item =>
          match tkids k with
          | first :: more => LItem (inner first) (opt_comment text more)
          | [] => LItem [] None
          end
      | _ => LItem (inner k) None
      end.
    Definition v_rec_elems (k : tree grule) : list relem :=
      match trule k with
      | PG_comment => [RCom (tspan text k)]
      | PG_record_item =>
          match tkids k with
          | entry :: more =>
              let eol := opt_comment text more in
              match trule entry with
              | PG_record_pair =>
                  match tkids entry with
                  | key :: value :: _ =>
                      let kk :=
                          match trule key with
                          | PG_record_key_static =>
                              match tkids key with
                              | ik :: _ =>
                                  match trule ik with
                                  | PG_string => RKStr (inner_str text (tkids ik))
                                  | _ => RKId (tspan text ik)
                                  end
                              | [] => RKId ""
                              end
                          | _ => RKDyn (inner key)
                          end in
                      [RPairI kk (inner value) eol]
                  | _ => []
                  end
              | PG_record_shorthand => [RShortI (inner_str text (tkids entry)) eol]
              | _ => [RSpreadI (inner entry) eol]
              end
          | [] => []
          end
      | _ => []
      end.
    Definition v_do_elems (k : tree grule) : list delem :=
      match trule k with
      | PG_do_statement =>
          match tkids k with
          | first :: more =>
              let c := match more with
                       | m :: _ => if is_rule PG_comment m then Some (tspan text m) else None
                       | [] => None
                       end in
              match trule first with
              | PG_expression => [PrattTypes.DStmt (inner first) c]
              | PG_comment => [DComStmt (tspan text first) c]
              | _ => []
              end
          | [] => []
          end
      | PG_return_statement =>
          match tkids k with
          | ex :: _ => [DRet (inner ex)]
          | [] => []
          end
      | PG_comment => [DCom (tspan text k)]
      | _ => []
      end.

    Lemma v_list_elem_valid : forall k, valid_lelsb [v_list_elem k] = true.
    Proof.
      intro k. unfold v_list_elem.
      destruct (trule k); try (cbn [valid_lelsb]; rewrite convs_valid; reflexivity); [reflexivity|].
      destruct (tkids k); cbn [valid_lelsb]; rewrite ?convs_valid; reflexivity.
    Qed.
    Lemma v_list_elems_valid : forall l, valid_lelsb (map v_list_elem l) = true.
    Proof.
      induction l as [|k l IHl]; [reflexivity|]. cbn [map].
      change (v_list_elem k :: map v_list_elem l) with ([v_list_elem k] ++ map v_list_elem l).
      rewrite valid_lelsb_app, v_list_elem_valid, IHl. reflexivity.
    Qed.

    Lemma v_rkey_valid : forall key,
      valid_rkeyb (match trule key with
                   | PG_record_key_static =>
                       match tkids key with
                       | ik :: _ =>
                           match trule ik with
                           | PG_string => RKStr (inner_str text (tkids ik))
                           | _ => RKId (tspan text ik)
                           end
                       | [] => RKId ""
                       end
                   | _ => RKDyn (inner key)
                   end) = true.
    Proof.
      intro key. destruct (trule key); try (cbn [valid_rkeyb]; apply convs_valid).
      destruct (tkids key) as [|ik ?]; [reflexivity|]. destruct (trule ik); reflexivity.
    Qed.
    Lemma v_rec_elems_valid : forall k, valid_relsb (v_rec_elems k) = true.
    Proof.
      intro k. unfold v_rec_elems. destruct (trule k); try reflexivity.
      destruct (tkids k) as [|entry more]; [reflexivity|]. cbv zeta.
      destruct (trule entry); try (cbn [valid_relsb]; rewrite ?convs_valid; reflexivity).
      destruct (tkids entry) as [|key [|value rest]]; try reflexivity.
      cbn [valid_relsb]. rewrite v_rkey_valid, convs_valid. reflexivity.
    Qed.
    Lemma v_rec_elems_all_valid : forall l, valid_relsb (flat_map v_rec_elems l) = true.
    Proof.
      induction l as [|k l IHl]; [reflexivity|]. cbn [flat_map].
      rewrite valid_relsb_app, v_rec_elems_valid, IHl. reflexivity.
    Qed.

    Lemma v_do_elems_valid : forall k, valid_delsb (v_do_elems k) = true.
    Proof.
      intro k. unfold v_do_elems. destruct (trule k); try reflexivity.
      - destruct (tkids k) as [|first more]; [reflexivity|]. cbv zeta.
        destruct (trule first); try reflexivity. cbn [valid_delsb]. rewrite convs_valid. reflexivity.
      - destruct (tkids k) as [|ex rest]; [reflexivity|]. cbn [valid_delsb]. rewrite convs_valid. reflexivity.
    Qed.
    Lemma v_do_elems_all_valid : forall l, valid_delsb (flat_map v_do_elems l) = true.
    Proof.
      induction l as [|k l IHl]; [reflexivity|]. cbn [flat_map].
      rewrite valid_delsb_app, v_do_elems_valid, IHl. reflexivity.
    Qed.
  End Step.

  Theorem conv_valid : forall f t, valid_itemb (conv text f t) = true.
  Proof.
    induction f as [|f IH]; intro t; [reflexivity|].
    destruct t as [r s e kids].
    pose proof (convs_valid f IH) as Hcv.
    destruct r; try reflexivity.
    - (* number *) cbn [conv]. apply number_item_validb.
    - (* lambda *)
      destruct kids as [|al [|body rest]]; try reflexivity. cbn [conv]. rewrite vI_ILambda. apply Hcv.
    - (* lambda_expression *) cbn [conv]. rewrite vI_IExpr. apply Hcv.
    - (* access *) cbn [conv]. rewrite vI_IAccess. apply Hcv.
    - (* call_list *) cbn [conv]. rewrite vI_ICall. apply (args_valid f IH).
    - (* list *)
      cbn [conv]. rewrite vI_IList.
      change (map _ kids) with (map (v_list_elem f) kids). apply (v_list_elems_valid f IH).
    - (* record *)
      cbn [conv]. rewrite vI_IRecord.
      change (flat_map _ kids) with (flat_map (v_rec_elems f) kids). apply (v_rec_elems_all_valid f IH).
    - (* conditional *)
      destruct kids as [|c [|t1 [|e1 rest]]]; try reflexivity. cbn [conv]. rewrite vI_ICond, !Hcv. reflexivity.
    - (* expression *) cbn [conv]. rewrite vI_IExpr. apply Hcv.
    - (* assignment *)
      destruct kids as [|x [|v rest]]; try reflexivity. cbn [conv]. rewrite vI_IAssign. apply Hcv.
    - (* do_block *)
      cbn [conv]. rewrite vI_IDo.
      change (flat_map _ kids) with (flat_map (v_do_elems f) kids). apply (v_do_elems_all_valid f IH).
  Qed.

  Lemma conv_kids_valid : forall f l, valid_itemsb (map (conv text f) l) = true.
  Proof. intros f l. apply convs_valid. apply conv_valid. Qed.
End ConvValid.

(* ------------------------------------------------------------------ 2. parsed statements *)
Definition valid_tstmt (t : text_stmt) : Prop := match t with TStmt s => valid_stmtb s = true | _ => True end.

Lemma glue_stmt_valid : forall mk r,
  (forall e, valid_stmtb (mk e) = valid_exprb e) ->
  (forall e, r = Outcome.Ok (Some e) -> valid_expr e) -> valid_tstmt (glue_stmt mk r).
Proof.
  intros mk r Hmk H. destruct r as [[e|]| | | |]; cbn [glue_stmt valid_tstmt]; try exact I.
  rewrite Hmk. apply H. reflexivity.
Qed.

Lemma text_stmt_of_valid : forall text fuel t r, text_stmt_of text fuel t = Some r -> valid_tstmt r.
Proof.
  intros text fuel t r H. unfold text_stmt_of in H.
  destruct (tkids t) as [|first rest]; [discriminate H|].
  destruct (trule first); injection H as <-; try exact I; try (cbn [valid_tstmt]; reflexivity).
  - apply glue_stmt_valid; [reflexivity|]. intros e He.
    eapply pratt_impl_valid; [|exact He]. apply conv_kids_valid.
  - apply glue_stmt_valid; [reflexivity|]. intros e He.
    eapply pratt_impl_valid; [|exact He]. apply conv_kids_valid.
Qed.

Lemma stmts_of_forest_valid : forall text forest, Forall valid_tstmt (stmts_of_forest text forest).
Proof.
  intros text forest. unfold stmts_of_forest. generalize (forest_conv_fuel forest) as cf. intro cf.
  induction forest as [|t l IH]; [constructor|]. cbn [flat_map]. apply Forall_app. split; [|exact IH].
  destruct (is_rule PG_statement t); [|constructor].
  destruct (text_stmt_of text cf t) as [r|] eqn:E; [|constructor].
  constructor; [|constructor]. eapply text_stmt_of_valid; exact E.
Qed.

Theorem parsed_stmts_fuel_valid : forall fuel text l, parse_text_stmts_fuel fuel text = TIOk l -> Forall valid_tstmt l.
Proof.
  intros fuel text l H. unfold parse_text_stmts_fuel in H.
  destruct (Peg.parse blots_grammar fuel PG_input text); try discriminate H.
  injection H as <-. apply stmts_of_forest_valid.
Qed.
Theorem parsed_stmts_valid : forall text l, parse_text_stmts text = TIOk l -> Forall valid_tstmt l.
Proof. intros text l H. rewrite parse_text_stmts_unfold in H. eapply parsed_stmts_fuel_valid; exact H. Qed.

Lemma stmts_all_ok_valid : forall l p, Forall valid_tstmt l -> stmts_all_ok l = Some p -> valid_prog p.
Proof.
  induction l as [|t l IH]; intros p V H; cbn [stmts_all_ok] in H.
  - injection H as <-. reflexivity.
  - destruct t as [s| | |]; try discriminate H.
    destruct (stmts_all_ok l) as [p'|] eqn:E; [|discriminate H]. injection H as <-.
    inversion V as [|? ? Vs Vl]; subst. unfold valid_prog. cbn [valid_progb forallb].
    cbn [valid_tstmt] in Vs. rewrite Vs. exact (IH _ Vl eq_refl).
Qed.
Theorem parsed_program_fuel_valid : forall fuel text p, parse_text_ast_fuel fuel text = TPOk p -> valid_prog p.
Proof.
  intros fuel text p H. unfold parse_text_ast_fuel in H.
  destruct (parse_text_stmts_fuel fuel text) as [l| | |] eqn:E; try discriminate H.
  destruct (existsb is_glue_panic l); [discriminate H|]. destruct (existsb is_glue_fuel l); [discriminate H|].
  destruct (stmts_all_ok l) as [p'|] eqn:Ea; [|discriminate H]. injection H as <-.
  eapply stmts_all_ok_valid; [|exact Ea]. eapply parsed_stmts_fuel_valid; exact E.
Qed.
Theorem parsed_program_valid : forall text p, parse_text_ast text = TPOk p -> valid_prog p.
Proof. intros text p H. rewrite parse_text_ast_unfold in H. eapply parsed_program_fuel_valid; exact H. Qed.

(* ------------------------------------------------------------------ 3. the statement loop *)
Definition result_fine (rs : stmt_result * store) : Prop := fst rs <> RFail Panic /\ valid_resultb (fst rs) = true.

Section Loop.
  Variable o : oracle.
  Hypothesis Ho : oracle_valid o.
  Hypothesis Hd : oracle_display_safe o.
  Variable release : bool.
  Notation eval := (eval_top release (binop_all o) (builtin_all_fit o)).

  Lemma exec_stmt_all_ok : forall s t s' r, valid_stmtb t = true ->
    exec_stmt eval s t = (s', r) -> Inv (s_cfg s) ->
    Inv (s_cfg s') /\ r <> RFail Panic /\ valid_resultb r = true.
  Proof.
    exact (exec_stmt_ok release (binop_all o) (builtin_all_fit o) (binop_all_valid o Ho)
                        (builtin_all_fit_valid o Ho Hd) (factorial_valid release)).
  Qed.

  (* a Panic result of the loop is the glue panic of a statement (pairs_to_expr's `unreachable!`), never the evaluator's *)
  Lemma run_tstmts_panic_is_glue : forall l s, Forall valid_tstmt l -> Inv (s_cfg s) ->
    Forall (fun rs => (fst rs = RFail Panic -> existsb is_glue_panic l = true)
                      /\ valid_resultb (fst rs) = true) (snd (run_tstmts eval s l)).
  Proof.
    induction l as [|t rest IH]; intros s Vl Hi; cbn [run_tstmts]; [constructor|].
    inversion Vl as [|? ? Vt Vrest]; subst.
    destruct t as [t| | |]; cbn [snd existsb is_glue_panic orb].
    - cbn [valid_tstmt] in Vt. destruct (exec_stmt eval s t) as [s' r] eqn:E.
      destruct (exec_stmt_all_ok _ _ _ _ Vt E Hi) as (Hi' & Hr & Hvr).
      destruct r.
      + specialize (IH s' Vrest Hi'). destruct (run_tstmts eval s' rest) as [s'' rs]. cbn [snd] in *.
        constructor; [split; [discriminate|exact Hvr]|exact IH].
      + cbn [snd]. constructor; [split; [intro C; contradiction|reflexivity]|constructor].
      + cbn [snd]. constructor; [split; [discriminate|reflexivity]|constructor].
      + apply IH; assumption.
    - constructor; [split; [discriminate|reflexivity]|constructor].
    - constructor; [split; [reflexivity|reflexivity]|constructor].
    - constructor; [split; [discriminate|reflexivity]|constructor].
  Qed.

  Lemma run_tstmts_no_panic : forall l s, Forall valid_tstmt l -> Forall (fun t => t <> TGluePanic) l ->
    Inv (s_cfg s) -> Forall result_fine (snd (run_tstmts eval s l)).
  Proof.
    intros l s Vl Hg Hi. pose proof (run_tstmts_panic_is_glue l s Vl Hi) as H.
    assert (Hn : existsb is_glue_panic l = false).
    { clear - Hg. induction Hg as [|t l Ht _ IH]; [reflexivity|]. cbn [existsb]. rewrite IH.
      destruct t; try reflexivity. exfalso; apply Ht; reflexivity. }
    rewrite Hn in H. eapply Forall_impl; [|exact H]. intros rs [H1 H2]. split; [|exact H2].
    intro C. specialize (H1 C). discriminate H1.
  Qed.

  (* ---------------------------------------------------------------- 4. from bytes *)
  Theorem text_run_panic_is_glue : forall inputs text l, valid_inputs inputs ->
    parse_text_stmts text = TIOk l ->
    exists sr, run_text_res eval inputs text = TRun sr
               /\ Forall (fun rs => (fst rs = RFail Panic -> existsb is_glue_panic l = true)
                                    /\ valid_resultb (fst rs) = true) (snd sr).
  Proof.
    intros inputs text l Hin H. rewrite run_text_res_unfold. unfold run_text_res_fuel.
    pose proof (parsed_stmts_valid text l H) as Vl.
    rewrite parse_text_stmts_unfold in H. rewrite H.
    eexists. split; [reflexivity|].
    apply run_tstmts_panic_is_glue; [exact Vl|].
    apply init_session_Inv. exact Hin.
  Qed.

  Theorem text_run_no_panic : forall inputs text l, valid_inputs inputs ->
    parse_text_stmts text = TIOk l -> Forall (fun t => t <> TGluePanic) l ->
    exists sr, run_text_res eval inputs text = TRun sr /\ Forall result_fine (snd sr).
  Proof.
    intros inputs text l Hin H Hg. rewrite run_text_res_unfold. unfold run_text_res_fuel.
    pose proof (parsed_stmts_valid text l H) as Vl.
    rewrite parse_text_stmts_unfold in H. rewrite H.
    eexists. split; [reflexivity|].
    apply run_tstmts_no_panic; [exact Vl|exact Hg|].
    apply init_session_Inv. exact Hin.
  Qed.
End Loop.
