(* AllExtends.v — the complete dispatcher is a CONSERVATIVE extension of the transcribed ones: wherever
   EvalFull.builtin_full answers (anything but Unmodelled), EvalAll.builtin_all o answers the same, for
   every oracle; wherever EvalInst.binop_impl answers, so does binop_all o.  So every theorem and every
   correspondence run about builtin_full on modelled programs is also one about builtin_all. *)
From Coq Require Import String Ascii List ZArith Bool Lia.
Require Import Blots.Num Blots.gen.Builtins Blots.Ast Blots.Value Blots.Outcome Blots.Binop
               Blots.Env Blots.Eval Blots.BuiltinsHof Blots.Program Blots.EvalInst Blots.EvalFull
               Blots.EvalAll Blots.BuiltinsList Blots.BuiltinsText Blots.NumText
               Blots.proofs.ValueInd.
Import ListNotations.
Open Scope list_scope.

Section Irrelevant.
  Variable num_str : num -> string.
  Variable l1 l2 : list lamarg -> expr -> list (string * value) -> string.
  Variable w : bool.
  Notation S1 := (stringify num_str l1 w).
  Notation S2 := (stringify num_str l2 w).

  Definition parts_agree (v : value) : Prop :=
    match v with
    | VList l => map S1 l = map S2 l
    | VRec r => map (fun kv => (fst kv ++ ": " ++ S1 (snd kv))%string) r
                = map (fun kv => (fst kv ++ ": " ++ S2 (snd kv))%string) r
    | _ => True
    end.

  (* the text of a value without functions does not depend on how functions are printed *)
  Lemma stringify_lam_irrelevant : forall v, has_function v = false -> S1 v = S2 v /\ parts_agree v.
  Proof.
    induction v using value_ind'; intros Hf; cbn [has_function] in Hf; try discriminate Hf;
      try (split; [reflexivity|exact I]).
    - (* list *)
      assert (Hm : map S1 l = map S2 l).
      { induction H as [|x l Hx Hl IH]; [reflexivity|]. cbn [existsb] in Hf.
        apply orb_false_iff in Hf. destruct Hf as [Hfx Hfl]. cbn [map].
        rewrite (proj1 (Hx Hfx)), (IH Hfl). reflexivity. }
      split; [cbn [stringify]; rewrite Hm; reflexivity|exact Hm].
    - (* record *)
      assert (Hm : map (fun kv => (fst kv ++ ": " ++ S1 (snd kv))%string) r
                   = map (fun kv => (fst kv ++ ": " ++ S2 (snd kv))%string) r).
      { induction H as [|x r Hx Hr IH]; [reflexivity|]. cbn [existsb] in Hf.
        apply orb_false_iff in Hf. destruct Hf as [Hfx Hfr]. cbn [map].
        rewrite (proj1 (Hx Hfx)), (IH Hfr). reflexivity. }
      split; [cbn [stringify]; rewrite Hm; reflexivity|exact Hm].
    - (* spread *)
      destruct (IHv Hf) as [_ Hp]. split; [|exact I].
      destruct v; try reflexivity; cbn [parts_agree] in Hp; cbn [stringify]; rewrite Hp; reflexivity.
  Qed.
End Irrelevant.

Lemma stringify_internal_agrees : forall o v s,
  stringify_internal v = Ok s -> stringify_internal_all o v = s.
Proof.
  intros o v s H. unfold stringify_internal in H. destruct (has_function v) eqn:Hf; [discriminate H|].
  injection H as <-. unfold stringify_internal_all.
  exact (proj1 (stringify_lam_irrelevant ref_display (o_lam_str o) no_lam_str false v Hf)).
Qed.

Lemma mapM_stringify_internal_agrees : forall o l strs,
  mapM stringify_internal l = Ok strs -> map (stringify_internal_all o) l = strs.
Proof.
  intros o l. induction l as [|x l IH]; intros strs H; cbn [mapM] in H.
  - injection H as <-. reflexivity.
  - destruct (stringify_internal x) as [s| | | |] eqn:Ex; try discriminate H. cbn [obind] in H.
    destruct (mapM stringify_internal l) as [ss| | | |] eqn:El; try discriminate H. cbn [obind] in H.
    injection H as <-. cbn [map]. rewrite (stringify_internal_agrees o x s Ex), (IH ss eq_refl). reflexivity.
Qed.

Lemma arg_same : forall args i, BuiltinsList.arg args i = BuiltinsHof.arg args i.
Proof. reflexivity. Qed.

Lemma stringify_internal_cases : forall v, (exists s, stringify_internal v = Ok s) \/ stringify_internal v = Unmodelled.
Proof. intros v. unfold stringify_internal. destruct (has_function v); eauto. Qed.
Lemma mapM_stringify_internal_cases : forall l,
  (exists ss, mapM stringify_internal l = Ok ss) \/ mapM stringify_internal l = Unmodelled.
Proof.
  induction l as [|x l IH]; cbn [mapM]; [left; eauto|].
  destruct (stringify_internal_cases x) as [[s ->]| ->]; cbn [obind]; [|right; reflexivity].
  destruct IH as [[ss ->]| ->]; cbn [obind]; eauto.
Qed.

Theorem builtin_all_extends_full : forall o cb b args st,
  fst (builtin_full cb b args st) <> Unmodelled ->
  builtin_all o cb b args st = builtin_full cb b args st.
Proof.
  intros o cb b args st H.
  destruct b; cbn [builtin_all]; try reflexivity;
    try (exfalso; apply H; reflexivity);
    cbn [builtin_full] in *; unfold pure_bi in *; cbn [fst] in H; f_equal.
  - (* join *)
    unfold bi_join_all, bi_join_full, BuiltinsList.arg, BuiltinsHof.arg in *.
    destruct (nth_error args 1) as [a1|]; try reflexivity. cbn [obind] in *.
    destruct a1; try reflexivity. cbn [obind Binop.as_string BuiltinsList.as_string] in *.
    destruct (nth_error args 0) as [a0|]; try reflexivity. cbn [obind] in *.
    destruct a0; try reflexivity. cbn [obind BuiltinsHof.as_list BuiltinsList.as_list] in *.
    destruct (mapM_stringify_internal_cases l) as [[ss E]|E]; rewrite E in *; cbn [obind] in *.
    + rewrite (mapM_stringify_internal_agrees o l ss E). reflexivity.
    + exfalso; apply H; reflexivity.
  - (* to_string *)
    unfold bi_to_string_all, bi_to_string, BuiltinsList.arg, BuiltinsHof.arg in *.
    destruct (nth_error args 0) as [a0|]; try reflexivity. cbn [obind] in *.
    destruct a0; try reflexivity;
      match goal with |- context [stringify_internal ?v] =>
        destruct (stringify_internal_cases v) as [[s' E]|E]; rewrite E in *; cbn [obind] in *;
        [rewrite (stringify_internal_agrees o v s' E); reflexivity|exfalso; apply H; reflexivity]
      end.
Qed.

Theorem binop_all_extends_impl : forall o cb op l r st,
  op <> Power -> binop_all o cb op l r st = binop_impl cb op l r st.
Proof. intros o cb op l r st H. unfold binop_all. destruct op; try reflexivity. congruence. Qed.
