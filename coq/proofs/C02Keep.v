(* C02Keep.v — with the repaired naming rule (an assignment names a lambda only if the evaluation of its
   right-hand side created it; repo fix of F52) evaluation NEVER WRITES TO A CELL THAT EXISTED BEFORE:
   [store_keep st st'] = the store grew and every old cell has exactly the name (or no name) it had.
   This is the side condition [old_names_kept] of the eval-twice theorems, now a theorem.

   The proofs are those of StoreMono.v / InstMono.v / FullInst.v (store monotonicity) verbatim, inside a
   module in which [store_le] denotes the stronger relation; only the base lemmas (allocation, naming) and
   the two assignment lemmas differ (naming is relative to the store the assignment started from). *)
From Coq Require Import String Ascii List ZArith Bool Lia.
Require Import Blots.Num Blots.gen.Builtins Blots.Ast Blots.Value Blots.Outcome Blots.Binop
               Blots.Env Blots.Eval Blots.BuiltinsHof Blots.Program Blots.EvalInst Blots.EvalFull
               Blots.proofs.ExprInd Blots.proofs.StoreMono.
Require Blots.BuiltinsList.
Import ListNotations.
Open Scope string_scope.
Open Scope list_scope.
Open Scope nat_scope.

Definition store_keep (st st' : store) : Prop :=
  Datatypes.length st <= Datatypes.length st' /\
  forall id, id < Datatypes.length st -> lam_name st' id = lam_name st id.

Module Keep.
Definition store_le := store_keep.
Lemma store_le_refl : forall st, store_le st st.
Proof. split; auto. Qed.
Lemma store_le_trans : forall a b c, store_le a b -> store_le b c -> store_le a c.
Proof. intros a b c [L1 N1] [L2 N2]; split; [lia|]. intros id Hid. rewrite N2 by lia. apply N1; exact Hid. Qed.

Lemma fresh_lambda_le : forall st args body scope v st',
  fresh_lambda st args body scope = (v, st') -> store_le st st'.
Proof.
  intros st args body scope v st' H. unfold fresh_lambda in H. inversion H; subst.
  split; [rewrite app_length; cbn; lia|].
  intros id Hid. unfold lam_name. rewrite nth_error_app1 by exact Hid. reflexivity.
Qed.

(* naming at an assignment that started from st0 touches only cells created since *)
Lemma name_if_created_keep : forall st0 st1 v x,
  store_le st0 st1 -> store_le st0 (name_if_created (Datatypes.length st0) st1 v x).
Proof.
  intros st0 st1 v x [L N]. destruct v; try (split; assumption). cbn [name_if_created].
  destruct (Nat.leb_spec (Datatypes.length st0) id) as [Hge|Hlt]; [|split; assumption].
  cbn [name_if_lambda]. destruct (lam_name st1 id); [split; assumption|].
  split; [rewrite length_set_nth; exact L|].
  intros j Hj. unfold lam_name. rewrite nth_error_set_nth_other by lia. apply N. exact Hj.
Qed.
Lemma bind_value_keep : forall (c c1 : cfg) x v r c',
  store_le (fst c) (fst c1) -> bind_value (Datatypes.length (fst c)) c1 x v = (r, c') -> store_le (fst c) (fst c').
Proof.
  intros c c1 x v r c' Hk H. unfold bind_value in H.
  destruct (insert_head (snd c1) x v); inversion H; subst; cbn [fst]; apply name_if_created_keep; exact Hk.
Qed.

(* ---- a callback / implementation "only grows the store" ---- *)
Definition cb_mono (cb : callback) : Prop :=
  forall this f args st r st', cb this f args st = (r, st') -> store_le st st'.

(* ---- the HOF built-ins move the store only through [call] ---- *)
Section HofMono.
  Variable call : callback.
  Hypothesis call_mono : cb_mono call.

  Lemma map_loop_mono : forall f two l i st r st',
    map_loop call f two l i st = (r, st') -> store_le st st'.
  Proof.
    intros f two l; induction l as [|x l IH]; intros i st r st' H; cbn [map_loop] in H.
    - inversion H; subst; apply store_le_refl.
    - destruct (call f f (cb_args two x i) st) as [o st1] eqn:E. apply call_mono in E.
      destruct o; try (inversion H; subst; exact E).
      destruct (map_loop call f two l (S i) st1) as [o2 st2] eqn:E2. apply IH in E2.
      assert (store_le st st2) by (eapply store_le_trans; eauto).
      destruct o2; inversion H; subst; assumption.
  Qed.
  Lemma filter_loop_mono : forall f two l i st r st',
    filter_loop call f two l i st = (r, st') -> store_le st st'.
  Proof.
    intros f two l; induction l as [|x l IH]; intros i st r st' H; cbn [filter_loop] in H.
    - inversion H; subst; apply store_le_refl.
    - destruct (call f f (cb_args two x i) st) as [o st1] eqn:E. apply call_mono in E.
      destruct o; try (inversion H; subst; exact E).
      destruct (as_bool a); try (inversion H; subst; exact E).
      destruct (filter_loop call f two l (S i) st1) as [o2 st2] eqn:E2. apply IH in E2.
      assert (store_le st st2) by (eapply store_le_trans; eauto).
      destruct o2; inversion H; subst; assumption.
  Qed.
  Lemma reduce_loop_mono : forall f three l i acc st r st',
    reduce_loop call f three l i acc st = (r, st') -> store_le st st'.
  Proof.
    intros f three l; induction l as [|x l IH]; intros i acc st r st' H; cbn [reduce_loop] in H.
    - inversion H; subst; apply store_le_refl.
    - destruct (call f f _ st) as [o st1] eqn:E. apply call_mono in E.
      destruct o; try (inversion H; subst; exact E).
      apply IH in H. eapply store_le_trans; eauto.
  Qed.
  Lemma every_loop_mono : forall f two l i st r st',
    every_loop call f two l i st = (r, st') -> store_le st st'.
  Proof.
    intros f two l; induction l as [|x l IH]; intros i st r st' H; cbn [every_loop] in H.
    - inversion H; subst; apply store_le_refl.
    - destruct (call f f (cb_args two x i) st) as [o st1] eqn:E. apply call_mono in E.
      destruct o; try (inversion H; subst; exact E).
      destruct (as_bool a) as [[|]| | | |]; try (inversion H; subst; exact E).
      apply IH in H. eapply store_le_trans; eauto.
  Qed.
  Lemma some_loop_mono : forall f two l i st r st',
    some_loop call f two l i st = (r, st') -> store_le st st'.
  Proof.
    intros f two l; induction l as [|x l IH]; intros i st r st' H; cbn [some_loop] in H.
    - inversion H; subst; apply store_le_refl.
    - destruct (call f f (cb_args two x i) st) as [o st1] eqn:E. apply call_mono in E.
      destruct o; try (inversion H; subst; exact E).
      destruct (as_bool a) as [[|]| | | |]; try (inversion H; subst; exact E).
      apply IH in H. eapply store_le_trans; eauto.
  Qed.
End HofMono.

(* ---- the evaluator ---- *)
Definition binop_mono (bi : callback -> binop -> value -> value -> store -> outcome value * store) :=
  forall cb, cb_mono cb -> forall op l r st res st', bi cb op l r st = (res, st') -> store_le st st'.
Definition builtin_mono (bu : callback -> builtin -> list value -> store -> outcome value * store) :=
  forall cb, cb_mono cb -> forall b args st res st', bu cb b args st = (res, st') -> store_le st st'.

Section EvalMono.
  Variable release : bool.
  Variable binop_impl : callback -> binop -> value -> value -> store -> outcome value * store.
  Variable builtin_impl : callback -> builtin -> list value -> store -> outcome value * store.
  Hypothesis Hbin : binop_mono binop_impl.
  Hypothesis Hbu : builtin_mono builtin_impl.

  Section E.
  Variable apply : frames -> callback.
  Hypothesis Happly : forall fr, cb_mono (apply fr).
  Notation evalE := (evalE release binop_impl apply).

  Definition st_ok (ev : cfg -> expr -> result) (e : expr) : Prop :=
    forall c r c', ev c e = (r, c') -> store_le (fst c) (fst c').

  Lemma evalL_st : forall ev l, Forall (st_ok ev) l ->
    forall c r c', evalL ev c l = (r, c') -> store_le (fst c) (fst c').
  Proof.
    intros ev l HF; induction HF as [|x l Hx _ IH]; intros c r c' H; cbn [evalL] in H.
    - inversion H; subst; apply store_le_refl.
    - destruct (ev c x) as [o c1] eqn:E1. apply Hx in E1.
      destruct o; try (inversion H; subst; exact E1).
      destruct (evalL ev c1 l) as [o2 c2] eqn:E2. apply IH in E2.
      assert (store_le (fst c) (fst c2)) by (eapply store_le_trans; eauto).
      destruct o2; inversion H; subst; assumption.
  Qed.
  Lemma evalCL_st : forall ev (l : list (commented expr)),
    Forall (fun cm => st_ok ev (cnode cm)) l ->
    forall c r c', evalCL ev c l = (r, c') -> store_le (fst c) (fst c').
  Proof.
    intros ev l HF; induction HF as [|[ld x tr] l Hx _ IH]; intros c r c' H; cbn [evalCL] in H.
    - inversion H; subst; apply store_le_refl.
    - cbn [cnode] in Hx. destruct (ev c x) as [o c1] eqn:E1. apply Hx in E1.
      destruct o; try (inversion H; subst; exact E1).
      destruct (evalCL ev c1 l) as [o2 c2] eqn:E2. apply IH in E2.
      assert (store_le (fst c) (fst c2)) by (eapply store_le_trans; eauto).
      destruct o2; inversion H; subst; assumption.
  Qed.
  Lemma evalRecL_st : forall ev (l : list (commented rentry)),
    Forall (fun cm => Pentry (st_ok ev) (cnode cm)) l ->
    forall c acc r c', evalRecL ev c acc l = (r, c') -> store_le (fst c) (fst c').
  Proof.
    intros ev l HF; induction HF as [|[ld [k v] tr] l Hx _ IH]; intros c acc r c' H;
      cbn [evalRecL] in H.
    - inversion H; subst; apply store_le_refl.
    - cbn [cnode Pentry] in Hx. destruct Hx as [Hk Hv].
      destruct k as [key|ke|x|se]; cbn [Pkey] in Hk.
      + destruct (ev c v) as [o c1] eqn:E1. apply Hv in E1.
        destruct o; try (inversion H; subst; exact E1).
        apply IH in H. eapply store_le_trans; eauto.
      + destruct (ev c ke) as [o c1] eqn:E1. apply Hk in E1.
        destruct o; try (inversion H; subst; exact E1).
        destruct (as_string a); try (inversion H; subst; exact E1).
        destruct (ev c1 v) as [o2 c2] eqn:E2. apply Hv in E2.
        assert (store_le (fst c) (fst c2)) by (eapply store_le_trans; eauto).
        destruct o2; try (inversion H; subst; assumption).
        apply IH in H. eapply store_le_trans; eauto.
      + destruct (lookup (snd c) x).
        * apply IH in H. exact H.
        * inversion H; subst; apply store_le_refl.
      + destruct (ev c se) as [o c1] eqn:E1. apply Hk in E1.
        destruct o; try (inversion H; subst; exact E1).
        apply IH in H. eapply store_le_trans; eauto.
  Qed.
  Lemma assign_value_st : forall ev x ve, st_ok ev ve ->
    forall c r c', assign_value ev c x ve = (r, c') -> store_le (fst c) (fst c').
  Proof.
    intros ev x ve Hve c r c' H. unfold assign_value in H.
    destruct (ev c ve) as [o c1] eqn:E1. apply Hve in E1.
    destruct o; try (inversion H; subst; exact E1).
    eapply bind_value_keep; eauto.
  Qed.
  Lemma assign_checked_st : forall ev x ve, st_ok ev ve ->
    forall c r c', assign_checked ev c x ve = (r, c') -> store_le (fst c) (fst c').
  Proof.
    intros ev x ve Hve c r c' H. unfold assign_checked in H.
    destruct (ev c ve) as [o c1] eqn:E1. apply Hve in E1.
    destruct o; try (inversion H; subst; exact E1).
    destruct (contains (snd c1) x); [inversion H; subst; exact E1|].
    eapply bind_value_keep; eauto.
  Qed.
  Lemma do_step_st : forall ev s, st_ok ev s ->
    (forall x ve, s = EAssign x ve -> st_ok ev ve) ->
    forall c r c', do_step ev c s = (r, c') -> store_le (fst c) (fst c').
  Proof.
    intros ev s Hs Hsub c r c' H. unfold do_step in H.
    destruct s; try (apply Hs in H; exact H).
    destruct (mem x do_assign_keywords); [inversion H; subst; apply store_le_refl|].
    eapply assign_value_st in H; eauto.
  Qed.

  Theorem evalE_store_le : forall e c r c', evalE c e = (r, c') -> store_le (fst c) (fst c').
  Proof.
    intros e.
    (* strengthened so that the do-block case can reach the right-hand side of a statement *)
    enough (HH : st_ok evalE e /\ (forall x ve, e = EAssign x ve -> st_ok evalE ve)) by apply HH.
    induction e using expr_ind';
      (split; [intros c r c' HE; cbn [Eval.evalE] in HE|try (intros ? ? Heq; discriminate Heq)]).
    - inversion HE; subst; apply store_le_refl.
    - inversion HE; subst; apply store_le_refl.
    - inversion HE; subst; apply store_le_refl.
    - inversion HE; subst; apply store_le_refl.
    - destruct (_ || _); [inversion HE; subst; apply store_le_refl|].
      destruct (String.eqb x "constants"); inversion HE; subst; apply store_le_refl.
    - inversion HE; subst; apply store_le_refl.
    - inversion HE; subst; apply store_le_refl.
    - (* EList *)
      destruct (evalCL evalE c items) as [o c1] eqn:E1.
      eapply evalCL_st in E1.
      + cbn [fst snd] in HE. inversion HE; subst. exact E1.
      + eapply Forall_impl; [|eassumption]. intros a Ha; apply Ha.
    - (* ERec *)
      eapply evalRecL_st in HE; eauto.
      eapply Forall_impl; [|eassumption]. intros [ld [k v] tr] Ha. cbn [cnode Pentry] in *.
      destruct Ha as [Hk Hv]. split; [|apply Hv].
      destruct k; cbn [Pkey] in *; auto; apply Hk.
    - (* ELam *)
      destruct (fresh_lambda _ _ _ _) as [v st'] eqn:Ef. apply fresh_lambda_le in Ef.
      inversion HE; subst. exact Ef.
    - (* ECond *)
      destruct IHe1 as [IH1 _], IHe2 as [IH2 _], IHe3 as [IH3 _].
      destruct (evalE c e1) as [o c1] eqn:E1. apply IH1 in E1.
      destruct o; try (inversion HE; subst; exact E1).
      destruct (as_bool a) as [[|]| | | |]; try (inversion HE; subst; exact E1).
      + apply IH2 in HE. eapply store_le_trans; eauto.
      + apply IH3 in HE. eapply store_le_trans; eauto.
    - (* EDo *)
      match goal with
      | HF : Forall _ stmts, HR : _ /\ _ |- _ => rename HF into HFs; rename HR into HRet
      end.
      destruct ret as [ld rt tr]. cbn [cnode] in *.
      assert (HS : forall c0 r0 c0', evalDoL evalE c0 stmts = (r0, c0') ->
                                     store_le (fst c0) (fst c0')).
      { clear HE. induction HFs as [|[l1 s t1] l Hs _ IHl];
          intros c0 r0 c0' H0; cbn [evalDoL] in H0.
        - inversion H0; subst; apply store_le_refl.
        - cbn [cnode] in Hs. destruct Hs as [Hs1 Hs2].
          destruct (do_step evalE c0 s) as [o c1] eqn:E1.
          eapply do_step_st in E1; eauto.
          destruct o; try (inversion H0; subst; exact E1).
          apply IHl in H0. eapply store_le_trans; eauto. }
      destruct (evalDoL evalE (fst c, (FOwned, []) :: snd c) stmts) as [o c1] eqn:E1.
      apply HS in E1. cbn [fst] in E1.
      destruct o.
      + destruct (do_step evalE c1 rt) as [o2 c2] eqn:E2.
        destruct HRet as [Hr1 Hr2]. eapply do_step_st in E2; eauto.
        inversion HE; subst. cbn [fst snd]. eapply store_le_trans; eauto.
      + inversion HE; subst; exact E1.
      + inversion HE; subst; exact E1.
      + inversion HE; subst; exact E1.
      + inversion HE; subst; exact E1.
    - (* EAssign *)
      destruct IHe as [IH _].
      destruct (is_builtin_name x); [inversion HE; subst; apply store_le_refl|].
      destruct (mem x assign_keywords); [inversion HE; subst; apply store_le_refl|].
      destruct (contains (snd c) x); [inversion HE; subst; apply store_le_refl|].
      eapply assign_checked_st in HE; eauto.
    - (* EAssign, second component *)
      intros x0 ve Heq. inversion Heq; subst. apply IHe.
    - (* EOutput *) destruct IHe as [IH _]. apply IH in HE. exact HE.
    - (* ECall *)
      destruct IHe as [IH _].
      destruct (evalE c e) as [o c1] eqn:E1. apply IH in E1.
      destruct o; try (inversion HE; subst; exact E1).
      destruct (evalL evalE c1 args) as [o2 [st2 fr2]] eqn:E2.
      eapply evalL_st in E2.
      2:{ eapply Forall_impl; [|eassumption]. intros a0 Ha; apply Ha. }
      cbn [fst] in E2.
      assert (Hx : store_le (fst c) st2) by (eapply store_le_trans; eauto).
      destruct o2; try (inversion HE; subst; exact Hx).
      destruct (negb (is_function a)); [inversion HE; subst; exact Hx|].
      destruct (apply fr2 a a (flatten_spreads a0) st2) as [rr st3] eqn:Ea.
      apply Happly in Ea. inversion HE; subst. cbn [fst]. eapply store_le_trans; eauto.
    - (* EAccess *)
      destruct IHe1 as [IH1 _], IHe2 as [IH2 _].
      destruct (evalE c e1) as [o c1] eqn:E1. apply IH1 in E1.
      destruct o; try (inversion HE; subst; exact E1).
      destruct (evalE c1 e2) as [o2 c2] eqn:E2. apply IH2 in E2.
      assert (Hx : store_le (fst c) (fst c2)) by (eapply store_le_trans; eauto).
      destruct o2; inversion HE; subst; exact Hx.
    - destruct IHe as [IH _].
      destruct (evalE c e) as [o c1] eqn:E1. apply IH in E1.
      destruct o; inversion HE; subst; exact E1.
    - (* EBin *)
      destruct IHe1 as [IH1 _], IHe2 as [IH2 _].
      destruct (evalE c e1) as [o c1] eqn:E1. apply IH1 in E1.
      destruct o; try (inversion HE; subst; exact E1).
      destruct (evalE c1 e2) as [o2 [st2 fr2]] eqn:E2. apply IH2 in E2. cbn [fst] in E2.
      assert (Hx : store_le (fst c) st2) by (eapply store_le_trans; eauto).
      destruct o2; try (inversion HE; subst; exact Hx).
      destruct (binop_impl (apply fr2) op a a0 st2) as [res st3] eqn:Eb.
      apply Hbin in Eb; [|apply Happly].
      inversion HE; subst. cbn [fst]. eapply store_le_trans; eauto.
    - destruct IHe as [IH _].
      destruct (evalE c e) as [o c1] eqn:E1. apply IH in E1.
      destruct o; inversion HE; subst; exact E1.
    - destruct IHe as [IH _].
      destruct (evalE c e) as [o c1] eqn:E1. apply IH in E1.
      destruct o; inversion HE; subst; exact E1.
    - destruct IHe as [IH _].
      destruct (evalE c e) as [o c1] eqn:E1. apply IH in E1.
      destruct o; inversion HE; subst; exact E1.
  Qed.
  End E.

  (* FunctionDef::call at every depth only grows the store *)
  Lemma call_too_deep_mono : cb_mono (fun _ f a s => call_too_deep f a s).
  Proof.
    intros this f args st r st' H. unfold call_too_deep in H.
    destruct (check_arity _ _); inversion H; subst; apply store_le_refl.
  Qed.

  Theorem AD_mono : forall d fr, cb_mono (AD release binop_impl builtin_impl d fr).
  Proof.
    intros d. induction d as [d IH] using lt_wf_ind. intros fr this f args st r st' H.
    destruct d as [|d']; cbn [AD] in H; unfold apply_at in H.
    - destruct (negb _); inversion H; subst; apply store_le_refl.
    - destruct (negb _); [inversion H; subst; apply store_le_refl|].
      unfold call_passed in H. destruct f; try (inversion H; subst; apply store_le_refl).
      + (* lambda *)
        destruct (bind_params _ _ _ _); [|inversion H; subst; apply store_le_refl].
        match type of H with context [evalE ?r ?b ?a ?c ?e] =>
          destruct (evalE r b a c e) as [rr [st1 fr1]] eqn:E end.
        apply evalE_store_le in E; [|intros fr0; apply IH; lia].
        inversion H; subst. exact E.
      + (* built-in *)
        eapply Hbu in H; [exact H|].
        destruct d' as [|d'']; [apply call_too_deep_mono|apply IH; lia].
  Qed.

  Corollary evalD_store_le : forall d c e r c',
    evalD release binop_impl builtin_impl d c e = (r, c') -> store_le (fst c) (fst c').
  Proof.
    intros d c e r c' H. unfold evalD in H. eapply evalE_store_le in H; eauto.
    intros fr. apply AD_mono.
  Qed.
End EvalMono.

Lemma binop_impl_mono : binop_mono binop_impl.
Proof.
  intros cb Hcb op l r st res st' H. unfold binop_impl in H.
  destruct op; try (inversion H; subst; apply store_le_refl);
    (eapply (eval_binop_R store store_le store_le_refl store_le_trans cb Hcb); exact H).
Qed.

Lemma pure_bi_mono : forall f args st r st', pure_bi f args st = (r, st') -> store_le st st'.
Proof. intros f args st r st' H. inversion H; subst. apply store_le_refl. Qed.

Lemma builtin_impl_mono : builtin_mono builtin_impl.
Proof.
  intros cb Hcb b args st res st' H.
  destruct b; cbn [builtin_impl] in H;
    try (inversion H; subst; apply store_le_refl);
    try (eapply pure_bi_mono; exact H).
  - (* map *) unfold bi_map in H. destruct (hof_prelude args) as [[f l]| | | |];
      try (inversion H; subst; apply store_le_refl).
    destruct (map_loop cb f (accepts f 2) l 0 st) as [o st1] eqn:E.
    apply (map_loop_mono cb Hcb) in E. inversion H; subst. exact E.
  - (* reduce *) unfold bi_reduce in H.
    match type of H with (match ?x with _ => _ end) = _ => destruct x as [[[f i0] l]| | | |] end;
      try (inversion H; subst; apply store_le_refl).
    eapply (reduce_loop_mono cb Hcb); exact H.
  - (* filter *) unfold bi_filter in H. destruct (hof_prelude args) as [[f l]| | | |];
      try (inversion H; subst; apply store_le_refl).
    destruct (filter_loop cb f (accepts f 2) l 0 st) as [o st1] eqn:E.
    apply (filter_loop_mono cb Hcb) in E. inversion H; subst. exact E.
  - (* every *) unfold bi_every in H. destruct (hof_prelude args) as [[f l]| | | |];
      try (inversion H; subst; apply store_le_refl).
    eapply (every_loop_mono cb Hcb); exact H.
  - (* some *) unfold bi_some in H. destruct (hof_prelude args) as [[f l]| | | |];
      try (inversion H; subst; apply store_le_refl).
    eapply (some_loop_mono cb Hcb); exact H.
Qed.

Import Blots.BuiltinsList.
(* ================= store monotonicity ================= *)
Section ListMono.
  Variable call : callback.
  Hypothesis call_mono : cb_mono call.

  Lemma sort_by_cmp_mono : forall func a b st r st',
    sort_by_cmp store call func a b st = (r, st') -> store_le st st'.
  Proof.
    intros func a b st r st' H. unfold sort_by_cmp in H.
    destruct (is_function func); [|inversion H; subst; apply store_le_refl].
    destruct (call func func [a] st) as [ra st1] eqn:E1. apply call_mono in E1.
    destruct ra; try (inversion H; subst; exact E1).
    destruct (call func func [b] st1) as [rb st2] eqn:E2. apply call_mono in E2.
    assert (store_le st st2) by (eapply store_le_trans; eauto).
    destruct rb; inversion H; subst; assumption.
  Qed.

  Lemma merge_by_mono : forall func left right st r st',
    merge_by store call func left right st = (r, st') -> store_le st st'.
  Proof.
    intros func left. induction left as [|a left' IHl]; intros right st r st' H.
    - destruct right; cbn in H; inversion H; subst; apply store_le_refl.
    - revert st r st' H. induction right as [|b right' IHr]; intros st r st' H.
      + cbn in H. inversion H; subst; apply store_le_refl.
      + cbn [merge_by] in H.
        destruct (sort_by_cmp store call func b a st) as [c st1] eqn:Ec.
        apply sort_by_cmp_mono in Ec.
        destruct c as [[]| | | |]; try (inversion H; subst; exact Ec).
        * destruct (merge_by store call func left' (b :: right') st1) as [res st2] eqn:Em.
          apply IHl in Em. inversion H; subst. eapply store_le_trans; eauto.
        * match type of H with context [(fix merge_right (r : list value) (s : store) {struct r} := _) right' st1] =>
            destruct ((fix merge_right (r : list value) (s : store) {struct r} := _) right' st1) as [res st2] eqn:Em end.
          specialize (IHr st1 res st2). cbn [merge_by] in IHr. apply IHr in Em.
          inversion H; subst. eapply store_le_trans; eauto.
        * destruct (merge_by store call func left' (b :: right') st1) as [res st2] eqn:Em.
          apply IHl in Em. inversion H; subst. eapply store_le_trans; eauto.
  Qed.

  Lemma merge_sort_by_fuel_mono : forall fuel func l st r st',
    merge_sort_by_fuel store call fuel func l st = (r, st') -> store_le st st'.
  Proof.
    induction fuel as [|f IH]; intros func l st r st' H; cbn [merge_sort_by_fuel] in H.
    - inversion H; subst; apply store_le_refl.
    - destruct (Datatypes.length l <? 2)%nat; [inversion H; subst; apply store_le_refl|].
      destruct (merge_sort_by_fuel store call f func (firstn (Datatypes.length l / 2) l) st) as [sl st1] eqn:E1.
      apply IH in E1.
      destruct sl; try (inversion H; subst; exact E1).
      destruct (merge_sort_by_fuel store call f func (skipn (Datatypes.length l / 2) l) st1) as [sr st2] eqn:E2.
      apply IH in E2.
      assert (store_le st st2) by (eapply store_le_trans; eauto).
      destruct sr; try (inversion H; subst; assumption).
      apply merge_by_mono in H. eapply store_le_trans; eauto.
  Qed.

  Lemma bi_sort_by_mono : forall args st r st',
    bi_sort_by store call args st = (r, st') -> store_le st st'.
  Proof.
    intros args st r st' H. unfold bi_sort_by in H.
    destruct (BuiltinsList.arg args 1); try (inversion H; subst; apply store_le_refl).
    destruct (obind (BuiltinsList.arg args 0) BuiltinsList.as_list);
      try (inversion H; subst; apply store_le_refl).
    unfold sort_by_list in H.
    destruct (merge_sort_by_fuel store call (Datatypes.length a0) a a0 st) as [res st1] eqn:E.
    apply merge_sort_by_fuel_mono in E. inversion H; subst. exact E.
  Qed.

  Lemma keyed_items_mono : forall func l st r st',
    keyed_items store call func l st = (r, st') -> store_le st st'.
  Proof.
    intros func l. induction l as [|item rest IH]; intros st r st' H; cbn [keyed_items] in H.
    - inversion H; subst; apply store_le_refl.
    - destruct (call func func [item] st) as [k st1] eqn:E. apply call_mono in E.
      destruct k as [v| | | |]; try (inversion H; subst; exact E).
      destruct v; try (inversion H; subst; exact E).
      destruct (keyed_items store call func rest st1) as [more st2] eqn:E2. apply IH in E2.
      inversion H; subst. eapply store_le_trans; eauto.
  Qed.

  Lemma bi_group_by_mono : forall args st r st',
    bi_group_by store call args st = (r, st') -> store_le st st'.
  Proof.
    intros args st r st' H. unfold bi_group_by in H.
    destruct (by_prologue args) as [[func l]| | | |]; try (inversion H; subst; apply store_le_refl).
    destruct (keyed_items store call func l st) as [keyed st1] eqn:E. apply keyed_items_mono in E.
    inversion H; subst. exact E.
  Qed.
  Lemma bi_count_by_mono : forall args st r st',
    bi_count_by store call args st = (r, st') -> store_le st st'.
  Proof.
    intros args st r st' H. unfold bi_count_by in H.
    destruct (by_prologue args) as [[func l]| | | |]; try (inversion H; subst; apply store_le_refl).
    destruct (keyed_items store call func l st) as [keyed st1] eqn:E. apply keyed_items_mono in E.
    inversion H; subst. exact E.
  Qed.
End ListMono.

Lemma builtin_full_mono : builtin_mono builtin_full.
Proof.
  intros cb Hcb b args st res st' H.
  destruct b; cbn [builtin_full] in H;
    try (eapply pure_bi_mono; exact H);
    try (eapply (builtin_impl_mono cb Hcb); exact H).
  - eapply bi_sort_by_mono; eauto.
  - eapply bi_group_by_mono; eauto.
  - eapply bi_count_by_mono; eauto.
Qed.

End Keep.

(* ---- the statements outside the module, in terms of [store_keep] ---- *)
Theorem evalD_store_keep : forall release d c e r c',
  evalD release binop_impl builtin_impl d c e = (r, c') -> store_keep (fst c) (fst c').
Proof.
  intros release d.
  exact (Keep.evalD_store_le release binop_impl builtin_impl Keep.binop_impl_mono Keep.builtin_impl_mono d).
Qed.
Theorem evalD_store_keep_full : forall release d c e r c',
  evalD release binop_impl builtin_full d c e = (r, c') -> store_keep (fst c) (fst c').
Proof.
  intros release d.
  exact (Keep.evalD_store_le release binop_impl builtin_full Keep.binop_impl_mono Keep.builtin_full_mono d).
Qed.
