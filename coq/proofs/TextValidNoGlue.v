(* TextValidNoGlue.v — the Pratt half of "pairs_to_expr never panics" (C01, extension PF2; the PEG half — that the inner
   pairs of every `expression` the grammar produces alternate this way — is NOT proved, see notes/ext-pf2.md).

   An item is classified by the operator table: primary (not registered as an operator), prefix / infix (registered with that
   affix AND with an arm in map_prefix / map_infix), postfix (registered postfix AND one of the four shapes map_postfix
   handles).  A token stream ALTERNATES when it reads  OPERAND (infix OPERAND)..., OPERAND = prefix... primary postfix...,
   [alt_ok true]; it alternates DEEPLY [stream_ok] when every nested stream (list / record / do elements, lambda body,
   conditional parts, assignment value, access index, call arguments, parenthesised expression) does too.
   pratt_no_panic: for ANY table / maps and ANY fuel, pairs_to_expr_inner on a deeply alternating stream is never Panic:
   none of pest's "Expected prefix or primary expression" / "Expected operator" / "Expected postfix or infix expression"
   panics, none of the closures' unreachable!() arms, not the `expect` on an empty stream. *)
From Coq Require Import String List Bool Arith.
Require Import Blots.Num Blots.gen.Builtins Blots.Ast Blots.Outcome Blots.PrattTypes Blots.gen.PrecTable Blots.Pratt.
Import ListNotations.
Local Open Scope list_scope.

Definition np {A} (x : outcome A) : Prop := match x with Panic => False | _ => True end.
Lemma np_neq {A} (x : outcome A) : np x -> x <> Panic.
Proof. intros H E. subst x. exact H. Qed.

Inductive icls := CPrim | CPre | CInf | CPost | CBad.

Section Alt.
  Variable tbl : ops_map.
  Variable imap : list (oprule * binop).
  Variable pmap : list (oprule * prefix_ctor).

  Definition cls (i : item) : icls :=
    match item_op i with
    | None => CPrim
    | Some r =>
        match ops_get tbl r with
        | Some (Prefix, _) => match assoc_find r pmap with Some _ => CPre | None => CBad end
        | Some (Infix _, _) => match assoc_find r imap with Some _ => CInf | None => CBad end
        | Some (Postfix, _) =>
            match i with
            | IOp R_factorial | IAccess _ | IDot _ | ICall _ => CPost
            | _ => CBad
            end
        | None => CBad
        end
    end.

  (* need = true: an operand has to start here; need = false: an operand has just been completed *)
  Fixpoint alt_ok (need : bool) (l : list item) : bool :=
    match l with
    | [] => negb need
    | i :: r =>
        match cls i, need with
        | CPre, true => alt_ok true r
        | CPrim, true => alt_ok false r
        | CPost, false => alt_ok false r
        | CInf, false => alt_ok true r
        | _, _ => false
        end
    end.

  Fixpoint deep_itemb (i : item) : bool :=
    let vs := fix vs (l : list item) : bool := match l with [] => true | x :: r => deep_itemb x && vs r end in
    let st := fun g : list item => alt_ok true g && vs g in
    match i with
    | IExpr _ g => st g
    | IList els =>
        (fix go (l : list lelem) : bool :=
           match l with [] => true | LCom _ :: r => go r | LItem g _ :: r => st g && go r end) els
    | IRecord els =>
        (fix go (l : list relem) : bool :=
           match l with
           | [] => true
           | RCom _ :: r => go r
           | RPairI k v _ :: r => match k with RKDyn inner => st inner | _ => true end && st v && go r
           | RShortI _ _ :: r => go r
           | RSpreadI g _ :: r => st g && go r
           end) els
    | ILambda _ body => st body
    | ICond c t e => st c && st t && st e
    | IDo els =>
        (fix go (l : list delem) : bool :=
           match l with
           | [] => true
           | DStmt g _ :: r => st g && go r
           | DRet g :: r => st g && go r
           | DComStmt _ _ :: r => go r
           | DCom _ :: r => go r
           end) els
    | IAssign _ v => st v
    | IAccess inner => st inner
    | ICall args =>
        (fix go (l : list (list item)) : bool := match l with [] => true | g :: r => st g && go r end) args
    | INum _ | IBadNum | IStr _ | IBool _ | INull | IIdent _ | IInRef _ | IOp _ | IDot _ => true
    end.
  Fixpoint deep_itemsb (l : list item) : bool :=
    match l with [] => true | x :: r => deep_itemb x && deep_itemsb r end.
  Definition stream_ok (g : list item) : bool := alt_ok true g && deep_itemsb g.
  Fixpoint deep_lelsb (l : list lelem) : bool :=
    match l with [] => true | LCom _ :: r => deep_lelsb r | LItem g _ :: r => stream_ok g && deep_lelsb r end.
  Definition deep_rkeyb (k : rkeyi) : bool := match k with RKDyn inner => stream_ok inner | _ => true end.
  Fixpoint deep_relsb (l : list relem) : bool :=
    match l with
    | [] => true
    | RCom _ :: r => deep_relsb r
    | RPairI k v _ :: r => deep_rkeyb k && stream_ok v && deep_relsb r
    | RShortI _ _ :: r => deep_relsb r
    | RSpreadI g _ :: r => stream_ok g && deep_relsb r
    end.
  Fixpoint deep_delsb (l : list delem) : bool :=
    match l with
    | [] => true
    | DStmt g _ :: r => stream_ok g && deep_delsb r
    | DRet g :: r => stream_ok g && deep_delsb r
    | DComStmt _ _ :: r => deep_delsb r
    | DCom _ :: r => deep_delsb r
    end.
  Fixpoint deep_argsb (l : list (list item)) : bool :=
    match l with [] => true | g :: r => stream_ok g && deep_argsb r end.

  Lemma dI_IExpr : forall b g, deep_itemb (IExpr b g) = stream_ok g. Proof. reflexivity. Qed.
  Lemma dI_IList : forall els, deep_itemb (IList els) = deep_lelsb els. Proof. reflexivity. Qed.
  Lemma dI_IRecord : forall els, deep_itemb (IRecord els) = deep_relsb els. Proof. reflexivity. Qed.
  Lemma dI_ILambda : forall a g, deep_itemb (ILambda a g) = stream_ok g. Proof. reflexivity. Qed.
  Lemma dI_ICond : forall c t e, deep_itemb (ICond c t e) = stream_ok c && stream_ok t && stream_ok e.
  Proof. reflexivity. Qed.
  Lemma dI_IDo : forall els, deep_itemb (IDo els) = deep_delsb els. Proof. reflexivity. Qed.
  Lemma dI_IAssign : forall x v, deep_itemb (IAssign x v) = stream_ok v. Proof. reflexivity. Qed.
  Lemma dI_IAccess : forall g, deep_itemb (IAccess g) = stream_ok g. Proof. reflexivity. Qed.
  Lemma dI_ICall : forall args, deep_itemb (ICall args) = deep_argsb args. Proof. reflexivity. Qed.

  (* ---------------------------------------------------------------- the element loops *)
  Section Loops.
    Variable parse : list item -> outcome tres.
    Hypothesis parse_np : forall g, stream_ok g = true -> np (parse g).

    Ltac step g Hg := let N := fresh "N" in
      pose proof (parse_np g Hg) as N; destruct (parse g) as [[?|]| | | |]; cbn [obind np] in *; try exact I; try contradiction.

    Lemma list_loop_np : forall els, deep_lelsb els = true -> np (list_loop parse els).
    Proof.
      induction els as [|[s|g eol] els IH]; intro V; cbn [list_loop deep_lelsb] in *; [exact I|exact (IH V)|].
      apply andb_true_iff in V as [Vg Vr]. specialize (IH Vr). step g Vg.
      destruct (list_loop parse els); cbn [obind np] in *; try exact I; contradiction.
    Qed.
    Lemma key_of_np : forall k, deep_rkeyb k = true -> np (key_of parse k).
    Proof.
      intros [s|s|inner] V; cbn [key_of deep_rkeyb] in *; try exact I. step inner V.
    Qed.
    Lemma rec_loop_np : forall els, deep_relsb els = true -> np (rec_loop parse els).
    Proof.
      induction els as [|[s|k v eol|s eol|g eol] els IH]; intro V; cbn [rec_loop deep_relsb] in *;
        [exact I|exact (IH V)| | |].
      - apply andb_true_iff in V as [V Vr]. apply andb_true_iff in V as [Vk Vv]. specialize (IH Vr).
        pose proof (key_of_np k Vk) as Nk. destruct (key_of parse k) as [[?|]| | | |]; cbn [obind np] in *;
          try exact I; try contradiction.
        step v Vv. destruct (rec_loop parse els); cbn [obind np] in *; try exact I; contradiction.
      - specialize (IH V). destruct (rec_loop parse els); cbn [obind np] in *; try exact I; contradiction.
      - apply andb_true_iff in V as [Vg Vr]. specialize (IH Vr). step g Vg.
        destruct (rec_loop parse els); cbn [obind np] in *; try exact I; contradiction.
    Qed.
    Lemma do_loop_np : forall els stmts ret, deep_delsb els = true -> np (do_loop parse els stmts ret).
    Proof.
      induction els as [|[g c|s c|g|s] els IH]; intros stmts ret V; cbn [do_loop deep_delsb] in *;
        [exact I| |exact (IH _ _ V)| |exact (IH _ _ V)].
      - apply andb_true_iff in V as [Vg Vr]. step g Vg. apply IH; exact Vr.
      - apply andb_true_iff in V as [Vg Vr]. step g Vg. apply IH; exact Vr.
    Qed.
    Lemma omapM_np : forall args, deep_argsb args = true -> np (omapM parse args).
    Proof.
      induction args as [|g args IH]; intro V; cbn [omapM deep_argsb] in *; [exact I|].
      apply andb_true_iff in V as [Vg Vr]. specialize (IH Vr). step g Vg.
      destruct (omapM parse args); cbn [obind np] in *; try exact I; contradiction.
    Qed.
  End Loops.

  (* ---------------------------------------------------------------- the Pratt loop *)
  Notation pexpr' := (pexpr tbl imap pmap).
  Notation ploop' := (ploop tbl imap pmap).
  Notation map_postfix' := (map_postfix tbl imap pmap).
  Notation primary' := (primary tbl imap pmap).
  Notation parse_items' := (parse_items tbl imap pmap).


  (* one-step unfoldings (cbn on a member of the mutual block leaves its siblings as raw fixes) *)
  Lemma pexpr_S : forall f rbp its, pexpr' (S f) rbp its =
    match its with
    | [] => Panic
    | pr0 :: rest =>
        do lr <-
           match item_op pr0 with
           | Some r =>
               match ops_get tbl r with
               | Some (Prefix, p) =>
                   do rr <- pexpr' f (p - 1) rest;
                   do e <- map_prefix pmap r (fst rr);
                   Ok (e, snd rr)
               | Some _ => Panic
               | None => Panic
               end
           | None => do e <- primary' f pr0; Ok (e, rest)
           end;
        ploop' f rbp (fst lr) (snd lr)
    end.
  Proof. reflexivity. Qed.
  Lemma ploop_S : forall f rbp lhs its, ploop' (S f) rbp lhs its =
    do l <- lbp tbl its;
    if Nat.ltb rbp l then
      match its with
      | [] => Panic
      | pr0 :: rest =>
          match item_op pr0 with
          | Some r =>
              match ops_get tbl r with
              | Some (Infix a, p) =>
                  do rr <- pexpr' f (match a with ALeft => p | ARight => p - 1 end) rest;
                  do e <- map_infix imap lhs r (fst rr);
                  ploop' f rbp e (snd rr)
              | Some (Postfix, _) =>
                  do e <- map_postfix' f lhs pr0;
                  ploop' f rbp e rest
              | _ => Panic
              end
          | None => Panic
          end
      end
    else Ok (lhs, its).
  Proof. reflexivity. Qed.
  Lemma map_postfix_S : forall f lhs pr0, map_postfix' (S f) lhs pr0 =
    match pr0 with
    | IOp R_factorial => Ok (option_map EFact lhs)
    | IAccess inner =>
        do i <- parse_items' f inner;
        Ok (match i, lhs with Some i', Some l => Some (EAccess l i') | _, _ => None end)
    | IDot fld => Ok (option_map (fun l => EDot l fld) lhs)
    | ICall args =>
        do a <- omapM (parse_items' f) args;
        Ok (match a, lhs with Some a', Some l => Some (ECall l a') | _, _ => None end)
    | _ => Panic
    end.
  Proof. reflexivity. Qed.
  Lemma primary_S : forall f pr0, primary' (S f) pr0 =
    match pr0 with
    | INum x => Ok (Some (ENum x))
    | IBadNum => Ok None
    | IStr s => Ok (Some (EStr s))
    | IBool b => Ok (Some (EBool b))
    | INull => Ok (Some ENull)
    | IIdent s =>
        Ok (Some (match builtin_of_name s with Some b => EBuiltin b | None => EId s end))
    | IInRef s => Ok (Some (EInRef s))
    | IExpr _ g => parse_items' f g
    | IList els => do r <- list_loop (parse_items' f) els; Ok (option_map EList r)
    | IRecord els => do r <- rec_loop (parse_items' f) els; Ok (option_map ERec r)
    | ILambda args body =>
        do b <- parse_items' f body; Ok (option_map (ELam args) b)
    | ICond c t e =>
        do c' <- parse_items' f c;
        match c' with
        | None => Ok None
        | Some c'' =>
            do t' <- parse_items' f t;
            match t' with
            | None => Ok None
            | Some t'' => do e' <- parse_items' f e; Ok (option_map (ECond c'' t'') e')
            end
        end
    | IDo els => do_loop (parse_items' f) els [] (uncommented ENull)
    | IAssign x v =>
        do v' <- parse_items' f v; Ok (option_map (EAssign x) v')
    | IOp _ | IAccess _ | IDot _ | ICall _ => Panic
    end.
  Proof. reflexivity. Qed.
  Lemma parse_items_S : forall f its, parse_items' (S f) its = do r <- pexpr' f 0 its; Ok (fst r).
  Proof. reflexivity. Qed.

  (* a result that is not a Panic and, when Ok, leaves a stream in the "operand completed" state *)
  Definition fine (x : outcome (tres * list item)) : Prop :=
    match x with
    | Panic => False
    | Ok (_, rest) => alt_ok false rest = true /\ deep_itemsb rest = true
    | _ => True
    end.

  Definition Q_pexpr (fuel : nat) : Prop := forall rbp its,
    alt_ok true its = true -> deep_itemsb its = true -> fine (pexpr' fuel rbp its).
  Definition Q_ploop (fuel : nat) : Prop := forall rbp lhs its,
    alt_ok false its = true -> deep_itemsb its = true -> fine (ploop' fuel rbp lhs its).
  Definition Q_post (fuel : nat) : Prop := forall lhs pr0,
    cls pr0 = CPost -> deep_itemb pr0 = true -> np (map_postfix' fuel lhs pr0).
  Definition Q_prim (fuel : nat) : Prop := forall pr0,
    cls pr0 = CPrim -> deep_itemb pr0 = true -> np (primary' fuel pr0).
  Definition Q_items (fuel : nat) : Prop := forall its, stream_ok its = true -> np (parse_items' fuel its).

  Ltac kill C := unfold cls in C; cbn [item_op] in C; try discriminate C;
    match type of C with context [ops_get ?tb ?r] => destruct (ops_get tb r) as [[[| |?] ?]|] end; try discriminate C;
    repeat (match type of C with context [assoc_find ?r ?m] => destruct (assoc_find r m) end); discriminate C.

  Lemma pratt_all_np : forall fuel, Q_pexpr fuel /\ Q_ploop fuel /\ Q_post fuel /\ Q_prim fuel /\ Q_items fuel.
  Proof.
    induction fuel as [|f [IHe [IHl [IHpo [IHpr IHit]]]]].
    { unfold Q_pexpr, Q_ploop, Q_post, Q_prim, Q_items. repeat split; intros; exact I. }
    unfold Q_pexpr, Q_ploop, Q_post, Q_prim, Q_items in *.
    split; [|split; [|split; [|split]]].
    - (* pexpr *)
      intros rbp its A D. rewrite pexpr_S. destruct its as [|pr0 rest]; [discriminate A|].
      cbn [alt_ok deep_itemsb] in A, D. apply andb_true_iff in D as [D0 Dr].
      unfold cls in A. pose proof (IHpr pr0) as Hprim. unfold cls in Hprim.
      destruct (item_op pr0) as [r0|].
      + unfold map_prefix. destruct (ops_get tbl r0) as [[[| |a] p]|]; try discriminate A.
        * destruct (assoc_find r0 pmap) as [c|]; [|discriminate A].
          pose proof (IHe (p - 1) rest A Dr) as H1.
          destruct (pexpr' f (p - 1) rest) as [[t rest']| | | |]; cbn [obind fine fst snd] in *; try exact I; try contradiction.
          destruct H1 as [A1 D1]. destruct c; cbn [obind fst snd]; apply IHl; assumption.
        * destruct pr0; try discriminate A; destruct r; discriminate A.
        * destruct (assoc_find r0 imap); discriminate A.
      + specialize (Hprim eq_refl D0).
        destruct (primary' f pr0); cbn [obind np fst snd] in *; try exact I; try contradiction.
        apply IHl; assumption.
    - (* ploop *)
      intros rbp lhs its A D. rewrite ploop_S. unfold lbp.
      destruct its as [|pr0 rest]; [cbn [obind]; rewrite (proj2 (Nat.ltb_ge rbp 0) (Nat.le_0_l rbp)); cbn [fine]; split; reflexivity|].
      pose proof A as A'. pose proof D as D'.
      cbn [alt_ok deep_itemsb] in A, D. apply andb_true_iff in D as [D0 Dr].
      pose proof (IHpo lhs pr0) as Hpost. unfold cls in A, Hpost.
      destruct (item_op pr0) as [r0|]; [|discriminate A].
      unfold map_infix.
      destruct (ops_get tbl r0) as [[[| |a] p]|]; try discriminate A; cbn [obind].
      * destruct (assoc_find r0 pmap); discriminate A.
      * destruct (Nat.ltb rbp p); [|cbn [fine]; split; assumption].
        assert (Hc : match pr0 with IOp R_factorial | IAccess _ | IDot _ | ICall _ => CPost | _ => CBad end = CPost).
        { destruct pr0; try discriminate A; try reflexivity. destruct r; try discriminate A; reflexivity. }
        rewrite Hc in A. specialize (Hpost Hc D0).
        destruct (map_postfix' f lhs pr0); cbn [obind np] in *; try exact I; try contradiction.
        apply IHl; assumption.
      * destruct (Nat.ltb rbp p); [|cbn [fine]; split; assumption].
        destruct (assoc_find r0 imap) as [ob|]; [|discriminate A].
        pose proof (IHe (match a with ALeft => p | ARight => p - 1 end) rest A Dr) as H1.
        destruct (pexpr' f (match a with ALeft => p | ARight => p - 1 end) rest) as [[t rest']| | | |];
          cbn [obind fine fst snd] in *; try exact I; try contradiction.
        destruct H1 as [A1 D1]. apply IHl; assumption.
    - (* map_postfix *)
      intros lhs pr0 C D. rewrite map_postfix_S.
      destruct pr0 as [x| |s|b| |s|s|b g|els|els|args body|c t e|els|x v|r|inner|fld|args];
        try (exfalso; kill C).
      + destruct r; try exact I; exfalso; kill C.
      + rewrite dI_IAccess in D. pose proof (IHit inner D) as N.
        destruct (parse_items' f inner); cbn [obind np] in *; try exact I; contradiction.
      + exact I.
      + rewrite dI_ICall in D. pose proof (omapM_np _ IHit args D) as N.
        destruct (omapM (parse_items' f) args); cbn [obind np] in *; try exact I; contradiction.
    - (* primary *)
      intros pr0 C D. rewrite primary_S.
      destruct pr0 as [x| |s|b| |s|s|b g|els|els|args body|c t e|els|x v|r|inner|fld|args]; try exact I.
      + rewrite dI_IExpr in D. exact (IHit g D).
      + rewrite dI_IList in D. pose proof (list_loop_np _ IHit els D) as N.
        destruct (list_loop (parse_items' f) els); cbn [obind np] in *; try exact I; contradiction.
      + rewrite dI_IRecord in D. pose proof (rec_loop_np _ IHit els D) as N.
        destruct (rec_loop (parse_items' f) els); cbn [obind np] in *; try exact I; contradiction.
      + rewrite dI_ILambda in D. pose proof (IHit body D) as N.
        destruct (parse_items' f body); cbn [obind np] in *; try exact I; contradiction.
      + rewrite dI_ICond in D. apply andb_true_iff in D as [D De]. apply andb_true_iff in D as [Dc Dt].
        pose proof (IHit c Dc) as Nc. destruct (parse_items' f c) as [[?|]| | | |]; cbn [obind np] in *; try exact I; try contradiction.
        pose proof (IHit t Dt) as Nt. destruct (parse_items' f t) as [[?|]| | | |]; cbn [obind np] in *; try exact I; try contradiction.
        pose proof (IHit e De) as Ne. destruct (parse_items' f e); cbn [obind np] in *; try exact I; contradiction.
      + rewrite dI_IDo in D. exact (do_loop_np _ IHit els _ _ D).
      + rewrite dI_IAssign in D. pose proof (IHit v D) as N.
        destruct (parse_items' f v); cbn [obind np] in *; try exact I; contradiction.
      + exfalso. destruct r; kill C.
      + exfalso. kill C.
      + exfalso. kill C.
      + exfalso. kill C.
    - (* parse_items *)
      intros its S. rewrite parse_items_S. unfold stream_ok in S. apply andb_true_iff in S as [A D].
      pose proof (IHe 0 its A D) as H1.
      destruct (pexpr' f 0 its) as [[t rest']| | | |]; cbn [obind fine np] in *; try exact I; contradiction.
  Qed.

  Theorem parse_items_no_panic : forall fuel its, stream_ok its = true -> parse_items' fuel its <> Panic.
  Proof. intros fuel its S. apply np_neq. exact (proj2 (proj2 (proj2 (proj2 (pratt_all_np fuel)))) its S). Qed.
End Alt.

(* the parser the crate uses, its own table and closure arms *)
Definition impl_stream_ok : list item -> bool := stream_ok impl_table infix_map prefix_map.
Theorem pratt_impl_no_panic : forall its, impl_stream_ok its = true -> pratt_impl its <> Panic.
Proof. intros its S. unfold pratt_impl, pratt. apply parse_items_no_panic. exact S. Qed.
