(* JsonInstance.v — property C06, closing "Partial (iii)": the two library hypotheses of the
   text-level theorems hold GLOBALLY for the instance of coq/JsonExact.v
       fmt_pieces   := exact_pieces      (the exact decimal expansion of the double)
       float_of_tok := rn_float_of_tok   (the correctly rounded reading, C16's rn_decimal)
   for every finite double (every valid binary64 datum that is not NaN / infinite):
       H_print_wf :  tok_wf (exact_pieces x) /\ tok_is_float (exact_pieces x)
       H_roundtrip:  rn_float_of_tok (exact_pieces x) = Some x
   and the parser half never returns anything but a finite valid double.  The text-level theorems
   are then restated for this instance WITHOUT any hypothesis on the library.
   serde_json prints ryu's SHORTEST round-tripping decimal, not the exact expansion: that ryu's
   text is read back by the correctly rounded parser is tied by the XNUM stream, not proved.
   The value part rests on NumTextRef.rn_decimal_correct (Flocq; the four allow-listed axioms). *)
From Coq Require Import String Ascii List ZArith Bool Lia Reals Lra Floats.SpecFloat.
Require Import ZifyBool ZifyNat.
From Flocq Require Import Core.Core IEEE754.BinarySingleNaN.
Require Import Blots.Num Blots.gen.Builtins Blots.Ast Blots.Value Blots.Outcome Blots.NumText.
Require Import Blots.Json Blots.JsonText Blots.JsonWf Blots.JsonExact.
Require Import Blots.proofs.NumText Blots.proofs.NumTextFloat Blots.proofs.NumTextRef Blots.proofs.NumTextJson.
Require Import Blots.proofs.ValueInd Blots.proofs.JsonMaps Blots.proofs.JsonRT Blots.proofs.JsonEcho.
Require Import Blots.proofs.JsonTextRT Blots.proofs.JsonTextDoc Blots.proofs.JsonTextCli.
Require Import Blots.proofs.JsonNumsOk Blots.proofs.JsonTextEcho.
Import ListNotations.
Open Scope Z_scope.

Local Existing Instance Hprec.
Local Existing Instance Hmax.
Local Instance fexp64_valid'' : Valid_exp fexp64 := fexp_correct 53 1024 Hprec.

Notation jdigits_val := JsonText.digits_val.

(* ------------------------------------------------------------------ digits *)
Lemma jdigits_val_app l1 : forall l2 a, jdigits_val a (l1 ++ l2) = jdigits_val (jdigits_val a l1) l2.
Proof. induction l1 as [|d l1 IH]; intros l2 a; cbn; [reflexivity|apply IH]. Qed.

Lemma pow10_fuel z : 0 <= z -> z < 10 ^ Z.of_nat (S (Z.to_nat (Z.log2 z))).
Proof.
  intros Hz. pose proof (Z.log2_nonneg z) as HL.
  replace (Z.of_nat (S (Z.to_nat (Z.log2 z)))) with (Z.log2 z + 1) by lia.
  destruct (Z.eq_dec z 0) as [->|Hnz]; [reflexivity|].
  destruct (Z.log2_spec z ltac:(lia)) as [_ H2]. replace (Z.succ (Z.log2 z)) with (Z.log2 z + 1) in H2 by lia.
  assert (2 ^ (Z.log2 z + 1) <= 10 ^ (Z.log2 z + 1)) by (apply Z.pow_le_mono_l; lia). lia.
Qed.

Lemma big_digits_spec z : 0 <= z ->
  jdigits_val 0 (big_digits z) = z /\ digits_ok (big_digits z) = true /\
  match big_digits z with [] => false | [_] => true | d0 :: _ => negb (d0 =? 0) end = true.
Proof.
  intros Hz. unfold big_digits. set (fuel := S (Z.to_nat (Z.log2 z))).
  pose proof (pow10_fuel z Hz) as Hlt. fold fuel in Hlt.
  destruct (dec_list_spec fuel z [] ltac:(lia) ltac:(unfold fuel; lia)) as [Hv Hok].
  pose proof (dec_list_head fuel z [] Hz ltac:(unfold fuel; lia) Hlt) as Hh.
  split; [exact Hv|]. split; [now apply Hok|].
  destruct (dec_list fuel z []) as [|d0 [|d1 more]]; [contradiction|reflexivity|].
  destruct (d0 =? 0) eqn:E; [|reflexivity]. apply Z.eqb_eq in E. destruct (Hh E) as [_ Hm]. discriminate.
Qed.

Lemma pad_digits_spec k : forall z acc a,
  jdigits_val a (pad_digits k z acc) = jdigits_val (a * 10 ^ Z.of_nat k + z mod 10 ^ Z.of_nat k) acc.
Proof.
  induction k as [|k IH]; intros z acc a.
  - cbn [pad_digits Z.of_nat]. rewrite Z.pow_0_r, Z.mod_1_r. f_equal. lia.
  - cbn [pad_digits]. rewrite IH. cbn [JsonText.digits_val]. f_equal.
    rewrite Nat2Z.inj_succ, Z.pow_succ_r by lia.
    assert (Hp : 0 < 10 ^ Z.of_nat k) by (apply Z.pow_pos_nonneg; lia).
    rewrite (Z.rem_mul_r z 10 (10 ^ Z.of_nat k)) by lia. ring.
Qed.
Lemma pad_digits_ok k : forall z acc, digits_ok acc = true -> digits_ok (pad_digits k z acc) = true.
Proof.
  induction k as [|k IH]; intros z acc Ha; cbn [pad_digits]; [exact Ha|].
  apply IH. change (digit_ok (z mod 10) && digits_ok acc = true). rewrite Ha. unfold digit_ok. pose proof (Z.mod_pos_bound z 10). lia.
Qed.
Lemma pad_digits_length k : forall z acc, length (pad_digits k z acc) = (k + length acc)%nat.
Proof. induction k as [|k IH]; intros z acc; cbn [pad_digits]; [reflexivity|]. rewrite IH. cbn. lia. Qed.

(* ------------------------------------------------------------------ H_print_wf *)
Lemma exact_tok_wf s m e : tok_wf (exact_tok s m e) = true /\ tok_is_float (exact_tok s m e) = true.
Proof.
  unfold exact_tok. destruct (0 <=? e) eqn:He.
  - assert (Hn : 0 <= Z.pos m * 2 ^ e) by (apply Z.mul_nonneg_nonneg; [lia|apply Z.pow_nonneg; lia]).
    destruct (big_digits_spec _ Hn) as (_ & Hok & Hh).
    split; [|reflexivity]. unfold tok_wf. cbn [t_int t_frac t_exp]. now rewrite Hok, Hh.
  - cbv zeta.
    assert (Hk : 0 < - e) by lia.
    assert (H10 : 0 < 10 ^ (- e)) by (apply Z.pow_pos_nonneg; lia).
    assert (Hn : 0 <= Z.pos m * 5 ^ (- e) / 10 ^ (- e)).
    { apply Z.div_pos; [|lia]. apply Z.mul_nonneg_nonneg; [lia|apply Z.pow_nonneg; lia]. }
    destruct (big_digits_spec _ Hn) as (_ & Hok & Hh).
    split; [|reflexivity]. unfold tok_wf. cbn [t_int t_frac t_exp]. rewrite Hok, Hh.
    rewrite pad_digits_ok by reflexivity.
    pose proof (pad_digits_length (Z.to_nat (- e)) (Z.pos m * 5 ^ (- e) mod 10 ^ (- e)) []) as HL.
    destruct (pad_digits (Z.to_nat (- e)) (Z.pos m * 5 ^ (- e) mod 10 ^ (- e)) []); [cbn in HL; lia|reflexivity].
Qed.

(* H_print_wf for the instance — for every datum, in fact *)
Theorem exact_print_wf : forall x, tok_wf (exact_pieces x) = true /\ tok_is_float (exact_pieces x) = true.
Proof.
  intros [s|s| |s m e]; try (split; reflexivity).
  cbn [exact_pieces]. destruct (strip_twos m e) as [m' e']. apply exact_tok_wf.
Qed.

(* ------------------------------------------------------------------ the value of the token *)
Lemma strip_twos_value : forall m e,
  F2R (Float radix2 (Zpos (fst (strip_twos m e))) (snd (strip_twos m e))) = F2R (Float radix2 (Zpos m) e).
Proof.
  induction m as [p IH|p IH|]; intros e; cbn [strip_twos]; try reflexivity.
  destruct (e <? 0); [|reflexivity]. rewrite IH. unfold F2R. cbn [Fnum Fexp].
  rewrite bpow_plus. change (bpow radix2 1) with 2%R.
  change (Z.pos p~0) with (2 * Z.pos p). rewrite mult_IZR. ring.
Qed.

Lemma exact_tok_mantissa s m e :
  tok_mantissa (exact_tok s m e) = if 0 <=? e then Zpos m * 2 ^ e * 10 else Zpos m * 5 ^ (- e).
Proof.
  unfold exact_tok, tok_mantissa, tok_frac_digits. destruct (0 <=? e) eqn:He; cbn [t_int t_frac].
  - assert (Hn : 0 <= Z.pos m * 2 ^ e) by (apply Z.mul_nonneg_nonneg; [lia|apply Z.pow_nonneg; lia]).
    destruct (big_digits_spec _ Hn) as (Hv & _). rewrite jdigits_val_app, Hv. cbn. lia.
  - assert (H10 : 0 < 10 ^ (- e)) by (apply Z.pow_pos_nonneg; lia).
    assert (Hn : 0 <= Z.pos m * 5 ^ (- e) / 10 ^ (- e)).
    { apply Z.div_pos; [|lia]. apply Z.mul_nonneg_nonneg; [lia|apply Z.pow_nonneg; lia]. }
    destruct (big_digits_spec _ Hn) as (Hv & _). rewrite jdigits_val_app, Hv, pad_digits_spec.
    cbn [JsonText.digits_val]. rewrite Z2Nat.id by lia.
    rewrite Z.mod_mod by lia. set (n := Z.pos m * 5 ^ (- e)).
    rewrite (Z.div_mod n (10 ^ (- e))) at 3 by lia. ring.
Qed.
Lemma exact_tok_exp10 s m e :
  tok_exp10 (exact_tok s m e) = if 0 <=? e then -1 else e.
Proof.
  unfold exact_tok, tok_exp10, tok_frac_digits. destruct (0 <=? e) eqn:He; cbn [t_exp t_frac]; [reflexivity|].
  rewrite pad_digits_length. cbn [length]. lia.
Qed.

(* the decimal written denotes exactly m * 2^e *)
Lemma exact_tok_value s m e :
  exists M, tok_mantissa (exact_tok s m e) = Zpos M /\
            dec_R (Zpos M) (tok_exp10 (exact_tok s m e)) = F2R (Float radix2 (Zpos m) e).
Proof.
  rewrite exact_tok_mantissa, exact_tok_exp10. destruct (0 <=? e) eqn:He.
  - assert (Hp : 0 < 2 ^ e) by (apply Z.pow_pos_nonneg; lia).
    destruct (Z.pos m * 2 ^ e * 10) as [|M|M] eqn:EM; try lia. exists M. split; [reflexivity|].
    unfold dec_R. change (0 <=? -1) with false. cbv iota. rewrite <- EM.
    change (10 ^ (- -1)) with 10. rewrite !mult_IZR. unfold F2R. cbn [Fnum Fexp].
    rewrite <- IZR_Zpower by lia. change (Z.pow radix2 e) with (2 ^ e). field.
  - assert (Hk : 0 < - e) by lia.
    assert (Hp : 0 < 5 ^ (- e)) by (apply Z.pow_pos_nonneg; lia).
    destruct (Z.pos m * 5 ^ (- e)) as [|M|M] eqn:EM; try lia. exists M. split; [reflexivity|].
    unfold dec_R. replace (0 <=? e) with false by lia. rewrite <- EM.
    replace (10 ^ (- e)) with (2 ^ (- e) * 5 ^ (- e)) by (rewrite <- Z.pow_mul_l; reflexivity).
    rewrite !mult_IZR. unfold F2R. cbn [Fnum Fexp].
    assert (Hb : bpow radix2 e = (/ IZR (2 ^ (- e)))%R).
    { rewrite <- (Z.opp_involutive e) at 1. rewrite bpow_opp, <- IZR_Zpower by lia. reflexivity. }
    rewrite Hb.
    assert (IZR (2 ^ (- e)) <> 0%R) by (apply IZR_neq; pose proof (Z.pow_pos_nonneg 2 (- e)); lia).
    assert (IZR (5 ^ (- e)) <> 0%R) by (apply IZR_neq; lia).
    field. split; assumption.
Qed.

(* a decimal whose value is that of a valid double is read as that double *)
Lemma rn_decimal_exact M E m e :
  vb (S754_finite false m e) = true ->
  dec_R (Zpos M) E = F2R (Float radix2 (Zpos m) e) ->
  rn_decimal false (Zpos M) E = S754_finite false m e.
Proof.
  intros Hv HR.
  destruct (rn_decimal_correct false M E) as [Hvz H]. cbv zeta in H.
  destruct (valid_finite_format false m e Hv) as [Hg Hlt]. cbn [cond_Zopp] in Hg, Hlt.
  rewrite HR in H. unfold rne in H. rewrite round_generic in H by (auto with typeclass_instances).
  rewrite Rlt_bool_true in H by exact Hlt. destruct H as (HS & HF & Hs).
  apply SF_eq; auto.
Qed.

(* ------------------------------------------------------------------ H_roundtrip *)
Theorem exact_roundtrip : forall x,
  is_finite x = true -> is_double x = true -> rn_float_of_tok (exact_pieces x) = Some x.
Proof.
  intros [s|s| |s m e] Hf Hv; try discriminate.
  - destruct s; reflexivity.
  - cbn [exact_pieces]. pose proof (strip_twos_value m e) as HV.
    destruct (strip_twos m e) as [m' e']. cbn [fst snd] in HV.
    destruct (exact_tok_value s m' e') as (M & HM & HR).
    unfold rn_float_of_tok. rewrite HM.
    rewrite (rn_decimal_exact M _ m e); [| |now rewrite HR, HV].
    + cbn [is_finite]. f_equal.
      assert (Hs : t_neg (exact_tok s m' e') = s) by (unfold exact_tok; now destruct (0 <=? e')).
      rewrite Hs. apply with_sign_finite.
    + unfold is_double in Hv. destruct s; exact Hv.
Qed.

(* ------------------------------------------------------------------ the parser half *)
Lemma vb_with_sign s f : vb (with_sign s f) = vb f.
Proof. destruct s, f; reflexivity. Qed.
Lemma is_finite_with_sign s f : is_finite (with_sign s f) = is_finite f.
Proof. destruct s, f; reflexivity. Qed.

Theorem rn_float_of_tok_finite : fot_finite rn_float_of_tok.
Proof.
  intros t x. unfold rn_float_of_tok.
  destruct (is_finite (rn_decimal false (tok_mantissa t) (tok_exp10 t))) eqn:E; [|discriminate].
  intros H; inversion H; subst. now rewrite is_finite_with_sign.
Qed.
Theorem rn_float_of_tok_doubles : fot_doubles rn_float_of_tok.
Proof.
  intros t x. unfold rn_float_of_tok.
  destruct (is_finite (rn_decimal false (tok_mantissa t) (tok_exp10 t))) eqn:E; [|discriminate].
  intros H; inversion H; subst. unfold is_double. change (valid_binary prec emax) with vb.
  rewrite vb_with_sign.
  destruct (tok_mantissa t) as [|M|M]; [reflexivity| |discriminate E].
  exact (proj1 (rn_decimal_correct false M (tok_exp10 t))).
Qed.

(* ------------------------------------------------------------------ the class of doubles *)
Definition okf_double (x : num) : bool := is_finite x && is_double x.

Lemma okf_double_finite x : okf_double x = true -> is_finite x = true.
Proof. unfold okf_double. intros H. now apply andb_prop in H. Qed.
Lemma okf_double_print x : okf_double x = true ->
  tok_wf (exact_pieces x) = true /\ tok_is_float (exact_pieces x) = true.
Proof. intros _. apply exact_print_wf. Qed.
Lemma okf_double_roundtrip x : okf_double x = true -> rn_float_of_tok (exact_pieces x) = Some x.
Proof. unfold okf_double. intros H. apply andb_prop in H as [Hf Hv]. now apply exact_roundtrip. Qed.
Lemma okf_double_fot t x : rn_float_of_tok t = Some x -> okf_double x = true.
Proof.
  intros H. unfold okf_double. now rewrite (rn_float_of_tok_finite t x H), (rn_float_of_tok_doubles t x H).
Qed.
Lemma okf_double_int z : I64_MIN <= z <= U64_MAX -> okf_double (num_of_Z z) = true.
Proof.
  intros Hz. unfold okf_double, is_double. change (valid_binary prec emax) with vb.
  rewrite num_of_Z_valid, num_of_Z_finite; [reflexivity|]. unfold I64_MIN, U64_MAX in Hz. lia.
Qed.
Lemma okn_double_split j : json_all (okn_of okf_double) j = true <-> json_wf j = true /\ json_doubles j = true.
Proof.
  unfold json_wf, json_doubles.
  induction j as [| |n|s|l IH|m IH] using json_ind'; try (cbn; tauto).
  - destruct n as [z|z|x]; cbn; unfold okf_double; try tauto. rewrite andb_true_iff. tauto.
  - rewrite !json_all_arr, !forallb_forall. rewrite Forall_forall in IH. split.
    + intros H. split; intros x Hx; apply (IH x Hx); auto.
    + intros [H1 H2] x Hx. apply (IH x Hx). auto.
  - rewrite !json_all_obj, !forallb_forall. rewrite Forall_forall in IH. split.
    + intros H. split; intros x Hx; apply (IH x Hx); auto.
    + intros [H1 H2] x Hx. apply (IH x Hx). auto.
Qed.

(* ------------------------------------------------------------------ the text theorems, instantiated *)
Notation xprint := (jprint exact_pieces).
Notation xparse := (json_from_str rn_float_of_tok).

(* serde_json::from_str (to_string j) = j, no library hypothesis left *)
Theorem json_text_roundtrip_exact j :
  json_wf j = true -> json_doubles j = true -> (jdepth j <= 127)%nat -> xparse (xprint j) = Some j.
Proof.
  intros Hw Hd. apply (json_text_roundtrip_g exact_pieces rn_float_of_tok okf_double
                         okf_double_print okf_double_roundtrip okf_double_finite).
  apply okn_double_split. now split.
Qed.

Theorem parse_print_parse_exact s d : xparse s = Some d -> xparse (xprint d) = Some d.
Proof.
  exact (parse_print_parse exact_pieces rn_float_of_tok okf_double okf_double_print okf_double_roundtrip
           okf_double_finite okf_double_fot s d).
Qed.

Section InstanceCli.
  Variable pfs : string -> option (list lamarg * string).
  Variable pbody : string -> outcome expr.
  Variable emit : expr -> list (string * svalue) -> string.
  Variable nameof : lam_id -> option string.

  Theorem cli_text_echo_object_exact s m key name x :
    xparse s = Some (JObj m) ->
    forallb (fun kv => json_no_reserved pfs (sj_build (snd kv))) m = true ->
    jlookup m key = Some x ->
    cli_text_echo pfs pbody emit nameof exact_pieces rn_float_of_tok s key name
      = Ok (xprint (JObj [(name, jcanon x)]))
    /\ xparse (xprint (JObj [(name, jcanon x)])) = Some (JObj [(name, jcanon x)])
    /\ json_equiv (jcanon x) x.
  Proof.
    exact (cli_text_echo_object pfs pbody emit nameof exact_pieces rn_float_of_tok okf_double
             okf_double_print okf_double_roundtrip okf_double_finite okf_double_fot okf_double_int
             s m key name x).
  Qed.

  Theorem cli_text_echo_non_object_exact s d name :
    xparse s = Some d -> (forall m, d <> JObj m) ->
    json_no_reserved pfs (sj_build d) = true -> (jdepth d <= 126)%nat ->
    cli_text_echo pfs pbody emit nameof exact_pieces rn_float_of_tok s "value_1" name
      = Ok (xprint (JObj [(name, jcanon d)]))
    /\ xparse (xprint (JObj [(name, jcanon d)])) = Some (JObj [(name, jcanon d)])
    /\ json_equiv (jcanon d) d.
  Proof.
    exact (cli_text_echo_non_object pfs pbody emit nameof exact_pieces rn_float_of_tok okf_double
             okf_double_print okf_double_roundtrip okf_double_finite okf_double_fot okf_double_int
             s d name).
  Qed.

  Theorem cli_text_echo_fixed_point_exact s m key name x :
    xparse s = Some (JObj m) ->
    forallb (fun kv => json_no_reserved pfs (sj_build (snd kv))) m = true ->
    jlookup m key = Some x ->
    let out := xprint (JObj [(name, jcanon x)]) in
    cli_text_echo pfs pbody emit nameof exact_pieces rn_float_of_tok s key name = Ok out /\
    cli_text_echo pfs pbody emit nameof exact_pieces rn_float_of_tok out name name = Ok out.
  Proof.
    exact (cli_text_echo_fixed_point pfs pbody emit nameof exact_pieces rn_float_of_tok okf_double
             okf_double_print okf_double_roundtrip okf_double_finite okf_double_fot okf_double_int
             s m key name x).
  Qed.

  (* sentence one of the property through text, for values whose numbers are binary64 data *)
  Theorem cli_text_out_in_exact v name :
    json_data v = true -> value_doubles v = true -> value_no_reserved pfs v = true ->
    (jdepth (write_outputs [(name, sv_of v)]) <= 127)%nat ->
    cli_text_out_in pfs pbody emit nameof exact_pieces rn_float_of_tok v name = Ok (vsort v)
    /\ equals (vsort v) v = true /\ same_data (vsort v) v = true.
  Proof.
    intros Hd Hv Hr Hdepth.
    apply (cli_text_out_in_roundtrip_g pfs pbody emit nameof exact_pieces rn_float_of_tok okf_double
             okf_double_print okf_double_roundtrip okf_double_finite); auto.
    apply okn_double_split. split; [apply json_wf_to_json|].
    apply json_doubles_to_json. now apply svalue_doubles_sv_of.
  Qed.

  (* ... and at the level of the bytes: the second run writes what the first run wrote *)
  Theorem cli_text_out_echo_fixed_point_exact v name :
    json_data v = true -> value_doubles v = true -> value_no_reserved pfs v = true ->
    (jdepth (write_outputs [(name, sv_of v)]) <= 127)%nat ->
    let out := xprint (write_outputs [(name, sv_of v)]) in
    cli_text_echo pfs pbody emit nameof exact_pieces rn_float_of_tok out name name = Ok out.
  Proof.
    intros Hd Hv Hr Hdepth.
    apply (cli_text_out_echo_fixed_point pfs pbody emit nameof exact_pieces rn_float_of_tok okf_double
             okf_double_print okf_double_roundtrip okf_double_finite okf_double_fot okf_double_int); auto.
    apply okn_double_split. split; [apply json_wf_to_json|].
    apply json_doubles_to_json. now apply svalue_doubles_sv_of.
  Qed.
End InstanceCli.

(* ------------------------------------------------------------------ examples *)
Open Scope string_scope.
Example exact_text_of_0_1 :
  render_tok (exact_pieces (num_of_bits 0x3fb999999999999a))
  = "0.1000000000000000055511151231257827021181583404541015625".
Proof. vm_compute. reflexivity. Qed.
Example exact_text_misc :
  render_tok (exact_pieces (num_of_bits 0x8000000000000000)) = "-0.0" /\
  render_tok (exact_pieces (num_of_bits 0xc000000000000000)) = "-2.0" /\
  render_tok (exact_pieces (num_of_bits 0x3ff8000000000000)) = "1.5" /\
  render_tok (exact_pieces (num_of_bits 0x4340000000000000)) = "9007199254740992.0" /\
  String.length (render_tok (exact_pieces (num_of_bits 0x0000000000000001))) = 1076%nat.
Proof. vm_compute. repeat split; reflexivity. Qed.
(* the reading the shipped parser got wrong before the repair of F17 *)
Example rn_reads_2p53m1 :
  rn_float_of_tok tok_2p53m1 = Some (num_of_bits 0x433fffffffffffff).
Proof. vm_compute. reflexivity. Qed.
