(* DisplayNumDischarge5.v — C20: the one hypothesis left in the accuracy theorem for the
   executable models, log10_sane, is satisfiable: a log10 that returns floor(log10 a) exactly
   (as a double) meets it.  Consequently the display algorithm running on exact library models
   is accurate with NO hypothesis (display_accurate_exact_log10). *)
From Coq Require Import ZArith Reals Bool String Ascii List Lia Lra QArith Qreals Qabs Qpower Floats.SpecFloat.
From Flocq Require Import Core.Core IEEE754.BinarySingleNaN.
Require Import Blots.Num Blots.Outcome Blots.DisplayNum.
Require Import Blots.proofs.DisplayNumGroup Blots.proofs.DisplayNumSpec Blots.proofs.DisplayNumText
               Blots.proofs.DisplayNumInt Blots.proofs.DisplayNum Blots.proofs.DisplayNumAcc
               Blots.proofs.DisplayNumFloat Blots.proofs.DisplayNumFinite Blots.proofs.DisplayNumAccStd
               Blots.proofs.DisplayNumAccAll Blots.proofs.DisplayNumExec
               Blots.proofs.DisplayNumDischarge1 Blots.proofs.DisplayNumDischarge2
               Blots.proofs.DisplayNumDischarge3 Blots.proofs.DisplayNumDischarge4.
Import ListNotations.
Open Scope R_scope.

(* floor(log10 |a|) as a double (0.0 for zero / non-finite arguments, which the display path never asks) *)
Definition log10_floor_model (a : num) : num :=
  match a with
  | S754_finite _ m e => let '(N, D) := mag_frac m e in num_of_Z (e10_frac N D)
  | _ => nzero
  end.

(* k -> k as f64 -> .floor() as i32 gives k back, for every decimal exponent of binary64 *)
Definition floor_roundtrip_ok (k : Z) : bool := (as_i32 (nfloor (num_of_Z k)) =? k)%Z.
Lemma floor_roundtrip_all : forall_range (Z.to_nat 661) (-340) floor_roundtrip_ok = true.
Proof. vm_compute. reflexivity. Qed.

Theorem log10_floor_model_sane : forall a k, valid_binary prec emax a = true -> in_decade a k ->
  (k <= as_i32 (nfloor (log10_floor_model a)) <= k + 1)%Z.
Proof.
  intros a k V Hk. apply in_decade_R in Hk. pose proof (p10_pos k) as Pk.
  destruct a as [s|s| |s m e];
    try (exfalso; unfold RV in Hk; cbn [SF2R] in Hk; rewrite Rabs_R0 in Hk; lra).
  unfold log10_floor_model. destruct (mag_frac m e) as [N D] eqn:E.
  destruct (RV_mag_frac s m e N D E) as [_ RA]. rewrite RA in Hk.
  destruct (e10_frac_spec s m e N D V E) as [Dk Rk].
  assert (Ek : e10_frac N D = k) by (eapply decade_unique; eassumption). rewrite Ek in *.
  assert (O : floor_roundtrip_ok k = true).
  { apply (forall_range_spec _ _ _ floor_roundtrip_all). rewrite Z2Nat.id by lia. lia. }
  unfold floor_roundtrip_ok in O. apply Z.eqb_eq in O. lia.
Qed.

(* the accuracy clause with every library call replaced by its exact model: no hypothesis left *)
Theorem display_accurate_exact_log10 :
  forall x t, valid_binary prec emax x = true -> Num.is_finite x = true -> neqb x nzero = false ->
    format_display_number log10_floor_model powi_exec fmt_prec_exec fmt_exp14_exec parse_f64_exec true x = Ok t ->
    forall k, in_decade x k -> (Qabs (denote t - num_to_Q x) < Qpower (10 # 1) (k - 14)%Z)%Q.
Proof. exact (display_accurate_exec log10_floor_model log10_floor_model_sane). Qed.
