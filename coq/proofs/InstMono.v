(* InstMono.v — the concrete operator and built-in implementations used by the model
   (EvalInst.v) only move the store through their callback. *)
From Coq Require Import String List ZArith Bool Lia.
Require Import Blots.Num Blots.gen.Builtins Blots.Ast Blots.Value Blots.Outcome Blots.Binop
               Blots.Env Blots.Eval Blots.BuiltinsHof Blots.Program Blots.EvalInst
               Blots.proofs.StoreMono.
Import ListNotations.

Lemma binop_impl_mono : binop_mono binop_impl.
Proof.
  intros cb Hcb op l r st res st' H. unfold binop_impl in H.
  destruct op; try (inversion H; subst; apply store_le_refl);
    (eapply (eval_binop_R store store_le store_le_refl store_le_trans cb Hcb); exact H).
Qed.

Lemma pure_bi_mono : forall f args st r st', pure_bi f args st = (r, st') -> store_le st st'.
Proof. intros f args st r st' H. inversion H; subst. apply store_le_refl. Qed.

Lemma builtin_impl_mono : builtin_mono builtin_impl.
Proof.
  intros cb Hcb b args st res st' H.
  destruct b; cbn [builtin_impl] in H;
    try (inversion H; subst; apply store_le_refl);
    try (eapply pure_bi_mono; exact H).
  - (* map *) unfold bi_map in H. destruct (hof_prelude args) as [[f l]| | | |];
      try (inversion H; subst; apply store_le_refl).
    destruct (map_loop cb f (accepts f 2) l 0 st) as [o st1] eqn:E.
    apply (map_loop_mono cb Hcb) in E. inversion H; subst. exact E.
  - (* reduce *) unfold bi_reduce in H.
    match type of H with (match ?x with _ => _ end) = _ => destruct x as [[[f i0] l]| | | |] end;
      try (inversion H; subst; apply store_le_refl).
    eapply (reduce_loop_mono cb Hcb); exact H.
  - (* filter *) unfold bi_filter in H. destruct (hof_prelude args) as [[f l]| | | |];
      try (inversion H; subst; apply store_le_refl).
    destruct (filter_loop cb f (accepts f 2) l 0 st) as [o st1] eqn:E.
    apply (filter_loop_mono cb Hcb) in E. inversion H; subst. exact E.
  - (* every *) unfold bi_every in H. destruct (hof_prelude args) as [[f l]| | | |];
      try (inversion H; subst; apply store_le_refl).
    eapply (every_loop_mono cb Hcb); exact H.
  - (* some *) unfold bi_some in H. destruct (hof_prelude args) as [[f l]| | | |];
      try (inversion H; subst; apply store_le_refl).
    eapply (some_loop_mono cb Hcb); exact H.
Qed.
