(* proofs/PegAtomsC09.v — round ATOMS (C09): the formatter-half hypothesis stmt_ok_parsed of the end-to-end theorems
   split into (a) the COMMENT part, discharged from the parser model (every comment of a parsed program is "//" + LF-free
   text: PegViewCompose.parsed_program_comment_texts_total) up to the exclusion "no comment pair ends in a carriage
   return" (finding C09-comment-trailing-cr, refuted below), and (b) what is left: names / keys (names_ok) and the
   expr_to_source texts (opaque part) = stmt_rest_ok. *)
From Coq Require Import String Ascii List NArith ZArith Bool Arith Lia.
Require Import Blots.Num Blots.gen.Builtins Blots.Ast Blots.Outcome Blots.Formatter Blots.proofs.ExprInd
               Blots.proofs.Scan Blots.proofs.Comments Blots.proofs.ScanFmt Blots.proofs.DriverText.
Require Import Blots.Peg Blots.gen.Grammar Blots.PegToItems Blots.PegComments Blots.proofs.PegComments
               Blots.proofs.PegCommentsCompose Blots.proofs.PegCommentsWf Blots.proofs.PegShape
               Blots.proofs.PegShapeItems Blots.proofs.PegShapeCompose Blots.proofs.PegViewItems
               Blots.proofs.PegViewCompose Blots.proofs.PegAtomsC09Scan.
Import ListNotations.
Open Scope list_scope.

(* ------------------------------------------------------------------ comment texts: grammar fact + exclusion *)
Fixpoint ends_cr (s : string) : bool :=
  match s with
  | "" => false
  | String c "" => Ascii.eqb c CRc
  | String _ r => ends_cr r
  end.
Definition no_trailing_cr (c : string) : bool := negb (ends_cr c).

Lemma cr_body_ok_iff : forall r, nl_free r = true -> ends_cr r = false -> cr_body_ok r = true.
Proof.
  induction r as [|c r IH]; intros Hn He; [reflexivity|].
  rewrite nl_free_cons in Hn. apply andb_prop in Hn as [Hc Hr]. cbn [cr_body_ok]. rewrite Hc. cbn [andb].
  destruct r as [|d r'].
  - cbn [ends_cr] in He. rewrite He. reflexivity.
  - assert (He' : ends_cr (String d r') = false) by exact He.
    destruct (Ascii.eqb c CRc); exact (IH Hr He').
Qed.

Lemma comment_text_ok_cr : forall c, comment_text_ok c -> no_trailing_cr c = true -> comment_ok_cr c = true.
Proof.
  intros c (r & -> & Hn) He. unfold no_trailing_cr in He. rewrite negb_true_iff in He.
  cbn [comment_ok_cr]. change (Ascii.eqb "/" "/") with true. cbn [andb].
  apply cr_body_ok_iff; [exact Hn|]. destruct r as [|d r']; [reflexivity|exact He].
Qed.

Lemma comments_ok_cr_of : forall l,
  Forall comment_text_ok l -> forallb no_trailing_cr l = true -> forallb comment_ok_cr l = true.
Proof.
  induction l as [|c l IH]; intros H1 H2; [reflexivity|]. inversion H1; subst.
  cbn [forallb] in *. apply andb_prop in H2 as [A B]. rewrite comment_text_ok_cr, IH; auto.
Qed.

(* ------------------------------------------------------------------ atoms_ok = names part + comment part *)
Section Split.
  Variable key_ok : string -> bool.

  (* the names / keys the layouts print themselves (atoms_ok without its comment conjuncts) *)
  Fixpoint names_ok (e : Ast.expr) : bool :=
    match e with
    | EList items => forallb (fun c => names_ok (cnode c)) items
    | ERec entries =>
        forallb (fun c => CR.key_atoms_ok key_ok (cnode c) &&
                          match cnode c with
                          | REntry (KStatic _) v => names_ok v
                          | REntry (KDyn k) v => names_ok k && names_ok v
                          | REntry (KShort _) _ => true
                          | REntry (KSpread x) _ => names_ok x
                          end) entries
    | ELam args body => forallb (fun a => plain (arg_name a)) args && names_ok body
    | ECond c t f => names_ok c && names_ok t && names_ok f
    | EDo stmts ret => forallb (fun c => names_ok (cnode c)) stmts && names_ok (cnode ret)
    | EAssign x v => plain x && names_ok v
    | EOutput x => names_ok x
    | ECall f args => names_ok f && forallb names_ok args
    | EBin _ l r => names_ok l && names_ok r
    | EAccess a ix => names_ok a && names_ok ix
    | EDot a field => names_ok a && plain field
    | EUn _ a => names_ok a
    | EFact a => names_ok a
    | ESpread a => names_ok a
    | _ => true
    end.

  Notation cok := (forallb comment_ok_cr).
  Lemma cok_app : forall a b, cok (a ++ b) = cok a && cok b.
  Proof. intros; apply forallb_app. Qed.

  Lemma trailing_cok : forall tr, cok (trailing_comments tr) = true -> CR.trailing_ok tr = true.
  Proof. intros [t|] H; exact H. Qed.

  Definition Sp (e : Ast.expr) : Prop := names_ok e = true -> cok (expr_comments e) = true -> CR.atoms_ok key_ok e = true.

  Ltac sp H := repeat (rewrite ?cok_app in H;
    match type of H with _ && _ = true => let A := fresh "C" in let B := fresh "C" in apply andb_prop in H as [A B]; try sp A; try sp B end).

  Lemma split_items : forall items, Forall (fun c => Sp (cnode c)) items ->
    forallb (fun c => names_ok (cnode c)) items = true -> cok (Formatter.items_comments expr_comments items) = true ->
    forallb (fun c => CR.comments_ok c && CR.atoms_ok key_ok (cnode c)) items = true.
  Proof.
    induction 1 as [|[lead n tr] r Hc _ IH]; intros Hn Hk; [reflexivity|].
    cbn [forallb cnode Formatter.items_comments] in *. apply andb_prop in Hn as [N1 N2].
    rewrite !cok_app in Hk. apply andb_prop in Hk as [K1 K]. apply andb_prop in K as [K2 K]. apply andb_prop in K as [K3 K4].
    unfold CR.comments_ok at 1. cbn [cleading ctrailing]. unfold CR.comment_ok.
    rewrite K1, (trailing_cok _ K3), (Hc N1 K2), (IH N2 K4). reflexivity.
  Qed.

  Lemma split_all : forall e, Sp e.
  Proof.
    apply expr_ind'; unfold Sp; try (intros; reflexivity).
    - (* EList *) intros items HF Hn Hk. cbn [names_ok expr_comments CR.atoms_ok] in *. now apply split_items.
    - (* ERec *)
      intros entries HF Hn Hk. cbn [names_ok expr_comments CR.atoms_ok] in *.
      induction HF as [|[lead [k v] tr] r Hc _ IH]; [reflexivity|].
      cbn [forallb cnode Formatter.entries_comments] in *. apply andb_prop in Hn as [N1 N2].
      rewrite !cok_app in Hk. apply andb_prop in Hk as [K1 K]. apply andb_prop in K as [K2 K]. apply andb_prop in K as [K3 K4].
      apply andb_prop in N1 as [NK NV].
      unfold CR.comments_ok at 1. cbn [cleading ctrailing]. unfold CR.comment_ok.
      rewrite K1, (trailing_cok _ K3), NK, (IH N2 K4), andb_true_r. cbn [andb].
      destruct Hc as [Hk' Hv]. destruct k as [s|ke|s|x]; cbn [Formatter.entry_comments Pkey] in *.
      + exact (Hv NV K2).
      + apply andb_prop in NV as [A B]. rewrite cok_app in K2. apply andb_prop in K2 as [C D].
        now rewrite (Hk' A C), (Hv B D).
      + reflexivity.
      + exact (Hk' NV K2).
    - (* ELam *) intros args body IH Hn Hk. cbn [names_ok expr_comments CR.atoms_ok] in *.
      apply andb_prop in Hn as [A B]. now rewrite A, (IH B Hk).
    - (* ECond *) intros c t f I1 I2 I3 Hn Hk. cbn [names_ok expr_comments CR.atoms_ok] in *.
      apply andb_prop in Hn as [A N3]. apply andb_prop in A as [N1 N2].
      rewrite !cok_app in Hk. apply andb_prop in Hk as [K1 K]. apply andb_prop in K as [K2 K3].
      now rewrite (I1 N1 K1), (I2 N2 K2), (I3 N3 K3).
    - (* EDo *) intros stmts [rl rn rt] HF IR Hn Hk. cbn [names_ok expr_comments CR.atoms_ok cnode cleading] in *.
      apply andb_prop in Hn as [N1 N2].
      rewrite !cok_app in Hk. apply andb_prop in Hk as [K1 K]. apply andb_prop in K as [K2 K]. apply andb_prop in K as [K3 K4].
      rewrite (split_items stmts HF N1 K1), (IR N2 K3). unfold CR.comment_ok. rewrite K2. reflexivity.
    - (* EAssign *) intros x v IH Hn Hk. cbn [names_ok expr_comments CR.atoms_ok] in *.
      apply andb_prop in Hn as [A B]. now rewrite A, (IH B Hk).
    - (* EOutput *) intros x IH Hn Hk. cbn [names_ok expr_comments CR.atoms_ok] in *. exact (IH Hn Hk).
    - (* ECall *) intros f args If HF Hn Hk. cbn [names_ok expr_comments CR.atoms_ok] in *.
      apply andb_prop in Hn as [A B]. rewrite cok_app in Hk. apply andb_prop in Hk as [C D].
      rewrite (If A C). cbn [andb]. clear -HF B D.
      induction HF as [|a r Ha _ IH]; [reflexivity|]. cbn [forallb flat_map] in *.
      apply andb_prop in B as [B1 B2]. rewrite cok_app in D. apply andb_prop in D as [D1 D2].
      now rewrite (Ha B1 D1), (IH B2 D2).
    - (* EAccess *) intros a i I1 I2 Hn Hk. cbn [names_ok expr_comments CR.atoms_ok] in *.
      apply andb_prop in Hn as [A B]. rewrite cok_app in Hk. apply andb_prop in Hk as [C D].
      now rewrite (I1 A C), (I2 B D).
    - (* EDot *) intros a f IH Hn Hk. cbn [names_ok expr_comments CR.atoms_ok] in *.
      apply andb_prop in Hn as [A B]. now rewrite (IH A Hk), B.
    - (* EBin *) intros op l r I1 I2 Hn Hk. cbn [names_ok expr_comments CR.atoms_ok] in *.
      apply andb_prop in Hn as [A B]. rewrite cok_app in Hk. apply andb_prop in Hk as [C D].
      now rewrite (I1 A C), (I2 B D).
    - intros op a IH Hn Hk. cbn [names_ok expr_comments CR.atoms_ok] in *. exact (IH Hn Hk).
    - intros a IH Hn Hk. cbn [names_ok expr_comments CR.atoms_ok] in *. exact (IH Hn Hk).
    - intros a IH Hn Hk. cbn [names_ok expr_comments CR.atoms_ok] in *. exact (IH Hn Hk).
  Qed.

  Theorem atoms_ok_split : forall e,
    names_ok e = true -> forallb comment_ok_cr (expr_comments e) = true -> CR.atoms_ok key_ok e = true.
  Proof. exact split_all. Qed.
End Split.

(* ------------------------------------------------------------------ what is left of stmt_ok_parsed *)
Definition stmt_rest_ok (O : oracles) (key_ok : string -> bool) (mw : option nat) (s : stmt) : Prop :=
  let w := match mw with Some n => n | None => DEFAULT_MAX_COLUMNS end in
  match s with
  | St k eol _ _ =>
      match k with
      | SComment c => eol = None
      | SExpr e =>
          names_ok key_ok e = true /\
          forallb cfree (doc_opaque (fmtd O w e 0)) = true /\
          opaque_texts_neutral (fmtd O w e 0)
      | SOut e =>
          names_ok key_ok e = true /\
          forallb cfree (doc_opaque (fmtd O w (EOutput e) 0)) = true /\
          opaque_texts_neutral (fmtd O w (EOutput e) 0)
      end
  end.

Lemma stmt_ok_cr_of_rest : forall O key_ok mw s,
  stmt_wf_ast s = true -> stmt_rest_ok O key_ok mw s ->
  forallb comment_ok_cr (stmt_comments s) = true -> CR.stmt_ok O key_ok mw s.
Proof.
  intros O key_ok mw [k eol sl el] Hw H Hc. unfold CR.stmt_ok, stmt_rest_ok in *. unfold CR.comment_ok.
  cbn [stmt_comments] in Hc. rewrite forallb_app in Hc. apply andb_prop in Hc as [C1 C2].
  destruct k as [e|e|c]; cbn [stmt_wf_ast] in Hw.
  - destruct H as (Hn & Hf & Ho). split.
    + repeat split; try assumption. now apply atoms_ok_split.
    + destruct eol as [c|]; [|exact I]. cbn [forallb] in C2. apply andb_prop in C2 as [C2 _]. now split.
  - destruct H as (Hn & Hf & Ho). split.
    + repeat split; try assumption. now apply atoms_ok_split.
    + destruct eol as [c|]; [|exact I]. cbn [forallb] in C2. apply andb_prop in C2 as [C2 _]. now split.
  - subst eol. cbn [forallb] in C1. apply andb_prop in C1 as [C1 _]. split; [exact C1|exact I].
Qed.

Lemma program_ok_cr_of_rest : forall O key_ok mw p,
  forallb stmt_wf_ast p = true -> Forall (stmt_rest_ok O key_ok mw) p ->
  forallb comment_ok_cr (program_comments p) = true -> Forall (CR.stmt_ok O key_ok mw) p.
Proof.
  intros O key_ok mw p Hw H. induction H as [|s p Hs _ IH]; intros Hc; [constructor|].
  cbn [forallb] in Hw. apply andb_prop in Hw as [H1 H2].
  unfold program_comments in Hc. cbn [flat_map] in Hc. rewrite forallb_app in Hc. apply andb_prop in Hc as [C1 C2].
  constructor; [now apply stmt_ok_cr_of_rest|exact (IH H2 C2)].
Qed.

(* every comment of every parsed program outside the two exclusions satisfies comment_ok_cr *)
Theorem parsed_program_comments_ok_cr : forall text forest p,
  parse_program_c text = PCOk forest p ->
  forest_no_empty_container text forest = true ->
  forallb no_trailing_cr (forest_comments text forest) = true ->
  forallb comment_ok_cr (program_comments p) = true.
Proof.
  intros text forest p H Hn Hcr.
  apply comments_ok_cr_of; [exact (parsed_program_comment_texts_total text forest p H Hn)|].
  rewrite (parse_keeps_comments_text_total text forest p H Hn). exact Hcr.
Qed.

(* ------------------------------------------------------------------ the closed end-to-end theorems *)
Theorem text_to_text_lib_closed :
  forall O key_ok, (forall k, key_ok k = true -> neutral (o_record_key O k)) ->
  forall text forest p mw d,
  parse_program_c text = PCOk forest p ->
  forest_no_empty_container text forest = true ->
  forallb no_trailing_cr (forest_comments text forest) = true ->
  Forall (stmt_rest_ok O key_ok mw) p -> format_lib O mw p = Some d ->
  scan_comments (render d) = forest_comments text forest.
Proof.
  intros O key_ok Hk text forest p mw d H Hn Hcr Hok Hd.
  rewrite (CR.lib_driver_text_comments O key_ok Hk mw p d); [| |exact Hd].
  - exact (parse_keeps_comments_text_total text forest p H Hn).
  - apply program_ok_cr_of_rest; [exact (parse_program_c_wf _ _ _ H)|exact Hok|].
    exact (parsed_program_comments_ok_cr text forest p H Hn Hcr).
Qed.

Theorem text_to_text_cli_closed :
  forall O key_ok, (forall k, key_ok k = true -> neutral (o_record_key O k)) ->
  forall text forest p,
  parse_program_c text = PCOk forest p ->
  forest_no_empty_container text forest = true ->
  forallb no_trailing_cr (forest_comments text forest) = true ->
  Forall (stmt_rest_ok O key_ok None) p ->
  scan_comments (render (format_cli O p)) = forest_comments text forest.
Proof.
  intros O key_ok Hk text forest p H Hn Hcr Hok.
  rewrite (CR.cli_driver_text_comments O key_ok Hk p).
  - exact (parse_keeps_comments_text_total text forest p H Hn).
  - apply program_ok_cr_of_rest; [exact (parse_program_c_wf _ _ _ H)|exact Hok|].
    exact (parsed_program_comments_ok_cr text forest p H Hn Hcr).
Qed.

(* ------------------------------------------------------------------ witnesses at the scanner level *)
Definition trailing_cr_comment : string := String "/" (String "/" (String "a" (String CRc ""))).
Definition bare_cr_comment : string := String "/" (String "/" (String " " (String "a" (String CRc (String "b" ""))))).
Lemma comment_trailing_cr_refuted :
  comment_ok_cr trailing_cr_comment = false /\
  scan_comments (trailing_cr_comment +++ nl) = [String "/" (String "/" (String "a" ""))] /\
  scan_comments (trailing_cr_comment +++ nl) <> [trailing_cr_comment].
Proof. split; [reflexivity|]. split; [reflexivity|]. discriminate. Qed.
Lemma comment_bare_cr_ok :
  comment_ok_cr bare_cr_comment = true /\ comment_ok bare_cr_comment = false /\
  scan_comments (bare_cr_comment +++ nl) = [bare_cr_comment].
Proof. split; [reflexivity|]. split; reflexivity. Qed.
