(* AllValidLit.v — how valid_expr is tied to the parser: the ONE place where the text -> AST model (PegToItems.v)
   creates a number is number_item = NumText.literal_value_rf (decimal tokens through Rust's f64 FromStr =
   rn_decimal, 0x / 0b tokens through the repaired u128 accumulator loop), and every number it creates is a valid
   binary64; Pratt.v moves the INum item into ENum unchanged (Pratt.v: `INum x => Ok (Some (ENum x))`). *)
From Coq Require Import String Ascii List ZArith Bool Floats.SpecFloat.
Require Import Blots.Num Blots.NumText Blots.PrattTypes Blots.PegToItems Blots.Valid
               Blots.proofs.AllValidNum Blots.proofs.AllValidPure.
Import ListNotations.

Lemma radix_fold_valid : forall radix bits s acc scale sticky acc' scale' sticky',
  valid_num scale -> radix_fold radix bits s acc scale sticky = Some (acc', scale', sticky') -> valid_num scale'.
Proof.
  intros radix bits s. induction s as [|c r IH]; intros acc scale sticky acc' scale' sticky' Hs H; cbn [radix_fold] in H.
  - inversion H; subst. exact Hs.
  - destruct (radix_digit radix c); [|discriminate H].
    destruct (_ =? _)%Z; eapply IH; try exact H; [exact Hs|].
    apply nmul_valid; [exact Hs|apply num_of_Z_valid].
Qed.
Lemma radix_literal_fixed_valid : forall s mark radix x, radix_literal_fixed s mark radix = Some x -> valid_num x.
Proof.
  intros s mark radix x H. unfold radix_literal_fixed in H.
  match type of H with (let '(sign, digits) := ?P in _) = _ =>
    assert (Hs : valid_num (fst P)) by (destruct (strip_prefix _ s); [apply num_of_Z_valid|];
                                        destruct (strip_prefix _ s); apply num_of_Z_valid);
    destruct P as [sign digits] end.
  cbn [fst] in Hs.
  destruct (parse_radix_digits _ radix) as [parsed|] eqn:E; [|discriminate H]. injection H as <-.
  apply nmul_valid; [exact Hs|].
  unfold parse_radix_digits in E. destruct (is_empty _); [discriminate E|].
  destruct (radix_fold _ _ _ _ _ _) as [[[acc scale] sticky]|] eqn:Ef; [|discriminate E]. injection E as <-.
  apply nmul_valid; [apply num_of_Z_valid|]. eapply radix_fold_valid; [|exact Ef]. apply num_of_Z_valid.
Qed.
Theorem literal_value_valid : forall tok x, literal_value_rf true ref_str_parse tok = Some x -> valid_num x.
Proof.
  intros tok x H. unfold literal_value_rf in H.
  destruct (_ || _); [eapply radix_literal_fixed_valid; exact H|].
  destruct (_ || _); [eapply radix_literal_fixed_valid; exact H|].
  eapply ref_str_parse_valid; exact H.
Qed.
Theorem number_item_valid : forall tok x, number_item tok = INum x -> valid_num x.
Proof.
  intros tok x H. unfold number_item in H.
  destruct (literal_value_rf true ref_str_parse tok) eqn:E; [|discriminate H].
  injection H as <-. eapply literal_value_valid; exact E.
Qed.
