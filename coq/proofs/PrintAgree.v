(* PrintAgree.v — outside the known-finding classes about parentheses the pinned printer
   (policy_old over the pinned precedence table) makes exactly the decisions of the repaired one
   (policy_new over the patched table): same text, same token stream.  Hence everything proved
   about the repaired printer holds for the pinned code on such trees. *)
From Coq Require Import String Ascii List Bool Arith Lia.
Require Import Blots.Num Blots.gen.Builtins Blots.Ast Blots.Outcome Blots.PrattTypes Blots.gen.PrecTable
               Blots.Pratt Blots.PrattRender Blots.Printer Blots.proofs.PrattRT.
Import ListNotations.
Local Open Scope list_scope.

Definition parens_cls (k : kcls) : bool := match k with KQuote | KDoMinus => false | _ => true end.
Definition parens_free (l : list kcls) : bool := forallb (fun k => negb (parens_cls k)) l.

Lemma parens_free_app : forall a b, parens_free (a ++ b) = parens_free a && parens_free b.
Proof. intros. apply forallb_app. Qed.
Lemma cls_if_free : forall b k, parens_cls k = true -> parens_free (cls_if b k) = true -> b = false.
Proof. intros [|] k Hk H; [|reflexivity]. cbn in H. rewrite Hk in H. discriminate. Qed.

Section Agree.
  Variable fx : fixes.
  Variable numtxt : num -> string.
  Notation po := (policy_old pinned_opinfo).
  Notation pn := (policy_new fixed_opinfo).
  Notation to := (print_text fx po numtxt).
  Notation tn := (print_text fx pn numtxt).
  Notation io := (print_items fx po numtxt).
  Notation inw := (print_items fx pn numtxt).

  Definition AG (e : expr) : Prop :=
    parens_free (known_classes e) = true -> to e = tn e /\ io e = inw e.

  Lemma list_ag : forall items,
    Forall (Pcm AG) items ->
    parens_free ((fix go (l : list (commented expr)) : list kcls :=
                    match l with [] => [] | Cm _ x _ :: l' => known_classes x ++ go l' end) items) = true ->
    (fix go (l : list (commented expr)) : list string :=
       match l with [] => [] | Cm _ x _ :: l' => to x :: go l' end) items
    = (fix go (l : list (commented expr)) : list string :=
         match l with [] => [] | Cm _ x _ :: l' => tn x :: go l' end) items
    /\
    (fix go (l : list (commented expr)) : list lelem :=
       match l with [] => [] | Cm _ x _ :: l' => LItem (io x) None :: go l' end) items
    = (fix go (l : list (commented expr)) : list lelem :=
         match l with [] => [] | Cm _ x _ :: l' => LItem (inw x) None :: go l' end) items.
  Proof.
    induction items as [|c items IH]; intros HF Hp; [split; reflexivity|].
    destruct c as [ld x tr]. inversion HF as [|? ? Hc HF']; subst. cbn [Pcm] in Hc.
    rewrite parens_free_app in Hp. apply andb_prop in Hp. destruct Hp as [Hx Hr].
    destruct (Hc Hx) as [E1 E2]. destruct (IH HF' Hr) as [F1 F2].
    split; [rewrite E1, F1 | rewrite E2, F2]; reflexivity.
  Qed.

  Lemma args_ag : forall args,
    Forall AG args ->
    parens_free ((fix go (l : list expr) : list kcls :=
                    match l with [] => [] | a :: l' => known_classes a ++ go l' end) args) = true ->
    (fix go (l : list expr) : list string := match l with [] => [] | a :: l' => to a :: go l' end) args
    = (fix go (l : list expr) : list string := match l with [] => [] | a :: l' => tn a :: go l' end) args
    /\
    (fix go (l : list expr) : list (list item) := match l with [] => [] | a :: l' => io a :: go l' end) args
    = (fix go (l : list expr) : list (list item) := match l with [] => [] | a :: l' => inw a :: go l' end) args.
  Proof.
    induction args as [|a args IH]; intros HF Hp; [split; reflexivity|].
    inversion HF as [|? ? Hc HF']; subst.
    rewrite parens_free_app in Hp. apply andb_prop in Hp. destruct Hp as [Hx Hr].
    destruct (Hc Hx) as [E1 E2]. destruct (IH HF' Hr) as [F1 F2].
    split; [rewrite E1, F1 | rewrite E2, F2]; reflexivity.
  Qed.

  Lemma rec_ag : forall entries,
    Forall (Pentry AG) entries ->
    parens_free ((fix go (l : list (commented rentry)) : list kcls :=
                    match l with
                    | [] => []
                    | Cm _ (REntry k v) _ :: l' =>
                        match k with
                        | KStatic s => (if is_valid_identifier s then [] else str_cls s) ++ known_classes v
                        | KDyn d => known_classes d ++ known_classes v
                        | KShort _ => []
                        | KSpread x => known_classes x
                        end ++ go l'
                    end) entries) = true ->
    (fix go (l : list (commented rentry)) : list string :=
       match l with
       | [] => []
       | Cm _ (REntry k v) _ :: l' =>
           match k with
           | KStatic s => format_record_key fx s ++ ": " ++ to v
           | KDyn d => "[" ++ to d ++ "]: " ++ to v
           | KShort s => s
           | KSpread x => to x
           end%string :: go l'
       end) entries
    = (fix go (l : list (commented rentry)) : list string :=
         match l with
         | [] => []
         | Cm _ (REntry k v) _ :: l' =>
             match k with
             | KStatic s => format_record_key fx s ++ ": " ++ tn v
             | KDyn d => "[" ++ tn d ++ "]: " ++ tn v
             | KShort s => s
             | KSpread x => tn x
             end%string :: go l'
         end) entries
    /\
    (fix go (l : list (commented rentry)) : list relem :=
       match l with
       | [] => []
       | Cm _ (REntry k v) _ :: l' =>
           match k with
           | KStatic s => RPairI (key_item s) (io v) None
           | KDyn d => RPairI (RKDyn [IExpr false (io d)]) (io v) None
           | KShort s => RShortI s None
           | KSpread x => RSpreadI (io x) None
           end :: go l'
       end) entries
    = (fix go (l : list (commented rentry)) : list relem :=
         match l with
         | [] => []
         | Cm _ (REntry k v) _ :: l' =>
             match k with
             | KStatic s => RPairI (key_item s) (inw v) None
             | KDyn d => RPairI (RKDyn [IExpr false (inw d)]) (inw v) None
             | KShort s => RShortI s None
             | KSpread x => RSpreadI (inw x) None
             end :: go l'
         end) entries.
  Proof.
    induction entries as [|c entries IH]; intros HF Hp; [split; reflexivity|].
    destruct c as [ld [k v] tr]. inversion HF as [|? ? Hc HF']; subst.
    cbn [Pentry Pkey] in Hc. destruct Hc as [Hk Hv].
    rewrite parens_free_app in Hp. apply andb_prop in Hp. destruct Hp as [Hx Hr].
    destruct (IH HF' Hr) as [F1 F2].
    destruct k as [s|d|s|x].
    - rewrite parens_free_app in Hx. apply andb_prop in Hx. destruct Hx as [_ Hx].
      destruct (Hv Hx) as [E1 E2]. split; [rewrite E1, F1 | rewrite E2, F2]; reflexivity.
    - rewrite parens_free_app in Hx. apply andb_prop in Hx. destruct Hx as [Hd Hx].
      destruct (Hv Hx) as [E1 E2]. destruct (Hk Hd) as [D1 D2].
      split; [rewrite E1, D1, F1 | rewrite E2, D2, F2]; reflexivity.
    - split; [rewrite F1 | rewrite F2]; reflexivity.
    - destruct (Hk Hx) as [D1 D2]. split; [rewrite D1, F1 | rewrite D2, F2]; reflexivity.
  Qed.

  Lemma do_ag : forall stmts i ret,
    Forall (Pcm AG) stmts ->
    parens_free ((fix go (i : nat) (l : list (commented expr)) : list kcls :=
                    match l with
                    | [] => []
                    | Cm _ x _ :: l' =>
                        cls_if (negb (Nat.eqb i 0) && starts_neg_expr x) KDoMinus ++ known_classes x ++ go (S i) l'
                    end) i stmts) = true ->
    to ret = tn ret -> io ret = inw ret ->
    (fix go (i : nat) (l : list (commented expr)) : string :=
       match l with
       | [] => ""
       | Cm lead x trail :: l' =>
           sconcat (map (fun c => nl ++ "  " ++ c) lead) ++
           nl ++ "  " ++ (let s := to x in paren_s (dominus_text fx i s) s) ++
           match trail with Some t => "  " ++ t | None => "" end ++
           go (S i) l'
       end%string) i stmts
    = (fix go (i : nat) (l : list (commented expr)) : string :=
         match l with
         | [] => ""
         | Cm lead x trail :: l' =>
             sconcat (map (fun c => nl ++ "  " ++ c) lead) ++
             nl ++ "  " ++ (let s := tn x in paren_s (dominus_text fx i s) s) ++
             match trail with Some t => "  " ++ t | None => "" end ++
             go (S i) l'
         end%string) i stmts
    /\
    (fix go (i : nat) (l : list (commented expr)) : list delem :=
       match l with
       | [] => [DRet (io ret)]
       | Cm _ x _ :: l' => DStmt (wrapb (dominus_text fx i (to x)) (io x)) None :: go (S i) l'
       end) i stmts
    = (fix go (i : nat) (l : list (commented expr)) : list delem :=
         match l with
         | [] => [DRet (inw ret)]
         | Cm _ x _ :: l' => DStmt (wrapb (dominus_text fx i (tn x)) (inw x)) None :: go (S i) l'
         end) i stmts.
  Proof.
    induction stmts as [|c stmts IH]; intros i ret HF Hp Hr1 Hr2.
    - split; [reflexivity | rewrite Hr2; reflexivity].
    - destruct c as [ld x tr]. inversion HF as [|? ? Hc HF']; subst. cbn [Pcm] in Hc.
      rewrite !parens_free_app in Hp. apply andb_prop in Hp. destruct Hp as [_ Hp].
      apply andb_prop in Hp. destruct Hp as [Hx Hrest].
      destruct (Hc Hx) as [E1 E2]. destruct (IH (S i) ret HF' Hrest Hr1 Hr2) as [F1 F2].
      split; [rewrite E1, F1 | rewrite E1, E2, F2]; reflexivity.
  Qed.

  Theorem agree_all : forall e, AG e.
  Proof.
    induction e as [x|s|b| |x|x|b|items HF|entries HF|args body IHb|c t1 e IHc IHt IHe|stmts ret HF Hret
                   |x v IHv|e IHe|f args IHf HF|e i IHe IHi|e f IHe|o l r IHl IHr|uo e IHe|e IHe|e IHe]
      using expr_ind';
      intros Hp; cbn [known_classes] in Hp; cbn [print_text print_items]; try (split; reflexivity).
    - (* EList *) destruct (list_ag items HF Hp) as [E1 E2]. rewrite E1, E2. split; reflexivity.
    - (* ERec *) destruct (rec_ag entries HF Hp) as [E1 E2]. rewrite E1, E2. split; reflexivity.
    - (* ELam *)
      rewrite parens_free_app in Hp. apply andb_prop in Hp. destruct Hp as [Hl Hb].
      apply cls_if_free in Hl; [|reflexivity].
      destruct (IHb Hb) as [E1 E2]. cbn [pB policy_old policy_new]. rewrite Hl, E1, E2. split; reflexivity.
    - (* ECond *)
      rewrite !parens_free_app in Hp. apply andb_prop in Hp. destruct Hp as [H1 Hp].
      apply andb_prop in Hp. destruct Hp as [H2 H3].
      destruct (IHc H1) as [A1 A2]. destruct (IHt H2) as [B1 B2]. destruct (IHe H3) as [C1 C2].
      rewrite A1, A2, B1, B2, C1, C2. split; reflexivity.
    - (* EDo *)
      destruct ret as [rl r rt]. cbn [Pcm] in Hret.
      rewrite parens_free_app in Hp. apply andb_prop in Hp. destruct Hp as [Hs Hr].
      destruct (Hret Hr) as [R1 R2].
      destruct (do_ag stmts 0 r HF Hs R1 R2) as [E1 E2]. cbn zeta in E1 |- *. rewrite E1, E2, R1. split; reflexivity.
    - (* EAssign *) destruct (IHv Hp) as [E1 E2]. rewrite E1, E2. split; reflexivity.
    - (* EOutput *) destruct (IHe Hp) as [E1 E2]. rewrite E1. split; reflexivity.
    - (* ECall *)
      rewrite !parens_free_app in Hp. apply andb_prop in Hp. destruct Hp as [Hc Hp].
      apply andb_prop in Hp. destruct Hp as [Hf Ha].
      apply cls_if_free in Hc; [|reflexivity]. apply negb_false_iff, eqb_prop in Hc.
      destruct (IHf Hf) as [E1 E2]. destruct (args_ag args HF Ha) as [F1 F2].
      cbn [pC policy_old policy_new]. rewrite Hc, E1, E2, F1, F2. split; reflexivity.
    - (* EAccess *)
      rewrite !parens_free_app in Hp. apply andb_prop in Hp. destruct Hp as [Hc Hp].
      apply andb_prop in Hp. destruct Hp as [H1 H2].
      apply cls_if_free in Hc; [|reflexivity].
      destruct (IHe H1) as [E1 E2]. destruct (IHi H2) as [F1 F2].
      cbn [pP policy_old policy_new]. rewrite Hc, E1, E2, F1, F2. split; reflexivity.
    - (* EDot *)
      rewrite parens_free_app in Hp. apply andb_prop in Hp. destruct Hp as [Hc H1].
      apply cls_if_free in Hc; [|reflexivity].
      destruct (IHe H1) as [E1 E2].
      cbn [pP policy_old policy_new]. rewrite Hc, E1, E2. split; reflexivity.
    - (* EBin *)
      rewrite !parens_free_app in Hp. apply andb_prop in Hp. destruct Hp as [HL Hp].
      apply andb_prop in Hp. destruct Hp as [HR Hp]. apply andb_prop in Hp. destruct Hp as [H1 H2].
      apply cls_if_free in HR; [|reflexivity]. apply negb_false_iff, eqb_prop in HR.
      assert (HL' : new_left fixed_opinfo o l = old_binop pinned_opinfo o l true).
      { destruct (Bool.eqb (new_left fixed_opinfo o l) (old_binop pinned_opinfo o l true)) eqn:E.
        - apply eqb_prop. exact E.
        - destruct (level_parens fixed_opinfo o l true); discriminate HL. }
      destruct (IHl H1) as [E1 E2]. destruct (IHr H2) as [F1 F2].
      cbn [pL pR policy_old policy_new]. rewrite HL', HR, E1, E2, F1, F2. split; reflexivity.
    - (* EUn *)
      rewrite parens_free_app in Hp. apply andb_prop in Hp. destruct Hp as [Hc H1].
      apply cls_if_free in Hc; [|reflexivity].
      destruct (IHe H1) as [E1 E2].
      cbn [pU policy_old policy_new]. rewrite Hc, E1, E2. split; reflexivity.
    - (* EFact *)
      rewrite parens_free_app in Hp. apply andb_prop in Hp. destruct Hp as [Hc H1].
      apply cls_if_free in Hc; [|reflexivity].
      destruct (IHe H1) as [E1 E2].
      cbn [pP policy_old policy_new]. rewrite Hc, E1, E2. split; reflexivity.
    - (* ESpread *) destruct (IHe Hp) as [E1 E2]. rewrite E1, E2. split; reflexivity.
  Qed.
End Agree.

Theorem pinned_agrees_outside_classes : forall fx numtxt e,
  parens_free (known_classes e) = true ->
  print_text fx (policy_old pinned_opinfo) numtxt e = print_text fx (policy_new fixed_opinfo) numtxt e /\
  print_items fx (policy_old pinned_opinfo) numtxt e = print_items fx (policy_new fixed_opinfo) numtxt e.
Proof. intros fx numtxt e H. apply agree_all. exact H. Qed.

(* ---- quoting ---- *)
Lemma escape_id : forall s,
  contains_char a_dq s = false -> contains_char a_bs s = false -> escape_string s = s.
Proof.
  induction s as [|a s IH]; intros H1 H2; [reflexivity|].
  cbn [contains_char] in H1, H2. apply orb_false_elim in H1. destruct H1 as [A1 B1].
  apply orb_false_elim in H2. destruct H2 as [A2 B2].
  cbn [escape_string]. rewrite A2, A1, (IH B1 B2). reflexivity.
Qed.

(* without a KQuote class the pinned and the repaired quoting print the same text *)
Theorem quote_agrees : forall s, str_cls s = [] -> quote_string FX_PINNED s = quote_string FX_ALL s.
Proof.
  intros s H. unfold str_cls, cls_if in H.
  destruct (contains_char a_dq s) eqn:E1; [discriminate|].
  destruct (contains_char a_bs s) eqn:E2; [discriminate|].
  unfold quote_string. cbn [fx_quote FX_PINNED FX_ALL]. rewrite E1, (escape_id s E1 E2). reflexivity.
Qed.

(* the repaired quoting never puts its quote character inside the literal, provided the string
   does not contain both kinds (the parser cannot produce such a string: string_value stops at the
   opening quote character) *)
Theorem quote_sound : forall s,
  string_relex_ok FX_ALL s = true ->
  exists q, (q = a_dq \/ q = a_sq) /\ contains_char q s = false /\
            quote_string FX_ALL s = (str1 q ++ s ++ str1 q)%string.
Proof.
  intros s H. unfold string_relex_ok in H. cbn [fx_quote FX_ALL] in H.
  unfold quote_string. cbn [fx_quote FX_ALL].
  destruct (contains_char a_dq s) eqn:E1.
  - exists a_sq. cbn [andb negb] in H. apply negb_true_iff in H. repeat split; auto.
  - exists a_dq. repeat split; auto.
Qed.
