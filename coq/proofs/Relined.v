(* Relined.v — after the F55 repair (/repo 5eeeb29) the via/into/where arm of
   format_binary_op_multiline re-assembles its right operand from split('\n'): the identity. *)
From Coq Require Import String Ascii List Bool.
Require Import Blots.Formatter Blots.proofs.Idempotent.
Import ListNotations.

Lemma contains_nl_split : forall s, contains_nl s = true -> exists x y t, split_nl s = x :: y :: t.
Proof.
  induction s as [|c r IH]; cbn [contains_nl split_nl]; intro H; [discriminate|].
  destruct (Ascii.eqb c NLc) eqn:E.
  - destruct (split_nl r) as [|y t] eqn:Er; [exfalso; exact (split_nl_nonempty r Er)|].
    exists ""%string, y, t. reflexivity.
  - cbn [orb] in H. destruct (IH H) as [x [y [t Ht]]]. rewrite Ht.
    exists (String c x), y, t. reflexivity.
Qed.

Lemma relined_identity : forall s, contains_nl s = true -> relined s = s.
Proof.
  intros s H. destruct (contains_nl_split s H) as [x [y [t Hs]]].
  unfold relined, first_split. rewrite Hs. cbn [tl].
  transitivity (sjoin nl (split_nl s)); [|apply sjoin_split_nl].
  rewrite Hs. reflexivity.
Qed.
