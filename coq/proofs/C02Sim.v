(* C02Sim.v — STORE-EXTENSION INVARIANCE of the evaluator, as a simulation (C02).

   Evaluating an expression e from (sA, fr) and from (sB, ren fr), where rho is an injective renaming
   of function-cell indices and [sinv rho sA sB] relates the two stores, gives the renamed outcome,
   the renamed scope chain, and stores that are related again.  The statement covers every expression
   form (assignments included), every depth, FunctionDef::call, and is generic in the operator and
   built-in implementations: they are Section variables with the hypothesis that they commute with
   the renaming whenever their callback does (discharged for the transcriptions in C02Ops.v /
   C02Full.v).  This is the relational version of the unary parametricity argument of GenOps.v. *)
From Coq Require Import String Ascii List ZArith Bool Lia.
Require Import Blots.Num Blots.gen.Builtins Blots.Ast Blots.Value Blots.Outcome Blots.Binop
               Blots.Env Blots.Eval Blots.BuiltinsHof Blots.proofs.ExprInd Blots.proofs.ValueInd
               Blots.proofs.StoreMono Blots.proofs.C02Ren.
Import ListNotations.
Open Scope string_scope.
Open Scope list_scope.
Open Scope nat_scope.

Section Sim.
  Variable rho : nat -> nat.
  Hypothesis rho_inj : forall a b, rho a = rho b -> a = b.
  Notation ren := (ren rho).
  Notation renF := (renF rho).
  Notation renFr := (renFr rho).
  Notation oren := (oren rho).
  Notation sinv := (sinv rho).

  (* a store-passing computation commutes with the renaming (f on its Ok payload) *)
  Definition Mfun {A B} (f : A -> B) (mA : store -> outcome A * store) (mB : store -> outcome B * store) : Prop :=
    forall sA sB, sinv sA sB ->
      fst (mB sB) = omap f (fst (mA sA)) /\ sinv (snd (mA sA)) (snd (mB sB)).
  Definition cb_eqv (cbA cbB : callback) : Prop :=
    forall this f args, Mfun ren (cbA this f args) (cbB (ren this) (ren f) (map ren args)).

  (* two evaluation results are related *)
  Definition simG {A B} (f : A -> B) (rA : outcome A * cfg) (rB : outcome B * cfg) : Prop :=
    fst rB = omap f (fst rA) /\ snd (snd rB) = renFr (snd (snd rA)) /\ sinv (fst (snd rA)) (fst (snd rB)).

  Ltac step H :=
    match type of H with simG _ ?XA ?XB =>
      revert H; destruct XA as [?rA [?sA ?frA]]; destruct XB as [?rB [?sB ?frB]];
      intros (?E & ?E & ?Hs); cbn [fst snd] in *; subst end.
  Ltac stepM H :=
    match type of H with _ = omap _ (fst ?XA) /\ sinv (snd ?XA) (snd ?XB) =>
      revert H; destruct XA as [?rA ?sA]; destruct XB as [?rB ?sB];
      intros (?E & ?Hs); cbn [fst snd] in *; subst end.
  Ltac done := split; [reflexivity|split; [reflexivity|assumption]].

  (* ---- value-level pieces of evaluate_ast ---- *)
  Lemma of_option_ren : forall o, of_option (option_map ren o) = oren (of_option o).
  Proof. intros [v|]; reflexivity. Qed.

  Lemma access_val_ren : forall v i, access_val (ren v) (ren i) = oren (access_val v i).
  Proof.
    intros v i. destruct v; try reflexivity; cbn [ren access_val].
    - (* string *) rewrite as_number_ren. destruct (as_number i); try reflexivity. cbn [obind oren omap].
      destruct (index_from _ a); [|reflexivity]. destruct (nth_error (chars s) n); reflexivity.
    - (* list *) rewrite as_number_ren. destruct (as_number i); try reflexivity. cbn [obind oren omap].
      rewrite map_length. destruct (index_from _ a); [|reflexivity]. rewrite nth_ren. reflexivity.
    - (* record *) rewrite as_string_ren. destruct (as_string i); try reflexivity. cbn [obind oren omap].
      fold (renF r). rewrite rec_get_ren. destruct (rec_get r a); reflexivity.
  Qed.
  Lemma dot_val_ren : forall v f, dot_val (ren v) f = oren (dot_val v f).
  Proof.
    intros v f. destruct v; try reflexivity. cbn [ren dot_val]. fold (renF r). rewrite rec_get_ren.
    destruct (rec_get r f); reflexivity.
  Qed.
  Lemma spread_val_ren : forall v, spread_val (ren v) = oren (spread_val v).
  Proof. destruct v; reflexivity. Qed.

  Lemma enum_from_ren : forall l n,
    map (fun iv : nat * value => (nat_to_dec (fst iv), snd iv)) (enum_from n (map ren l)) =
    renF (map (fun iv : nat * value => (nat_to_dec (fst iv), snd iv)) (enum_from n l)).
  Proof. unfold C02Ren.renF. induction l as [|x l IH]; intros n; [reflexivity|]. cbn [map enum_from fst snd]. f_equal. apply IH. Qed.
  Lemma enum_from_str : forall (l : list string) n,
    map (fun iv : nat * string => (nat_to_dec (fst iv), VStr (snd iv))) (enum_from n l) =
    renF (map (fun iv : nat * string => (nat_to_dec (fst iv), VStr (snd iv))) (enum_from n l)).
  Proof. unfold C02Ren.renF. induction l as [|x l IH]; intros n; [reflexivity|]. cbn [map enum_from fst snd]. f_equal. apply IH. Qed.
  Lemma record_spread_entries_ren : forall v,
    record_spread_entries (ren v) = renF (record_spread_entries v).
  Proof.
    destruct v; try reflexivity. destruct v; try reflexivity; cbn [ren record_spread_entries].
    - apply enum_from_str.
    - apply enum_from_ren.
  Qed.
  Lemma rec_insert_all_ren : forall es r,
    rec_insert_all (renF r) (renF es) = renF (rec_insert_all r es).
  Proof.
    unfold rec_insert_all. induction es as [|[k v] es IH]; intros r; [reflexivity|].
    change (renF ((k, v) :: es)) with ((k, ren v) :: renF es).
    cbn [fold_left fst snd]. rewrite rec_insert_ren. apply IH.
  Qed.

  Lemma bind_params_ren : forall ps idx args acc,
    bind_params ps idx (map ren args) (renF acc) = option_map renF (bind_params ps idx args acc).
  Proof.
    induction ps as [|p ps IH]; intros idx args acc; [reflexivity|]. destruct p; cbn [bind_params].
    - rewrite nth_error_map_ren. destruct (nth_error args idx) as [v|]; [|reflexivity].
      cbn [option_map]. apply (IH (S idx) args ((x, v) :: acc)).
    - rewrite nth_error_map_ren.
      assert (E : (x, match option_map ren (nth_error args idx) with Some v => v | None => VNull end) :: renF acc
                  = renF ((x, match nth_error args idx with Some v => v | None => VNull end) :: acc)).
      { destruct (nth_error args idx); reflexivity. }
      rewrite E. apply IH.
    - assert (E : (x, VList (skipn idx (map ren args))) :: renF acc = renF ((x, VList (skipn idx args)) :: acc)).
      { cbn [renF map C02Ren.ren]. rewrite skipn_map. reflexivity. }
      rewrite E. apply IH.
  Qed.

  Variable release : bool.
  Variable bi : callback -> binop -> value -> value -> store -> outcome value * store.
  Variable bu : callback -> builtin -> list value -> store -> outcome value * store.
  (* the operators and built-ins commute with the renaming whenever their callback does *)
  Hypothesis Hbi : forall cbA cbB, cb_eqv cbA cbB ->
    forall op l r, Mfun ren (bi cbA op l r) (bi cbB op (ren l) (ren r)).
  Hypothesis Hbu : forall cbA cbB, cb_eqv cbA cbB ->
    forall b args, Mfun ren (bu cbA b args) (bu cbB b (map ren args)).

  Section Gen.
    Variable evA evB : cfg -> expr -> result.
    Definition simR (e : expr) : Prop :=
      forall sA sB fr, sinv sA sB -> simG ren (evA (sA, fr) e) (evB (sB, renFr fr) e).

    Lemma evalL_sim : forall l, Forall simR l ->
      forall sA sB fr, sinv sA sB ->
        simG (map ren) (evalL evA (sA, fr) l) (evalL evB (sB, renFr fr) l).
    Proof.
      intros l HF; induction HF as [|x l Hx _ IH]; intros sA sB fr Hs; cbn [evalL]; [done|].
      pose proof (Hx sA sB fr Hs) as H1. step H1.
      destruct rA; cbn [omap obind]; try done.
      pose proof (IH sA0 sB0 frA Hs0) as H2. step H2.
      destruct rA; cbn [omap obind]; done.
    Qed.
    Lemma evalCL_sim : forall (l : list (commented expr)), Forall (fun cm => simR (cnode cm)) l ->
      forall sA sB fr, sinv sA sB ->
        simG (map ren) (evalCL evA (sA, fr) l) (evalCL evB (sB, renFr fr) l).
    Proof.
      intros l HF; induction HF as [|[ld x tr] l Hx _ IH]; intros sA sB fr Hs; cbn [evalCL]; [done|].
      cbn [cnode] in Hx. pose proof (Hx sA sB fr Hs) as H1. step H1.
      destruct rA; cbn [omap obind]; try done.
      pose proof (IH sA0 sB0 frA Hs0) as H2. step H2.
      destruct rA; cbn [omap obind]; done.
    Qed.

    Lemma bind_value_sim : forall sA0 sB0 sA sB fr x v, sinv sA0 sB0 -> sinv sA sB ->
      simG ren (bind_value (length sA0) (sA, fr) x v) (bind_value (length sB0) (sB, renFr fr) x (ren v)).
    Proof.
      intros sA0 sB0 sA sB fr x v H0 Hs. unfold bind_value. cbn [fst snd]. rewrite insert_head_ren.
      destruct (insert_head fr x v); cbn [option_map];
        (split; [reflexivity|split; [reflexivity|apply sinv_name_if_created; assumption]]).
    Qed.
    Lemma assign_value_sim : forall ve, simR ve -> forall sA sB fr x, sinv sA sB ->
      simG ren (assign_value evA (sA, fr) x ve) (assign_value evB (sB, renFr fr) x ve).
    Proof.
      intros ve Hv sA sB fr x Hs. unfold assign_value. cbn [fst].
      pose proof (Hv sA sB fr Hs) as H1. step H1.
      destruct rA; cbn [omap obind]; try done. apply bind_value_sim; assumption.
    Qed.
    Lemma assign_checked_sim : forall ve, simR ve -> forall sA sB fr x, sinv sA sB ->
      simG ren (assign_checked evA (sA, fr) x ve) (assign_checked evB (sB, renFr fr) x ve).
    Proof.
      intros ve Hv sA sB fr x Hs. unfold assign_checked. cbn [fst].
      pose proof (Hv sA sB fr Hs) as H1. step H1.
      destruct rA; cbn [omap obind]; try done. cbn [snd]. rewrite contains_ren.
      destruct (contains frA x); [done|]. apply bind_value_sim; assumption.
    Qed.

    Definition simS (s : expr) : Prop := simR s /\ (forall x v, s = EAssign x v -> simR v).

    Lemma do_step_sim : forall s, simS s -> forall sA sB fr, sinv sA sB ->
      simG ren (do_step evA (sA, fr) s) (do_step evB (sB, renFr fr) s).
    Proof.
      intros s [Hs Hsub] sA sB fr Hi. destruct s; try (apply Hs; assumption).
      cbn [do_step]. destruct (mem x do_assign_keywords); [done|].
      apply assign_value_sim; [eapply Hsub; reflexivity|assumption].
    Qed.
    Lemma evalDoL_sim : forall (l : list (commented expr)), Forall (fun cm => simS (cnode cm)) l ->
      forall sA sB fr, sinv sA sB ->
        simG (fun u : unit => u) (evalDoL evA (sA, fr) l) (evalDoL evB (sB, renFr fr) l).
    Proof.
      intros l HF; induction HF as [|[ld x tr] l Hx _ IH]; intros sA sB fr Hs; cbn [evalDoL]; [done|].
      cbn [cnode] in Hx. pose proof (do_step_sim x Hx sA sB fr Hs) as H1. step H1.
      destruct rA; cbn [omap obind]; try done. apply IH; assumption.
    Qed.

    Lemma evalRecL_sim : forall (l : list (commented rentry)),
      Forall (fun cm => Pentry simR (cnode cm)) l ->
      forall sA sB fr acc, sinv sA sB ->
        simG ren (evalRecL evA (sA, fr) acc l) (evalRecL evB (sB, renFr fr) (renF acc) l).
    Proof.
      intros l HF; induction HF as [|[ld [k v] tr] l Hx _ IH]; intros sA sB fr acc Hs; cbn [evalRecL]; [done|].
      cbn [cnode Pentry] in Hx. destruct Hx as [Hk Hv]. destruct k as [key|ke|x|se]; cbn [Pkey] in Hk.
      - pose proof (Hv sA sB fr Hs) as H1. step H1. destruct rA; cbn [omap obind]; try done.
        rewrite rec_insert_ren. apply IH; assumption.
      - pose proof (Hk sA sB fr Hs) as H1. step H1. destruct rA; cbn [omap obind]; try done.
        rewrite as_string_ren. destruct (as_string a); cbn [cast_fail]; try done.
        pose proof (Hv sA0 sB0 frA Hs0) as H2. step H2. destruct rA; cbn [omap obind]; try done.
        rewrite rec_insert_ren. apply IH; assumption.
      - cbn [snd]. rewrite lookup_ren. destruct (lookup fr x); cbn [option_map]; [|done].
        rewrite rec_insert_ren. apply IH; assumption.
      - pose proof (Hk sA sB fr Hs) as H1. step H1. destruct rA; cbn [omap obind]; try done.
        rewrite record_spread_entries_ren, rec_insert_all_ren. apply IH; assumption.
    Qed.
  End Gen.

  (* ---- evaluate_ast for a given FunctionDef::call ---- *)
  Section E.
    Variable applyA applyB : frames -> callback.
    Hypothesis Hap : forall fr, cb_eqv (applyA fr) (applyB (renFr fr)).
    Notation evA := (evalE release bi applyA).
    Notation evB := (evalE release bi applyB).

    Theorem evalE_sim : forall e, simS evA evB e.
    Proof.
      induction e using expr_ind';
        (split; [intros sA sB fr Hs|try (intros ? ? Heq; discriminate Heq)]); cbn [Eval.evalE].
      - done. - done. - done. - done.
      - (* EId *)
        destruct (String.eqb x "infinity" || String.eqb x "inf"); [done|].
        destruct (String.eqb x "constants"); [done|]. cbn [snd]. rewrite lookup_ren, of_option_ren. done.
      - (* EInRef *)
        cbn [snd]. rewrite lookup_ren. destruct (lookup fr "inputs") as [[]|]; cbn [option_map C02Ren.ren]; try done.
        fold (renF r). rewrite rec_get_ren. destruct (rec_get r x); done.
      - done.
      - (* EList *)
        assert (HF : Forall (fun cm => simR evA evB (cnode cm)) items).
        { eapply Forall_impl; [|eassumption]. intros a Ha; apply Ha. }
        pose proof (evalCL_sim evA evB items HF sA sB fr Hs) as H1. step H1.
        destruct rA; cbn [omap obind fst snd]; try done.
        rewrite flatten_spreads_ren. done.
      - (* ERec *)
        assert (HF : Forall (fun cm => Pentry (simR evA evB) (cnode cm)) entries).
        { eapply Forall_impl; [|eassumption]. intros [ld [k v] tr] Ha. cbn [cnode Pentry] in *.
          destruct Ha as [Hk Hv]. split; [|apply Hv]. destruct k; cbn [Pkey] in *; auto; apply Hk. }
        exact (evalRecL_sim evA evB entries HF sA sB fr [] Hs).
      - (* ELam *)
        cbn [snd fst]. unfold fresh_lambda.
        change (@nil (string * value)) with (renF []) at 2. rewrite capture_ren.
        split; [cbn [fst omap obind C02Ren.ren]; rewrite (sinv_len rho sA sB Hs); reflexivity|].
        split; [reflexivity|]. cbn [fst snd]. apply sinv_fresh; assumption.
      - (* ECond *)
        destruct IHe1 as [IH1 _], IHe2 as [IH2 _], IHe3 as [IH3 _].
        pose proof (IH1 sA sB fr Hs) as H1. step H1. destruct rA; cbn [omap obind]; try done.
        rewrite as_bool_ren. destruct (as_bool a) as [[|]| | | |]; cbn [cast_fail]; try done.
        + apply IH2; assumption.
        + apply IH3; assumption.
      - (* EDo *)
        match goal with HF : Forall _ stmts, HR : simS _ _ _ |- _ => rename HF into HFs; rename HR into HRet end.
        destruct ret as [ld rt tr]. cbn [cnode] in HRet. cbn [fst snd].
        match goal with |- context [evalDoL evA ?cA stmts] =>
          match goal with |- context [evalDoL evB ?cB stmts] =>
            assert (H1 : simG (fun u : unit => u) (evalDoL evA cA stmts) (evalDoL evB cB stmts))
              by exact (evalDoL_sim evA evB stmts HFs sA sB ((FOwned, []) :: fr) Hs) end end.
        step H1.
        destruct rA; cbn [omap obind cast_fail fst snd]; try done.
        pose proof (do_step_sim evA evB rt HRet sA0 sB0 frA Hs0) as H2. step H2.
        split; [reflexivity|split; [reflexivity|assumption]].
      - (* EAssign *)
        destruct IHe as [IH _].
        destruct (is_builtin_name x); [done|]. destruct (mem x assign_keywords); [done|].
        cbn [snd]. rewrite contains_ren. destruct (contains fr x); [done|].
        apply assign_checked_sim; assumption.
      - (* EAssign as a statement: its value expression *)
        intros x0 v0 Heq. inversion Heq; subst. apply IHe.
      - (* EOutput *) apply IHe; assumption.
      - (* ECall *)
        destruct IHe as [IH _].
        assert (HF : Forall (simR evA evB) args).
        { eapply Forall_impl; [|eassumption]. intros a Ha; apply Ha. }
        pose proof (IH sA sB fr Hs) as H1. step H1. destruct rA; cbn [omap obind]; try done.
        pose proof (evalL_sim evA evB args HF sA0 sB0 frA Hs0) as H2. step H2.
        destruct rA; cbn [omap obind cast_fail]; try done.
        rewrite is_function_ren. destruct (negb (is_function a)); [done|].
        rewrite flatten_spreads_ren.
        pose proof (Hap frA0 a a (flatten_spreads a0) sA1 sB1 Hs1) as H3. stepM H3. done.
      - (* EAccess *)
        destruct IHe1 as [IH1 _], IHe2 as [IH2 _].
        pose proof (IH1 sA sB fr Hs) as H1. step H1. destruct rA; cbn [omap obind]; try done.
        pose proof (IH2 sA0 sB0 frA Hs0) as H2. step H2. destruct rA; cbn [omap obind]; try done.
        rewrite access_val_ren. done.
      - (* EDot *)
        destruct IHe as [IH _].
        pose proof (IH sA sB fr Hs) as H1. step H1. destruct rA; cbn [omap obind]; try done.
        rewrite dot_val_ren. done.
      - (* EBin *)
        destruct IHe1 as [IH1 _], IHe2 as [IH2 _].
        pose proof (IH1 sA sB fr Hs) as H1. step H1. destruct rA; cbn [omap obind]; try done.
        pose proof (IH2 sA0 sB0 frA Hs0) as H2. step H2. destruct rA; cbn [omap obind]; try done.
        pose proof (Hbi _ _ (Hap frA0) op a a0 sA1 sB1 Hs1) as H3. stepM H3. done.
      - (* EUn *)
        destruct IHe as [IH _].
        pose proof (IH sA sB fr Hs) as H1. step H1. destruct rA; cbn [omap obind]; try done.
        destruct op; rewrite ?as_number_ren, ?as_bool_ren;
          [destruct (as_number a)|destruct (as_bool a)|destruct (as_bool a)]; done.
      - (* EFact *)
        destruct IHe as [IH _].
        pose proof (IH sA sB fr Hs) as H1. step H1. destruct rA; cbn [omap obind]; try done.
        rewrite as_number_ren. destruct (as_number a); cbn [cast_fail]; try done.
        unfold factorial_val. destruct (ngeb a0 nzero && neqb a0 (num_of_Z (as_u64 a0))); done.
      - (* ESpread *)
        destruct IHe as [IH _].
        pose proof (IH sA sB fr Hs) as H1. step H1. destruct rA; cbn [omap obind]; try done.
        rewrite spread_val_ren. done.
    Qed.
  End E.

  (* ---- FunctionDef::call ---- *)
  Lemma call_passed_sim : forall evA evB cbA cbB fr,
    (forall e, simR evA evB e) -> cb_eqv cbA cbB ->
    cb_eqv (call_passed bu evA cbA fr) (call_passed bu evB cbB (renFr fr)).
  Proof.
    intros evA evB cbA cbB fr Hev Hcb this f args sA sB Hs.
    destruct f; try (split; [reflexivity|assumption]).
    - (* lambda *)
      cbn [C02Ren.ren call_passed]. rewrite (proj1 Hs id). fold (renF scope).
      rewrite lookup_ren.
      set (selfA := match lam_name sA id with
                    | Some n => match lookup_frame scope n with Some _ => [] | None => [(n, this)] end
                    | None => [] end).
      assert (Eself : match lam_name sA id with
                      | Some n => match lookup_frame (renF scope) n with Some _ => [] | None => [(n, ren this)] end
                      | None => [] end = renF selfA).
      { unfold selfA. destruct (lam_name sA id) as [n|]; [|reflexivity].
        rewrite lookup_frame_ren. destruct (lookup_frame scope n); reflexivity. }
      rewrite Eself.
      (* F9 repaired: the caller's `inputs` only when the scope did not capture the name *)
      set (inpA := match lookup_frame scope "inputs" with
                   | Some _ => []
                   | None => match lookup fr "inputs" with Some i => [("inputs", i)] | None => [] end
                   end).
      assert (Einp : match lookup_frame (renF scope) "inputs" with
                     | Some _ => []
                     | None => match option_map ren (lookup fr "inputs") with Some i => [("inputs", i)] | None => [] end
                     end = renF inpA).
      { unfold inpA. rewrite lookup_frame_ren. destruct (lookup_frame scope "inputs"); [reflexivity|].
        cbn [option_map]. destruct (lookup fr "inputs"); reflexivity. }
      rewrite Einp, <- renF_app, bind_params_ren.
      destruct (bind_params args0 0 args (inpA ++ selfA)) as [local|]; cbn [option_map];
        [|split; [reflexivity|assumption]].
      match goal with |- context [evA ?cA body] =>
        match goal with |- context [evB ?cB body] =>
          assert (H1 : simG ren (evA cA body) (evB cB body)) end end.
      { destruct scope; exact (Hev body sA sB _ Hs). }
      step H1. split; [reflexivity|assumption].
    - (* built-in *) cbn [C02Ren.ren call_passed]. apply Hbu; assumption.
  Qed.

  Lemma check_arity_ren : forall f (args : list value),
    check_arity (ren f) (length (map ren args)) = check_arity f (length args).
  Proof. intros f args. unfold check_arity. rewrite map_length. apply accepts_ren. Qed.

  Lemma apply_at_sim : forall lowerA lowerB fr,
    match lowerA, lowerB with
    | None, None => True
    | Some (evA, cbA), Some (evB, cbB) => (forall e, simR evA evB e) /\ cb_eqv cbA cbB
    | _, _ => False
    end ->
    cb_eqv (apply_at bu lowerA fr) (apply_at bu lowerB (renFr fr)).
  Proof.
    intros lowerA lowerB fr Hl this f args sA sB Hs. unfold apply_at.
    rewrite check_arity_ren. destruct (negb (check_arity f (length args))); [split; [reflexivity|assumption]|].
    destruct lowerA as [[evA cbA]|], lowerB as [[evB cbB]|]; try contradiction.
    - destruct Hl as [Hev Hcb]. apply call_passed_sim; assumption.
    - split; [reflexivity|assumption].
  Qed.

  Lemma call_too_deep_sim : cb_eqv (fun _ f a s => call_too_deep f a s) (fun _ f a s => call_too_deep f a s).
  Proof.
    intros this f args sA sB Hs. unfold call_too_deep. rewrite check_arity_ren.
    destruct (check_arity f (length args)); (split; [reflexivity|assumption]).
  Qed.

  Notation ADn := (AD release bi bu).
  Lemma AD_sim2 : forall d,
    (forall fr, cb_eqv (ADn d fr) (ADn d (renFr fr))) /\
    (forall fr, cb_eqv (ADn (S d) fr) (ADn (S d) (renFr fr))).
  Proof.
    induction d as [|d [IH0 IH1]].
    - split; intros fr; cbn [AD].
      + apply apply_at_sim. exact I.
      + apply apply_at_sim. split; [|apply call_too_deep_sim].
        intros e. apply (evalE_sim (ADn 0) (ADn 0)). intros fr'. cbn [AD]. apply apply_at_sim. exact I.
    - split; [exact IH1|]. intros fr. cbn [AD]. apply apply_at_sim. split; [|apply IH0].
      intros e. apply (evalE_sim (ADn (S d)) (ADn (S d))). exact IH1.
  Qed.

  Theorem AD_sim : forall d fr, cb_eqv (ADn d fr) (ADn d (renFr fr)).
  Proof. intros d. exact (proj1 (AD_sim2 d)). Qed.

  (* STORE-EXTENSION INVARIANCE, every expression, every depth *)
  Theorem evalD_sim : forall d e sA sB fr, sinv sA sB ->
    simG ren (evalD release bi bu d (sA, fr) e) (evalD release bi bu d (sB, renFr fr) e).
  Proof.
    intros d e. unfold evalD. apply (evalE_sim (ADn d) (ADn d)). intros fr. apply AD_sim.
  Qed.
End Sim.
