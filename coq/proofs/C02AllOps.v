(* C02AllOps.v — the three hypotheses of C02's generic theorems for the COMPLETE operator table and
   built-in set (EvalAll.binop_all o / builtin_all o), for EVERY oracle record o:

     ops_wf_all      : ops_wf (binop_all o) (builtin_all o)          no hypothesis on o
     ops_nm_all      : ops_nm (binop_all o) (builtin_all o)          no hypothesis on o
     keep_*_all      : C02Keep's "the store moves only through the callback" (old cells untouched)
     ops_commute_all : lam_str_blind o -> ops_commute (binop_all o) (builtin_all o)

   All but one oracle field are functions of numbers / strings / a DisplayNum text: they cannot see a
   function-cell index.  The exception is [o_lam_str], the text of a function value, which is applied to the
   captured scope of the lambda — a list of VALUES, which mention cell indices (a captured function).  The
   commutation with renamings therefore needs exactly

     lam_str_blind o := forall injective rho, forall a b sc, o_lam_str o a b (renF rho sc) = o_lam_str o a b sc

   ("the text oracle is blind to cell indices").  It holds of every lookup-table oracle of AllRun.v
   ([lam_str_blind_tables]: AllRun.lam_of ignores the scope altogether) and of [oracle_trivial]; it is NECESSARY:
   [ops_commute_all_needs_blind] exhibits an oracle that prints the cell index of a captured function, for
   which to_string does not commute.

   The 17 new arms return a number, a string or null and touch neither the store nor the callback (wf, nm,
   keep); `^` is Binop.eval_binop with the oracle's powf, for which the arm lemmas of GenOps.v / C02Ops.v are
   already generic in powf.  The rest is builtin_full (C02OpsFull.v, C02Wf.v, C02Weak.v, C02Keep.v). *)
From Coq Require Import String Ascii List ZArith Bool Lia.
Require Import Blots.Num Blots.gen.Builtins Blots.Ast Blots.Value Blots.Outcome Blots.Binop
               Blots.Env Blots.Eval Blots.BuiltinsHof Blots.Program Blots.EvalInst Blots.EvalFull
               Blots.EvalAll
               Blots.proofs.ValueInd Blots.proofs.GenOps Blots.proofs.StoreMono
               Blots.proofs.C02Ren Blots.proofs.C02Sim Blots.proofs.C02Ops Blots.proofs.C02Keep
               Blots.proofs.C02Twice Blots.proofs.C02OpsFull Blots.proofs.C02Wf Blots.proofs.C02Weak.
Require Blots.BuiltinsList Blots.DisplayNum Blots.NumText.
Import ListNotations.
Open Scope list_scope.
Open Scope nat_scope.

(* ================= the new arms are pure and return atoms ================= *)
Lemma obind_ok_c02 : forall {A B} (m : outcome A) (f : A -> outcome B) v,
  obind m f = Ok v -> exists a, m = Ok a /\ f a = Ok v.
Proof. intros A B m f v H. destruct m; try discriminate H. eexists; split; [reflexivity|exact H]. Qed.
Ltac ob H := apply obind_ok_c02 in H; destruct H as [? [_ H]].
Ltac atom H :=
  repeat ob H;
  first [ injection H as <-; exact I
        | match type of H with match ?a with _ => _ end = _ => destruct a; injection H as <-; exact I end ].

(* either a pure arm of EvalAll.v returning an atom, or the arm of builtin_full *)
Lemma builtin_all_cases : forall o b,
  (exists f, (forall cb, builtin_all o cb b = pure_bi f) /\ (forall args v, f args = Ok v -> atomic v)) \/
  (forall cb, builtin_all o cb b = builtin_full cb b).
Proof.
  intros o b.
  destruct b; first [ right; intros cb; reflexivity
                    | left; eexists; split; [intros cb; reflexivity|]; intros args v H ].
  all: try (unfold num1 in H; atom H).
  all: try (unfold BuiltinsList.bi_trim in H; atom H).
  all: try (unfold BuiltinsList.bi_uppercase in H; atom H).
  all: try (unfold BuiltinsList.bi_lowercase in H; atom H).
  all: try (unfold bi_to_string_all in H; atom H).
  all: try (unfold bi_join_all in H; atom H).
  all: try (unfold bi_format in H; atom H).
  all: try (unfold bi_print in H; atom H).
  all: try (unfold bi_time_now in H; atom H).
Qed.

(* ================= ops_wf ================= *)
Lemma binop_all_wf : forall o, binop_wf (binop_all o).
Proof.
  intros o cb s0 Hcb op l r st res st' Hs0 Hl Hr H. unfold binop_all in H.
  destruct op; try exact (binop_impl_wf cb s0 Hcb _ l r st res st' Hs0 Hl Hr H).
  destruct (eval_binop_agree slen_le slen_refl slen_trans wfv wfv_mono wfv_VList wfv_atomic
              cb cb s0 (cb_agree_refl s0 cb) Hcb fn_accepts2_of_value (o_powf o) Power l r st Hs0 Hl Hr) as [_ Hpost].
  exact (Hpost _ _ H).
Qed.
Lemma builtin_all_wf : forall o, builtin_wf (builtin_all o).
Proof.
  intros o cb s0 Hcb b args st res st' Hs0 Ha H.
  destruct (builtin_all_cases o b) as [[f [Hf Hat]]|Hfull].
  - rewrite Hf in H. unfold pure_bi in H. injection H as E1 E2. subst st'.
    split; [apply slen_refl|]. intros v Ev. apply wfv_atomic. apply (Hat args v). rewrite E1. exact Ev.
  - rewrite Hfull in H. exact (builtin_full_wf cb s0 Hcb b args st res st' Hs0 Ha H).
Qed.
Theorem ops_wf_all : forall o, ops_wf (binop_all o) (builtin_all o).
Proof. intros o. split; [apply binop_all_wf|apply builtin_all_wf]. Qed.

(* ================= ops_nm ================= *)
Lemma binop_all_nm : forall o x, binop_nm x (binop_all o).
Proof.
  intros o x cb1 cb2 Hag Hcl op l r st Hl Hr. unfold binop_all.
  destruct op; try exact (binop_impl_nm x cb1 cb2 Hag Hcl _ l r st Hl Hr).
  destruct (eval_binop_agree anyS anyS_refl anyS_trans (Pp x) (Pp_mono x) (Pp_VList x) (Pp_atomic x)
              cb1 cb2 st (cb_agr_gen x _ _ st Hag) (cb_nm_gen x _ st Hcl)
              fn_accepts2_of_value (o_powf o) Power l r st I Hl Hr) as [Heq Hpost].
  split; [exact Heq|intros res st' E v Ev; destruct (Hpost _ _ E) as [_ Hv]; exact (Hv v Ev)].
Qed.
Lemma builtin_all_nm : forall o x, builtin_nm x (builtin_all o).
Proof.
  intros o x cb1 cb2 Hag Hcl b args st Ha.
  destruct (builtin_all_cases o b) as [[f [Hf Hat]]|Hfull].
  - rewrite !Hf. split; [reflexivity|]. intros res st' E v Ev. unfold pure_bi in E. injection E as E1 E2.
    apply vok_atomic. apply (Hat args v). rewrite E1. exact Ev.
  - rewrite !Hfull. exact (builtin_full_nm x cb1 cb2 Hag Hcl b args st Ha).
Qed.
Theorem ops_nm_all : forall o, ops_nm (binop_all o) (builtin_all o).
Proof. intros o x. split; [apply binop_all_nm|apply builtin_all_nm]. Qed.

(* ================= old cells untouched (C02Keep.v) ================= *)
Lemma keep_binop_all_mono : forall o, Keep.binop_mono (binop_all o).
Proof.
  intros o cb Hcb op l r st res st' H. unfold binop_all in H.
  destruct op; try exact (Keep.binop_impl_mono cb Hcb _ l r st res st' H).
  eapply (eval_binop_R store Keep.store_le Keep.store_le_refl Keep.store_le_trans cb Hcb); exact H.
Qed.
Lemma keep_builtin_all_mono : forall o, Keep.builtin_mono (builtin_all o).
Proof.
  intros o cb Hcb b args st res st' H.
  destruct (builtin_all_cases o b) as [[f [Hf _]]|Hfull].
  - rewrite Hf in H. eapply Keep.pure_bi_mono; exact H.
  - rewrite Hfull in H. exact (Keep.builtin_full_mono cb Hcb b args st res st' H).
Qed.
Theorem evalD_store_keep_all : forall o release d c e r c',
  evalD release (binop_all o) (builtin_all o) d c e = (r, c') -> store_keep (fst c) (fst c').
Proof.
  intros o release d.
  exact (Keep.evalD_store_le release (binop_all o) (builtin_all o) (keep_binop_all_mono o) (keep_builtin_all_mono o) d).
Qed.

(* ================= ops_commute ================= *)
(* THE HYPOTHESIS ON THE ORACLE: the text of a function value does not depend on the cell indices its captured
   scope mentions *)
Definition lam_str_blind (o : oracle) : Prop :=
  forall rho, (forall a b : nat, rho a = rho b -> a = b) ->
    forall a b sc, o_lam_str o a b (renF rho sc) = o_lam_str o a b sc.

Section AllSim.
  Variable o : oracle.
  Variable rho : nat -> nat.
  Hypothesis rho_inj : forall a b, rho a = rho b -> a = b.
  Hypothesis Hblind : forall a b sc, o_lam_str o a b (renF rho sc) = o_lam_str o a b sc.
  Notation ren := (ren rho).
  Notation oren := (oren rho).
  Notation Mfun := (Mfun rho).
  Notation cb_eqv := (cb_eqv rho).

  Section Str.
    Variable num_str : num -> string.
    Variable w : bool.
    Notation S := (BuiltinsList.stringify num_str (o_lam_str o) w).
    Notation FS := (fun kv : string * value => (fst kv ++ ": " ++ S (snd kv))%string).

    Definition parts_ren (v : value) : Prop :=
      match v with
      | VList l => map S (map ren l) = map S l
      | VRec r => map FS (renF rho r) = map FS r
      | _ => True
      end.

    Lemma stringify_ren_parts : forall v, S (ren v) = S v /\ parts_ren v.
    Proof.
      induction v using value_ind'; try (split; [reflexivity|exact I]).
      - (* list *)
        assert (Hm : map S (map ren l) = map S l).
        { induction H as [|x l Hx Hl IH]; [reflexivity|]. cbn [map]. rewrite (proj1 Hx), IH. reflexivity. }
        split; [cbn [C02Ren.ren BuiltinsList.stringify]; rewrite Hm; reflexivity|exact Hm].
      - (* record *)
        assert (Hm : map FS (renF rho r) = map FS r).
        { induction H as [|[k x] r Hx Hr IH]; [reflexivity|]. cbn [renF map fst snd] in *.
          rewrite (proj1 Hx). f_equal. exact IH. }
        split; [rewrite ren_VRec; cbn [BuiltinsList.stringify]; rewrite Hm; reflexivity|exact Hm].
      - (* function *)
        split; [|exact I]. rewrite ren_VLam. cbn [BuiltinsList.stringify]. apply Hblind.
      - (* spread *)
        destruct IHv as [_ Hp]. split; [|exact I].
        destruct v; try reflexivity; cbn [parts_ren] in Hp.
        + cbn [C02Ren.ren BuiltinsList.stringify]. rewrite Hp. reflexivity.
        + change (C02Ren.ren rho (VSpread (VRec r))) with (VSpread (VRec (renF rho r))).
          cbn [BuiltinsList.stringify]. rewrite Hp. reflexivity.
    Qed.
    Lemma stringify_ren : forall v, S (ren v) = S v.
    Proof. intros v. exact (proj1 (stringify_ren_parts v)). Qed.
    Lemma map_stringify_ren : forall l, map S (map ren l) = map S l.
    Proof. intros l. exact (proj2 (stringify_ren_parts (VList l))). Qed.
  End Str.

  Lemma stringify_internal_all_ren : forall v, stringify_internal_all o (ren v) = stringify_internal_all o v.
  Proof. intros v. unfold stringify_internal_all. apply stringify_ren. Qed.

  Lemma nums_in_ren : forall v, nums_in (ren v) = nums_in v.
  Proof.
    induction v using value_ind'; try reflexivity.
    - cbn [C02Ren.ren nums_in]. induction H as [|x l Hx Hl IH]; [reflexivity|].
      cbn [map flat_map]. rewrite Hx, IH. reflexivity.
    - rewrite ren_VRec. cbn [nums_in]. induction H as [|[k x] r Hx Hr IH]; [reflexivity|].
      cbn [renF map flat_map fst snd] in *. rewrite Hx. f_equal. exact IH.
    - cbn [C02Ren.ren nums_in]. exact IHv.
  Qed.
  Lemma stringify_display_all_ren : forall v, stringify_display_all o (ren v) = stringify_display_all o v.
  Proof.
    intros v. unfold stringify_display_all, display_panics. rewrite nums_in_ren, stringify_ren. reflexivity.
  Qed.

  Lemma barg_ren : forall l i, BuiltinsList.arg (map ren l) i = omap ren (BuiltinsList.arg l i).
  Proof. exact (arg_ren rho). Qed.
  Lemma bas_string_ren : forall v, BuiltinsList.as_string (ren v) = BuiltinsList.as_string v.
  Proof. destruct v; reflexivity. Qed.

  Lemma str1_ren : forall (g : string -> string) args,
    (do a0 <- BuiltinsList.arg (map ren args) 0; do s <- BuiltinsList.as_string a0; Ok (VStr (g s))) =
    oren (do a0 <- BuiltinsList.arg args 0; do s <- BuiltinsList.as_string a0; Ok (VStr (g s))).
  Proof.
    intros g args. rewrite barg_ren. destruct (BuiltinsList.arg args 0) as [a| | | |]; try reflexivity.
    cbn [omap obind]. rewrite bas_string_ren. destruct (BuiltinsList.as_string a); reflexivity.
  Qed.

  Lemma to_string_arm_ren : forall a,
    (match ren a with VStr _ => Ok (ren a) | _ => Ok (VStr (stringify_internal_all o (ren a))) end) =
    oren (match a with VStr _ => Ok a | _ => Ok (VStr (stringify_internal_all o a)) end).
  Proof. intros a. rewrite stringify_internal_all_ren. destruct a; reflexivity. Qed.
  Lemma bi_to_string_all_ren : forall args, bi_to_string_all o (map ren args) = oren (bi_to_string_all o args).
  Proof.
    intros args. unfold bi_to_string_all. rewrite arg_ren. destruct (arg args 0) as [a| | | |]; try reflexivity.
    cbn [omap obind]. apply to_string_arm_ren.
  Qed.
  Lemma bi_join_all_ren : forall args, bi_join_all o (map ren args) = oren (bi_join_all o args).
  Proof.
    intros args. unfold bi_join_all. rewrite !arg_ren.
    destruct (arg args 1) as [a1| | | |]; try reflexivity. cbn [omap obind].
    rewrite as_string_ren. destruct (as_string a1) as [dl| | | |]; try reflexivity. cbn [omap obind].
    destruct (arg args 0) as [a0| | | |]; try reflexivity. cbn [omap obind].
    rewrite as_list_ren. destruct (as_list a0) as [l| | | |]; try reflexivity. cbn [omap obind].
    unfold stringify_internal_all. rewrite map_stringify_ren. reflexivity.
  Qed.
  Lemma slice_from_ren : forall (l : list value) n, slice_from (map ren l) n = omap (map ren) (slice_from l n).
  Proof.
    intros l n. unfold slice_from. rewrite map_length. destruct (Nat.leb n (length l)); [|reflexivity].
    cbn [omap]. rewrite skipn_map. reflexivity.
  Qed.
  Lemma mapM_display_ren : forall l, mapM (stringify_display_all o) (map ren l) = mapM (stringify_display_all o) l.
  Proof.
    induction l as [|x l IH]; [reflexivity|]. cbn [map mapM]. rewrite stringify_display_all_ren, IH. reflexivity.
  Qed.
  Lemma bi_format_ren : forall args, bi_format o (map ren args) = oren (bi_format o args).
  Proof.
    intros args. unfold bi_format. rewrite arg_ren.
    destruct (arg args 0) as [a0| | | |]; try reflexivity. cbn [omap obind].
    rewrite as_string_ren. destruct (as_string a0) as [fs| | | |]; try reflexivity. cbn [omap obind].
    rewrite slice_from_ren. destruct (slice_from args 1) as [rest| | | |]; try reflexivity. cbn [omap obind].
    rewrite mapM_display_ren. destruct (mapM (stringify_display_all o) rest) as [fa| | | |]; try reflexivity.
    cbn [omap obind]. destruct (dyn_format fs fa); reflexivity.
  Qed.
  Lemma print_line_ren : forall args, print_line o (map ren args) = print_line o args.
  Proof.
    intros args.
    assert (Hgen : (do a0 <- arg (map ren args) 0; do format_str <- as_string a0;
                    do rest <- slice_from (map ren args) 1;
                    dyn_format format_str (map (stringify_internal_all o) rest)) =
                   (do a0 <- arg args 0; do format_str <- as_string a0;
                    do rest <- slice_from args 1;
                    dyn_format format_str (map (stringify_internal_all o) rest))).
    { rewrite arg_ren. destruct (arg args 0) as [a0| | | |]; try reflexivity. cbn [omap obind].
      rewrite as_string_ren. destruct (as_string a0) as [fs| | | |]; try reflexivity. cbn [omap obind].
      rewrite slice_from_ren. destruct (slice_from args 1) as [rest| | | |]; try reflexivity. cbn [omap obind].
      unfold stringify_internal_all. rewrite map_stringify_ren. reflexivity. }
    destruct args as [|x [|y r]]; try exact Hgen.
    unfold print_line. cbn [map BuiltinsHof.arg nth_error omap obind].
    rewrite stringify_internal_all_ren. reflexivity.
  Qed.
  Lemma bi_print_ren : forall args, bi_print o (map ren args) = oren (bi_print o args).
  Proof. intros args. unfold bi_print. rewrite print_line_ren. destruct (print_line o args); reflexivity. Qed.

  Theorem binop_all_sim : forall cbA cbB, cb_eqv cbA cbB ->
    forall op l r, Mfun ren (binop_all o cbA op l r) (binop_all o cbB op (ren l) (ren r)).
  Proof.
    intros cbA cbB Hcb op l r. unfold binop_all.
    destruct op; try (apply binop_impl_sim; assumption).
    apply eval_binop_sim; [assumption|apply fn_accepts2_ren].
  Qed.

  Theorem builtin_all_sim : forall cbA cbB, cb_eqv cbA cbB ->
    forall b args, Mfun ren (builtin_all o cbA b args) (builtin_all o cbB b (map ren args)).
  Proof.
    intros cbA cbB Hcb b args.
    destruct b; cbn [builtin_all];
      try (apply builtin_full_sim; assumption);
      apply (pure_bi_Mfun rho);
      first [ apply num1_ren | apply str1_ren | apply bi_to_string_all_ren | apply bi_join_all_ren
            | apply bi_format_ren | apply bi_print_ren | reflexivity ].
  Qed.
End AllSim.

Theorem ops_commute_all : forall o, lam_str_blind o -> ops_commute (binop_all o) (builtin_all o).
Proof.
  intros o Hb rho Hinj. split.
  - apply binop_all_sim.
  - apply builtin_all_sim; first [exact Hinj|exact (Hb rho Hinj)].
Qed.
