(* NestedFix.v — C09, formatter.rs with fixes/C09-nested-comments.diff (o_keep_nested_comments =
   true): every expression the formatter prints through expr_to_source / format_single_line is
   comment-free, hence (Comments.fmtd_comments_preserved) the document shows every comment of the
   AST — the exclusion of known finding C09-opaque-nested disappears. *)
From Coq Require Import String Ascii List ZArith Bool Lia.
Require Import Blots.Num Blots.gen.Builtins Blots.Ast Blots.Formatter Blots.proofs.ExprInd
  Blots.proofs.Comments.
Import ListNotations.
Open Scope list_scope.

(* ------------------------------------------------------------------ contains_comments is exact enough *)
Lemma app_nil_all : forall (l : list (list string)), Forall (fun x => x = []) l -> concat l = [].
Proof. induction 1 as [|x r Hx Hr IH]; [reflexivity|]. cbn. now rewrite Hx, IH. Qed.

Lemma has_comments_false : forall {A} (c : commented A),
  has_comments c = false -> cleading c = [] /\ ctrailing c = None.
Proof.
  intros A [l n t] H. unfold has_comments in H. cbn in *.
  destruct l; destruct t; cbn in H; try discriminate. split; reflexivity.
Qed.

Lemma contains_comments_false : forall e, contains_comments e = false -> expr_comments e = [].
Proof.
  apply (expr_ind' (fun e => contains_comments e = false -> expr_comments e = [])); try reflexivity.
  - (* EList *)
    intros items H Hc. cbn [contains_comments expr_comments] in *.
    induction items as [|[l n t] r IH]; [reflexivity|].
    inversion H as [|? ? Hn Hr]; subst. cbn [existsb] in Hc.
    apply orb_false_iff in Hc as [Hc Hcr]. apply orb_false_iff in Hc as [Hh Hn'].
    apply has_comments_false in Hh as [Hl Ht]. cbn in Hl, Ht, Hn, Hn'. subst l t.
    cbn [items_comments trailing_comments]. rewrite (Hn Hn'), (IH Hr Hcr). reflexivity.
  - (* ERec *)
    intros entries H Hc. cbn [contains_comments expr_comments] in *.
    induction entries as [|[l [k v] t] r IH]; [reflexivity|].
    inversion H as [|? ? Hn Hr]; subst. cbn [existsb] in Hc.
    apply orb_false_iff in Hc as [Hc Hcr]. apply orb_false_iff in Hc as [Hh Hn'].
    apply has_comments_false in Hh as [Hl Ht]. cbn in Hl, Ht. subst l t.
    cbn [entries_comments trailing_comments cnode] in *. rewrite (IH Hr Hcr).
    cbn [Pentry Pkey] in Hn. destruct Hn as [Hk Hv].
    destruct k; cbn [entry_comments] in *.
    + rewrite (Hv Hn'). reflexivity.
    + apply orb_false_iff in Hn' as [A B]. rewrite (Hk A), (Hv B). reflexivity.
    + reflexivity.
    + apply orb_false_iff in Hn' as [A B]. rewrite (Hk A). reflexivity.
  - (* ELam *) intros args body IH Hc. cbn in *. now apply IH.
  - (* ECond *)
    intros c t f Hc' Ht' Hf' Hc. cbn [contains_comments expr_comments] in *.
    apply orb_false_iff in Hc as [Hc Hf]. apply orb_false_iff in Hc as [Hc Ht].
    now rewrite (Hc' Hc), (Ht' Ht), (Hf' Hf).
  - (* EDo *)
    intros stmts [rl rn rt] H Hr Hc. cbn [contains_comments expr_comments cnode] in *.
    apply orb_false_iff in Hc as [Hc Hrn]. apply orb_false_iff in Hc as [Hs Hh].
    apply has_comments_false in Hh as [Hl Ht]. cbn in Hl, Ht. subst rl rt.
    rewrite (Hr Hrn). cbn [trailing_comments]. rewrite !app_nil_r.
    clear Hr Hrn. induction stmts as [|[l n t] r IH]; [reflexivity|].
    inversion H as [|? ? Hn Hr']; subst. cbn [existsb] in Hs.
    apply orb_false_iff in Hs as [Hc Hcr]. apply orb_false_iff in Hc as [Hh Hn'].
    apply has_comments_false in Hh as [Hl Ht]. cbn in Hl, Ht, Hn, Hn'. subst l t.
    cbn [items_comments trailing_comments]. rewrite (Hn Hn'), (IH Hr' Hcr). reflexivity.
  - (* EAssign *) intros x v IH Hc. cbn in *. now apply IH.
  - (* EOutput *) intros v IH Hc. cbn in *. now apply IH.
  - (* ECall *)
    intros f args Hf H Hc. cbn [contains_comments expr_comments] in *.
    apply orb_false_iff in Hc as [Hcf Hca]. rewrite (Hf Hcf). cbn [app].
    induction args as [|a r IH]; [reflexivity|].
    inversion H as [|? ? Ha Hr]; subst. cbn [existsb] in Hca. apply orb_false_iff in Hca as [A B].
    cbn [flat_map]. now rewrite (Ha A), (IH Hr B).
  - (* EAccess *)
    intros a i Ha Hi Hc. cbn [contains_comments expr_comments] in *.
    apply orb_false_iff in Hc as [A B]. now rewrite (Ha A), (Hi B).
  - (* EDot *) intros a f IH Hc. cbn in *. now apply IH.
  - (* EBin *)
    intros op l r Hl Hr Hc. cbn [contains_comments expr_comments] in *.
    apply orb_false_iff in Hc as [A B]. now rewrite (Hl A), (Hr B).
  - (* EUn *) intros op a IH Hc. cbn in *. now apply IH.
  - (* EFact *) intros a IH Hc. cbn in *. now apply IH.
  - (* ESpread *) intros a IH Hc. cbn in *. now apply IH.
Qed.

Lemma contains_comments_cfree : forall e, contains_comments e = false -> cfree e = true.
Proof. intros e H. unfold cfree. now rewrite (contains_comments_false e H). Qed.

(* ------------------------------------------------------------------ opaque pieces are comment-free *)
Definition Qc (p : piece) : Prop := match p with Opaque e _ => cfree e = true | _ => True end.
Definition OC (d : doc) : Prop := Forall Qc d.

Lemma OC_app : forall a b, OC (a ++ b) <-> OC a /\ OC b.
Proof. intros; unfold OC; apply Forall_app. Qed.
Lemma OC_app_i : forall a b, OC a -> OC b -> OC (a ++ b).
Proof. intros; apply OC_app; now split. Qed.
Lemma OC_code : forall s, OC [Code s].
Proof. intros; repeat constructor. Qed.
Lemma OC_plain : forall d, (forall p, In p d -> match p with Opaque _ _ => False | _ => True end) -> OC d.
Proof. intros d H. apply Forall_forall. intros p Hp. specialize (H p Hp). destruct p; try exact I. contradiction. Qed.

Lemma OC_dcomment_lines : forall l, OC (dcomment_lines l).
Proof.
  induction l as [|c r IH]; [constructor|]. destruct r; [repeat constructor|].
  change (dcomment_lines (c :: s :: r)) with (Comment c :: Nl :: dcomment_lines (s :: r)).
  repeat constructor. exact IH.
Qed.
Lemma OC_trailing : forall tr, OC (trailing_doc tr).
Proof. intros [t|]; [|constructor]. cbn. constructor; [exact I|apply OC_dcomment_lines]. Qed.
Lemma OC_leading : forall i l, OC (leading_doc i l).
Proof.
  intros i l. induction l as [|c r IH]; [constructor|]. unfold leading_doc in *. cbn [flat_map].
  apply OC_app_i; [repeat constructor|exact IH].
Qed.
Lemma OC_wrap : forall b d, OC d -> OC (wrap_parens b d).
Proof. intros [] d H; [|exact H]. unfold wrap_parens. repeat apply OC_app_i; auto using OC_code. Qed.
Lemma OC_protect : forall d b, OC d -> OC (protect_minus d b).
Proof.
  intros d b H. unfold protect_minus. destruct (negb b && starts_with_minus (render d)); [|exact H].
  repeat apply OC_app_i; auto using OC_code.
Qed.
Lemma OC_lits : forall d, (forallb (fun p => match p with Opaque _ _ => false | _ => true end) d = true) -> OC d.
Proof.
  intros d H. apply OC_plain. rewrite forallb_forall in H. intros p Hp. specialize (H p Hp).
  destruct p; try exact I. discriminate.
Qed.

Ltac oc :=
  repeat first
    [ assumption
    | apply OC_leading | apply OC_trailing | apply OC_code
    | apply OC_wrap | apply OC_protect
    | apply OC_lits; reflexivity
    | apply OC_app_i ].

Section Layouts.
  Variable O : oracles.
  Variable w : nat.
  Variable rec : expr -> nat -> doc.
  Definition RO (x : expr) : Prop := forall j, OC (rec x j).

  Lemma list_items_OC : forall l inner, Forall (fun c => RO (cnode c)) l -> OC (list_items_doc rec l inner).
  Proof.
    induction l as [|[lead n tr] r IH]; intros inner H; [constructor|].
    inversion H as [|? ? Hn Hr]; subst. cbn [cnode] in Hn. cbn [list_items_doc].
    specialize (IH inner Hr). specialize (Hn inner). oc.
  Qed.
  Lemma list_doc_OC : forall items i, Forall (fun c => RO (cnode c)) items -> OC (list_doc rec items i).
  Proof.
    intros items i H. destruct items; [apply OC_code|]. unfold list_doc.
    pose proof (list_items_OC _ (i + INDENT_SIZE) H). oc.
  Qed.

  Definition RO_entry (r : rentry) : Prop :=
    match r with
    | REntry (KStatic _) v => RO v
    | REntry (KDyn k) v => RO k /\ RO v
    | REntry (KShort _) _ => True
    | REntry (KSpread x) _ => RO x
    end.
  Lemma entry_doc_OC : forall r i, RO_entry r -> OC (entry_doc O rec r i).
  Proof.
    intros [[k|k|n|x] v] i H; cbn [entry_doc RO_entry] in *.
    - change (Code (o_record_key O k +++ ": ") :: rec v i) with ([Code (o_record_key O k +++ ": ")] ++ rec v i).
      specialize (H i). oc.
    - destruct H as [Hk Hv]. specialize (Hk i). specialize (Hv i). oc.
    - apply OC_code.
    - apply H.
  Qed.
  Lemma rec_entries_OC : forall l inner, Forall (fun c => RO_entry (cnode c)) l -> OC (rec_entries_doc O rec l inner).
  Proof.
    induction l as [|[lead n tr] r IH]; intros inner H; [constructor|].
    inversion H as [|? ? Hn Hr]; subst. cbn [cnode] in Hn. cbn [rec_entries_doc].
    specialize (IH inner Hr). pose proof (entry_doc_OC n inner Hn). oc.
  Qed.
  Lemma record_doc_OC : forall entries i, Forall (fun c => RO_entry (cnode c)) entries -> OC (record_doc O rec entries i).
  Proof.
    intros entries i H. destruct entries; [apply OC_code|]. unfold record_doc.
    pose proof (rec_entries_OC _ (i + INDENT_SIZE) H). oc.
  Qed.

  Lemma lambda_doc_OC : forall args body i, RO body -> OC (lambda_doc O w rec args body i).
  Proof.
    intros args body i H. unfold lambda_doc. cbv zeta.
    pose proof (H i). pose proof (H (i + INDENT_SIZE)).
    destruct (is_do body); [oc|].
    match goal with |- context [if ?b then _ else _] => destruct b end; oc.
  Qed.

  Lemma do_stmts_OC : forall l inner first, Forall (fun c => RO (cnode c)) l -> OC (do_stmts_doc rec l inner first).
  Proof.
    induction l as [|[lead n tr] r IH]; intros inner first H; [constructor|].
    inversion H as [|? ? Hn Hr]; subst. cbn [cnode] in Hn. cbn [do_stmts_doc].
    specialize (IH inner false Hr). specialize (Hn inner). oc.
  Qed.
  Lemma do_doc_OC : forall stmts ret i, Forall (fun c => RO (cnode c)) stmts -> RO (cnode ret) -> OC (do_doc rec stmts ret i).
  Proof.
    intros stmts ret i Hs Hr. unfold do_doc. cbv zeta.
    pose proof (do_stmts_OC _ (i + INDENT_SIZE) true Hs). specialize (Hr (i + INDENT_SIZE)). oc.
  Qed.

  Lemma call_doc_OC : forall f args i, RO f -> Forall RO args -> OC (call_doc O rec f args i).
  Proof.
    intros f args i Hf Ha. unfold call_doc. cbv zeta. pose proof (Hf i).
    assert (A : OC (flat_map (fun a0 => [Nl; ind (i + INDENT_SIZE)] ++ rec a0 (i + INDENT_SIZE) ++ [Code ","]) args)).
    { induction Ha as [|x l Hx Hl IH]; [constructor|]. cbn [flat_map]. specialize (Hx (i + INDENT_SIZE)). oc. }
    destruct args as [|a r]; oc.
  Qed.

  Lemma binop_doc_OC : forall op l r i, RO l -> RO r -> OC (binop_doc O w rec op l r i).
  Proof.
    intros op l r i Hl Hr. unfold binop_doc. cbv zeta.
    pose proof (Hl i). pose proof (Hr i). pose proof (Hr (i + INDENT_SIZE)).
    repeat match goal with |- context [if ?b then _ else _] =>
      lazymatch b with
      | o_needs_parens _ _ _ _ => fail
      | _ => destruct b
      end end; oc.
  Qed.

  Definition cond_OC (el : expr) : Prop :=
    forall fc ft i, (forall j, OC (fc j)) -> (forall j, OC (ft j)) -> OC (cond_doc w rec fc ft el i).
  Lemma cond_doc_step_OC : forall el,
    RO el ->
    (forall c2 t2 e2, el = ECond c2 t2 e2 -> RO c2 /\ RO t2 /\ cond_OC e2) ->
    cond_OC el.
  Proof.
    intros el Hel Hsub fc ft i Hc Ht.
    pose proof (Hc i). pose proof (Hc (i + INDENT_SIZE)). pose proof (Ht (i + INDENT_SIZE)).
    pose proof (Hel (i + INDENT_SIZE)).
    assert (D : (exists c2 t2 e2, el = ECond c2 t2 e2) \/ (forall c2 t2 e2, el <> ECond c2 t2 e2))
      by (destruct el; try (right; intros; discriminate); left; eauto).
    destruct D as [(c2 & t2 & e2 & ->) | NC].
    - destruct (Hsub _ _ _ eq_refl) as (K1 & K2 & K3). pose proof (K3 _ _ i K1 K2).
      cbn [cond_doc]; cbv zeta.
      match goal with |- context [if ?b then _ else _] => destruct b end; oc.
    - destruct el; try (exfalso; eapply NC; reflexivity); cbn [cond_doc]; cbv zeta;
        (match goal with |- context [if ?b then _ else _] => destruct b end; oc).
  Qed.
End Layouts.

Section Fmt.
  Variable O : oracles.
  Hypothesis Hkeep : o_keep_nested_comments O = true.
  Variable w : nat.
  Let fmtd := fmtd O w.

  Lemma fmtd_eq2 : forall e i, fmtd e i = impl_doc O w fmtd e i.
  Proof. intros; apply fmtd_eq. Qed.

  Definition P (e : expr) : Prop := RO fmtd e.
  Definition PC (e : expr) : Prop := cond_OC w fmtd e.

  Lemma OC_opaque : forall e s, contains_comments e = false -> OC [Opaque e s].
  Proof. intros e s H. constructor; [now apply contains_comments_cfree|constructor]. Qed.

  (* the two places where an expression is printed opaquely *)
  Ltac single_or_multi :=
    rewrite fmtd_eq2; unfold impl_doc; rewrite Hkeep; cbn [andb];
    destruct (contains_comments _) eqn:CC;
    [ rewrite andb_false_r | rewrite andb_true_r; destruct (fits_single _ _ _ _); [now apply OC_opaque|] ].

  Ltac leaf :=
    match goal with |- P ?e /\ PC ?e =>
      let HP := fresh "HP" in
      assert (HP : P e) by
        (intros ?; rewrite fmtd_eq2; unfold impl_doc; cbn [multiline_doc contains_comments];
         rewrite ?andb_false_r; cbn [negb andb];
         repeat match goal with |- context [if ?b then _ else _] => destruct b end;
         now apply OC_opaque);
      split; [exact HP | apply cond_doc_step_OC; [exact HP | intros; discriminate]]
    end.
  Ltac finish HP := split; [exact HP | apply cond_doc_step_OC; [exact HP | intros; discriminate]].

  Lemma fmtd_opaque_cfree_and_cond : forall e, P e /\ PC e.
  Proof.
    apply expr_ind'.
    - intros; leaf.
    - intros; leaf.
    - intros; leaf.
    - leaf.
    - intros; leaf.
    - intros; leaf.
    - intros; leaf.
    - (* EList *)
      intros items H.
      assert (HP : P (EList items)).
      { intros i. single_or_multi; cbn [multiline_doc]; apply list_doc_OC;
          rewrite Forall_forall in *; intros c Hc; apply (H c Hc). }
      finish HP.
    - (* ERec *)
      intros entries H.
      assert (HP : P (ERec entries)).
      { assert (HE : Forall (fun c => RO_entry fmtd (cnode c)) entries).
        { rewrite Forall_forall in *. intros c Hc. specialize (H c Hc).
          destruct c as [lead [k v] tr]; cbn [cnode Pentry Pkey RO_entry] in *.
          destruct k; cbn [Pkey] in H; [apply H| |exact I|].
          - destruct H as [[Hk _] [Hv _]]. split; auto.
          - destruct H as [[Hx _] _]. exact Hx. }
        intros i. single_or_multi; cbn [multiline_doc]; now apply record_doc_OC. }
      finish HP.
    - (* ELam *)
      intros args body [IHb _].
      assert (HP : P (ELam args body)).
      { intros i. rewrite fmtd_eq2. cbn [impl_doc]. now apply lambda_doc_OC. }
      finish HP.
    - (* ECond *)
      intros e1 e2 e3 [P1 _] [P2 _] [P3 PC3].
      assert (HP : P (ECond e1 e2 e3)).
      { intros i. single_or_multi; cbn [multiline_doc]; apply PC3; assumption. }
      split; [exact HP|]. apply cond_doc_step_OC; [exact HP|].
      intros c2 t2 e2' Heq; injection Heq as <- <- <-. repeat split; assumption.
    - (* EDo *)
      intros stmts ret H [IHr _].
      assert (HP : P (EDo stmts ret)).
      { intros i. rewrite fmtd_eq2. cbn [impl_doc multiline_doc]. apply do_doc_OC; [|exact IHr].
        rewrite Forall_forall in *. intros c Hc. apply (H c Hc). }
      finish HP.
    - (* EAssign *)
      intros x v [IHv _].
      assert (HP : P (EAssign x v)).
      { intros i. single_or_multi; cbn [multiline_doc];
          (change (Code (x +++ " = ") :: fmtd v i) with ([Code (x +++ " = ")] ++ fmtd v i);
           pose proof (IHv i); oc). }
      finish HP.
    - (* EOutput *)
      intros v [IHv _].
      assert (HP : P (EOutput v)).
      { intros i. single_or_multi; cbn [multiline_doc];
          (change (Code "output " :: fmtd v i) with ([Code "output "] ++ fmtd v i);
           pose proof (IHv i); oc). }
      finish HP.
    - (* ECall *)
      intros f args [IHf _] H.
      assert (HP : P (ECall f args)).
      { assert (HA : Forall (RO fmtd) args).
        { rewrite Forall_forall in *. intros a Ha. apply (H a Ha). }
        intros i. single_or_multi; cbn [multiline_doc]; now apply call_doc_OC. }
      finish HP.
    - (* EAccess *)
      intros a ix [IHa _] [IHi _].
      assert (HP : P (EAccess a ix)).
      { intros i. single_or_multi; cbn [multiline_doc]; rewrite Hkeep, CC; cbn [andb].
        - pose proof (IHa i). pose proof (IHi i). oc.
        - now apply OC_opaque. }
      finish HP.
    - (* EDot *)
      intros a f [IHa _].
      assert (HP : P (EDot a f)).
      { intros i. single_or_multi; cbn [multiline_doc]; rewrite Hkeep, CC; cbn [andb].
        - pose proof (IHa i). oc.
        - now apply OC_opaque. }
      finish HP.
    - (* EBin *)
      intros op e1 e2 [IH1 _] [IH2 _].
      assert (HP : P (EBin op e1 e2)).
      { intros i. single_or_multi; cbn [multiline_doc]; now apply binop_doc_OC. }
      finish HP.
    - (* EUn *)
      intros op x [IHx _].
      assert (HP : P (EUn op x)).
      { intros i. single_or_multi; cbn [multiline_doc]; rewrite Hkeep, CC; cbn [andb].
        - pose proof (IHx i). oc.
        - now apply OC_opaque. }
      finish HP.
    - (* EFact *)
      intros x [IHx _].
      assert (HP : P (EFact x)).
      { intros i. single_or_multi; cbn [multiline_doc]; rewrite Hkeep, CC; cbn [andb].
        - pose proof (IHx i). oc.
        - now apply OC_opaque. }
      finish HP.
    - (* ESpread *)
      intros x [IHx _].
      assert (HP : P (ESpread x)).
      { intros i. single_or_multi; cbn [multiline_doc]; rewrite Hkeep, CC; cbn [andb].
        - pose proof (IHx i). oc.
        - now apply OC_opaque. }
      finish HP.
  Qed.

  Theorem fixed_opaque_exprs_comment_free : forall e i, OC (fmtd e i).
  Proof. intros e i. apply (proj1 (fmtd_opaque_cfree_and_cond e)). Qed.

  (* with the fix, the document shows every comment of the AST — unless a via/into/where lambda
     operand had to be re-assembled from lines() (text with "\r\n" or a trailing line break),
     which keeps its comments in the text but hides them from the document *)
  Theorem fixed_comments_preserved : forall e i,
    wf_ast e = true -> doc_relined (fmtd e i) = [] ->
    doc_comments (fmtd e i) = expr_comments e.
  Proof.
    intros e i Hw Hr. apply fmtd_comments_preserved; [exact Hw|].
    pose proof (fixed_opaque_exprs_comment_free e i) as H. fold fmtd.
    revert H Hr. generalize (fmtd e i) as d. induction d as [|p d IH]; intros H Hr; [reflexivity|].
    inversion H as [|? ? Hp Hd]; subst.
    change (doc_opaque (p :: d)) with (piece_opaque p ++ doc_opaque d).
    change (doc_relined (p :: d)) with ((match p with Relined e0 _ => [e0] | _ => [] end) ++ doc_relined d) in Hr.
    apply app_eq_nil in Hr as [Hr1 Hr2]. rewrite forallb_app, (IH Hd Hr2), andb_true_r.
    destruct p; try reflexivity; [cbn in *; now rewrite Hp|discriminate].
  Qed.
End Fmt.
