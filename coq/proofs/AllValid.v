(* AllValid.v — C01 at evaluator level for the COMPLETE built-in set: AllValidEval.v (the evaluator induction
   carrying the validity invariant, generic in the operators and built-ins) instantiated with
   AllValidOps.binop_all_valid and AllValidBuiltins.builtin_all_fit_valid.  For every oracle o with
   oracle_valid o and oracle_display_safe o, every valid expression / program, every configuration whose innermost
   frame is Owned and whose bound values are valid, every depth budget, both build profiles:
   the outcome is never Panic, the value is valid, the configuration handed back satisfies the invariant again.
   The ONE remaining explicit side condition is percentile's list length (Valid.builtin_all_fit: see there). *)
From Coq Require Import String Ascii List ZArith Bool Lia Floats.SpecFloat.
Require Import Blots.Num Blots.gen.Builtins Blots.Ast Blots.Value Blots.Outcome Blots.Binop
               Blots.Env Blots.Eval Blots.BuiltinsHof Blots.Program Blots.EvalInst Blots.EvalFull
               Blots.EvalAll Blots.AllRun Blots.DisplayNum Blots.Valid
               Blots.proofs.NoPanic Blots.proofs.AllNoPanic Blots.proofs.DisplayNum
               Blots.proofs.AllValidNum Blots.proofs.AllValidEval Blots.proofs.AllValidOps
               Blots.proofs.AllValidPure Blots.proofs.AllValidBuiltins.
Require Blots.proofs.DisplayNumDischarge7 Blots.proofs.DisplayNumAcc.
Import ListNotations.
Open Scope list_scope.

(* ---------------- the factorial ---------------- *)
Lemma fact_prod_valid : forall k i acc, valid_num acc -> valid_num (fact_prod k i acc).
Proof.
  induction k as [|k IH]; intros i acc Ha; cbn [fact_prod]; [exact Ha|].
  apply IH. apply nmul_valid; [exact Ha|apply num_of_Z_valid].
Qed.
Lemma factorial_valid : forall release n, valid_num n -> vres (factorial_val release n).
Proof.
  intros release n _. unfold factorial_val. destruct (_ && _); [|apply vres_err].
  apply vres_ok. apply fact_prod_valid. apply num_of_Z_valid.
Qed.

Section WithOracle.
  Variable o : oracle.
  Hypothesis Ho : oracle_valid o.
  Hypothesis Hd : oracle_display_safe o.

  Let bi_ok := binop_all_valid o Ho.
  Let bu_ok := builtin_all_fit_valid o Ho Hd.

  Theorem evalD_all_good : forall release d c e, valid_expr e -> wf c -> valid_cfg c ->
    good valid_value (evalD release (binop_all o) (builtin_all_fit o) d c e).
  Proof.
    intros release d c e He Hw Hc.
    apply (evalD_ok release (binop_all o) (builtin_all_fit o) bi_ok bu_ok (factorial_valid release));
      [exact He|split; [exact Hw|exact Hc]].
  Qed.

  Theorem evalD_all_no_panic : forall release d c e, valid_expr e -> wf c -> valid_cfg c ->
    fst (evalD release (binop_all o) (builtin_all_fit o) d c e) <> Panic.
  Proof. intros release d c e He Hw Hc. exact (proj1 (evalD_all_good release d c e He Hw Hc)). Qed.

  Theorem evalD_all_preserves : forall release d c e r c', valid_expr e -> wf c -> valid_cfg c ->
    evalD release (binop_all o) (builtin_all_fit o) d c e = (r, c') ->
    (forall v, r = Ok v -> valid_value v) /\ wf c' /\ valid_cfg c'.
  Proof.
    intros release d c e r c' He Hw Hc E.
    destruct (evalD_all_good release d c e He Hw Hc) as (_ & Hv & Hi). rewrite E in Hv, Hi. cbn [fst snd] in *.
    split; [exact Hv|exact Hi].
  Qed.

  Theorem AD_all_no_panic : forall release d fr this f args st,
    valid_frames fr -> valid_value this -> valid_value f -> valid_values args ->
    fst (AD release (binop_all o) (builtin_all_fit o) d fr this f args st) <> Panic /\
    (forall v, fst (AD release (binop_all o) (builtin_all_fit o) d fr this f args st) = Ok v -> valid_value v).
  Proof.
    intros release d fr this f args st Hfr Ht Hf Ha.
    exact (AD_ok release (binop_all o) (builtin_all_fit o) bi_ok bu_ok (factorial_valid release) d fr Hfr this f args st Ht Hf Ha).
  Qed.

  Theorem program_all_no_panic : forall release inputs prog, valid_inputs inputs -> valid_prog prog ->
    Forall (fun rs => fst rs <> RFail Panic /\ valid_resultb (fst rs) = true)
           (snd (run (eval_top release (binop_all o) (builtin_all_fit o)) (init_session inputs) prog)).
  Proof.
    intros release inputs prog Hi Hp.
    apply (run_ok release (binop_all o) (builtin_all_fit o) bi_ok bu_ok (factorial_valid release));
      [exact Hp|apply init_session_Inv; exact Hi].
  Qed.

  (* the per-call statement for the REAL dispatcher: validity discharges the percentile / format conditions of
     C01_builtin_call_no_panic_all except the list length *)
  Theorem builtin_all_call_valid : forall cb b args st, vcb cb ->
    can_accept (builtin_arity b) (Datatypes.length args) = true -> valid_values args ->
    (b = B_percentile -> percentile_fits args = true) ->
    fst (builtin_all o cb b args st) <> Panic /\
    (forall v, fst (builtin_all o cb b args st) = Ok v -> valid_value v).
  Proof.
    intros cb b args st Hcb Ha Hv Hf.
    assert (E : builtin_all_fit o cb b args st = builtin_all o cb b args st).
    { unfold builtin_all_fit. destruct b; try reflexivity. rewrite (Hf eq_refl). reflexivity. }
    rewrite <- E. exact (bu_ok cb b args st Hcb Ha Hv).
  Qed.
End WithOracle.

(* builtin_all_fit differs from builtin_all in exactly one point *)
Theorem fit_is_the_only_difference : forall o cb b args st,
  (b = B_percentile -> percentile_fits args = true) ->
  builtin_all_fit o cb b args st = builtin_all o cb b args st.
Proof.
  intros o cb b args st Hf. unfold builtin_all_fit. destruct b; try reflexivity. rewrite (Hf eq_refl). reflexivity.
Qed.
(* ... and the guard is needed in the model: beyond 2^53 elements `(len - 1) as f64` may round up *)

(* ---------------- the display condition: two sufficient conditions ---------------- *)
Lemma display_safe_of_log10_in_range : forall o, log10_in_range o -> oracle_display_safe o.
Proof.
  intros o Hlog x Hx.
  destruct (display_no_panic (o_log10 o) (o_powi o) (o_fmt_prec o) (o_fmt_exp14 o) (o_parse_f64 o) true
              Hlog x Hx) as [t Ht].
  unfold display_text. rewrite Ht. discriminate.
Qed.

Definition log10_sane_pos (log10 : num -> num) : Prop :=
  forall a k, valid_binary prec emax a = true -> nsign a = false -> DisplayNumAcc.in_decade a k ->
              (k <= as_i32 (nfloor (log10 a)) <= k + 1)%Z.
Definition display_library_exec (o : oracle) : Prop :=
  o_powi o = powi_exec /\ o_fmt_prec o = fmt_prec_exec /\ o_fmt_exp14 o = fmt_exp14_exec /\
  o_parse_f64 o = parse_f64_exec.
Lemma display_safe_of_log10_sane_pos : forall o,
  log10_sane_pos (o_log10 o) -> display_library_exec o -> oracle_display_safe o.
Proof.
  intros o HL (E1 & E2 & E3 & E4) x Hx.
  destruct (DisplayNumDischarge7.display_total_exec_pos (o_log10 o) HL x Hx) as [t Ht].
  unfold display_text. rewrite E1, E2, E3, E4, Ht. discriminate.
Qed.

(* ---------------- the hypotheses are satisfiable ---------------- *)
Lemma oracle_trivial_valid : oracle_valid oracle_trivial.
Proof.
  constructor; cbn; intros; try assumption; try reflexivity; apply num_of_Z_valid.
Qed.
Lemma oracle_trivial_display_safe : oracle_display_safe oracle_trivial.
Proof.
  apply display_safe_of_log10_in_range. intros a. cbn. vm_compute. discriminate.
Qed.

(* the lookup-table oracle of the ALL stream is valid for EVERY table: its numbers are bit patterns
   (num_of_bits: every 64-bit pattern is a double), the exact floor-log10 fallback is num_of_Z *)
Lemma libm_of_valid : forall T f x, valid_num (libm_of T f x).
Proof. intros T f x. unfold libm_of. destruct (find3 _ _ _); apply num_of_bits_valid. Qed.
Theorem oracle_of_valid : forall T, oracle_valid (oracle_of T).
Proof.
  intros T. constructor; cbn [oracle_of o_sin o_cos o_tan o_asin o_acos o_atan o_ln o_log10 o_exp o_powf o_now];
    intros; try apply libm_of_valid.
  - unfold log10_of. destruct (find3 _ _ _); [apply num_of_bits_valid|].
    unfold log10_floor_exact. destruct x; try exact valid_nan.
    destruct (DisplayNum.mag_frac m e) as [N D]. apply num_of_Z_valid.
  - unfold powf_of. destruct (find3 _ _ _); apply num_of_bits_valid.
  - destruct (t_now T); [apply num_of_bits_valid|exact valid_nan].
Qed.
Lemma oracle_of_display_library : forall T, display_library_exec (oracle_of T).
Proof. intros T. repeat split. Qed.
