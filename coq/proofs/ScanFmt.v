(* ScanFmt.v — C09: the documents the formatter model produces are well-formed for the comment
   scanner (Formatter.wf_doc): every literal layout piece is lexically self-contained and every
   comment is followed by a line break — no layout merges a comment into code or code into a
   comment.  With Scan.render_scan and Comments.fmtd_comments_preserved this gives
       scan_comments (text the formatter prints) = comments of the AST.
   The texts printed through expr_to_source are opaque here: their lexical self-containment is a
   hypothesis on the produced document (opaque_texts_neutral). *)
From Coq Require Import String Ascii List ZArith Bool Lia.
Require Import Blots.Num Blots.gen.Builtins Blots.Ast Blots.Formatter Blots.proofs.ExprInd
  Blots.proofs.Scan Blots.proofs.Comments.
Import ListNotations.
Open Scope list_scope.

(* ------------------------------------------------------------------ neutral strings *)
Lemma neutral_app : forall a b, neutral a -> neutral b -> neutral (a +++ b).
Proof. unfold neutral. intros a b Ha Hb. rewrite srun_app, Ha, Hb. reflexivity. Qed.

Definition plain_char (c : ascii) : bool := negb (is_quote c) && negb (Ascii.eqb c "/").
Definition plain (s : string) : bool := all_chars plain_char s.

Lemma plain_neutral : forall s, plain s = true -> neutral s.
Proof.
  unfold neutral, plain. induction s as [|c r IH]; intros H; [reflexivity|].
  cbn [all_chars] in H. apply andb_prop in H as [Hc Hr]. cbn [srun sstep].
  unfold plain_char in Hc. apply andb_prop in Hc as [Hq Hs].
  rewrite negb_true_iff in Hq, Hs. rewrite Hq, Hs, (IH Hr). reflexivity.
Qed.

Lemma plain_app : forall a b, plain (a +++ b) = plain a && plain b.
Proof. unfold plain. induction a; intros; cbn; [reflexivity|]. now rewrite IHa, andb_assoc. Qed.

Lemma plain_make_indent : forall n, plain (make_indent n) = true.
Proof. induction n; [reflexivity|]. cbn. exact IHn. Qed.
Lemma neutral_indent : forall n, neutral (make_indent n).
Proof. intros; apply plain_neutral, plain_make_indent. Qed.

Lemma plain_sjoin : forall sep l, plain sep = true -> forallb plain l = true -> plain (sjoin sep l) = true.
Proof.
  intros sep l Hs. induction l as [|x r IH]; intros H; [reflexivity|].
  cbn [forallb] in H. apply andb_prop in H as [Hx Hr].
  destruct r as [|y r']; [exact Hx|].
  change (sjoin sep (x :: y :: r')) with (x +++ sep +++ sjoin sep (y :: r')).
  rewrite !plain_app, Hx, Hs, (IH Hr). reflexivity.
Qed.

Lemma neutral_binop_infix : forall op, neutral (" " +++ binary_op_str op +++ " ").
Proof. destruct op; reflexivity. Qed.
Lemma neutral_binop_lead : forall op, neutral (binary_op_str op +++ " ").
Proof. destruct op; reflexivity. Qed.

(* ------------------------------------------------------------------ comment texts *)
Definition eol_free_char (c : ascii) : bool := negb (Ascii.eqb c NLc) && negb (Ascii.eqb c CRc).
Definition comment_ok (c : string) : bool :=
  match c with
  | String a (String b r) => Ascii.eqb a "/" && Ascii.eqb b "/" && all_chars eol_free_char r
  | _ => false
  end.

Lemma append_snoc : forall cur c r, snoc cur c +++ r = cur +++ String c r.
Proof. unfold snoc. induction cur; intros; cbn; [reflexivity|]. now rewrite IHcur. Qed.

Lemma srun_comment_body : forall r cur, all_chars eol_free_char r = true ->
  srun (SCom cur) r = ([], SCom (cur +++ r)).
Proof.
  induction r as [|c r IH]; intros cur H; cbn [srun].
  - now rewrite append_nil_r.
  - cbn [all_chars] in H. apply andb_prop in H as [Hc Hr]. unfold eol_free_char in Hc.
    apply andb_prop in Hc as [H1 H2]. rewrite negb_true_iff in H1, H2.
    cbn [sstep]. rewrite H1, H2, (IH _ Hr), append_snoc. reflexivity.
Qed.

Lemma comment_ok_text : forall c, comment_ok c = true -> is_comment_text c.
Proof.
  intros c H. destruct c as [|a [|b r]]; try discriminate. cbn [comment_ok] in H.
  apply andb_prop in H as [H Hr]. apply andb_prop in H as [Ha Hb].
  apply Ascii.eqb_eq in Ha, Hb. subst a b.
  unfold is_comment_text. cbn [srun sstep]. cbn. rewrite (srun_comment_body r "//" Hr). reflexivity.
Qed.

(* ------------------------------------------------------------------ composing documents *)
Fixpoint ends_code (d : doc) : bool :=
  match d with
  | [] => true
  | [Comment _] => false
  | _ :: r => ends_code r
  end.
Definition starts_nl (d : doc) : bool := match d with Nl :: _ => true | _ => false end.
Definition Good (d : doc) : Prop := wf_doc d /\ ends_code d = true.

Lemma ends_code_app : forall a b, ends_code b = true -> b <> [] -> ends_code (a ++ b) = true.
Proof.
  induction a as [|p r IH]; intros b Hb NE; [exact Hb|].
  cbn [app]. specialize (IH b Hb NE).
  destruct (r ++ b) eqn:E; [destruct r; [contradiction|discriminate]|].
  destruct p; cbn [ends_code]; exact IH.
Qed.

Lemma ends_code_app2 : forall a b, ends_code a = true -> ends_code b = true -> ends_code (a ++ b) = true.
Proof.
  intros a b Ha Hb. destruct b as [|q b']; [now rewrite app_nil_r|].
  apply ends_code_app; [exact Hb|discriminate].
Qed.

Lemma wf_app_good : forall a b, wf_doc a -> ends_code a = true -> wf_doc b -> wf_doc (a ++ b).
Proof.
  induction a as [|p r IH]; intros b Ha He Hb; [exact Hb|].
  destruct p as [s|e s|c| |e s]; cbn [app wf_doc] in *.
  - destruct Ha as [Hn Hr]. split; [exact Hn|]. apply IH; auto.
  - destruct Ha as [Hn Hr]. split; [exact Hn|]. apply IH; auto.
  - destruct Ha as [Hc Hr]. split; [exact Hc|].
    destruct r as [|q r']; [discriminate|]. destruct q; try contradiction.
    cbn [app]. apply (IH b Hr); [|exact Hb]. exact He.
  - apply IH; auto.
  - destruct Ha as [Hn Hr]. split; [exact Hn|]. apply IH; auto.
Qed.

Lemma wf_app_nl : forall a b, wf_doc a -> wf_doc (Nl :: b) -> wf_doc (a ++ Nl :: b).
Proof.
  induction a as [|p r IH]; intros b Ha Hb; [exact Hb|].
  destruct p as [s|e s|c| |e s]; cbn [app wf_doc] in *.
  - destruct Ha; split; auto.
  - destruct Ha; split; auto.
  - destruct Ha as [Hc Hr]. split; [exact Hc|].
    destruct r as [|q r']; [exact Hb|]. destruct q; try contradiction.
    cbn [app]. apply (IH b Hr Hb).
  - auto.
  - destruct Ha; split; auto.
Qed.

Lemma good_app : forall a b, Good a -> Good b -> Good (a ++ b).
Proof.
  intros a b [Ha Ea] [Hb Eb]. split; [now apply wf_app_good|now apply ends_code_app2].
Qed.
Lemma good_code : forall s, neutral s -> Good [Code s].
Proof. intros s H. split; [cbn; auto|reflexivity]. Qed.
Lemma good_nil : Good [].
Proof. split; [exact I|reflexivity]. Qed.
Lemma good_nl_ind : forall i, Good [Nl; ind i].
Proof. intros i. split; [cbn; split; [apply neutral_indent|exact I]|reflexivity]. Qed.

(* comment blocks followed by a line break *)
Lemma wf_dcomment_lines_then : forall l Y,
  forallb comment_ok l = true -> wf_doc Y -> starts_nl Y = true -> wf_doc (dcomment_lines l ++ Y).
Proof.
  induction l as [|c r IH]; intros Y H HY HS; [exact HY|].
  cbn [forallb] in H. apply andb_prop in H as [Hc Hr].
  destruct r as [|c2 r'].
  - cbn [dcomment_lines app wf_doc]. split; [now apply comment_ok_text|].
    destruct Y as [|q Y']; [discriminate|]. destruct q; try discriminate. exact HY.
  - change (dcomment_lines (c :: c2 :: r')) with (Comment c :: Nl :: dcomment_lines (c2 :: r')).
    cbn [app wf_doc]. split; [now apply comment_ok_text|]. apply (IH Y Hr HY HS).
Qed.

Definition trailing_ok (tr : option string) : bool :=
  match tr with Some t => forallb comment_ok (split_nl t) | None => true end.

Lemma wf_trailing_then : forall tr Y,
  trailing_ok tr = true -> wf_doc Y -> starts_nl Y = true -> wf_doc (trailing_doc tr ++ Y).
Proof.
  intros [t|] Y H HY HS; [|exact HY].
  cbn [trailing_doc app wf_doc]. split; [reflexivity|]. now apply wf_dcomment_lines_then.
Qed.

Lemma wf_leading_then : forall i lead Y,
  forallb comment_ok lead = true -> wf_doc Y -> starts_nl Y = true ->
  wf_doc (leading_doc i lead ++ Y) /\ starts_nl (leading_doc i lead ++ Y) = true.
Proof.
  intros i lead Y. induction lead as [|c r IH]; intros H HY HS; [split; assumption|].
  cbn [forallb] in H. apply andb_prop in H as [Hc Hr]. destruct (IH Hr HY HS) as [W S].
  unfold leading_doc in *. cbn [flat_map app]. split; [|reflexivity].
  cbn [wf_doc]. split; [apply neutral_indent|]. split; [now apply comment_ok_text|].
  destruct (flat_map (fun c0 : string => [Nl; ind i; Comment c0]) r ++ Y) as [|q Z]; [discriminate|].
  destruct q; try discriminate. exact W.
Qed.

Definition comments_ok {A} (c : commented A) : bool :=
  forallb comment_ok (cleading c) && trailing_ok (ctrailing c).

(* the texts printed through expr_to_source are lexically self-contained *)
Definition opaque_texts_neutral (d : doc) : Prop :=
  Forall (fun p => match p with Opaque _ s | Relined _ s => neutral s | _ => True end) d.
Lemma otn_app : forall a b, opaque_texts_neutral (a ++ b) <-> opaque_texts_neutral a /\ opaque_texts_neutral b.
Proof. intros; unfold opaque_texts_neutral; apply Forall_app. Qed.

(* ------------------------------------------------------------------ layouts *)
Section Layouts.
  Variable O : oracles.
  Variable key_ok : string -> bool.
  Hypothesis Hrk : forall k, key_ok k = true -> neutral (o_record_key O k).
  Variable w : nat.
  Variable rec : expr -> nat -> doc.

  (* the recursive call yields a good document whenever its opaque texts are neutral *)
  Definition R (x : expr) : Prop := forall j, opaque_texts_neutral (rec x j) -> Good (rec x j).

  Ltac split_otn H :=
    repeat match type of H with
           | opaque_texts_neutral (_ ++ _) => let H1 := fresh "O" in let H2 := fresh "O" in
               apply otn_app in H as [H1 H2]; try split_otn H1; try split_otn H2
           | opaque_texts_neutral (_ :: _ :: _) => idtac
           end.

  Lemma otn_cons : forall p d, opaque_texts_neutral (p :: d) -> opaque_texts_neutral d.
  Proof. intros p d H. inversion H; assumption. Qed.

  Lemma wrap_parens_good : forall b d, Good d -> Good (wrap_parens b d).
  Proof.
    intros [] d H; [|exact H]. unfold wrap_parens.
    repeat apply good_app; try (apply good_code; reflexivity). exact H.
  Qed.
  Lemma otn_wrap_parens : forall b d, opaque_texts_neutral (wrap_parens b d) -> opaque_texts_neutral d.
  Proof.
    intros [] d H; [|exact H]. unfold wrap_parens in H. apply otn_app in H as [_ H].
    now apply otn_app in H as [H _].
  Qed.

  Lemma protect_minus_good : forall d b, Good d -> Good (protect_minus d b).
  Proof.
    intros d b H. unfold protect_minus. destruct (negb b && starts_with_minus (render d)); [|exact H].
    repeat apply good_app; try (apply good_code; reflexivity). exact H.
  Qed.
  Lemma otn_protect_minus : forall d b, opaque_texts_neutral (protect_minus d b) -> opaque_texts_neutral d.
  Proof.
    intros d b H. unfold protect_minus in H. destruct (negb b && starts_with_minus (render d)); [|exact H].
    apply otn_app in H as [_ H]. now apply otn_app in H as [H _].
  Qed.

  (* items of a list: the loop followed by a tail that starts with a line break *)
  Lemma list_items_wf : forall l inner Y,
    Forall (fun c => R (cnode c)) l -> forallb comments_ok l = true ->
    opaque_texts_neutral (list_items_doc rec l inner) ->
    wf_doc Y -> starts_nl Y = true ->
    wf_doc (list_items_doc rec l inner ++ Y) /\ starts_nl (list_items_doc rec l inner ++ Y) = true.
  Proof.
    induction l as [|[lead n tr] r IH]; intros inner Y HR HC HO HY HS; [split; assumption|].
    inversion HR as [|? ? Hn Hr]; subst. cbn [cnode] in Hn.
    cbn [forallb] in HC. apply andb_prop in HC as [Hc HCr].
    unfold comments_ok in Hc. cbn [cleading ctrailing] in Hc. apply andb_prop in Hc as [Hl Ht].
    cbn [list_items_doc] in *.
    apply otn_app in HO as [_ HO]. apply otn_app in HO as [_ HO]. apply otn_app in HO as [On HO].
    apply otn_app in HO as [_ HO]. apply otn_app in HO as [_ Or].
    destruct (IH inner Y Hr HCr Or HY HS) as [Wr Sr].
    rewrite <- !app_assoc.
    apply wf_leading_then; [exact Hl| |reflexivity].
    change ([Nl; ind inner] ++ rec n inner ++ [Code ","] ++ trailing_doc tr ++ list_items_doc rec r inner ++ Y)
      with (([Nl; ind inner]) ++ (rec n inner ++ [Code ","] ++ trailing_doc tr ++ list_items_doc rec r inner ++ Y)).
    apply wf_app_good; [apply good_nl_ind|apply good_nl_ind|].
    destruct (Hn inner On) as [Wn En].
    apply wf_app_good; [exact Wn|exact En|].
    change ([Code ","] ++ trailing_doc tr ++ list_items_doc rec r inner ++ Y)
      with (Code "," :: (trailing_doc tr ++ list_items_doc rec r inner ++ Y)).
    cbn [wf_doc]. split; [reflexivity|]. now apply wf_trailing_then.
  Qed.

  Lemma list_doc_good : forall items i,
    Forall (fun c => R (cnode c)) items -> forallb comments_ok items = true ->
    opaque_texts_neutral (list_doc rec items i) -> Good (list_doc rec items i).
  Proof.
    intros items i HR HC HO. destruct items as [|c r]; [apply good_code; reflexivity|].
    unfold list_doc in *. apply otn_app in HO as [_ HO]. apply otn_app in HO as [HO _].
    split.
    - change ([Code "["] ++ list_items_doc rec (c :: r) (i + INDENT_SIZE) ++ [Nl; ind i; Code "]"])
        with (Code "[" :: (list_items_doc rec (c :: r) (i + INDENT_SIZE) ++ [Nl; ind i; Code "]"])).
      cbn [wf_doc]. split; [reflexivity|].
      assert (T : wf_doc [Nl; ind i; Code "]"]) by (cbn; repeat split; try reflexivity; try apply neutral_indent).
      exact (proj1 (list_items_wf _ _ _ HR HC HO T eq_refl)).
    - rewrite app_assoc. apply ends_code_app; [reflexivity|discriminate].
  Qed.

  (* record entries *)
  Definition key_atoms_ok (r : rentry) : bool :=
    match r with
    | REntry (KStatic k) _ => key_ok k
    | REntry (KShort name) _ => plain name
    | _ => true
    end.
  Definition R_entry (r : rentry) : Prop :=
    match r with
    | REntry (KStatic _) v => R v
    | REntry (KDyn k) v => R k /\ R v
    | REntry (KShort _) _ => True
    | REntry (KSpread x) _ => R x
    end.

  Lemma entry_doc_good : forall r i, R_entry r -> key_atoms_ok r = true ->
    opaque_texts_neutral (entry_doc O rec r i) -> Good (entry_doc O rec r i).
  Proof.
    intros [[k|ke|name|x] v] i HR HK HO; cbn [entry_doc R_entry key_atoms_ok] in *.
    - change (Code (o_record_key O k +++ ": ") :: rec v i) with ([Code (o_record_key O k +++ ": ")] ++ rec v i).
      apply good_app; [apply good_code, neutral_app; [now apply Hrk|reflexivity]|].
      apply HR. now apply otn_cons in HO.
    - destruct HR as [Rk Rv]. apply otn_app in HO as [_ HO]. apply otn_app in HO as [Ok HO].
      apply otn_app in HO as [_ Ov].
      repeat apply good_app; try (apply good_code; reflexivity); auto.
    - apply good_code. now apply plain_neutral.
    - now apply HR.
  Qed.

  Lemma rec_entries_wf : forall l inner Y,
    Forall (fun c => R_entry (cnode c)) l ->
    forallb (fun c => comments_ok c && key_atoms_ok (cnode c)) l = true ->
    opaque_texts_neutral (rec_entries_doc O rec l inner) ->
    wf_doc Y -> starts_nl Y = true ->
    wf_doc (rec_entries_doc O rec l inner ++ Y) /\
    starts_nl (rec_entries_doc O rec l inner ++ Y) = true.
  Proof.
    induction l as [|[lead n tr] r IH]; intros inner Y HR HC HO HY HS; [split; assumption|].
    inversion HR as [|? ? Hn Hr]; subst. cbn [cnode] in Hn.
    cbn [forallb] in HC. apply andb_prop in HC as [Hc HCr]. cbn [cnode] in Hc.
    apply andb_prop in Hc as [Hc Hk].
    unfold comments_ok in Hc. cbn [cleading ctrailing] in Hc. apply andb_prop in Hc as [Hl Ht].
    cbn [rec_entries_doc] in *.
    apply otn_app in HO as [_ HO]. apply otn_app in HO as [_ HO]. apply otn_app in HO as [On HO].
    apply otn_app in HO as [_ HO]. apply otn_app in HO as [_ Or].
    destruct (IH inner Y Hr HCr Or HY HS) as [Wr Sr].
    rewrite <- !app_assoc.
    apply wf_leading_then; [exact Hl| |reflexivity].
    change ([Nl; ind inner] ++ entry_doc O rec n inner ++ [Code ","] ++ trailing_doc tr ++
            rec_entries_doc O rec r inner ++ Y)
      with (([Nl; ind inner]) ++ (entry_doc O rec n inner ++ [Code ","] ++ trailing_doc tr ++
            rec_entries_doc O rec r inner ++ Y)).
    apply wf_app_good; [apply good_nl_ind|apply good_nl_ind|].
    destruct (entry_doc_good n inner Hn Hk On) as [Wn En].
    apply wf_app_good; [exact Wn|exact En|].
    change ([Code ","] ++ trailing_doc tr ++ rec_entries_doc O rec r inner ++ Y)
      with (Code "," :: (trailing_doc tr ++ rec_entries_doc O rec r inner ++ Y)).
    cbn [wf_doc]. split; [reflexivity|]. now apply wf_trailing_then.
  Qed.

  Lemma record_doc_good : forall entries i,
    Forall (fun c => R_entry (cnode c)) entries ->
    forallb (fun c => comments_ok c && key_atoms_ok (cnode c)) entries = true ->
    opaque_texts_neutral (record_doc O rec entries i) -> Good (record_doc O rec entries i).
  Proof.
    intros entries i HR HC HO. destruct entries as [|c r]; [apply good_code; reflexivity|].
    unfold record_doc in *. apply otn_app in HO as [_ HO]. apply otn_app in HO as [HO _].
    split.
    - change ([Code "{"] ++ rec_entries_doc O rec (c :: r) (i + INDENT_SIZE) ++ [Nl; ind i; Code "}"])
        with (Code "{" :: (rec_entries_doc O rec (c :: r) (i + INDENT_SIZE) ++ [Nl; ind i; Code "}"])).
      cbn [wf_doc]. split; [reflexivity|].
      assert (T : wf_doc [Nl; ind i; Code "}"]) by (cbn; repeat split; try reflexivity; try apply neutral_indent).
      exact (proj1 (rec_entries_wf _ _ _ HR HC HO T eq_refl)).
    - rewrite app_assoc. apply ends_code_app; [reflexivity|discriminate].
  Qed.

  (* do-blocks *)
  Lemma do_stmts_wf : forall l inner first Y,
    Forall (fun c => R (cnode c)) l -> forallb comments_ok l = true ->
    opaque_texts_neutral (do_stmts_doc rec l inner first) ->
    wf_doc Y -> starts_nl Y = true ->
    wf_doc (do_stmts_doc rec l inner first ++ Y) /\ starts_nl (do_stmts_doc rec l inner first ++ Y) = true.
  Proof.
    induction l as [|[lead n tr] r IH]; intros inner first Y HR HC HO HY HS; [split; assumption|].
    inversion HR as [|? ? Hn Hr]; subst. cbn [cnode] in Hn.
    cbn [forallb] in HC. apply andb_prop in HC as [Hc HCr].
    unfold comments_ok in Hc. cbn [cleading ctrailing] in Hc. apply andb_prop in Hc as [Hl Ht].
    cbn [do_stmts_doc] in *.
    apply otn_app in HO as [_ HO]. apply otn_app in HO as [_ HO]. apply otn_app in HO as [On HO].
    apply otn_app in HO as [_ Or].
    destruct (IH inner false Y Hr HCr Or HY HS) as [Wr Sr].
    rewrite <- !app_assoc.
    apply wf_leading_then; [exact Hl| |reflexivity].
    change ([Nl; ind inner] ++ protect_minus (rec n inner) first ++ trailing_doc tr ++ do_stmts_doc rec r inner false ++ Y)
      with (([Nl; ind inner]) ++ (protect_minus (rec n inner) first ++ trailing_doc tr ++ do_stmts_doc rec r inner false ++ Y)).
    apply wf_app_good; [apply good_nl_ind|apply good_nl_ind|].
    destruct (protect_minus_good _ first (Hn inner (otn_protect_minus _ _ On))) as [Wn En].
    apply wf_app_good; [exact Wn|exact En|]. now apply wf_trailing_then.
  Qed.

  Lemma do_doc_good : forall stmts ret i,
    Forall (fun c => R (cnode c)) stmts -> R (cnode ret) ->
    forallb comments_ok stmts = true -> forallb comment_ok (cleading ret) = true ->
    opaque_texts_neutral (do_doc rec stmts ret i) -> Good (do_doc rec stmts ret i).
  Proof.
    intros stmts ret i HS HR HC HL HO. unfold do_doc in *. cbv zeta in *.
    apply otn_app in HO as [_ HO]. apply otn_app in HO as [Os HO]. apply otn_app in HO as [_ HO].
    apply otn_app in HO as [_ HO]. apply otn_app in HO as [Or _].
    destruct (HR _ Or) as [Wr Er].
    split.
    - change ([Code "do {"] ++ do_stmts_doc rec stmts (i + INDENT_SIZE) true ++
              leading_doc (i + INDENT_SIZE) (cleading ret) ++ [Nl; ind (i + INDENT_SIZE); Code "return "] ++
              rec (cnode ret) (i + INDENT_SIZE) ++ [Nl; ind i; Code "}"])
        with (Code "do {" :: (do_stmts_doc rec stmts (i + INDENT_SIZE) true ++
              (leading_doc (i + INDENT_SIZE) (cleading ret) ++ [Nl; ind (i + INDENT_SIZE); Code "return "] ++
              rec (cnode ret) (i + INDENT_SIZE) ++ [Nl; ind i; Code "}"]))).
      cbn [wf_doc]. split; [reflexivity|].
      assert (T : wf_doc ([Nl; ind (i + INDENT_SIZE); Code "return "] ++ rec (cnode ret) (i + INDENT_SIZE) ++ [Nl; ind i; Code "}"])).
      { cbn [app wf_doc]. split; [apply neutral_indent|]. split; [reflexivity|].
        apply wf_app_good; [exact Wr|exact Er|]. cbn; repeat split; try reflexivity; try apply neutral_indent. }
      destruct (wf_leading_then (i + INDENT_SIZE) (cleading ret) _ HL T eq_refl) as [WL SL].
      exact (proj1 (do_stmts_wf _ _ _ _ HS HC Os WL SL)).
    - rewrite !app_assoc. apply ends_code_app; [reflexivity|discriminate].
  Qed.

  (* lambda *)
  Lemma lambda_doc_good : forall args body i,
    forallb (fun a => plain (arg_name a)) args = true -> R body ->
    opaque_texts_neutral (lambda_doc O w rec args body i) -> Good (lambda_doc O w rec args body i).
  Proof.
    intros args body i HA HR HO.
    assert (NA : forall suffix, plain suffix = true -> neutral (lambda_args_part args +++ suffix)).
    { intros suffix Hs. apply plain_neutral. rewrite plain_app, Hs, andb_true_r.
      unfold lambda_args_part.
      assert (G : plain ("(" +++ sjoin ", " (map lambda_arg_to_str args) +++ ")") = true).
      { rewrite !plain_app. change (plain "(") with true. change (plain ")") with true.
        rewrite andb_true_r. cbn [andb].
        apply plain_sjoin; [reflexivity|]. clear -HA.
        induction args as [|a r IH]; [reflexivity|]. cbn [map forallb] in *.
        apply andb_prop in HA as [Ha Hr]. rewrite (IH Hr), andb_true_r.
        destruct a; cbn [lambda_arg_to_str arg_name] in *; rewrite ?plain_app, ?Ha; reflexivity. }
      destruct args as [|[x|x|x] [|b r]]; try exact G.
      cbn [forallb arg_name] in HA. now rewrite andb_true_r in HA. }
    unfold lambda_doc in *. cbv zeta in *.
    destruct (is_do body).
    - apply otn_app in HO as [_ HO]. apply good_app; [apply good_code|now apply HR].
      rewrite append_assoc. apply NA. reflexivity.
    - match goal with |- context [if negb ?a && ?b then _ else _] => destruct (negb a && b) end.
      + apply otn_app in HO as [_ HO].
        apply good_app; [apply good_code|apply wrap_parens_good, HR; now apply otn_wrap_parens in HO].
        rewrite append_assoc. apply NA. reflexivity.
      + apply otn_app in HO as [_ HO].
        apply good_app; [|apply wrap_parens_good, HR; now apply otn_wrap_parens in HO].
        split; [|reflexivity]. cbn [wf_doc]. split; [apply NA; reflexivity|].
        split; [apply neutral_indent|exact I].
  Qed.

  (* conditional chain *)
  Definition cond_good (el : expr) : Prop :=
    forall fc ft i,
      (forall j, opaque_texts_neutral (fc j) -> Good (fc j)) ->
      (forall j, opaque_texts_neutral (ft j) -> Good (ft j)) ->
      opaque_texts_neutral (cond_doc w rec fc ft el i) -> Good (cond_doc w rec fc ft el i).

  Ltac good_pieces :=
    repeat first
      [ apply good_app
      | apply good_code; first [reflexivity | apply neutral_indent]
      | apply good_nl_ind ].

  Lemma cond_doc_step_good : forall el,
    R el ->
    (forall c2 t2 e2, el = ECond c2 t2 e2 -> R c2 /\ R t2 /\ cond_good e2) ->
    cond_good el.
  Proof.
    intros el Hel Hsub fc ft i Hc Ht HO.
    assert (NL1 : forall k s, Good [Nl; ind k; Code s] <-> neutral s).
    { intros k s. split; [intros [[_ [H _]] _]; exact H|].
      intros H. split; [cbn; repeat split; try apply neutral_indent; exact H|reflexivity]. }
    assert (G4 : forall k k2, Good [Nl; ind k; Code "else"; Nl; ind k2]).
    { intros. split; [cbn; repeat split; try reflexivity; try apply neutral_indent|reflexivity]. }
    assert (G5 : forall k k2, Good [Nl; ind k; Code "then"; Nl; ind k2]).
    { intros. split; [cbn; repeat split; try reflexivity; try apply neutral_indent|reflexivity]. }
    assert (G6 : Good [Code "if "]) by (apply good_code; reflexivity).
    assert (D : (exists c2 t2 e2, el = ECond c2 t2 e2) \/ (forall c2 t2 e2, el <> ECond c2 t2 e2))
      by (destruct el; try (right; intros; discriminate); left; eauto).
    destruct D as [(c2 & t2 & e2 & ->) | NC].
    - destruct (Hsub _ _ _ eq_refl) as (K1 & K2 & K3).
      cbn [cond_doc] in *; cbv zeta in *.
      match goal with |- context [if ?b then _ else _] => destruct b end;
        repeat match goal with H : opaque_texts_neutral (_ ++ _) |- _ => apply otn_app in H as [? ?] end;
        repeat first [ apply good_app | apply G4 | apply G5 | apply G6
                     | apply good_code; reflexivity | apply good_nl_ind
                     | apply (proj2 (NL1 _ _)); reflexivity
                     | apply Hc; assumption | apply Ht; assumption
                     | apply K3; [exact K1|exact K2|assumption] ].
    - destruct el; try (exfalso; eapply NC; reflexivity);
        cbn [cond_doc] in *; cbv zeta in *;
        (match goal with |- context [if ?b then _ else _] => destruct b end;
         repeat match goal with H : opaque_texts_neutral (_ ++ _) |- _ => apply otn_app in H as [? ?] end;
         repeat first [ apply good_app | apply G4 | apply G5 | apply G6
                      | apply good_code; reflexivity | apply good_nl_ind
                      | apply (proj2 (NL1 _ _)); reflexivity
                      | apply Hc; assumption | apply Ht; assumption | apply Hel; assumption ]).
  Qed.

  (* call *)
  Lemma call_doc_good : forall f args i, R f -> Forall R args ->
    opaque_texts_neutral (call_doc O rec f args i) -> Good (call_doc O rec f args i).
  Proof.
    intros f args i Hf Ha HO. unfold call_doc in *. cbv zeta in *.
    assert (F : opaque_texts_neutral (wrap_parens (o_postfix_parens O f) (rec f i)) ->
                Good (wrap_parens (o_postfix_parens O f) (rec f i))).
    { intros O'. apply wrap_parens_good, Hf. now apply otn_wrap_parens in O'. }
    destruct args as [|a r].
    - apply otn_app in HO as [O1 _]. apply good_app; [now apply F|apply good_code; reflexivity].
    - apply otn_app in HO as [O1 HO]. apply otn_app in HO as [_ HO]. apply otn_app in HO as [O2 _].
      apply good_app; [now apply F|]. apply good_app; [apply good_code; reflexivity|].
      apply good_app; [|split; [cbn; repeat split; try reflexivity; try apply neutral_indent|reflexivity]].
      remember (a :: r) as l eqn:E. clear E.
      induction Ha as [|x l' Hx Hl IH]; [apply good_nil|].
      cbn [flat_map] in *. apply otn_app in O2 as [Ox Ol]. apply otn_app in Ox as [_ Ox]. apply otn_app in Ox as [Ox _].
      apply good_app; [|now apply IH].
      repeat apply good_app; [apply good_nl_ind|now apply Hx|apply good_code; reflexivity].
  Qed.

  (* binary operator *)
  Lemma binop_doc_good : forall op l r i, R l -> R r ->
    opaque_texts_neutral (binop_doc O w rec op l r i) ->
    Good (binop_doc O w rec op l r i).
  Proof.
    intros op l r i Hl Hr HO. unfold binop_doc in *. cbv zeta in *.
    assert (GN : forall k, Good [Nl; ind k; Code (binary_op_str op +++ " ")]).
    { intros k. split; [cbn; repeat split; try apply neutral_indent; apply neutral_binop_lead|reflexivity]. }
    destruct (is_via_like op && is_lambda r).
    - match goal with |- context [if (?a <=? ?b)%nat then _ else _] => destruct (a <=? b)%nat end.
      + destruct (contains_nl _).
        * apply otn_app in HO as [O1 HO]. apply otn_app in HO as [_ O2].
          apply good_app; [apply wrap_parens_good, Hl; now apply otn_wrap_parens in O1|].
          apply good_app; [apply good_code, neutral_binop_infix|].
          destruct (String.eqb _ _).
          -- apply wrap_parens_good, Hr. now apply otn_wrap_parens in O2.
          -- inversion O2 as [|? ? N _]; subst. split; [cbn; auto|reflexivity].
        * apply otn_app in HO as [O1 HO]. apply otn_app in HO as [_ O2].
          apply good_app; [apply wrap_parens_good, Hl; now apply otn_wrap_parens in O1|].
          apply good_app; [apply good_code, neutral_binop_infix|].
          apply wrap_parens_good, Hr. now apply otn_wrap_parens in O2.
      + apply otn_app in HO as [O1 HO]. apply otn_app in HO as [_ O2].
        apply good_app; [apply wrap_parens_good, Hl; now apply otn_wrap_parens in O1|].
        apply good_app; [apply GN|]. apply wrap_parens_good, Hr. now apply otn_wrap_parens in O2.
    - apply otn_app in HO as [O1 HO]. apply otn_app in HO as [_ O2].
      apply good_app; [apply wrap_parens_good, Hl; now apply otn_wrap_parens in O1|].
      apply good_app; [apply GN|]. apply wrap_parens_good, Hr. now apply otn_wrap_parens in O2.
  Qed.
End Layouts.

(* ------------------------------------------------------------------ the formatter *)
Section Fmt.
  Variable O : oracles.
  Variable key_ok : string -> bool.
  Hypothesis Hrk : forall k, key_ok k = true -> neutral (o_record_key O k).
  Variable w : nat.
  Let fmtd := fmtd O w.

  (* the strings of the AST that the layouts print themselves: assigned names, parameter
     names, shorthand keys (no quote, no slash), static keys (accepted by key_ok), and the
     comments (each "//" + text without line break; a trailing field = such lines joined by "\n") *)
  Fixpoint atoms_ok (e : expr) : bool :=
    match e with
    | EList items => forallb (fun c => comments_ok c && atoms_ok (cnode c)) items
    | ERec entries =>
        forallb (fun c => comments_ok c && key_atoms_ok key_ok (cnode c) &&
                          match cnode c with
                          | REntry (KStatic _) v => atoms_ok v
                          | REntry (KDyn k) v => atoms_ok k && atoms_ok v
                          | REntry (KShort _) _ => true
                          | REntry (KSpread x) _ => atoms_ok x
                          end) entries
    | ELam args body => forallb (fun a => plain (arg_name a)) args && atoms_ok body
    | ECond c t f => atoms_ok c && atoms_ok t && atoms_ok f
    | EDo stmts ret =>
        forallb (fun c => comments_ok c && atoms_ok (cnode c)) stmts &&
        forallb comment_ok (cleading ret) && atoms_ok (cnode ret)
    | EAssign x v => plain x && atoms_ok v
    | EOutput x => atoms_ok x
    | ECall f args => atoms_ok f && forallb atoms_ok args
    | EBin _ l r => atoms_ok l && atoms_ok r
    | EAccess a ix => atoms_ok a && atoms_ok ix
    | EDot a field => atoms_ok a && plain field
    | EUn _ a => atoms_ok a
    | EFact a => atoms_ok a
    | ESpread a => atoms_ok a
    | _ => true
    end.

  Lemma fmtd_eq' : forall e i, fmtd e i = impl_doc O w fmtd e i.
  Proof. intros; apply fmtd_eq. Qed.

  Definition Q (e : expr) : Prop := atoms_ok e = true -> R fmtd e.
  Definition QC (e : expr) : Prop := atoms_ok e = true -> cond_good w fmtd e.

  Lemma opaque_good : forall e s, opaque_texts_neutral [Opaque e s] -> Good [Opaque e s].
  Proof. intros e s H. inversion H as [|? ? N _]; subst. split; [cbn; auto|reflexivity]. Qed.

  Ltac opaque_case :=
    let HQ := fresh "HQ" in
    match goal with |- Q ?e /\ QC ?e =>
      assert (HQ : Q e) by
        (intros _ ? ?; rewrite fmtd_eq' in *; unfold impl_doc in *; cbn [multiline_doc contains_comments] in *;
         rewrite ?andb_false_r in *; cbn [negb andb] in *;
         repeat match goal with H : context [if ?b then _ else _] |- _ => destruct b end;
         now apply opaque_good);
      split; [exact HQ | intros Hw; apply cond_doc_step_good; [exact (HQ Hw) | intros; discriminate]]
    end.
  Ltac finish HQ :=
    split; [exact HQ | intros Hw; apply cond_doc_step_good; [exact (HQ Hw) | intros; discriminate]].

  Lemma forallb_and_split : forall {A} (f g : A -> bool) l,
    forallb (fun x => f x && g x) l = true -> forallb f l = true /\ forallb g l = true.
  Proof.
    induction l as [|x r IH]; intros H; [split; reflexivity|].
    cbn [forallb] in *. apply andb_prop in H as [H Hr]. apply andb_prop in H as [Hf Hg].
    destruct (IH Hr) as [A1 A2]. now rewrite Hf, Hg, A1, A2.
  Qed.

  Lemma fmtd_good_and_cond : forall e, Q e /\ QC e.
  Proof.
    apply expr_ind'.
    - intros; opaque_case.
    - intros; opaque_case.
    - intros; opaque_case.
    - opaque_case.
    - intros; opaque_case.
    - intros; opaque_case.
    - intros; opaque_case.
    - (* EList *)
      intros items H.
      assert (HQ : Q (EList items)).
      { intros Ha j HO. rewrite fmtd_eq' in *. unfold impl_doc in *.
        match goal with |- context [if ?b then _ else _] => destruct b end; [now apply opaque_good|].
        cbn [multiline_doc] in *. cbn [atoms_ok] in Ha. apply forallb_and_split in Ha as [Hc Hs].
        apply list_doc_good; auto.
        rewrite forallb_forall in Hs. rewrite Forall_forall in *. intros c Hin. apply (H c Hin), Hs, Hin. }
      finish HQ.
    - (* ERec *)
      intros entries H.
      assert (HQ : Q (ERec entries)).
      { intros Ha j HO. rewrite fmtd_eq' in *. unfold impl_doc in *.
        match goal with |- context [if ?b then _ else _] => destruct b end; [now apply opaque_good|].
        cbn [multiline_doc] in *. cbn [atoms_ok] in Ha. apply forallb_and_split in Ha as [Hc Hs].
        apply (record_doc_good O key_ok Hrk); auto.
        rewrite forallb_forall in Hs. rewrite Forall_forall in *. intros c Hin.
        specialize (H c Hin). specialize (Hs c Hin).
        destruct c as [lead [k v] tr]; cbn [cnode Pentry Pkey R_entry] in *.
        destruct k; cbn [Pkey] in H.
        + apply H, Hs.
        + apply andb_prop in Hs as [Hk Hv]. destruct H as [[Hk' _] [Hv' _]]. split; auto.
        + exact I.
        + destruct H as [[Hx _] _]. apply Hx, Hs. }
      finish HQ.
    - (* ELam *)
      intros args body [IHe _].
      assert (HQ : Q (ELam args body)).
      { intros Ha j HO. rewrite fmtd_eq' in *. cbn [impl_doc] in *.
        cbn [atoms_ok] in Ha. apply andb_prop in Ha as [Hargs Hb].
        apply lambda_doc_good; auto. }
      finish HQ.
    - (* ECond *)
      intros e1 e2 e3 [Q1 _] [Q2 _] [Q3 QC3].
      assert (HQ : Q (ECond e1 e2 e3)).
      { intros Ha j HO. cbn [atoms_ok] in Ha. apply andb_prop in Ha as [Ha H3]. apply andb_prop in Ha as [H1 H2].
        rewrite fmtd_eq' in *. unfold impl_doc in *.
        match goal with |- context [if ?b then _ else _] => destruct b end; [now apply opaque_good|].
        cbn [multiline_doc] in *. apply (QC3 H3); [exact (Q1 H1)|exact (Q2 H2)|exact HO]. }
      split; [exact HQ|].
      intros Hw; apply cond_doc_step_good; [exact (HQ Hw)|].
      intros c2 t2 e2' Heq; injection Heq as <- <- <-.
      cbn [atoms_ok] in Hw. apply andb_prop in Hw as [Hw H3]. apply andb_prop in Hw as [H1 H2].
      split; [exact (Q1 H1)|]. split; [exact (Q2 H2)|exact (QC3 H3)].
    - (* EDo *)
      intros stmts ret H [IHr _].
      assert (HQ : Q (EDo stmts ret)).
      { intros Ha j HO. rewrite fmtd_eq' in *. cbn [impl_doc multiline_doc] in *.
        cbn [atoms_ok] in Ha. apply andb_prop in Ha as [Ha Hr]. apply andb_prop in Ha as [Hs Hl].
        apply forallb_and_split in Hs as [Hc Hs].
        apply do_doc_good; auto.
        rewrite forallb_forall in Hs. rewrite Forall_forall in *. intros c Hin. apply (H c Hin), Hs, Hin. }
      finish HQ.
    - (* EAssign *)
      intros x v [IHe _].
      assert (HQ : Q (EAssign x v)).
      { intros Ha j HO. rewrite fmtd_eq' in *. unfold impl_doc in *.
        match goal with |- context [if ?b then _ else _] => destruct b end; [now apply opaque_good|].
        cbn [multiline_doc] in *. cbn [atoms_ok] in Ha. apply andb_prop in Ha as [Hx Hv].
        change (Code (x +++ " = ") :: fmtd v j) with ([Code (x +++ " = ")] ++ fmtd v j).
        apply good_app; [apply good_code, neutral_app; [now apply plain_neutral|reflexivity]|].
        apply (IHe Hv). now apply otn_cons in HO. }
      finish HQ.
    - (* EOutput *)
      intros v [IHe _].
      assert (HQ : Q (EOutput v)).
      { intros Ha j HO. rewrite fmtd_eq' in *. unfold impl_doc in *.
        match goal with |- context [if ?b then _ else _] => destruct b end; [now apply opaque_good|].
        cbn [multiline_doc] in *. cbn [atoms_ok] in Ha.
        change (Code "output " :: fmtd v j) with ([Code "output "] ++ fmtd v j).
        apply good_app; [apply good_code; reflexivity|].
        apply (IHe Ha). now apply otn_cons in HO. }
      finish HQ.
    - (* ECall *)
      intros f args [IHf _] H.
      assert (HQ : Q (ECall f args)).
      { intros Ha j HO. rewrite fmtd_eq' in *. unfold impl_doc in *.
        match goal with |- context [if ?b then _ else _] => destruct b end; [now apply opaque_good|].
        cbn [multiline_doc] in *. cbn [atoms_ok] in Ha. apply andb_prop in Ha as [Hf Hargs].
        apply call_doc_good; auto.
        rewrite forallb_forall in Hargs. rewrite Forall_forall in *. intros a Hin. apply (H a Hin), Hargs, Hin. }
      finish HQ.
    - (* EAccess *)
      intros a ix [IHa _] [IHi _].
      assert (HQ : Q (EAccess a ix)).
      { intros Ha j HO. rewrite fmtd_eq' in *. unfold impl_doc in *.
        match goal with |- context [if ?b then _ else _] => destruct b end; [now apply opaque_good|].
        cbn [multiline_doc] in *.
        match goal with |- context [if ?b then _ else _] => destruct b end; [|now apply opaque_good].
        cbn [atoms_ok] in Ha. apply andb_prop in Ha as [H1 H2].
        apply otn_app in HO as [O1 HO]. apply otn_app in HO as [_ HO]. apply otn_app in HO as [O2 _].
        repeat apply good_app; try (apply good_code; reflexivity).
        - apply wrap_parens_good, (IHa H1). now apply otn_wrap_parens in O1.
        - now apply (IHi H2). }
      finish HQ.
    - (* EDot *)
      intros a f [IHa _].
      assert (HQ : Q (EDot a f)).
      { intros Ha j HO. rewrite fmtd_eq' in *. unfold impl_doc in *.
        match goal with |- context [if ?b then _ else _] => destruct b end; [now apply opaque_good|].
        cbn [multiline_doc] in *.
        match goal with |- context [if ?b then _ else _] => destruct b end; [|now apply opaque_good].
        cbn [atoms_ok] in Ha. apply andb_prop in Ha as [H1 H2].
        apply otn_app in HO as [O1 _].
        apply good_app; [apply wrap_parens_good, (IHa H1); now apply otn_wrap_parens in O1|].
        apply good_code. apply neutral_app; [reflexivity|now apply plain_neutral]. }
      finish HQ.
    - (* EBin *)
      intros op e1 e2 [IH1 _] [IH2 _].
      assert (HQ : Q (EBin op e1 e2)).
      { intros Ha j HO. rewrite fmtd_eq' in *. unfold impl_doc in *.
        match goal with |- context [if ?b then _ else _] => destruct b end; [now apply opaque_good|].
        cbn [multiline_doc] in *. cbn [atoms_ok] in Ha. apply andb_prop in Ha as [H1 H2].
        apply binop_doc_good; auto. }
      finish HQ.
    - (* EUn *)
      intros op x [IHx _].
      assert (HQ : Q (EUn op x)).
      { intros Ha j HO. rewrite fmtd_eq' in *. unfold impl_doc in *.
        match goal with |- context [if ?b then _ else _] => destruct b end; [now apply opaque_good|].
        cbn [multiline_doc] in *.
        match goal with |- context [if ?b then _ else _] => destruct b end; [|now apply opaque_good].
        cbn [atoms_ok] in Ha. apply otn_app in HO as [_ O1].
        apply good_app; [apply good_code; destruct op; reflexivity|].
        apply wrap_parens_good, (IHx Ha). now apply otn_wrap_parens in O1. }
      finish HQ.
    - (* EFact *)
      intros x [IHx _].
      assert (HQ : Q (EFact x)).
      { intros Ha j HO. rewrite fmtd_eq' in *. unfold impl_doc in *.
        match goal with |- context [if ?b then _ else _] => destruct b end; [now apply opaque_good|].
        cbn [multiline_doc] in *.
        match goal with |- context [if ?b then _ else _] => destruct b end; [|now apply opaque_good].
        cbn [atoms_ok] in Ha. apply otn_app in HO as [O1 _].
        apply good_app; [|apply good_code; reflexivity].
        apply wrap_parens_good, (IHx Ha). now apply otn_wrap_parens in O1. }
      finish HQ.
    - (* ESpread *)
      intros x [IHx _].
      assert (HQ : Q (ESpread x)).
      { intros Ha j HO. rewrite fmtd_eq' in *. unfold impl_doc in *.
        match goal with |- context [if ?b then _ else _] => destruct b end; [now apply opaque_good|].
        cbn [multiline_doc] in *.
        match goal with |- context [if ?b then _ else _] => destruct b end; [|now apply opaque_good].
        cbn [atoms_ok] in Ha. apply otn_app in HO as [_ O1].
        apply good_app; [apply good_code; reflexivity|]. now apply (IHx Ha). }
      finish HQ.
  Qed.

  (* no layout merges a comment into code or code into a comment *)
  Theorem fmtd_wf_doc : forall e i,
    atoms_ok e = true -> opaque_texts_neutral (fmtd e i) -> wf_doc (fmtd e i).
  Proof. intros e i Ha HO. exact (proj1 (proj1 (fmtd_good_and_cond e) Ha i HO)). Qed.

  (* the whole chain: the comments found by scanning the text the formatter prints are the
     comments of the AST *)
  Theorem fmtd_text_comments : forall e i,
    wf_ast e = true -> atoms_ok e = true ->
    forallb cfree (doc_opaque (fmtd e i)) = true -> opaque_texts_neutral (fmtd e i) ->
    scan_comments (render (fmtd e i)) = expr_comments e.
  Proof.
    intros e i Hw Ha Hc HO.
    rewrite render_scan by (now apply fmtd_wf_doc).
    now apply fmtd_comments_preserved.
  Qed.
End Fmt.

(* the executable format_record_key satisfies the key hypothesis for identifier keys *)
Lemma ident_char_plain : forall c,
  (ascii_alpha c || ascii_digit c || Ascii.eqb c "_")%bool = true -> plain_char c = true.
Proof. intros c. destruct c as [[] [] [] [] [] [] [] []]; vm_compute; intros; try reflexivity; discriminate. Qed.

Lemma record_key_impl_neutral : forall k, is_valid_identifier k = true -> neutral (record_key_impl k).
Proof.
  intros k H. unfold record_key_impl. rewrite H. apply plain_neutral.
  destruct k as [|c r]; [discriminate|]. cbn [is_valid_identifier] in H.
  apply andb_prop in H as [H Hr]. apply andb_prop in H as [_ Hc].
  unfold plain. cbn [all_chars]. apply andb_true_intro. split.
  - apply ident_char_plain. apply orb_prop in Hc as [Hc|Hc]; rewrite Hc; [reflexivity|now rewrite orb_true_r].
  - clear -Hr. induction r as [|d r IH]; [reflexivity|]. cbn [all_chars] in *.
    apply andb_prop in Hr as [Hd Hr]. rewrite (ident_char_plain d Hd), (IH Hr). reflexivity.
Qed.
