(* EmitInRef.v — C05, the repaired law for input references (finding F54, known/C05.json).

   Before the repair `#field` inside a function body was no use of any name (so `inputs` was not captured
   by `x => x * #rate`) and emission left `#field` in place: the emitted function read the inputs of
   whichever program loaded it.  Repaired code: collect_free_variables counts `#field` as a use of
   `inputs`, and expr_to_source_with_scope prints `#field` the way it prints `inputs.field`, i.e. with
   the captured `inputs` inlined.  Here:
     - a lambda whose body mentions `#field` captures `inputs` ([inref_captures_inputs]);
     - under a scope that holds `inputs`, `#field` and `inputs.field` are emitted identically, as
       `<literal of inputs>.field` ([subst_inref]);
     - that text evaluates, in EVERY configuration (whatever inputs the loading program has), to what
       `#field` evaluated to where `inputs` was the captured value ([inref_emission_sound]);
     - when `inputs` is shadowed by a parameter the reference is left in place ([subst_inref_shadowed]). *)
From Coq Require Import String Ascii List ZArith Bool.
Require Import Blots.Num Blots.gen.Builtins Blots.Ast Blots.Value Blots.Outcome Blots.Binop Blots.Env
               Blots.Eval Blots.Emit Blots.proofs.ValueInd Blots.proofs.EmitSubst Blots.proofs.EmitLit.
Import ListNotations.
Open Scope string_scope.
Open Scope list_scope.

Lemma subst_inref : forall n d sc f v, rec_get sc "inputs" = Some v ->
  subst d (scope_map n d sc) (EInRef f) = EDot (value_to_ast n d v) f /\
  subst d (scope_map n d sc) (EInRef f) = subst d (scope_map n d sc) (EDot (EId "inputs") f).
Proof.
  intros n d sc f v H. cbn [subst]. rewrite scope_map_get, H. cbn [option_map]. split; reflexivity.
Qed.
Lemma subst_inref_absent : forall n d sc f, rec_get sc "inputs" = None ->
  subst d (scope_map n d sc) (EInRef f) = EInRef f.
Proof. intros n d sc f H. cbn [subst]. rewrite scope_map_get, H. reflexivity. Qed.
(* a parameter named `inputs` shadows the captured value: the body's `#field` reads the parameter *)
Lemma subst_inref_shadowed : forall d m f,
  subst d m (ELam [AReq "inputs"] (EInRef f)) = ELam [AReq "inputs"] (EInRef f).
Proof.
  intros d m f. cbn [subst map arg_name smap_remove_all fold_left].
  rewrite rec_get_remove. cbn. reflexivity.
Qed.

(* the free-variable scan sees the reference, so the Lambda arm captures `inputs` *)
Lemma inref_free : forall f bound, mem "inputs" bound = false -> free_vars (EInRef f) bound = ["inputs"].
Proof. intros f bound H. cbn [free_vars]. rewrite H. reflexivity. Qed.
Lemma inref_captures_inputs : forall fr f v,
  lookup fr "inputs" = Some v -> capture fr (free_vars (EInRef f) []) [] = [("inputs", v)].
Proof. intros fr f v H. cbn [free_vars mem existsb capture]. rewrite H. reflexivity. Qed.

Section Sound.
  Variable release : bool.
  Variable binop_impl : callback -> binop -> value -> value -> store -> outcome value * store.
  Variable apply : frames -> callback.
  Notation evalE := (evalE release binop_impl apply).

  (* what `#field` evaluates to where `inputs` is v *)
  Lemma inref_eval : forall c f v, lookup (snd c) "inputs" = Some v ->
    evalE c (EInRef f) = (dot_val v f, c).
  Proof. intros c f v H. cbn [Eval.evalE]. rewrite H. destruct v; reflexivity. Qed.

  (* THE REPAIRED LAW: the emitted form of `#field` evaluates in every configuration c (the program that
     loads the function, with whatever inputs of its own) to what `#field` gave in a configuration c0 whose
     `inputs` was the captured value, and touches nothing *)
  Theorem inref_emission_sound : forall n d sc f v c0 c,
    rec_get sc "inputs" = Some v -> emittable_gen v = true ->
    lookup (snd c0) "inputs" = Some v ->
    evalE c (subst d (scope_map n d sc) (EInRef f)) = (fst (evalE c0 (EInRef f)), c).
  Proof.
    intros n d sc f v c0 c Hsc Hem Hin.
    rewrite (proj1 (subst_inref n d sc f v Hsc)), (inref_eval c0 f v Hin). cbn [fst Eval.evalE].
    rewrite (lit_roundtrip release binop_impl apply n d v Hem c). reflexivity.
  Qed.
End Sound.
