(* EmitInRef.v — C05, the repaired law for input references (finding F54, known/C05.json).

   Before the repair `#field` inside a function body was no use of any name (so `inputs` was not captured
   by `x => x * #rate`) and emission left `#field` in place: the emitted function read the inputs of
   whichever program loaded it.  Repaired code: collect_free_variables counts `#field` as a use of
   `inputs`, and expr_to_source_with_scope prints `#field` the way it prints `inputs.field`, i.e. with
   the captured `inputs` inlined.  Here:
     - a lambda whose body mentions `#field` captures `inputs` ([inref_captures_inputs]);
     - under a scope that holds `inputs`, `#field` and `inputs.field` are emitted identically, as
       `<literal of inputs>.field` ([subst_inref]);
     - that text evaluates, in EVERY configuration (whatever inputs the loading program has), to what
       `#field` evaluated to where `inputs` was the captured value ([inref_emission_sound]);
     - when `inputs` is shadowed by a parameter the reference is left in place ([subst_inref_shadowed]). *)
From Coq Require Import String Ascii List ZArith Bool.
Require Import Blots.Num Blots.gen.Builtins Blots.Ast Blots.Value Blots.Outcome Blots.Binop Blots.Env
               Blots.Eval Blots.Emit Blots.proofs.ValueInd Blots.proofs.EmitSubst Blots.proofs.EmitLit.
Import ListNotations.
Open Scope string_scope.
Open Scope list_scope.

Lemma subst_concat_ast : forall d m l acc, subst d m acc = acc -> subst d m (concat_ast acc l) = concat_ast acc l.
Proof. intros d m l; induction l as [|p l IH]; intros acc H; cbn [concat_ast]; [exact H|]. apply IH. cbn [subst]. rewrite H. reflexivity. Qed.
Lemma subst_str_to_ast : forall d m s, subst d m (str_to_ast s) = str_to_ast s.
Proof.
  intros d m s. unfold str_to_ast. destruct (both_quotes s); [|reflexivity].
  destruct (split_dq s ""); [reflexivity|]. apply subst_concat_ast. reflexivity.
Qed.
Lemma subst_inref : forall n d sc f v, rec_get sc "inputs" = Some v ->
  subst d (scope_map n d sc) (EInRef f) =
    (if is_valid_identifier f then EDot (value_to_ast n d v) f else EAccess (value_to_ast n d v) (str_to_ast f)) /\
  (is_valid_identifier f = true ->
   subst d (scope_map n d sc) (EInRef f) = subst d (scope_map n d sc) (EDot (EId "inputs") f)) /\
  (is_valid_identifier f = false ->
   subst d (scope_map n d sc) (EInRef f) = subst d (scope_map n d sc) (EAccess (EId "inputs") (str_to_ast f))).
Proof.
  intros n d sc f v H. cbn [subst]. rewrite scope_map_get, H. cbn [option_map].
  split; [reflexivity|]. split; intros E; rewrite E; [reflexivity|].
  f_equal. symmetry. apply subst_str_to_ast.
Qed.
Lemma subst_inref_absent : forall n d sc f, rec_get sc "inputs" = None ->
  subst d (scope_map n d sc) (EInRef f) = EInRef f.
Proof. intros n d sc f H. cbn [subst]. rewrite scope_map_get, H. reflexivity. Qed.
(* a parameter named `inputs` shadows the captured value: the body's `#field` reads the parameter *)
Lemma subst_inref_shadowed : forall d m f,
  subst d m (ELam [AReq "inputs"] (EInRef f)) = ELam [AReq "inputs"] (EInRef f).
Proof.
  intros d m f. cbn [subst map arg_name smap_remove_all fold_left].
  rewrite rec_get_remove. cbn. reflexivity.
Qed.

(* the free-variable scan sees the reference, so the Lambda arm captures `inputs` *)
Lemma inref_free : forall f bound, mem "inputs" bound = false -> free_vars (EInRef f) bound = ["inputs"].
Proof. intros f bound H. cbn [free_vars]. rewrite H. reflexivity. Qed.
Lemma inref_captures_inputs : forall fr f v,
  lookup fr "inputs" = Some v -> capture fr (free_vars (EInRef f) []) [] = [("inputs", v)].
Proof. intros fr f v H. cbn [free_vars mem existsb capture]. rewrite H. reflexivity. Qed.

Section Sound.
  Variable release : bool.
  Variable binop_impl : callback -> binop -> value -> value -> store -> outcome value * store.
  Variable apply : frames -> callback.
  Notation evalE := (evalE release binop_impl apply).

  (* what `#field` evaluates to where `inputs` is v *)
  Lemma inref_eval : forall c f v, lookup (snd c) "inputs" = Some v ->
    evalE c (EInRef f) = (dot_val v f, c).
  Proof. intros c f v H. cbn [Eval.evalE]. rewrite H. destruct v; reflexivity. Qed.

  (* THE REPAIRED LAW: the emitted form of `#field` evaluates in every configuration c (the program that loads
     the function, with whatever inputs of its own) to what `#field` gave in a configuration c0 whose `inputs` was
     the captured value, and touches nothing.  For a field that is not a valid identifier (a reserved word: `#if`)
     the emitted form is the index `<inputs>["if"]`: indexing a record by a string is the field access, and indexing
     anything else by a string fails like the field access does (Expr::Access arm of evaluate_ast) *)
  Theorem inref_emission_sound : forall n d sc f v c0 c,
    rec_get sc "inputs" = Some v -> emittable_gen v = true -> both_quotes f = false ->
    lookup (snd c0) "inputs" = Some v ->
    evalE c (subst d (scope_map n d sc) (EInRef f)) = (fst (evalE c0 (EInRef f)), c).
  Proof.
    intros n d sc f v c0 c Hsc Hem Hq Hin.
    rewrite (proj1 (subst_inref n d sc f v Hsc)), (inref_eval c0 f v Hin). cbn [fst].
    destruct (is_valid_identifier f); cbn [Eval.evalE];
      rewrite (lit_roundtrip release binop_impl apply n d v Hem c); [reflexivity|].
    unfold str_to_ast. rewrite Hq. cbn [Eval.evalE]. destruct v; reflexivity.
  Qed.
End Sound.
