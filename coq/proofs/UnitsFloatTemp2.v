(* proofs/UnitsFloatTemp2.v — C17, binary64, temperature kind: explicit numbers for the error recurrence of
   UnitsFloatTemp.v (the (1+u) factors, u and eta replaced by numeric upper bounds where only a coarse bound is
   needed), and the explicit there-and-back theorem. *)
From Coq Require Import ZArith Reals String List Bool Lia Lra Floats.SpecFloat.
From Flocq Require Import Core.Core IEEE754.BinarySingleNaN.
Require Import Blots.Num Blots.UnitsBase Blots.gen.UnitsTable Blots.Units Blots.proofs.UnitsFloat.
Require Import Blots.proofs.DisplayNumFloat Blots.proofs.DisplayNumFinite Blots.proofs.DisplayNumAccStd.
Require Import Blots.proofs.UnitsFloatTemp.
Import ListNotations.
Open Scope R_scope.

(* ---------------------------------------------------------------- explicit numbers *)
(* the recurrences with the (1+u) factors / u / eta replaced by numeric upper bounds *)
Fixpoint gPw (w : R) (ops : list aop) : R :=
  match ops with [] => 1 | o :: r => gain o * w * gPw w r end.
Fixpoint gSw (w : R) (ops : list aop) : R :=
  match ops with [] => 0 | o :: r => gPw w r + gSw w r end.

Lemma gPw_mono : forall w ops, forallb (fun o => cstb (aop_c o)) ops = true -> 1 + u64 <= w ->
  0 < gP ops <= gPw w ops.
Proof.
  intros w. induction ops as [|o ops IH]; intros H Hw; cbn [gP gPw]; [lra|].
  cbn [forallb] in H. apply andb_true_iff in H. destruct H as [H1 H2].
  pose proof (gain_pos o H1) as G. destruct (IH H2 Hw) as [P1 P2].
  assert (U : 0 < u64) by apply bpow_gt_0.
  split; [apply Rmult_lt_0_compat; [apply Rmult_lt_0_compat; lra|exact P1]|].
  apply Rmult_le_compat; try lra.
  - apply Rmult_le_pos; lra.
  - apply Rmult_le_compat_l; lra.
Qed.

Lemma gSw_mono : forall w ops, forallb (fun o => cstb (aop_c o)) ops = true -> 1 + u64 <= w ->
  gS ops <= gSw w ops.
Proof.
  intros w. induction ops as [|o ops IH]; intros H Hw; cbn [gS gSw]; [lra|].
  cbn [forallb] in H. apply andb_true_iff in H. destruct H as [H1 H2].
  destruct (gPw_mono w ops H2 Hw) as [_ P]. pose proof (IH H2 Hw). lra.
Qed.

(* ---------- no overflow, from the closed form of the running error ---------- *)
Lemma err_app : forall p q x eps, err (p ++ q) x eps = err q (run_R p x) (err p x eps).
Proof. induction p as [|o p IH]; intros; [reflexivity|]. cbn [app err run_R]. apply IH. Qed.

Lemma bounded_by_app : forall p q x X, bounded_by (p ++ q) x X <-> bounded_by p x X /\ bounded_by q (run_R p x) X.
Proof.
  induction p as [|o p IH]; intros q x X; cbn [app bounded_by run_R]; [tauto|].
  rewrite IH. tauto.
Qed.

Lemma run_R_snoc : forall p o x, run_R (p ++ [o]) x = aop_R o (run_R p x).
Proof. intros. now rewrite run_R_app. Qed.

(* for every split ops = p ++ o :: r:  gain o * gSw w p <= G *)
Fixpoint pref_ok (w G : R) (p q : list aop) : Prop :=
  match q with
  | [] => True
  | o :: r => gain o * gSw w p <= G /\ pref_ok w G (p ++ [o]) r
  end.

Lemma safe_of_pref : forall w G X q p x,
  1 + u64 <= w ->
  forallb (fun o => cstb (aop_c o)) (p ++ q) = true ->
  bounded_by (p ++ q) x X -> pref_ok w G p q ->
  X + G * (u64 * X + eta64) <= bpow radix2 1022 ->
  safe q (run_R p x) (err p x 0).
Proof.
  intros w G X. induction q as [|o q IH]; intros p x Hw Hc HB HP HX; cbn [safe]; [exact I|].
  cbn [pref_ok] in HP. destruct HP as [P1 P2].
  pose proof Hc as Hc0. rewrite forallb_app in Hc. apply andb_true_iff in Hc. destruct Hc as [Hcp Hcq].
  cbn [forallb] in Hcq. apply andb_true_iff in Hcq. destruct Hcq as [Hco Hcq].
  pose proof HB as HB0. apply bounded_by_app in HB. destruct HB as [Bp Bq].
  cbn [bounded_by] in Bq. destruct Bq as [Bo Bq].
  pose proof (gain_pos o Hco) as Gp.
  assert (U : 0 < u64) by apply bpow_gt_0. assert (E : 0 < eta64) by apply bpow_gt_0.
  pose proof (err_bound p x 0 X Hcp (Rle_refl 0) Bp) as EB. rewrite Rmult_0_r, Rplus_0_l in EB.
  pose proof (gSw_mono w p Hcp Hw) as GM.
  assert (X0 : 0 <= X) by (eapply Rle_trans; [apply Rabs_pos|exact Bo]).
  assert (T0 : 0 <= u64 * X + eta64) by (assert (0 <= u64 * X) by (apply Rmult_le_pos; lra); lra).
  assert (K : gain o * err p x 0 <= G * (u64 * X + eta64)).
  { apply Rle_trans with (gain o * (gSw w p * (u64 * X + eta64))).
    - apply Rmult_le_compat_l; [lra|]. eapply Rle_trans; [exact EB|]. apply Rmult_le_compat_r; lra.
    - rewrite <- Rmult_assoc. apply Rmult_le_compat_r; lra. }
  split; [lra|].
  specialize (IH (app p [o]) x Hw).
  rewrite run_R_snoc, err_app in IH. cbn [err] in IH.
  apply IH; try assumption; rewrite <- app_assoc; cbn [app]; assumption.
Qed.

Lemma gain_c5 : Rabs (RV c5) = 5.  Proof. rewrite RV_c5. apply Rabs_pos_eq. lra. Qed.
Lemma gain_c9 : Rabs (RV c9) = 9.  Proof. rewrite RV_c9. apply Rabs_pos_eq. lra. Qed.

Lemma w_ok : 1 + u64 <= 1001 / 1000.
Proof.
  assert (A : u64 <= / 1000).
  { unfold u64. apply Rle_trans with (bpow radix2 (-10)); [apply bpow_le; lia|].
    change (bpow radix2 (-10)) with (/ 1024). lra. }
  lra.
Qed.

(* the facts needed of a there-and-back chain, for each of the 3 x 3 inverse pairs *)
Lemma there_back_bounded : forall ta fa tb fb a V X,
  inverse_pair ta fa = true -> inverse_pair tb fb = true ->
  - V <= a <= V -> X = 9 * (V + 1000) ->
  bounded_by (there_back_ops ta fa tb fb) a X.
Proof.
  intros ta fa tb fb a V X Ia Ib Ha HX. pose proof RV_cA as HA.
  destruct ta, fa; try discriminate Ia; destruct tb, fb; try discriminate Ib;
    cbn [there_back_ops tempfn_ops app bounded_by aop_R];
    rewrite ?RV_c32, ?RV_c5, ?RV_c9; repeat split; apply Rabs_le; split; lra.
Qed.

Lemma there_back_gains : forall ta fa tb fb,
  inverse_pair ta fa = true -> inverse_pair tb fb = true ->
  pref_ok (1001 / 1000) 200 [] (there_back_ops ta fa tb fb) /\
  gSw (1001 / 1000) (there_back_ops ta fa tb fb) <= 200.
Proof.
  intros ta fa tb fb Ia Ib.
  destruct ta, fa; try discriminate Ia; destruct tb, fb; try discriminate Ib;
    cbn [there_back_ops tempfn_ops app pref_ok gSw gPw gain];
    rewrite ?gain_c5, ?gain_c9; repeat split; lra.
Qed.

(* THERE AND BACK, temperature kind, explicit: every pair of temperature units with inverse function pairs,
   every valid finite double (zeros included) with |v| <= 2^1000 *)
Theorem there_and_back_float_temperature_explicit : forall ua ub ta fa tb fb v,
  u_conv ua = Temperature ta fa -> u_conv ub = Temperature tb fb ->
  inverse_pair ta fa = true -> inverse_pair tb fb = true ->
  fval v -> Rabs (RV v) <= bpow radix2 1000 ->
  let r4 := through_base fl (through_base fl v ua ub) ub ua in
  fval r4 /\
  Rabs (RV r4 - RV v) <= 200 * (u64 * (9 * (Rabs (RV v) + 1000)) + eta64).
Proof.
  intros ua ub ta fa tb fb v Ha Hb Ia Ib Fv Bv r4.
  set (V := Rabs (RV v)) in *. set (X := 9 * (V + 1000)).
  assert (V0 : 0 <= V) by apply Rabs_pos.
  assert (HV : - V <= RV v <= V) by (apply Rabs_le_inv; unfold V; apply Rle_refl).
  assert (U : 0 < u64) by apply bpow_gt_0. assert (E : 0 < eta64) by apply bpow_gt_0.
  pose proof (there_back_bounded ta fa tb fb (RV v) V X Ia Ib HV eq_refl) as Bd.
  destruct (there_back_gains ta fa tb fb Ia Ib) as [Pf Gs].
  pose proof w_ok as W1.
  assert (HX : X + 200 * (u64 * X + eta64) <= bpow radix2 1022).
  { assert (X <= bpow radix2 1005).
    { unfold X. change 1005%Z with (1000 + 5)%Z. rewrite bpow_plus. change (bpow radix2 5) with 32.
      assert (1000 <= bpow radix2 1000).
      { apply Rle_trans with (bpow radix2 10); [change (bpow radix2 10) with 1024; lra|apply bpow_le; lia]. }
      lra. }
    assert (u64 <= 1) by (unfold u64; change 1 with (bpow radix2 0); apply bpow_le; lia).
    assert (eta64 <= 1) by (unfold eta64; change 1 with (bpow radix2 0); apply bpow_le; lia).
    assert (X0 : 0 <= X) by (unfold X; lra).
    assert (u64 * X <= X) by (rewrite <- (Rmult_1_l X) at 2; apply Rmult_le_compat_r; lra).
    assert (1 <= bpow radix2 1005) by (change 1 with (bpow radix2 0); apply bpow_le; lia).
    apply Rle_trans with (402 * bpow radix2 1005); [lra|].
    apply Rle_trans with (bpow radix2 9 * bpow radix2 1005).
    - apply Rmult_le_compat_r; [apply bpow_ge_0|]. change (bpow radix2 9) with 512. lra.
    - rewrite <- bpow_plus. apply bpow_le. lia. }
  pose proof (safe_of_pref (1001 / 1000) 200 X (there_back_ops ta fa tb fb) [] (RV v) W1
                (there_back_cst ta fa tb fb) Bd Pf HX) as Hs.
  cbn [run_R err] in Hs.
  destruct (there_and_back_float_temperature ua ub ta fa tb fb v Ha Hb Ia Ib Fv Hs) as [F Er].
  split; [exact F|]. fold r4 in Er. eapply Rle_trans; [exact Er|].
  eapply Rle_trans; [apply (err_bound _ _ 0 X (there_back_cst ta fa tb fb) (Rle_refl 0) Bd)|].
  rewrite Rmult_0_r, Rplus_0_l.
  pose proof (gSw_mono (1001 / 1000) _ (there_back_cst ta fa tb fb) W1) as M.
  assert (P : 0 <= u64 * X + eta64).
  { assert (0 <= X) by (unfold X; lra). assert (0 <= u64 * X) by (apply Rmult_le_pos; lra). lra. }
  unfold X in *. apply Rmult_le_compat_r; [exact P|lra].
Qed.

(* over the regenerated table: every pair of temperature units (their function pairs are inverse pairs by
   table_wellformed) *)
Require Import Blots.proofs.UnitsLaws.
Open Scope R_scope.
Theorem there_and_back_float_temperature_table : forall ua ub ta fa tb fb v,
  In ua all_units -> In ub all_units ->
  u_conv ua = Temperature ta fa -> u_conv ub = Temperature tb fb ->
  fval v -> Rabs (RV v) <= bpow radix2 1000 ->
  let r4 := through_base fl (through_base fl v ua ub) ub ua in
  fval r4 /\
  Rabs (RV r4 - RV v) <= 200 * (u64 * (9 * (Rabs (RV v) + 1000)) + eta64).
Proof.
  intros ua ub ta fa tb fb v Ia Ib Ha Hb Fv Bv.
  pose proof (table_wellformed ua Ia) as Wa. pose proof (table_wellformed ub Ib) as Wb.
  unfold unit_wf in Wa, Wb. rewrite Ha in Wa. rewrite Hb in Wb.
  exact (there_and_back_float_temperature_explicit ua ub ta fa tb fb v Ha Hb Wa Wb Fv Bv).
Qed.

Definition temperature_units : list string :=
  map (fun u => hd ""%string (u_ids u))
      (filter (fun u => match u_conv u with Temperature _ _ => true | _ => false end) all_units).

(* ---------------------------------------------------------------- composition, temperature kind *)
(* A -> B -> C runs the chain  toK_A ++ fromK_B ++ toK_B ++ fromK_C,  A -> C runs  toK_A ++ fromK_C;  over the
   reals fromK_B then toK_B cancel, so both are within their error recurrences of the same exact value *)
Definition comp_ops (ta fb tb fc : tempfn) : list aop :=
  tempfn_ops ta ++ tempfn_ops fb ++ tempfn_ops tb ++ tempfn_ops fc.
Definition direct_ops (ta fc : tempfn) : list aop := tempfn_ops ta ++ tempfn_ops fc.

Lemma comp_is_chain : forall ua ub uc ta fa tb fb tc fc v,
  u_conv ua = Temperature ta fa -> u_conv ub = Temperature tb fb -> u_conv uc = Temperature tc fc ->
  through_base fl (through_base fl v ua ub) ub uc = run_fl (comp_ops ta fb tb fc) v /\
  through_base fl v ua uc = run_fl (direct_ops ta fc) v.
Proof.
  intros ua ub uc ta fa tb fb tc fc v Ha Hb Hc.
  unfold through_base, convert_from_base, convert_to_base, comp_ops, direct_ops.
  rewrite Ha, Hb, Hc. rewrite !tempfn_apply_ops, !run_fl_app. split; reflexivity.
Qed.

Lemma comp_exact : forall ta fb tb fc x, inverse_pair tb fb = true ->
  run_R (comp_ops ta fb tb fc) x = run_R (direct_ops ta fc) x.
Proof.
  intros ta fb tb fc x Hb. unfold comp_ops, direct_ops. rewrite !run_R_app.
  destruct (inverse_pair_R tb fb (run_R (tempfn_ops ta) x) Hb) as [_ E]. now rewrite E.
Qed.

Lemma comp_cst : forall ta fb tb fc,
  forallb (fun o => cstb (aop_c o)) (comp_ops ta fb tb fc) = true /\
  forallb (fun o => cstb (aop_c o)) (direct_ops ta fc) = true.
Proof.
  intros. unfold comp_ops, direct_ops. rewrite !forallb_app, !tempfn_ops_cst. split; reflexivity.
Qed.

Lemma comp_bounded : forall ta fa tb fb tc fc a V X,
  inverse_pair ta fa = true -> inverse_pair tb fb = true -> inverse_pair tc fc = true ->
  - V <= a <= V -> X = 9 * (V + 1000) ->
  bounded_by (comp_ops ta fb tb fc) a X /\ bounded_by (direct_ops ta fc) a X.
Proof.
  intros ta fa tb fb tc fc a V X Ia Ib Ic Ha HX. pose proof RV_cA as HA.
  destruct ta, fa; try discriminate Ia; destruct tb, fb; try discriminate Ib;
    destruct tc, fc; try discriminate Ic;
    cbn [comp_ops direct_ops tempfn_ops app bounded_by aop_R];
    rewrite ?RV_c32, ?RV_c5, ?RV_c9; repeat split; apply Rabs_le; split; lra.
Qed.

Lemma comp_gains : forall ta fa tb fb tc fc,
  inverse_pair ta fa = true -> inverse_pair tb fb = true -> inverse_pair tc fc = true ->
  (pref_ok (1001 / 1000) 200 [] (comp_ops ta fb tb fc) /\ gSw (1001 / 1000) (comp_ops ta fb tb fc) <= 200) /\
  (pref_ok (1001 / 1000) 200 [] (direct_ops ta fc) /\ gSw (1001 / 1000) (direct_ops ta fc) <= 200).
Proof.
  intros ta fa tb fb tc fc Ia Ib Ic.
  destruct ta, fa; try discriminate Ia; destruct tb, fb; try discriminate Ib;
    destruct tc, fc; try discriminate Ic;
    cbn [comp_ops direct_ops tempfn_ops app pref_ok gSw gPw gain];
    rewrite ?gain_c5, ?gain_c9; repeat split; lra.
Qed.

(* a chain with the three facts: explicit error *)
Lemma chain_explicit : forall ops v V X,
  forallb (fun o => cstb (aop_c o)) ops = true ->
  fval v -> V = Rabs (RV v) -> V <= bpow radix2 1000 -> X = 9 * (V + 1000) ->
  bounded_by ops (RV v) X -> pref_ok (1001 / 1000) 200 [] ops -> gSw (1001 / 1000) ops <= 200 ->
  fval (run_fl ops v) /\ Rabs (RV (run_fl ops v) - run_R ops (RV v)) <= 200 * (u64 * X + eta64).
Proof.
  intros ops v V X Hc Fv HV Bv HX Bd Pf Gs.
  assert (V0 : 0 <= V) by (rewrite HV; apply Rabs_pos).
  assert (U : 0 < u64) by apply bpow_gt_0. assert (E : 0 < eta64) by apply bpow_gt_0.
  pose proof w_ok as W1.
  assert (X0 : 0 <= X) by (rewrite HX; lra).
  assert (HB : X + 200 * (u64 * X + eta64) <= bpow radix2 1022).
  { assert (X <= bpow radix2 1005).
    { rewrite HX. change 1005%Z with (1000 + 5)%Z. rewrite bpow_plus. change (bpow radix2 5) with 32.
      assert (1000 <= bpow radix2 1000).
      { apply Rle_trans with (bpow radix2 10); [change (bpow radix2 10) with 1024; lra|apply bpow_le; lia]. }
      lra. }
    assert (u64 <= 1) by (unfold u64; change 1 with (bpow radix2 0); apply bpow_le; lia).
    assert (eta64 <= 1) by (unfold eta64; change 1 with (bpow radix2 0); apply bpow_le; lia).
    assert (u64 * X <= X) by (rewrite <- (Rmult_1_l X) at 2; apply Rmult_le_compat_r; lra).
    assert (1 <= bpow radix2 1005) by (change 1 with (bpow radix2 0); apply bpow_le; lia).
    apply Rle_trans with (402 * bpow radix2 1005); [lra|].
    apply Rle_trans with (bpow radix2 9 * bpow radix2 1005).
    - apply Rmult_le_compat_r; [apply bpow_ge_0|]. change (bpow radix2 9) with 512. lra.
    - rewrite <- bpow_plus. apply bpow_le. lia. }
  pose proof (safe_of_pref (1001 / 1000) 200 X ops [] (RV v) W1 Hc Bd Pf HB) as Hs. cbn [run_R err] in Hs.
  destruct (chain_error ops v (RV v) 0 Fv Hc (Rle_refl 0)) as [F Er]; [|exact Hs|].
  { replace (RV v - RV v) with 0 by ring. rewrite Rabs_R0. lra. }
  split; [exact F|]. eapply Rle_trans; [exact Er|].
  eapply Rle_trans; [apply (err_bound _ _ 0 X Hc (Rle_refl 0) Bd)|].
  rewrite Rmult_0_r, Rplus_0_l.
  pose proof (gSw_mono (1001 / 1000) _ Hc W1) as M.
  assert (P : 0 <= u64 * X + eta64) by (assert (0 <= u64 * X) by (apply Rmult_le_pos; lra); lra).
  apply Rmult_le_compat_r; [exact P|lra].
Qed.

Theorem composition_float_temperature_table : forall ua ub uc ta fa tb fb tc fc v,
  In ua all_units -> In ub all_units -> In uc all_units ->
  u_conv ua = Temperature ta fa -> u_conv ub = Temperature tb fb -> u_conv uc = Temperature tc fc ->
  fval v -> Rabs (RV v) <= bpow radix2 1000 ->
  let direct := through_base fl v ua uc in
  let via := through_base fl (through_base fl v ua ub) ub uc in
  Rabs (RV via - RV direct) <= 400 * (u64 * (9 * (Rabs (RV v) + 1000)) + eta64).
Proof.
  intros ua ub uc ta fa tb fb tc fc v Ia Ib Ic Ha Hb Hc Fv Bv direct via.
  pose proof (table_wellformed ua Ia) as Wa. pose proof (table_wellformed ub Ib) as Wb.
  pose proof (table_wellformed uc Ic) as Wc.
  unfold unit_wf in Wa, Wb, Wc. rewrite Ha in Wa. rewrite Hb in Wb. rewrite Hc in Wc.
  destruct (comp_is_chain ua ub uc ta fa tb fb tc fc v Ha Hb Hc) as [Ev Ed].
  unfold via, direct. rewrite Ev, Ed.
  set (V := Rabs (RV v)) in *. set (X := 9 * (V + 1000)).
  assert (HV : - V <= RV v <= V) by (apply Rabs_le_inv; unfold V; apply Rle_refl).
  destruct (comp_bounded ta fa tb fb tc fc (RV v) V X Wa Wb Wc HV eq_refl) as [B1 B2].
  destruct (comp_gains ta fa tb fb tc fc Wa Wb Wc) as [[P1 G1] [P2 G2]].
  destruct (comp_cst ta fb tb fc) as [C1 C2].
  destruct (chain_explicit _ v V X C1 Fv eq_refl Bv eq_refl B1 P1 G1) as [_ E1].
  destruct (chain_explicit _ v V X C2 Fv eq_refl Bv eq_refl B2 P2 G2) as [_ E2].
  rewrite (comp_exact ta fb tb fc (RV v) Wb) in E1.
  set (ex := run_R (direct_ops ta fc) (RV v)) in *.
  replace (RV (run_fl (comp_ops ta fb tb fc) v) - RV (run_fl (direct_ops ta fc) v))
    with ((RV (run_fl (comp_ops ta fb tb fc) v) - ex) - (RV (run_fl (direct_ops ta fc) v) - ex)) by ring.
  eapply Rle_trans; [apply Rabs_triang|]. rewrite Rabs_Ropp. fold X. lra.
Qed.
