(* AllGenClosed.v — FullClosed.v once more, for an ARBITRARY predicate on values: the pure built-ins of
   EvalFull.v (aggregates; list, string, record built-ins; convert round random to_number to_string join)
   return values satisfying the predicate on arguments satisfying it — provided the predicate holds of
   every atomic value, of a list / record exactly when it holds of the elements / field values, and of a
   spread exactly when it holds of the spread value.  FullClosed.v is the instance "hereditarily closed"
   (C04); AllLf.v instantiates it with "contains no function value" (C05).  The proofs are FullClosed.v's,
   verbatim, inside a Section whose variables carry the names those proofs use (as GenOps.v does for
   ClosedOps.v). *)
From Coq Require Import String Ascii List ZArith Bool Lia Permutation.
Require Import Blots.Num Blots.gen.Builtins Blots.Ast Blots.Value Blots.Outcome Blots.Binop
               Blots.Env Blots.Eval Blots.BuiltinsHof Blots.Program Blots.EvalInst Blots.EvalFull
               Blots.BuiltinsList Blots.BuiltinsAgg Blots.BuiltinsText Blots.NumText
               Blots.proofs.ValueInd Blots.proofs.GenOps Blots.proofs.SortLaws.
Require Import Blots.proofs.StoreMono.
Import ListNotations.
Open Scope list_scope.
Open Scope nat_scope.

Section AbstractPure.
  Variable store_le : store -> store -> Prop.
  Hypothesis store_le_refl : forall s, store_le s s.
  Hypothesis store_le_trans : forall a b c, store_le a b -> store_le b c -> store_le a c.
  Variable closed_value : store -> value -> Prop.
  Notation closed_list := (GenOps.closed_list closed_value).
  Definition closed_frame (st : store) (f : frame) : Prop := Forall (fun kv => closed_value st (snd kv)) f.
  Hypothesis closed_VList : forall st l, closed_value st (VList l) <-> closed_list st l.
  Hypothesis closed_VRec : forall st r, closed_value st (VRec r) <-> closed_frame st r.
  Hypothesis closed_VSpread : forall st w, closed_value st (VSpread w) <-> closed_value st w.
  Hypothesis atomic_closed : forall st v, atomic v -> closed_value st v.
  Hypothesis closed_mono : forall v st st', store_le st st' -> closed_value st v -> closed_value st' v.

  Ltac triv := first [exact I | apply atomic_closed; exact I].

  Section Pure.
  Variable st : store.

(* the result is a number, a boolean, a string or null: closed in every store *)
Ltac atomic_result H :=
  repeat match type of H with
  | obind ?x _ = Ok _ => destruct x; cbn [obind] in H; try discriminate H
  | (if ?c then _ else _) = Ok _ => destruct c; try discriminate H
  | (match ?x with _ => _ end) = Ok _ => destruct x; try discriminate H
  end;
  try (inversion H; subst; triv).



  Lemma closed_incl : forall l l', closed_list st l -> (forall x, In x l' -> In x l) -> closed_list st l'.
  Proof.
    intros l l' Hc Hin. unfold closed_list in *. rewrite Forall_forall in *. intros x Hx. apply Hc, Hin, Hx.
  Qed.
  Lemma closed_atoms : forall {A} (f : A -> value) l, (forall a, atomic (f a)) -> closed_list st (map f l).
  Proof.
    intros A f l Hf. unfold closed_list. rewrite Forall_forall. intros x Hx. apply in_map_iff in Hx.
    destruct Hx as [a [<- _]]. apply atomic_closed. apply Hf.
  Qed.
  Lemma barg_closed : forall args i v, closed_list st args -> BuiltinsList.arg args i = Ok v -> closed_value st v.
  Proof.
    intros args i v Hc H. unfold BuiltinsList.arg in H. destruct (nth_error args i) eqn:E; inversion H; subst.
    unfold closed_list in Hc. rewrite Forall_forall in Hc. apply Hc. eapply nth_error_In; eauto.
  Qed.
  Lemma aarg_closed : forall args i v, closed_list st args -> BuiltinsAgg.arg args i = Ok v -> closed_value st v.
  Proof.
    intros args i v Hc H. unfold BuiltinsAgg.arg in H. destruct (nth_error args i) eqn:E; inversion H; subst.
    unfold closed_list in Hc. rewrite Forall_forall in Hc. apply Hc. eapply nth_error_In; eauto.
  Qed.

  (* ---- aggregates: always a number ---- *)
  Lemma bi_min_closed : forall args v, bi_min args = Ok v -> closed_value st v.
  Proof. intros args v H. unfold bi_min in H. atomic_result H. Qed.
  Lemma bi_max_closed : forall args v, bi_max args = Ok v -> closed_value st v.
  Proof. intros args v H. unfold bi_max in H. atomic_result H. Qed.
  Lemma bi_avg_closed : forall args v, bi_avg args = Ok v -> closed_value st v.
  Proof. intros args v H. unfold bi_avg in H. atomic_result H. Qed.
  Lemma bi_sum_closed : forall args v, bi_sum args = Ok v -> closed_value st v.
  Proof. intros args v H. unfold bi_sum in H. atomic_result H. Qed.
  Lemma bi_prod_closed : forall args v, bi_prod args = Ok v -> closed_value st v.
  Proof. intros args v H. unfold bi_prod in H. atomic_result H. Qed.
  Lemma bi_median_closed : forall args v, bi_median args = Ok v -> closed_value st v.
  Proof. intros args v H. unfold bi_median in H. atomic_result H. Qed.
  Lemma bi_percentile_closed : forall args v, bi_percentile args = Ok v -> closed_value st v.
  Proof. intros args v H. unfold bi_percentile, bi_percentile_gen in H. atomic_result H. Qed.
  Lemma bi_dot_closed : forall args v, bi_dot args = Ok v -> closed_value st v.
  Proof. intros args v H. unfold bi_dot in H. atomic_result H. Qed.

  (* ---- list built-ins ---- *)
  Lemma bi_range_closed : forall args v, bi_range args = Ok v -> closed_value st v.
  Proof.
    assert (Hb : forall a b v, range_body a b = Ok v -> closed_value st v).
    { intros a b v H. unfold range_body in H.
      destruct (ngtb a b); try discriminate. destruct (_ || _); try discriminate.
      destruct (_ <? _)%Z; try discriminate. inversion H; subst.
      apply closed_VList. apply closed_atoms. intros z; triv. }
    intros args v H. unfold bi_range in H.
    destruct args as [|[] [|[] [|? ?]]]; try discriminate; eapply Hb; exact H.
  Qed.

  Lemma bi_len_closed : forall args v, bi_len args = Ok v -> closed_value st v.
  Proof. intros args v H. unfold bi_len in H. atomic_result H. Qed.

  Lemma bi_head_closed : forall args v, closed_list st args -> bi_head args = Ok v -> closed_value st v.
  Proof.
    intros args v Hc H. unfold bi_head in H.
    destruct (BuiltinsList.arg args 0) as [a0| | | |] eqn:E0; try discriminate. cbn [obind] in H.
    pose proof (barg_closed _ _ _ Hc E0) as Ha0.
    destruct a0; try discriminate; inversion H; subst; try triv.
    apply closed_VList in Ha0. destruct l; [triv|]. inversion Ha0; assumption.
  Qed.

  Lemma in_firstn_in : forall {A} n (l : list A) x, In x (firstn n l) -> In x l.
  Proof.
    intros A n; induction n as [|n IH]; intros l x H; [destruct H|].
    destruct l as [|a l]; [destruct H|]. cbn [firstn] in H. destruct H as [<-|H]; [left; reflexivity|right; apply IH; exact H].
  Qed.
  Lemma in_skipn_in : forall {A} n (l : list A) x, In x (skipn n l) -> In x l.
  Proof.
    intros A n; induction n as [|n IH]; intros l x H; [exact H|].
    destruct l as [|a l]; [destruct H|]. cbn [skipn] in H. right; apply IH; exact H.
  Qed.
  Lemma slice_get_in : forall {A} (l : list A) a b x y, slice_get l a b = Some x -> In y x -> In y l.
  Proof.
    intros A l a b x y H Hy. unfold slice_get in H. destruct (_ && _); try discriminate.
    inversion H; subst. apply in_firstn_in in Hy. eapply in_skipn_in. exact Hy.
  Qed.

  Lemma bi_tail_closed : forall args v, closed_list st args -> bi_tail args = Ok v -> closed_value st v.
  Proof.
    intros args v Hc H. unfold bi_tail in H.
    destruct (BuiltinsList.arg args 0) as [a0| | | |] eqn:E0; try discriminate. cbn [obind] in H.
    pose proof (barg_closed _ _ _ Hc E0) as Ha0.
    destruct a0; try discriminate; inversion H; subst; try triv.
    apply closed_VList in Ha0. apply closed_VList.
    destruct (slice_get l 1 (Z.of_nat (Datatypes.length l))) eqn:E; [|constructor].
    eapply closed_incl; [exact Ha0|]. intros x Hx. eapply slice_get_in; eauto.
  Qed.

  Lemma bi_slice_closed : forall args v, closed_list st args -> bi_slice args = Ok v -> closed_value st v.
  Proof.
    intros args v Hc H. unfold bi_slice in H.
    destruct (BuiltinsList.arg args 1); try discriminate; cbn [obind] in H.
    destruct (BuiltinsList.as_number a); try discriminate; cbn [obind] in H.
    destruct (BuiltinsList.arg args 2); try discriminate; cbn [obind] in H.
    destruct (BuiltinsList.as_number a1); try discriminate; cbn [obind] in H.
    destruct (BuiltinsList.arg args 0) as [a0'| | | |] eqn:E0; try discriminate. cbn [obind] in H.
    pose proof (barg_closed _ _ _ Hc E0) as Ha0.
    destruct a0'; try discriminate.
    - match type of H with match ?x with _ => _ end = _ => destruct x end; inversion H; triv.
    - match type of H with match ?x with _ => _ end = _ => destruct x eqn:E end; inversion H; subst.
      apply closed_VList in Ha0. apply closed_VList.
      eapply closed_incl; [exact Ha0|]. intros x Hx. eapply slice_get_in; eauto.
  Qed.

  Lemma concat_args_closed : forall args, closed_list st args -> closed_list st (concat_args args).
  Proof.
    induction args as [|a rest IH]; intros Hc; cbn [concat_args]; [constructor|].
    inversion Hc as [|? ? Ha Hr]; subst. specialize (IH Hr).
    assert (Hdef : closed_list st (a :: concat_args rest)) by (constructor; assumption).
    destruct a; try exact Hdef.
    - apply closed_VList in Ha. apply Forall_app. split; assumption.
    - destruct a; try exact Hdef.
      + apply Forall_app. split; [apply closed_atoms; intros; triv|exact IH].
      + apply (proj1 (closed_VSpread _ _)) in Ha. apply closed_VList in Ha. apply Forall_app. split; assumption.
  Qed.
  Lemma bi_concat_closed : forall args v, closed_list st args -> bi_concat args = Ok v -> closed_value st v.
  Proof.
    intros args v Hc H. unfold bi_concat in H. inversion H; subst. apply closed_VList.
    apply concat_args_closed; exact Hc.
  Qed.

  Lemma unique_go_in : forall items acc x, In x (unique_go items acc) -> In x items \/ In x acc.
  Proof.
    induction items as [|i rest IH]; intros acc x H; cbn [unique_go] in H; [right; exact H|].
    destruct (existsb _ acc).
    - destruct (IH _ _ H) as [Hr|Ha]; [left; right; exact Hr|right; exact Ha].
    - destruct (IH _ _ H) as [Hr|Ha]; [left; right; exact Hr|].
      apply in_app_or in Ha. destruct Ha as [Ha|[<-|[]]]; [right; exact Ha|left; left; reflexivity].
  Qed.
  Lemma bi_unique_closed : forall args v, closed_list st args -> bi_unique args = Ok v -> closed_value st v.
  Proof.
    intros args v Hc H. unfold bi_unique in H.
    destruct (BuiltinsList.arg args 0) as [a0| | | |] eqn:E0; try discriminate. cbn [obind] in H.
    pose proof (barg_closed _ _ _ Hc E0) as Ha0.
    destruct a0; try discriminate. cbn in H. inversion H; subst.
    apply closed_VList in Ha0. apply closed_VList. eapply closed_incl; [exact Ha0|].
    intros x Hx. destruct (unique_go_in _ _ _ Hx) as [Hi|[]]. exact Hi.
  Qed.

  Lemma bi_sort_closed : forall args v, closed_list st args -> bi_sort args = Ok v -> closed_value st v.
  Proof.
    intros args v Hc H. unfold bi_sort in H.
    destruct (BuiltinsList.arg args 0) as [a0| | | |] eqn:E0; try discriminate. cbn [obind] in H.
    pose proof (barg_closed _ _ _ Hc E0) as Ha0.
    destruct a0; try discriminate. cbn in H. inversion H; subst.
    apply closed_VList in Ha0. apply closed_VList. eapply closed_incl; [exact Ha0|].
    intros x Hx. eapply Permutation_in; [symmetry; apply merge_sort_perm|exact Hx].
  Qed.

  Lemma bi_reverse_closed : forall args v, closed_list st args -> bi_reverse args = Ok v -> closed_value st v.
  Proof.
    intros args v Hc H. unfold bi_reverse in H.
    destruct (BuiltinsList.arg args 0) as [a0| | | |] eqn:E0; try discriminate. cbn [obind] in H.
    pose proof (barg_closed _ _ _ Hc E0) as Ha0.
    destruct a0; try discriminate. cbn in H. inversion H; subst.
    apply closed_VList in Ha0. apply closed_VList. eapply closed_incl; [exact Ha0|].
    intros x Hx. apply in_rev. exact Hx.
  Qed.

  Lemma bi_split_closed : forall args v, bi_split args = Ok v -> closed_value st v.
  Proof.
    intros args v H. unfold bi_split in H.
    destruct (BuiltinsList.arg args 0); try discriminate; cbn [obind] in H.
    destruct (BuiltinsList.as_string a); try discriminate; cbn [obind] in H.
    destruct (BuiltinsList.arg args 1); try discriminate; cbn [obind] in H.
    destruct (BuiltinsList.as_string a1); try discriminate; cbn [obind] in H.
    inversion H; subst. apply closed_VList. apply closed_atoms. intros; triv.
  Qed.
  Lemma bi_replace_closed : forall args v, bi_replace args = Ok v -> closed_value st v.
  Proof. intros args v H. unfold bi_replace in H. atomic_result H. Qed.
  Lemma bi_includes_closed : forall args v, bi_includes args = Ok v -> closed_value st v.
  Proof.
    intros args v H. unfold bi_includes in H.
    destruct (BuiltinsList.arg args 0) as [a0| | | |]; try discriminate. cbn [obind] in H.
    destruct a0; try discriminate.
    - atomic_result H.
    - induction l as [|item rest IH]; [inversion H; triv|].
      destruct (BuiltinsList.arg args 1); try discriminate. cbn [obind] in H.
      destruct (equals item a); [inversion H; triv|apply IH; exact H].
  Qed.

  (* ---- records ---- *)
  Lemma bi_keys_closed : forall args v, bi_keys args = Ok v -> closed_value st v.
  Proof.
    intros args v H. unfold bi_keys in H.
    destruct (BuiltinsList.arg args 0); try discriminate; cbn [obind] in H.
    destruct (as_record a); try discriminate; cbn [obind] in H.
    inversion H; subst. apply closed_VList. apply closed_atoms. intros; triv.
  Qed.
  Lemma bi_values_closed : forall args v, closed_list st args -> bi_values args = Ok v -> closed_value st v.
  Proof.
    intros args v Hc H. unfold bi_values in H.
    destruct (BuiltinsList.arg args 0) as [a0| | | |] eqn:E0; try discriminate. cbn [obind] in H.
    pose proof (barg_closed _ _ _ Hc E0) as Ha0.
    destruct a0; try discriminate. cbn in H. inversion H; subst.
    apply closed_VRec in Ha0. apply closed_VList. unfold closed_list, closed_frame in *.
    rewrite Forall_forall in *. intros x Hx. apply in_map_iff in Hx. destruct Hx as [kv [<- Hkv]].
    apply Ha0; exact Hkv.
  Qed.
  Lemma bi_entries_closed : forall args v, closed_list st args -> bi_entries args = Ok v -> closed_value st v.
  Proof.
    intros args v Hc H. unfold bi_entries in H.
    destruct (BuiltinsList.arg args 0) as [a0| | | |] eqn:E0; try discriminate. cbn [obind] in H.
    pose proof (barg_closed _ _ _ Hc E0) as Ha0.
    destruct a0; try discriminate. cbn in H. inversion H; subst.
    apply closed_VRec in Ha0. apply closed_VList. unfold closed_list, closed_frame in *.
    rewrite Forall_forall in *. intros x Hx. apply in_map_iff in Hx. destruct Hx as [kv [<- Hkv]].
    apply closed_VList. constructor; [triv|]. constructor; [apply Ha0; exact Hkv|constructor].
  Qed.

  (* ---- flatten zip chunk ---- *)
  Lemma flatten_items_closed : forall l, closed_list st l -> closed_list st (flatten_items l).
  Proof.
    induction l as [|a rest IH]; intros Hc; cbn [flatten_items]; [constructor|].
    inversion Hc as [|? ? Ha Hr]; subst. specialize (IH Hr).
    destruct a; try (constructor; assumption).
    apply closed_VList in Ha. apply Forall_app. split; assumption.
  Qed.
  Lemma bi_flatten_closed : forall args v, closed_list st args -> bi_flatten args = Ok v -> closed_value st v.
  Proof.
    intros args v Hc H. unfold bi_flatten in H.
    destruct (BuiltinsList.arg args 0) as [a0| | | |] eqn:E0; try discriminate. cbn [obind] in H.
    pose proof (barg_closed _ _ _ Hc E0) as Ha0.
    destruct a0; try discriminate. cbn in H. inversion H; subst.
    apply closed_VList in Ha0. apply closed_VList. apply flatten_items_closed; exact Ha0.
  Qed.

  Lemma zip_lists_closed : forall args lists,
    closed_list st args ->
    mapM (fun a => match a with VList l => Ok l | _ => Err end) args = Ok lists ->
    Forall (closed_list st) lists.
  Proof.
    induction args as [|a rest IH]; intros lists Hc H; cbn [mapM] in H.
    - inversion H; constructor.
    - inversion Hc as [|? ? Ha Hr]; subst.
      destruct a; try discriminate. cbn [obind] in H.
      destruct (mapM _ rest) eqn:E; try discriminate. cbn [obind] in H. inversion H; subst.
      constructor; [apply closed_VList; exact Ha|apply IH; auto].
  Qed.
  Lemma bi_zip_closed : forall args v, closed_list st args -> bi_zip args = Ok v -> closed_value st v.
  Proof.
    intros args v Hc H. unfold bi_zip in H.
    destruct (mapM _ args) as [lists| | | |] eqn:E; try discriminate. cbn [obind] in H.
    inversion H; subst. pose proof (zip_lists_closed _ _ Hc E) as Hl.
    apply closed_VList. unfold closed_list. rewrite Forall_forall. intros x Hx.
    apply in_map_iff in Hx. destruct Hx as [i [<- _]]. unfold zip_tuple.
    apply closed_VList. unfold closed_list. rewrite Forall_forall. intros y Hy.
    apply in_map_iff in Hy. destruct Hy as [l [<- Hin]].
    rewrite Forall_forall in Hl. specialize (Hl l Hin). unfold closed_list in Hl. rewrite Forall_forall in Hl.
    destruct (nth_in_or_default i l VNull) as [Hn|Hn]; [apply Hl; exact Hn|rewrite Hn; triv].
  Qed.

  Lemma chunk_acc_in : forall {A} (l : list A) n room cur c x,
    In c (chunk_acc l n room cur) -> In x c -> In x l \/ In x cur.
  Proof.
    intros A l. induction l as [|y rest IH]; intros n room cur c x Hc Hx; cbn [chunk_acc] in Hc.
    - destruct cur; [destruct Hc|]. destruct Hc as [<-|[]]. right; exact Hx.
    - destruct room.
      + destruct Hc as [<-|Hc]; [right; exact Hx|].
        destruct (IH _ _ _ _ _ Hc Hx) as [Hr|[<-|[]]]; [left; right; exact Hr|left; left; reflexivity].
      + destruct (IH _ _ _ _ _ Hc Hx) as [Hr|Hr]; [left; right; exact Hr|].
        apply in_app_or in Hr. destruct Hr as [Hr|[<-|[]]]; [right; exact Hr|left; left; reflexivity].
  Qed.
  Lemma bi_chunk_closed : forall args v, closed_list st args -> bi_chunk args = Ok v -> closed_value st v.
  Proof.
    intros args v Hc H. unfold bi_chunk in H.
    destruct (BuiltinsList.arg args 1); try discriminate; cbn [obind] in H.
    destruct (BuiltinsList.as_number a); try discriminate; cbn [obind] in H.
    destruct (_ =? 0)%Z; try discriminate.
    destruct (BuiltinsList.arg args 0) as [a0'| | | |] eqn:E0; try discriminate. cbn [obind] in H.
    pose proof (barg_closed _ _ _ Hc E0) as Ha0.
    destruct a0'; try discriminate. cbn [BuiltinsList.as_list obind] in H. inversion H; subst.
    apply closed_VList in Ha0. apply closed_VList. unfold closed_list. rewrite Forall_forall.
    intros x Hx. apply in_map_iff in Hx. destruct Hx as [c [<- Hin]].
    apply closed_VList. eapply closed_incl; [exact Ha0|]. intros y Hy.
    unfold chunks in Hin. destruct (chunk_acc_in _ _ _ _ _ _ Hin Hy) as [Hl|[]]. exact Hl.
  Qed.
  (* ---- convert round to_number to_string join: a number or a string ---- *)
  Lemma obind_ok : forall {A B} (m : outcome A) (f : A -> outcome B) v,
    obind m f = Ok v -> exists a, m = Ok a /\ f a = Ok v.
  Proof. intros A B m f v H. destruct m; try discriminate H. eexists; split; [reflexivity|exact H]. Qed.
  Ltac ob H x := apply obind_ok in H; destruct H as [x [_ H]].

  Lemma bi_convert_closed : forall args v, bi_convert args = Ok v -> closed_value st v.
  Proof.
    intros args v H. unfold bi_convert in H.
    ob H a0. ob H x0. ob H a1. ob H x1. ob H a2. ob H x2.
    revert H. generalize (Units.convert UnitsBase.fl x0 x1 x2). intros r H.
    destruct r; [|discriminate H]. injection H as <-. triv.
  Qed.
  Lemma bi_round_closed : forall args v, bi_round args = Ok v -> closed_value st v.
  Proof.
    intros args v H. unfold bi_round in H.
    ob H a0. ob H x0.
    destruct args as [|x [|y rest]].
    - ob H a1. ob H x1. injection H as <-. triv.
    - injection H as <-. triv.
    - ob H a1. ob H x1. injection H as <-. triv.
  Qed.
  Lemma bi_random_closed : forall args v, bi_random args = Ok v -> closed_value st v.
  Proof. intros args v H. unfold bi_random in H. ob H a0. ob H x0. injection H as <-. triv. Qed.
  Lemma bi_to_number_closed : forall args v, bi_to_number args = Ok v -> closed_value st v.
  Proof.
    intros args v H. unfold bi_to_number in H.
    ob H a0.
    destruct a0; try (injection H as <-; triv);
      (ob H s0; cbv beta in H; unfold parse_result in H;
       destruct (NumText.ref_str_parse s0); [|discriminate H]; injection H as <-; triv).
  Qed.
  Lemma bi_to_string_closed : forall args v, bi_to_string args = Ok v -> closed_value st v.
  Proof.
    intros args v H. unfold bi_to_string in H.
    ob H a0.
    destruct a0; try (injection H as <-; triv); (ob H s0; injection H as <-; triv).
  Qed.
  Lemma bi_join_full_closed : forall args v, bi_join_full args = Ok v -> closed_value st v.
  Proof.
    intros args v H. unfold bi_join_full in H.
    ob H a1. ob H d. ob H a0. ob H l. ob H strs. injection H as <-. triv.
  Qed.
  End Pure.

  (* ---------------- FullAgree.v's Section ByAgree, verbatim, over the abstract predicate ---------------- *)
  Notation cb_agree := (GenOps.cb_agree store_le closed_value).
  Notation cb_closed := (GenOps.cb_closed store_le closed_value).
  Notation post := (GenOps.post store_le).
  Let closed_list_mono := GenOps.closed_list_mono store_le closed_value closed_mono.
  Let builtin_impl_agree := GenOps.builtin_impl_agree store_le store_le_refl store_le_trans closed_value
                              closed_mono closed_VList atomic_closed.

  Section ByAgree.

  Variable cb1 cb2 : callback.
  Variable s0 : store.
  Hypothesis Hag : cb_agree s0 cb1 cb2.
  Hypothesis Hcl : cb_closed s0 cb1.

  (* one callback step: same on both sides, closed result, store grows *)
  Ltac cbstep f args st :=
    let E := fresh "E" in let Hs := fresh "Hs" in let Hr := fresh "Hr" in
    rewrite <- (Hag f f args st) by assumption;
    destruct (cb1 f f args st) as [?o ?s1] eqn:E;
    destruct (Hcl f f args st _ _ ltac:(assumption) ltac:(assumption) ltac:(assumption) ltac:(assumption) E) as [Hs Hr].

  Definition grows {A} (st : store) (x : outcome A * store) : Prop := store_le st (snd x).

  Lemma sort_by_cmp_agree : forall func a b st,
    store_le s0 st -> closed_value st func -> closed_value st a -> closed_value st b ->
    sort_by_cmp store cb1 func a b st = sort_by_cmp store cb2 func a b st /\
    grows st (sort_by_cmp store cb1 func a b st).
  Proof.
    intros func a b st Hs0 Hf Ha Hb. unfold sort_by_cmp, grows.
    destruct (is_function func); [|split; [reflexivity|apply store_le_refl]].
    assert (Hla : closed_list st [a]) by (constructor; [exact Ha|constructor]).
    cbstep func [a] st.
    destruct o; try (split; [reflexivity|exact Hs]).
    assert (Hs01 : store_le s0 s1) by exact (store_le_trans _ _ _ Hs0 Hs).
    assert (Hf1 : closed_value s1 func) by exact (closed_mono _ _ _ Hs Hf).
    assert (Hlb : closed_list s1 [b]) by (constructor; [exact (closed_mono _ _ _ Hs Hb)|constructor]).
    cbstep func [b] s1.
    assert (store_le st s2) by exact (store_le_trans _ _ _ Hs Hs1).
    destruct o; (split; [reflexivity|assumption]).
  Qed.

  Lemma merge_by_agree : forall func left right st,
    store_le s0 st -> closed_value st func -> closed_list st left -> closed_list st right ->
    merge_by store cb1 func left right st = merge_by store cb2 func left right st /\
    grows st (merge_by store cb1 func left right st).
  Proof.
    intros func left. induction left as [|a left' IHl]; intros right st Hs0 Hf Hl Hr.
    - rewrite !merge_by_nil_l. split; [reflexivity|apply store_le_refl].
    - revert st Hs0 Hf Hl Hr. induction right as [|b right' IHr]; intros st Hs0 Hf Hl Hr.
      + rewrite !merge_by_nil_r. split; [reflexivity|apply store_le_refl].
      + rewrite !merge_by_cons.
        inversion Hl as [|? ? Ha Hl']; subst. inversion Hr as [|? ? Hb Hr']; subst.
        destruct (sort_by_cmp_agree func b a st Hs0 Hf Hb Ha) as [Heq Hg]. rewrite <- Heq.
        destruct (sort_by_cmp store cb1 func b a st) as [c st1]. unfold grows in Hg. cbn [snd] in Hg.
        assert (Hs01 : store_le s0 st1) by exact (store_le_trans _ _ _ Hs0 Hg).
        assert (Hf1 : closed_value st1 func) by exact (closed_mono _ _ _ Hg Hf).
        assert (Hl1 : closed_list st1 (a :: left')) by exact (closed_list_mono _ _ _ Hg Hl).
        assert (Hr1 : closed_list st1 (b :: right')) by exact (closed_list_mono _ _ _ Hg Hr).
        inversion Hl1 as [|? ? Ha1 Hl1']; subst. inversion Hr1 as [|? ? Hb1 Hr1']; subst.
        destruct c as [[]| | | |]; try (split; [reflexivity|exact Hg]).
        * destruct (IHl (b :: right') st1 Hs01 Hf1 Hl1' Hr1) as [Heq2 Hg2]. rewrite <- Heq2.
          destruct (merge_by store cb1 func left' (b :: right') st1) as [res st2]. unfold grows in *. cbn [snd] in *.
          split; [reflexivity|exact (store_le_trans _ _ _ Hg Hg2)].
        * destruct (IHr st1 Hs01 Hf1 Hl1 Hr1') as [Heq2 Hg2]. rewrite <- Heq2.
          destruct (merge_by store cb1 func (a :: left') right' st1) as [res st2]. unfold grows in *. cbn [snd] in *.
          split; [reflexivity|exact (store_le_trans _ _ _ Hg Hg2)].
        * destruct (IHl (b :: right') st1 Hs01 Hf1 Hl1' Hr1) as [Heq2 Hg2]. rewrite <- Heq2.
          destruct (merge_by store cb1 func left' (b :: right') st1) as [res st2]. unfold grows in *. cbn [snd] in *.
          split; [reflexivity|exact (store_le_trans _ _ _ Hg Hg2)].
  Qed.

  Lemma perm_closed : forall st l m, Permutation l m -> closed_list st l -> closed_list st m.
  Proof. intros st l m Hp Hc. unfold closed_list in *. eapply Permutation_Forall; eauto. Qed.
  Lemma firstn_closed : forall st n l, closed_list st l -> closed_list st (firstn n l).
  Proof. intros st n l Hc. eapply closed_incl; [exact Hc|]. intros x Hx. eapply in_firstn_in; eauto. Qed.
  Lemma skipn_closed : forall st n l, closed_list st l -> closed_list st (skipn n l).
  Proof. intros st n l Hc. eapply closed_incl; [exact Hc|]. intros x Hx. eapply in_skipn_in; eauto. Qed.

  Lemma merge_sort_by_fuel_agree : forall fuel func l st,
    store_le s0 st -> closed_value st func -> closed_list st l ->
    merge_sort_by_fuel store cb1 fuel func l st = merge_sort_by_fuel store cb2 fuel func l st /\
    grows st (merge_sort_by_fuel store cb1 fuel func l st).
  Proof.
    induction fuel as [|f IH]; intros func l st Hs0 Hf Hl; cbn [merge_sort_by_fuel].
    - split; [reflexivity|apply store_le_refl].
    - destruct (Datatypes.length l <? 2); [split; [reflexivity|apply store_le_refl]|].
      destruct (IH func (firstn (Datatypes.length l / 2) l) st Hs0 Hf (firstn_closed _ _ _ Hl)) as [Heq Hg].
      rewrite <- Heq.
      destruct (merge_sort_by_fuel store cb1 f func (firstn (Datatypes.length l / 2) l) st) as [sl st1] eqn:E1.
      unfold grows in Hg. cbn [snd] in Hg.
      destruct sl as [left'| | | |]; try (split; [reflexivity|exact Hg]).
      assert (Hs01 : store_le s0 st1) by exact (store_le_trans _ _ _ Hs0 Hg).
      assert (Hf1 : closed_value st1 func) by exact (closed_mono _ _ _ Hg Hf).
      assert (Hl1 : closed_list st1 l) by exact (closed_list_mono _ _ _ Hg Hl).
      assert (Hleft : closed_list st1 left').
      { eapply perm_closed; [eapply (merge_sort_by_fuel_perm store cb1); exact E1|]. apply firstn_closed; exact Hl1. }
      destruct (IH func (skipn (Datatypes.length l / 2) l) st1 Hs01 Hf1 (skipn_closed _ _ _ Hl1)) as [Heq2 Hg2].
      rewrite <- Heq2.
      destruct (merge_sort_by_fuel store cb1 f func (skipn (Datatypes.length l / 2) l) st1) as [sr st2] eqn:E2.
      unfold grows in Hg2. cbn [snd] in Hg2.
      assert (Hst2 : store_le st st2) by exact (store_le_trans _ _ _ Hg Hg2).
      destruct sr as [right'| | | |]; try (split; [reflexivity|exact Hst2]).
      assert (Hs02 : store_le s0 st2) by exact (store_le_trans _ _ _ Hs0 Hst2).
      assert (Hright : closed_list st2 right').
      { eapply perm_closed; [eapply (merge_sort_by_fuel_perm store cb1); exact E2|].
        apply skipn_closed. exact (closed_list_mono _ _ _ Hg2 Hl1). }
      destruct (merge_by_agree func left' right' st2 Hs02 (closed_mono _ _ _ Hg2 Hf1)
                  (closed_list_mono _ _ _ Hg2 Hleft) Hright) as [Heq3 Hg3].
      split; [exact Heq3|]. unfold grows in *. exact (store_le_trans _ _ _ Hst2 Hg3).
  Qed.


  Lemma bi_sort_by_agree : forall args st,
    store_le s0 st -> closed_list st args ->
    bi_sort_by store cb1 args st = bi_sort_by store cb2 args st /\
    post (fun s v => closed_value s v) st (bi_sort_by store cb1 args st).
  Proof.
    intros args st Hs0 Hc. unfold bi_sort_by.
    destruct (BuiltinsList.arg args 1) as [func| | | |] eqn:E1;
      try (split; [reflexivity|split; [apply store_le_refl|intros ? Hq; discriminate Hq]]).
    destruct (BuiltinsList.arg args 0) as [a0| | | |] eqn:E0; cbn [obind];
      try (split; [reflexivity|split; [apply store_le_refl|intros ? Hq; discriminate Hq]]).
    pose proof (barg_closed _ _ _ _ Hc E1) as Hf. pose proof (barg_closed _ _ _ _ Hc E0) as Ha0.
    destruct a0; cbn [BuiltinsList.as_list];
      try (split; [reflexivity|split; [apply store_le_refl|intros ? Hq; discriminate Hq]]).
    apply closed_VList in Ha0. unfold sort_by_list.
    destruct (merge_sort_by_fuel_agree (Datatypes.length l) func l st Hs0 Hf Ha0) as [Heq Hg]. rewrite <- Heq.
    destruct (merge_sort_by_fuel store cb1 (Datatypes.length l) func l st) as [res st1] eqn:E.
    unfold grows in Hg. cbn [snd] in Hg.
    split; [reflexivity|split; [exact Hg|]]. cbn [fst snd]. intros v Hv.
    destruct res as [m| | | |]; try discriminate Hv. cbn in Hv. inversion Hv; subst.
    apply closed_VList. eapply perm_closed; [eapply (merge_sort_by_fuel_perm store cb1); exact E|].
    exact (closed_list_mono _ _ _ Hg Ha0).
  Qed.

  (* ---- group_by / count_by ---- *)
  Lemma keyed_items_agree : forall func l st,
    store_le s0 st -> closed_value st func -> closed_list st l ->
    keyed_items store cb1 func l st = keyed_items store cb2 func l st /\
    post (fun s keyed => Forall (fun kv : string * value => closed_value s (snd kv)) keyed) st
         (keyed_items store cb1 func l st).
  Proof.
    intros func l. induction l as [|item rest IH]; intros st Hs0 Hf Hl; cbn [keyed_items].
    - split; [reflexivity|split; [apply store_le_refl|intros a Ha; inversion Ha; constructor]].
    - inversion Hl as [|? ? Hi Hr]; subst.
      assert (Hla : closed_list st [item]) by (constructor; [exact Hi|constructor]).
      cbstep func [item] st.
      destruct o as [k| | | |]; try (split; [reflexivity|split; [exact Hs|intros ? Hq; discriminate Hq]]).
      destruct k; try (split; [reflexivity|split; [exact Hs|intros ? Hq; discriminate Hq]]).
      assert (Hs01 : store_le s0 s1) by exact (store_le_trans _ _ _ Hs0 Hs).
      destruct (IH s1 Hs01 (closed_mono _ _ _ Hs Hf) (closed_list_mono _ _ _ Hs Hr)) as [Heq [Hle Hq]].
      rewrite <- Heq.
      destruct (keyed_items store cb1 func rest s1) as [more st2]. cbn [fst snd] in *.
      split; [reflexivity|split; [exact (store_le_trans _ _ _ Hs Hle)|]].
      intros a Ha. destruct more as [m| | | |]; try discriminate Ha. cbn in Ha. inversion Ha; subst.
      constructor; [cbn [snd]; exact (closed_mono _ _ _ (store_le_trans _ _ _ Hs Hle) Hi)|].
      apply Hq; reflexivity.
  Qed.

  Lemma group_push_items : forall groups key item g x,
    In g (group_push groups key item) -> In x (snd g) ->
    x = item \/ exists g', In g' groups /\ In x (snd g').
  Proof.
    induction groups as [|[k items] rest IH]; intros key item g x Hg Hx; cbn [group_push] in Hg.
    - destruct Hg as [<-|[]]. cbn in Hx. destruct Hx as [<-|[]]. left; reflexivity.
    - destruct (String.eqb key k).
      + destruct Hg as [<-|Hg].
        * cbn [snd] in Hx. apply in_app_or in Hx. destruct Hx as [Hx|[<-|[]]]; [right|left; reflexivity].
          exists (k, items). split; [left; reflexivity|exact Hx].
        * right. exists g. split; [right; exact Hg|exact Hx].
      + destruct Hg as [<-|Hg].
        * right. exists (k, items). split; [left; reflexivity|exact Hx].
        * destruct (IH _ _ _ _ Hg Hx) as [He|[g' [Hg' Hx']]]; [left; exact He|].
          right. exists g'. split; [right; exact Hg'|exact Hx'].
  Qed.
  Lemma groups_fold_items : forall keyed groups g x,
    In g (fold_left (fun groups kv => group_push groups (fst kv) (snd kv)) keyed groups) -> In x (snd g) ->
    (exists kv : string * value, In kv keyed /\ x = snd kv) \/ exists g', In g' groups /\ In x (snd g').
  Proof.
    induction keyed as [|kv rest IH]; intros groups g x Hg Hx; cbn [fold_left] in Hg.
    - right. exists g. split; assumption.
    - destruct (IH _ _ _ Hg Hx) as [[kv' [Hin He]]|[g' [Hg' Hx']]].
      + left. exists kv'. split; [right; exact Hin|exact He].
      + destruct (group_push_items _ _ _ _ _ Hg' Hx') as [He|[g'' [Hg'' Hx'']]].
        * left. exists kv. split; [left; reflexivity|exact He].
        * right. exists g''. split; assumption.
  Qed.

  Lemma by_prologue_closed : forall st args func l, closed_list st args ->
    by_prologue args = Ok (func, l) -> closed_value st func /\ closed_list st l.
  Proof.
    intros st args func l Hc H. unfold by_prologue in H.
    destruct (BuiltinsList.arg args 1) as [f0| | | |] eqn:E1; try discriminate. cbn [obind] in H.
    destruct (BuiltinsList.arg args 0) as [a0| | | |] eqn:E0; try discriminate. cbn [obind] in H.
    destruct (BuiltinsList.as_list a0) as [l0| | | |] eqn:El; try discriminate. cbn [obind] in H.
    destruct (is_function f0); try discriminate. inversion H; subst.
    split; [eapply barg_closed; eauto|].
    pose proof (barg_closed _ _ _ _ Hc E0) as Ha0. destruct a0; try discriminate. inversion El; subst.
    apply closed_VList. exact Ha0.
  Qed.

  Lemma bi_group_by_agree : forall args st,
    store_le s0 st -> closed_list st args ->
    bi_group_by store cb1 args st = bi_group_by store cb2 args st /\
    post (fun s v => closed_value s v) st (bi_group_by store cb1 args st).
  Proof.
    intros args st Hs0 Hc. unfold bi_group_by.
    destruct (by_prologue args) as [[func l]| | | |] eqn:Ep;
      try (split; [reflexivity|split; [apply store_le_refl|intros ? Hq; discriminate Hq]]).
    destruct (by_prologue_closed _ _ _ _ Hc Ep) as [Hf Hl].
    destruct (keyed_items_agree func l st Hs0 Hf Hl) as [Heq [Hle Hq]]. rewrite <- Heq.
    destruct (keyed_items store cb1 func l st) as [keyed st1]. cbn [fst snd] in *.
    split; [reflexivity|split; [exact Hle|]]. intros v Hv.
    destruct keyed as [k| | | |]; try discriminate Hv. cbn in Hv. inversion Hv; subst.
    specialize (Hq k eq_refl). apply closed_VRec. unfold closed_frame. rewrite Forall_forall.
    intros kv Hkv. apply in_map_iff in Hkv. destruct Hkv as [g [<- Hg]]. cbn [snd].
    apply closed_VList. unfold closed_list. rewrite Forall_forall. intros x Hx.
    unfold groups_of in Hg. destruct (groups_fold_items _ _ _ _ Hg Hx) as [[kv [Hin ->]]|[g' [[] _]]].
    rewrite Forall_forall in Hq. apply Hq; exact Hin.
  Qed.

  Lemma bi_count_by_agree : forall args st,
    store_le s0 st -> closed_list st args ->
    bi_count_by store cb1 args st = bi_count_by store cb2 args st /\
    post (fun s v => closed_value s v) st (bi_count_by store cb1 args st).
  Proof.
    intros args st Hs0 Hc. unfold bi_count_by.
    destruct (by_prologue args) as [[func l]| | | |] eqn:Ep;
      try (split; [reflexivity|split; [apply store_le_refl|intros ? Hq; discriminate Hq]]).
    destruct (by_prologue_closed _ _ _ _ Hc Ep) as [Hf Hl].
    destruct (keyed_items_agree func l st Hs0 Hf Hl) as [Heq [Hle Hq]]. rewrite <- Heq.
    destruct (keyed_items store cb1 func l st) as [keyed st1]. cbn [fst snd] in *.
    split; [reflexivity|split; [exact Hle|]]. intros v Hv.
    destruct keyed as [k| | | |]; try discriminate Hv. cbn in Hv. inversion Hv; subst.
    apply closed_VRec. unfold closed_frame. rewrite Forall_forall.
    intros kv Hkv. apply in_map_iff in Hkv. destruct Hkv as [g [<- Hg]]. triv.
  Qed.

  (* the dispatcher of EvalFull.v *)
  Theorem builtin_full_agree0_gen : forall b args st,
    store_le s0 st -> closed_list st args ->
    builtin_full cb1 b args st = builtin_full cb2 b args st /\
    post (fun s v => closed_value s v) st (builtin_full cb1 b args st).
  Proof.
    intros b args st Hs0 Hc.
    assert (Hpure : forall f, (forall v, f args = Ok v -> closed_value st v) ->
              pure_bi f args st = pure_bi f args st /\ post (fun s v => closed_value s v) st (pure_bi f args st)).
    { intros f Hf. split; [reflexivity|]. unfold pure_bi, post. cbn [fst snd].
      split; [apply store_le_refl|exact Hf]. }
    destruct b; cbn [builtin_full];
      try (exact (builtin_impl_agree cb1 cb2 s0 Hag Hcl _ args st Hs0 Hc));
      try (apply Hpure;
           first [ apply bi_range_closed | apply bi_min_closed | apply bi_max_closed | apply bi_avg_closed
                 | apply bi_sum_closed | apply bi_prod_closed | apply bi_median_closed
                 | apply bi_percentile_closed | apply bi_len_closed | apply bi_dot_closed
                 | apply bi_split_closed | apply bi_replace_closed | apply bi_includes_closed
                 | apply bi_keys_closed | apply bi_convert_closed | apply bi_round_closed | apply bi_random_closed
                 | apply bi_to_number_closed | apply bi_to_string_closed | apply bi_join_full_closed
                 | intros v;
                   first [ apply bi_head_closed | apply bi_tail_closed | apply bi_slice_closed
                         | apply bi_concat_closed | apply bi_unique_closed | apply bi_sort_closed
                         | apply bi_reverse_closed | apply bi_values_closed | apply bi_entries_closed
                         | apply bi_flatten_closed | apply bi_zip_closed | apply bi_chunk_closed ];
                   exact Hc ]);
      first [apply bi_sort_by_agree | apply bi_group_by_agree | apply bi_count_by_agree]; assumption.
  Qed.
  End ByAgree.
End AbstractPure.
