(* EmitLit.v — C05, layer P0: the literal of a captured value denotes the value.
   lit_roundtrip holds for EVERY implementation of the operators, the built-ins and of
   FunctionDef::call (they are Section variables of the evaluator): literals never reach them. *)
From Coq Require Import String Ascii List ZArith Bool Lia Floats.SpecFloat.
Require Import Blots.Num Blots.gen.Builtins Blots.Ast Blots.Value Blots.Outcome Blots.Binop
               Blots.Env Blots.Eval Blots.Emit Blots.proofs.ValueInd.
Import ListNotations.
Open Scope list_scope.

(* the generic class: first-order, no NaN, no string/key with both quote characters *)
Definition emittable_gen (v : value) : bool :=
  fo v && negb (has_both_quotes v) && negb (has_nan v).

Lemma value_to_ast_list n d l :
  value_to_ast n d (VList l) = EList (map (fun x => Cm [] (value_to_ast n d x) None) l).
Proof. reflexivity. Qed.
Lemma value_to_ast_rec n d r :
  value_to_ast n d (VRec r) =
  ERec (map (fun kv => Cm [] (REntry (key_to_rkey (fst kv)) (value_to_ast n d (snd kv))) None) r).
Proof. cbn. f_equal. induction r as [|[k x] r IH]; cbn; congruence. Qed.

Lemma nneg_invol x : nneg (nneg x) = x.
Proof. destruct x; cbn; try reflexivity; now rewrite Bool.negb_involutive. Qed.

Fixpoint no_spread (l : list value) : bool :=
  match l with [] => true | VSpread _ :: _ => false | _ :: r => no_spread r end.
Lemma flatten_no_spread l : no_spread l = true -> flatten_spreads l = l.
Proof. induction l as [|v l IH]; cbn; [reflexivity|]. destruct v; intros H; try discriminate; now rewrite IH. Qed.
Lemma fo_no_spread l : forallb fo l = true -> no_spread l = true.
Proof.
  induction l as [|v l IH]; cbn; [reflexivity|]. intros H. apply andb_prop in H as [H1 H2].
  destruct v; cbn in H1; try discriminate; auto.
Qed.

Lemma rec_insert_fresh {A} (acc : list (string * A)) k x :
  rec_get acc k = None -> rec_insert acc k x = acc ++ [(k, x)].
Proof.
  induction acc as [|[k' v'] acc IH]; cbn; [reflexivity|].
  destruct (String.eqb_spec k k'); [discriminate|]. intros H. now rewrite IH.
Qed.
Lemma rec_get_app_none {A} (a b : list (string * A)) k :
  rec_get a k = None -> rec_get (a ++ b) k = rec_get b k.
Proof. induction a as [|[k' v'] a IH]; cbn; [reflexivity|]. destruct (String.eqb k k'); [discriminate|auto]. Qed.

Section Lit.
  Variable release : bool.
  Variable binop_impl : callback -> binop -> value -> value -> store -> outcome value * store.
  Variable apply : frames -> callback.
  Notation evalE := (evalE release binop_impl apply).

  Lemma num_roundtrip n x c : is_nan x = false -> evalE c (num_to_ast n x) = (Ok (VNum x), c).
  Proof.
    destruct x as [s|s| |s m e]; cbn; try discriminate; intros _.
    - destruct s; cbn; reflexivity.
    - destruct s; cbn; reflexivity.
    - destruct s; cbn; reflexivity.
  Qed.

  Theorem lit_roundtrip : forall n d v, emittable_gen v = true ->
    forall c, evalE c (value_to_ast n d v) = (Ok v, c).
  Proof.
    intros n d v. unfold emittable_gen.
    induction v using value_ind'; intros Hv c;
      apply andb_prop in Hv as [Hv Hnan]; apply andb_prop in Hv as [Hfo Hbq];
      apply negb_true_iff in Hnan; apply negb_true_iff in Hbq.
    - cbn [value_to_ast]. apply num_roundtrip. exact Hnan.
    - reflexivity.
    - reflexivity.
    - cbn [value_to_ast]. unfold str_to_ast. cbn in Hbq. rewrite Hbq. reflexivity.
    - rewrite value_to_ast_list. cbn [Eval.evalE].
      assert (HL : evalCL evalE c (map (fun x => Cm [] (value_to_ast n d x) None) l) = (Ok l, c)).
      { cbn in Hfo, Hbq, Hnan. clear - H Hfo Hbq Hnan. revert Hfo Hbq Hnan.
        induction H as [|x l Hx Hl IH]; cbn; [reflexivity|]. intros Hfo Hbq Hnan.
        apply andb_prop in Hfo as [F1 F2]. apply orb_false_elim in Hbq as [B1 B2].
        apply orb_false_elim in Hnan as [N1 N2].
        rewrite Hx by (now rewrite F1, B1, N1). rewrite IH by assumption. reflexivity. }
      rewrite HL. cbn. rewrite flatten_no_spread; [reflexivity|]. apply fo_no_spread. exact Hfo.
    - rewrite value_to_ast_rec. cbn [Eval.evalE].
      cbn in Hfo, Hbq, Hnan. apply andb_prop in Hfo as [Hnd Hfo].
      assert (HG : forall acc, (forall k, In k (map fst r) -> rec_get acc k = None) ->
                evalRecL evalE c acc
                  (map (fun kv => Cm [] (REntry (key_to_rkey (fst kv)) (value_to_ast n d (snd kv))) None) r)
                = (Ok (VRec (acc ++ r)), c)).
      { clear - H Hnd Hfo Hbq Hnan. revert Hnd Hfo Hbq Hnan.
        induction H as [|[k x] r Hx Hr IH]; intros Hnd Hfo Hbq Hnan acc Hacc.
        - cbn. now rewrite app_nil_r.
        - cbn in Hnd, Hfo, Hbq, Hnan, Hx. cbn [map fst snd].
          destruct (rec_get r k) eqn:Ek; [discriminate|].
          apply andb_prop in Hfo as [F1 F2]. apply orb_false_elim in Hbq as [B1 B2].
          apply orb_false_elim in B1 as [Bk B1]. apply orb_false_elim in Hnan as [N1 N2].
          unfold key_to_rkey. rewrite Bk. cbn [evalRecL].
          rewrite Hx by (now rewrite F1, B1, N1).
          rewrite rec_insert_fresh by (apply Hacc; now left).
          rewrite IH; try assumption.
          + now rewrite <- app_assoc.
          + intros k' Hk'. rewrite rec_get_app_none by (apply Hacc; now right).
            cbn. destruct (String.eqb_spec k' k) as [->|]; [|reflexivity].
            exfalso. apply rec_get_None_notin in Ek. contradiction. }
      apply (HG []). reflexivity.
    - discriminate.
    - reflexivity.
    - discriminate.
  Qed.
End Lit.

(* the current code writes NaN as the identifier NaN: unbound when the text is loaded (F10) *)
Lemma lit_nan_current_refuted :
  forall release binop_impl apply st,
    fst (evalE release binop_impl apply (st, [(FOwned, [])]) (value_to_ast false false (VNum nnan))) = Err.
Proof. reflexivity. Qed.

(* built-ins are emitted by name; the name is read back as the same built-in (finite:
   exhaustive over the generated table gen/Builtins.v) *)
Theorem builtin_name_roundtrip : forall b, builtin_of_name (builtin_name b) = Some b.
Proof. intros b; destruct b; vm_compute; reflexivity. Qed.

(* ---- the text of a string literal (repaired emission) is read back as the string ---- *)
Lemma take_until_app q s rest : has_char q s = false ->
  take_until q (s ++ String q rest) = Some (s, rest).
Proof.
  induction s as [|a s IH]; cbn.
  - now rewrite Ascii.eqb_refl.
  - intros H. apply orb_false_elim in H as [H1 H2]. rewrite H1, IH by assumption. reflexivity.
Qed.
Lemma append_assoc_str (a b c : string) : ((a ++ b) ++ c)%string = (a ++ (b ++ c))%string.
Proof. induction a; cbn; congruence. Qed.

Theorem string_lit_roundtrip : forall s rest, both_quotes s = false ->
  read_string_lit (string_lit_src true s ++ rest)%string = Some (s, rest).
Proof.
  intros s rest H. unfold string_lit_src, both_quotes in *.
  destruct (has_char dq s) eqn:Ed; cbn in H.
  - cbn. rewrite append_assoc_str. cbn. now apply take_until_app.
  - cbn. rewrite append_assoc_str. cbn. now apply take_until_app.
Qed.

(* current code: a backslash is doubled although the grammar has no escapes (F11) *)
Lemma string_lit_current_refuted :
  exists s, read_string_lit (string_lit_src false s) <> Some (s, ""%string).
Proof. exists (String bs ""). vm_compute. discriminate. Qed.
Lemma string_lit_current_quote_refuted :
  exists s, read_string_lit (string_lit_src false s) <> Some (s, ""%string).
Proof. exists (String dq ""). vm_compute. discriminate. Qed.
