(* AllInst.v — the dispatcher with EVERY built-in (EvalAll.builtin_all o) and the operator table with
   `^` through the oracle (EvalAll.binop_all o) meet, for EVERY oracle o, the two hypotheses of the
   evaluator theorems:
     builtin_mono / binop_mono : the store moves only through the callback (StoreMono.v);
     builtin_le / binop_le     : monotone in the callback w.r.t. "is the depth error, or equal"
                                 (DepthMono.v): the depth error of a callback is never swallowed.
   The new arms are pure (no callback, no store access); the rest is FullInst.v. *)
From Coq Require Import String List ZArith Bool Lia.
Require Import Blots.Num Blots.gen.Builtins Blots.Ast Blots.Value Blots.Outcome Blots.Binop
               Blots.Env Blots.Eval Blots.BuiltinsHof Blots.Program Blots.EvalInst Blots.EvalFull
               Blots.EvalAll
               Blots.proofs.StoreMono Blots.proofs.InstMono Blots.proofs.DepthMono Blots.proofs.InstDepth
               Blots.proofs.FullInst.
Import ListNotations.

Lemma builtin_all_mono : forall o, builtin_mono (builtin_all o).
Proof.
  intros o cb Hcb b args st res st' H.
  destruct b; cbn [builtin_all] in H;
    try (eapply pure_bi_mono; exact H);
    eapply (builtin_full_mono cb Hcb); exact H.
Qed.

Lemma builtin_all_le : forall o, builtin_le (builtin_all o).
Proof.
  intros o cb1 cb2 Hcb b args st.
  destruct b; cbn [builtin_all]; try apply rle_refl; apply (builtin_full_le cb1 cb2 Hcb).
Qed.

Lemma binop_all_mono : forall o, binop_mono (binop_all o).
Proof.
  intros o cb Hcb op l r st res st' H. unfold binop_all in H.
  destruct op; try (eapply (binop_impl_mono cb Hcb); exact H).
  eapply (eval_binop_R store store_le store_le_refl store_le_trans cb Hcb); exact H.
Qed.

Lemma binop_all_le : forall o, binop_le (binop_all o).
Proof.
  intros o cb1 cb2 Hcb op l r st. unfold binop_all.
  destruct op; try (apply (binop_impl_le cb1 cb2 Hcb)).
  apply eval_binop_le; exact Hcb.
Qed.
