(* DisplayNumDischarge8.v — C20 / C16: two models of str::parse::<f64> agree.
   The display model parses decimals with DisplayNum.rn_ratio (quotient shifted to >= 64 bits, then
   SpecFloat's binary_round_aux); C16's reference is NumText.rn_decimal (SFdiv_core_binary /
   binary_round, with guards).  Both are IEEE round-to-nearest-even of the same rational, both are
   valid finite doubles with the sign of the text, hence the SAME double — for every decimal
   N / 10^k whose rounding does not overflow (every text the display path parses: values below 10).
   So the C16 NUMTEXT stream (Rust's from_str against rn_decimal) also supports the C20 model, and the
   C20 ORACLE-parse stream supports C16's reference. *)
From Coq Require Import ZArith Reals Bool Lia Lra Floats.SpecFloat.
From Flocq Require Import Core.Core IEEE754.BinarySingleNaN.
Require Import Blots.Num Blots.NumText Blots.proofs.NumTextFloat Blots.proofs.NumTextRef.
Require Import Blots.DisplayNum Blots.proofs.DisplayNumSpec Blots.proofs.DisplayNumText
               Blots.proofs.DisplayNumFloat Blots.proofs.DisplayNumFinite Blots.proofs.DisplayNumAccStd
               Blots.proofs.DisplayNumDischarge1 Blots.proofs.DisplayNumDischarge2
               Blots.proofs.DisplayNumDischarge6.
From Coq Require Import List Ascii.
Import ListNotations.
Open Scope R_scope.

Lemma dec_R_neg_pow : forall p k, (0 <= k)%Z -> dec_R (Zpos p) (- k) = IZR (Zpos p) / IZR (10 ^ k).
Proof.
  intros p k Hk. unfold dec_R. destruct (0 <=? - k)%Z eqn:E.
  - apply Z.leb_le in E. assert (k = 0%Z) by lia. subst k.
    change (- 0)%Z with 0%Z. rewrite Z.pow_0_r, Z.mul_1_r. unfold Rdiv. rewrite Rinv_1. ring.
  - replace (- - k)%Z with k by lia. reflexivity.
Qed.

Theorem rn_ratio_is_rn_decimal : forall s N k, (0 < N)%Z -> (0 <= k)%Z ->
  Rabs (rnd64 (IZR N / IZR (10 ^ k))) < bpow radix2 1024 ->
  DisplayNum.rn_ratio s N (10 ^ k) = rn_decimal s N (- k).
Proof.
  intros s N k HN Hk B. destruct N as [|p|p]; try lia.
  pose proof (rn_decimal_correct s p (- k)) as C. cbv zeta in C. destruct C as [Vd Cd].
  rewrite (dec_R_neg_pow p k Hk) in Cd. unfold rne in Cd.
  rewrite Rlt_bool_true in Cd by exact B. destruct Cd as (Rd & Fd & Sd).
  assert (PD : (0 < 10 ^ k)%Z) by (apply Z.pow_pos_nonneg; lia).
  destruct (rn_ratio_correct_full s (Zpos p) (10 ^ k) HN PD) as [Vr Cr]. cbv zeta in Cr.
  destruct (Cr B) as (Rr & Fr & Sr).
  apply SF_eq.
  - exact Vr.
  - exact Vd.
  - rewrite finite_SF. exact Fr.
  - exact Fd.
  - unfold RV in Rr. rewrite Rr, Rd. destruct s; reflexivity.
  - now rewrite Sr, Sd.
Qed.

(* the zero case: both give the zero of the text's sign *)
Lemma rn_ratio_zero_is_rn_decimal : forall s D k, DisplayNum.rn_ratio s 0 D = rn_decimal s 0 k.
Proof. reflexivity. Qed.

(* a decimal below 10 does not overflow *)
Lemma small_decimal_bound : forall N k, (0 < N < 10 * 10 ^ k)%Z -> (0 <= k)%Z ->
  Rabs (rnd64 (IZR N / IZR (10 ^ k))) < bpow radix2 1024.
Proof.
  intros N k [HN HU] Hk.
  assert (PD : (0 < 10 ^ k)%Z) by (apply Z.pow_pos_nonneg; lia).
  assert (DD : 0 < IZR (10 ^ k)) by now apply (IZR_lt 0).
  assert (Bv : 0 <= IZR N / IZR (10 ^ k) <= 16).
  { split.
    - apply Rmult_le_pos; [apply IZR_le; lia|]. left. now apply Rinv_0_lt_compat.
    - apply Rmult_le_reg_r with (IZR (10 ^ k)); [exact DD|].
      unfold Rdiv. rewrite Rmult_assoc, Rinv_l, Rmult_1_r by lra.
      apply IZR_lt in HU. rewrite mult_IZR in HU. lra. }
  eapply Rle_lt_trans; [apply (rnd_abs_le_bpow _ 4); [lia|]|apply bpow_lt; lia].
  rewrite Rabs_pos_eq by tauto. change (bpow radix2 4) with 16. tauto.
Qed.

(* text level: on every mantissa text -?d.d+ the display model's parser returns C16's reference value *)
Theorem parse_f64_exec_is_rn_decimal : forall neg d fp,
  Blots.DisplayNum.is_digit d = true -> all_digits fp = true ->
  parse_f64_exec (mk_plain neg [d] (Some fp)) =
  Some (rn_decimal neg (digits_value (d :: fp)) (- Z.of_nat (length fp))).
Proof.
  intros neg d fp Hd Hf. rewrite (parse_f64_exec_mant neg d fp Hd Hf). f_equal.
  set (Nn := digits_value (d :: fp)). set (L := length fp).
  assert (Bn : (0 <= Nn < 10 * 10 ^ Z.of_nat L)%Z).
  { assert (Fa : forallb Blots.DisplayNum.is_digit (d :: fp) = true).
    { cbn [forallb]. rewrite Hd. now apply all_digits_forallb. }
    pose proof (digits_value_bound (d :: fp) Fa) as Bv. cbn [length] in Bv. fold L in Bv.
    rewrite pow10_S in Bv. exact Bv. }
  destruct (Z.eq_dec Nn 0) as [Z0|NZ].
  - rewrite Z0. reflexivity.
  - apply rn_ratio_is_rn_decimal; [lia|lia|]. apply small_decimal_bound; lia.
Qed.
