(* JsonRT.v — round-trip theorems for the JSON boundary (property C06), tree level.
   Every statement is for all values / documents of the model at any depth (structural
   induction), and for every instance of the four library oracles of Json.v. *)
From Coq Require Import String Ascii List ZArith Bool Lia Sorted Permutation.
Require Import Blots.Num Blots.gen.Builtins Blots.Ast Blots.Value Blots.Outcome Blots.Json.
Require Import Blots.proofs.ValueInd Blots.proofs.Order Blots.proofs.JsonMaps.
Import ListNotations.
Open Scope list_scope.

(* ------------------------------------------------------------------ induction principles *)
Section SvalueInd.
  Variable P : svalue -> Prop.
  Hypothesis HNum : forall x, P (SNum x).
  Hypothesis HBool : forall b, P (SBool b).
  Hypothesis HNull : P SNull.
  Hypothesis HStr : forall s, P (SStr s).
  Hypothesis HList : forall l, Forall P l -> P (SList l).
  Hypothesis HRec : forall r, Forall (fun kv => P (snd kv)) r -> P (SRec r).
  Hypothesis HLam : forall n a b sc,
    match sc with Some r => Forall (fun kv => P (snd kv)) r | None => True end -> P (SLam n a b sc).
  Hypothesis HBuiltin : forall n, P (SBuiltin n).
  Fixpoint svalue_ind' (s : svalue) : P s :=
    let go_rec := fix go (r : list (string * svalue)) : Forall (fun kv => P (snd kv)) r :=
                    match r with
                    | [] => Forall_nil _
                    | (k, x) :: r' => Forall_cons (k, x) (svalue_ind' x) (go r')
                    end in
    match s with
    | SNum x => HNum x
    | SBool b => HBool b
    | SNull => HNull
    | SStr s => HStr s
    | SList l =>
        HList l ((fix go (l : list svalue) : Forall P l :=
                    match l with
                    | [] => Forall_nil _
                    | x :: r => Forall_cons _ (svalue_ind' x) (go r)
                    end) l)
    | SRec r => HRec r (go_rec r)
    | SLam n a b sc =>
        HLam n a b sc (match sc with Some r => go_rec r | None => I end)
    | SBuiltin n => HBuiltin n
    end.
End SvalueInd.

Section JsonInd.
  Variable P : json -> Prop.
  Hypothesis HNull : P JNull.
  Hypothesis HBool : forall b, P (JBool b).
  Hypothesis HNum : forall n, P (JNum n).
  Hypothesis HStr : forall s, P (JStr s).
  Hypothesis HArr : forall l, Forall P l -> P (JArr l).
  Hypothesis HObj : forall m, Forall (fun kv => P (snd kv)) m -> P (JObj m).
  Fixpoint json_ind' (j : json) : P j :=
    match j with
    | JNull => HNull
    | JBool b => HBool b
    | JNum n => HNum n
    | JStr s => HStr s
    | JArr l =>
        HArr l ((fix go (l : list json) : Forall P l :=
                   match l with
                   | [] => Forall_nil _
                   | x :: r => Forall_cons _ (json_ind' x) (go r)
                   end) l)
    | JObj m =>
        HObj m ((fix go (r : list (string * json)) : Forall (fun kv => P (snd kv)) r :=
                   match r with
                   | [] => Forall_nil _
                   | (k, x) :: r' => Forall_cons (k, x) (json_ind' x) (go r')
                   end) m)
    end.
End JsonInd.

(* ------------------------------------------------------------------ pure shadows on data *)
(* what from_value / to_value compute on values without functions and spreads *)
Fixpoint sv_of (v : value) : svalue :=
  match v with
  | VNum x => SNum x
  | VBool b => SBool b
  | VNull => SNull
  | VStr s => SStr s
  | VList l => SList (map sv_of l)
  | VRec r => SRec (map (fun kv => let '(k, x) := kv in (k, sv_of x)) r)
  | _ => SNull
  end.
Fixpoint val_of (s : svalue) : value :=
  match s with
  | SNum x => VNum x
  | SBool b => VBool b
  | SNull => VNull
  | SStr s => VStr s
  | SList l => VList (map val_of l)
  | SRec r => VRec (map (fun kv => let '(k, x) := kv in (k, val_of x)) r)
  | _ => VNull
  end.
(* no function, no spread, unique record keys (numbers unrestricted) *)
Fixpoint plain (v : value) : bool :=
  match v with
  | VNum _ | VBool _ | VNull | VStr _ => true
  | VList l => forallb plain l
  | VRec r => nodup_keys r && forallb (fun kv => plain (snd kv)) r
  | _ => false
  end.
Fixpoint splain (s : svalue) : bool :=
  match s with
  | SNum _ | SBool _ | SNull | SStr _ => true
  | SList l => forallb splain l
  | SRec r => nodup_keys r && forallb (fun kv => splain (snd kv)) r
  | _ => false
  end.

Lemma sv_of_rec r : sv_of (VRec r) = SRec (mapv sv_of r).
Proof. reflexivity. Qed.
Lemma val_of_rec r : val_of (SRec r) = VRec (mapv val_of r).
Proof. reflexivity. Qed.
Lemma json_data_rec r :
  json_data (VRec r) = nodup_keys r && forallb (fun kv => json_data (snd kv)) r.
Proof.
  cbn [json_data]. f_equal. induction r as [|[k x] r IH]; cbn; [reflexivity|].
  destruct (rec_get r k); [reflexivity|exact IH].
Qed.
Lemma vsort_rec r : vsort (VRec r) = VRec (bmap_collect (mapv vsort r)).
Proof. reflexivity. Qed.

Lemma json_data_plain v : json_data v = true -> plain v = true.
Proof.
  induction v as [x|x| |s|l IH|r IH|id ar bd sc _|bi|v _] using value_ind'; try reflexivity;
    try discriminate.
  - cbn. rewrite !forallb_forall. rewrite Forall_forall in IH. auto.
  - rewrite json_data_rec. cbn [plain]. intros H. apply andb_prop in H as [H1 H2]. rewrite H1. cbn.
    rewrite forallb_forall in *. rewrite Forall_forall in IH. auto.
Qed.

Lemma forallb_mapv {A B} (p : B -> bool) (q : A -> bool) (f : A -> B) m :
  (forall k x, In (k, x) m -> q x = true -> p (f x) = true) ->
  forallb (fun kv => q (snd kv)) m = true -> forallb (fun kv => p (snd kv)) (mapv f m) = true.
Proof.
  intros H. rewrite !forallb_forall. intros Hq [k y] HI.
  apply in_mapv in HI as (x & Hx & ->). cbn. apply (H k x Hx). apply (Hq (k, x) Hx).
Qed.

Section RT.
  Variable pfs : string -> option (list lamarg * string).
  Variable pbody : string -> outcome expr.
  Variable emit : expr -> list (string * svalue) -> string.
  Variable nameof : lam_id -> option string.
  Notation from_json := (Json.from_json pfs).
  Notation from_value := (Json.from_value emit nameof).
  Notation to_value := (Json.to_value pbody).

  (* ---------------------------------------------------------------- unfolding helpers *)
  Definition fv_list := fix go (l : list value) : outcome (list svalue) :=
    match l with
    | [] => Ok []
    | x :: r => do y <- from_value x; do ys <- go r; Ok (y :: ys)
    end.
  Definition fv_rec := fix go (r : list (string * value)) : outcome (list (string * svalue)) :=
    match r with
    | [] => Ok []
    | (k, x) :: r' => do y <- from_value x; do ys <- go r'; Ok ((k, y) :: ys)
    end.
  Definition tv_list := fix go (l : list svalue) : outcome (list value) :=
    match l with
    | [] => Ok []
    | x :: r => do y <- to_value x; do ys <- go r; Ok (y :: ys)
    end.
  Definition tv_rec := fix go (r : list (string * svalue)) : outcome (list (string * value)) :=
    match r with
    | [] => Ok []
    | (k, x) :: r' => do y <- to_value x; do ys <- go r'; Ok ((k, y) :: ys)
    end.
  Lemma from_value_list l : from_value (VList l) = do sl <- fv_list l; Ok (SList sl).
  Proof. reflexivity. Qed.
  Lemma from_value_rec r : from_value (VRec r) = do sr <- fv_rec r; Ok (SRec (imap_collect sr)).
  Proof. reflexivity. Qed.
  Lemma to_value_list l : to_value (SList l) = do vl <- tv_list l; Ok (VList vl).
  Proof. reflexivity. Qed.
  Lemma to_value_rec r : to_value (SRec r) = do vr <- tv_rec r; Ok (VRec (imap_collect vr)).
  Proof. reflexivity. Qed.
  Lemma from_json_arr l : from_json (JArr l) = SList (map from_json l).
  Proof. reflexivity. Qed.
  Lemma to_json_list l : to_json (SList l) = JArr (map to_json l).
  Proof. reflexivity. Qed.
  Lemma to_json_rec r : to_json (SRec r) = JObj (bmap_collect (mapv to_json r)).
  Proof. reflexivity. Qed.
  Definition regular (obj : list (string * json)) : svalue :=
    SRec (imap_collect (mapv from_json obj)).
  Lemma from_json_obj obj :
    from_json (JObj obj) =
    match bmap_get obj FN_KEY with
    | Some (JStr func_str) =>
        match from_ident func_str with
        | Some _ => SBuiltin func_str
        | None => match pfs func_str with
                  | Some (args, body) => SLam None args body None
                  | None => regular obj
                  end
        end
    | _ => regular obj
    end.
  Proof. reflexivity. Qed.

  (* an object that is not of the reserved form is read as a record *)
  Lemma from_json_obj_regular obj :
    reserved_obj pfs jstr_of obj = false -> from_json (JObj obj) = regular obj.
  Proof.
    rewrite from_json_obj. unfold reserved_obj, bmap_get, is_function_source, from_ident.
    destruct (rec_get obj FN_KEY) as [[| | |s| |]|]; try reflexivity. cbn [jstr_of].
    destruct (builtin_of_name s); [intros H; discriminate H|].
    destruct (pfs s) as [[a b]|]; [intros H; discriminate H|reflexivity].
  Qed.

  (* ---------------------------------------------------------------- value <-> svalue *)
  Lemma fv_list_ok l :
    Forall (fun x => plain x = true -> from_value x = Ok (sv_of x)) l ->
    forallb plain l = true -> fv_list l = Ok (map sv_of l).
  Proof.
    induction 1 as [|x l Hx _ IH]; cbn; [reflexivity|]. intros H.
    apply andb_prop in H as [H1 H2]. rewrite (Hx H1). cbn. rewrite (IH H2). reflexivity.
  Qed.
  Lemma fv_rec_ok r :
    Forall (fun kv => plain (snd kv) = true -> from_value (snd kv) = Ok (sv_of (snd kv))) r ->
    forallb (fun kv => plain (snd kv)) r = true -> fv_rec r = Ok (mapv sv_of r).
  Proof.
    induction 1 as [|[k x] r Hx _ IH]; [reflexivity|]. intros H. cbn [forallb snd] in H.
    apply andb_prop in H as [H1 H2]. cbn [snd] in Hx.
    change (fv_rec ((k, x) :: r)) with (do y <- from_value x; do ys <- fv_rec r; Ok ((k, y) :: ys)).
    rewrite (Hx H1), (IH H2). reflexivity.
  Qed.

  (* from_value succeeds on every value without functions/spreads and is the structural map *)
  Lemma from_value_plain v : plain v = true -> from_value v = Ok (sv_of v).
  Proof.
    induction v as [x|x| |s|l IH|r IH|id ar bd sc _|bi|v _] using value_ind'; try reflexivity;
      try discriminate.
    - intros H. rewrite from_value_list. cbn [plain] in H. now rewrite (fv_list_ok l IH H).
    - intros H. cbn [plain] in H. apply andb_prop in H as [Hnd Hp].
      rewrite from_value_rec, (fv_rec_ok r IH Hp). cbn.
      rewrite imap_collect_NoDup; [reflexivity|]. rewrite keys_mapv. now apply nodup_keys_keys.
  Qed.

  Lemma tv_list_ok l :
    Forall (fun x => splain x = true -> to_value x = Ok (val_of x)) l ->
    forallb splain l = true -> tv_list l = Ok (map val_of l).
  Proof.
    induction 1 as [|x l Hx _ IH]; cbn; [reflexivity|]. intros H.
    apply andb_prop in H as [H1 H2]. rewrite (Hx H1). cbn. rewrite (IH H2). reflexivity.
  Qed.
  Lemma tv_rec_ok r :
    Forall (fun kv => splain (snd kv) = true -> to_value (snd kv) = Ok (val_of (snd kv))) r ->
    forallb (fun kv => splain (snd kv)) r = true -> tv_rec r = Ok (mapv val_of r).
  Proof.
    induction 1 as [|[k x] r Hx _ IH]; [reflexivity|]. intros H. cbn [forallb snd] in H.
    apply andb_prop in H as [H1 H2]. cbn [snd] in Hx.
    change (tv_rec ((k, x) :: r)) with (do y <- to_value x; do ys <- tv_rec r; Ok ((k, y) :: ys)).
    rewrite (Hx H1), (IH H2). reflexivity.
  Qed.
  Lemma to_value_splain s : splain s = true -> to_value s = Ok (val_of s).
  Proof.
    induction s as [x|x| |s|l IH|r IH|n a b sc _|n] using svalue_ind'; try reflexivity;
      try discriminate.
    - intros H. rewrite to_value_list. cbn [splain] in H. now rewrite (tv_list_ok l IH H).
    - intros H. cbn [splain] in H. apply andb_prop in H as [Hnd Hp].
      rewrite to_value_rec, (tv_rec_ok r IH Hp). cbn.
      rewrite imap_collect_NoDup; [reflexivity|]. rewrite keys_mapv. now apply nodup_keys_keys.
  Qed.

  Lemma nodup_keys_mapv {A B} (f : A -> B) m : nodup_keys (mapv f m) = nodup_keys m.
  Proof.
    destruct (nodup_keys m) eqn:E.
    - apply nodup_keys_keys. rewrite keys_mapv. now apply nodup_keys_keys.
    - destruct (nodup_keys (mapv f m)) eqn:E2; [|reflexivity].
      apply nodup_keys_keys in E2. rewrite keys_mapv in E2. apply nodup_keys_keys in E2. congruence.
  Qed.

  Lemma splain_sv_of v : plain v = true -> splain (sv_of v) = true.
  Proof.
    induction v as [x|x| |s|l IH|r IH|id ar bd sc _|bi|v _] using value_ind'; try reflexivity;
      try discriminate.
    - cbn. rewrite forallb_forall. intros H. apply forallb_forall. intros y Hy.
      apply in_map_iff in Hy as (x & <- & Hx). rewrite Forall_forall in IH. auto.
    - cbn [plain]. intros H. apply andb_prop in H as [Hnd Hp]. rewrite sv_of_rec. cbn [splain].
      rewrite nodup_keys_mapv, Hnd. cbn.
      apply (forallb_mapv splain plain sv_of r); [|exact Hp].
      intros k x Hx. rewrite Forall_forall in IH. apply (IH (k, x) Hx).
  Qed.
  Lemma val_of_sv_of v : plain v = true -> val_of (sv_of v) = v.
  Proof.
    induction v as [x|x| |s|l IH|r IH|id ar bd sc _|bi|v _] using value_ind'; try reflexivity;
      try discriminate.
    - cbn. intros H. f_equal. rewrite map_map. rewrite <- (map_id l) at 2. apply map_ext_in.
      intros x Hx. rewrite Forall_forall in IH. rewrite forallb_forall in H. auto.
    - cbn [plain]. intros H. apply andb_prop in H as [_ Hp]. rewrite sv_of_rec, val_of_rec. f_equal.
      rewrite mapv_mapv. rewrite <- (mapv_id r) at 2. apply mapv_ext_in. intros k x Hx.
      rewrite Forall_forall in IH. rewrite forallb_forall in Hp. apply (IH (k, x) Hx (Hp (k, x) Hx)).
  Qed.

  (* to_value (from_value v) is v itself, structurally: same numbers bit for bit, same strings
     and keys byte for byte, same key order *)
  Theorem to_value_from_value v :
    plain v = true -> (do s <- from_value v; to_value s) = Ok v.
  Proof.
    intros H. rewrite (from_value_plain v H). cbn.
    rewrite (to_value_splain _ (splain_sv_of v H)). now rewrite val_of_sv_of.
  Qed.

  (* ---------------------------------------------------------------- svalue -> json -> svalue *)
  Lemma to_json_is_str v f : to_json (sv_of v) = JStr f -> json_data v = true -> v = VStr f.
  Proof. destruct v; cbn; try discriminate. congruence. Qed.

  Lemma reserved_transfer r :
    json_data (VRec r) = true -> reserved_obj pfs vstr_of r = false ->
    reserved_obj pfs jstr_of (mapv (fun x => to_json (sv_of x)) (bmap_collect r)) = false.
  Proof.
    rewrite json_data_rec. intros H. apply andb_prop in H as [Hnd Hd]. apply nodup_keys_keys in Hnd.
    unfold reserved_obj. rewrite rec_get_mapv, rec_get_bmap_collect, (get_last_NoDup r _ Hnd).
    destruct (rec_get r FN_KEY) as [x|] eqn:E; cbn; [|reflexivity].
    destruct (jstr_of (to_json (sv_of x))) as [f|] eqn:E2; [|reflexivity].
    assert (Hx : x = VStr f).
    { apply to_json_is_str.
      - destruct (to_json (sv_of x)); cbn in E2; congruence.
      - rewrite forallb_forall in Hd. apply (Hd (FN_KEY, x)). now apply rec_get_In. }
    subst x. cbn. trivial.
  Qed.

  (* P0 json_tree_roundtrip: the JSON tree written for a data value reads back as the same
     serialisable value with the record keys of every level in sorted order *)
  Theorem json_tree_roundtrip v :
    json_data v = true -> value_no_reserved pfs v = true ->
    from_json (to_json (sv_of v)) = sv_of (vsort v).
  Proof.
    induction v as [x|x| |s|l IH|r IH|id ar bd sc _|bi|v _] using value_ind'; try reflexivity;
      try discriminate.
    - cbn. intros H _. unfold jnum_of_f64. now rewrite H.
    - cbn [json_data value_no_reserved]. intros Hd Hr. cbn [sv_of vsort].
      rewrite to_json_list, from_json_arr, !map_map. f_equal. apply map_ext_in. intros x Hx.
      rewrite Forall_forall in IH. rewrite forallb_forall in Hd, Hr. auto.
    - intros Hd Hr. pose proof Hd as Hd0. rewrite json_data_rec in Hd.
      apply andb_prop in Hd as [Hnd Hd]. cbn [value_no_reserved] in Hr.
      apply andb_prop in Hr as [Hr0 Hr]. apply negb_true_iff in Hr0.
      rewrite sv_of_rec, to_json_rec, mapv_mapv, bmap_collect_mapv.
      rewrite from_json_obj_regular by now apply reserved_transfer.
      unfold regular. rewrite mapv_mapv.
      rewrite vsort_rec, sv_of_rec, bmap_collect_mapv, mapv_mapv.
      rewrite imap_collect_NoDup.
      + f_equal. apply mapv_ext_in. intros k x Hx. apply bmap_collect_in in Hx.
        rewrite Forall_forall in IH. rewrite forallb_forall in Hd, Hr.
        apply (IH (k, x) Hx (Hd (k, x) Hx) (Hr (k, x) Hx)).
      + rewrite keys_mapv. apply ksorted_NoDup, bmap_collect_sorted.
  Qed.

  (* ---------------------------------------------------------------- the sorted value *)
  Lemma vsort_data v : json_data v = true -> json_data (vsort v) = true.
  Proof.
    induction v as [x|x| |s|l IH|r IH|id ar bd sc _|bi|v _] using value_ind'; try (cbn; congruence).
    - cbn. rewrite !forallb_forall. intros H y Hy. apply in_map_iff in Hy as (x & <- & Hx).
      rewrite Forall_forall in IH. auto.
    - rewrite vsort_rec, !json_data_rec. intros H. apply andb_prop in H as [Hnd Hd].
      apply andb_true_intro; split.
      + apply nodup_keys_keys, ksorted_NoDup, bmap_collect_sorted.
      + rewrite forallb_forall. intros [k y] Hy. apply bmap_collect_in in Hy.
        apply in_mapv in Hy as (x & Hx & ->). cbn. rewrite Forall_forall in IH.
        rewrite forallb_forall in Hd. apply (IH (k, x) Hx (Hd (k, x) Hx)).
  Qed.

  Lemma finite_neqb_refl x : is_finite x = true -> neqb x x = true.
  Proof. intros H. apply neqb_ncmp, ncmp_refl. now destruct x. Qed.

  (* .== : the sorted value equals the original *)
  Lemma equals_vsort v : json_data v = true -> equals (vsort v) v = true.
  Proof.
    induction v as [x|x| |s|l IH|r IH|id ar bd sc _|bi|v _] using value_ind'; try discriminate;
      try reflexivity.
    - cbn. apply finite_neqb_refl.
    - intros _. cbn. now destruct x.
    - intros _. cbn. apply String.eqb_refl.
    - cbn [json_data vsort]. rewrite equals_list. intros H.
      induction IH as [|x l Hx _ IHl]; cbn in *; [reflexivity|].
      apply andb_prop in H as [H1 H2]. rewrite (Hx H1). auto.
    - rewrite json_data_rec, vsort_rec. intros H. apply andb_prop in H as [Hnd Hd].
      apply nodup_keys_keys in Hnd. rewrite equals_rec.
      assert (Hnd' : NoDup (keys (mapv vsort r))) by now rewrite keys_mapv.
      apply andb_true_intro; split.
      + apply Nat.eqb_eq. rewrite <- (Permutation_length (bmap_collect_perm _ Hnd')).
        apply length_mapv.
      + apply eq_rec_intro. intros k y Hy. apply bmap_collect_in in Hy.
        apply in_mapv in Hy as (x & Hx & ->). exists x. split.
        * now apply rec_get_In_NoDup.
        * rewrite Forall_forall in IH. rewrite forallb_forall in Hd. apply (IH (k, x) Hx (Hd (k, x) Hx)).
  Qed.

  (* bit-exact numbers, byte-exact strings and keys *)
  Definition sd_list := fix go (l m : list value) {struct l} : bool :=
    match l, m with
    | [], [] => true
    | x :: l', y :: m' => same_data x y && go l' m'
    | _, _ => false
    end.
  Definition sd_rec (s : list (string * value)) := fix go (r : list (string * value)) {struct r} : bool :=
    match r with
    | [] => true
    | (k, x) :: r' =>
        match rec_get s k with
        | Some y => same_data x y && go r'
        | None => false
        end
    end.
  Lemma same_data_list l m : same_data (VList l) (VList m) = sd_list l m.
  Proof. reflexivity. Qed.
  Lemma same_data_rec r s :
    same_data (VRec r) (VRec s) = Nat.eqb (length r) (length s) && sd_rec s r.
  Proof. reflexivity. Qed.
  Lemma sd_rec_intro s r :
    (forall k x, In (k, x) r -> exists y, rec_get s k = Some y /\ same_data x y = true) ->
    sd_rec s r = true.
  Proof.
    induction r as [|[k0 x0] r IH]; cbn; [reflexivity|]. intros H.
    destruct (H k0 x0 (or_introl eq_refl)) as (y & -> & ->). apply IH. intros; apply H; now right.
  Qed.
  Lemma same_data_vsort v : json_data v = true -> same_data (vsort v) v = true.
  Proof.
    induction v as [x|x| |s|l IH|r IH|id ar bd sc _|bi|v _] using value_ind'; try discriminate;
      try reflexivity.
    - intros _. cbn. apply Z.eqb_refl.
    - intros _. cbn. now destruct x.
    - intros _. cbn. apply String.eqb_refl.
    - cbn [json_data vsort]. rewrite same_data_list. intros H.
      induction IH as [|x l Hx _ IHl]; cbn in *; [reflexivity|].
      apply andb_prop in H as [H1 H2]. rewrite (Hx H1). auto.
    - rewrite json_data_rec, vsort_rec. intros H. apply andb_prop in H as [Hnd Hd].
      apply nodup_keys_keys in Hnd. rewrite same_data_rec.
      assert (Hnd' : NoDup (keys (mapv vsort r))) by now rewrite keys_mapv.
      apply andb_true_intro; split.
      + apply Nat.eqb_eq. rewrite <- (Permutation_length (bmap_collect_perm _ Hnd')).
        apply length_mapv.
      + apply sd_rec_intro. intros k y Hy. apply bmap_collect_in in Hy.
        apply in_mapv in Hy as (x & Hx & ->). exists x. split.
        * now apply rec_get_In_NoDup.
        * rewrite Forall_forall in IH. rewrite forallb_forall in Hd. apply (IH (k, x) Hx (Hd (k, x) Hx)).
  Qed.

  (* P0, value level: output -> JSON tree -> input gives back a value .== to the original,
     bit-exact on numbers, byte-exact on strings and keys, at any depth *)
  Theorem value_roundtrip v :
    json_data v = true -> value_no_reserved pfs v = true ->
    exists v',
      (do s <- from_value v; to_value (from_json (to_json s))) = Ok v' /\
      v' = vsort v /\ equals v' v = true /\ same_data v' v = true.
  Proof.
    intros Hd Hr. exists (vsort v). split; [|split; [reflexivity|split]].
    - rewrite (from_value_plain v (json_data_plain v Hd)). cbn.
      rewrite (json_tree_roundtrip v Hd Hr).
      pose proof (json_data_plain _ (vsort_data v Hd)) as Hp.
      rewrite (to_value_splain _ (splain_sv_of _ Hp)). now rewrite val_of_sv_of.
    - now apply equals_vsort.
    - now apply same_data_vsort.
  Qed.
End RT.
