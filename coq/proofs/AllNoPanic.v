(* AllNoPanic.v — C01 for the complete built-in set: after the arity check no arm of
   EvalAll.builtin_all panics, for EVERY oracle, under two named side conditions that concern
   things outside the transcription (the third, time_now's clock, is gone: repo fix bf56486 made the arm
   total and the model followed):
     percentile   AggPanics.args_ok: p is a genuine double and the list has at most 2^53 elements
                  (spec_float has non-canonical inhabitants no f64 corresponds to);
     format       the display of the numbers among the arguments does not overflow its i32 / i64
                  arithmetic (DisplayNum.v; holds for every genuine double when floor(log10 a) is
                  within +-2000: display_safe_of_valid, from C20's display_no_panic);
   Everything else is unconditional: every args[i], `&args[1..]`, the dyn-fmt state machine incl. its
   `unreachable_unchecked()` arm.  Also: `^` through the oracle's powf never panics. *)
From Coq Require Import String Ascii List ZArith Bool Lia Floats.SpecFloat.
Require Import Blots.Num Blots.gen.Builtins Blots.Ast Blots.Value Blots.Outcome Blots.Binop
               Blots.Env Blots.Eval Blots.BuiltinsHof Blots.Program Blots.EvalInst Blots.EvalFull
               Blots.EvalAll Blots.BuiltinsList Blots.BuiltinsAgg Blots.BuiltinsText Blots.DisplayNum
               Blots.proofs.NoPanic Blots.proofs.NoPanicList Blots.proofs.ListLaws2
               Blots.proofs.Aggregates Blots.proofs.AggPanics Blots.proofs.DisplayNum.
Import ListNotations.
Open Scope list_scope.
Open Scope nat_scope.

(* ---------------- dyn-fmt: the unreachable_unchecked() arm is unreachable ---------------- *)
Lemma dyn_go_np : forall fmt s args,
  (s = DArg -> fmt <> EmptyString) -> dyn_go s fmt args <> Panic.
Proof.
  induction fmt as [|b rest IH]; intros s args Hs.
  - destruct s; cbn [dyn_go]; try discriminate. exfalso. apply Hs; reflexivity.
  - assert (HP : forall a, dyn_go DPiece rest a <> Panic) by (intros a; apply IH; discriminate).
    assert (Hlit : forall a, (do t <- dyn_go DPiece rest a; Ok (String b t)) <> Panic).
    { intros a. apply obind_np; [apply HP|]. discriminate. }
    destruct s; cbn [dyn_go].
    + destruct (is_lbrace b).
      * destruct rest; [discriminate|]. apply IH. discriminate.
      * destruct (is_rbrace b); [|apply Hlit].
        destruct rest; [discriminate|]. apply IH. discriminate.
    + destruct (is_rbrace b); [|apply Hlit].
      destruct args as [|a args']; [apply HP|].
      apply obind_np; [apply HP|]. discriminate.
    + apply Hlit.
Qed.
Lemma dyn_format_np : forall fmt args, dyn_format fmt args <> Panic.
Proof. intros. unfold dyn_format. apply dyn_go_np. discriminate. Qed.

(* the arm IS live code of the model: without the `if fmt.is_empty() { break }` guard the state
   machine would run off the end *)
Example dyn_unreachable_arm_is_modelled : dyn_go DArg EmptyString [] = Panic.
Proof. reflexivity. Qed.

Lemma slice_from_np : forall {A} (l : list A) n, n <= length l -> slice_from l n <> Panic.
Proof. intros A l n H. unfold slice_from. apply Nat.leb_le in H. rewrite H. discriminate. Qed.
Lemma slice_from_ok : forall {A} (l : list A) n, n <= length l -> slice_from l n = Ok (skipn n l).
Proof. intros A l n H. unfold slice_from. apply Nat.leb_le in H. rewrite H. reflexivity. Qed.

(* ---------------- the new arms ---------------- *)
Definition format_display_safe (o : oracle) (args : list value) : Prop :=
  mapM (stringify_display_all o) (skipn 1 args) <> Panic.

Section Arms.
  Variable o : oracle.

  Lemma to_string_all_np : forall args, 1 <= length args -> bi_to_string_all o args <> Panic.
  Proof.
    intros args H. unfold bi_to_string_all. apply obind_np; [apply arg_np; lia|]. intros a _.
    destruct a; discriminate.
  Qed.
  Lemma join_all_np : forall args, 2 <= length args -> bi_join_all o args <> Panic.
  Proof.
    intros args H. unfold bi_join_all.
    apply obind_np; [apply arg_np; lia|]. intros a1 _.
    apply obind_np; [apply as_string_np|]. intros d _.
    apply obind_np; [apply arg_np; lia|]. intros a0 _.
    apply obind_np; [apply as_list_np|]. discriminate.
  Qed.
  Lemma format_np : forall args, 1 <= length args -> format_display_safe o args -> bi_format o args <> Panic.
  Proof.
    intros args H Hd. unfold bi_format.
    apply obind_np; [apply arg_np; lia|]. intros a0 _.
    apply obind_np; [apply as_string_np|]. intros f _.
    rewrite slice_from_ok by lia. cbn [obind].
    apply obind_np; [exact Hd|]. intros fa _.
    apply obind_np; [apply dyn_format_np|]. discriminate.
  Qed.
  Lemma print_line_np : forall args, 1 <= length args -> print_line o args <> Panic.
  Proof.
    intros args H. unfold print_line.
    assert (Hgen : (do a0 <- arg args 0; do format_str <- as_string a0; do rest <- slice_from args 1;
                    dyn_format format_str (map (stringify_internal_all o) rest)) <> Panic).
    { apply obind_np; [apply arg_np; lia|]. intros a0 _.
      apply obind_np; [apply as_string_np|]. intros f _.
      rewrite slice_from_ok by lia. cbn [obind]. apply dyn_format_np. }
    destruct args as [|x [|y r]]; try exact Hgen.
    apply obind_np; [apply arg_np; cbn; lia|]. discriminate.
  Qed.
  Lemma print_np : forall args, 1 <= length args -> bi_print o args <> Panic.
  Proof.
    intros args H. unfold bi_print. apply obind_np; [apply print_line_np; exact H|]. discriminate.
  Qed.
  (* total since repo fix bf56486 (before it: Panic when the clock read a time before the epoch) *)
  Lemma time_now_np : forall args, bi_time_now o args <> Panic.
  Proof. intros args. unfold bi_time_now. discriminate. Qed.
End Arms.

(* ---------------- the arms of builtin_full without a no-panic lemma so far ---------------- *)
Lemma convert_np : forall args, 3 <= length args -> bi_convert args <> Panic.
Proof.
  intros args H. unfold bi_convert.
  apply obind_np; [apply barg_np; lia|]. intros a0 _. apply obind_np; [apply bas_number_np|]. intros v _.
  apply obind_np; [apply barg_np; lia|]. intros a1 _. apply obind_np; [apply bas_string_np|]. intros f _.
  apply obind_np; [apply barg_np; lia|]. intros a2 _. apply obind_np; [apply bas_string_np|]. intros t _.
  unfold convert_result. destruct (Units.convert _ _ _ _); discriminate.
Qed.
Lemma round_np : forall args, 1 <= length args -> length args <= 2 -> bi_round args <> Panic.
Proof.
  intros args H H2. unfold bi_round.
  apply obind_np; [apply barg_np; lia|]. intros a0 _. apply obind_np; [apply bas_number_np|]. intros x _.
  destruct args as [|p0 [|q0 [|r0 s0]]]; cbn [length] in *; try lia; try discriminate.
  apply obind_np; [apply barg_np; cbn; lia|]. intros a1 _.
  apply obind_np; [apply bas_number_np|]. discriminate.
Qed.
Lemma random_np : forall args, 1 <= length args -> bi_random args <> Panic.
Proof.
  intros args H. unfold bi_random.
  apply obind_np; [apply barg_np; lia|]. intros a0 _. apply obind_np; [apply bas_number_np|]. discriminate.
Qed.
Lemma to_number_np : forall args, 1 <= length args -> bi_to_number args <> Panic.
Proof.
  intros args H. unfold bi_to_number. apply obind_np; [apply barg_np; lia|]. intros a0 _.
  destruct a0; try discriminate;
    (apply obind_np; [apply bas_string_np|]; intros s9 _; unfold parse_result;
     destruct (NumText.ref_str_parse s9); discriminate).
Qed.

Lemma stringify_internal_np : forall v, stringify_internal v <> Panic.
Proof. intros v. unfold stringify_internal. destruct (has_function v); discriminate. Qed.
Lemma to_string_full_np : forall args, 1 <= length args -> bi_to_string args <> Panic.
Proof.
  intros args H. unfold bi_to_string. apply obind_np; [apply barg_np; lia|]. intros a0 _.
  destruct a0; try discriminate; (apply obind_np; [apply stringify_internal_np|]; discriminate).
Qed.
Lemma join_full_np : forall args, 2 <= length args -> bi_join_full args <> Panic.
Proof.
  intros args H. unfold bi_join_full.
  apply obind_np; [apply barg_np; lia|]. intros a1 _. apply obind_np; [apply bas_string_np|]. intros d _.
  apply obind_np; [apply barg_np; lia|]. intros a0 _. apply obind_np; [apply bas_list_np|]. intros l _.
  apply obind_np; [apply mapM_np; intros; apply stringify_internal_np|]. discriminate.
Qed.

Lemma agg_np : forall a args,
  can_accept (builtin_arity (agg_builtin a)) (length args) = true ->
  args_ok args -> bi_agg a args <> Panic.
Proof.
  intros a args Ha Hok. pose proof (no_panic a args Hok) as H. unfold checked_call in H.
  assert (E : arity_ok (builtin_arity (agg_builtin a)) (length args) = true).
  { revert Ha. unfold can_accept, arity_can_accept, arity_ok.
    destruct (builtin_arity (agg_builtin a)); auto. }
  rewrite E in H. exact H.
Qed.
(* the aggregates other than percentile: AggPanics.checked_call_total without its percentile case
   (which is the only one that needs args_ok and, through the bound on the rounded index, the reals) *)
Lemma agg_np_free : forall a args, a <> APercentile ->
  can_accept (builtin_arity (agg_builtin a)) (length args) = true -> bi_agg a args <> Panic.
Proof.
  intros a args Hne Ha.
  assert (Ar : arity_ok (builtin_arity (agg_builtin a)) (length args) = true).
  { revert Ha. unfold can_accept, arity_can_accept, arity_ok. destruct (builtin_arity (agg_builtin a)); auto. }
  clear Ha.
  assert (T : ok_or_err (bi_agg a args)).
  { unfold ok_or_err.
    assert (V : forall f, Aggregates.is_varargs f = true -> f <> AMedian ->
                (exists v, bi_agg f args = Ok v) \/ bi_agg f args = Err).
    { intros f Hf Hm. rewrite (Aggregates.bi_agg_collect f args Hf).
      destruct (collect_nums_cases args) as [(ns & ->)| ->]; [|now right]. cbn [obind].
      destruct ns; [now right|]. cbn [is_empty]. destruct f; try discriminate; try congruence; cbn; eauto. }
    destruct a; cbn [bi_agg]; try congruence.
    1-5: (apply (V AMin) || apply (V AMax) || apply (V AAvg) || apply (V ASum) || apply (V AProd));
         [reflexivity|discriminate].
    - assert (O := bi_median_outcome args).
      destruct (Aggregates.collect_nums args) as [ns| | | |]; try (rewrite O; now right).
      destruct ns as [|x ns]; [rewrite O; now right|]. cbn [is_empty] in O.
      destruct (has_nan (x :: ns)); [rewrite O; eauto|]. destruct O as (v & ->). eauto.
    - cbn in Ar. destruct args as [|a0 [|? ?]]; try discriminate.
      unfold bi_any. cbn. destruct a0; cbn; eauto.
    - cbn in Ar. destruct args as [|a0 [|? ?]]; try discriminate.
      unfold bi_all. cbn. destruct a0; cbn; eauto.
    - cbn in Ar. destruct args as [|a0 [|a1 [|? ?]]]; try discriminate.
      unfold bi_dot. cbn. destruct a0; cbn; eauto. destruct a1; cbn; eauto.
      destruct (negb (length l =? length l0)%nat); [now right|].
      destruct (dot_loop_cases l0 l n0) as [(v & ->)| ->]; cbn; eauto. }
  destruct T as [(v & ->)| ->]; discriminate.
Qed.

Ltac arity_facts Ha :=
  cbn [builtin_arity] in Ha; unfold can_accept, arity_can_accept in Ha;
  repeat match type of Ha with
         | (_ && _)%bool = true => let H1 := fresh "Hb" in apply andb_true_iff in Ha; destruct Ha as [Ha H1];
                                   try apply Nat.leb_le in H1
         end;
  try apply Nat.eqb_eq in Ha; try apply Nat.leb_le in Ha.
Ltac in_table := cbn [In list_builtin_arms]; unfold list_builtin_arms; cbn [In];
  repeat (first [left; reflexivity | right]).

(* ---------------- EvalFull.builtin_full: every transcribed built-in ---------------- *)
(* axiom-free core: percentile's own arm is the hypothesis (AggPanics discharges it from args_ok through
   a bound on the rounded index proved over the reals, i.e. with the standard library's real-number axioms) *)
Theorem builtin_full_no_panic_gen : forall cb b args st,
  cb_safe cb -> can_accept (builtin_arity b) (length args) = true ->
  (b = B_percentile -> bi_percentile args <> Panic) ->
  fst (builtin_full cb b args st) <> Panic.
Proof.
  intros cb b args st Hcb Ha Hp.
  destruct b; cbn [builtin_full];
    try (apply builtin_impl_no_panic; assumption);
    unfold pure_bi; cbn [fst].
  - arity_facts Ha. apply round_np; lia.
  - arity_facts Ha. apply random_np; lia.
  - exact (agg_np_free AMin args ltac:(discriminate) Ha).
  - exact (agg_np_free AMax args ltac:(discriminate) Ha).
  - exact (agg_np_free AAvg args ltac:(discriminate) Ha).
  - exact (agg_np_free ASum args ltac:(discriminate) Ha).
  - exact (agg_np_free AProd args ltac:(discriminate) Ha).
  - exact (agg_np_free AMedian args ltac:(discriminate) Ha).
  - exact (Hp eq_refl).
  - apply range_no_panic.
  - apply (list_builtins_no_panic B_len); [in_table|exact Ha].
  - apply (list_builtins_no_panic B_head); [in_table|exact Ha].
  - apply (list_builtins_no_panic B_tail); [in_table|exact Ha].
  - apply (list_builtins_no_panic B_slice); [in_table|exact Ha].
  - apply (list_builtins_no_panic B_concat); [in_table|exact Ha].
  - exact (agg_np_free ADot args ltac:(discriminate) Ha).
  - apply (list_builtins_no_panic B_unique); [in_table|exact Ha].
  - apply (list_builtins_no_panic B_sort); [in_table|exact Ha].
  - apply sort_by_np; [exact Hcb|exact Ha].
  - apply (list_builtins_no_panic B_reverse); [in_table|exact Ha].
  - apply (list_builtins_no_panic B_split); [in_table|exact Ha].
  - arity_facts Ha. apply join_full_np. lia.
  - apply (list_builtins_no_panic B_replace); [in_table|exact Ha].
  - arity_facts Ha. apply to_string_full_np. lia.
  - arity_facts Ha. apply to_number_np. lia.
  - arity_facts Ha. apply convert_np. lia.
  - apply (list_builtins_no_panic B_includes); [in_table|exact Ha].
  - apply (list_builtins_no_panic B_keys); [in_table|exact Ha].
  - apply (list_builtins_no_panic B_values); [in_table|exact Ha].
  - apply (list_builtins_no_panic B_entries); [in_table|exact Ha].
  - apply group_by_np; [exact Hcb|exact Ha].
  - apply count_by_np; [exact Hcb|exact Ha].
  - apply (list_builtins_no_panic B_flatten); [in_table|exact Ha].
  - apply (list_builtins_no_panic B_zip); [in_table|exact Ha].
  - apply (list_builtins_no_panic B_chunk); [in_table|exact Ha].
Qed.
Theorem builtin_full_no_panic : forall cb b args st,
  cb_safe cb -> can_accept (builtin_arity b) (length args) = true ->
  (b = B_percentile -> args_ok args) ->
  fst (builtin_full cb b args st) <> Panic.
Proof.
  intros cb b args st Hcb Ha Hp. apply builtin_full_no_panic_gen; [exact Hcb|exact Ha|].
  intros ->. exact (agg_np APercentile args Ha (Hp eq_refl)).
Qed.

(* ---------------- EvalAll.builtin_all: every built-in of the table ---------------- *)
Theorem builtin_all_no_panic_gen : forall o cb b args st,
  cb_safe cb -> can_accept (builtin_arity b) (length args) = true ->
  (b = B_percentile -> bi_percentile args <> Panic) ->
  (b = B_format -> format_display_safe o args) ->
  fst (builtin_all o cb b args st) <> Panic.
Proof.
  intros o cb b args st Hcb Ha Hp Hf.
  destruct b; cbn [builtin_all];
    try (apply builtin_full_no_panic_gen; [exact Hcb|exact Ha|first [exact Hp|discriminate]]);
    unfold pure_bi; cbn [fst];
    try (apply trim_np; exact Ha); try (apply uppercase_np; exact Ha); try (apply lowercase_np; exact Ha);
    arity_facts Ha;
    try (apply num1_np; lia).
  - apply join_all_np; lia.
  - apply to_string_all_np; lia.
  - apply format_np; [lia|exact (Hf eq_refl)].
  - apply print_np; lia.
  - apply time_now_np.
Qed.

Theorem builtin_all_no_panic : forall o cb b args st,
  cb_safe cb -> can_accept (builtin_arity b) (length args) = true ->
  (b = B_percentile -> args_ok args) ->
  (b = B_format -> format_display_safe o args) ->
  fst (builtin_all o cb b args st) <> Panic.
Proof.
  intros o cb b args st Hcb Ha Hp Hf. apply builtin_all_no_panic_gen; try assumption.
  intros ->. exact (agg_np APercentile args Ha (Hp eq_refl)).
Qed.

(* time_now is total for every clock reading (repo fix bf56486; the model's former None arm is gone) *)
Example time_now_total : forall o cb st,
  fst (builtin_all o cb B_time_now [] st) = Ok (VNum (o_now o)).
Proof. reflexivity. Qed.

(* `^` through the oracle's powf *)
Theorem binop_all_no_panic : forall o cb op l r st,
  cb_safe cb -> fst (binop_all o cb op l r st) <> Panic.
Proof.
  intros o cb op l r st Hcb. unfold binop_all.
  destruct op; try (apply binop_impl_no_panic; exact Hcb).
  apply (eval_binop_no_panic store cb Hcb).
Qed.

(* ---------------- the format side condition holds for genuine doubles ---------------- *)
Definition nums_valid (o : oracle) (v : value) : Prop :=
  Forall (fun x => valid_binary prec emax x = true) (nums_in v).
Definition log10_in_range (o : oracle) : Prop :=
  forall a, (Z.abs (as_i32 (nfloor (o_log10 o a))) <= 2000)%Z.

Lemma display_safe_of_valid : forall o args,
  log10_in_range o -> Forall (nums_valid o) (skipn 1 args) -> format_display_safe o args.
Proof.
  intros o args Hlog Hv. unfold format_display_safe. apply mapM_np. intros v Hin.
  rewrite Forall_forall in Hv. specialize (Hv v Hin). unfold nums_valid in Hv. rewrite Forall_forall in Hv.
  unfold stringify_display_all. destruct (display_panics o v) eqn:E; [exfalso|discriminate].
  unfold display_panics in E. apply existsb_exists in E. destruct E as [x [Hx Hpx]].
  destruct (display_no_panic (o_log10 o) (o_powi o) (o_fmt_prec o) (o_fmt_exp14 o) (o_parse_f64 o) true
              Hlog x (Hv x Hx)) as [t Ht].
  unfold display_text in Hpx. rewrite Ht in Hpx. discriminate Hpx.
Qed.

Theorem builtin_all_no_panic_genuine : forall o cb b args st,
  cb_safe cb -> can_accept (builtin_arity b) (length args) = true ->
  log10_in_range o ->
  args_ok args -> Forall (nums_valid o) (skipn 1 args) ->
  fst (builtin_all o cb b args st) <> Panic.
Proof.
  intros o cb b args st Hcb Ha Hl Hok Hv.
  apply builtin_all_no_panic; auto. intros _. apply display_safe_of_valid; assumption.
Qed.
