(* UnitsFloat.v — binary64 error bound for the linear conversion kind (C17, float level), with Flocq:
   each SpecFloat multiplication / division of valid finite non-zero numbers whose exact result lies in
   the normal range is the exact result times (1 + e), |e| <= 2^-53 (Flocq's Bmult_correct_aux /
   Bdiv_correct_aux + relative_error_N_FLT_ex, bridged to Coq's SpecFloat.binary_round_aux); hence
   there-and-back between two linear units is the identity up to four such factors. *)
From Coq Require Import ZArith Reals Floats.SpecFloat Psatz Lra List.
From Flocq Require Import Core Relative BinarySingleNaN.
Require Import Blots.Num Blots.UnitsBase Blots.gen.UnitsTable Blots.Units.
Open Scope R_scope.

Global Instance prec_gt_0_53 : Prec_gt_0 53. Proof. reflexivity. Qed.
Global Instance prec_lt_emax_53 : Prec_lt_emax 53 1024. Proof. reflexivity. Qed.

Definition Rv (x : num) : R := SF2R radix2 x.
(* a valid, finite, non-zero binary64 *)
Definition fin (x : num) : Prop :=
  match x with S754_finite s m e => SpecFloat.bounded 53 1024 m e = true | _ => False end.
Definition u53 : R := / 2 * bpow radix2 (-53 + 1).
Definition in_range (x : R) : Prop := bpow radix2 (-1022) <= Rabs x <= bpow radix2 1023.

Lemma round_nearest_even_equiv s m l :
  round_nearest_even m l = choice_mode mode_NE s m l.
Proof.
case l; [reflexivity|intro c].
case c; [ | reflexivity..].
now simpl; unfold Round.cond_incr; case Z.even.
Qed.
Lemma binary_round_aux_equiv sx mx ex lx :
  SpecFloat.binary_round_aux 53 1024 sx mx ex lx
  = binary_round_aux 53 1024 mode_NE sx mx ex lx.
Proof.
unfold SpecFloat.binary_round_aux, binary_round_aux.
set (mrse' := shr_fexp _ _ _ _ _).
case mrse'; intros mrs' e'; simpl.
now rewrite (round_nearest_even_equiv sx).
Qed.


Lemma fexp_eq : fexp 53 1024 = FLT_exp (-1074) 53.
Proof. reflexivity. Qed.

Lemma u53_lt1 : 0 <= u53 < 1.
Proof.
  unfold u53. pose proof (bpow_gt_0 radix2 (-53 + 1)).
  assert (bpow radix2 (-53 + 1) <= bpow radix2 0) by (apply bpow_le; discriminate).
  simpl (bpow radix2 0) in *. lra.
Qed.

(* rounding a real in the normal range: relative error <= 2^-53, no overflow, non-zero *)
Lemma round_in_range x : in_range x ->
  exists e, Rabs e <= u53 /\
    round radix2 (fexp 53 1024) (round_mode mode_NE) x = x * (1 + e) /\
    Rabs (round radix2 (fexp 53 1024) (round_mode mode_NE) x) < bpow radix2 1024 /\
    round radix2 (fexp 53 1024) (round_mode mode_NE) x <> 0.
Proof.
  intros [Hlo Hhi]. rewrite fexp_eq. simpl round_mode.
  destruct (relative_error_N_FLT_ex radix2 (-1074) 53 ltac:(reflexivity) (fun x => negb (Z.even x)) x) as [e [He Hr]].
  { exact Hlo. }
  change (Rabs e <= u53) in He. exists e. split; [exact He|]. split; [exact Hr|].
  pose proof u53_lt1 as Hu.
  assert (Habs : Rabs e < 1) by lra.
  assert (H1e : 0 < 1 + e <= 1 + u53).
  { apply Rabs_def2 in Habs. pose proof (Rle_abs e). split; lra. }
  assert (Hx : 0 < Rabs x).
  { pose proof (bpow_gt_0 radix2 (-1022)). lra. }
  unfold ZnearestE in *. rewrite Hr. split.
  - rewrite Rabs_mult. rewrite (Rabs_pos_eq (1 + e)) by lra.
    apply Rle_lt_trans with (bpow radix2 1023 * (1 + u53)).
    + apply Rmult_le_compat; lra.
    + change 1024%Z with (1023 + 1)%Z. rewrite bpow_plus. simpl (bpow radix2 1).
      pose proof (bpow_gt_0 radix2 1023). nra.
  - intros H0. apply Rmult_integral in H0. destruct H0 as [H0|H0].
    + rewrite H0, Rabs_R0 in Hx. lra.
    + lra.
Qed.

Lemma fin_of_valid z : valid_binary 53 1024 z = true -> is_finite_SF z = true -> Rv z <> 0 -> fin z.
Proof.
  destruct z as [s|s| |s m e]; simpl; intros V F N; try discriminate; try (exfalso; apply N; reflexivity).
  exact V.
Qed.

Lemma nmul_rel x y : fin x -> fin y -> in_range (Rv x * Rv y) ->
  exists e, Rabs e <= u53 /\ fin (nmul x y) /\ Rv (nmul x y) = Rv x * Rv y * (1 + e).
Proof.
  destruct x as [| | |sx mx ex], y as [| | |sy my ey]; simpl; try contradiction.
  intros Hx Hy HR. unfold nmul, SFmul, Num.prec, Num.emax.
  rewrite binary_round_aux_equiv.
  destruct (Bmult_correct_aux 53 1024 _ _ mode_NE sx mx ex Hx sy my ey Hy) as [V H].
  destruct (round_in_range _ HR) as [e [He [Hr [Hlt Hnz]]]].
  rewrite Rlt_bool_true in H by exact Hlt. destruct H as [HS [HF _]].
  exists e. split; [exact He|]. unfold Rv. split.
  - apply fin_of_valid; auto. unfold Rv. rewrite HS. exact Hnz.
  - rewrite HS. exact Hr.
Qed.

Lemma ndiv_rel x y : fin x -> fin y -> in_range (Rv x / Rv y) ->
  exists e, Rabs e <= u53 /\ fin (ndiv x y) /\ Rv (ndiv x y) = Rv x / Rv y * (1 + e).
Proof.
  destruct x as [| | |sx mx ex], y as [| | |sy my ey]; simpl; try contradiction.
  intros Hx Hy HR. unfold ndiv, SFdiv, Num.prec, Num.emax.
  pose proof (Bdiv_correct_aux 53 1024 _ _ mode_NE sx mx ex sy my ey) as B. cbv zeta in B.
  destruct (SFdiv_core_binary 53 1024 (Z.pos mx) ex (Z.pos my) ey) as [[mz ez] lz].
  rewrite binary_round_aux_equiv. destruct B as [V H].
  destruct (round_in_range _ HR) as [e [He [Hr [Hlt Hnz]]]].
  rewrite Rlt_bool_true in H by exact Hlt. destruct H as [HS [HF _]].
  exists e. split; [exact He|]. unfold Rv. split.
  - apply fin_of_valid; auto. unfold Rv. rewrite HS. exact Hnz.
  - rewrite HS. exact Hr.
Qed.

(* ---------------------------------------------------------------- linear units: there and back *)
Lemma prod_err a b al be : 0 <= al -> 0 <= be -> Rabs (a - 1) <= al -> Rabs (b - 1) <= be ->
  Rabs (a * b - 1) <= (1 + al) * (1 + be) - 1.
Proof.
  intros Ha Hb H1 H2. replace (a * b - 1) with ((a - 1) * (b - 1) + ((a - 1) + (b - 1))) by ring.
  eapply Rle_trans; [apply Rabs_triang|]. rewrite Rabs_mult.
  eapply Rle_trans; [apply Rplus_le_compat_l; apply Rabs_triang|].
  assert (Rabs (a - 1) * Rabs (b - 1) <= al * be).
  { apply Rmult_le_compat; auto using Rabs_pos. }
  lra.
Qed.

Definition finb (x : num) : bool :=
  match x with S754_finite s m e => SpecFloat.bounded 53 1024 m e | _ => false end.
Lemma finb_fin x : finb x = true -> fin x.
Proof. destruct x; simpl; auto; discriminate. Qed.

(* every coefficient of the table is a valid, finite, non-zero binary64 *)
Lemma table_coefficients_finite_ok :
  forallb (fun u => match coef_of u with Some c => finb (num_of_bits (l_bits c)) | None => true end) all_units = true.
Proof. vm_cast_no_check (eq_refl true). Qed.
Theorem table_coefficients_finite : forall u c,
  In u all_units -> coef_of u = Some c -> fin (num_of_bits (l_bits c)).
Proof.
  intros u c Hu Hc. pose proof table_coefficients_finite_ok as H. rewrite forallb_forall in H.
  specialize (H u Hu). rewrite Hc in H. apply finb_fin. exact H.
Qed.

(* binary64, two linear units A and B: v -> B -> A returns v up to four roundings, each of relative
   error at most 2^-53, provided no intermediate result leaves the normal range *)
Theorem there_and_back_float_linear : forall ua ub la lb v,
  u_conv ua = Linear la -> u_conv ub = Linear lb ->
  let ca := num_of_bits (l_bits la) in
  let cb := num_of_bits (l_bits lb) in
  fin v -> fin ca -> fin cb ->
  let r1 := nmul v ca in
  let r2 := through_base fl v ua ub in
  let r3 := nmul r2 cb in
  let r4 := through_base fl r2 ub ua in
  in_range (Rv v * Rv ca) -> in_range (Rv r1 / Rv cb) ->
  in_range (Rv r2 * Rv cb) -> in_range (Rv r3 / Rv ca) ->
  exists e1 e2 e3 e4,
    Rabs e1 <= u53 /\ Rabs e2 <= u53 /\ Rabs e3 <= u53 /\ Rabs e4 <= u53 /\
    Rv r4 = Rv v * ((1 + e1) * (1 + e2) * (1 + e3) * (1 + e4)) /\
    Rabs (Rv r4 - Rv v) <= ((1 + u53) * (1 + u53) * (1 + u53) * (1 + u53) - 1) * Rabs (Rv v).
Proof.
  intros ua ub la lb v Ha Hb ca cb Fv Fa Fb r1 r2 r3 r4.
  assert (E2 : r2 = ndiv r1 cb).
  { unfold r2, through_base, convert_from_base, convert_to_base. rewrite Ha, Hb. reflexivity. }
  assert (E4 : r4 = ndiv r3 ca).
  { unfold r4, through_base, convert_from_base, convert_to_base. rewrite Ha, Hb. reflexivity. }
  rewrite E4. clearbody r2. subst r2. clear E4 r4.
  intros R1 R2 R3 R4.
  destruct (nmul_rel v ca Fv Fa R1) as [e1 [He1 [F1 V1]]]. fold r1 in F1, V1.
  destruct (ndiv_rel r1 cb F1 Fb R2) as [e2 [He2 [F2 V2]]].
  destruct (nmul_rel (ndiv r1 cb) cb F2 Fb R3) as [e3 [He3 [F3 V3]]]. fold r3 in F3, V3.
  destruct (ndiv_rel r3 ca F3 Fa R4) as [e4 [He4 [F4 V4]]].
  exists e1, e2, e3, e4. repeat (split; [assumption|]).
  assert (Na : Rv ca <> 0).
  { destruct ca as [| | |s m e]; simpl in Fa; try contradiction. unfold Rv. simpl.
    apply F2R_neq_0. simpl. destruct s; discriminate. }
  assert (Nb : Rv cb <> 0).
  { destruct cb as [| | |s m e]; simpl in Fb; try contradiction. unfold Rv. simpl.
    apply F2R_neq_0. simpl. destruct s; discriminate. }
  assert (EQ : Rv (ndiv r3 ca) = Rv v * ((1 + e1) * (1 + e2) * (1 + e3) * (1 + e4))).
  { rewrite V4, V3, V2, V1. field. split; assumption. }
  split; [exact EQ|].
  rewrite EQ. replace (Rv v * ((1 + e1) * (1 + e2) * (1 + e3) * (1 + e4)) - Rv v)
    with (((1 + e1) * (1 + e2) * (1 + e3) * (1 + e4) - 1) * Rv v) by ring.
  rewrite Rabs_mult. apply Rmult_le_compat_r; [apply Rabs_pos|].
  pose proof u53_lt1 as Hu.
  assert (P1 : forall e, Rabs e <= u53 -> Rabs ((1 + e) - 1) <= u53).
  { intros e He. replace (1 + e - 1) with e by ring. exact He. }
  pose proof (prod_err (1 + e1) (1 + e2) u53 u53 ltac:(lra) ltac:(lra) (P1 _ He1) (P1 _ He2)) as Q12.
  assert (H12 : 0 <= (1 + u53) * (1 + u53) - 1) by nra.
  pose proof (prod_err _ (1 + e3) _ u53 H12 ltac:(lra) Q12 (P1 _ He3)) as Q123.
  assert (H123 : 0 <= (1 + ((1 + u53) * (1 + u53) - 1)) * (1 + u53) - 1) by nra.
  pose proof (prod_err _ (1 + e4) _ u53 H123 ltac:(lra) Q123 (P1 _ He4)) as Q.
  eapply Rle_trans; [exact Q|]. right. ring.
Qed.
