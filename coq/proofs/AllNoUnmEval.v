(* AllNoUnmEval.v — "no evaluation is Unmodelled": the proof of NoPanic.v replayed for the outcome
   [Unmodelled] instead of [Panic] (same structure, same induction; generated from NoPanic.v by renaming
   and then kept as a file of its own).  For EVERY operator / built-in implementation that does not
   answer Unmodelled when its callback does not, evalE / AD / evalD never return Unmodelled; the
   hypotheses are discharged for Binop.eval_binop (any powf) and EvalInst.builtin_impl's modelled arms
   in this file, and for EvalAll.binop_all / builtin_all in AllNoUnm.v.  The frame invariant [wf] is
   NoPanic.wf (not needed for Unmodelled, kept so that the two proofs stay line-by-line parallel). *)
From Coq Require Import String Ascii List ZArith Bool Lia.
Require Import Blots.Num Blots.gen.Builtins Blots.Ast Blots.Value Blots.Outcome Blots.Binop
               Blots.Env Blots.Eval Blots.BuiltinsHof Blots.Program Blots.EvalInst
               Blots.proofs.ExprInd Blots.proofs.Frames Blots.proofs.Closures Blots.proofs.NoPanic.
Import ListNotations.
Open Scope string_scope.
Open Scope list_scope.
Open Scope nat_scope.

(* ------------------------------------------------------------------ 1. the outcome monad *)
Lemma obind_nu : forall A B (x : outcome A) (f : A -> outcome B),
  x <> Unmodelled -> (forall a, x = Ok a -> f a <> Unmodelled) -> obind x f <> Unmodelled.
Proof. intros A B x f Hx Hf. destruct x; cbn; try discriminate; auto. Qed.

Lemma omap_nu : forall A B (f : A -> B) (x : outcome A), x <> Unmodelled -> omap f x <> Unmodelled.
Proof. intros A B f x Hx. destruct x; cbn; try discriminate; auto. Qed.

Lemma cast_fail_nu : forall A B (o : outcome A), o <> Unmodelled -> @cast_fail A B o <> Unmodelled.
Proof. intros A B o H. destruct o; cbn; try discriminate; auto. Qed.

Lemma of_option_nu : forall A (o : option A), of_option o <> Unmodelled.
Proof. intros A [a|]; discriminate. Qed.

Lemma mapM_nu : forall A B (f : A -> outcome B) (l : list A),
  (forall x, In x l -> f x <> Unmodelled) -> mapM f l <> Unmodelled.
Proof.
  intros A B f l. induction l as [|x l IH]; intros H; cbn [mapM]; [discriminate|].
  apply obind_nu; [apply H; left; reflexivity|]. intros y _.
  apply obind_nu; [apply IH; intros z Hz; apply H; right; exact Hz|]. discriminate.
Qed.

Lemma as_number_nu : forall v, as_number v <> Unmodelled.
Proof. destruct v; discriminate. Qed.
Lemma as_bool_nu : forall v, as_bool v <> Unmodelled.
Proof. destruct v; discriminate. Qed.
Lemma as_string_nu : forall v, as_string v <> Unmodelled.
Proof. destruct v; discriminate. Qed.
Lemma as_list_nu : forall v, as_list v <> Unmodelled.
Proof. destruct v; discriminate. Qed.
Lemma as_function_nu : forall v, as_function v <> Unmodelled.
Proof. intros v. unfold as_function. destruct (is_function v); discriminate. Qed.

Definition cb_mod (cb : callback) : Prop :=
  forall this f args st, fst (cb this f args st) <> Unmodelled.

(* ------------------------------------------------------------------ 3. the evaluator *)
Section NoUnmEval.
  Variable release : bool.
  Variable binop_impl : callback -> binop -> value -> value -> store -> outcome value * store.
  Variable builtin_impl : callback -> builtin -> list value -> store -> outcome value * store.

  (* the operators never panic when the function they call back does not *)
  Hypothesis binop_no_unm : forall cb op l r st,
    cb_mod cb -> fst (binop_impl cb op l r st) <> Unmodelled.
  (* a built-in never panics on an argument vector that passed its arity check *)
  Hypothesis builtin_no_unm : forall cb b args st,
    cb_mod cb -> can_accept (builtin_arity b) (Datatypes.length args) = true ->
    fst (builtin_impl cb b args st) <> Unmodelled.
  (* `(n as u64) + 1` does not overflow in the build being modelled *)
  Hypothesis fact_no_unm : forall n, factorial_val release n <> Unmodelled.

  Section E.
  Variable apply : frames -> callback.
  Hypothesis Happly : forall fr, cb_mod (apply fr).

  Notation evalE := (evalE release binop_impl apply).

  Definition nu_ok (ev : cfg -> expr -> result) (e : expr) : Prop :=
    forall c, wf c -> fst (ev c e) <> Unmodelled.
  (* head_owned is kept by an evaluator whose frame effect is [ext] *)
  Definition keeps (ev : cfg -> expr -> result) : Prop :=
    forall e c r c', ev c e = (r, c') -> wf c -> wf c'.

  Lemma evalE_keeps : keeps evalE.
  Proof.
    intros e c r c' H Hw. unfold wf in *. eapply ext_head_owned; [|exact Hw].
    eapply evalE_ext; eauto.
  Qed.

  Section Gen.
    Variable ev : cfg -> expr -> result.
    Hypothesis Hk : keeps ev.

    Lemma evalL_nu : forall l, Forall (nu_ok ev) l ->
      forall c, wf c -> fst (evalL ev c l) <> Unmodelled.
    Proof.
      intros l HF; induction HF as [|x l Hx _ IH]; intros c Hw; cbn [evalL]; [discriminate|].
      destruct (ev c x) as [o c1] eqn:E1.
      pose proof (Hx c Hw) as Hn. rewrite E1 in Hn. cbn [fst] in Hn.
      destruct o; cbn [cast_fail fst]; try discriminate; try congruence.
      apply (fun HH => Hk _ _ _ _ HH Hw) in E1. specialize (IH c1 E1).
      destruct (evalL ev c1 l) as [o2 c2]. cbn [fst] in IH.
      destruct o2; cbn [fst]; try discriminate; congruence.
    Qed.

    Lemma evalCL_nu : forall (l : list (commented expr)),
      Forall (fun cm => nu_ok ev (cnode cm)) l ->
      forall c, wf c -> fst (evalCL ev c l) <> Unmodelled.
    Proof.
      intros l HF; induction HF as [|[ld x tr] l Hx _ IH]; intros c Hw; cbn [evalCL];
        [discriminate|].
      cbn [cnode] in Hx. destruct (ev c x) as [o c1] eqn:E1.
      pose proof (Hx c Hw) as Hn. rewrite E1 in Hn. cbn [fst] in Hn.
      destruct o; cbn [cast_fail fst]; try discriminate; try congruence.
      apply (fun HH => Hk _ _ _ _ HH Hw) in E1. specialize (IH c1 E1).
      destruct (evalCL ev c1 l) as [o2 c2]. cbn [fst] in IH.
      destruct o2; cbn [fst]; try discriminate; congruence.
    Qed.

    Lemma evalRecL_nu : forall (l : list (commented rentry)),
      Forall (fun cm => Pentry (nu_ok ev) (cnode cm)) l ->
      forall c acc, wf c -> fst (evalRecL ev c acc l) <> Unmodelled.
    Proof.
      intros l HF; induction HF as [|[ld [k v] tr] l Hx _ IH]; intros c acc Hw;
        cbn [evalRecL]; [discriminate|].
      cbn [cnode Pentry] in Hx. destruct Hx as [Hkey Hv].
      destruct k as [key|ke|x|se]; cbn [Pkey] in Hkey.
      - destruct (ev c v) as [o c1] eqn:E1.
        pose proof (Hv c Hw) as Hn. rewrite E1 in Hn. cbn [fst] in Hn.
        destruct o; cbn [fst]; try discriminate; try congruence.
        apply IH. eapply Hk; eauto.
      - destruct (ev c ke) as [o c1] eqn:E1.
        pose proof (Hkey c Hw) as Hn. rewrite E1 in Hn. cbn [fst] in Hn.
        destruct o; cbn [fst]; try discriminate; try congruence.
        apply (fun HH => Hk _ _ _ _ HH Hw) in E1.
        destruct a; cbn [as_string cast_fail fst]; try discriminate.
        destruct (ev c1 v) as [o2 c2] eqn:E2.
        pose proof (Hv c1 E1) as Hn2. rewrite E2 in Hn2. cbn [fst] in Hn2.
        destruct o2; cbn [fst]; try discriminate; try congruence.
        apply IH. eapply Hk; eauto.
      - destruct (lookup (snd c) x); [apply IH; exact Hw|discriminate].
      - destruct (ev c se) as [o c1] eqn:E1.
        pose proof (Hkey c Hw) as Hn. rewrite E1 in Hn. cbn [fst] in Hn.
        destruct o; cbn [fst]; try discriminate; try congruence.
        apply IH. eapply Hk; eauto.
    Qed.

    (* Environment::insert: the only write; it panics on a shared frame, never on an owned one *)
    Lemma bind_value_nu : forall n0 c1 x v, wf c1 -> fst (bind_value n0 c1 x v) <> Unmodelled.
    Proof.
      intros n0 c1 x v Hw. unfold bind_value.
      destruct (insert_head (snd c1) x v) eqn:E; [discriminate|].
      exfalso. eapply insert_head_owned; eauto.
    Qed.
    Lemma bind_value_keeps : forall n0 c1 x v r c', bind_value n0 c1 x v = (r, c') -> wf c1 -> wf c'.
    Proof.
      intros n0 c1 x v r c' H Hw. unfold bind_value in H.
      destruct (insert_head (snd c1) x v) eqn:E; inversion H; subst; unfold wf; cbn [snd].
      - eapply insert_head_keeps_owned; eauto.
      - exact Hw.
    Qed.

    Lemma assign_value_nu : forall x ve, nu_ok ev ve ->
      forall c, wf c -> fst (assign_value ev c x ve) <> Unmodelled.
    Proof.
      intros x ve Hve c Hw. unfold assign_value.
      destruct (ev c ve) as [o c1] eqn:E1.
      pose proof (Hve c Hw) as Hn. rewrite E1 in Hn. cbn [fst] in Hn.
      destruct o; cbn [fst]; try discriminate; try congruence.
      apply bind_value_nu. eapply Hk; eauto.
    Qed.
    Lemma assign_value_keeps : forall x ve c r c',
      assign_value ev c x ve = (r, c') -> wf c -> wf c'.
    Proof.
      intros x ve c r c' H Hw. unfold assign_value in H.
      destruct (ev c ve) as [o c1] eqn:E1. apply (fun HH => Hk _ _ _ _ HH Hw) in E1.
      destruct o; try (inversion H; subst; exact E1).
      eapply bind_value_keeps; eauto.
    Qed.
    Lemma assign_checked_nu : forall x ve, nu_ok ev ve ->
      forall c, wf c -> fst (assign_checked ev c x ve) <> Unmodelled.
    Proof.
      intros x ve Hve c Hw. unfold assign_checked.
      destruct (ev c ve) as [o c1] eqn:E1.
      pose proof (Hve c Hw) as Hn. rewrite E1 in Hn. cbn [fst] in Hn.
      destruct o; cbn [fst]; try discriminate; try congruence.
      destruct (contains (snd c1) x); [discriminate|].
      apply bind_value_nu. eapply Hk; eauto.
    Qed.

    Lemma do_step_nu : forall s, nu_ok ev s ->
      (forall x ve, s = EAssign x ve -> nu_ok ev ve) ->
      forall c, wf c -> fst (do_step ev c s) <> Unmodelled.
    Proof.
      intros s Hs Ha c Hw. destruct s; cbn [do_step]; try (apply Hs; exact Hw).
      destruct (mem x do_assign_keywords); [discriminate|].
      apply assign_value_nu; [eapply Ha; reflexivity|exact Hw].
    Qed.
    Lemma do_step_keeps : forall s c r c', do_step ev c s = (r, c') -> wf c -> wf c'.
    Proof.
      intros s c r c' H Hw. destruct s; cbn [do_step] in H; try (eapply Hk; eauto; fail).
      destruct (mem x do_assign_keywords); [inversion H; subst; exact Hw|].
      eapply assign_value_keeps; eauto.
    Qed.

    Definition stmt_nu (s : expr) : Prop :=
      nu_ok ev s /\ (forall x ve, s = EAssign x ve -> nu_ok ev ve).

    Lemma evalDoL_nu : forall (l : list (commented expr)),
      Forall (fun cm => stmt_nu (cnode cm)) l ->
      forall c, wf c -> fst (evalDoL ev c l) <> Unmodelled.
    Proof.
      intros l HF; induction HF as [|[ld s tr] l Hx _ IH]; intros c Hw; cbn [evalDoL];
        [discriminate|].
      cbn [cnode] in Hx. destruct Hx as [Hs Ha].
      destruct (do_step ev c s) as [o c1] eqn:E1.
      pose proof (do_step_nu s Hs Ha c Hw) as Hn. rewrite E1 in Hn. cbn [fst] in Hn.
      destruct o; cbn [cast_fail fst]; try discriminate; try congruence.
      apply IH. eapply do_step_keeps; eauto.
    Qed.
    Lemma evalDoL_keeps : forall (l : list (commented expr)) c r c',
      evalDoL ev c l = (r, c') -> wf c -> wf c'.
    Proof.
      induction l as [|[ld s tr] l IH]; intros c r c' H Hw; cbn [evalDoL] in H.
      - inversion H; subst; exact Hw.
      - destruct (do_step ev c s) as [o c1] eqn:E1. apply (fun HH => do_step_keeps _ _ _ _ HH Hw) in E1.
        destruct o; try (inversion H; subst; exact E1). eapply IH; eauto.
    Qed.
  End Gen.

  Lemma access_val_nu : forall v i, access_val v i <> Unmodelled.
  Proof.
    intros v i. destruct v; cbn [access_val]; try discriminate.
    - destruct i; cbn; discriminate.
    - destruct i; cbn; discriminate.
    - destruct i; cbn; discriminate.
  Qed.
  Lemma dot_val_nu : forall v f, dot_val v f <> Unmodelled.
  Proof. destruct v; cbn; discriminate. Qed.
  Lemma spread_val_nu : forall v, spread_val v <> Unmodelled.
  Proof. destruct v; cbn; discriminate. Qed.

  (* stated with the strengthening that lets the do-block case reach the right-hand side of a
     statement `x = e` (the do-block path evaluates it without the immutability guards) *)
  Theorem evalE_no_unm : forall e c, wf c -> fst (evalE c e) <> Unmodelled.
  Proof.
    intros e.
    enough (HH : stmt_nu evalE e) by apply HH. unfold stmt_nu.
    induction e using expr_ind';
      (split; [intros c Hw; cbn [Eval.evalE]|try (intros ? ? Heq; discriminate Heq)]).
    - discriminate.
    - discriminate.
    - discriminate.
    - discriminate.
    - (* EId *)
      destruct (_ || _); [discriminate|].
      destruct (String.eqb x "constants"); [discriminate|]. cbn [fst]. apply of_option_nu.
    - (* EInRef *)
      cbn [fst]. destruct (lookup (snd c) "inputs") as [[]|]; discriminate.
    - discriminate.
    - (* EList *)
      cbn [fst]. apply omap_nu. apply evalCL_nu; [exact evalE_keeps| |exact Hw].
      eapply Forall_impl; [|eassumption]. intros a Ha; apply Ha.
    - (* ERec *)
      apply evalRecL_nu; [exact evalE_keeps| |exact Hw].
      eapply Forall_impl; [|eassumption]. intros [ld [k v] tr] Ha. cbn [cnode Pentry] in *.
      destruct Ha as [Hk Hv]. split; [|apply Hv].
      destruct k; cbn [Pkey] in *; auto; apply Hk.
    - (* ELam *)
      destruct (fresh_lambda _ _ _ _) as [v st']. discriminate.
    - (* ECond *)
      destruct IHe1 as [IH1 _], IHe2 as [IH2 _], IHe3 as [IH3 _].
      destruct (evalE c e1) as [o c1] eqn:E1.
      pose proof (IH1 c Hw) as Hn. rewrite E1 in Hn. cbn [fst] in Hn.
      destruct o; cbn [fst]; try discriminate; try congruence.
      apply (fun HH => evalE_keeps _ _ _ _ HH Hw) in E1.
      destruct a; cbn [as_bool cast_fail fst]; try discriminate.
      destruct b; [apply IH2|apply IH3]; exact E1.
    - (* EDo: a fresh Owned frame; every statement keeps the head Owned *)
      match goal with
      | HF : Forall _ stmts, HR : _ /\ _ |- _ => rename HF into HFs; rename HR into HRet
      end.
      destruct ret as [ld rt tr]. cbn [cnode] in *. cbn [fst].
      assert (Hw0 : wf (fst c, (FOwned, []) :: snd c)) by reflexivity.
      destruct (evalDoL evalE (fst c, (FOwned, []) :: snd c) stmts) as [o c1] eqn:E1.
      pose proof (evalDoL_nu evalE evalE_keeps stmts HFs _ Hw0) as Hn.
      rewrite E1 in Hn. cbn [fst] in Hn.
      apply (fun HH => evalDoL_keeps evalE evalE_keeps _ _ _ _ HH Hw0) in E1.
      destruct o; cbn [cast_fail fst]; try discriminate; try congruence.
      destruct HRet as [Hr1 Hr2]. apply do_step_nu; auto. exact evalE_keeps.
    - (* EAssign *)
      destruct IHe as [IH _].
      destruct (is_builtin_name x); [discriminate|].
      destruct (mem x assign_keywords); [discriminate|].
      destruct (contains (snd c) x); [discriminate|].
      apply assign_checked_nu; [exact evalE_keeps|exact IH|exact Hw].
    - (* EAssign, second component *)
      intros y ve Heq. inversion Heq; subst. apply IHe.
    - (* EOutput *) apply IHe; exact Hw.
    - (* ECall: FunctionDef::call is [apply] *)
      destruct IHe as [IH _].
      destruct (evalE c e) as [o c1] eqn:E1.
      pose proof (IH c Hw) as Hn. rewrite E1 in Hn. cbn [fst] in Hn.
      destruct o; cbn [fst]; try discriminate; try congruence.
      apply (fun HH => evalE_keeps _ _ _ _ HH Hw) in E1.
      assert (HA : Forall (nu_ok evalE) args).
      { eapply Forall_impl; [|eassumption]. intros a0 Ha; apply Ha. }
      pose proof (evalL_nu evalE evalE_keeps args HA c1 E1) as Hn2.
      destruct (evalL evalE c1 args) as [o2 [st2 fr2]]. cbn [fst] in Hn2.
      destruct o2; cbn [cast_fail fst]; try discriminate; try congruence.
      destruct (negb (is_function a)); [discriminate|].
      pose proof (Happly fr2 a a (flatten_spreads a0) st2) as Hc.
      destruct (apply fr2 a a (flatten_spreads a0) st2) as [rr st3]. exact Hc.
    - (* EAccess *)
      destruct IHe1 as [IH1 _], IHe2 as [IH2 _].
      destruct (evalE c e1) as [o c1] eqn:E1.
      pose proof (IH1 c Hw) as Hn. rewrite E1 in Hn. cbn [fst] in Hn.
      destruct o; cbn [fst]; try discriminate; try congruence.
      apply (fun HH => evalE_keeps _ _ _ _ HH Hw) in E1.
      destruct (evalE c1 e2) as [o2 c2] eqn:E2.
      pose proof (IH2 c1 E1) as Hn2. rewrite E2 in Hn2. cbn [fst] in Hn2.
      destruct o2; cbn [fst]; try discriminate; try congruence.
      apply access_val_nu.
    - (* EDot *)
      destruct IHe as [IH _].
      destruct (evalE c e) as [o c1] eqn:E1.
      pose proof (IH c Hw) as Hn. rewrite E1 in Hn. cbn [fst] in Hn.
      destruct o; cbn [fst]; try discriminate; try congruence. apply dot_val_nu.
    - (* EBin: evaluate_binary_op_ast after the operands is [binop_impl] *)
      destruct IHe1 as [IH1 _], IHe2 as [IH2 _].
      destruct (evalE c e1) as [o c1] eqn:E1.
      pose proof (IH1 c Hw) as Hn. rewrite E1 in Hn. cbn [fst] in Hn.
      destruct o; cbn [fst]; try discriminate; try congruence.
      apply (fun HH => evalE_keeps _ _ _ _ HH Hw) in E1.
      destruct (evalE c1 e2) as [o2 [st2 fr2]] eqn:E2.
      pose proof (IH2 c1 E1) as Hn2. rewrite E2 in Hn2. cbn [fst] in Hn2.
      destruct o2; cbn [fst]; try discriminate; try congruence.
      pose proof (binop_no_unm (apply fr2) op a a0 st2 (Happly fr2)) as Hb.
      destruct (binop_impl (apply fr2) op a a0 st2) as [res st3]. exact Hb.
    - (* EUn *)
      destruct IHe as [IH _].
      destruct (evalE c e) as [o c1] eqn:E1.
      pose proof (IH c Hw) as Hn. rewrite E1 in Hn. cbn [fst] in Hn.
      destruct o; cbn [fst]; try discriminate; try congruence.
      destruct op; apply omap_nu; (apply as_number_nu || apply as_bool_nu).
    - (* EFact: the one arithmetic overflow on the evaluator path *)
      destruct IHe as [IH _].
      destruct (evalE c e) as [o c1] eqn:E1.
      pose proof (IH c Hw) as Hn. rewrite E1 in Hn. cbn [fst] in Hn.
      destruct o; cbn [fst]; try discriminate; try congruence.
      destruct a; cbn [as_number cast_fail]; try discriminate. apply fact_no_unm.
    - (* ESpread *)
      destruct IHe as [IH _].
      destruct (evalE c e) as [o c1] eqn:E1.
      pose proof (IH c Hw) as Hn. rewrite E1 in Hn. cbn [fst] in Hn.
      destruct o; cbn [fst]; try discriminate; try congruence. apply spread_val_nu.
  Qed.
  End E.

  (* ---- FunctionDef::call at every depth ---- *)
  Lemma call_too_deep_safe : cb_mod (fun _ f a s => call_too_deep f a s).
  Proof. intros this f args st. unfold call_too_deep. destruct (check_arity _ _); discriminate. Qed.

  (* binding the parameters: `args[idx]` is in range once check_arity has passed
     (Closures.bind_params_total), and the body runs in a chain whose head is the fresh Owned
     frame of the call *)
  Theorem AD_no_unm : forall d fr, cb_mod (AD release binop_impl builtin_impl d fr).
  Proof.
    intros d. induction d as [d IH] using lt_wf_ind. intros fr this f args st.
    destruct d as [|d']; cbn [AD]; unfold apply_at.
    - destruct (negb _); discriminate.
    - destruct (check_arity f (Datatypes.length args)) eqn:Ha; cbn [negb]; [|discriminate].
      unfold call_passed. destruct f; try discriminate.
      + (* lambda *)
        unfold check_arity, accepts in Ha. cbn [fn_arity] in Ha.
        match goal with |- context [bind_params args0 0 args ?acc] =>
          pose proof (bind_params_total args0 args acc Ha) as Hb;
          destruct (bind_params args0 0 args acc) as [local|]; [|congruence] end.
        match goal with |- context [evalE ?r ?b ?a ?c ?e] =>
          pose proof (evalE_no_unm a (fun fr0 => IH d' (Nat.lt_succ_diag_r d') fr0) e c) as He;
          destruct (evalE r b a c e) as [rr [st1 fr1]] end.
        cbn [fst] in *. apply He. reflexivity.
      + (* built-in *)
        unfold check_arity, accepts in Ha. cbn [fn_arity] in Ha.
        apply builtin_no_unm; [|exact Ha].
        destruct d' as [|d'']; [apply call_too_deep_safe|apply IH; lia].
  Qed.

  (* C01, evaluator stage: from a configuration whose innermost frame is Owned, evaluation at
     any depth budget never panics, and the invariant is kept *)
  Theorem evalD_no_unm : forall d c e,
    wf c -> fst (evalD release binop_impl builtin_impl d c e) <> Unmodelled.
  Proof. intros d c e Hw. unfold evalD. apply evalE_no_unm; [apply AD_no_unm|exact Hw]. Qed.

  Theorem evalD_keeps_wf : forall d c e r c',
    evalD release binop_impl builtin_impl d c e = (r, c') -> wf c -> wf c'.
  Proof. intros d c e r c' H Hw. unfold evalD in H. eapply evalE_keeps; eauto. Qed.
End NoUnmEval.

(* ------------------------------------------------------------------ 4a. the operators *)
Lemma num2_nu : forall f a b, num2 f a b <> Unmodelled.
Proof. intros f a b. unfold num2. destruct a; cbn; try discriminate. destruct b; cbn; discriminate. Qed.
Lemma and_q_nu : forall a b, and_q a b <> Unmodelled.
Proof.
  intros a b. unfold and_q. destruct a; cbn; try discriminate.
  destruct b0; [|discriminate]. destruct b; cbn; discriminate.
Qed.
Lemma or_q_nu : forall a b, or_q a b <> Unmodelled.
Proof.
  intros a b. unfold or_q. destruct a; cbn; try discriminate.
  destruct b0; [discriminate|]. destruct b; cbn; discriminate.
Qed.
Lemma add_match_nu : forall a b, add_match a b <> Unmodelled.
Proof.
  intros a b. unfold add_match. destruct a; try discriminate; destruct b; try discriminate;
    first [apply num2_nu | cbn; discriminate].
Qed.
Lemma check_ord_nu : forall o e, check_ord o e <> Unmodelled.
Proof. intros o e. unfold check_ord. apply of_option_nu. Qed.
Lemma cmp_bool_nu : forall o e, (do r <- check_ord o e; Ok (VBool r)) <> Unmodelled.
Proof. intros o e. apply obind_nu; [apply check_ord_nu|discriminate]. Qed.

(* `list[idx]` inside `for idx in 0..list.len()` *)
Lemma index_nu : forall l idx, idx < Datatypes.length l -> index l idx <> Unmodelled.
Proof.
  intros l idx H. unfold index. destruct (nth_error l idx) eqn:E; [discriminate|].
  apply nth_error_None in E. lia.
Qed.
Lemma in_seq0 : forall i n, In i (seq 0 n) -> i < n.
Proof. intros i n H. apply in_seq in H. lia. Qed.

Definition is_dot (op : binop) : bool :=
  match op with
  | DotEqual | DotNotEqual | DotLess | DotLessEq | DotGreater | DotGreaterEq => true
  | _ => false
  end.
Definition is_cmp (op : binop) : bool :=
  match op with Less | LessEq | Greater | GreaterEq => true | _ => false end.
Lemma expected_of_nu : forall op, is_cmp op = true -> expected_of op <> Unmodelled.
Proof. destruct op; cbn; intros; discriminate. Qed.

Section BinopNoUnmodelled.
  Variable St : Type.
  Variable call : value -> value -> list value -> St -> outcome value * St.
  Hypothesis call_nu : forall this f args st, fst (call this f args st) <> Unmodelled.
  Variable fa2 : value -> bool.
  Variable powf : num -> num -> num.

  Definition MNP {A} (m : M St A) : Prop := forall st, fst (m st) <> Unmodelled.

  Lemma lift_nu : forall A (o : outcome A), o <> Unmodelled -> MNP (lift St o).
  Proof. intros A o H st. exact H. Qed.
  Lemma bindM_nu : forall A B (m : M St A) (f : A -> M St B),
    MNP m -> (forall a, MNP (f a)) -> MNP (bindM St m f).
  Proof.
    intros A B m f Hm Hf st. unfold bindM. specialize (Hm st).
    destruct (m st) as [o st1]. cbn [fst] in Hm.
    destruct o; cbn [fst]; try discriminate; try congruence; try apply Hf.
  Qed.
  Lemma for_each_nu : forall B (idxs : list nat) (body : nat -> M St B),
    (forall i, In i idxs -> MNP (body i)) -> MNP (for_each St idxs body).
  Proof.
    intros B idxs body. induction idxs as [|i r IH]; intros H; cbn [for_each].
    - apply lift_nu. discriminate.
    - apply bindM_nu; [apply H; left; reflexivity|]. intros y.
      apply bindM_nu; [apply IH; intros j Hj; apply H; right; exact Hj|].
      intros ys. apply lift_nu. discriminate.
  Qed.
  Lemma call_fn_nu : forall f args, MNP (call_fn St call f args).
  Proof. intros f args st. apply call_nu. Qed.

  Ltac np_leaf :=
    first [ apply num2_nu | apply and_q_nu | apply or_q_nu | apply add_match_nu
          | apply cmp_bool_nu | apply check_ord_nu | apply as_bool_nu | discriminate ].

  (* (List, List): reached only with op <> Into and op not a dot operator *)
  Lemma arm_list_list_nu : forall op l r,
    is_dot op = false -> op <> Into -> MNP (arm_list_list St call powf op l r).
  Proof.
    intros op l r Hd Hi. unfold arm_list_list.
    destruct (Nat.eqb (Datatypes.length l) (Datatypes.length r)) eqn:El; cbn [negb];
      [|apply lift_nu; discriminate].
    apply Nat.eqb_eq in El.
    destruct op; try discriminate Hd; try congruence;
      try (apply lift_nu; apply omap_nu; apply mapM_nu; intros; np_leaf; fail).
    - (* Add: l_list[idx], r_list[idx] for idx in 0..list_len *)
      apply lift_nu. apply omap_nu. apply mapM_nu. intros idx Hin. apply in_seq0 in Hin.
      apply obind_nu; [apply index_nu; exact Hin|]. intros a _.
      apply obind_nu; [apply index_nu; rewrite <- El; exact Hin|]. intros b _. apply add_match_nu.
    - (* Via *)
      apply bindM_nu; [|intros; apply lift_nu; discriminate].
      apply for_each_nu. intros idx Hin. apply in_seq0 in Hin.
      apply bindM_nu.
      + apply lift_nu. apply obind_nu; [apply index_nu; exact Hin|]. intros a _.
        apply obind_nu; [apply index_nu; rewrite <- El; exact Hin|]. discriminate.
      + intros lr. destruct (negb (is_lambda (snd lr)) && negb (is_built_in (snd lr)));
          [apply lift_nu; discriminate|apply call_fn_nu].
    - apply lift_nu. discriminate.
  Qed.

  Lemma arm_list_scalar_nu : forall op b l s,
    is_dot op = false -> MNP (arm_list_scalar St call fa2 powf op b l s).
  Proof.
    intros op b l s Hd. unfold arm_list_scalar.
    destruct op; try discriminate Hd;
      try (apply lift_nu; apply omap_nu; destruct b; apply mapM_nu; intros; np_leaf; fail);
      try (apply lift_nu; apply omap_nu; apply mapM_nu; intros; destruct b; np_leaf; fail).
    - (* Add *)
      apply lift_nu. apply omap_nu. apply mapM_nu. intros idx Hin. apply in_seq0 in Hin.
      apply obind_nu; [apply index_nu; exact Hin|]. intros a _. destruct b; apply add_match_nu.
    - (* Via *)
      destruct b; [|apply lift_nu; discriminate].
      destruct (negb (is_callable s)); [apply lift_nu; discriminate|].
      apply bindM_nu; [|intros; apply lift_nu; discriminate].
      apply for_each_nu. intros idx Hin. apply in_seq0 in Hin.
      apply bindM_nu; [apply lift_nu; apply index_nu; exact Hin|]. intros item. apply call_fn_nu.
    - (* Into *)
      destruct b; [|apply lift_nu; discriminate].
      destruct (negb (is_callable s)); [apply lift_nu; discriminate|apply call_fn_nu].
    - (* Where *)
      destruct b; [|apply lift_nu; discriminate].
      destruct (negb (is_callable s)); [apply lift_nu; discriminate|].
      apply bindM_nu; [|intros; apply lift_nu; discriminate].
      apply for_each_nu. intros idx Hin. apply in_seq0 in Hin.
      apply bindM_nu; [apply lift_nu; apply index_nu; exact Hin|]. intros item.
      apply bindM_nu; [apply call_fn_nu|]. intros res.
      apply bindM_nu; [apply lift_nu; apply as_bool_nu|]. intros keep. apply lift_nu. discriminate.
  Qed.

  Lemma arm_scalar_nu : forall op l r, is_dot op = false -> MNP (arm_scalar St call powf op l r).
  Proof.
    intros op l r Hd. unfold arm_scalar.
    destruct op; try discriminate Hd; try (apply lift_nu; np_leaf; fail).
    - (* Add *)
      destruct (is_string l); apply lift_nu; [|apply num2_nu].
      apply obind_nu; [apply as_string_nu|]. intros a _.
      apply obind_nu; [apply as_string_nu|]. discriminate.
    - destruct (negb (is_callable r)); [apply lift_nu; discriminate|apply call_fn_nu].
    - destruct (negb (is_callable r)); [apply lift_nu; discriminate|apply call_fn_nu].
  Qed.

  (* evaluate_binary_op_ast after operand evaluation: no `list[idx]` goes out of range and no
     unreachable!() arm is reached *)
  Theorem eval_binop_no_unm : forall op l r st,
    fst (eval_binop St call fa2 powf op l r st) <> Unmodelled.
  Proof.
    intros op l r st. unfold eval_binop.
    destruct (is_dot op) eqn:Hd.
    - destruct op; try discriminate Hd; cbn [fst]; try discriminate; apply cmp_bool_nu.
    - assert (HG : fst (if is_list r && binop_eqb op Into then (Err, st)
                        else match l, r with
                             | VList ll, VList lr => arm_list_list St call powf op ll lr st
                             | VList ll, s => arm_list_scalar St call fa2 powf op true ll s st
                             | s, VList lr => arm_list_scalar St call fa2 powf op false lr s st
                             | _, _ => arm_scalar St call powf op l r st
                             end) <> Unmodelled).
      { destruct (is_list r && binop_eqb op Into) eqn:Hi; [discriminate|].
        destruct l; destruct r;
          try (apply arm_scalar_nu; exact Hd);
          try (apply arm_list_scalar_nu; exact Hd).
        apply arm_list_list_nu; [exact Hd|].
        intros ->. cbn in Hi. discriminate. }
      destruct op; try discriminate Hd; exact HG.
  Qed.
End BinopNoUnmodelled.

(* EvalInst.binop_impl answers Unmodelled for `^` (and only for it) *)
Theorem binop_impl_no_unm : forall cb op l r st,
  cb_mod cb -> op <> Power -> fst (EvalInst.binop_impl cb op l r st) <> Unmodelled.
Proof.
  intros cb op l r st Hcb Hop. unfold EvalInst.binop_impl.
  pose proof (eval_binop_no_unm store cb Hcb fn_accepts2_of_value powf_stub op l r st) as H.
  destruct op; try exact H. congruence.
Qed.

(* ------------------------------------------------------------------ 4b. the built-ins *)
Lemma arg_nu : forall args i, i < Datatypes.length args -> arg args i <> Unmodelled.
Proof.
  intros args i H. unfold arg. destruct (nth_error args i) eqn:E; [discriminate|].
  apply nth_error_None in E. lia.
Qed.

Section HofNoUnm.
  Variable call : callback.
  Hypothesis call_nu : cb_mod call.

  Lemma map_loop_nu : forall f two l i st, fst (map_loop call f two l i st) <> Unmodelled.
  Proof.
    intros f two l. induction l as [|x l IH]; intros i st; cbn [map_loop]; [discriminate|].
    pose proof (call_nu f f (cb_args two x i) st) as Hc.
    destruct (call f f (cb_args two x i) st) as [o st1]. cbn [fst] in Hc.
    destruct o; cbn [cast_fail fst]; try discriminate; try congruence.
    specialize (IH (S i) st1). destruct (map_loop call f two l (S i) st1) as [o2 st2].
    cbn [fst] in IH. destruct o2; cbn [fst]; try discriminate; congruence.
  Qed.
  Lemma filter_loop_nu : forall f two l i st, fst (filter_loop call f two l i st) <> Unmodelled.
  Proof.
    intros f two l. induction l as [|x l IH]; intros i st; cbn [filter_loop]; [discriminate|].
    pose proof (call_nu f f (cb_args two x i) st) as Hc.
    destruct (call f f (cb_args two x i) st) as [o st1]. cbn [fst] in Hc.
    destruct o; cbn [cast_fail fst]; try discriminate; try congruence.
    destruct a; cbn [as_bool cast_fail fst]; try discriminate.
    specialize (IH (S i) st1). destruct (filter_loop call f two l (S i) st1) as [o2 st2].
    cbn [fst] in IH. destruct o2; cbn [fst]; try discriminate; congruence.
  Qed.
  Lemma reduce_loop_nu : forall f three l i acc st,
    fst (reduce_loop call f three l i acc st) <> Unmodelled.
  Proof.
    intros f three l. induction l as [|x l IH]; intros i acc st; cbn [reduce_loop];
      [discriminate|].
    match goal with |- context [call f f ?a st] =>
      pose proof (call_nu f f a st) as Hc; destruct (call f f a st) as [o st1] end.
    cbn [fst] in Hc. destruct o; cbn [fst]; try discriminate; try congruence; try apply IH.
  Qed.
  Lemma every_loop_nu : forall f two l i st, fst (every_loop call f two l i st) <> Unmodelled.
  Proof.
    intros f two l. induction l as [|x l IH]; intros i st; cbn [every_loop]; [discriminate|].
    pose proof (call_nu f f (cb_args two x i) st) as Hc.
    destruct (call f f (cb_args two x i) st) as [o st1]. cbn [fst] in Hc.
    destruct o; cbn [fst]; try discriminate; try congruence.
    destruct a; cbn [as_bool cast_fail fst]; try discriminate.
    destruct b; [apply IH|discriminate].
  Qed.
  Lemma some_loop_nu : forall f two l i st, fst (some_loop call f two l i st) <> Unmodelled.
  Proof.
    intros f two l. induction l as [|x l IH]; intros i st; cbn [some_loop]; [discriminate|].
    pose proof (call_nu f f (cb_args two x i) st) as Hc.
    destruct (call f f (cb_args two x i) st) as [o st1]. cbn [fst] in Hc.
    destruct o; cbn [fst]; try discriminate; try congruence.
    destruct a; cbn [as_bool cast_fail fst]; try discriminate.
    destruct b; [discriminate|apply IH].
  Qed.

  (* `&args[1]`, `args[0]` after the arity check *)
  Lemma hof_prelude_nu : forall args, 2 <= Datatypes.length args -> hof_prelude args <> Unmodelled.
  Proof.
    intros args H. unfold hof_prelude.
    apply obind_nu; [apply arg_nu; lia|]. intros f _.
    apply obind_nu; [apply arg_nu; lia|]. intros l0 _.
    apply obind_nu; [apply as_list_nu|]. intros l _.
    apply obind_nu; [apply as_function_nu|]. discriminate.
  Qed.
End HofNoUnm.

Lemma num1_nu : forall f args, 1 <= Datatypes.length args -> num1 f args <> Unmodelled.
Proof.
  intros f args H. unfold num1. apply obind_nu; [apply arg_nu; lia|]. intros a _.
  apply obind_nu; [apply as_number_nu|]. discriminate.
Qed.
Lemma cmp2_nu : forall f args, 2 <= Datatypes.length args -> cmp2 f args <> Unmodelled.
Proof.
  intros f args H. unfold cmp2. apply obind_nu; [apply arg_nu; lia|]. intros a _.
  apply obind_nu; [apply arg_nu; lia|]. discriminate.
Qed.

(* what the arity check gives for an arity read from the generated table *)
Lemma accept_exact : forall n k, can_accept (AExact n) k = true -> k = n.
Proof. intros n k H. cbn in H. apply Nat.eqb_eq in H. exact H. Qed.

(* BuiltInFunction::call for the built-ins transcribed in EvalInst.builtin_impl: every
   `args[i]` is below the arity that check_arity enforced (the arities are the generated
   table coq/gen/Builtins.v, i.e. what BuiltInFunction::arity() returns in the built crate) *)
Definition impl_modelled (b : builtin) : bool :=
  match b with
  | B_map | B_filter | B_reduce | B_every | B_some | B_abs | B_floor | B_ceil | B_trunc | B_sqrt
  | B_typeof | B_arity | B_to_bool | B_ugt | B_ult | B_ugte | B_ulte | B_any | B_all => true
  | _ => false
  end.
Theorem builtin_impl_no_unm : forall cb b args st,
  cb_mod cb -> can_accept (builtin_arity b) (Datatypes.length args) = true ->
  impl_modelled b = true ->
  fst (EvalInst.builtin_impl cb b args st) <> Unmodelled.
Proof.
  intros cb b args st Hcb Ha Hm.
  destruct b; cbn [EvalInst.builtin_impl]; try discriminate Hm; try discriminate;
    cbn [builtin_arity] in Ha; unfold can_accept, arity_can_accept in Ha;
    repeat match type of Ha with
           | (_ && _)%bool = true => let H1 := fresh in apply andb_true_iff in Ha; destruct Ha as [Ha H1]
           end;
    try apply Nat.eqb_eq in Ha; try apply Nat.leb_le in Ha;
    unfold pure_bi; cbn [fst];
    try (first [ apply num1_nu | apply cmp2_nu ]; lia).
  all: try (unfold bi_typeof, bi_arity, bi_to_bool, bi_any, bi_all;
            apply obind_nu; [apply arg_nu; lia|]; intros a _;
            first [ discriminate
                  | destruct (fn_arity a) as [[]|]; discriminate
                  | destruct a; discriminate
                  | apply obind_nu; [apply as_list_nu|]; discriminate ]).
  all: match goal with
       | |- context [bi_reduce] =>
           unfold bi_reduce;
           match goal with |- context [match ?X with Ok _ => _ | _ => _ end] =>
             assert (Hp : X <> Unmodelled);
             [ apply obind_nu; [apply arg_nu; lia|]; intros f _;
               apply obind_nu; [apply arg_nu; lia|]; intros i0 _;
               apply obind_nu; [apply arg_nu; lia|]; intros l0 _;
               apply obind_nu; [apply as_list_nu|]; intros l _;
               apply obind_nu; [apply as_function_nu|]; discriminate
             | destruct X as [[[f init] l]| | | |]; cbn [cast_fail fst];
               try discriminate; try congruence; apply reduce_loop_nu; exact Hcb ] end
       | _ =>
           unfold bi_map, bi_filter, bi_every, bi_some;
           pose proof (hof_prelude_nu args ltac:(lia)) as Hp;
           destruct (hof_prelude args) as [[f l]| | | |]; cbn [cast_fail fst];
           try discriminate; try congruence
       end.
  - pose proof (map_loop_nu cb Hcb f (accepts f 2) l 0 st) as Hl.
    destruct (map_loop cb f (accepts f 2) l 0 st) as [r st']. cbn [fst] in *.
    apply omap_nu. exact Hl.
  - pose proof (filter_loop_nu cb Hcb f (accepts f 2) l 0 st) as Hl.
    destruct (filter_loop cb f (accepts f 2) l 0 st) as [r st']. cbn [fst] in *.
    apply omap_nu. exact Hl.
  - apply every_loop_nu. exact Hcb.
  - apply some_loop_nu. exact Hcb.
Qed.

(* ------------------------------------------------------------------ 4c. factorial *)
(* `(1..=min(n as u64, 171))`: no `+ 1`, no overflow in either build (repo fix def3962; before
   it `(n as u64) + 1` overflowed for n >= 2^64 in builds with overflow checks) *)
Lemma factorial_no_unm : forall release n, factorial_val release n <> Unmodelled.
Proof.
  intros release n. unfold factorial_val.
  destruct (ngeb n nzero && neqb n (num_of_Z (as_u64 n))); discriminate.
Qed.

(* ------------------------------------------------------------------ instantiated *)
(* both overflow semantics *)
(* ------------------------------------------------------------------ 5. whole programs *)
(* evaluate_source (Program.v): the statement loop never sees a Unmodelled, from any inputs *)
Section RunNoUnm.
  Variable eval : cfg -> expr -> result.
  Hypothesis eval_nu : forall c e, wf c -> fst (eval c e) <> Unmodelled.
  Hypothesis eval_keeps : forall c e r c', eval c e = (r, c') -> wf c -> wf c'.

  Lemma exec_stmt_nu : forall s t s' r,
    exec_stmt eval s t = (s', r) -> wf (s_cfg s) -> wf (s_cfg s') /\ r <> RFail Unmodelled.
  Proof.
    intros s t s' r H Hw. destruct t as [e|e|]; cbn [exec_stmt] in H.
    - pose proof (eval_nu (s_cfg s) e Hw) as Hn.
      destruct (eval (s_cfg s) e) as [o c'] eqn:E. apply eval_keeps in E; [|exact Hw].
      inversion H; subst; cbn [s_cfg fst] in *. split; [exact E|].
      destruct o; try discriminate; congruence.
    - pose proof (eval_nu (s_cfg s) e Hw) as Hn.
      destruct (eval (s_cfg s) e) as [o [st' fr']] eqn:E. apply eval_keeps in E; [|exact Hw].
      cbn [fst] in Hn.
      match type of H with (match ?D with Some _ => _ | None => _ end) = _ => destruct D as [[x v]|] end.
      + destruct (validate_portable st' fr' v); inversion H; subst; cbn [s_cfg]; split;
          try exact E; try discriminate; destruct o; try discriminate; congruence.
      + inversion H; subst; cbn [s_cfg]; split; [exact E|].
        destruct o; try discriminate; congruence.
    - inversion H; subst. split; [exact Hw|discriminate].
  Qed.

  Theorem run_nu : forall prog s, wf (s_cfg s) ->
    Forall (fun rs => fst rs <> RFail Unmodelled) (snd (run eval s prog)).
  Proof.
    induction prog as [|t rest IH]; intros s Hw; cbn [run]; [constructor|].
    destruct (exec_stmt eval s t) as [s' r] eqn:E.
    destruct (exec_stmt_nu _ _ _ _ E Hw) as [Hw' Hr].
    destruct r.
    - specialize (IH s' Hw'). destruct (run eval s' rest) as [s'' rs]. cbn [snd] in *.
      constructor; [discriminate|exact IH].
    - cbn [snd]. constructor; [exact Hr|constructor].
    - cbn [snd]. constructor; [discriminate|constructor].
    - apply IH. exact Hw'.
  Qed.
End RunNoUnm.

Lemma init_session_wf : forall inputs, wf (s_cfg (init_session inputs)).
Proof. reflexivity. Qed.

