(* PrattRT.v — the round trip: the Pratt parser recovers every well-formed tree from every rendering
   that carries at least the parentheses the level assignment requires.  Generalises
   notes/feasibility/pratt_roundtrip.v (the `rmin` / `follows` invariant) to the real token
   streams: 26 binary operators, three prefix operators and spread, postfix `!`, call / index /
   field with their nested token streams, and every primary with nested expressions. *)
From Coq Require Import String List Bool Arith Lia.
Require Import Blots.Num Blots.gen.Builtins Blots.Ast Blots.Outcome Blots.PrattTypes Blots.Pratt
               Blots.PrattRender Blots.proofs.PrattAdequacy.
Import ListNotations.
Local Open Scope nat_scope.
Local Open Scope list_scope.

(* ------------------------------------------------------------------ induction on expr *)
Section ExprInd.
  Variable P : expr -> Prop.
  Definition Pkey (k : rkey) : Prop :=
    match k with KDyn e | KSpread e => P e | _ => True end.
  Definition Pentry (c : commented rentry) : Prop :=
    match c with Cm _ (REntry k v) _ => Pkey k /\ P v end.
  Definition Pcm (c : commented expr) : Prop := match c with Cm _ e _ => P e end.
  Hypothesis H_num : forall x, P (ENum x).
  Hypothesis H_str : forall s, P (EStr s).
  Hypothesis H_bool : forall b, P (EBool b).
  Hypothesis H_null : P ENull.
  Hypothesis H_id : forall x, P (EId x).
  Hypothesis H_inref : forall x, P (EInRef x).
  Hypothesis H_builtin : forall b, P (EBuiltin b).
  Hypothesis H_list : forall items, Forall Pcm items -> P (EList items).
  Hypothesis H_rec : forall entries, Forall Pentry entries -> P (ERec entries).
  Hypothesis H_lam : forall args body, P body -> P (ELam args body).
  Hypothesis H_cond : forall c t e, P c -> P t -> P e -> P (ECond c t e).
  Hypothesis H_do : forall stmts ret, Forall Pcm stmts -> Pcm ret -> P (EDo stmts ret).
  Hypothesis H_assign : forall x v, P v -> P (EAssign x v).
  Hypothesis H_output : forall e, P e -> P (EOutput e).
  Hypothesis H_call : forall f args, P f -> Forall P args -> P (ECall f args).
  Hypothesis H_access : forall e i, P e -> P i -> P (EAccess e i).
  Hypothesis H_dot : forall e f, P e -> P (EDot e f).
  Hypothesis H_bin : forall o l r, P l -> P r -> P (EBin o l r).
  Hypothesis H_un : forall u e, P e -> P (EUn u e).
  Hypothesis H_fact : forall e, P e -> P (EFact e).
  Hypothesis H_spread : forall e, P e -> P (ESpread e).

  Fixpoint expr_ind' (e : expr) : P e :=
    match e with
    | ENum x => H_num x
    | EStr s => H_str s
    | EBool b => H_bool b
    | ENull => H_null
    | EId x => H_id x
    | EInRef x => H_inref x
    | EBuiltin b => H_builtin b
    | EList items =>
        H_list items
          ((fix go (l : list (commented expr)) : Forall Pcm l :=
              match l with
              | [] => Forall_nil _
              | c :: l' =>
                  Forall_cons c (match c return Pcm c with Cm _ n _ => expr_ind' n end) (go l')
              end) items)
    | ERec entries =>
        H_rec entries
          ((fix go (l : list (commented rentry)) : Forall Pentry l :=
              match l with
              | [] => Forall_nil _
              | c :: l' =>
                  Forall_cons c
                    (match c return Pentry c with
                     | Cm _ (REntry k v) _ =>
                         conj (match k return Pkey k with
                               | KDyn x => expr_ind' x
                               | KSpread x => expr_ind' x
                               | KStatic _ => I
                               | KShort _ => I
                               end) (expr_ind' v)
                     end) (go l')
              end) entries)
    | ELam args body => H_lam args body (expr_ind' body)
    | ECond c t e' => H_cond c t e' (expr_ind' c) (expr_ind' t) (expr_ind' e')
    | EDo stmts ret =>
        H_do stmts ret
          ((fix go (l : list (commented expr)) : Forall Pcm l :=
              match l with
              | [] => Forall_nil _
              | c :: l' =>
                  Forall_cons c (match c return Pcm c with Cm _ n _ => expr_ind' n end) (go l')
              end) stmts)
          (match ret return Pcm ret with Cm _ n _ => expr_ind' n end)
    | EAssign x v => H_assign x v (expr_ind' v)
    | EOutput x => H_output x (expr_ind' x)
    | ECall f args =>
        H_call f args (expr_ind' f)
          ((fix go (l : list expr) : Forall P l :=
              match l with
              | [] => Forall_nil _
              | a :: l' => Forall_cons a (expr_ind' a) (go l')
              end) args)
    | EAccess x i => H_access x i (expr_ind' x) (expr_ind' i)
    | EDot x f => H_dot x f (expr_ind' x)
    | EBin o l r => H_bin o l r (expr_ind' l) (expr_ind' r)
    | EUn u x => H_un u x (expr_ind' x)
    | EFact x => H_fact x (expr_ind' x)
    | ESpread x => H_spread x (expr_ind' x)
    end.
End ExprInd.

(* ------------------------------------------------------------------ trees the parser can produce *)
(* pairs_to_expr (comments dropped) never produces: Output (a statement form), UnaryOp::Invert (no
   token maps to it), an Identifier whose name from_ident recognises (it becomes BuiltIn), a
   comment annotation, a shorthand / spread record entry with a value other than the dummy Null. *)
Definition plain_cm {A} (c : commented A) : bool :=
  match c with Cm [] _ None => true | _ => false end.
Definition is_null (e : expr) : bool := match e with ENull => true | _ => false end.

Fixpoint wf (t : expr) : bool :=
  match t with
  | ENum _ | EStr _ | EBool _ | ENull | EInRef _ | EBuiltin _ => true
  | EId x => match builtin_of_name x with None => true | Some _ => false end
  | EList items =>
      (fix go (l : list (commented expr)) : bool :=
         match l with [] => true | c :: l' => plain_cm c && (match c with Cm _ e _ => wf e end) && go l' end) items
  | ERec entries =>
      (fix go (l : list (commented rentry)) : bool :=
         match l with
         | [] => true
         | c :: l' =>
             plain_cm c &&
             (match c with
              | Cm _ (REntry k v) _ =>
                  match k with
                  | KStatic _ => wf v
                  | KDyn e => wf e && wf v
                  | KShort _ => is_null v
                  | KSpread e => wf e && is_null v
                  end
              end) && go l'
         end) entries
  | ELam _ body => wf body
  | ECond c t1 e => wf c && wf t1 && wf e
  | EDo stmts ret =>
      (fix go (l : list (commented expr)) : bool :=
         match l with [] => true | c :: l' => plain_cm c && (match c with Cm _ e _ => wf e end) && go l' end) stmts
      && plain_cm ret && (match ret with Cm _ e _ => wf e end)
  | EAssign _ v => wf v
  | EOutput _ => false
  | ECall f args =>
      wf f && (fix go (l : list expr) : bool := match l with [] => true | a :: l' => wf a && go l' end) args
  | EAccess e i => wf e && wf i
  | EDot e _ => wf e
  | EBin _ l r => wf l && wf r
  | EUn u e => (match u with Invert => false | _ => true end) && wf e
  | EFact e => wf e
  | ESpread e => wf e
  end.

Lemma plain_cm_inv {A} (c : commented A) : plain_cm c = true -> exists n, c = Cm [] n None.
Proof. destruct c as [[|] n [|]]; simpl; try discriminate. eauto. Qed.

(* ------------------------------------------------------------------ the generic round trip *)
Section RoundTrip.
  Variable tbl : ops_map.
  Variable imap : list (oprule * binop).
  Variable pmap : list (oprule * prefix_ctor).
  Variable bprec : binop -> nat.
  Variable rassoc : binop -> bool.
  Variables Ppre Pfact Ppost : nat.
  Variable par : list nat -> nat.
  Variable wn : list nat -> bool.

  Hypothesis H_infix : forall o,
    ops_get tbl (binop_rule o) = Some (Infix (if rassoc o then ARight else ALeft), bprec o).
  Hypothesis H_imap : forall o, assoc_find (binop_rule o) imap = Some o.
  Hypothesis H_neg : ops_get tbl R_negation = Some (Prefix, Ppre).
  Hypothesis H_inv : ops_get tbl R_invert = Some (Prefix, Ppre).
  Hypothesis H_not : ops_get tbl R_natural_not = Some (Prefix, Ppre).
  Hypothesis H_spr : ops_get tbl R_spread_operator = Some (Prefix, Ppre).
  Hypothesis H_pneg : assoc_find R_negation pmap = Some (PUn Negate).
  Hypothesis H_pinv : assoc_find R_invert pmap = Some (PUn Not).
  Hypothesis H_pnot : assoc_find R_natural_not pmap = Some (PUn Not).
  Hypothesis H_pspr : assoc_find R_spread_operator pmap = Some PSpread.
  Hypothesis H_fact : ops_get tbl R_factorial = Some (Postfix, Pfact).
  Hypothesis H_acc : ops_get tbl R_access = Some (Postfix, Ppost).
  Hypothesis H_dot : ops_get tbl R_dot_access = Some (Postfix, Ppost).
  Hypothesis H_call : ops_get tbl R_call_list = Some (Postfix, Ppost).
  Hypothesis prec_pos : forall o, 0 < bprec o.
  Hypothesis prec_lt_pre : forall o, bprec o < Ppre.
  Hypothesis pre_lt_fact : Ppre < Pfact.
  Hypothesis pre_lt_post : Ppre < Ppost.
  (* all operators of one level share their associativity, as in pest's grouped table *)
  Hypothesis level_assoc : forall o1 o2, bprec o1 = bprec o2 -> rassoc o1 = rassoc o2.
  Hypothesis H_builtins : forall b, builtin_of_name (builtin_name b) = Some b.

  Notation lvl := (lvl bprec Ppre Pfact Ppost).
  Notation INF := (INF Ppre Pfact Ppost).
  Notation needL := (needL bprec rassoc).
  Notation needR := (needR bprec rassoc).
  Notation needPost := (needPost Ppre).
  Notation wrapi := (wrapi bprec Ppre Pfact Ppost par).
  Notation pr := (pr bprec rassoc Ppre Pfact Ppost par wn).
  Notation ExprR := (Expr tbl imap pmap).
  Notation LoopR := (Loop tbl imap pmap).
  Notation ItemsR := (Items tbl imap pmap).

  Definition rbp_of (o : binop) : nat := if rassoc o then bprec o - 1 else bprec o.

  (* does the operand at path q stand in parentheses? *)
  Definition layers (m : nat) (q : list nat) (c : expr) : nat :=
    (if m <=? lvl c then 0 else 1) + (if is_spread c then 0 else par q).

  (* how loosely the right edge of the unparenthesised rendering of t is open: an operator that
     follows binds to the whole of t only if its binding power is at most rmin *)
  Fixpoint rmin (p : list nat) (t : expr) : nat :=
    match t with
    | EBin o _ r =>
        match layers (needR o) (1 :: p) r with
        | O => Nat.min (rbp_of o) (rmin (1 :: p) r)
        | S _ => rbp_of o
        end
    | EUn _ x =>
        match layers Ppre (0 :: p) x with
        | O => Nat.min (Ppre - 1) (rmin (0 :: p) x)
        | S _ => Ppre - 1
        end
    | ESpread _ => Ppre - 1
    | _ => INF
    end.

  Definition follows (k : nat) (rest : list item) : Prop :=
    exists b, lbp tbl rest = Ok b /\ b <= k.

  Lemma follows_le : forall k k' rest, follows k rest -> k <= k' -> follows k' rest.
  Proof. intros k k' rest (b & Hb & Hle) H. exists b. split; [exact Hb|lia]. Qed.
  Lemma follows_nil : forall k, follows k [].
  Proof. intro k. exists 0. split; [reflexivity|lia]. Qed.

  Lemma loop_stops : forall rbp lhs rest, follows rbp rest -> LoopR rbp lhs rest lhs rest.
  Proof. intros rbp lhs rest (b & Hb & Hle). eapply L_stop; eauto. Qed.

  Lemma pre_pos : 0 < Ppre.
  Proof. pose proof (prec_lt_pre Add). lia. Qed.
  Lemma lvl_pos : forall t, 0 < lvl t.
  Proof. pose proof pre_pos. destruct t; cbn; unfold PrattRender.INF; try lia. apply prec_pos. Qed.
  Lemma lvl_le_INF : forall t, lvl t <= INF.
  Proof.
    destruct t; cbn; unfold PrattRender.INF; try lia.
    pose proof (prec_lt_pre op). lia.
  Qed.

  Lemma rmin_ge : forall t p, lvl t - 1 <= rmin p t.
  Proof.
    induction t using expr_ind'; intro p; cbn [rmin lvl]; try (unfold PrattRender.INF; lia).
    - (* EBin *)
      destruct (layers (needR o) (1 :: p) t2) eqn:E.
      + unfold layers in E.
        destruct (Nat.leb_spec (needR o) (lvl t2)) as [Hr|Hr]; [|discriminate].
        specialize (IHt2 (1 :: p)). unfold PrattRender.needR, rbp_of in *.
        destruct (rassoc o); lia.
      + unfold rbp_of. destruct (rassoc o); lia.
    - (* EUn *)
      destruct (layers Ppre (0 :: p) t) eqn:E.
      + unfold layers in E. destruct (Nat.leb_spec Ppre (lvl t)) as [Hr|Hr]; [|discriminate].
        specialize (IHt (0 :: p)). lia.
      + lia.
  Qed.

  Lemma rmin_ge_left : forall o l r p, rassoc o = false -> bprec o <= rmin p (EBin o l r).
  Proof.
    intros o l r p H. cbn [rmin]. unfold rbp_of. rewrite H.
    destruct (layers (needR o) (1 :: p) r) eqn:E; [|lia].
    unfold layers in E. destruct (Nat.leb_spec (needR o) (lvl r)) as [Hr|Hr]; [|discriminate].
    pose proof (rmin_ge r (1 :: p)). unfold PrattRender.needR in Hr. rewrite H in Hr. lia.
  Qed.

  (* the statement proved by induction on the tree *)
  Definition RT (c : expr) : Prop :=
    forall p rbp rest u rest',
      rbp < lvl c -> rbp < Ppre -> follows (rmin p c) rest ->
      LoopR rbp c rest u rest' -> ExprR rbp (pr p c ++ rest) u rest'.

  Lemma lbp_nil : lbp tbl [] = Ok 0.
  Proof. reflexivity. Qed.

  (* a nested token stream: any number of parenthesis layers *)
  Lemma items_parens : forall c q n, RT c -> ItemsR (parens n (pr q c)) c.
  Proof.
    intros c q n H. induction n as [|n IH]; cbn [parens].
    - eapply I_intro with (rest := []). rewrite <- (app_nil_r (pr q c)).
      apply H; [apply lvl_pos | apply pre_pos | apply follows_nil |].
      apply loop_stops, follows_nil.
    - eapply I_intro with (rest := []). eapply E_primary; [reflexivity | apply P_expr; exact IH |].
      apply loop_stops, follows_nil.
  Qed.

  Lemma items_wrapi : forall c q m, RT c -> ItemsR (wrapi m q c (pr q c)) c.
  Proof. intros. unfold PrattRender.wrapi. apply items_parens. assumption. Qed.

  (* an operand position *)
  Lemma operand : forall c q m rbp rest u rest',
    RT c ->
    (layers m q c = 0 -> rbp < lvl c /\ rbp < Ppre /\ follows (rmin q c) rest) ->
    LoopR rbp c rest u rest' ->
    ExprR rbp (wrapi m q c (pr q c) ++ rest) u rest'.
  Proof.
    intros c q m rbp rest u rest' H Hun HL.
    unfold PrattRender.wrapi. fold (layers m q c).
    destruct (layers m q c) as [|n] eqn:E.
    - cbn [parens]. destruct (Hun eq_refl) as (H1 & H2 & H3). apply H; assumption.
    - cbn [parens app]. eapply E_primary; [reflexivity | apply P_expr; apply items_parens; exact H | exact HL].
  Qed.

  Lemma layers_0_le : forall m q c, layers m q c = 0 -> m <= lvl c.
  Proof.
    intros m q c E. unfold layers in E. destruct (Nat.leb_spec m (lvl c)); [assumption|discriminate].
  Qed.

  Definition WRT (e : expr) : Prop := wf e = true -> RT e.

  (* the element loops *)
  Lemma list_els : forall items i p,
    Forall (Pcm WRT) items ->
    (fix go (l : list (commented expr)) : bool :=
       match l with [] => true | c :: l' => plain_cm c && (match c with Cm _ e _ => wf e end) && go l' end) items = true ->
    LEls tbl imap pmap
      ((fix go (i : nat) (l : list (commented expr)) : list lelem :=
          match l with
          | [] => []
          | Cm _ e _ :: l' => LItem (wrapi 0 (i :: p) e (pr (i :: p) e)) None :: go (S i) l'
          end) i items) items.
  Proof.
    induction items as [|c items IH]; intros i p HF Hwf.
    - constructor.
    - apply andb_prop in Hwf. destruct Hwf as [Hwf Hrest]. apply andb_prop in Hwf. destruct Hwf as [Hpl Hw].
      destruct (plain_cm_inv c Hpl) as [e ->]. inversion HF as [|? ? Hc HF']; subst.
      change (Cm [] e None) with (uncommented e). apply LE_item.
      + apply items_wrapi. exact (Hc Hw).
      + apply IH; assumption.
  Qed.

  Lemma args_els : forall args i p,
    Forall WRT args ->
    (fix go (l : list expr) : bool := match l with [] => true | a :: l' => wf a && go l' end) args = true ->
    Args tbl imap pmap
      ((fix go (i : nat) (l : list expr) : list (list item) :=
          match l with
          | [] => []
          | a :: l' => wrapi 0 (i :: p) a (pr (i :: p) a) :: go (S i) l'
          end) i args) args.
  Proof.
    induction args as [|a args IH]; intros i p HF Hwf.
    - constructor.
    - apply andb_prop in Hwf. destruct Hwf as [Hw Hrest]. inversion HF as [|? ? Hc HF']; subst.
      apply A_cons; [apply items_wrapi; exact (Hc Hw) | apply IH; assumption].
  Qed.

  Lemma items_bare_expr : forall g c, ItemsR g c -> ItemsR [IExpr false g] c.
  Proof.
    intros g c H. eapply I_intro with (rest := []).
    eapply E_primary; [reflexivity | apply P_expr; exact H | apply loop_stops, follows_nil].
  Qed.

  Lemma is_null_inv : forall v, is_null v = true -> v = ENull.
  Proof. destruct v; simpl; congruence. Qed.

  Lemma rec_els : forall entries i p,
    Forall (Pentry WRT) entries ->
    (fix go (l : list (commented rentry)) : bool :=
       match l with
       | [] => true
       | c :: l' =>
           plain_cm c &&
           (match c with
            | Cm _ (REntry k v) _ =>
                match k with
                | KStatic _ => wf v
                | KDyn e => wf e && wf v
                | KShort _ => is_null v
                | KSpread e => wf e && is_null v
                end
            end) && go l'
       end) entries = true ->
    REls tbl imap pmap
      ((fix go (i : nat) (l : list (commented rentry)) : list relem :=
          match l with
          | [] => []
          | Cm _ (REntry k v) _ :: l' =>
              match k with
              | KStatic s => RPairI (RKStr s) (wrapi 0 (2 * i + 1 :: p) v (pr (2 * i + 1 :: p) v)) None
              | KDyn e =>
                  RPairI (RKDyn [IExpr false (wrapi 0 (2 * i :: p) e (pr (2 * i :: p) e))])
                         (wrapi 0 (2 * i + 1 :: p) v (pr (2 * i + 1 :: p) v)) None
              | KShort s => RShortI s None
              | KSpread e => RSpreadI (wrapi 0 (2 * i :: p) e (pr (2 * i :: p) e)) None
              end :: go (S i) l'
          end) i entries) entries.
  Proof.
    induction entries as [|c entries IH]; intros i p HF Hwf.
    - constructor.
    - apply andb_prop in Hwf. destruct Hwf as [Hwf Hrest]. apply andb_prop in Hwf. destruct Hwf as [Hpl Hw].
      destruct (plain_cm_inv c Hpl) as [[k v] ->]. inversion HF as [|? ? Hc HF']; subst.
      cbn [Pentry Pkey] in Hc. destruct Hc as [Hk Hv].
      specialize (IH (S i) p HF' Hrest).
      destruct k as [s|e|s|e].
      + change (Cm [] (REntry (KStatic s) v) None) with (uncommented (REntry (KStatic s) v)).
        apply RE_pair_str; [apply items_wrapi; exact (Hv Hw) | exact IH].
      + apply andb_prop in Hw. destruct Hw as [He Hv'].
        change (Cm [] (REntry (KDyn e) v) None) with (uncommented (REntry (KDyn e) v)).
        apply RE_pair_dyn; [apply items_bare_expr, items_wrapi; exact (Hk He) | apply items_wrapi; exact (Hv Hv') | exact IH].
      + apply is_null_inv in Hw. subst v.
        change (Cm [] (REntry (KShort s) ENull) None) with (uncommented (REntry (KShort s) ENull)).
        apply RE_short. exact IH.
      + apply andb_prop in Hw. destruct Hw as [He Hv']. apply is_null_inv in Hv'. subst v.
        change (Cm [] (REntry (KSpread e) ENull) None) with (uncommented (REntry (KSpread e) ENull)).
        apply RE_spread; [apply items_wrapi; exact (Hk He) | exact IH].
  Qed.

  Lemma do_els : forall stmts i p acc ret0 ret,
    Forall (Pcm WRT) stmts ->
    (fix go (l : list (commented expr)) : bool :=
       match l with [] => true | c :: l' => plain_cm c && (match c with Cm _ e _ => wf e end) && go l' end) stmts = true ->
    RT ret ->
    DEls tbl imap pmap
      ((fix go (i : nat) (l : list (commented expr)) : list delem :=
          match l with
          | [] => [DRet (wrapi 0 (i :: p) ret (pr (i :: p) ret))]
          | Cm _ e _ :: l' => DStmt (wrapi 0 (i :: p) e (pr (i :: p) e)) None :: go (S i) l'
          end) i stmts) acc ret0 (EDo (acc ++ stmts) (uncommented ret)).
  Proof.
    induction stmts as [|c stmts IH]; intros i p acc ret0 ret HF Hwf Hret.
    - rewrite app_nil_r. eapply DE_ret; [apply items_wrapi; exact Hret | apply DE_nil].
    - apply andb_prop in Hwf. destruct Hwf as [Hwf Hrest]. apply andb_prop in Hwf. destruct Hwf as [Hpl Hw].
      destruct (plain_cm_inv c Hpl) as [e ->]. inversion HF as [|? ? Hc HF']; subst.
      eapply DE_stmt; [apply items_wrapi; exact (Hc Hw)|].
      replace (acc ++ Cm [] e None :: stmts) with ((acc ++ [uncommented e]) ++ stmts)
        by (rewrite <- app_assoc; reflexivity).
      apply IH; assumption.
  Qed.

  Lemma rmin_INF : forall c q, Ppre < lvl c -> rmin q c = INF.
  Proof.
    intros c q H. destruct c; cbn [rmin]; try reflexivity; cbn [PrattRender.lvl] in H.
    - pose proof (prec_lt_pre op). lia.
    - lia.
    - lia.
  Qed.

  Lemma lbp_op : forall r a p rest, ops_get tbl r = Some (a, p) -> lbp tbl (IOp r :: rest) = Ok p.
  Proof. intros r a p rest H. unfold lbp. cbn [item_op]. rewrite H. reflexivity. Qed.

  Lemma INF_big : Pfact <= INF /\ Ppost <= INF.
  Proof. unfold PrattRender.INF. lia. Qed.

  (* operand of a postfix operator *)
  Lemma post_operand : forall c q rbp i r pp rest v u rest',
    RT c -> rbp < Ppre ->
    item_op i = Some r -> ops_get tbl r = Some (Postfix, pp) -> Ppre < pp -> pp <= INF ->
    Post tbl imap pmap c i v ->
    LoopR rbp v rest u rest' ->
    ExprR rbp (wrapi needPost q c (pr q c) ++ i :: rest) u rest'.
  Proof.
    intros c q rbp i r pp rest v u rest' Hc Hrbp Hop Hops Hpp Hinf HP HL.
    apply operand; [exact Hc | |].
    - intro E. apply layers_0_le in E. unfold PrattRender.needPost in E.
      split; [lia|]. split; [exact Hrbp|].
      rewrite rmin_INF by lia. exists pp. split; [|exact Hinf].
      unfold lbp. rewrite Hop, Hops. reflexivity.
    - eapply L_postfix; [exact Hop | exact Hops | lia | exact HP | exact HL].
  Qed.

  Theorem roundtrip_all : forall t, WRT t.
  Proof.
    induction t as [x|s|b| |x|x|b|items HF|entries HF|args body IHb|c t1 e IHc IHt IHe|stmts ret HF Hret
                   |x v IHv|e IHe|f args IHf HF|e i IHe IHi|e f IHe|o l r IHl IHr|uo e IHe|e IHe|e IHe]
      using expr_ind';
      intros Hwf p rbp rest res rest' Hlvl Hpre Hf HL; cbn [PrattRender.pr].
    - cbn [app]. eapply E_primary; [reflexivity | constructor | exact HL].
    - cbn [app]. eapply E_primary; [reflexivity | constructor | exact HL].
    - cbn [app]. eapply E_primary; [reflexivity | constructor | exact HL].
    - cbn [app]. eapply E_primary; [reflexivity | constructor | exact HL].
    - (* EId *)
      cbn [wf] in Hwf. destruct (builtin_of_name x) eqn:E; [discriminate|].
      cbn [app]. eapply E_primary; [reflexivity | apply P_ident; exact E | exact HL].
    - cbn [app]. eapply E_primary; [reflexivity | constructor | exact HL].
    - (* EBuiltin *)
      cbn [app]. eapply E_primary; [reflexivity | apply P_builtin; apply H_builtins | exact HL].
    - (* EList *)
      cbn [app]. eapply E_primary; [reflexivity | apply P_list; apply list_els; [exact HF | exact Hwf] | exact HL].
    - (* ERec *)
      cbn [app]. eapply E_primary; [reflexivity | apply P_rec; apply rec_els; [exact HF | exact Hwf] | exact HL].
    - (* ELam *)
      cbn [app]. eapply E_primary; [reflexivity | apply P_lam; apply items_wrapi; exact (IHb Hwf) | exact HL].
    - (* ECond *)
      cbn [wf] in Hwf. apply andb_prop in Hwf. destruct Hwf as [Hwf H3]. apply andb_prop in Hwf. destruct Hwf as [H1 H2].
      cbn [app]. eapply E_primary; [reflexivity | | exact HL].
      apply P_cond; apply items_wrapi; auto.
    - (* EDo *)
      destruct ret as [rl r rt]. cbn [wf] in Hwf.
      apply andb_prop in Hwf. destruct Hwf as [Hwf Hr]. apply andb_prop in Hwf. destruct Hwf as [Hs Hpl].
      destruct (plain_cm_inv _ Hpl) as [r' Er]. inversion Er; subst.
      cbn [app]. eapply E_primary; [reflexivity | | exact HL].
      apply P_do. change (Cm [] r' None) with (uncommented r').
      change stmts with ([] ++ stmts) at 2. apply do_els; [exact HF | exact Hs | exact (Hret Hr)].
    - (* EAssign *)
      cbn [app]. eapply E_primary; [reflexivity | apply P_assign; apply items_wrapi; exact (IHv Hwf) | exact HL].
    - (* EOutput *) discriminate.
    - (* ECall *)
      cbn [wf] in Hwf. apply andb_prop in Hwf. destruct Hwf as [Hwf1 Hwf2].
      rewrite <- app_assoc. cbn [app].
      destruct INF_big as [_ Hb].
      eapply post_operand; [exact (IHf Hwf1) | exact Hpre | reflexivity | exact H_call | exact pre_lt_post | exact Hb | | exact HL].
      apply Po_call. apply args_els; assumption.
    - (* EAccess *)
      cbn [wf] in Hwf. apply andb_prop in Hwf. destruct Hwf as [Hwf1 Hwf2].
      rewrite <- app_assoc. cbn [app].
      destruct INF_big as [_ Hb].
      eapply post_operand; [exact (IHe Hwf1) | exact Hpre | reflexivity | exact H_acc | exact pre_lt_post | exact Hb | | exact HL].
      apply Po_access. apply items_bare_expr, items_wrapi. exact (IHi Hwf2).
    - (* EDot *)
      cbn [wf] in Hwf. rewrite <- app_assoc. cbn [app].
      destruct INF_big as [_ Hb].
      eapply post_operand; [exact (IHe Hwf) | exact Hpre | reflexivity | exact H_dot | exact pre_lt_post | exact Hb | apply Po_dot | exact HL].
    - (* EBin *)
      cbn [wf] in Hwf. apply andb_prop in Hwf. destruct Hwf as [Hwl Hwr].
      cbn [PrattRender.lvl] in Hlvl. rewrite <- app_assoc. cbn [app].
      assert (Hrle : rmin p (EBin o l r) <= rbp_of o).
      { cbn [rmin]. destruct (layers (needR o) (1 :: p) r); lia. }
      assert (Hrbp_lt : rbp_of o < Ppre).
      { pose proof (prec_lt_pre o). unfold rbp_of. destruct (rassoc o); lia. }
      assert (Hright : ExprR (rbp_of o) (wrapi (needR o) (1 :: p) r (pr (1 :: p) r) ++ rest) r rest).
      { apply operand; [exact (IHr Hwr) | | apply loop_stops; eapply follows_le; [exact Hf | exact Hrle]].
        intro E. split; [|split; [exact Hrbp_lt|]].
        - apply layers_0_le in E. unfold PrattRender.needR, rbp_of in *. pose proof (prec_pos o). destruct (rassoc o); lia.
        - eapply follows_le; [exact Hf|]. cbn [rmin]. rewrite E. lia. }
      assert (Hstep : LoopR rbp l (IOp (binop_rule o) :: wrapi (needR o) (1 :: p) r (pr (1 :: p) r) ++ rest) res rest').
      { eapply L_infix; [reflexivity | apply H_infix | exact Hlvl | | | exact HL].
        - unfold rbp_of in Hright. destruct (rassoc o); exact Hright.
        - unfold map_infix. rewrite H_imap. reflexivity. }
      apply operand; [exact (IHl Hwl) | | exact Hstep].
      intro E. apply layers_0_le in E. split; [|split; [exact Hpre|]].
      + unfold PrattRender.needL in E. destruct (rassoc o); lia.
      + exists (bprec o). split; [eapply lbp_op; apply H_infix|].
        unfold PrattRender.needL in E. destruct (rassoc o) eqn:Ha.
        * pose proof (rmin_ge l (0 :: p)). lia.
        * pose proof (prec_lt_pre o) as Hop.
          destruct l as [ | | | | | | | | | | | | | | | | |o2 l1 l2|u2 y|y|y];
            cbn [PrattRender.lvl] in E;
            try (cbn [rmin]; unfold PrattRender.INF; lia).
          -- destruct (Nat.eq_dec (bprec o2) (bprec o)) as [He|Hne].
             ++ pose proof (level_assoc _ _ He) as Hs. rewrite Ha in Hs.
                pose proof (rmin_ge_left o2 l1 l2 (0 :: p) Hs). lia.
             ++ pose proof (rmin_ge (EBin o2 l1 l2) (0 :: p)) as Hg. cbn [PrattRender.lvl] in Hg. lia.
          -- pose proof (rmin_ge (EUn u2 y) (0 :: p)) as Hg. cbn [PrattRender.lvl] in Hg. lia.
    - (* EUn *)
      cbn [wf] in Hwf. apply andb_prop in Hwf. destruct Hwf as [Hu Hwe].
      cbn [app].
      assert (Hrle : rmin p (EUn uo e) <= Ppre - 1).
      { cbn [rmin]. destruct (layers Ppre (0 :: p) e); lia. }
      pose proof pre_pos as Hpp.
      assert (Hops : ops_get tbl (unop_rule wn uo p) = Some (Prefix, Ppre)).
      { destruct uo; cbn [unop_rule]; [exact H_neg | destruct (wn p); [exact H_not | exact H_inv] | discriminate]. }
      assert (Hmap : map_prefix pmap (unop_rule wn uo p) (Some e) = Ok (Some (EUn uo e))).
      { unfold map_prefix. destruct uo; cbn [unop_rule];
          [rewrite H_pneg; reflexivity | destruct (wn p); [rewrite H_pnot | rewrite H_pinv]; reflexivity | discriminate]. }
      eapply E_prefix; [reflexivity | exact Hops | | exact Hmap | exact HL].
      apply operand; [exact (IHe Hwe) | | apply loop_stops; eapply follows_le; [exact Hf | exact Hrle]].
      intro E. split; [|split; [lia|]].
      + apply layers_0_le in E. lia.
      + eapply follows_le; [exact Hf|]. cbn [rmin]. rewrite E. lia.
    - (* EFact *)
      cbn [wf] in Hwf. rewrite <- app_assoc. cbn [app].
      destruct INF_big as [Hb _].
      eapply post_operand; [exact (IHe Hwf) | exact Hpre | reflexivity | exact H_fact | exact pre_lt_fact | exact Hb | apply Po_fact | exact HL].
    - (* ESpread *)
      cbn [wf] in Hwf. cbn [app].
      eapply E_prefix; [reflexivity | exact H_spr | | unfold map_prefix; rewrite H_pspr; reflexivity | exact HL].
      eapply E_primary; [reflexivity | apply P_expr; apply items_wrapi; exact (IHe Hwf) |].
      apply loop_stops. exact Hf.
  Qed.

  (* every rendering of a well-formed tree converts back to the tree *)
  Theorem roundtrip_items : forall t, wf t = true ->
    ItemsR (render bprec rassoc Ppre Pfact Ppost par wn t) t.
  Proof. intros t H. unfold render. apply items_wrapi. apply roundtrip_all. exact H. Qed.

  Theorem roundtrip_fun : forall t, wf t = true ->
    exists n, forall m, n <= m ->
      parse_items tbl imap pmap m (render bprec rassoc Ppre Pfact Ppost par wn t) = Ok (Some t).
  Proof. intros t H. apply items_sound. apply roundtrip_items. exact H. Qed.
End RoundTrip.

(* ------------------------------------------------------------------ the generated table *)
Require Import Blots.gen.PrecTable Blots.proofs.PrattTable Blots.proofs.PrattFuel.

Lemma impl_infix : forall o,
  ops_get impl_table (binop_rule o) = Some (Infix (if spec_rassoc o then ARight else ALeft), spec_bprec o).
Proof. destruct o; vm_compute; reflexivity. Qed.

Lemma spec_level_assoc : forall o1 o2, spec_bprec o1 = spec_bprec o2 -> spec_rassoc o1 = spec_rassoc o2.
Proof. destruct o1, o2; vm_compute; intro H; try reflexivity; discriminate H. Qed.

Lemma spec_prec_pos : forall o, 0 < spec_bprec o.
Proof. intro o. unfold spec_bprec, pest_scale. lia. Qed.
Lemma spec_prec_lt_pre : forall o, spec_bprec o < spec_Ppre.
Proof. destruct o; vm_compute; repeat constructor. Qed.

(* the parser of the crate: impl_table (built from the generated rows) with the generated arms *)
Definition parse_impl (fuel : nat) (its : list item) : outcome tres :=
  parse_items impl_table infix_map prefix_map fuel its.

Theorem pratt_spec_items : forall par wn t, wf t = true ->
  Items impl_table infix_map prefix_map (spec_render par wn t) t.
Proof.
  intros par wn t H. unfold spec_render.
  apply roundtrip_items; try exact H; try (vm_compute; reflexivity).
  - exact impl_infix.
  - exact infix_map_binop_rule.
  - exact spec_prec_pos.
  - exact spec_prec_lt_pre.
  - vm_compute. repeat constructor.
  - vm_compute. repeat constructor.
  - exact spec_level_assoc.
  - exact builtin_names_roundtrip.
Qed.

Theorem pratt_spec_roundtrip_all : forall par wn t, wf t = true ->
  exists n, forall m, n <= m -> parse_impl m (spec_render par wn t) = Ok (Some t).
Proof. intros par wn t H. unfold parse_impl. apply items_sound. apply pratt_spec_items. exact H. Qed.

(* with the concrete fuel of `pratt` (4 * token count + 4): no "large enough" *)
Theorem pratt_spec_roundtrip_ample : forall par wn t, wf t = true ->
  pratt_impl (spec_render par wn t) = Ok (Some t).
Proof.
  intros par wn t H. unfold pratt_impl, pratt.
  apply (items_bound impl_table infix_map prefix_map _ t (pratt_spec_items par wn t H)). lia.
Qed.

(* the minimally and the fully parenthesised rendering under spec_table both recover t; hence they
   parse identically *)
Theorem pratt_spec_roundtrip : forall t, wf t = true ->
  exists n, forall m, n <= m ->
    parse_impl m (flat_min t) = Ok (Some t) /\ parse_impl m (flat_full t) = Ok (Some t).
Proof.
  intros t H.
  destruct (pratt_spec_roundtrip_all (fun _ => 0) (fun _ => false) t H) as [n1 H1].
  destruct (pratt_spec_roundtrip_all (fun _ => 1) (fun _ => false) t H) as [n2 H2].
  exists (n1 + n2). intros m Hm. split; [apply H1 | apply H2]; lia.
Qed.

Corollary min_full_parse_identically : forall t, wf t = true ->
  exists n, forall m, n <= m -> parse_impl m (flat_min t) = parse_impl m (flat_full t).
Proof.
  intros t H. destruct (pratt_spec_roundtrip t H) as [n Hn]. exists n. intros m Hm.
  destruct (Hn m Hm) as [A B]. congruence.
Qed.

(* redundant parentheses and the spelling of `not` never matter *)
Corollary renderings_parse_identically : forall par1 wn1 par2 wn2 t, wf t = true ->
  exists n, forall m, n <= m ->
    parse_impl m (spec_render par1 wn1 t) = parse_impl m (spec_render par2 wn2 t).
Proof.
  intros par1 wn1 par2 wn2 t H.
  destruct (pratt_spec_roundtrip_all par1 wn1 t H) as [n1 H1].
  destruct (pratt_spec_roundtrip_all par2 wn2 t H) as [n2 H2].
  exists (n1 + n2). intros m Hm. rewrite H1, H2 by lia. reflexivity.
Qed.

(* the specification table is unambiguous: no token stream is a rendering of two different trees *)
Corollary renderings_unambiguous : forall par1 wn1 par2 wn2 t1 t2,
  wf t1 = true -> wf t2 = true ->
  spec_render par1 wn1 t1 = spec_render par2 wn2 t2 -> t1 = t2.
Proof.
  intros par1 wn1 par2 wn2 t1 t2 H1 H2 E.
  pose proof (pratt_spec_roundtrip_ample par1 wn1 t1 H1) as A.
  pose proof (pratt_spec_roundtrip_ample par2 wn2 t2 H2) as B.
  rewrite E in A. rewrite A in B. congruence.
Qed.

(* ------------------------------------------------------------------ the parser only builds wf trees *)
Section OutputsWf.
  Variable tbl : ops_map.
  Variable imap : list (oprule * binop).
  Variable pmap : list (oprule * prefix_ctor).
  (* no map_prefix arm builds UnaryOp::Invert (checked on the generated arms at instantiation) *)
  Hypothesis no_invert : forall r, assoc_find r pmap <> Some (PUn Invert).

  Definition wf_cms (l : list (commented expr)) : bool :=
    (fix go (l : list (commented expr)) : bool :=
       match l with [] => true | c :: l' => plain_cm c && (match c with Cm _ e _ => wf e end) && go l' end) l.
  Definition wf_ents (l : list (commented rentry)) : bool :=
    (fix go (l : list (commented rentry)) : bool :=
       match l with
       | [] => true
       | c :: l' =>
           plain_cm c &&
           (match c with
            | Cm _ (REntry k v) _ =>
                match k with
                | KStatic _ => wf v
                | KDyn e => wf e && wf v
                | KShort _ => is_null v
                | KSpread e => wf e && is_null v
                end
            end) && go l'
       end) l.
  Definition wf_args (l : list expr) : bool :=
    (fix go (l : list expr) : bool := match l with [] => true | a :: l' => wf a && go l' end) l.

  Lemma wf_cms_app : forall a b, wf_cms (a ++ b) = wf_cms a && wf_cms b.
  Proof.
    induction a as [|c a IH]; intro b; [reflexivity|].
    change (wf_cms ((c :: a) ++ b)) with (plain_cm c && (match c with Cm _ e _ => wf e end) && wf_cms (a ++ b)).
    change (wf_cms (c :: a)) with (plain_cm c && (match c with Cm _ e _ => wf e end) && wf_cms a).
    rewrite IH. rewrite !andb_assoc. reflexivity.
  Qed.

  Theorem outputs_wf :
    (forall rbp its t rest, Expr tbl imap pmap rbp its t rest -> wf t = true) /\
    (forall rbp lhs its t rest, Loop tbl imap pmap rbp lhs its t rest -> wf lhs = true -> wf t = true) /\
    (forall lhs i u, Post tbl imap pmap lhs i u -> wf lhs = true -> wf u = true) /\
    (forall i x, Prim tbl imap pmap i x -> wf x = true) /\
    (forall its t, Items tbl imap pmap its t -> wf t = true) /\
    (forall args es, Args tbl imap pmap args es -> wf_args es = true) /\
    (forall els es, LEls tbl imap pmap els es -> wf_cms es = true) /\
    (forall els es, REls tbl imap pmap els es -> wf_ents es = true) /\
    (forall els stmts ret t, DEls tbl imap pmap els stmts ret t ->
        wf_cms stmts = true -> plain_cm ret = true -> (match ret with Cm _ e _ => wf e end) = true ->
        wf t = true).
  Proof.
    apply parse_rel_mutind.
    - (* E_prefix *)
      intros rbp i r p its x mid u t rest _ _ _ Hx Hpre _ IH. apply IH.
      unfold map_prefix in Hpre. destruct (assoc_find r pmap) as [[uo|]|] eqn:E; inversion Hpre; subst.
      + cbn [wf]. rewrite Hx. destruct uo; try reflexivity. exfalso. exact (no_invert r E).
      + exact Hx.
    - (* E_primary *) intros rbp i its x t rest _ _ Hx _ IH. exact (IH Hx).
    - (* L_stop *) intros. assumption.
    - (* L_infix *)
      intros rbp lhs i r a p its rhs mid u t rest _ _ _ _ Hr Hin _ IH Hl. apply IH.
      unfold map_infix in Hin. destruct (assoc_find r imap); inversion Hin; subst.
      cbn [wf]. rewrite Hl, Hr. reflexivity.
    - (* L_postfix *) intros rbp lhs i r p its u t rest _ _ _ _ IH1 _ IH2 Hl. exact (IH2 (IH1 Hl)).
    - intros lhs Hl. exact Hl.
    - intros lhs inner i _ Hi Hl. cbn [wf]. rewrite Hl, Hi. reflexivity.
    - intros lhs f Hl. exact Hl.
    - intros lhs args es _ Ha Hl. cbn [wf]. rewrite Hl. exact Ha.
    - reflexivity.
    - reflexivity.
    - reflexivity.
    - reflexivity.
    - reflexivity.
    - intros s H. cbn [wf]. rewrite H. reflexivity.
    - reflexivity.
    - intros b g t _ H. exact H.
    - intros els es _ H. exact H.
    - intros els es _ H. exact H.
    - intros args body b _ H. exact H.
    - intros c t e c' t' e' _ H1 _ H2 _ H3. cbn [wf]. rewrite H1, H2, H3. reflexivity.
    - intros els t _ H. apply H; reflexivity.
    - intros x v v' _ H. exact H.
    - intros its t rest _ H. exact H.
    - reflexivity.
    - intros g e gs es _ H1 _ H2. change (wf_args (e :: es)) with (wf e && wf_args es). rewrite H1, H2. reflexivity.
    - reflexivity.
    - intros s els es _ H. exact H.
    - intros g eol e els es _ H1 _ H2.
      change (wf_cms (uncommented e :: es)) with (true && wf e && wf_cms es). rewrite H1, H2. reflexivity.
    - reflexivity.
    - intros s els es _ H. exact H.
    - intros s v eol v' els es _ H1 _ H2.
      change (wf_ents (uncommented (REntry (KStatic s) v') :: es)) with (true && wf v' && wf_ents es).
      rewrite H1, H2. reflexivity.
    - intros s v eol v' els es _ H1 _ H2.
      change (wf_ents (uncommented (REntry (KStatic s) v') :: es)) with (true && wf v' && wf_ents es).
      rewrite H1, H2. reflexivity.
    - intros inner k v eol v' els es _ H0 _ H1 _ H2.
      change (wf_ents (uncommented (REntry (KDyn k) v') :: es)) with (true && (wf k && wf v') && wf_ents es).
      rewrite H0, H1, H2. reflexivity.
    - intros s eol els es _ H.
      change (wf_ents (uncommented (REntry (KShort s) ENull) :: es)) with (true && true && wf_ents es).
      rewrite H. reflexivity.
    - intros g eol e els es _ H1 _ H2.
      change (wf_ents (uncommented (REntry (KSpread e) ENull) :: es)) with (true && (wf e && true) && wf_ents es).
      rewrite H1, H2. reflexivity.
    - (* DE_nil *)
      intros stmts ret Hs Hp Hr. destruct ret as [rl r rt]. cbn [wf]. fold (wf_cms stmts).
      rewrite Hs, Hp, Hr. reflexivity.
    - (* DE_stmt *)
      intros g c e els stmts ret t _ He _ IH Hs Hp Hr. apply IH; try assumption.
      rewrite wf_cms_app, Hs. change (wf_cms [uncommented e]) with (true && wf e && true). rewrite He. reflexivity.
    - intros s c els stmts ret t _ IH Hs Hp Hr. apply IH; assumption.
    - intros s els stmts ret t _ IH Hs Hp Hr. apply IH; assumption.
    - intros g e els stmts ret t _ He _ IH Hs Hp Hr. apply IH; [exact Hs | reflexivity | exact He].
  Qed.
End OutputsWf.

Lemma impl_no_invert : forall r, assoc_find r prefix_map <> Some (PUn Invert).
Proof. destruct r; vm_compute; discriminate. Qed.

(* every tree the crate's parser builds is wf: the round-trip theorems cover all of its outputs *)
Theorem impl_outputs_wf : forall its t, Items impl_table infix_map prefix_map its t -> wf t = true.
Proof.
  intros its t H.
  exact (proj1 (proj2 (proj2 (proj2 (proj2 (outputs_wf impl_table infix_map prefix_map impl_no_invert))))) its t H).
Qed.

(* hence: whatever token stream produced t, the minimal and the fully parenthesised rendering of t
   under spec_table parse back to t *)
Corollary reparse_of_output : forall its t, Items impl_table infix_map prefix_map its t ->
  pratt_impl (flat_min t) = Ok (Some t) /\ pratt_impl (flat_full t) = Ok (Some t).
Proof.
  intros its t H. pose proof (impl_outputs_wf its t H) as W.
  split; apply pratt_spec_roundtrip_ample; exact W.
Qed.
