(* EmitHOSim.v — C05, layer P2 for higher-order captured values: THE SIMULATION.

   Related functions (EmitHO.vrel) applied to related arguments, at every call depth, from any two
   scope chains and any two stores, produce related outcomes: Ok with related values, otherwise the
   same error class (the depth error on both sides or on neither: both runs are at the same depth
   and consume it identically — the inlined literals call nothing).

   Proved for EVERY implementation of the operators and built-ins that respects the relation
   (hypotheses Hbin_rel / Hbi_rel of the Sections; the binary counterpart of EmitSound's
   cb_lf_equiv hypotheses), for all expression forms: bodies that create closures, closures capturing
   closures to any depth, functions returned as results.  EmitHOOps.v discharges the hypotheses for
   the transcribed operators and built-ins arm by arm. *)
From Coq Require Import String Ascii List ZArith Bool Lia.
Require Import Blots.Num Blots.gen.Builtins Blots.Ast Blots.Value Blots.Outcome Blots.Binop
               Blots.Env Blots.Eval Blots.Emit Blots.proofs.ValueInd Blots.proofs.ExprInd
               Blots.proofs.EmitLit Blots.proofs.EmitSubst Blots.proofs.EmitClosed
               Blots.proofs.FreeVars Blots.proofs.Closures Blots.proofs.EmitSound
               Blots.proofs.EmitHO Blots.proofs.EmitHOFv.
Import ListNotations.
Open Scope string_scope.
Open Scope list_scope.

(* two callbacks take related functions and arguments to related outcomes, whatever the stores
   and the self values *)
Definition cb_rel (opok : binop -> bool) (biok : builtin -> bool) (nanfix : bool) (cb cb' : callback) : Prop :=
  forall this this' f f' args args' st st',
    vrel opok biok nanfix f f' -> lrel opok biok nanfix args args' ->
    orel opok biok nanfix (fst (cb this f args st)) (fst (cb' this' f' args' st')).

(* ---------------------------------------------------------------- capture *)
Lemma capture_get_notin F vars : forall acc x, ~ In x vars ->
  rec_get (capture F vars acc) x = rec_get acc x.
Proof.
  induction vars as [|y vars IH]; intros acc x Hn; [reflexivity|]. cbn [capture].
  assert (Hx : ~ In x vars) by (intros X; apply Hn; now right).
  assert (Hxy : String.eqb x y = false) by (apply String.eqb_neq; intros ->; apply Hn; now left).
  destruct (lookup F y); [|apply IH; exact Hx].
  destruct (is_builtin_name y); [apply IH; exact Hx|]. rewrite IH by exact Hx. cbn. now rewrite Hxy.
Qed.
Lemma capture_get_in F vars : forall acc x v, In x vars -> is_builtin_name x = false ->
  lookup F x = Some v -> rec_get (capture F vars acc) x = Some v.
Proof.
  induction vars as [|y vars IH]; intros acc x v Hin Hb Hl; [destruct Hin|]. cbn [capture].
  destruct (in_dec string_dec x vars) as [Hi|Hni].
  - destruct (lookup F y); [destruct (is_builtin_name y)|]; apply IH; auto.
  - destruct Hin as [->|Hin]; [|contradiction]. rewrite Hl, Hb.
    rewrite capture_get_notin by exact Hni. cbn. now rewrite String.eqb_refl.
Qed.
Lemma capture_get_some F vars : forall acc x v, rec_get (capture F vars acc) x = Some v ->
  (In x vars /\ lookup F x = Some v /\ is_builtin_name x = false) \/ rec_get acc x = Some v.
Proof.
  induction vars as [|y vars IH]; intros acc x v H; [right; exact H|]. cbn [capture] in H.
  destruct (lookup F y) as [w|] eqn:El.
  - destruct (is_builtin_name y) eqn:Eb.
    + destruct (IH _ _ _ H) as [(A & B & C)|A]; [left; repeat split; auto; now right|right; exact A].
    + destruct (IH _ _ _ H) as [(A & B & C)|A]; [left; repeat split; auto; now right|].
      cbn in A. destruct (String.eqb_spec x y) as [->|]; [|right; exact A].
      inversion A; subst. left. repeat split; auto. now left.
  - destruct (IH _ _ _ H) as [(A & B & C)|A]; [left; repeat split; auto; now right|right; exact A].
Qed.

(* ---------------------------------------------------------------- identifiers of covered bodies *)
Section Ids.
  Variable opok : binop -> bool.
  Variable biok : builtin -> bool.
  Notation hob := (hob opok biok).
  Definition hob_stmt (s : expr) : bool := match s with EAssign _ v => hob v | _ => hob s end.
  Definition idokP (x : string) : Prop := idok x = true.
  Lemma hob_ids_ok_gen : forall e,
    (hob e = true -> ids_ok idokP e) /\ (hob_stmt e = true -> ids_ok idokP e).
  Proof.
    induction e using expr_ind';
      (match goal with |- (hob ?e0 = true -> _) /\ _ =>
         assert (Hmain : hob_stmt e0 = true -> ids_ok idokP e0);
         [|split; [first [exact Hmain|intros Hx; discriminate Hx]|exact Hmain]] end);
      unfold hob_stmt; intros Hn; cbn [EmitHO.hob ids_ok] in *; try exact I; try discriminate.
    - exact Hn.
    - match goal with HF : Forall _ items |- _ => induction HF as [|[ld a tr] l Ha _ IHl] end; [exact I|].
      cbn [cnode] in Ha. apply andb_true_iff in Hn. destruct Hn as [H1 H2]. split; [apply (proj1 Ha); exact H1|apply IHl; exact H2].
    - match goal with HF : Forall _ entries |- _ => induction HF as [|[ld [k v] tr] l Ha _ IHl] end; [exact I|].
      cbn [cnode Pentry] in Ha. destruct Ha as [Hk Hv]. apply andb_true_iff in Hn. destruct Hn as [H1 H2].
      split; [|apply IHl; exact H2]. destruct k as [key|ke|z|se]; cbn [Pkey] in Hk.
      + apply (proj1 Hv); exact H1.
      + apply andb_true_iff in H1. destruct H1; split; [apply (proj1 Hk)|apply (proj1 Hv)]; assumption.
      + exact H1.
      + apply (proj1 Hk); exact H1.
    - apply (proj1 IHe); exact Hn.
    - apply andb_true_iff in Hn. destruct Hn as [Hn H3]. apply andb_true_iff in Hn. destruct Hn as [H1 H2].
      split; [apply (proj1 IHe1); exact H1|split; [apply (proj1 IHe2); exact H2|apply (proj1 IHe3); exact H3]].
    - match goal with HF : Forall _ stmts, HR : _ /\ _ |- _ => rename HF into HFs; rename HR into HRet end.
      destruct ret as [ld rt tr]. cbn [cnode] in HRet. apply andb_true_iff in Hn. destruct Hn as [Hs Hr]. split.
      + clear Hr HRet. induction HFs as [|[l1 s t1] l Hs1 _ IHl]; [exact I|].
        cbn [cnode] in Hs1. apply andb_true_iff in Hs. destruct Hs as [Ha Hb]. split; [|apply IHl; exact Hb].
        apply (proj2 Hs1). exact Ha.
      + apply (proj1 HRet). exact Hr.
    - (* EAssign as a statement *) apply (proj1 IHe); exact Hn.
    - apply andb_true_iff in Hn. destruct Hn as [H1 H2]. split; [apply (proj1 IHe); exact H1|].
      match goal with HF : Forall _ args |- _ => induction HF as [|a l Ha _ IHl] end; [exact I|].
      apply andb_true_iff in H2. destruct H2 as [H2a H2b]; split; [apply (proj1 Ha); assumption|apply IHl; exact H2b].
    - apply andb_true_iff in Hn. destruct Hn; split; [apply (proj1 IHe1)|apply (proj1 IHe2)]; assumption.
    - apply (proj1 IHe); exact Hn.
    - apply andb_true_iff in Hn. destruct Hn as [Hn H3]. apply andb_true_iff in Hn. destruct Hn as [H1 H2].
      split; [apply (proj1 IHe1)|apply (proj1 IHe2)]; assumption.
    - apply (proj1 IHe); exact Hn.
    - apply (proj1 IHe); exact Hn.
    - apply (proj1 IHe); exact Hn.
  Qed.
  Lemma hob_fv_idok e b x : hob e = true -> In x (free_vars e b) -> idok x = true.
  Proof. intros H. apply (fv_ids_ok idokP). exact (proj1 (hob_ids_ok_gen e) H). Qed.
End Ids.

Lemma idok_spec x : idok x = true -> is_builtin_name x = false /\ x <> "inputs".
Proof.
  unfold idok. intros H. apply andb_prop in H as [A B]. apply negb_true_iff in A, B.
  split; [exact A|]. now apply String.eqb_neq.
Qed.

(* ---------------------------------------------------------------- the simulation over expressions *)
Section Sim.
  Variable opok : binop -> bool.
  Variable biok : builtin -> bool.
  Variable nanfix : bool.
  Notation lit := (value_to_ast nanfix true).
  Notation vrel := (vrel opok biok nanfix).
  Notation lrel := (lrel opok biok nanfix).
  Notation rrel := (rrel opok biok nanfix).
  Notation orel := (orel opok biok nanfix).
  Notation hob := (hob opok biok).
  Notation emit_ok := (emit_ok opok biok).
  Notation mlit := (mlit opok biok nanfix).
  Notation cb_rel := (cb_rel opok biok nanfix).

  Variable release : bool.
  Variable binop_impl : callback -> binop -> value -> value -> store -> outcome value * store.
  Variable apply : frames -> callback.
  Notation evalE := (evalE release binop_impl apply).

  Hypothesis Hbin_rel : forall cb cb' op l l' r r' st st', opok op = true -> cb_rel cb cb' ->
    vrel l l' -> vrel r r' ->
    orel (fst (binop_impl cb op l r st)) (fst (binop_impl cb' op l' r' st')).
  Hypothesis Happ_rel : forall fr fr', cb_rel (apply fr) (apply fr').

  (* ---- literals: the literal of an emittable value evaluates to a related value ---- *)
  Lemma emit_ok_not_spread l l' : lrel l l' -> forallb emit_ok l = true -> no_spread l' = true.
  Proof.
    induction 1 as [|x x' l l' V _ IH]; cbn; [reflexivity|]. intros H. apply andb_prop in H as [A B].
    destruct V; cbn in A; try discriminate; auto.
  Qed.
  Lemma names_ok_get ps (sc : list (string * value)) x v :
    scope_names_ok ps (map fst sc) = true -> rec_get sc x = Some v ->
    special_name x = false /\ x <> "inputs" /\ mem x ps = false.
  Proof.
    unfold scope_names_ok. intros H E. apply rec_get_In in E. rewrite forallb_forall in H.
    specialize (H x (in_map fst _ _ E)). apply andb_prop in H as [H C]. apply andb_prop in H as [A B].
    apply negb_true_iff in A, B, C. repeat split; auto. now apply String.eqb_neq.
  Qed.

  Lemma lit_rel : forall v, emit_ok v = true -> forall c, exists v' st1,
    evalE c (lit v) = (Ok v', (st1, snd c)) /\ vrel v v'.
  Proof.
    induction v using value_ind'; intros Hok [st fr]; cbn [snd].
    - cbn [value_to_ast]. cbn in Hok. apply negb_true_iff in Hok.
      rewrite (num_roundtrip release binop_impl apply nanfix x (st, fr) Hok).
      exists (VNum x), st. split; [reflexivity|constructor].
    - exists (VBool b), st. split; [reflexivity|constructor].
    - exists VNull, st. split; [reflexivity|constructor].
    - cbn [value_to_ast]. unfold str_to_ast. cbn in Hok. apply negb_true_iff in Hok. rewrite Hok.
      exists (VStr s), st. split; [reflexivity|constructor].
    - rewrite value_to_ast_list. cbn [Eval.evalE]. cbn [EmitHO.emit_ok] in Hok.
      assert (HL : forall st0, exists vs st1,
                 evalCL evalE (st0, fr) (map (fun x => Cm [] (lit x) None) l) = (Ok vs, (st1, fr)) /\ lrel l vs).
      { clear - H Hok. revert Hok. induction H as [|x l Hx Hl IH]; cbn; intros Hok st0.
        - exists [], st0. split; [reflexivity|constructor].
        - apply andb_prop in Hok as [F1 F2]. destruct (Hx F1 (st0, fr)) as (x' & s1 & E & V). cbn [snd] in E.
          rewrite E. destruct (IH F2 s1) as (vs & s2 & E2 & V2). rewrite E2.
          exists (x' :: vs), s2. split; [reflexivity|constructor; assumption]. }
      destruct (HL st) as (vs & s1 & E & V). rewrite E. cbn.
      rewrite flatten_no_spread by (eapply emit_ok_not_spread; eauto).
      exists (VList vs), s1. split; [reflexivity|constructor; exact V].
    - rewrite value_to_ast_rec. cbn [Eval.evalE]. cbn [EmitHO.emit_ok] in Hok. apply andb_prop in Hok as [Hnd Hok].
      assert (HG : forall st0 acc, (forall k, In k (map fst r) -> rec_get acc k = None) ->
                exists r' st1,
                evalRecL evalE (st0, fr) acc
                  (map (fun kv => Cm [] (REntry (key_to_rkey (fst kv)) (lit (snd kv))) None) r)
                = (Ok (VRec (acc ++ r')), (st1, fr)) /\ rrel r r').
      { clear - H Hnd Hok. revert Hnd Hok.
        induction H as [|[k x] r Hx Hr IH]; intros Hnd Hok st0 acc Hacc.
        - cbn. exists [], st0. rewrite app_nil_r. split; [reflexivity|constructor].
        - cbn in Hnd, Hok, Hx. cbn [map fst snd].
          destruct (rec_get r k) eqn:Ek; [discriminate|].
          apply andb_prop in Hok as [F1 F2]. apply andb_prop in F1 as [Bk F1]. apply negb_true_iff in Bk.
          replace (key_to_rkey k) with (KStatic k) by (unfold key_to_rkey; now rewrite Bk). cbn [evalRecL].
          destruct (Hx F1 (st0, fr)) as (x' & s1 & E & V). cbn [snd] in E. rewrite E.
          rewrite rec_insert_fresh by (apply Hacc; now left).
          destruct (IH Hnd F2 s1 (acc ++ [(k, x')])) as (r' & s2 & E2 & V2).
          + intros k' Hk'. rewrite rec_get_app_none by (apply Hacc; now right).
            cbn. destruct (String.eqb_spec k' k) as [->|]; [|reflexivity].
            exfalso. apply rec_get_None_notin in Ek. contradiction.
          + rewrite E2. exists ((k, x') :: r'), s2. rewrite <- app_assoc. split; [reflexivity|].
            constructor; [split; [reflexivity|exact V]|exact V2]. }
      destruct (HG st []) as (r' & s1 & E & V); [reflexivity|]. rewrite E.
      exists (VRec r'), s1. split; [reflexivity|constructor; exact V].
    - (* a captured closure: its literal is the lambda with its own scope inlined; evaluating it
         captures nothing (the inlined body is closed) *)
      pose proof (lit_closed_ok opok biok nanfix _ Hok []) as [Hcl _].
      rewrite value_to_ast_lam in *. cbn [free_vars] in Hcl. rewrite app_nil_r in Hcl.
      cbn [Eval.evalE]. rewrite Hcl. cbn [capture fresh_lambda fst snd].
      eexists _, _. split; [reflexivity|].
      cbn [EmitHO.emit_ok] in Hok. apply andb_prop in Hok as [Hok Hsc]. apply andb_prop in Hok as [Hok Hnm].
      apply andb_prop in Hok as [Hb Hfv].
      assert (Hget : forall x v, rec_get sc x = Some v -> emit_ok v = true).
      { intros x v E. apply rec_get_In in E. rewrite forallb_forall in Hsc. exact (Hsc _ E). }
      constructor.
      + exact Hb.
      + destruct (free_vars b (map arg_name a ++ map fst sc)); [reflexivity|discriminate].
      + intros x Hx. rewrite scope_map_get. destruct (rec_get sc x) eqn:E; [|reflexivity].
        destruct (names_ok_get _ _ _ _ Hnm E) as (A & _). congruence.
      + intros x Hx. rewrite scope_map_get. destruct (rec_get sc x) eqn:E; [|reflexivity].
        destruct (names_ok_get _ _ _ _ Hnm E) as (_ & _ & A). rewrite (mem_In_true _ _ Hx) in A. discriminate.
      + destruct (rec_get sc "inputs") eqn:E; [|reflexivity].
        destruct (names_ok_get _ _ _ _ Hnm E) as (_ & A & _). congruence.
      + intros x v e E. rewrite scope_map_get, E. cbn. intros X; inversion X. split; [reflexivity|eauto].
      + intros x e. rewrite scope_map_get. destruct (rec_get sc x) eqn:E; cbn; [|discriminate].
        intros X; inversion X. exists v. split; eauto.
      + intros x v E. rewrite scope_map_get, E. discriminate.
    - cbn in Hok. exists (VBuiltin b), st. split; [reflexivity|constructor; exact Hok].
    - discriminate.
  Qed.

  (* ---- the invariant relating the two environments and the inlining scope ---- *)
  Definition Inv (bound : list string) (F1 F2 : frames) (m : smap) : Prop :=
    (forall x, special_name x = true -> rec_get m x = None) /\
    mlit m /\
    (forall x, mem x bound = true ->
       exists v, lookup F1 x = Some v /\
         match rec_get m x with
         | Some a => a = lit v /\ emit_ok v = true
         | None => exists v', lookup F2 x = Some v' /\ vrel v v'
         end).

  Definition Sim (F1 F2 : frames) (e : expr) (m : smap) : Prop :=
    forall st st', exists r st1 r' st1',
      evalE (st, F1) e = (r, (st1, F1)) /\
      evalE (st', F2) (subst true m e) = (r', (st1', F2)) /\ orel r r'.
  Definition Q (e : expr) : Prop :=
    hob e = true -> forall F1 F2 m bound,
      Inv bound F1 F2 m -> free_vars e bound = [] -> Sim F1 F2 e m.
  Definition P (e : expr) : Prop := Q e /\ (forall x v, e = EAssign x v -> Q v).

  Ltac fin := do 4 eexists; split; [reflexivity|split; [reflexivity|]].
  Ltac failc := try (cbn [cast_fail]; fin; exact I).
  Ltac same r r' Hr := destruct r as [?v| | | |], r' as [?v'| | | |]; cbn in Hr; try contradiction.

  (* an identifier (also a shorthand key): the original finds v, the inlined text evaluates to a related v' *)
  Lemma ident_sim F1 F2 m bound x : Inv bound F1 F2 m -> mem x bound = true ->
    exists v, lookup F1 x = Some v /\
      match rec_get m x with
      | Some a => a = lit v /\ emit_ok v = true
      | None => exists v', lookup F2 x = Some v' /\ vrel v v'
      end.
  Proof. intros (_ & _ & H) Hm. exact (H x Hm). Qed.

  Lemma constants_rel : vrel (VRec constants_record) (VRec constants_record).
  Proof. constructor. repeat (constructor; [split; [reflexivity|constructor]|]). constructor. Qed.

  Lemma Q_id x : Q (EId x).
  Proof.
    intros Hf F1 F2 m bound HE HFV st st'. cbn [free_vars] in HFV. cbn [subst].
    destruct (special_name x) eqn:Hsp.
    - assert (Hm : rec_get m x = None) by (destruct HE as (Hs & _); exact (Hs x Hsp)).
      rewrite Hm. cbn [Eval.evalE]. unfold special_name in Hsp.
      destruct (String.eqb x "infinity" || String.eqb x "inf")%bool eqn:E1.
      + fin. constructor.
      + try rewrite E1 in Hsp. cbn [orb] in Hsp. rewrite Hsp. fin. apply constants_rel.
    - assert (Hmem : mem x bound = true).
      { unfold special_name in Hsp. destruct (mem x bound); [reflexivity|].
        cbn [orb] in HFV. rewrite Hsp in HFV. discriminate. }
      destruct (ident_sim F1 F2 m bound x HE Hmem) as (v & E1 & Hm).
      unfold special_name in Hsp. apply orb_false_elim in Hsp as [Hsp E3].
      destruct (rec_get m x) eqn:Em.
      + destruct Hm as [-> Hem]. cbn [Eval.evalE snd fst]. rewrite Hsp, E3, E1.
        destruct (lit_rel v Hem (st', F2)) as (v' & s1 & E & V). rewrite E. cbn. fin. exact V.
      + destruct Hm as (v' & E2 & V). cbn [Eval.evalE snd fst]. rewrite Hsp, E3, E1, E2. cbn. fin. exact V.
  Qed.

  (* ---- lists of sub-expressions ---- *)
  Lemma evalCL_sim items : Forall (fun c => Q (cnode c)) items ->
    Forall (fun c => hob (cnode c) = true) items ->
    forall F1 F2 m bound, Inv bound F1 F2 m ->
    Forall (fun c => free_vars (cnode c) bound = []) items ->
    forall st st', exists r st1 r' st1',
      evalCL evalE (st, F1) items = (r, (st1, F1)) /\
      evalCL evalE (st', F2) (subst_items m items) = (r', (st1', F2)) /\
      orel_gen lrel r r'.
  Proof.
    intros HQ. induction HQ as [|[a n t] l Hn Hl IH]; intros Hf F1 F2 m bound HE HV st st'.
    - cbn. fin. constructor.
    - pose proof (Forall_inv Hf) as Hf1. pose proof (Forall_inv_tail Hf) as Hf2.
      pose proof (Forall_inv HV) as HV1. pose proof (Forall_inv_tail HV) as HV2.
      cbn [cnode] in Hn, Hf1, HV1. cbn [evalCL subst_items].
      destruct (Hn Hf1 F1 F2 m bound HE HV1 st st') as (r & s1 & r' & s1' & E1 & E2 & Hr). rewrite E1, E2.
      same r r' Hr; failc.
      destruct (IH Hf2 F1 F2 m bound HE HV2 s1 s1') as (r2 & s2 & r2' & s2' & E3 & E4 & Hr2). rewrite E3, E4.
      same r2 r2' Hr2; try (fin; exact I).
      fin. constructor; assumption.
  Qed.

  Lemma evalL_sim args : Forall Q args ->
    Forall (fun a => hob a = true) args ->
    forall F1 F2 m bound, Inv bound F1 F2 m ->
    Forall (fun a => free_vars a bound = []) args ->
    forall st st', exists r st1 r' st1',
      evalL evalE (st, F1) args = (r, (st1, F1)) /\
      evalL evalE (st', F2) (subst_args m args) = (r', (st1', F2)) /\
      orel_gen lrel r r'.
  Proof.
    intros HQ. induction HQ as [|n l Hn Hl IH]; intros Hf F1 F2 m bound HE HV st st'.
    - cbn. fin. constructor.
    - pose proof (Forall_inv Hf) as Hf1. pose proof (Forall_inv_tail Hf) as Hf2.
      pose proof (Forall_inv HV) as HV1. pose proof (Forall_inv_tail HV) as HV2.
      cbn [evalL subst_args].
      destruct (Hn Hf1 F1 F2 m bound HE HV1 st st') as (r & s1 & r' & s1' & E1 & E2 & Hr). rewrite E1, E2.
      same r r' Hr; failc.
      destruct (IH Hf2 F1 F2 m bound HE HV2 s1 s1') as (r2 & s2 & r2' & s2' & E3 & E4 & Hr2). rewrite E3, E4.
      same r2 r2' Hr2; try (fin; exact I).
      fin. constructor; assumption.
  Qed.

  Definition Qentry (c : commented rentry) : Prop :=
    match cnode c with
    | REntry k v => (match k with KDyn e | KSpread e => Q e | _ => True end) /\ Q v
    end.

  Lemma evalRec_sim es : Forall Qentry es ->
    Forall (fun c => match cnode c with REntry k v => hob_entry opok biok k v = true end) es ->
    forall F1 F2 m bound, Inv bound F1 F2 m ->
    Forall (fun c => match cnode c with REntry k v => fv_entry bound k v = [] end) es ->
    forall acc acc' st st', rrel acc acc' ->
    exists r st1 r' st1',
      evalRecL evalE (st, F1) acc es = (r, (st1, F1)) /\
      evalRecL evalE (st', F2) acc' (subst_entries m es) = (r', (st1', F2)) /\
      orel r r'.
  Proof.
    intros HQ. induction HQ as [|[a [k v] t] l Hn Hl IH]; intros Hf F1 F2 m bound HE HV acc acc' st st' Hacc.
    - cbn. fin. constructor. exact Hacc.
    - pose proof (Forall_inv Hf) as Hf1. pose proof (Forall_inv_tail Hf) as Hf2.
      pose proof (Forall_inv HV) as HV1. pose proof (Forall_inv_tail HV) as HV2.
      unfold Qentry in Hn. cbn [cnode] in Hn, Hf1, HV1. destruct Hn as [Hk Hv].
      cbn [evalRecL subst_entries]. destruct k as [key|ke|x|se]; cbn [subst_entry hob_entry fv_entry] in *.
      + destruct (Hv Hf1 F1 F2 m bound HE HV1 st st') as (r & s1 & r' & s1' & E1 & E2 & Hr). rewrite E1, E2.
        same r r' Hr; try (fin; exact I).
        apply (IH Hf2 F1 F2 m bound HE HV2). apply rrel_insert; auto.
      + apply andb_prop in Hf1 as [Fa Fb]. apply app_eq_nil in HV1 as [Va Vb].
        destruct (Hk Fa F1 F2 m bound HE Va st st') as (r & s1 & r' & s1' & E1 & E2 & Hr). rewrite E1, E2.
        same r r' Hr; try (fin; exact I).
        rewrite <- (vrel_as_string _ _ _ _ _ Hr).
        destruct (as_string v0) as [key| | | |]; failc.
        destruct (Hv Fb F1 F2 m bound HE Vb s1 s1') as (r2 & s2 & r2' & s2' & E3 & E4 & Hr2). rewrite E3, E4.
        same r2 r2' Hr2; try (fin; exact I).
        apply (IH Hf2 F1 F2 m bound HE HV2). apply rrel_insert; auto.
      + assert (Hmem : mem x bound = true) by (destruct (mem x bound); [reflexivity|discriminate]).
        destruct (ident_sim F1 F2 m bound x HE Hmem) as (w & E1 & Hm).
        cbn [snd]. rewrite E1. destruct (rec_get m x) eqn:Em.
        * destruct Hm as [-> Hem]. cbn [evalRecL].
          destruct (lit_rel w Hem (st', F2)) as (w' & s1 & E & V). rewrite E. cbn [snd].
          apply (IH Hf2 F1 F2 m bound HE HV2). apply rrel_insert; auto.
        * destruct Hm as (w' & E2 & V). cbn [evalRecL snd]. rewrite E2.
          apply (IH Hf2 F1 F2 m bound HE HV2). apply rrel_insert; auto.
      + destruct (Hk Hf1 F1 F2 m bound HE HV1 st st') as (r & s1 & r' & s1' & E1 & E2 & Hr). rewrite E1, E2.
        same r r' Hr; try (fin; exact I).
        apply (IH Hf2 F1 F2 m bound HE HV2). apply rrel_insert_all; auto.
        apply vrel_record_spread_entries. exact Hr.
  Qed.

  (* ---- do-blocks ---- *)
  Notation do_body := (EmitSound.do_body release binop_impl apply).

  Lemma na_do_step' (ev : cfg -> expr -> result) c s : na s = true -> do_step ev c s = ev c s.
  Proof. destruct s; try reflexivity; discriminate. Qed.
  Lemma na_step_map' m s : na s = true -> do_step_map true m s = m.
  Proof. destruct s; try reflexivity; discriminate. Qed.
  Lemma na_fv_do' ret a s t l b : na s = true ->
    fv_do ret (Cm a s t :: l) b = free_vars s b ++ fv_do ret l b.
  Proof. destruct s; try reflexivity; discriminate. Qed.
  Lemma assign_or_na s : (exists x v, s = EAssign x v) \/ na s = true.
  Proof. destruct s; try (right; reflexivity). left; eauto. Qed.

  Lemma Inv_bind bound f1 f2 G1 G2 m x v v' : vrel v v' ->
    Inv bound ((FOwned, f1) :: G1) ((FOwned, f2) :: G2) m ->
    Inv (x :: bound) ((FOwned, (x, v) :: f1) :: G1) ((FOwned, (x, v') :: f2) :: G2) (smap_remove m x).
  Proof.
    intros Hv (Hs & Hm & HI). repeat split.
    - intros y Hy. rewrite rec_get_remove. destruct (String.eqb y x); auto.
    - apply mlit_remove. exact Hm.
    - intros y Hy. rewrite rec_get_remove. cbn [lookup lookup_frame].
      destruct (String.eqb y x) eqn:E.
      + exists v. split; [reflexivity|]. exists v'. split; [reflexivity|exact Hv].
      + cbn [mem existsb] in Hy. rewrite E in Hy. exact (HI y Hy).
  Qed.
  Lemma Inv_push bound F1 F2 m : Inv bound F1 F2 m ->
    Inv bound ((FOwned, []) :: F1) ((FOwned, []) :: F2) m.
  Proof. intros (Hs & Hm & HI). repeat split; auto. Qed.

  Lemma do_sim stmts : Forall (fun c => P (cnode c)) stmts ->
    forall ret, Q ret -> hob ret = true -> hob_stmts opok biok stmts = true ->
    forall f1 f2 G1 G2 m bound, Inv bound ((FOwned, f1) :: G1) ((FOwned, f2) :: G2) m ->
      fv_do ret stmts bound = [] ->
      forall st st', exists r st1 g1 r' st1' g2,
        do_body (st, (FOwned, f1) :: G1) stmts ret = (r, (st1, (FOwned, g1) :: G1)) /\
        do_body (st', (FOwned, f2) :: G2) (subst_stmts stmts m)
                (subst true (do_final_map true m stmts) ret) = (r', (st1', (FOwned, g2) :: G2)) /\
        orel r r'.
  Proof.
    intros HP. induction HP as [|[a s t] l Hs Hl IH]; intros ret HQr Hfr Hfs f1 f2 G1 G2 m bound HE HV st st'.
    - cbn [fv_do] in HV. unfold EmitSound.do_body. cbn [evalDoL subst_stmts do_final_map].
      rewrite na_do_step' by (now apply hob_na with (opok := opok) (biok := biok)).
      rewrite na_do_step' by (apply subst_na; [apply (mlit_closed opok biok nanfix); apply HE|now apply hob_na with (opok := opok) (biok := biok)]).
      destruct (HQr Hfr _ _ m bound HE HV st st') as (r & s1 & r' & s1' & E1 & E2 & Hr).
      exists r, s1, f1, r', s1', f2. split; [exact E1|split; [exact E2|exact Hr]].
    - cbn [cnode] in Hs. destruct Hs as [HQs HAs].
      destruct (assign_or_na s) as [(x & v & ->)|Hna].
      + cbn [hob_stmts] in Hfs. apply andb_prop in Hfs as [Hf1 Hf2].
        cbn [fv_do] in HV. apply app_eq_nil in HV as [HV1 HV2].
        unfold EmitSound.do_body. cbn [evalDoL subst_stmts do_final_map do_step_map subst do_step].
        destruct (mem x do_assign_keywords).
        { cbn [cast_fail]. exists Err, st, f1, Err, st', f2. repeat split. }
        unfold assign_value.
        destruct (HAs x v eq_refl Hf1 _ _ m bound HE HV1 st st') as (r & s1 & r' & s1' & E1 & E2 & Hr).
        change (@pair store (list (prod fkind frame))) with (@pair store frames).
        rewrite E1, E2.
        same r r' Hr; try solve [cbn [cast_fail]; eexists _, s1, f1, _, s1', f2; repeat split].
        unfold bind_value. cbn [snd fst insert_head].
        destruct (IH ret HQr Hfr Hf2 ((x, v0) :: f1) ((x, v') :: f2) G1 G2 (smap_remove m x) (x :: bound)
                     (Inv_bind bound f1 f2 G1 G2 m x v0 v' Hr HE) HV2
                     (name_if_created (Datatypes.length st) s1 v0 x) (name_if_created (Datatypes.length st') s1' v' x))
          as (r & s2 & g1 & r2' & s2' & g2 & E3 & E4 & Hr2).
        unfold EmitSound.do_body in E3, E4. do 6 eexists. split; [exact E3|split; [exact E4|exact Hr2]].
      + rewrite (hob_stmts_na opok biok a s t l Hna) in Hfs. apply andb_prop in Hfs as [Hf1 Hf2].
        rewrite (na_fv_do' ret a s t l bound Hna) in HV. apply app_eq_nil in HV as [HV1 HV2].
        unfold EmitSound.do_body. cbn [evalDoL subst_stmts do_final_map]. rewrite (na_step_map' m s Hna).
        rewrite na_do_step' by exact Hna.
        rewrite na_do_step' by (apply subst_na; [apply (mlit_closed opok biok nanfix); apply HE|exact Hna]).
        destruct (HQs Hf1 _ _ m bound HE HV1 st st') as (r & s1 & r' & s1' & E1 & E2 & Hr).
        change (@pair store (list (prod fkind frame))) with (@pair store frames).
        rewrite E1, E2.
        same r r' Hr; try solve [cbn [cast_fail]; eexists _, s1, f1, _, s1', f2; repeat split].
        destruct (IH ret HQr Hfr Hf2 f1 f2 G1 G2 m bound HE HV2 s1 s1') as (r & s2 & g1 & r2' & s2' & g2 & E3 & E4 & Hr2).
        unfold EmitSound.do_body in E3, E4. do 6 eexists. split; [exact E3|split; [exact E4|exact Hr2]].
  Qed.

  (* ---- creating a closure: related closures ---- *)
  Lemma lam_sim args body : hob body = true ->
    forall F1 F2 m bound, Inv bound F1 F2 m -> free_vars (ELam args body) bound = [] ->
    forall id id',
    vrel (VLam id args body (capture F1 (free_vars body (map arg_name args)) []))
         (VLam id' args (subst true (smap_remove_all m (map arg_name args)) body)
               (capture F2 (free_vars (subst true (smap_remove_all m (map arg_name args)) body) (map arg_name args)) [])).
  Proof.
    intros Hb F1 F2 m bound HE HV id id'. cbn [free_vars] in HV.
    set (m' := smap_remove_all m (map arg_name args)).
    destruct HE as (Hs & Hm & HI).
    assert (Hm' : mlit m') by (apply mlit_remove_all; exact Hm).
    (* every free name of the body outside the parameters is a tracked name *)
    assert (Hvars : forall z, In z (free_vars body (map arg_name args)) -> mem z bound = true /\ ~ In z (map arg_name args) /\ is_builtin_name z = false /\ z <> "inputs").
    { intros z Hz. pose proof (fv_not_bound _ _ _ Hz) as Hnp.
      destruct (fv_weaken body (map arg_name args) ((map arg_name args) ++ bound) z Hz) as [X|X]; [rewrite HV in X; destruct X|].
      apply in_app_or in X as [X|X]; [contradiction|].
      destruct (idok_spec z (hob_fv_idok opok biok body (map arg_name args) z Hb Hz)) as [A B].
      repeat split; auto. apply mem_In_true. exact X. }
    constructor.
    - exact Hb.
    - destruct (free_vars body ((map arg_name args) ++ map fst (capture F1 (free_vars body (map arg_name args)) []))) as [|z l] eqn:E; [reflexivity|].
      exfalso. assert (Hz : In z (free_vars body ((map arg_name args) ++ map fst (capture F1 (free_vars body (map arg_name args)) [])))) by (rewrite E; now left).
      pose proof (fv_not_bound _ _ _ Hz) as Hnb.
      destruct (fv_weaken body _ (map arg_name args) z Hz) as [X|X]; [|apply Hnb; apply in_or_app; now left].
      destruct (Hvars z X) as (A & B & C & D). destruct (HI z A) as (v & El & _).
      apply Hnb. apply in_or_app. right.
      pose proof (capture_get_in F1 (free_vars body (map arg_name args)) [] z v X C El) as G.
      apply rec_get_In in G. exact (in_map fst _ _ G).
    - intros x Hx. apply remove_all_get_none. exact (Hs x Hx).
    - intros x Hx. apply remove_all_get_in. exact Hx.
    - destruct (rec_get (capture F1 (free_vars body (map arg_name args)) []) "inputs") eqn:E; [|reflexivity].
      destruct (capture_get_some _ _ _ _ _ E) as [(A & _)|A]; [|discriminate].
      destruct (Hvars _ A) as (_ & _ & _ & D). congruence.
    - intros x v e E Em. destruct (capture_get_some _ _ _ _ _ E) as [(A & B & C)|A]; [|discriminate].
      destruct (Hvars _ A) as (Hb1 & Hnp & _ & _).
      unfold m' in Em. rewrite remove_all_get_notin in Em by exact Hnp.
      destruct (HI x Hb1) as (w & El & Hw). rewrite Em in Hw. rewrite B in El. inversion El; subst w. exact Hw.
    - exact Hm'.
    - intros x v E Em Hnp. destruct (capture_get_some _ _ _ _ _ E) as [(A & B & C)|A]; [|discriminate].
      destruct (Hvars _ A) as (Hb1 & _ & _ & _).
      assert (Em0 : rec_get m x = None) by (unfold m' in Em; rewrite remove_all_get_notin in Em by exact Hnp; exact Em).
      destruct (HI x Hb1) as (w & El & Hw). rewrite Em0 in Hw. rewrite B in El. inversion El; subst w.
      destruct Hw as (v' & E2 & V). exists v'. split; [|exact V].
      apply capture_get_in; [|exact C|exact E2].
      apply subst_fv_conv; [apply (mlit_closed opok biok nanfix); exact Hm'|exact A|exact Em].
  Qed.

  Lemma evalE_EDo' c stmts a ret t :
    evalE c (EDo stmts (Cm a ret t)) =
    (fst (do_body (fst c, (FOwned, []) :: snd c) stmts ret),
     (fst (snd (do_body (fst c, (FOwned, []) :: snd c) stmts ret)), snd c)).
  Proof. reflexivity. Qed.

  Theorem sim_all : forall e, P e.
  Proof.
    induction e using expr_ind'; (split; [|intros x0 v0 Heq; try discriminate]).
    - intros _ F1 F2 m bound _ _ st st'. cbn. fin. constructor.
    - intros _ F1 F2 m bound _ _ st st'. cbn. fin. constructor.
    - intros _ F1 F2 m bound _ _ st st'. cbn. fin. constructor.
    - intros _ F1 F2 m bound _ _ st st'. cbn. fin. constructor.
    - apply Q_id.
    - intros Hf; discriminate.
    - intros Hf F1 F2 m bound _ _ st st'. cbn in *. fin. constructor. exact Hf.
    - (* list *)
      intros Hf F1 F2 m bound HE HV st st'. rewrite subst_EList. cbn [Eval.evalE].
      assert (HQ : Forall (fun c => Q (cnode c)) items).
      { eapply Forall_impl; [|exact H]. intros c Hc. exact (proj1 Hc). }
      destruct (evalCL_sim items HQ (hob_EList opok biok items Hf) F1 F2 m bound HE (fv_EList items bound HV) st st')
        as (r & s1 & r' & s1' & E1 & E2 & Hr).
      rewrite E1, E2. cbn [fst snd]. fin.
      same r r' Hr; cbn; try exact I. constructor. apply lrel_flatten. exact Hr.
    - (* record *)
      intros Hf F1 F2 m bound HE HV st st'. rewrite subst_ERec. cbn [Eval.evalE].
      assert (HQ : Forall Qentry entries).
      { eapply Forall_impl; [|exact H]. intros [a [k v] t] Hc. unfold Qentry. cbn in *.
        destruct Hc as [Hk Hv]. split; [|exact (proj1 Hv)]. destruct k; auto; exact (proj1 Hk). }
      apply (evalRec_sim entries HQ (hob_ERec opok biok entries Hf) F1 F2 m bound HE (fv_ERec entries bound HV)).
      constructor.
    - (* lambda: related closures *)
      intros Hf F1 F2 m bound HE HV st st'. cbn [subst Eval.evalE fresh_lambda fst snd]. fin.
      cbn [EmitHO.hob] in Hf. apply (lam_sim args e Hf F1 F2 m bound HE HV).
    - (* conditional *)
      intros Hf F1 F2 m bound HE HV st st'. cbn [EmitHO.hob] in Hf. cbn [free_vars] in HV.
      apply andb_prop in Hf as [Hf Hf3]. apply andb_prop in Hf as [Hf1 Hf2].
      apply app_eq_nil in HV as [HV1 HV]. apply app_eq_nil in HV as [HV2 HV3].
      cbn [subst Eval.evalE].
      destruct (proj1 IHe1 Hf1 F1 F2 m bound HE HV1 st st') as (r & s1 & r' & s1' & E1 & E2 & Hr). rewrite E1, E2.
      same r r' Hr; try (fin; exact I).
      rewrite <- (vrel_as_bool _ _ _ _ _ Hr).
      destruct (as_bool v) as [[|]| | | |]; failc.
      + apply (proj1 IHe2 Hf2 F1 F2 m bound HE HV2).
      + apply (proj1 IHe3 Hf3 F1 F2 m bound HE HV3).
    - (* do-block *)
      intros Hf F1 F2 m bound HE HV st st'. destruct ret as [rl ret rt]. cbn [cnode] in IHe.
      rewrite hob_EDo in Hf. apply andb_prop in Hf as [Hfs Hfr]. rewrite fv_EDo in HV.
      rewrite subst_EDo. rewrite !evalE_EDo'. cbn [fst snd].
      destruct (do_sim stmts H ret (proj1 IHe) Hfr Hfs [] [] F1 F2 m bound (Inv_push bound F1 F2 m HE) HV st st')
        as (r & s1 & g1 & r' & s1' & g2 & E1 & E2 & Hr).
      exists r, s1, r', s1'. split; [exact (pair_proj _ _ _ _ _ E1)|split; [exact (pair_proj _ _ _ _ _ E2)|exact Hr]].
    - intros Hf; discriminate.
    - inversion Heq; subst. exact (proj1 IHe).
    - intros Hf; discriminate.
    - (* call *)
      intros Hf F1 F2 m bound HE HV st st'. rewrite subst_ECall. cbn [Eval.evalE].
      destruct (hob_args opok biok _ _ Hf) as [Hff Hfa]. destruct (fv_args _ _ _ HV) as [HVf HVa].
      destruct (proj1 IHe Hff F1 F2 m bound HE HVf st st') as (r & s1 & r' & s1' & E1 & E2 & Hr). rewrite E1, E2.
      same r r' Hr; try (fin; exact I).
      assert (HQ : Forall Q args) by (eapply Forall_impl; [|exact H]; intros c Hc; exact (proj1 Hc)).
      destruct (evalL_sim args HQ Hfa F1 F2 m bound HE HVa s1 s1') as (r2 & s2 & r2' & s2' & E3 & E4 & Hr2).
      rewrite E3, E4. same r2 r2' Hr2; failc.
      rewrite <- (vrel_is_function _ _ _ _ _ Hr).
      destruct (negb (is_function v)); [fin; exact I|].
      pose proof (Happ_rel F1 F2 v v' v v' (flatten_spreads v0) (flatten_spreads v'0) s2 s2' Hr
                    (lrel_flatten _ _ _ _ _ Hr2)) as Hc.
      destruct (apply F1 v v (flatten_spreads v0) s2) as [res s3].
      destruct (apply F2 v' v' (flatten_spreads v'0) s2') as [res' s3'].
      fin. exact Hc.
    - (* index *)
      intros Hf F1 F2 m bound HE HV st st'. cbn [EmitHO.hob] in Hf. cbn [free_vars] in HV.
      apply andb_prop in Hf as [Hf1 Hf2]. apply app_eq_nil in HV as [HV1 HV2].
      cbn [subst Eval.evalE].
      destruct (proj1 IHe1 Hf1 F1 F2 m bound HE HV1 st st') as (r & s1 & r' & s1' & E1 & E2 & Hr). rewrite E1, E2.
      same r r' Hr; try (fin; exact I).
      destruct (proj1 IHe2 Hf2 F1 F2 m bound HE HV2 s1 s1') as (r2 & s2 & r2' & s2' & E3 & E4 & Hr2). rewrite E3, E4.
      same r2 r2' Hr2; try (fin; exact I).
      fin. apply vrel_access; assumption.
    - (* field *)
      intros Hf F1 F2 m bound HE HV st st'. cbn [EmitHO.hob] in Hf. cbn [free_vars] in HV.
      cbn [subst Eval.evalE].
      destruct (proj1 IHe Hf F1 F2 m bound HE HV st st') as (r & s1 & r' & s1' & E1 & E2 & Hr). rewrite E1, E2.
      same r r' Hr; try (fin; exact I).
      fin. apply vrel_dot; assumption.
    - (* binary operator *)
      intros Hf F1 F2 m bound HE HV st st'. cbn [EmitHO.hob] in Hf. cbn [free_vars] in HV.
      apply andb_prop in Hf as [Hf Hf2]. apply andb_prop in Hf as [Hop Hf1]. apply app_eq_nil in HV as [HV1 HV2].
      cbn [subst Eval.evalE].
      destruct (proj1 IHe1 Hf1 F1 F2 m bound HE HV1 st st') as (r & s1 & r' & s1' & E1 & E2 & Hr). rewrite E1, E2.
      same r r' Hr; try (fin; exact I).
      destruct (proj1 IHe2 Hf2 F1 F2 m bound HE HV2 s1 s1') as (r2 & s2 & r2' & s2' & E3 & E4 & Hr2). rewrite E3, E4.
      same r2 r2' Hr2; try (fin; exact I).
      pose proof (Hbin_rel (apply F1) (apply F2) op v v' v0 v'0 s2 s2' Hop (Happ_rel F1 F2) Hr Hr2) as Hc.
      destruct (binop_impl (apply F1) op v v0 s2) as [res s3].
      destruct (binop_impl (apply F2) op v' v'0 s2') as [res' s3'].
      fin. exact Hc.
    - (* unary operator *)
      intros Hf F1 F2 m bound HE HV st st'. cbn [EmitHO.hob] in Hf. cbn [free_vars] in HV.
      cbn [subst Eval.evalE].
      destruct (proj1 IHe Hf F1 F2 m bound HE HV st st') as (r & s1 & r' & s1' & E1 & E2 & Hr). rewrite E1, E2.
      same r r' Hr; try (fin; exact I).
      fin. destruct op; [rewrite <- (vrel_as_number _ _ _ _ _ Hr); destruct (as_number v)
                        |rewrite <- (vrel_as_bool _ _ _ _ _ Hr); destruct (as_bool v)
                        |rewrite <- (vrel_as_bool _ _ _ _ _ Hr); destruct (as_bool v)]; cbn; try exact I; constructor.
    - (* factorial *)
      intros Hf F1 F2 m bound HE HV st st'. cbn [EmitHO.hob] in Hf. cbn [free_vars] in HV.
      cbn [subst Eval.evalE].
      destruct (proj1 IHe Hf F1 F2 m bound HE HV st st') as (r & s1 & r' & s1' & E1 & E2 & Hr). rewrite E1, E2.
      same r r' Hr; try (fin; exact I).
      fin. rewrite <- (vrel_as_number _ _ _ _ _ Hr). destruct (as_number v); cbn; try exact I.
      unfold factorial_val. destruct (_ && _); cbn; [constructor|exact I].
    - (* spread *)
      intros Hf F1 F2 m bound HE HV st st'. cbn [EmitHO.hob] in Hf. cbn [free_vars] in HV.
      cbn [subst Eval.evalE].
      destruct (proj1 IHe Hf F1 F2 m bound HE HV st st') as (r & s1 & r' & s1' & E1 & E2 & Hr). rewrite E1, E2.
      same r r' Hr; try (fin; exact I).
      fin. apply vrel_spread_val; assumption.
  Qed.
End Sim.

(* ---------------------------------------------------------------- binding the parameters *)
Section Bind.
  Variable opok : binop -> bool.
  Variable biok : builtin -> bool.
  Variable nanfix : bool.
  Notation vrel := (vrel opok biok nanfix).
  Notation lrel := (lrel opok biok nanfix).

  Definition relP (a a' : frame) (x : string) : Prop :=
    exists v v', lookup_frame a x = Some v /\ lookup_frame a' x = Some v' /\ vrel v v'.

  Lemma bind_params_rel ps : forall idx args args' acc acc', lrel args args' ->
    match bind_params ps idx args acc, bind_params ps idx args' acc' with
    | Some fr, Some fr' => forall x, (In x (map arg_name ps) \/ relP acc acc' x) -> relP fr fr' x
    | None, None => True
    | _, _ => False
    end.
  Proof.
    induction ps as [|p ps IH]; intros idx args args' acc acc' Ha; cbn [bind_params].
    - intros x [[]|H]. exact H.
    - assert (Hgen : forall pv pv', vrel pv pv' ->
        match bind_params ps (S idx) args ((arg_name p, pv) :: acc),
              bind_params ps (S idx) args' ((arg_name p, pv') :: acc') with
        | Some fr, Some fr' => forall x, (In x (map arg_name (p :: ps)) \/ relP acc acc' x) -> relP fr fr' x
        | None, None => True
        | _, _ => False
        end).
      { intros pv pv' Hpv. specialize (IH (S idx) args args' ((arg_name p, pv) :: acc) ((arg_name p, pv') :: acc') Ha).
        destruct (bind_params ps (S idx) args _), (bind_params ps (S idx) args' _); try exact IH.
        intros x Hx. apply IH. cbn [map In] in Hx.
        destruct (String.eqb_spec x (arg_name p)) as [->|Hne].
        - destruct (in_dec string_dec (arg_name p) (map arg_name ps)) as [Hi|Hi]; [left; exact Hi|].
          right. exists pv, pv'. cbn [lookup_frame]. rewrite String.eqb_refl. auto.
        - destruct Hx as [[E|Hin]|(v & v' & A & B & C)]; [congruence|left; exact Hin|].
          right. exists v, v'. cbn [lookup_frame]. apply String.eqb_neq in Hne. rewrite Hne. auto. }
      pose proof (lrel_nth_error opok biok nanfix args args' idx Ha) as Hn.
      destruct p as [y|y|y]; cbn [arg_name] in *.
      + destruct (nth_error args idx), (nth_error args' idx); try contradiction; [|exact I].
        apply Hgen. exact Hn.
      + apply Hgen. destruct (nth_error args idx), (nth_error args' idx); try contradiction; [exact Hn|constructor].
      + apply Hgen. constructor. apply lrel_skipn. exact Ha.
  Qed.
End Bind.

(* ---------------------------------------------------------------- the evaluator at depth d *)
Section Top.
  Variable opok : binop -> bool.
  Variable biok : builtin -> bool.
  Variable nanfix : bool.
  Notation lit := (value_to_ast nanfix true).
  Notation vrel := (vrel opok biok nanfix).
  Notation lrel := (lrel opok biok nanfix).
  Notation orel := (orel opok biok nanfix).
  Notation hob := (hob opok biok).
  Notation emit_ok := (emit_ok opok biok).
  Notation cb_rel := (cb_rel opok biok nanfix).

  Variable release : bool.
  Variable binop_impl : callback -> binop -> value -> value -> store -> outcome value * store.
  Variable builtin_impl : callback -> builtin -> list value -> store -> outcome value * store.
  Notation AD := (AD release binop_impl builtin_impl).

  (* what is assumed of the operator / built-in implementations: related callbacks, related
     operands -> related outcomes (for the operators / built-ins that covered bodies may mention) *)
  Definition impl_rel_respecting : Prop :=
    (forall cb cb' op l l' r r' st st', opok op = true -> cb_rel cb cb' -> vrel l l' -> vrel r r' ->
       orel (fst (binop_impl cb op l r st)) (fst (binop_impl cb' op l' r' st'))) /\
    (forall cb cb' b args args' st st', biok b = true -> cb_rel cb cb' -> lrel args args' ->
       orel (fst (builtin_impl cb b args st)) (fst (builtin_impl cb' b args' st'))).
  Hypothesis Himpl : impl_rel_respecting.

  Definition ADrel (d : nat) : Prop := forall fr fr', cb_rel (AD d fr) (AD d fr').

  Lemma lookup_parent (sc : frame) (fr : frames) x :
    lookup (match sc with [] => fr | _ => (FShared, sc) :: fr end) x =
    match rec_get sc x with Some v => Some v | None => lookup fr x end.
  Proof. destruct sc as [|kv sc]; [reflexivity|]. cbn [lookup]. now rewrite lookup_frame_rec_get. Qed.
  Lemma in_fst_get (sc : frame) x : In x (map fst sc) -> exists v, rec_get sc x = Some v.
  Proof.
    intros H. destruct (rec_get sc x) eqn:E; [eauto|]. apply rec_get_None_notin in E. contradiction.
  Qed.
  Lemma acc_none (fr : frames) (st : store) id this (sc : frame) x :
    x <> "inputs" -> rec_get sc x <> None ->
    lookup_frame (match lookup_frame sc "inputs" with   (* F9 repaired *)
                  | Some _ => []
                  | None => match lookup fr "inputs" with Some i => [("inputs", i)] | None => [] end
                  end ++
                  match lam_name st id with
                  | Some n => match lookup_frame sc n with Some _ => [] | None => [(n, this)] end
                  | None => []
                  end) x = None.
  Proof.
    intros Hi Hs. apply String.eqb_neq in Hi.
    destruct (lookup_frame sc "inputs") as [?|] eqn:Esi; [|destruct (lookup fr "inputs")];
      destruct (lam_name st id) as [n|]; cbn; rewrite ?Hi; try reflexivity;
      (destruct (lookup_frame sc n) eqn:E; cbn; rewrite ?Hi; try reflexivity;
       destruct (String.eqb_spec x n) as [->|]; [|reflexivity];
       rewrite lookup_frame_rec_get in E; congruence).
  Qed.

  Lemma call_tail2 (X X' : result) r s (F : frames) r' s' (F' : frames) (R : outcome value -> outcome value -> Prop) :
    X = (r, (s, F)) -> X' = (r', (s', F')) -> R r r' ->
    R (fst (let '(r0, (st0, _)) := X in (r0, st0))) (fst (let '(r0, (st0, _)) := X' in (r0, st0))).
  Proof. intros -> -> H. exact H. Qed.

  Lemma AD_rel_two : forall d, ADrel d /\ ADrel (S d).
  Proof.
    destruct Himpl as (Hbin & Hbi).
    assert (Hstep : forall d' (cbf : frames -> callback),
               (forall fr fr', cb_rel (cbf fr) (cbf fr')) -> ADrel d' ->
               (forall fr, AD (S d') fr = apply_at builtin_impl (Some (evalE release binop_impl (AD d'), cbf fr)) fr) ->
               ADrel (S d')).
    { intros d' cbf Hcb Hd Hdef fr fr' this this' f f' args args' st st' Hf Ha. rewrite !Hdef. unfold apply_at.
      unfold check_arity, accepts. rewrite <- (vrel_fn_arity _ _ _ _ _ Hf), <- (lrel_length _ _ _ _ _ Ha).
      destruct (negb match fn_arity f with Some a => can_accept a (Datatypes.length args) | None => false end);
        [exact I|].
      destruct Hf; cbn [call_passed fst]; try exact I.
      - (* built-in *) apply Hbi; auto.
      - (* closure *)
        set (acc := (match lookup_frame sc "inputs" with
                     | Some _ => []
                     | None => match lookup fr "inputs" with Some i => [("inputs", i)] | None => [] end
                     end ++
                     match lam_name st id with
                     | Some n => match lookup_frame sc n with Some _ => [] | None => [(n, this)] end
                     | None => [] end)).
        set (acc' := (match lookup_frame sc' "inputs" with
                      | Some _ => []
                      | None => match lookup fr' "inputs" with Some i => [("inputs", i)] | None => [] end
                      end ++
                      match lam_name st' id' with
                      | Some n => match lookup_frame sc' n with Some _ => [] | None => [(n, this')] end
                      | None => [] end)).
        pose proof (bind_params_rel opok biok nanfix ps 0 args args' acc acc' Ha) as HB.
        destruct (bind_params ps 0 args acc) as [local|] eqn:EB;
          destruct (bind_params ps 0 args' acc') as [local'|] eqn:EB'; try contradiction; [|exact I].
        set (F1 := (FOwned, local) :: match sc with [] => fr | _ => (FShared, sc) :: fr end).
        set (F2 := (FOwned, local') :: match sc' with [] => fr' | _ => (FShared, sc') :: fr' end).
        set (bound := map arg_name ps ++ map fst sc).
        assert (HInv : Inv opok biok nanfix bound F1 F2 m).
        { repeat split; [assumption|assumption|].
          intros x Hx. unfold bound in Hx. rewrite mem_app in Hx.
          destruct (in_dec string_dec x (map arg_name ps)) as [Hin|Hnp].
          - destruct (HB x (or_introl Hin)) as (v & v' & A & B & C).
            exists v. unfold F1, F2. cbn [lookup]. rewrite A, B. split; [reflexivity|].
            rewrite (H2 x Hin). eauto.
          - assert (Hsc : In x (map fst sc)).
            { apply orb_prop in Hx as [Hx|Hx]; apply mem_In in Hx; [contradiction|exact Hx]. }
            destruct (in_fst_get sc x Hsc) as (v & Ev).
            assert (Hxi : x <> "inputs") by (intros ->; congruence).
            exists v. unfold F1. cbn [lookup].
            rewrite (bind_params_keeps ps 0 args acc local x EB Hnp). unfold acc.
            rewrite acc_none by (auto; congruence). rewrite lookup_parent, Ev. split; [reflexivity|].
            destruct (rec_get m x) as [a|] eqn:Em.
            + exact (H4 x v a Ev Em).
            + destruct (H6 x v Ev Em Hnp) as (v' & Ev' & V). exists v'. split; [|exact V].
              unfold F2. cbn [lookup]. rewrite (bind_params_keeps ps 0 args' acc' local' x EB' Hnp). unfold acc'.
              rewrite acc_none by (auto; congruence). rewrite lookup_parent, Ev'. reflexivity. }
        destruct (proj1 (sim_all opok biok nanfix release binop_impl (AD d') Hbin Hd b) H F1 F2 m bound HInv H0 st st')
          as (r & s1 & r' & s1' & E1 & E2 & Hr).
        exact (call_tail2 _ _ _ _ _ _ _ _ orel E1 E2 Hr). }
    induction d as [|d [IH0 IH1]].
    - split.
      + intros fr fr' this this' f f' args args' st st' Hf Ha. cbn. unfold apply_at.
        unfold check_arity, accepts. rewrite <- (vrel_fn_arity _ _ _ _ _ Hf), <- (lrel_length _ _ _ _ _ Ha).
        destruct (negb _); exact I.
      + apply (Hstep O (fun _ => fun _ f a s => call_too_deep f a s)).
        * intros fr fr' this this' f f' args args' st st' Hf Ha. unfold call_too_deep.
          unfold check_arity, accepts. rewrite <- (vrel_fn_arity _ _ _ _ _ Hf), <- (lrel_length _ _ _ _ _ Ha).
          destruct (match fn_arity f with Some a => can_accept a (Datatypes.length args) | None => false end); exact I.
        * intros fr fr' this this' f f' args args' st st' Hf Ha. cbn. unfold apply_at.
          unfold check_arity, accepts. rewrite <- (vrel_fn_arity _ _ _ _ _ Hf), <- (lrel_length _ _ _ _ _ Ha).
          destruct (negb _); exact I.
        * intros fr. reflexivity.
    - split; [exact IH1|].
      apply (Hstep (S d) (fun fr => AD d fr)).
      + exact IH0.
      + exact IH1.
      + intros fr. reflexivity.
  Qed.

  (* THE SIMULATION: related functions applied to related arguments, at every depth, from any two
     scope chains, any two stores, any self values: related outcomes *)
  Theorem ho_simulation : forall d fr fr' this this' f f' args args' st st',
    vrel f f' -> lrel args args' ->
    orel (fst (AD d fr this f args st)) (fst (AD d fr' this' f' args' st')).
  Proof. intros d fr fr'. exact (proj1 (AD_rel_two d) fr fr'). Qed.
End Top.
