(* PegString.v — the string literal of the REGENERATED grammar, through pest's stack:
     string       = ${ PUSH(<double quote> | <single quote>) ~ string_value ~ POP }
     string_value = @{ (!PEEK ~ ANY)* }
   [peg_string_rule]: called where the text starts with a quote character q, the rule scans character by
   character to the first q ([scan]; there are NO escape sequences), and succeeds iff that q exists: the pair
   `string` spans both quotes, its only inner pair `string_value` the text between them; the stack is left as it
   was found (PUSH then POP).  If no closing q exists the rule fails and the stack is ALSO as it was found
   (POP pops before it compares).  Any other first character: failure, nothing touched. *)
From Coq Require Import String Ascii List NArith Bool Arith Lia ZifyBool ZifyNat ZifyN.
Require Import Blots.Peg Blots.gen.Grammar Blots.proofs.PegGeneric Blots.proofs.PegPure Blots.proofs.PegIdent.
Import ListNotations.
Local Open Scope string_scope.

Definition is_quote (c : ascii) : bool := Ascii.eqb c """" || Ascii.eqb c "'".

(* one step of (!PEEK ~ ANY) with q on top of the stack: stop at q or at the end, else skip one character *)
Definition scan_step (q : ascii) (t : string) : option string :=
  match t with
  | EmptyString => None
  | String c _ => if Ascii.eqb q c then None else Some (sdrop (Nat.min (utf8_width c) (String.length t)) t)
  end.
Definition scan (q : ascii) (t : string) : string := m_star_n (String.length t) (scan_step q) t.

Lemma utf8_width_pos : forall c, 1 <= utf8_width c.
Proof.
  intro c. unfold utf8_width.
  repeat match goal with |- context [if ?b then _ else _] => destruct b end; lia.
Qed.

Lemma scan_step_progresses : forall q, progresses (scan_step q).
Proof.
  intros q t r E. unfold scan_step in E. destruct t; [discriminate|].
  destruct (Ascii.eqb q a); [discriminate|]. inversion E; subst. clear E.
  assert (H1 : 1 <= Nat.min (utf8_width a) (String.length (String a t)))
    by (apply Nat.min_glb; [apply utf8_width_pos|cbn [String.length]; lia]).
  assert (H2 : Nat.min (utf8_width a) (String.length (String a t)) <= String.length (String a t))
    by apply Nat.le_min_r.
  rewrite sdrop_length by exact H2.
  set (m := Nat.min (utf8_width a) (String.length (String a t))) in *. cbn [String.length] in *. lia.
Qed.

(* the stack discipline needed for PUSH-then-POP to give the stack back: the innermost snapshot does not
   claim more elements than the stack holds (true of every stack pest builds) *)
Definition stack_ok (k : pstack) : Prop :=
  match lengths k with (_, remained) :: _ => remained <= List.length (cache k) | [] => True end.

Lemma pop_push : forall x k, stack_ok k -> stack_pop (stack_push x k) = (Some x, k).
Proof.
  intros x [c p ls] H. unfold stack_pop, stack_push, stack_ok in *. cbn [cache popped lengths] in *.
  destruct ls as [|[l remained] ls]; [reflexivity|].
  cbn [List.length]. destruct (Nat.eqb (S (List.length c)) remained) eqn:E; [|reflexivity].
  apply Nat.eqb_eq in E. lia.
Qed.

Section Str.
  Notation st := (st grule).

  (* repeat over a body that is pure for the states of one stack *)
  Lemma repeat_pure_stk : forall (g : st -> res grule) h, progresses h ->
      forall k n (s : st), String.length (rest s) <= k -> k < n ->
      (forall s' : st, stk s' = stk s -> out s' = out s -> String.length (rest s') <= String.length (rest s) ->
                       g s' = pure_out grule s' (h (rest s'))) ->
      repeat_loop n g s = pure_out grule s (Some (m_star_n k h (rest s))).
  Proof.
    intros g h P. induction k as [|k IH]; intros n s Lk Ln Hg.
    - destruct n as [|n]; [lia|]. cbn [repeat_loop m_star_n]. rewrite Hg by (try reflexivity; lia).
      destruct (h (rest s)) as [r|] eqn:E.
      + apply P in E. lia.
      + rewrite pure_out_self. reflexivity.
    - destruct n as [|n]; [lia|]. cbn [repeat_loop m_star_n]. rewrite Hg by (try reflexivity; lia).
      destruct (h (rest s)) as [r|] eqn:E.
      + pose proof (P _ _ E) as L. cbn [pure_out].
        rewrite IH; [| cbn [rest set_pos]; lia | lia
                     | intros s' K O L'; apply Hg; [rewrite K; reflexivity|rewrite O; reflexivity|cbn [rest set_pos] in L'; lia]].
        cbn [pure_out]. unfold set_pos. cbn [pos rest stk out]. f_equal. f_equal.
        pose proof (m_star_n_shrinks h P k r). unfold slen. lia.
      + rewrite pure_out_self. reflexivity.
  Qed.

  (* (!PEEK ~ ANY) in an @ rule, q on top of the stack *)
  Lemma peek_step : forall f m a la q (s : st),
      stack_peek (stk s) = Some (String q "") ->
      run G (S (S f)) m a la (NegPred (Builtin BPeek)) s
      = match drop_prefix (String q "") (rest s) with Some _ => Fail s | None => Ok s end.
  Proof.
    intros f m a la q s Hk. rewrite run_S. cbv zeta. unfold lookahead. rewrite run_S. cbv zeta.
    cbn [run_builtin set_stk stk].
    assert (Hp : stack_peek (stack_snapshot (stk s)) = Some (String q "")).
    { unfold stack_peek, stack_snapshot in *. simpl. exact Hk. }
    rewrite Hp. unfold match_string. cbn [rest set_stk pos stk out].
    destruct (drop_prefix (String q "") (rest s)); cbn [set_pos set_stk stk out pos rest];
      rewrite restore_snapshot, st_eta; reflexivity.
  Qed.

  Lemma body_step : forall f la q (s : st),
      stack_peek (stk s) = Some (String q "") ->
      run G (S (S (S f))) true Atomic la (Seq (NegPred (Builtin BPeek)) (Builtin BAny)) s
      = pure_out grule s (scan_step q (rest s)).
  Proof.
    intros f la q s Hk. rewrite run_S. cbv zeta. rewrite (peek_step f true Atomic la q s Hk).
    unfold scan_step. destruct (rest s) as [|c r] eqn:E.
    - cbn [drop_prefix bind]. rewrite run_S. cbv zeta. cbn [run_builtin]. rewrite E.
      cbn [sequence pure_out]. f_equal. first [apply st_eta | rewrite <- E; apply st_eta].
    - cbn [drop_prefix]. destruct (Ascii.eqb q c) eqn:Q.
      + cbn [bind sequence pure_out]. f_equal. first [apply st_eta | rewrite <- E; apply st_eta].
      + cbn [bind]. rewrite run_S. cbv zeta. cbn [run_builtin]. rewrite E. cbn [sequence pure_out].
        do 2 f_equal. unfold slen.
        assert (H1 : 1 <= Nat.min (utf8_width c) (String.length (String c r)))
          by (apply Nat.min_glb; [apply utf8_width_pos|cbn [String.length]; lia]).
        assert (H2 : Nat.min (utf8_width c) (String.length (String c r)) <= String.length (String c r))
          by apply Nat.le_min_r.
        rewrite sdrop_length by exact H2.
        set (m := Nat.min (utf8_width c) (String.length (String c r))) in *. rewrite ?E. cbn [String.length] in *. lia.
  Qed.

  (* string_value: scan to the first q *)
  Lemma string_value_call : forall fuel a la q (s : st),
      stack_peek (stk s) = Some (String q "") -> 6 + String.length (rest s) <= fuel ->
      call_with G (run G fuel) a la PG_string_value s
      = rule_wrap PG_string_value a la (fun s' => pure_out grule s' (Some (scan q (rest s')))) s.
  Proof.
    intros fuel a la q s Hk Hf. unfold call_with.
    cbn [g_def G blots_grammar grule_def rd_mod rd_trivia rd_body orb andb negb].
    assert (H : forall s' : st, stk s' = stk s -> String.length (rest s') <= String.length (rest s) ->
                  run G fuel true Atomic la (Rep (Seq (NegPred (Builtin BPeek)) (Builtin BAny))) s'
                  = pure_out grule s' (Some (scan q (rest s')))).
    { intros s' K L. destruct fuel as [|f]; [lia|]. rewrite run_S. cbv zeta.
      unfold scan. apply (repeat_pure_stk _ (scan_step q) (scan_step_progresses q)); [lia|lia|].
      intros s2 K2 O2 L2. destruct f as [|[|[|f]]]; try lia. apply body_step. rewrite K2, K. exact Hk. }
    unfold rule_wrap. destruct (emits a la).
    - rewrite H by (cbn [stk rest set_out]; try reflexivity; lia). reflexivity.
    - apply H; [reflexivity|lia].
  Qed.

  Lemma scan_shrinks : forall q t, String.length (scan q t) <= String.length t.
  Proof. intros q t. unfold scan. apply m_star_n_shrinks. apply scan_step_progresses. Qed.

  (* the loop stops only at q or at the end of the text *)
  Lemma star_stops : forall h, progresses h -> forall k t, String.length t <= k -> h (m_star_n k h t) = None.
  Proof.
    intros h P. induction k as [|k IH]; intros t L; simpl.
    - destruct (h t) eqn:E; [apply P in E; lia|reflexivity].
    - destruct (h t) eqn:E; [|exact E]. apply IH. apply P in E. lia.
  Qed.
  Lemma scan_stops : forall q t, scan q t = EmptyString \/ exists r', scan q t = String q r'.
  Proof.
    intros q t. pose proof (star_stops (scan_step q) (scan_step_progresses q) (String.length t) t (le_n _)) as H.
    fold (scan q t) in H. unfold scan_step in H. destruct (scan q t) as [|c r']; [left; reflexivity|].
    destruct (Ascii.eqb q c) eqn:Q; [|discriminate]. right. exists r'.
    apply Ascii.eqb_eq in Q. subst. reflexivity.
  Qed.

  (* the result of the rule `string` at a text q :: r, in a context that produces pairs *)
  Definition string_result (s : st) (q : ascii) (r : string) : res grule :=
    match drop_prefix (String q "") (scan q r) with
    | Some r' =>
        let e1 := (pos s + 1 + (slen r - slen (scan q r)))%N in
        Ok (mkst (e1 + 1) r' (stk s)
                 (Node PG_string (pos s) (e1 + 1) [Node PG_string_value (pos s + 1) e1 []] :: out s))
    | None => Fail s
    end.

  Lemma push_step : forall f la q r (s : st), rest s = String q r ->
      run G (S (S (S f))) true CompoundAtomic la (Push (Choice (Str """") (Str "'"))) s
      = if is_quote q then Ok (mkst (pos s + 1) r (stack_push (String q "") (stk s)) (out s)) else Fail s.
  Proof.
    intros f la q r s E. rewrite run_S. cbv zeta. unfold do_push. rewrite run_S. cbv zeta.
    rewrite !run_S. cbv zeta. unfold match_string. rewrite E. cbn [drop_prefix].
    unfold is_quote. rewrite (Ascii.eqb_sym q """"), (Ascii.eqb_sym q "'").
    destruct (Ascii.eqb """" q) eqn:Q1.
    - cbn [orb set_pos set_stk pos rest stk out]. rewrite ?E.
      replace (N.to_nat (pos s + slen (String """" "") - pos s)) with 1 by (unfold slen; simpl; lia).
      apply Ascii.eqb_eq in Q1. subst q. reflexivity.
    - cbn [orb]. rewrite run_S. cbv zeta. unfold match_string. rewrite E. cbn [drop_prefix].
      destruct (Ascii.eqb "'" q) eqn:Q2.
      + cbn [set_pos set_stk pos rest stk out]. rewrite ?E.
        replace (N.to_nat (pos s + slen (String "'" "") - pos s)) with 1 by (unfold slen; simpl; lia).
        apply Ascii.eqb_eq in Q2. subst q. reflexivity.
      + reflexivity.
  Qed.

  Theorem peg_string_rule : forall fuel a q r (s : st),
      rest s = String q r -> stack_ok (stk s) -> 12 + String.length (rest s) <= fuel ->
      call_with G (run G fuel) a false PG_string s
      = if is_quote q then string_result s q r else Fail s.
  Proof.
    intros fuel a q r s E Hok Hf. unfold call_with.
    cbn [g_def G blots_grammar grule_def rd_mod rd_trivia rd_body orb andb negb].
    unfold rule_wrap. cbn [emits negb andb].
    destruct fuel as [|[|[|[|[|f]]]]]; try lia.
    rewrite run_S. cbv zeta.
    rewrite (push_step (S f) false q r (set_out s []) E).
    destruct (is_quote q) eqn:IQ.
    - cbn [bind set_out pos rest stk out].
      rewrite run_S. cbv zeta. rewrite (run_S _ G (S (S f)) true CompoundAtomic false (Ident _)). cbv zeta.
      rewrite (string_value_call (S (S f)) CompoundAtomic false q); [|reflexivity|cbn [rest]; rewrite E in Hf; cbn [String.length] in Hf; lia].
      unfold rule_wrap. cbn [emits negb andb set_out pos rest stk out pure_out set_pos bind].
      rewrite run_S. cbv zeta. cbn [run_builtin stk set_out set_pos set_stk pos rest out rev app]. rewrite (pop_push _ _ Hok).
      unfold match_string, string_result. cbn [set_stk set_out set_pos rest pos stk out].
      destruct (drop_prefix (String q "") (scan q r)) as [r'|] eqn:D.
      + reflexivity.
      + cbn. unfold set_out. cbn [pos rest stk out]. f_equal. apply st_eta.
    - cbn. unfold set_out. cbn [pos rest stk out]. f_equal. apply st_eta.
  Qed.
End Str.
