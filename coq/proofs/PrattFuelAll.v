(* PrattFuelAll.v — the fuel of the Pratt MODEL suffices on EVERY token stream.

   proofs/PrattFuel.v shows: whatever the RELATIONS derive (successful parses only) the function returns with
   fuel >= 3 * items_size its + 2.  Here, for ARBITRARY item lists (nested groups included; also the ones on which
   the code answers Err or panics): with fuel >= 3 * items_size its + 2 [parse_items] never returns [Unmodelled];
   hence [Pratt.pratt] (fuel 4 * items_size its + 4, the function PegToItems.parse_text / TextRun.text_stmt_of
   use) never does, for every table and every closure map.

   Shape of the proof: plain induction on the fuel m with the five mutually recursive functions at once (every
   recursive call is at exactly m - 1); the bound of each function is the one of PrattFuel.rel_bound; the only
   extra fact is that [pexpr] / [ploop] hand back a token stream that is not larger than the one they got
   ([rest_le], any fuel). *)
From Coq Require Import String List Bool Arith Lia.
Require Import Blots.Num Blots.gen.Builtins Blots.Ast Blots.Outcome Blots.PrattTypes Blots.gen.PrecTable Blots.Pratt.
Require Import Blots.proofs.PrattFuel.
Import ListNotations.
Local Open Scope nat_scope.
Local Open Scope list_scope.

Definition nu {A} (o : outcome A) : Prop := o <> Unmodelled.

Lemma nu_ok {A} (a : A) : nu (Ok a).
Proof. discriminate. Qed.
Lemma nu_panic {A} : nu (@Panic A).
Proof. discriminate. Qed.
Lemma nu_bind {A B} (o : outcome A) (k : A -> outcome B) :
  nu o -> (forall a, o = Ok a -> nu (k a)) -> nu (obind o k).
Proof. intros H K. destruct o; cbn; try discriminate; [apply K; reflexivity|exfalso; apply H; reflexivity]. Qed.

(* ---- the element loops: if the nested conversion has enough fuel for every nested stream, so has the loop ---- *)
Section LoopsNu.
  Variable parse : list item -> outcome tres.
  Variable m : nat.
  Hypothesis parse_nu : forall its, 3 * items_size its + 2 <= m -> nu (parse its).

  Lemma omapM_nu : forall args, 3 * args_size args <= m -> nu (omapM parse args).
  Proof.
    induction args as [|g r IH]; intro L; cbn [omapM]; [apply nu_ok|].
    cbn [args_size] in L. apply nu_bind; [apply parse_nu; lia|].
    intros [y|] _; [|apply nu_ok]. apply nu_bind; [apply IH; lia|]. intros; apply nu_ok.
  Qed.

  Lemma list_loop_nu : forall els, 3 * lels_size els <= m -> nu (list_loop parse els).
  Proof.
    induction els as [|[s|g eol] r IH]; intro L; cbn [list_loop]; [apply nu_ok| |]; cbn [lels_size] in L.
    - apply IH; lia.
    - apply nu_bind; [apply parse_nu; lia|].
      intros [y|] _; [|apply nu_ok]. apply nu_bind; [apply IH; lia|]. intros; apply nu_ok.
  Qed.

  Lemma key_of_nu : forall k, 3 * match k with RKDyn inner => items_size inner | _ => 0 end + 2 <= m ->
    nu (key_of parse k).
  Proof.
    intros [s|s|inner] L; cbn [key_of]; try apply nu_ok.
    apply nu_bind; [apply parse_nu; lia|]. intros; apply nu_ok.
  Qed.

  Lemma rec_loop_nu : forall els, 3 * rels_size els <= m -> nu (rec_loop parse els).
  Proof.
    induction els as [|[s|k v eol|s eol|g eol] r IH]; intro L; cbn [rec_loop]; [apply nu_ok| | | |];
      cbn [rels_size] in L.
    - apply IH; lia.
    - apply nu_bind; [apply key_of_nu; lia|].
      intros [key|] _; [|apply nu_ok]. apply nu_bind; [apply parse_nu; lia|].
      intros [val|] _; [|apply nu_ok]. apply nu_bind; [apply IH; lia|]. intros; apply nu_ok.
    - apply nu_bind; [apply IH; lia|]. intros; apply nu_ok.
    - apply nu_bind; [apply parse_nu; lia|].
      intros [y|] _; [|apply nu_ok]. apply nu_bind; [apply IH; lia|]. intros; apply nu_ok.
  Qed.

  Lemma do_loop_nu : forall els stmts ret, 3 * dels_size els <= m -> nu (do_loop parse els stmts ret).
  Proof.
    induction els as [|[g c|s c|g|s] r IH]; intros stmts ret L; cbn [do_loop]; [apply nu_ok| | | |];
      cbn [dels_size] in L.
    - apply nu_bind; [apply parse_nu; lia|]. intros [y|] _; [|apply nu_ok]. apply IH; lia.
    - apply IH; lia.
    - apply nu_bind; [apply parse_nu; lia|]. intros [y|] _; [|apply nu_ok]. apply IH; lia.
    - apply IH; lia.
  Qed.
End LoopsNu.

Section All.
  Variable tbl : ops_map.
  Variable imap : list (oprule * binop).
  Variable pmap : list (oprule * prefix_ctor).
  Notation pexpr' := (pexpr tbl imap pmap).
  Notation ploop' := (ploop tbl imap pmap).
  Notation mpost' := (map_postfix tbl imap pmap).
  Notation primary' := (primary tbl imap pmap).
  Notation parse' := (parse_items tbl imap pmap).

  (* one-step unfoldings as equations *)
  Lemma pexpr_S : forall m rbp its,
    pexpr' (S m) rbp its =
    match its with
    | [] => Panic
    | pr0 :: rest =>
        obind
          (match item_op pr0 with
           | Some r =>
               match ops_get tbl r with
               | Some (Prefix, p) =>
                   obind (pexpr' m (p - 1) rest) (fun rr =>
                   obind (map_prefix pmap r (fst rr)) (fun e => Ok (e, snd rr)))
               | Some _ => Panic
               | None => Panic
               end
           | None => obind (primary' m pr0) (fun e => Ok (e, rest))
           end)
          (fun lr => ploop' m rbp (fst lr) (snd lr))
    end.
  Proof. reflexivity. Qed.
  Lemma mpost_S : forall m lhs pr0,
    mpost' (S m) lhs pr0 =
    match pr0 with
    | IOp R_factorial => Ok (option_map EFact lhs)
    | IAccess inner =>
        obind (parse' m inner) (fun i =>
        Ok (match i, lhs with Some i', Some l => Some (EAccess l i') | _, _ => None end))
    | IDot fld => Ok (option_map (fun l => EDot l fld) lhs)
    | ICall args =>
        obind (omapM (parse' m) args) (fun a =>
        Ok (match a, lhs with Some a', Some l => Some (ECall l a') | _, _ => None end))
    | _ => Panic
    end.
  Proof. reflexivity. Qed.
  Lemma primary_S : forall m pr0,
    primary' (S m) pr0 =
    match pr0 with
    | INum x => Ok (Some (ENum x))
    | IBadNum => Ok None
    | IStr s => Ok (Some (EStr s))
    | IBool b => Ok (Some (EBool b))
    | INull => Ok (Some ENull)
    | IIdent s => Ok (Some (match builtin_of_name s with Some b => EBuiltin b | None => EId s end))
    | IInRef s => Ok (Some (EInRef s))
    | IExpr _ g => parse' m g
    | IList els => obind (list_loop (parse' m) els) (fun r => Ok (option_map EList r))
    | IRecord els => obind (rec_loop (parse' m) els) (fun r => Ok (option_map ERec r))
    | ILambda args body => obind (parse' m body) (fun b => Ok (option_map (ELam args) b))
    | ICond c t e =>
        obind (parse' m c) (fun c' =>
        match c' with
        | None => Ok None
        | Some c'' =>
            obind (parse' m t) (fun t' =>
            match t' with
            | None => Ok None
            | Some t'' => obind (parse' m e) (fun e' => Ok (option_map (ECond c'' t'') e'))
            end)
        end)
    | IDo els => do_loop (parse' m) els [] (uncommented ENull)
    | IAssign x v => obind (parse' m v) (fun v' => Ok (option_map (EAssign x) v'))
    | IOp _ | IAccess _ | IDot _ | ICall _ => Panic
    end.
  Proof. reflexivity. Qed.
  Lemma parse_S : forall m its, parse' (S m) its = obind (pexpr' m 0 its) (fun r => Ok (fst r)).
  Proof. reflexivity. Qed.

  Lemma obind_ok {A B} (o : outcome A) (k : A -> outcome B) b :
    obind o k = Ok b -> exists a, o = Ok a /\ k a = Ok b.
  Proof. destruct o; cbn; try discriminate. intro H. eexists; split; [reflexivity|exact H]. Qed.

  (* the token stream handed back is not larger than the one received (any fuel) *)
  Lemma rest_le : forall m,
    (forall rbp its t rest, pexpr' m rbp its = Ok (t, rest) -> items_size rest <= items_size its) /\
    (forall rbp lhs its t rest, ploop' m rbp lhs its = Ok (t, rest) -> items_size rest <= items_size its).
  Proof.
    induction m as [|m [IHe IHl]]; [split; intros; discriminate|]. split.
    - intros rbp its t rest H. rewrite pexpr_S in H. destruct its as [|pr0 its0]; [discriminate|].
      rewrite items_size_cons. pose proof (item_size_pos pr0).
      apply obind_ok in H. destruct H as [[e mid] [H1 H2]]. cbn [fst snd] in H2.
      apply IHl in H2.
      assert (items_size mid <= items_size its0); [|lia].
      destruct (item_op pr0) as [r|].
      + destruct (ops_get tbl r) as [[[ | |a] p]|]; try discriminate.
        apply obind_ok in H1. destruct H1 as [[e1 mid1] [H1 H3]]. cbn [fst snd] in H3.
        apply obind_ok in H3. destruct H3 as [e2 [_ H3]]. inversion H3; subst.
        apply IHe in H1. exact H1.
      + apply obind_ok in H1. destruct H1 as [e1 [_ H3]]. inversion H3; subst. lia.
    - intros rbp lhs its t rest H. rewrite ploop_S' in H.
      apply obind_ok in H. destruct H as [l [_ H]].
      destruct (Nat.ltb rbp l); [|inversion H; subst; lia].
      destruct its as [|pr0 its0]; [discriminate|].
      rewrite items_size_cons. pose proof (item_size_pos pr0).
      destruct (item_op pr0) as [r|]; [|discriminate].
      destruct (ops_get tbl r) as [[[ | |a] p]|]; try discriminate.
      + apply obind_ok in H. destruct H as [e1 [_ H2]]. apply IHl in H2. lia.
      + apply obind_ok in H. destruct H as [[e1 mid] [H1 H2]]. cbn [fst snd] in H2.
        apply obind_ok in H2. destruct H2 as [e2 [_ H2]].
        apply IHe in H1. apply IHl in H2. lia.
  Qed.

  Lemma lbp_nu : forall its, nu (lbp tbl its).
  Proof.
    intros [|pr0 r]; cbn [lbp]; [apply nu_ok|].
    destruct (item_op pr0) as [o|]; [|apply nu_panic].
    destruct (ops_get tbl o) as [[a p]|]; [apply nu_ok|apply nu_panic].
  Qed.
  Lemma map_prefix_nu : forall r x, nu (map_prefix pmap r x).
  Proof. intros r x. unfold map_prefix. destruct (assoc_find r pmap) as [[u|]|]; discriminate. Qed.
  Lemma map_infix_nu : forall l r x, nu (map_infix imap l r x).
  Proof. intros l r x. unfold map_infix. destruct (assoc_find r imap); discriminate. Qed.

  Theorem all_nu : forall m,
    (forall rbp its, 3 * items_size its + 1 <= m -> nu (pexpr' m rbp its)) /\
    (forall rbp lhs its, 3 * items_size its + 1 <= m -> nu (ploop' m rbp lhs its)) /\
    (forall lhs i, 3 * item_size i <= m -> nu (mpost' m lhs i)) /\
    (forall i, 3 * item_size i <= m -> nu (primary' m i)) /\
    (forall its, 3 * items_size its + 2 <= m -> nu (parse' m its)).
  Proof.
    induction m as [|m (IHe & IHl & IHpo & IHpr & IHpa)].
    { repeat split; intros; try lia. pose proof (item_size_pos i); lia. pose proof (item_size_pos i); lia. }
    destruct (rest_le m) as [RLe RLl].
    repeat split.
    - (* pexpr *)
      intros rbp its L. rewrite pexpr_S. destruct its as [|pr0 its0]; [apply nu_panic|].
      rewrite items_size_cons in L. pose proof (item_size_pos pr0).
      apply nu_bind.
      + destruct (item_op pr0) as [r|].
        * destruct (ops_get tbl r) as [[[ | |a] p]|]; try apply nu_panic.
          apply nu_bind; [apply IHe; lia|]. intros rr _.
          apply nu_bind; [apply map_prefix_nu|]. intros; apply nu_ok.
        * apply nu_bind; [apply IHpr; lia|]. intros; apply nu_ok.
      + intros [e mid] H1. cbn [fst snd]. apply IHl.
        assert (items_size mid <= items_size its0); [|lia].
        destruct (item_op pr0) as [r|].
        * destruct (ops_get tbl r) as [[[ | |a] p]|]; try discriminate.
          apply obind_ok in H1. destruct H1 as [[e1 mid1] [H1 H3]]. cbn [fst snd] in H3.
          apply obind_ok in H3. destruct H3 as [e2 [_ H3]]. inversion H3; subst.
          apply RLe in H1. exact H1.
        * apply obind_ok in H1. destruct H1 as [e1 [_ H3]]. inversion H3; subst. lia.
    - (* ploop *)
      intros rbp lhs its L. rewrite ploop_S'. apply nu_bind; [apply lbp_nu|]. intros l _.
      destruct (Nat.ltb rbp l); [|apply nu_ok].
      destruct its as [|pr0 its0]; [apply nu_panic|].
      rewrite items_size_cons in L. pose proof (item_size_pos pr0).
      destruct (item_op pr0) as [r|]; [|apply nu_panic].
      destruct (ops_get tbl r) as [[[ | |a] p]|]; try apply nu_panic.
      + apply nu_bind; [apply IHpo; lia|]. intros e1 _. apply IHl. lia.
      + apply nu_bind; [apply IHe; lia|]. intros [e1 mid] H1. cbn [fst snd].
        apply RLe in H1.
        apply nu_bind; [apply map_infix_nu|]. intros e2 _. apply IHl. lia.
    - (* map_postfix *)
      intros lhs i L. rewrite mpost_S.
      destruct i; try apply nu_panic; try apply nu_ok.
      + destruct r; try apply nu_panic; apply nu_ok.
      + rewrite size_IAccess in L. apply nu_bind; [apply IHpa; lia|]. intros; apply nu_ok.
      + rewrite size_ICall in L. apply nu_bind; [apply omapM_nu with (m := m); [exact IHpa|lia]|].
        intros; apply nu_ok.
    - (* primary *)
      intros i L. rewrite primary_S.
      destruct i; try apply nu_panic; try apply nu_ok.
      + rewrite size_IExpr in L. apply IHpa; lia.
      + rewrite size_IList in L. apply nu_bind; [apply list_loop_nu with (m := m); [exact IHpa|lia]|].
        intros; apply nu_ok.
      + rewrite size_IRecord in L. apply nu_bind; [apply rec_loop_nu with (m := m); [exact IHpa|lia]|].
        intros; apply nu_ok.
      + rewrite size_ILambda in L. apply nu_bind; [apply IHpa; lia|]. intros; apply nu_ok.
      + rewrite size_ICond in L. apply nu_bind; [apply IHpa; lia|].
        intros [c''|] _; [|apply nu_ok]. apply nu_bind; [apply IHpa; lia|].
        intros [t''|] _; [|apply nu_ok]. apply nu_bind; [apply IHpa; lia|]. intros; apply nu_ok.
      + rewrite size_IDo in L. apply do_loop_nu with (m := m); [exact IHpa|lia].
      + rewrite size_IAssign in L. apply nu_bind; [apply IHpa; lia|]. intros; apply nu_ok.
    - (* parse_items *)
      intros its L. rewrite parse_S. apply nu_bind; [apply IHe; lia|]. intros; apply nu_ok.
  Qed.

  Corollary parse_items_fuel_sufficient : forall its m,
    3 * items_size its + 2 <= m -> parse' m its <> Unmodelled.
  Proof. intros its m L. exact (proj2 (proj2 (proj2 (proj2 (all_nu m)))) its L). Qed.
End All.

(* the fuel function the text layer uses: Pratt.pratt's  4 * items_size its + 4 *)
Definition fuel_of (its : list item) : nat := 4 * items_size its + 4.

Theorem pratt_fuel_sufficient : forall tbl imap pmap its,
  parse_items tbl imap pmap (fuel_of its) its <> Unmodelled.
Proof. intros. apply parse_items_fuel_sufficient. unfold fuel_of. lia. Qed.

Lemma pratt_is_fuel_of : forall tbl its, pratt tbl its = parse_items tbl infix_map prefix_map (fuel_of its) its.
Proof. reflexivity. Qed.

Theorem pratt_never_unmodelled : forall tbl its, pratt tbl its <> Unmodelled.
Proof. intros. rewrite pratt_is_fuel_of. apply pratt_fuel_sufficient. Qed.
Corollary pratt_impl_never_unmodelled : forall its, pratt_impl its <> Unmodelled.
Proof. intro its. apply pratt_never_unmodelled. Qed.
