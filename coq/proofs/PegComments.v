(* proofs/PegComments.v — the parser half of C09: pairs_to_expr_with_comments (PegComments.v) keeps every
   comment of the token stream, in order, outside the class C09-empty-container. *)
From Coq Require Import String Ascii List NArith ZArith Bool Arith Lia.
Require Import Blots.Num Blots.gen.Builtins Blots.Ast Blots.Outcome Blots.PrattTypes Blots.gen.PrecTable
               Blots.Pratt Blots.Formatter.
Require Import Blots.Peg Blots.gen.Grammar Blots.PegToItems Blots.PegComments.
Import ListNotations.
Local Open Scope string_scope.
Local Open Scope list_scope.
Local Open Scope nat_scope.
Local Notation expr := Ast.expr.

(* ------------------------------------------------------------------ split_nl / trailing fields *)
Lemma split_nl_nonempty' : forall t, split_nl t <> [].
Proof.
  induction t as [|c r IH]; cbn [split_nl]; [discriminate|].
  destruct (Ascii.eqb c NLc); [discriminate|]. destruct (split_nl r); discriminate.
Qed.

Lemma split_nl_app_nl : forall a b, split_nl (a +++ String NLc b) = split_nl a ++ split_nl b.
Proof.
  induction a as [|c r IH]; intro b.
  - change ("" +++ String NLc b) with (String NLc b). cbn [split_nl]. rewrite Ascii.eqb_refl. reflexivity.
  - change (String c r +++ String NLc b) with (String c (r +++ String NLc b)).
    cbn [split_nl]. destruct (Ascii.eqb c NLc).
    + rewrite IH. reflexivity.
    + rewrite IH. pose proof (split_nl_nonempty' r) as Hn.
      destruct (split_nl r) as [|x t]; [congruence|]. reflexivity.
Qed.

Lemma split_nl_nlfree : forall s, nl_free s = true -> split_nl s = [s].
Proof.
  unfold nl_free. induction s as [|c r IH]; intro H; [reflexivity|].
  cbn [contains_nl] in H. cbn [split_nl].
  destruct (Ascii.eqb c NLc); [discriminate H|]. cbn [orb] in H. rewrite (IH H). reflexivity.
Qed.

Lemma split_nl_sjoin : forall l, l <> [] -> forallb nl_free l = true -> split_nl (Formatter.sjoin nl l) = l.
Proof.
  induction l as [|x r IH]; intros Hne H; [congruence|].
  cbn [forallb] in H. apply andb_prop in H as [Hx Hr].
  destruct r as [|y r'].
  - cbn [sjoin]. apply split_nl_nlfree; exact Hx.
  - change (Formatter.sjoin nl (x :: y :: r')) with (x +++ nl +++ Formatter.sjoin nl (y :: r')).
    unfold nl at 1. change (String NLc "" +++ Formatter.sjoin nl (y :: r')) with (String NLc (Formatter.sjoin nl (y :: r'))).
    rewrite split_nl_app_nl, (split_nl_nlfree x Hx), IH; [reflexivity|discriminate|exact Hr].
Qed.

Lemma trailing_opt : forall o, onl_free o = true -> trailing_comments o = opt_list o.
Proof. intros [s|] H; [|reflexivity]. cbn. apply split_nl_nlfree; exact H. Qed.

(* ------------------------------------------------------------------ comments of commented sequences *)
Definition ccs {A} (g : A -> list string) (l : list (commented A)) : list string :=
  flat_map (fun c => cleading c ++ g (cnode c) ++ trailing_comments (ctrailing c)) l.

Lemma items_comments_ccs : forall f l, Formatter.items_comments f l = ccs f l.
Proof.
  intros f l. induction l as [|[ld n tr] r IH]; [reflexivity|].
  cbn [Formatter.items_comments ccs flat_map cleading cnode ctrailing]. rewrite IH.
  unfold ccs. rewrite <- !app_assoc. reflexivity.
Qed.
Lemma entries_comments_ccs : forall f l, entries_comments f l = ccs (entry_comments f) l.
Proof.
  intros f l. induction l as [|[ld n tr] r IH]; [reflexivity|].
  cbn [entries_comments ccs flat_map cleading cnode ctrailing]. rewrite IH.
  unfold ccs. rewrite <- !app_assoc. reflexivity.
Qed.
Lemma ccs_app {A} (g : A -> list string) a b : ccs g (a ++ b) = ccs g a ++ ccs g b.
Proof. unfold ccs. apply flat_map_app. Qed.
Lemma ccs_one {A} (g : A -> list string) ld n tr :
  ccs g [Cm ld n tr] = ld ++ g n ++ trailing_comments tr.
Proof. unfold ccs. cbn. rewrite app_nil_r. reflexivity. Qed.

(* "attach any remaining comments to the last item": nothing is lost when there is an item *)
Lemma attach_after_last_keeps {A} (g : A -> list string) (elements : list (commented A)) pending :
  forallb nl_free pending = true ->
  (pending <> [] -> elements <> []) ->
  ccs g (attach_after_last elements pending) = ccs g elements ++ pending.
Proof.
  intros Hnl Hne. unfold attach_after_last.
  destruct pending as [|p ps]; [rewrite app_nil_r; reflexivity|].
  assert (Hel : elements <> []) by (apply Hne; discriminate).
  destruct (rev elements) as [|[l x tr] before] eqn:Hr.
  - apply (f_equal (@rev _)) in Hr. rewrite rev_involutive in Hr. cbn in Hr. congruence.
  - assert (He : elements = rev before ++ [Cm l x tr]).
    { apply (f_equal (@rev _)) in Hr. rewrite rev_involutive in Hr. cbn in Hr. exact Hr. }
    rewrite He. rewrite !ccs_app, !ccs_one. rewrite <- !app_assoc. f_equal. f_equal. f_equal.
    destruct tr as [t|].
    + cbn [trailing_comments]. unfold nl at 1.
      change (t +++ String NLc "" +++ Formatter.sjoin nl (p :: ps)) with (t +++ String NLc (Formatter.sjoin nl (p :: ps))).
      rewrite split_nl_app_nl, split_nl_sjoin; [reflexivity|discriminate|exact Hnl].
    + cbn [trailing_comments]. rewrite split_nl_sjoin; [reflexivity|discriminate|exact Hnl].
Qed.

(* ------------------------------------------------------------------ the nested fixpoints, unfolded *)
Lemma ics_eq : forall l,
  (fix ics (l : list item) : list string :=
     match l with [] => [] | x :: r => item_comments x ++ ics r end) l = items_comments l.
Proof. induction l as [|x l IH]; [reflexivity|]. cbn [items_comments]. rewrite <- IH. reflexivity. Qed.

Lemma ic_IExpr b g : item_comments (IExpr b g) = items_comments g.
Proof. cbn [item_comments]. apply ics_eq. Qed.
Lemma ic_ILambda a g : item_comments (ILambda a g) = items_comments g.
Proof. cbn [item_comments]. apply ics_eq. Qed.
Lemma ic_IAssign x g : item_comments (IAssign x g) = items_comments g.
Proof. cbn [item_comments]. apply ics_eq. Qed.
Lemma ic_IAccess g : item_comments (IAccess g) = items_comments g.
Proof. cbn [item_comments]. apply ics_eq. Qed.
Lemma ic_ICond c t e : item_comments (ICond c t e) = items_comments c ++ items_comments t ++ items_comments e.
Proof. cbn [item_comments]. rewrite !ics_eq. reflexivity. Qed.
Lemma ic_IList els : item_comments (IList els) = lels_comments els.
Proof.
  cbn [item_comments]. induction els as [|[c|g eol] r IH]; [reflexivity| |]; cbn [lels_comments]; rewrite <- IH;
    rewrite ?ics_eq; reflexivity.
Qed.
Lemma ic_IRecord els : item_comments (IRecord els) = rels_comments els.
Proof.
  cbn [item_comments]. induction els as [|[c|k v eol|s eol|g eol] r IH]; [reflexivity| | | |];
    cbn [rels_comments]; rewrite <- IH; rewrite ?ics_eq; try reflexivity.
  all: try (destruct k; rewrite ?ics_eq; reflexivity).
Qed.
Lemma ic_IDo els : item_comments (IDo els) = dels_comments els.
Proof.
  cbn [item_comments]. induction els as [|[g c|s c|g|s] r IH]; [reflexivity| | | |];
    cbn [dels_comments]; rewrite <- IH; rewrite ?ics_eq; reflexivity.
Qed.
Lemma ic_ICall args : item_comments (ICall args) = args_comments args.
Proof.
  cbn [item_comments]. induction args as [|g r IH]; [reflexivity|].
  cbn [args_comments]. rewrite <- IH, ics_eq. reflexivity.
Qed.

Section All.
  Variable P : item -> bool.
  Lemma all_eq : forall l,
    (fix all (l : list item) : bool :=
       match l with [] => true | x :: r => item_all P x && all r end) l = items_all P l.
  Proof. induction l as [|x l IH]; [reflexivity|]. cbn [items_all]. rewrite <- IH. reflexivity. Qed.
  Lemma ia_IExpr b g : item_all P (IExpr b g) = P (IExpr b g) && items_all P g.
  Proof. cbn [item_all]. rewrite all_eq. reflexivity. Qed.
  Lemma ia_ILambda a g : item_all P (ILambda a g) = P (ILambda a g) && items_all P g.
  Proof. cbn [item_all]. rewrite all_eq. reflexivity. Qed.
  Lemma ia_IAssign x g : item_all P (IAssign x g) = P (IAssign x g) && items_all P g.
  Proof. cbn [item_all]. rewrite all_eq. reflexivity. Qed.
  Lemma ia_IAccess g : item_all P (IAccess g) = P (IAccess g) && items_all P g.
  Proof. cbn [item_all]. rewrite all_eq. reflexivity. Qed.
  Lemma ia_ICond c t e :
    item_all P (ICond c t e) = P (ICond c t e) && (items_all P c && items_all P t && items_all P e).
  Proof. cbn [item_all]. rewrite !all_eq. reflexivity. Qed.
  Lemma ia_IList els : item_all P (IList els) = P (IList els) && lels_all P els.
  Proof.
    cbn [item_all]. f_equal. induction els as [|[c|g eol] r IH]; [reflexivity| |]; cbn [lels_all]; rewrite <- IH;
      rewrite ?all_eq; reflexivity.
  Qed.
  Lemma ia_IRecord els : item_all P (IRecord els) = P (IRecord els) && rels_all P els.
  Proof.
    cbn [item_all]. f_equal. induction els as [|[c|k v eol|s eol|g eol] r IH]; [reflexivity| | | |];
      cbn [rels_all]; rewrite <- IH; rewrite ?all_eq; try reflexivity.
    all: try (destruct k; rewrite ?all_eq; reflexivity).
  Qed.
  Lemma ia_IDo els : item_all P (IDo els) = P (IDo els) && dels_all P els.
  Proof.
    cbn [item_all]. f_equal. induction els as [|[g c|s c|g|s] r IH]; [reflexivity| | | |];
      cbn [dels_all]; rewrite <- IH; rewrite ?all_eq; reflexivity.
  Qed.
  Lemma ia_ICall args : item_all P (ICall args) = P (ICall args) && args_all P args.
  Proof.
    cbn [item_all]. f_equal. induction args as [|g r IH]; [reflexivity|].
    cbn [args_all]. rewrite <- IH, all_eq. reflexivity.
  Qed.
End All.

(* ------------------------------------------------------------------ "good" = grammar shape and outside the exclusion *)
Definition goodi (i : item) : Prop := shape_ok i = true /\ no_empty_container i = true.
Definition good (l : list item) : Prop := shapes_ok l = true /\ no_empty_containers l = true.
Definition lgood (l : list lelem) : Prop := lels_all shape_here l = true /\ lels_all attachable_here l = true.
Definition rgood (l : list relem) : Prop := rels_all shape_here l = true /\ rels_all attachable_here l = true.
Definition dgood (l : list delem) : Prop := dels_all shape_here l = true /\ dels_all attachable_here l = true.
Definition agood (l : list (list item)) : Prop := args_all shape_here l = true /\ args_all attachable_here l = true.

Ltac split_and :=
  repeat match goal with
         | H : _ && _ = true |- _ => apply andb_prop in H; destruct H
         | H : _ /\ _ |- _ => destruct H
         end.

Lemma good_nil : good []. Proof. split; reflexivity. Qed.
Lemma good_cons x r : good (x :: r) -> goodi x /\ good r.
Proof. unfold good, goodi, shapes_ok, no_empty_containers, shape_ok, no_empty_container. cbn [items_all]. intros; split_and. auto. Qed.
Lemma goodi_IExpr b g : goodi (IExpr b g) -> good g.
Proof. unfold good, goodi, shapes_ok, no_empty_containers, shape_ok, no_empty_container. rewrite !ia_IExpr. intros; split_and; auto. Qed.
Lemma goodi_ILambda a g : goodi (ILambda a g) -> good g.
Proof. unfold good, goodi, shapes_ok, no_empty_containers, shape_ok, no_empty_container. rewrite !ia_ILambda. intros; split_and; auto. Qed.
Lemma goodi_IAssign x g : goodi (IAssign x g) -> good g.
Proof. unfold good, goodi, shapes_ok, no_empty_containers, shape_ok, no_empty_container. rewrite !ia_IAssign. intros; split_and; auto. Qed.
Lemma goodi_IAccess g : goodi (IAccess g) -> good g.
Proof. unfold good, goodi, shapes_ok, no_empty_containers, shape_ok, no_empty_container. rewrite !ia_IAccess. intros; split_and; auto. Qed.
Lemma goodi_ICond c t e : goodi (ICond c t e) -> good c /\ good t /\ good e.
Proof. unfold good, goodi, shapes_ok, no_empty_containers, shape_ok, no_empty_container. rewrite !ia_ICond. intros; split_and; auto. Qed.
Lemma goodi_ICall args : goodi (ICall args) -> agood args.
Proof. unfold agood, goodi, shape_ok, no_empty_container. rewrite !ia_ICall. intros; split_and; auto. Qed.
Lemma goodi_IList els :
  goodi (IList els) -> forallb lelem_shape els = true /\ lels_attachable els = true /\ lgood els.
Proof. unfold lgood, goodi, shape_ok, no_empty_container. rewrite !ia_IList. cbn [shape_here attachable_here]. intros; split_and; auto. Qed.
Lemma goodi_IRecord els :
  goodi (IRecord els) -> forallb relem_shape els = true /\ rels_attachable els = true /\ rgood els.
Proof. unfold rgood, goodi, shape_ok, no_empty_container. rewrite !ia_IRecord. cbn [shape_here attachable_here]. intros; split_and; auto. Qed.
Lemma goodi_IDo els : goodi (IDo els) -> do_shape els = true /\ dgood els.
Proof. unfold dgood, goodi, shape_ok, no_empty_container. rewrite !ia_IDo. cbn [shape_here attachable_here]. intros; split_and; auto. Qed.
Lemma agood_cons g r : agood (g :: r) -> good g /\ agood r.
Proof. unfold agood, good, shapes_ok, no_empty_containers. cbn [args_all]. intros; split_and; auto. Qed.

(* ------------------------------------------------------------------ the container loops *)
Section Loops.
  Variable parse : list item -> outcome tres.
  Hypothesis parse_keeps : forall g e, good g -> parse g = Outcome.Ok (Some e) -> items_comments g = expr_comments e.

  Lemma list_loop_keeps : forall els pending elements el' pd',
    lgood els -> forallb lelem_shape els = true -> forallb nl_free pending = true ->
    list_loop_c parse els pending elements = Outcome.Ok (Some (el', pd')) ->
    ccs expr_comments elements ++ pending ++ lels_comments els = ccs expr_comments el' ++ pd'
    /\ forallb nl_free pd' = true
    /\ (elements <> [] \/ existsb l_is_item els = true -> el' <> [])
    /\ (forallb l_is_item els = true -> pending = [] -> pd' = []).
  Proof.
    induction els as [|[c|g eol] r IH]; intros pending elements el' pd' Hg Hs Hp H.
    - cbn in H. inversion H; subst. cbn [lels_comments]. rewrite app_nil_r.
      split; [reflexivity|split; [exact Hp|split]]; [intros [H1|H1]; [exact H1|discriminate H1]|intros _ Hq; exact Hq].
    - cbn [list_loop_c] in H. cbn [forallb lelem_shape] in Hs. apply andb_prop in Hs as [Hc Hs].
      unfold lgood in Hg. cbn [lels_all] in Hg.
      apply IH in H; [|exact Hg|exact Hs|rewrite forallb_app; cbn; rewrite Hp, Hc; reflexivity].
      destruct H as (E & Hn & Hne & Hall). split; [|split; [exact Hn|split]].
      + rewrite <- E. cbn [lels_comments]. rewrite <- !app_assoc. reflexivity.
      + intros [H1|H1]; apply Hne; [left; exact H1|right; exact H1].
      + intro Hf. discriminate Hf.
    - cbn [list_loop_c] in H. cbn [forallb lelem_shape] in Hs. apply andb_prop in Hs as [Hc Hs].
      unfold lgood in Hg. cbn [lels_all] in Hg. destruct Hg as [Hg1 Hg2].
      apply andb_prop in Hg1 as [Hga Hgb]. apply andb_prop in Hg2 as [Hgc Hgd].
      destruct (parse g) as [[e|]| | | |] eqn:Hpg; cbn [obind] in H; try discriminate H.
      apply IH in H; [|split; assumption|exact Hs|reflexivity].
      destruct H as (E & Hn & Hne & Hall). split; [|split; [exact Hn|split]].
      + rewrite <- E. rewrite ccs_app, ccs_one. cbn [lels_comments app]. rewrite <- !app_assoc.
        rewrite (parse_keeps g e (conj Hga Hgc) Hpg), (trailing_opt eol Hc). reflexivity.
      + intros _. apply Hne. left. destruct elements; discriminate.
      + intros Hf _. apply Hall; [|reflexivity]. cbn [forallb l_is_item] in Hf. exact Hf.
  Qed.

  Lemma list_arm_keeps : forall els t,
    lgood els -> forallb lelem_shape els = true -> lels_attachable els = true ->
    list_arm_c parse els = Outcome.Ok (Some t) -> lels_comments els = expr_comments t.
  Proof.
    intros els t Hg Hs Ha H. unfold list_arm_c in H.
    destruct (list_loop_c parse els [] []) as [[[el' pd']|]| | | |] eqn:Hl; cbn in H; try discriminate H.
    inversion H; subst t. clear H.
    apply list_loop_keeps in Hl; [|assumption|assumption|reflexivity].
    destruct Hl as (E & Hn & Hne & Hall). cbn [ccs flat_map app] in E.
    cbn [expr_comments]. rewrite items_comments_ccs, attach_after_last_keeps; [exact E|exact Hn|].
    intros Hpd. unfold lels_attachable in Ha. apply orb_prop in Ha as [Ha|Ha].
    - apply Hne. right. exact Ha.
    - exfalso. apply Hpd. apply Hall; [exact Ha|reflexivity].
  Qed.

  Lemma key_of_keeps : forall k key,
    match k with RKDyn inner => good inner | _ => True end ->
    key_of parse k = Outcome.Ok (Some key) ->
    match k with RKDyn inner => items_comments inner | _ => [] end =
    match key with KDyn d => expr_comments d | _ => [] end.
  Proof.
    intros [s|s|inner] key Hg H; cbn [key_of] in H.
    - inversion H; reflexivity.
    - inversion H; reflexivity.
    - destruct (parse inner) as [[d|]| | | |] eqn:Hp; cbn in H; try discriminate H.
      inversion H; subst key. apply parse_keeps; assumption.
  Qed.

  Lemma rec_loop_keeps : forall els pending entries el' pd',
    rgood els -> forallb relem_shape els = true -> forallb nl_free pending = true ->
    rec_loop_c parse els pending entries = Outcome.Ok (Some (el', pd')) ->
    ccs (entry_comments expr_comments) entries ++ pending ++ rels_comments els
      = ccs (entry_comments expr_comments) el' ++ pd'
    /\ forallb nl_free pd' = true
    /\ (entries <> [] \/ existsb r_is_item els = true -> el' <> [])
    /\ (forallb r_is_item els = true -> pending = [] -> pd' = []).
  Proof.
    induction els as [|[c|k v eol|s eol|g eol] r IH]; intros pending entries el' pd' Hg Hs Hp H.
    - cbn in H. inversion H; subst. cbn [rels_comments]. rewrite app_nil_r.
      split; [reflexivity|split; [exact Hp|split]]; [intros [H1|H1]; [exact H1|discriminate H1]|intros _ Hq; exact Hq].
    - cbn [rec_loop_c] in H. cbn [forallb relem_shape] in Hs. apply andb_prop in Hs as [Hc Hs].
      unfold rgood in Hg. cbn [rels_all] in Hg.
      apply IH in H; [|exact Hg|exact Hs|rewrite forallb_app; cbn; rewrite Hp, Hc; reflexivity].
      destruct H as (E & Hn & Hne & Hall). split; [|split; [exact Hn|split]].
      + rewrite <- E. cbn [rels_comments]. rewrite <- !app_assoc. reflexivity.
      + intros [H1|H1]; apply Hne; [left; exact H1|right; exact H1].
      + intro Hf. discriminate Hf.
    - cbn [rec_loop_c] in H. cbn [forallb relem_shape] in Hs. apply andb_prop in Hs as [Hc Hs].
      unfold rgood in Hg. cbn [rels_all] in Hg. destruct Hg as [Hg1 Hg2].
      apply andb_prop in Hg1 as [Hg1 Hgb]. apply andb_prop in Hg1 as [Hgk1 Hgv1].
      apply andb_prop in Hg2 as [Hg2 Hgd]. apply andb_prop in Hg2 as [Hgk2 Hgv2].
      destruct (key_of parse k) as [[key|]| | | |] eqn:Hk; cbn [obind] in H; try discriminate H.
      destruct (parse v) as [[val|]| | | |] eqn:Hv; cbn [obind] in H; try discriminate H.
      apply IH in H; [|split; assumption|exact Hs|reflexivity].
      destruct H as (E & Hn & Hne & Hall). split; [|split; [exact Hn|split]].
      + rewrite <- E. rewrite ccs_app, ccs_one. cbn [rels_comments app]. rewrite <- !app_assoc.
        rewrite (parse_keeps v val (conj Hgv1 Hgv2) Hv), (trailing_opt eol Hc).
        assert (Hkk := key_of_keeps k key). rewrite Hkk; [|destruct k; try exact I; split; assumption|exact Hk].
        f_equal. f_equal. destruct key; cbn [entry_comments]; try reflexivity.
        * rewrite <- !app_assoc. reflexivity.
        * exfalso. destruct k; cbn in Hk; [inversion Hk|inversion Hk|].
          destruct (parse inner) as [[d|]| | | |]; cbn in Hk; inversion Hk.
        * exfalso. destruct k; cbn in Hk; [inversion Hk|inversion Hk|].
          destruct (parse inner) as [[d|]| | | |]; cbn in Hk; inversion Hk.
      + intros _. apply Hne. left. destruct entries; discriminate.
      + intros Hf _. apply Hall; [|reflexivity]. cbn [forallb r_is_item] in Hf. exact Hf.
    - cbn [rec_loop_c] in H. cbn [forallb relem_shape] in Hs. apply andb_prop in Hs as [Hc Hs].
      unfold rgood in Hg. cbn [rels_all] in Hg.
      apply IH in H; [|exact Hg|exact Hs|reflexivity].
      destruct H as (E & Hn & Hne & Hall). split; [|split; [exact Hn|split]].
      + rewrite <- E. rewrite ccs_app, ccs_one. cbn [rels_comments app entry_comments]. rewrite <- !app_assoc.
        rewrite (trailing_opt eol Hc). reflexivity.
      + intros _. apply Hne. left. destruct entries; discriminate.
      + intros Hf _. apply Hall; [|reflexivity]. cbn [forallb r_is_item] in Hf. exact Hf.
    - cbn [rec_loop_c] in H. cbn [forallb relem_shape] in Hs. apply andb_prop in Hs as [Hc Hs].
      unfold rgood in Hg. cbn [rels_all] in Hg. destruct Hg as [Hg1 Hg2].
      apply andb_prop in Hg1 as [Hga Hgb]. apply andb_prop in Hg2 as [Hgc Hgd].
      destruct (parse g) as [[e|]| | | |] eqn:Hpg; cbn [obind] in H; try discriminate H.
      apply IH in H; [|split; assumption|exact Hs|reflexivity].
      destruct H as (E & Hn & Hne & Hall). split; [|split; [exact Hn|split]].
      + rewrite <- E. rewrite ccs_app, ccs_one. cbn [rels_comments app entry_comments]. rewrite <- !app_assoc.
        rewrite (parse_keeps g e (conj Hga Hgc) Hpg), (trailing_opt eol Hc). reflexivity.
      + intros _. apply Hne. left. destruct entries; discriminate.
      + intros Hf _. apply Hall; [|reflexivity]. cbn [forallb r_is_item] in Hf. exact Hf.
  Qed.

  Lemma rec_arm_keeps : forall els t,
    rgood els -> forallb relem_shape els = true -> rels_attachable els = true ->
    rec_arm_c parse els = Outcome.Ok (Some t) -> rels_comments els = expr_comments t.
  Proof.
    intros els t Hg Hs Ha H. unfold rec_arm_c in H.
    destruct (rec_loop_c parse els [] []) as [[[el' pd']|]| | | |] eqn:Hl; cbn in H; try discriminate H.
    inversion H; subst t. clear H.
    apply rec_loop_keeps in Hl; [|assumption|assumption|reflexivity].
    destruct Hl as (E & Hn & Hne & Hall). cbn [ccs flat_map app] in E.
    cbn [expr_comments]. rewrite entries_comments_ccs, attach_after_last_keeps; [exact E|exact Hn|].
    intros Hpd. unfold rels_attachable in Ha. apply orb_prop in Ha as [Ha|Ha].
    - apply Hne. right. exact Ha.
    - exfalso. apply Hpd. apply Hall; [exact Ha|reflexivity].
  Qed.

  Lemma do_loop_keeps : forall els pending stmts ret t,
    dgood els -> do_shape els = true ->
    do_loop_c parse els pending stmts ret = Outcome.Ok (Some t) ->
    ccs expr_comments stmts ++ pending ++ dels_comments els = expr_comments t.
  Proof.
    induction els as [|[g c|s c|g|s] r IH]; intros pending stmts ret t Hg Hs H.
    - discriminate Hs.
    - cbn [do_loop_c] in H. unfold dgood in Hg. cbn [dels_all] in Hg. destruct Hg as [Hg1 Hg2].
      apply andb_prop in Hg1 as [Hga Hgb]. apply andb_prop in Hg2 as [Hgc Hgd].
      assert (Hs' : onl_free c = true /\ do_shape r = true).
      { cbn [do_shape] in Hs. apply andb_prop in Hs. exact Hs. }
      destruct Hs' as [Hc Hs'].
      destruct (parse g) as [[e|]| | | |] eqn:Hpg; cbn [obind] in H; try discriminate H.
      apply IH in H; [|split; assumption|exact Hs'].
      rewrite <- H. rewrite ccs_app, ccs_one. cbn [dels_comments app]. rewrite <- !app_assoc.
      rewrite (parse_keeps g e (conj Hga Hgc) Hpg), (trailing_opt c Hc). reflexivity.
    - cbn [do_loop_c] in H. unfold dgood in Hg. cbn [dels_all] in Hg.
      cbn [do_shape] in Hs. apply andb_prop in Hs as [Hs Hs']. apply andb_prop in Hs as [Hsn Hc].
      destruct c; [discriminate Hc|].
      apply IH in H; [|exact Hg|exact Hs'].
      rewrite <- H. cbn [dels_comments opt_list app]. rewrite <- !app_assoc. reflexivity.
    - cbn [do_loop_c] in H. unfold dgood in Hg. cbn [dels_all] in Hg. destruct Hg as [Hg1 Hg2].
      apply andb_prop in Hg1 as [Hga Hgb]. apply andb_prop in Hg2 as [Hgc Hgd].
      destruct r as [|x r']; [|cbn [do_shape] in Hs; discriminate Hs].
      destruct (parse g) as [[e|]| | | |] eqn:Hpg; cbn [obind] in H; try discriminate H.
      cbn [do_loop_c] in H. inversion H; subst t.
      cbn [expr_comments dels_comments trailing_comments]. rewrite items_comments_ccs, !app_nil_r.
      rewrite (parse_keeps g e (conj Hga Hgc) Hpg). reflexivity.
    - cbn [do_loop_c] in H. unfold dgood in Hg. cbn [dels_all] in Hg.
      cbn [do_shape] in Hs. apply andb_prop in Hs as [Hsn Hs'].
      apply IH in H; [|exact Hg|exact Hs'].
      rewrite <- H. cbn [dels_comments app]. rewrite <- !app_assoc. reflexivity.
  Qed.

  Lemma omapM_keeps : forall args es,
    agood args -> omapM parse args = Outcome.Ok (Some es) -> args_comments args = flat_map expr_comments es.
  Proof.
    induction args as [|g r IH]; intros es Hg H.
    - cbn in H. inversion H; reflexivity.
    - apply agood_cons in Hg as [Hg Hr]. cbn [omapM] in H.
      destruct (parse g) as [[e|]| | | |] eqn:Hp; cbn [obind] in H; try discriminate H.
      destruct (omapM parse r) as [[es'|]| | | |] eqn:Hm; cbn [obind option_map] in H; try discriminate H.
      inversion H; subst es. cbn [args_comments flat_map].
      rewrite (parse_keeps g e Hg Hp), (IH es' Hr eq_refl). reflexivity.
  Qed.
End Loops.

(* ------------------------------------------------------------------ the Pratt loop keeps the order *)
Section Main.
  Variable tbl : ops_map.
  Variable imap : list (oprule * binop).
  Variable pmap : list (oprule * prefix_ctor).
  Hypothesis tbl_pos : forall r a p, ops_get tbl r = Some (a, p) -> 0 < p.
  Hypothesis tbl_postfix : forall r a p,
    r = R_access \/ r = R_dot_access \/ r = R_call_list -> ops_get tbl r = Some (a, p) -> a = Postfix.

  Local Notation PE := (pexpr_c tbl imap pmap).
  Local Notation PL := (ploop_c tbl imap pmap).
  Local Notation PO := (map_postfix_c tbl imap pmap).
  Local Notation PR := (primary_c tbl imap pmap).
  Local Notation PI := (parse_items_c tbl imap pmap).

  Lemma PE_S f rbp its : PE (S f) rbp its =
    match its with
    | [] => Outcome.Panic
    | pr0 :: rest =>
        obind (match item_op pr0 with
               | Some r =>
                   match ops_get tbl r with
                   | Some (Prefix, p) =>
                       obind (PE f (p - 1) rest) (fun rr =>
                       obind (map_prefix pmap r (fst rr)) (fun e => Outcome.Ok (e, snd rr)))
                   | Some _ => Outcome.Panic
                   | None => Outcome.Panic
                   end
               | None => obind (PR f pr0) (fun e => Outcome.Ok (e, rest))
               end) (fun lr => PL f rbp (fst lr) (snd lr))
    end.
  Proof. reflexivity. Qed.
  Lemma PL_S f rbp lhs its : PL (S f) rbp lhs its =
    obind (lbp tbl its) (fun l =>
      if Nat.ltb rbp l then
        match its with
        | [] => Outcome.Panic
        | pr0 :: rest =>
            match item_op pr0 with
            | Some r =>
                match ops_get tbl r with
                | Some (Infix a, p) =>
                    obind (PE f (match a with ALeft => p | ARight => p - 1 end) rest) (fun rr =>
                    obind (map_infix imap lhs r (fst rr)) (fun e => PL f rbp e (snd rr)))
                | Some (Postfix, _) => obind (PO f lhs pr0) (fun e => PL f rbp e rest)
                | _ => Outcome.Panic
                end
            | None => Outcome.Panic
            end
        end
      else Outcome.Ok (lhs, its)).
  Proof. reflexivity. Qed.
  Lemma PI_S f its : PI (S f) its = obind (PE f 0 its) (fun r => Outcome.Ok (fst r)).
  Proof. reflexivity. Qed.

  Ltac bind_ok H x Hx :=
    match type of H with
    | obind ?e _ = _ => destruct e as [x| | | |] eqn:Hx; cbn [obind] in H; try discriminate H
    end.

  Lemma map_infix_none r x e : map_infix imap None r x = Outcome.Ok e -> e = None.
  Proof. unfold map_infix. destruct (assoc_find r imap); intro H; inversion H. reflexivity. Qed.
  Lemma PO_none f pr0 e : PO f None pr0 = Outcome.Ok e -> e = None.
  Proof.
    destruct f; [discriminate|]. cbn [map_postfix_c].
    destruct pr0; try discriminate.
    - destruct r; try discriminate. intro H; inversion H; reflexivity.
    - intro H. bind_ok H i Hi. inversion H. destruct i; reflexivity.
    - intro H; inversion H; reflexivity.
    - intro H. bind_ok H a Ha. inversion H. destruct a; reflexivity.
  Qed.
  Lemma PL_none : forall f rbp its t rest, PL f rbp None its = Outcome.Ok (t, rest) -> t = None.
  Proof.
    induction f as [|f IH]; intros rbp its t rest H; [discriminate H|].
    rewrite PL_S in H. bind_ok H l Hl.
    destruct (Nat.ltb rbp l); [|inversion H; reflexivity].
    destruct its as [|pr0 rest0]; [discriminate H|].
    destruct (item_op pr0) as [r|]; [|discriminate H].
    destruct (ops_get tbl r) as [[[| |a] p]|]; try discriminate H.
    - bind_ok H e He. apply PO_none in He. subst e. eapply IH; exact H.
    - bind_ok H rr Hrr. bind_ok H e He. apply map_infix_none in He. subst e. eapply IH; exact H.
  Qed.

  Definition stops (rbp : nat) (rest : list item) : Prop :=
    exists l, lbp tbl rest = Outcome.Ok l /\ l <= rbp.
  Lemma stops0 rest : stops 0 rest -> rest = [].
  Proof.
    intros (l & Hl & Hle). destruct rest as [|pr0 r]; [reflexivity|exfalso].
    cbn [lbp] in Hl. destruct (item_op pr0) as [o|]; [|discriminate Hl].
    destruct (ops_get tbl o) as [[a p]|] eqn:Ho; [|discriminate Hl].
    inversion Hl; subst l. apply tbl_pos in Ho. lia.
  Qed.

  Lemma nonpostfix_no_comments i r a p :
    item_op i = Some r -> ops_get tbl r = Some (a, p) -> a <> Postfix -> item_comments i = [].
  Proof.
    intros Hi Ho Ha. destruct i; cbn [item_op] in Hi; try discriminate Hi; try reflexivity;
      inversion Hi; subst r; exfalso; apply Ha; refine (tbl_postfix _ _ _ _ Ho); tauto.
  Qed.

  Definition keepsS (f : nat) : Prop :=
    (forall rbp its t rest, good its -> PE f rbp its = Outcome.Ok (Some t, rest) ->
        items_comments its = expr_comments t ++ items_comments rest /\ good rest /\ stops rbp rest)
    /\ (forall rbp lhs its t rest, good its -> PL f rbp (Some lhs) its = Outcome.Ok (Some t, rest) ->
        expr_comments lhs ++ items_comments its = expr_comments t ++ items_comments rest
        /\ good rest /\ stops rbp rest)
    /\ (forall lhs pr0 t, goodi pr0 -> PO f (Some lhs) pr0 = Outcome.Ok (Some t) ->
        expr_comments lhs ++ item_comments pr0 = expr_comments t)
    /\ (forall pr0 t, goodi pr0 -> PR f pr0 = Outcome.Ok (Some t) -> item_comments pr0 = expr_comments t)
    /\ (forall its t, good its -> PI f its = Outcome.Ok (Some t) -> items_comments its = expr_comments t).

  Lemma keeps_all : forall f, keepsS f.
  Proof.
    induction f as [|f (IHa & IHb & IHc & IHd & IHe)].
    { repeat split; intros; discriminate. }
    assert (Hpk : forall g e, good g -> PI f g = Outcome.Ok (Some e) -> items_comments g = expr_comments e)
      by exact IHe.
    split; [|split; [|split; [|split]]].
    - (* pexpr *)
      intros rbp its t rest Hg H. rewrite PE_S in H.
      destruct its as [|pr0 rest0]; [discriminate H|].
      apply good_cons in Hg as [Hg0 Hgr].
      bind_ok H lr Hlr. destruct lr as [e mid]. cbn [fst snd] in H.
      destruct e as [e|]; [|apply PL_none in H; discriminate H].
      destruct (item_op pr0) as [r|] eqn:Hop.
      + destruct (ops_get tbl r) as [[[| |a] p]|] eqn:Hops; try discriminate Hlr.
        bind_ok Hlr rr Hrr. destruct rr as [x mid']. cbn [fst snd] in Hlr.
        bind_ok Hlr e' He'. inversion Hlr; subst e' mid'. clear Hlr.
        unfold map_prefix in He'.
        destruct x as [x|]; [|destruct (assoc_find r pmap) as [[u|]|]; inversion He'].
        destruct (IHa _ _ _ _ Hgr Hrr) as (E1 & Hgm & _).
        destruct (IHb _ _ _ _ _ Hgm H) as (E2 & Hgrest & Hst).
        split; [|split; assumption].
        cbn [items_comments]. rewrite (nonpostfix_no_comments _ _ _ _ Hop Hops) by discriminate.
        cbn [app]. rewrite E1, <- E2.
        destruct (assoc_find r pmap) as [[u|]|]; inversion He'; subst e; cbn [expr_comments];
          rewrite <- ?app_assoc; reflexivity.
      + bind_ok Hlr e' He'. inversion Hlr; subst e' mid. clear Hlr.
        destruct (IHb _ _ _ _ _ Hgr H) as (E2 & Hgrest & Hst).
        split; [|split; assumption]. cbn [items_comments]. rewrite (IHd _ _ Hg0 He'). exact E2.
    - (* ploop *)
      intros rbp lhs its t rest Hg H. rewrite PL_S in H. bind_ok H l Hl.
      destruct (Nat.ltb rbp l) eqn:Hlt.
      2:{ inversion H; subst. split; [reflexivity|split; [exact Hg|]].
          exists l. split; [exact Hl|]. apply Nat.ltb_ge in Hlt. exact Hlt. }
      destruct its as [|pr0 rest0]; [discriminate H|].
      apply good_cons in Hg as [Hg0 Hgr].
      destruct (item_op pr0) as [r|] eqn:Hop; [|discriminate H].
      destruct (ops_get tbl r) as [[[| |a] p]|] eqn:Hops; try discriminate H.
      + bind_ok H e He. destruct e as [e|]; [|apply PL_none in H; discriminate H].
        destruct (IHb _ _ _ _ _ Hgr H) as (E2 & Hgrest & Hst).
        split; [|split; assumption]. cbn [items_comments].
        rewrite <- E2, <- (IHc _ _ _ Hg0 He), <- !app_assoc. reflexivity.
      + bind_ok H rr Hrr. destruct rr as [x mid]. cbn [fst snd] in H.
        bind_ok H e He. destruct e as [e|]; [|apply PL_none in H; discriminate H].
        unfold map_infix in He. destruct (assoc_find r imap) as [o|]; [|discriminate He].
        destruct x as [x|]; [|inversion He]. inversion He; subst e. clear He.
        destruct (IHa _ _ _ _ Hgr Hrr) as (E1 & Hgm & _).
        destruct (IHb _ _ _ _ _ Hgm H) as (E2 & Hgrest & Hst).
        split; [|split; assumption].
        cbn [items_comments]. rewrite (nonpostfix_no_comments _ _ _ _ Hop Hops) by discriminate.
        cbn [app]. rewrite E1, <- E2. cbn [expr_comments]. rewrite <- !app_assoc. reflexivity.
    - (* map_postfix *)
      intros lhs pr0 t Hg H. cbn [map_postfix_c] in H.
      destruct pr0; try discriminate H.
      + destruct r; try discriminate H. inversion H; subst t. cbn. apply app_nil_r.
      + bind_ok H i Hi. destruct i as [i|]; inversion H; subst t.
        rewrite ic_IAccess. rewrite (Hpk _ _ (goodi_IAccess _ Hg) Hi). reflexivity.
      + inversion H; subst t. cbn. apply app_nil_r.
      + bind_ok H a Ha. destruct a as [a|]; inversion H; subst t.
        rewrite ic_ICall. rewrite (omapM_keeps _ Hpk _ _ (goodi_ICall _ Hg) Ha). reflexivity.
    - (* primary *)
      intros pr0 t Hg H. cbn [primary_c] in H.
      destruct pr0; try discriminate H; try (inversion H; subst t; reflexivity).
      + inversion H; subst t. destruct (builtin_of_name s); reflexivity.
      + rewrite ic_IExpr. apply Hpk; [eapply goodi_IExpr; exact Hg|exact H].
      + rewrite ic_IList. destruct (goodi_IList _ Hg) as (Hs & Ha & Hl).
        eapply list_arm_keeps; eauto.
      + rewrite ic_IRecord. destruct (goodi_IRecord _ Hg) as (Hs & Ha & Hl).
        eapply rec_arm_keeps; eauto.
      + bind_ok H b Hb. destruct b as [b|]; inversion H; subst t.
        rewrite ic_ILambda. cbn [expr_comments]. apply Hpk; [eapply goodi_ILambda; exact Hg|exact Hb].
      + destruct (goodi_ICond _ _ _ Hg) as (Hgc & Hgt & Hge).
        bind_ok H c' Hc. destruct c' as [c'|]; [|inversion H].
        bind_ok H t' Ht. destruct t' as [t'|]; [|inversion H].
        bind_ok H e' He. destruct e' as [e'|]; inversion H; subst t.
        rewrite ic_ICond. cbn [expr_comments].
        rewrite (Hpk _ _ Hgc Hc), (Hpk _ _ Hgt Ht), (Hpk _ _ Hge He). reflexivity.
      + rewrite ic_IDo. destruct (goodi_IDo _ Hg) as (Hs & Hd).
        unfold do_arm_c in H. rewrite <- (do_loop_keeps _ Hpk _ _ _ _ _ Hd Hs H). reflexivity.
      + bind_ok H v' Hv. destruct v' as [v'|]; inversion H; subst t.
        rewrite ic_IAssign. cbn [expr_comments]. apply Hpk; [eapply goodi_IAssign; exact Hg|exact Hv].
    - (* parse_items *)
      intros its t Hg H. rewrite PI_S in H. bind_ok H r Hr. destruct r as [x rest]. cbn [fst] in H.
      inversion H; subst x. destruct (IHa _ _ _ _ Hg Hr) as (E & _ & Hst).
      apply stops0 in Hst. subst rest. rewrite E. cbn [items_comments]. apply app_nil_r.
  Qed.
End Main.

(* ------------------------------------------------------------------ the crate's table *)
Lemma impl_table_pos : forall r a p, ops_get impl_table r = Some (a, p) -> 0 < p.
Proof. intros r a p. destruct r; vm_compute; intro H; inversion H; lia. Qed.
Lemma impl_table_postfix : forall r a p,
  r = R_access \/ r = R_dot_access \/ r = R_call_list -> ops_get impl_table r = Some (a, p) -> a = Postfix.
Proof. intros r a p [H|[H|H]]; subst r; vm_compute; intro H; inversion H; reflexivity. Qed.

(* pairs_to_expr_with_comments keeps every comment of its token stream, in order *)
Theorem pratt_c_keeps_comments : forall its t,
  shapes_ok its = true -> no_empty_containers its = true ->
  pratt_c its = Outcome.Ok (Some t) -> expr_comments t = items_comments its.
Proof.
  intros its t Hs Hn H. symmetry.
  destruct (keeps_all impl_table infix_map prefix_map impl_table_pos impl_table_postfix
                      (4 * items_size its + 4)) as (_ & _ & _ & _ & He).
  apply He; [split; assumption|exact H].
Qed.

(* ------------------------------------------------------------------ statements: tree level *)
Lemma strs_eqb_eq : forall a b, strs_eqb a b = true -> a = b.
Proof.
  induction a as [|x a IH]; destruct b as [|y b]; cbn; intro H; try discriminate H; [reflexivity|].
  apply andb_prop in H as [H1 H2]. apply String.eqb_eq in H1. subst y. f_equal. apply IH; exact H2.
Qed.

Lemma stmt_keeps : forall text t s,
  match stmt_items text t with
  | Some g => shapes_ok g = true /\ no_empty_containers g = true
  | None => True
  end ->
  stmt_of_tree text t = Outcome.Ok (Some s) ->
  stmt_view_comments text t = match s with Some x => stmt_comments x | None => [] end.
Proof.
  intros text [r s0 e0 kids] s Hg H. unfold stmt_view_comments, stmt_items in *. cbn [tkids] in *.
  cbn [stmt_of_tree] in H. destruct kids as [|first more]; [inversion H; reflexivity|].
  assert (Hgen : forall (mk : Ast.expr -> stmt_kind),
            (forall x, match mk x with SExpr e | SOut e => expr_comments e | SComment c => [c] end
                       = expr_comments x) ->
            shapes_ok (conv_kids text first) = true /\ no_empty_containers (conv_kids text first) = true ->
            obind (pratt_c (conv_kids text first))
              (fun r0 => Outcome.Ok
                 match r0 with
                 | Some x => Some (Some (St (mk x) (stmt_eol text (Node r s0 e0 (first :: more)))
                                            (line_of text s0) (line_of text e0)))
                 | None => None
                 end) = Outcome.Ok (Some s) ->
            items_comments (conv_kids text first) ++ opt_list (stmt_eol text (Node r s0 e0 (first :: more)))
            = match s with Some x => stmt_comments x | None => [] end).
  { intros mk Hmk [Hs Hn] H1.
    destruct (pratt_c (conv_kids text first)) as [[x|]| | | |] eqn:Hp; cbn [obind] in H1; try discriminate H1.
    inversion H1; subst s. cbn [stmt_comments]. rewrite Hmk.
    rewrite (pratt_c_keeps_comments _ _ Hs Hn Hp). reflexivity. }
  destruct (trule first) eqn:Hr;
    try (apply (Hgen SExpr (fun _ => eq_refl) Hg H); fail).
  - inversion H; subst s. reflexivity.
  - apply (Hgen SOut (fun _ => eq_refl) Hg H).
Qed.

Lemma forest_keeps : forall text l p,
  forallb shapes_ok (forest_items text l) = true ->
  forallb no_empty_containers (forest_items text l) = true ->
  program_of_forest text l = Outcome.Ok (Some p) ->
  forest_view_comments text l = program_comments p.
Proof.
  intros text. induction l as [|t l IH]; intros p Hs Hn H.
  - cbn in H. inversion H; reflexivity.
  - cbn [program_of_forest] in H. unfold forest_view_comments, forest_items in *. cbn [flat_map] in *.
    destruct (is_rule PG_statement t).
    + rewrite forallb_app in Hs, Hn. apply andb_prop in Hs as [Hs1 Hs2]. apply andb_prop in Hn as [Hn1 Hn2].
      destruct (stmt_of_tree text t) as [[s|]| | | |] eqn:Hst; cbn [obind] in H; try discriminate H.
      destruct (program_of_forest text l) as [[p'|]| | | |] eqn:Hp; cbn [obind option_map] in H;
        try discriminate H.
      inversion H; subst p. rewrite (IH p' Hs2 Hn2 eq_refl).
      rewrite (stmt_keeps text t s); [|destruct (stmt_items text t); [|exact I]; cbn [forallb] in Hs1, Hn1;
                                        rewrite andb_true_r in Hs1, Hn1; split; assumption|exact Hst].
      destruct s as [x|]; reflexivity.
    + apply IH; assumption.
Qed.

(* (a) the tree's comment pairs = the comments of the commented program the drivers format *)
Theorem parse_keeps_comments : forall text forest p,
  forest_view_ok text forest = true ->
  forest_shape_ok text forest = true ->
  forest_no_empty_container text forest = true ->
  program_of_forest text forest = Outcome.Ok (Some p) ->
  program_comments p = forest_comments text forest.
Proof.
  intros text forest p Hv Hs Hn H. apply strs_eqb_eq in Hv. rewrite Hv. symmetry.
  apply forest_keeps; assumption.
Qed.

(* the exclusion is necessary: `[ // c <LF> ]` *)
Definition empty_container_witness : string := "[ // c" +++ nl +++ "]".
Lemma parse_keeps_comments_refuted :
  exists forest p,
    parse_program_c empty_container_witness = PCOk forest p
    /\ forest_view_ok empty_container_witness forest = true
    /\ forest_shape_ok empty_container_witness forest = true
    /\ forest_no_empty_container empty_container_witness forest = false
    /\ forest_comments empty_container_witness forest = ["// c"]
    /\ program_comments p = [].
Proof.
  destruct (parse_program_c empty_container_witness) as [forest p| | | |] eqn:H;
    try (vm_compute in H; discriminate H).
  exists forest, p. split; [reflexivity|].
  assert (Hf : forest = match parse_program_c empty_container_witness with PCOk f _ => f | _ => [] end)
    by (rewrite H; reflexivity).
  assert (Hp : p = match parse_program_c empty_container_witness with PCOk _ q => q | _ => [] end)
    by (rewrite H; reflexivity).
  subst forest p. vm_compute. repeat split; reflexivity.
Qed.
