(* InstDepth.v — the concrete operator and built-in implementations (EvalInst.v) are monotone
   in their callback w.r.t. "is the depth error, or equal": instances for DepthMono.v. *)
From Coq Require Import String List ZArith Bool Lia.
Require Import Blots.Num Blots.gen.Builtins Blots.Ast Blots.Value Blots.Outcome Blots.Binop
               Blots.Env Blots.Eval Blots.BuiltinsHof Blots.Program Blots.EvalInst
               Blots.proofs.DepthMono.
Import ListNotations.

Lemma binop_impl_le : binop_le binop_impl.
Proof.
  intros cb1 cb2 Hcb op l r st. unfold binop_impl.
  destruct op; try apply rle_refl; apply eval_binop_le; exact Hcb.
Qed.

Lemma rle_omap : forall A B S (f : A -> B) (x y : outcome A * S),
  rle x y -> rle (omap f (fst x), snd x) (omap f (fst y), snd y).
Proof.
  intros A B S f [o1 s1] [o2 s2] [Hd|Heq]; cbn in *.
  - subst. left; reflexivity.
  - inversion Heq; subst. right; reflexivity.
Qed.

Lemma builtin_impl_le : builtin_le builtin_impl.
Proof.
  intros cb1 cb2 Hcb b args st.
  destruct b; cbn [builtin_impl]; try apply rle_refl.
  - (* map *) unfold bi_map. destruct (hof_prelude args) as [[f l]| | | |]; try apply rle_refl.
    pose proof (map_loop_le cb1 cb2 Hcb f (accepts f 2) l 0 st) as H.
    destruct (map_loop cb1 f (accepts f 2) l 0 st) as [o1 s1],
             (map_loop cb2 f (accepts f 2) l 0 st) as [o2 s2].
    exact (rle_omap _ _ _ VList _ _ H).
  - (* reduce *) unfold bi_reduce.
    match goal with |- rle (match ?x with _ => _ end) _ => destruct x as [[[f i0] l]| | | |] end;
      try apply rle_refl.
    apply reduce_loop_le; exact Hcb.
  - (* filter *) unfold bi_filter. destruct (hof_prelude args) as [[f l]| | | |]; try apply rle_refl.
    pose proof (filter_loop_le cb1 cb2 Hcb f (accepts f 2) l 0 st) as H.
    destruct (filter_loop cb1 f (accepts f 2) l 0 st) as [o1 s1],
             (filter_loop cb2 f (accepts f 2) l 0 st) as [o2 s2].
    exact (rle_omap _ _ _ VList _ _ H).
  - (* every *) unfold bi_every. destruct (hof_prelude args) as [[f l]| | | |]; try apply rle_refl.
    apply every_loop_le; exact Hcb.
  - (* some *) unfold bi_some. destruct (hof_prelude args) as [[f l]| | | |]; try apply rle_refl.
    apply some_loop_le; exact Hcb.
Qed.
