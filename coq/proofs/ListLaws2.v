(* ListLaws2.v — unique keeps the first member of each .== class; zip; range. *)
From Coq Require Import String Ascii List ZArith Bool Lia Permutation.
Require Import Blots.Num Blots.gen.Builtins Blots.Ast Blots.Value Blots.Outcome Blots.Access Blots.BuiltinsList Blots.proofs.ValueInd Blots.proofs.Order.
Import ListNotations.
Open Scope list_scope.

(* ---------------------------------------------------------------- Part 1: unique *)

(* keep x iff no EARLIER element of the input (kept or not) is .== to it *)
Fixpoint firsts (seen : list value) (l : list value) : list value :=
  match l with
  | [] => []
  | x :: r => if existsb (fun e => equals x e) seen then firsts (x :: seen) r else x :: firsts (x :: seen) r
  end.

Lemma existsb_kept_seen x kept seen :
  data x = true -> forallb data seen = true -> forallb data kept = true ->
  (forall k, In k kept -> In k seen) ->
  (forall s, In s seen -> exists k, In k kept /\ equals s k = true) ->
  existsb (fun e => equals x e) kept = existsb (fun e => equals x e) seen.
Proof.
  intros Hx Hs Hk Hsub Hcov.
  rewrite forallb_forall in Hs, Hk.
  destruct (existsb (fun e => equals x e) seen) eqn:E.
  - apply existsb_exists in E. destruct E as [s [Hin Hxs]].
    destruct (Hcov s Hin) as [k [Hkin Hsk]].
    apply existsb_exists. exists k. split; [assumption|].
    apply (equals_trans x s k); auto.
  - destruct (existsb (fun e => equals x e) kept) eqn:E2; [|reflexivity].
    apply existsb_exists in E2. destruct E2 as [k [Hkin Hxk]].
    assert (existsb (fun e => equals x e) seen = true) as E3.
    { apply existsb_exists. exists k. split; auto. }
    congruence.
Qed.

Lemma unique_go_firsts l : forall seen kept,
  forallb data l = true -> forallb data seen = true -> forallb data kept = true ->
  (forall k, In k kept -> In k seen) ->
  (forall s, In s seen -> exists k, In k kept /\ equals s k = true) ->
  unique_go l kept = kept ++ firsts seen l.
Proof.
  induction l as [|x r IH]; intros seen kept Hl Hs Hk Hsub Hcov.
  - cbn [unique_go firsts]. now rewrite app_nil_r.
  - cbn [forallb] in Hl. apply andb_true_iff in Hl. destruct Hl as [Hx Hr].
    cbn [unique_go firsts].
    rewrite (existsb_kept_seen x kept seen Hx Hs Hk Hsub Hcov).
    destruct (existsb (fun e => equals x e) seen) eqn:E.
    + apply IH; auto.
      * cbn [forallb]. now rewrite Hx, Hs.
      * intros k Hin. right. auto.
      * intros s [<-|Hin]; [|auto].
        apply existsb_exists in E. destruct E as [s [Hin Hxs]].
        destruct (Hcov s Hin) as [k [Hkin Hsk]].
        exists k. split; [assumption|].
        rewrite forallb_forall in Hs, Hk.
        apply (equals_trans x s k); auto.
    + rewrite (IH (x :: seen) (kept ++ [x])); auto.
      * now rewrite <- app_assoc.
      * cbn [forallb]. now rewrite Hx, Hs.
      * rewrite forallb_app. cbn [forallb]. now rewrite Hk, Hx.
      * intros k Hin. apply in_app_or in Hin. destruct Hin as [Hin|[<-|[]]].
        -- right. auto.
        -- now left.
      * intros s [<-|Hin].
        -- exists x. split; [apply in_or_app; right; now left|now apply equals_refl].
        -- destruct (Hcov s Hin) as [k [Hkin Hsk]]. exists k. split; [|assumption].
           apply in_or_app. now left.
Qed.

Lemma unique_first_of_class l : forallb data l = true -> bi_unique [VList l] = Ok (VList (firsts [] l)).
Proof.
  intros Hl. unfold bi_unique, arg. cbn [nth_error obind as_list].
  rewrite (unique_go_firsts l [] []); auto.
  - intros s [].
Qed.

Lemma firsts_incl l : forall seen y, In y (firsts seen l) -> In y l.
Proof.
  induction l as [|x r IH]; intros seen y; cbn [firsts]; [tauto|].
  destruct (existsb (fun e => equals x e) seen).
  - intros H. right. eauto.
  - intros [<-|H]; [now left|right; eauto].
Qed.

Lemma firsts_covers_gen l : forall seen x,
  forallb data l = true -> forallb data seen = true -> In x l ->
  (exists y, In y (firsts seen l) /\ equals x y = true) \/
  (exists s, In s seen /\ equals x s = true).
Proof.
  induction l as [|a r IH]; intros seen x Hl Hs Hin; [destruct Hin|].
  cbn [forallb] in Hl. apply andb_true_iff in Hl. destruct Hl as [Ha Hr].
  assert (Hxd : data x = true).
  { destruct Hin as [<-|Hin]; [assumption|]. rewrite forallb_forall in Hr. auto. }
  cbn [firsts].
  destruct (existsb (fun e => equals a e) seen) eqn:E.
  - apply existsb_exists in E. destruct E as [s' [Hs'in Has']].
    destruct Hin as [<-|Hin].
    + right. exists s'. auto.
    + destruct (IH (a :: seen) x Hr) as [H|[s [[<-|Hsin] Hxs]]]; auto.
      * cbn [forallb]. now rewrite Ha, Hs.
      * right. exists s'. split; [assumption|].
        rewrite forallb_forall in Hs.
        apply (equals_trans x a s'); auto.
      * right. exists s. auto.
  - destruct Hin as [<-|Hin].
    + left. exists a. split; [now left|now apply equals_refl].
    + destruct (IH (a :: seen) x Hr) as [[y [Hy Hxy]]|[s [[<-|Hsin] Hxs]]]; auto.
      * cbn [forallb]. now rewrite Ha, Hs.
      * left. exists y. split; [now right|assumption].
      * left. exists a. split; [now left|assumption].
      * right. exists s. auto.
Qed.

Lemma firsts_covers l x : forallb data l = true -> In x l -> exists y, In y (firsts [] l) /\ equals x y = true.
Proof.
  intros Hl Hin.
  destruct (firsts_covers_gen l [] x Hl eq_refl Hin) as [H|[s [[] _]]]. exact H.
Qed.

Lemma firsts_distinct_gen l : forall seen,
  forallb data l = true ->
  ForallOrdPairs (fun a b => equals a b = false) (firsts seen l) /\
  (forall y s, In y (firsts seen l) -> In s seen -> equals y s = false).
Proof.
  induction l as [|a r IH]; intros seen Hl.
  - cbn [firsts]. split; [constructor|intros y s []].
  - cbn [forallb] in Hl. apply andb_true_iff in Hl. destruct Hl as [Ha Hr].
    destruct (IH (a :: seen) Hr) as [IH1 IH2].
    cbn [firsts].
    destruct (existsb (fun e => equals a e) seen) eqn:E.
    + split; [assumption|]. intros y s Hy Hsin. apply IH2; [assumption|now right].
    + split.
      * constructor; [|assumption].
        apply Forall_forall. intros y Hy.
        assert (Hyd : data y = true).
        { rewrite forallb_forall in Hr. apply Hr. eapply firsts_incl; eauto. }
        rewrite (equals_sym a y Ha Hyd). apply IH2; [assumption|now left].
      * intros y s [<-|Hy] Hsin.
        -- destruct (equals a s) eqn:E2; [|reflexivity].
           assert (existsb (fun e => equals a e) seen = true) as E3.
           { apply existsb_exists. exists s. auto. }
           congruence.
        -- apply IH2; [assumption|now right].
Qed.

Lemma firsts_distinct l : forallb data l = true -> ForallOrdPairs (fun a b => equals a b = false) (firsts [] l).
Proof. intros Hl. apply (firsts_distinct_gen l [] Hl). Qed.

(* ---------------------------------------------------------------- Part 2: zip *)

Lemma mapM_VList ls :
  mapM (fun a => match a with VList l => Ok l | _ => Err end) (map VList ls) = Ok ls.
Proof.
  induction ls as [|l r IH]; [reflexivity|].
  cbn [map mapM obind]. rewrite IH. reflexivity.
Qed.

Lemma nth_error_seq s n i : (i < n)%nat -> nth_error (seq s n) i = Some (s + i)%nat.
Proof.
  revert s i. induction n as [|n IH]; intros s i Hi; [lia|].
  destruct i as [|i]; cbn [seq nth_error].
  - f_equal. lia.
  - rewrite IH by lia. f_equal. lia.
Qed.

Lemma zip_spec ls :
  exists rows, bi_zip (map VList ls) = Ok (VList rows) /\
    length rows = fold_left (fun m l => Nat.max m (length l)) ls 0%nat /\
    forall i, (i < length rows)%nat -> nth_error rows i = Some (VList (map (fun l => nth i l VNull) ls)).
Proof.
  exists (map (zip_tuple ls) (seq 0 (fold_left (fun m l => Nat.max m (length l)) ls 0%nat))).
  split; [|split].
  - unfold bi_zip. rewrite mapM_VList. reflexivity.
  - now rewrite map_length, seq_length.
  - intros i Hi. rewrite map_length, seq_length in Hi.
    apply (map_nth_error (zip_tuple ls)) with (n := i) (d := i).
    now rewrite nth_error_seq by assumption.
Qed.

Lemma fold_max_gen (ls : list (list value)) : forall m0,
  let m := fold_left (fun m l => Nat.max m (length l)) ls m0 in
  (m0 <= m)%nat /\ (forall l, In l ls -> (length l <= m)%nat) /\
  (m = m0 \/ exists l, In l ls /\ length l = m).
Proof.
  induction ls as [|a r IH]; intros m0; cbn [fold_left].
  - split; [lia|]. split; [intros l []|now left].
  - destruct (IH (Nat.max m0 (length a))) as [H1 [H2 H3]].
    cbv zeta in *.
    set (m := fold_left (fun m l => Nat.max m (length l)) r (Nat.max m0 (length a))) in *.
    split; [lia|]. split.
    + intros l [<-|Hin]; [lia|auto].
    + destruct H3 as [H3|[l [Hin Hl]]].
      * destruct (Nat.max_spec m0 (length a)) as [[_ Hm]|[_ Hm]].
        -- right. exists a. split; [now left|lia].
        -- left. lia.
      * right. exists l. split; [now right|assumption].
Qed.

Lemma zip_max_len ls :
  let m := fold_left (fun m l => Nat.max m (length l)) ls 0%nat in
  (forall l : list value, In l ls -> (length l <= m)%nat) /\ (ls <> [] -> exists l, In l ls /\ length l = m).
Proof.
  destruct (fold_max_gen ls 0%nat) as [_ [H2 H3]]. cbv zeta in *.
  split; [exact H2|].
  intros Hne. destruct H3 as [H3|H3]; [|exact H3].
  destruct ls as [|a r]; [congruence|].
  exists a. split; [now left|].
  specialize (H2 a (or_introl eq_refl)). lia.
Qed.

Lemma zip_wrong_type args : (exists a, In a args /\ match a with VList _ => False | _ => True end) -> bi_zip args = Err.
Proof.
  intros [a [Hin Ha]]. unfold bi_zip.
  assert (mapM (fun a => match a with VList l => Ok l | _ => Err end) args = Err) as ->; [|reflexivity].
  induction args as [|b r IH]; [destruct Hin|].
  cbn [mapM].
  destruct Hin as [->|Hin].
  - destruct a; try reflexivity. destruct Ha.
  - rewrite (IH Hin). destruct b; reflexivity.
Qed.

(* ---------------------------------------------------------------- Part 3: range *)

Lemma zrange_length s n : length (zrange s n) = n.
Proof. revert s. induction n as [|n IH]; intros s; cbn [zrange length]; [reflexivity|now rewrite IH]. Qed.

Lemma zrange_nth s n i : (i < n)%nat -> nth_error (zrange s n) i = Some (s + Z.of_nat i)%Z.
Proof.
  revert s i. induction n as [|n IH]; intros s i Hi; [lia|].
  destruct i as [|i]; cbn [zrange nth_error].
  - f_equal. lia.
  - rewrite IH by lia. f_equal. lia.
Qed.

Lemma I64_MIN_val : I64_MIN = (-9223372036854775808)%Z.
Proof. reflexivity. Qed.
Lemma I64_MAX_val : I64_MAX = 9223372036854775807%Z.
Proof. reflexivity. Qed.
Lemma U32_MAX_val : U32_MAX = 4294967295%Z.
Proof. reflexivity. Qed.

Lemma range_spec x y a b :
  is_finite x = true -> is_finite y = true -> ngtb x y = false ->
  as_i64 x = a -> as_i64 y = b -> (a <= b)%Z -> (b - a <= U32_MAX)%Z ->
  bi_range [VNum x; VNum y] =
  Ok (VList (map (fun e => VNum (num_of_Z e)) (zrange a (Z.to_nat (b - a))))).
Proof.
  intros Hfx Hfy Hgt Ha Hb Hab Hlen.
  cbn [bi_range]. unfold range_body.
  rewrite Hgt, Hfx, Hfy, Ha, Hb. cbn [negb orb].
  rewrite U32_MAX_val in Hlen.
  assert (clamp I64_MIN I64_MAX (b - a) = (b - a)%Z) as ->.
  { unfold clamp. rewrite I64_MIN_val, I64_MAX_val.
    destruct (b - a <? -9223372036854775808)%Z eqn:E1; [apply Z.ltb_lt in E1; lia|].
    destruct (9223372036854775807 <? b - a)%Z eqn:E2; [apply Z.ltb_lt in E2; lia|]. reflexivity. }
  assert ((U32_MAX <? b - a)%Z = false) as ->.
  { rewrite U32_MAX_val. apply Z.ltb_ge. lia. }
  reflexivity.
Qed.

(* a difference that does not fit the u32 cap — in particular one that saturates — is an error *)
Lemma range_too_long x y :
  is_finite x = true -> is_finite y = true -> ngtb x y = false ->
  (U32_MAX < as_i64 y - as_i64 x)%Z -> bi_range [VNum x; VNum y] = Err.
Proof.
  intros Hfx Hfy Hgt Hlen.
  cbn [bi_range]. unfold range_body. rewrite Hgt, Hfx, Hfy. cbn [negb orb].
  assert ((U32_MAX <? clamp I64_MIN I64_MAX (as_i64 y - as_i64 x))%Z = true) as ->; [|reflexivity].
  apply Z.ltb_lt. unfold clamp. rewrite U32_MAX_val in *. rewrite I64_MIN_val, I64_MAX_val.
  destruct (as_i64 y - as_i64 x <? -9223372036854775808)%Z eqn:E1; [apply Z.ltb_lt in E1; lia|].
  destruct (9223372036854775807 <? as_i64 y - as_i64 x)%Z eqn:E2; lia.
Qed.

Lemma range_body_no_panic s e : range_body s e <> Panic.
Proof.
  unfold range_body.
  destruct (ngtb s e); [discriminate|].
  destruct (negb (is_finite s) || negb (is_finite e)); [discriminate|].
  destruct (U32_MAX <? clamp I64_MIN I64_MAX (as_i64 e - as_i64 s))%Z; discriminate.
Qed.

(* range never panics, whatever it is given (was: C14-range-overflow, fixed by fb5b104) *)
Lemma range_no_panic args : bi_range args <> Panic.
Proof.
  destruct args as [|a1 [|a2 [|a3 r]]].
  - cbn [bi_range]. discriminate.
  - destruct a1; try (cbn [bi_range]; discriminate).
    cbn [bi_range]. apply range_body_no_panic.
  - destruct a1; try (cbn [bi_range]; discriminate).
    destruct a2; try (cbn [bi_range]; discriminate).
    cbn [bi_range]. apply range_body_no_panic.
  - destruct a1; try (cbn [bi_range]; discriminate).
    destruct a2; cbn [bi_range]; discriminate.
Qed.

Example range_old_witness :
  bi_range [VNum (num_of_Z (-(10^19))); VNum (num_of_Z (10^19))] = Err.
Proof. vm_compute. reflexivity. Qed.
