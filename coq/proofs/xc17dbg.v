From Coq Require Import ZArith Reals Floats.SpecFloat Psatz Lra List Bool String.
From Flocq Require Import Core Relative Plus_error BinarySingleNaN.
Require Import Blots.Num Blots.UnitsBase Blots.gen.UnitsTable Blots.Units Blots.proofs.UnitsLaws Blots.proofs.UnitsFloat Blots.proofs.UnitsFloat2.
Import ListNotations.
Open Scope R_scope.
Definition pchk K ua ub :=  if same_cat ua ub && is_lr ua && is_lr ub
    then finb (cnum ua) && finb (cnum ub) && tab_ok ua ub (- K, K)%Z else true.
Lemma t0 : forallb (fun ua => forallb (pchk Kv ua) all_units) all_units = true.
Proof. exact table_lr_pairs_ok. Time Qed.
Lemma t1 ua : In ua all_units -> forallb (pchk Kv ua) all_units = true.
Proof.
  intros Ia. exact (proj1 (forallb_forall (fun ua => forallb (pchk Kv ua) all_units) all_units) t0 ua Ia).
Time Qed.
