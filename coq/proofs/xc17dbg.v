From Coq Require Import ZArith Reals Floats.SpecFloat Psatz Lra List Bool String.
From Flocq Require Import Core Relative Plus_error BinarySingleNaN.
Require Import Blots.Num Blots.UnitsBase Blots.gen.UnitsTable Blots.Units Blots.proofs.UnitsLaws Blots.proofs.UnitsFloat Blots.proofs.UnitsFloat2.
Import ListNotations.
Open Scope R_scope.
Lemma u53_val : u53 = / 9007199254740992.
Proof. unfold u53. simpl bpow. Show. lra. Qed.
Definition n32 := num_of_bits (l_bits lit_32).
Lemma n32_val : Rv n32 = 32.
Proof. unfold Rv, n32. vm_compute num_of_bits. Show. unfold SF2R, F2R. simpl. Show. lra. Qed.
Definition n273 := num_of_bits (l_bits lit_273_15).
Lemma n273_val : Rv n273 = 4805297063480934 / 17592186044416.
Proof. unfold Rv, n273. vm_compute num_of_bits. unfold SF2R, F2R. simpl. Show. lra. Qed.
Lemma isB_n32 : isB n32 32.
Proof. rewrite <- n32_val. apply isB_of_valid; reflexivity. Qed.
