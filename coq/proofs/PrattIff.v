(* PrattIff.v — the other direction for the declarative relation: every stream that renders t with at
   least the parentheses the level assignment requires (Rend) is converted to t.  With
   PrattConverse:  Items its t  <->  Rend 0 its t. *)
From Coq Require Import String List Bool Arith Lia.
Require Import Blots.Num Blots.gen.Builtins Blots.Ast Blots.Outcome Blots.PrattTypes Blots.Pratt
               Blots.PrattRender Blots.proofs.PrattConverse.
Import ListNotations.
Local Open Scope nat_scope.
Local Open Scope list_scope.

Section Forward.
  Variable tbl : ops_map.
  Variable imap : list (oprule * binop).
  Variable pmap : list (oprule * prefix_ctor).
  Variable bprec : binop -> nat.
  Variable rassoc : binop -> bool.
  Variables Ppre Pmax : nat.

  (* the table, read forwards *)
  Hypothesis F_infix : forall r o, assoc_find r imap = Some o ->
    ops_get tbl r = Some (Infix (if rassoc o then ARight else ALeft), bprec o).
  Hypothesis F_postfix : forall r p, ops_get tbl r = Some (Postfix, p) -> Ppre < p /\ p <= Pmax.
  Hypothesis F_prefix_ctor : forall r x u, map_prefix pmap r (Some x) = Ok (Some u) ->
    match u with EBin _ _ _ => False | _ => True end.
  Hypothesis prec_pos : forall o, 0 < bprec o.
  Hypothesis prec_lt_pre : forall o, bprec o < Ppre.
  Hypothesis pre_le_max : Ppre <= Pmax.
  Hypothesis level_assoc : forall o1 o2, bprec o1 = bprec o2 -> rassoc o1 = rassoc o2.

  Notation needL := (needL bprec rassoc).
  Notation needR := (needR bprec rassoc).
  Notation ExprR := (Expr tbl imap pmap).
  Notation LoopR := (Loop tbl imap pmap).
  Notation RendR := (Rend tbl imap pmap bprec rassoc Ppre).

  Definition rbp_o (o : binop) : nat := if rassoc o then bprec o - 1 else bprec o.

  (* Rend with the openness of the right edge computed alongside *)
  Inductive RendK : nat -> list item -> expr -> nat -> Prop :=
  | Rk_prim m i x : item_op i = None -> Prim tbl imap pmap i x -> RendK m [i] x Pmax
  | Rk_bin m i r o l x il ir kl kr :
      item_op i = Some r -> assoc_find r imap = Some o -> m <= bprec o ->
      RendK (needL o) il l kl -> RendK (needR o) ir x kr ->
      RendK m (il ++ i :: ir) (EBin o l x) (Nat.min (rbp_o o) kr)
  | Rk_pre m i r x u ix kx :
      item_op i = Some r ->
      ops_get tbl r = Some (Prefix, Ppre) -> map_prefix pmap r (Some x) = Ok (Some u) -> m <= Ppre ->
      RendK Ppre ix x kx -> RendK m (i :: ix) u (Nat.min (Ppre - 1) kx)
  | Rk_post m i r p lhs u il kl :
      item_op i = Some r -> ops_get tbl r = Some (Postfix, p) -> m <= p ->
      Post tbl imap pmap lhs i u -> RendK (S Ppre) il lhs kl -> RendK m (il ++ [i]) u Pmax.

  Lemma Rend_has_K : forall m its t, RendR m its t -> exists k, RendK m its t k.
  Proof.
    intros m its t H. induction H.
    - eexists. apply Rk_prim; assumption.
    - destruct IHRend1 as (kl & Hl). destruct IHRend2 as (kr & Hr). eexists. eapply Rk_bin; eauto.
    - destruct IHRend as (kx & Hx). eexists. eapply Rk_pre; eauto.
    - destruct IHRend as (kl & Hl). eexists. eapply Rk_post; eauto.
  Qed.

  (* lower bounds of the openness *)
  Definition KB (m : nat) (t : expr) (k : nat) : Prop :=
    (m <= S Ppre -> m - 1 <= k) /\
    (forall o l x, t = EBin o l x -> rbp_o o <= k) /\
    (forall o l x, t = EBin o l x -> Pmax <= k \/ m <= bprec o) /\
    (match t with EBin _ _ _ => True | _ => Ppre - 1 <= k end) /\
    (Ppre < m -> Pmax <= k).

  Lemma rbp_o_lt : forall o, rbp_o o < Ppre.
  Proof. intro o. pose proof (prec_lt_pre o). unfold rbp_o. destruct (rassoc o); lia. Qed.

  Lemma RendK_bounds : forall m its t k, RendK m its t k -> KB m t k.
  Proof.
    intros m its t k H. induction H.
    - (* primary: Pmax *)
      split; [|split; [|split; [|split]]].
      + intros Hm. lia.
      + intros o l y E. pose proof (rbp_o_lt o). lia.
      + intros o l y E. left. apply le_n.
      + destruct x; try exact I; lia.
      + intros _. apply le_n.
    - (* binary *)
      destruct IHRendK2 as (B1 & _).
      assert (Hkr : rbp_o o <= kr).
      { assert (Hn : needR o <= S Ppre).
        { pose proof (prec_lt_pre o). unfold PrattRender.needR. destruct (rassoc o); lia. }
        specialize (B1 Hn). unfold PrattRender.needR, rbp_o in *. destruct (rassoc o); lia. }
      rewrite (Nat.min_l _ _ Hkr).
      split; [|split; [|split; [|split]]].
      + intros _. unfold rbp_o. destruct (rassoc o); lia.
      + intros o' l' x' E. inversion E; subst. apply le_n.
      + intros o' l' x' E. inversion E; subst. right. assumption.
      + exact I.
      + intro Hm. pose proof (prec_lt_pre o). lia.
    - (* prefix *)
      destruct IHRendK as (B1 & _).
      assert (Hkx : Ppre - 1 <= kx) by (apply B1; lia).
      rewrite (Nat.min_l _ _ Hkx). pose proof (F_prefix_ctor _ _ _ H1) as Hu.
      split; [|split; [|split; [|split]]].
      + intros _. lia.
      + intros o l y E. subst u. destruct Hu.
      + intros o l y E. subst u. destruct Hu.
      + destruct u; try apply le_n. exact I.
      + intro Hm. lia.
    - (* postfix: Pmax *)
      destruct (F_postfix _ _ H0) as [Hp1 Hp2].
      split; [|split; [|split; [|split]]].
      + intros Hm. lia.
      + intros o l y E. pose proof (rbp_o_lt o). lia.
      + intros o l y E. left. apply le_n.
      + destruct u; try exact I; lia.
      + intros _. apply le_n.
  Qed.

  Definition followsK (k : nat) (rest : list item) : Prop := exists b, lbp tbl rest = Ok b /\ b <= k.

  Lemma stops : forall rbp lhs rest, followsK rbp rest -> LoopR rbp lhs rest lhs rest.
  Proof. intros rbp lhs rest (b & Hb & Hle). eapply L_stop; eauto. Qed.

  Lemma forward_gen : forall m its t k, RendK m its t k ->
    forall rbp rest u rest', rbp < m -> rbp < Ppre -> followsK k rest ->
      LoopR rbp t rest u rest' -> ExprR rbp (its ++ rest) u rest'.
  Proof.
    intros m its t k H. induction H; intros rbp rest res rest' Hm Hpre Hf HL.
    - cbn [app]. eapply E_primary; [assumption | eassumption | exact HL].
    - (* binary *)
      pose proof (RendK_bounds _ _ _ _ H3) as (Br1 & _).
      assert (Hkr : rbp_o o <= kr).
      { assert (needR o <= S Ppre).
        { pose proof (prec_lt_pre o). unfold PrattRender.needR. destruct (rassoc o); lia. }
        specialize (Br1 H4). unfold PrattRender.needR, rbp_o in *. destruct (rassoc o); lia. }
      rewrite (Nat.min_l _ _ Hkr) in Hf.
      rewrite <- app_assoc. cbn [app].
      assert (Hright : ExprR (rbp_o o) (ir ++ rest) x rest).
      { apply IHRendK2.
        - unfold PrattRender.needR, rbp_o. pose proof (prec_pos o). destruct (rassoc o); lia.
        - apply rbp_o_lt.
        - destruct Hf as (b & Hb & Hle). exists b. split; [exact Hb | lia].
        - apply stops. exact Hf. }
      assert (Hstep : LoopR rbp l (i :: ir ++ rest) res rest').
      { eapply L_infix; [exact H | apply F_infix; exact H0 | lia | | | exact HL].
        - unfold rbp_o in Hright. destruct (rassoc o); exact Hright.
        - unfold map_infix. rewrite H0. reflexivity. }
      apply IHRendK1; [unfold PrattRender.needL; destruct (rassoc o); lia | exact Hpre | | exact Hstep].
      (* the operator may follow the left operand *)
      exists (bprec o). split.
      { unfold lbp. rewrite H. rewrite (F_infix _ _ H0). reflexivity. }
      pose proof (RendK_bounds _ _ _ _ H2) as (Bl1 & Bl2 & Bl3 & Bl4 & _).
      assert (HnL : needL o <= S Ppre).
      { pose proof (prec_lt_pre o). unfold PrattRender.needL. destruct (rassoc o); lia. }
      specialize (Bl1 HnL).
      destruct (rassoc o) eqn:Ha.
      + unfold PrattRender.needL in Bl1. rewrite Ha in Bl1. lia.
      + destruct l; try (cbn in Bl4; pose proof (prec_lt_pre o); lia).
        specialize (Bl2 _ _ _ eq_refl). destruct (Bl3 _ _ _ eq_refl) as [Hbig | Hle].
        * pose proof (prec_lt_pre o). lia.
        * unfold PrattRender.needL in Hle. rewrite Ha in Hle.
          destruct (Nat.eq_dec (bprec op) (bprec o)) as [E|E].
          -- pose proof (level_assoc _ _ E) as Hs. rewrite Ha in Hs. unfold rbp_o in Bl2. rewrite Hs in Bl2. lia.
          -- unfold rbp_o in Bl2. destruct (rassoc op); lia.
    - (* prefix *)
      pose proof (RendK_bounds _ _ _ _ H3) as (Bx1 & _).
      assert (Hkx : Ppre - 1 <= kx) by (apply Bx1; lia).
      rewrite (Nat.min_l _ _ Hkx) in Hf.
      cbn [app]. eapply E_prefix; [exact H | exact H0 | | exact H1 | exact HL].
      apply IHRendK; [lia | lia | | apply stops; exact Hf].
      destruct Hf as (b & Hb & Hle). exists b. split; [exact Hb | lia].
    - (* postfix *)
      destruct (F_postfix _ _ H0) as [Hp1 Hp2].
      rewrite <- app_assoc. cbn [app].
      apply IHRendK; [lia | exact Hpre | |].
      + pose proof (RendK_bounds _ _ _ _ H3) as (_ & _ & _ & _ & B5).
        exists p. split; [unfold lbp; rewrite H, H0; reflexivity|]. specialize (B5 ltac:(lia)). lia.
      + eapply L_postfix; [exact H | exact H0 | lia | exact H2 | exact HL].
  Qed.

  (* every rendering is converted to the tree it renders *)
  Theorem rend_parses : 0 < Ppre -> forall m its t, 0 < m -> RendR m its t -> Items tbl imap pmap its t.
  Proof.
    intros Hp m its t Hm H. destruct (Rend_has_K _ _ _ H) as (k & HK).
    eapply I_intro with (rest := []). rewrite <- (app_nil_r its).
    eapply forward_gen; [exact HK | exact Hm | exact Hp | exists 0; split; [reflexivity | lia] |].
    apply stops. exists 0. split; [reflexivity | lia].
  Qed.
End Forward.

(* ------------------------------------------------------------------ the generated table *)
Require Import Blots.gen.PrecTable Blots.proofs.PrattTable.

Lemma impl_F_infix : forall r o, assoc_find r infix_map = Some o ->
  ops_get impl_table r = Some (Infix (if spec_rassoc o then ARight else ALeft), spec_bprec o).
Proof. intros r o H. destruct r; vm_compute in H; try discriminate; inversion H; subst; vm_compute; reflexivity. Qed.
Lemma impl_F_postfix : forall r p, ops_get impl_table r = Some (Postfix, p) -> spec_Ppre < p /\ p <= spec_Ppost.
Proof.
  intros r p H. destruct r; vm_compute in H; try discriminate; inversion H; subst; vm_compute;
    split; repeat constructor.
Qed.
Lemma impl_F_prefix_ctor : forall r x u, map_prefix prefix_map r (Some x) = Ok (Some u) ->
  match u with EBin _ _ _ => False | _ => True end.
Proof.
  intros r x u H. unfold map_prefix in H.
  destruct (assoc_find r prefix_map) as [[uo|]|]; cbn in H; inversion H; exact I.
Qed.

(* every stream that renders t with at least the parentheses spec_table requires is converted to t *)
Theorem rend_parses_impl : forall its t, RendSpec 1 its t -> Items impl_table infix_map prefix_map its t.
Proof.
  intros its t H. unfold RendSpec in H.
  eapply (rend_parses impl_table infix_map prefix_map spec_bprec spec_rassoc spec_Ppre spec_Ppost);
    try exact H.
  - exact impl_F_infix.
  - exact impl_F_postfix.
  - exact impl_F_prefix_ctor.
  - intro o. unfold spec_bprec, pest_scale. lia.
  - destruct o; vm_compute; repeat constructor.
  - vm_compute. repeat constructor.
  - exact impl_level_assoc.
  - vm_compute. repeat constructor.
  - apply le_n.
Qed.

(* the parser accepts exactly the renderings, and returns the rendered tree *)
Theorem parse_iff_impl : forall its t,
  Items impl_table infix_map prefix_map its t <-> RendSpec 1 its t.
Proof. intros its t. split; [apply parse_sound_impl | apply rend_parses_impl]. Qed.
