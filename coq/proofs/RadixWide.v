(* proofs/RadixWide.v — C16 / F25 repair (fixes/C16-radix-literal-range.diff): the wide-accumulator
   conversion of 0x / 0b digit strings, `parse_radix_digits` (NumText.v 3b'), returns the double
   nearest (ties to even) to the integer the digits denote — for EVERY digit string, any length.

   The digits are folded into a u128 accumulator `acc` until a further digit would not fit; from
   then on each digit only multiplies `scale` (a power of two, +inf past 2^1023) by the radix and ORs
   "digit non-zero" into `sticky`; the result is ((acc | sticky) as f64) * scale.

   Why this is correctly rounded: with v = acc * 2^k + rest, 0 <= rest < 2^k, sticky = (rest <> 0) and
   acc of p >= 55 significant bits, (acc | sticky) * 2^k is v ROUNDED TO ODD at precision p
   (round_odd_wide); rounding to nearest-even at 53 bits after rounding to odd at >= 55 bits is rounding
   to nearest-even directly (Flocq, Prop.Round_odd.round_N_odd); RNE commutes with the exact scaling
   by 2^k above the subnormal range (rne_scale); and multiplying a double >= 1 by a power of two is
   exact or overflows to +inf (nmul_pow2).  Axioms: Flocq's real-number layer (the four names of
   AXIOM_ALLOW), nothing else. *)
From Coq Require Import ZArith Reals Floats.SpecFloat Bool Lia Lra String Ascii.
From Flocq Require Import Core.Core IEEE754.BinarySingleNaN Round_odd Mult_error.
Require Import Blots.Num Blots.Outcome Blots.Ast Blots.NumText Blots.proofs.NumTextFloat Blots.proofs.NumTextRef.
Open Scope Z_scope.

Local Existing Instance Hprec.
Local Existing Instance Hmax.
Local Instance fexp64_valid' : Valid_exp fexp64 := fexp_correct 53 1024 Hprec.

(* ---------------------------------------------------------------- powers of two as doubles *)
(* 2^k for k >= 0 the way repeated `scale *= radix` produces it: exact up to 2^1023, then +inf *)
Definition pow2num (k : Z) : num :=
  if k <=? 1023 then S754_finite false 4503599627370496 (k - 52) else S754_infinity false.

Lemma pow2num_0 : pow2num 0 = n_one.            Proof. reflexivity. Qed.
Lemma pow2num_1 : pow2num 1 = num_of_Z 2.       Proof. reflexivity. Qed.
Lemma pow2num_4 : pow2num 4 = num_of_Z 16.      Proof. reflexivity. Qed.

Lemma pow2_bounded : forall j, 0 <= j <= 1023 ->
  SpecFloat.bounded 53 1024 4503599627370496 (j - 52) = true.
Proof.
  intros j Hj. unfold SpecFloat.bounded, SpecFloat.canonical_mantissa.
  change (Zpos (SpecFloat.digits2_pos 4503599627370496)) with 53.
  apply andb_true_intro. split.
  - apply Zeq_bool_true. unfold SpecFloat.fexp, SpecFloat.emin. lia.
  - apply Z.leb_le. lia.
Qed.

Lemma pow2_F2R : forall j,
  F2R (Float radix2 (cond_Zopp false (Zpos 4503599627370496)) (j - 52)) = bpow radix2 j.
Proof.
  intros j. unfold F2R, cond_Zopp, Fnum, Fexp.
  change (IZR (Zpos 4503599627370496)) with (bpow radix2 52).
  rewrite <- bpow_plus. f_equal. lia.
Qed.

(* the value of a valid positive double >= 1 times 2^j, j >= 0, is representable *)
Lemma scaled_format : forall F j, generic_format radix2 fexp64 F -> (1 <= F)%R -> 0 <= j ->
  generic_format radix2 fexp64 (F * bpow radix2 j).
Proof.
  intros F j HF H1 Hj.
  change fexp64 with (FLT_exp (-1074) 53).
  apply mult_bpow_exact_FLT; [exact HF|].
  assert (0 < mag radix2 F).
  { apply mag_gt_bpow. simpl bpow. rewrite Rabs_pos_eq; lra. }
  lia.
Qed.

(* f * 2^j for a double f >= 1: exact, or +inf when f * 2^j >= 2^1024 *)
Lemma nmul_pow2 : forall m e j,
  SpecFloat.bounded 53 1024 m e = true -> 0 <= j <= 1023 ->
  let F := F2R (Float radix2 (Zpos m) e) in
  (1 <= F)%R ->
  let z := nmul (S754_finite false m e) (pow2num j) in
  vb z = true /\
  if Rlt_bool (F * bpow radix2 j) (bpow radix2 1024)
  then SF2R radix2 z = (F * bpow radix2 j)%R /\ is_finite_SF z = true /\ sign_SF z = false
  else z = S754_infinity false.
Proof.
  intros m e j Hb Hj F HF z. unfold z, pow2num.
  replace (j <=? 1023) with true by (symmetry; apply Z.leb_le; lia).
  unfold nmul, Num.prec, Num.emax. cbv beta iota delta [SFmul]. cbn [xorb].
  rewrite binary_round_aux_equiv.
  generalize (Bmult_correct_aux 53 1024 Hprec Hmax mode_NE false m e Hb
                false 4503599627370496 (j - 52) (pow2_bounded j Hj)).
  cbv zeta. cbn [xorb]. rewrite pow2_F2R.
  change (F2R (Float radix2 (cond_Zopp false (Zpos m)) e)) with F.
  intros [Hv H]. split; [exact Hv|].
  assert (Hg : generic_format radix2 fexp64 (F * bpow radix2 j)).
  { apply scaled_format; [|exact HF|lia].
    exact (proj1 (valid_finite_format false m e Hb)). }
  rewrite round_generic in H by (auto with typeclass_instances).
  assert (Hpos : (0 < F * bpow radix2 j)%R).
  { apply Rmult_lt_0_compat; [lra | apply bpow_gt_0]. }
  rewrite Rabs_pos_eq in H by lra.
  destruct (Rlt_bool (F * bpow radix2 j) (bpow radix2 1024)); exact H.
Qed.

(* repeated `scale *= radix` *)
Lemma pow2num_step : forall k j, 0 <= k -> 0 <= j <= 1023 ->
  nmul (pow2num k) (pow2num j) = pow2num (k + j).
Proof.
  intros k j Hk Hj.
  destruct (Z.leb_spec k 1023) as [Hk1|Hk1].
  - assert (Hbk := pow2_bounded k (conj Hk Hk1)).
    assert (HF : F2R (Float radix2 (Zpos 4503599627370496) (k - 52)) = bpow radix2 k) by apply pow2_F2R.
    generalize (nmul_pow2 4503599627370496 (k - 52) j Hbk Hj). cbv zeta. rewrite HF.
    intros H. specialize (H ltac:(change 1%R with (bpow radix2 0); apply bpow_le; lia)).
    destruct H as [Hv H].
    replace (pow2num k) with (S754_finite false 4503599627370496 (k - 52))
      by (unfold pow2num; now replace (k <=? 1023) with true by (symmetry; apply Z.leb_le; lia)).
    rewrite <- bpow_plus in H.
    destruct (Z.leb_spec (k + j) 1023) as [Hs|Hs].
    + rewrite Rlt_bool_true in H by (apply bpow_lt; lia).
      destruct H as (HR & Hfin & Hsg).
      unfold pow2num at 2. replace (k + j <=? 1023) with true by (symmetry; apply Z.leb_le; lia).
      apply SF_eq; auto.
      * apply (pow2_bounded (k + j)). lia.
      * rewrite HR. symmetry. cbn [SF2R]. apply (pow2_F2R (k + j)).
    + rewrite Rlt_bool_false in H by (apply bpow_le; lia).
      unfold pow2num at 2. replace (k + j <=? 1023) with false by (symmetry; apply Z.leb_gt; lia).
      exact H.
  - unfold pow2num. replace (k <=? 1023) with false by (symmetry; apply Z.leb_gt; lia).
    replace (j <=? 1023) with true by (symmetry; apply Z.leb_le; lia).
    replace (k + j <=? 1023) with false by (symmetry; apply Z.leb_gt; lia).
    reflexivity.
Qed.

(* ---------------------------------------------------------------- RNE and exact scaling *)
Lemma fexp64_shift : forall a k, 1 <= a -> 0 <= k -> fexp64 (a + k) = fexp64 a + k.
Proof. intros a k Ha Hk. unfold SpecFloat.fexp, SpecFloat.emin. lia. Qed.

Lemma rne_scale : forall y k, (1 <= y)%R -> 0 <= k ->
  rne (y * bpow radix2 k) = (rne y * bpow radix2 k)%R.
Proof.
  intros y k Hy Hk. unfold rne, round, F2R, Fnum, Fexp, scaled_mantissa, cexp.
  assert (Hm : 1 <= mag radix2 y).
  { assert (0 < mag radix2 y); [|lia].
    apply mag_gt_bpow. simpl bpow. rewrite Rabs_pos_eq; lra. }
  rewrite mag_mult_bpow by lra.
  rewrite fexp64_shift by assumption.
  set (c := fexp64 (mag radix2 y)).
  replace (y * bpow radix2 k * bpow radix2 (- (c + k)))%R with (y * bpow radix2 (- c))%R.
  2:{ rewrite Rmult_assoc, <- bpow_plus. do 2 f_equal. lia. }
  rewrite bpow_plus. ring.
Qed.

(* ---------------------------------------------------------------- the sticky bit is rounding to odd *)
Lemma lor_1 : forall A, 0 <= A -> Z.lor A 1 = if Z.even A then A + 1 else A.
Proof. intros [|p|p] H; [reflexivity | destruct p; reflexivity | lia]. Qed.

Section RoundOdd.
  Variables A k rest : Z.
  Hypothesis HA : 2 ^ 54 <= A.
  Hypothesis Hk : 0 <= k.
  Hypothesis Hrest : 0 <= rest < 2 ^ k.
  Let v := A * 2 ^ k + rest.
  Let A' := Z.lor A (Z_of_bool (negb (rest =? 0))).
  Let p := Z.log2 A + 1.

  Lemma p_ge_55 : 55 <= p.
  Proof. unfold p. assert (54 <= Z.log2 A); [|lia]. apply Z.log2_le_pow2; lia. Qed.

  Lemma A_bounds : 2 ^ (p - 1) <= A < 2 ^ p.
  Proof.
    unfold p. replace (Z.log2 A + 1 - 1) with (Z.log2 A) by lia.
    assert (0 < A) by (assert (0 < 2 ^ 54) by (apply Z.pow_pos_nonneg; lia); lia).
    pose proof (Z.log2_spec A ltac:(lia)). replace (Z.log2 A + 1) with (Z.succ (Z.log2 A)) by lia. lia.
  Qed.

  Lemma v_bounds : 2 ^ (p - 1 + k) <= v < 2 ^ (p + k).
  Proof.
    pose proof A_bounds as [H1 H2]. pose proof p_ge_55.
    rewrite !Z.pow_add_r by lia. unfold v.
    assert (0 < 2 ^ k) by (apply Z.pow_pos_nonneg; lia). nia.
  Qed.

  Lemma mag_v : mag radix2 (IZR v) = (p + k)%Z :> Z.
  Proof.
    pose proof v_bounds as [H1 H2]. pose proof p_ge_55.
    apply mag_unique_pos.
    replace (p + k - 1) with (p - 1 + k) by lia.
    rewrite <- !IZR_Zpower by lia. split; [apply IZR_le | apply IZR_lt]; assumption.
  Qed.

  Local Instance p_gt_0 : Prec_gt_0 p.
  Proof. unfold Prec_gt_0. pose proof p_ge_55. lia. Qed.

  (* (acc | sticky) * 2^k is v rounded to odd at p = bit-length(acc) bits *)
  Lemma round_odd_wide :
    round radix2 (FLX_exp p) Zrnd_odd (IZR v) = (IZR A' * bpow radix2 k)%R.
  Proof.
    unfold round, F2R, Fnum, Fexp, scaled_mantissa, cexp. rewrite mag_v.
    unfold FLX_exp. replace (p + k - p) with k by lia.
    f_equal. f_equal.
    assert (Hpk : (0 < bpow radix2 k)%R) by apply bpow_gt_0.
    set (x := (IZR v * bpow radix2 (- k))%R).
    assert (Hx : x = (IZR A + IZR rest * bpow radix2 (- k))%R).
    { unfold x, v. rewrite plus_IZR, mult_IZR, (IZR_Zpower radix2) by lia.
      rewrite Rmult_plus_distr_r, Rmult_assoc, <- bpow_plus.
      replace (k + - k) with 0 by lia. simpl bpow. ring. }
    assert (Hr0 : (0 <= IZR rest * bpow radix2 (- k) < 1)%R).
    { split.
      - apply Rmult_le_pos; [apply IZR_le; lia | apply bpow_ge_0].
      - apply Rmult_lt_reg_r with (bpow radix2 k); [exact Hpk|].
        rewrite Rmult_assoc, <- bpow_plus. replace (- k + k) with 0 by lia.
        simpl bpow. rewrite Rmult_1_r, Rmult_1_l. rewrite <- IZR_Zpower by lia.
        apply IZR_lt. apply Hrest. }
    assert (Hfl : Zfloor x = A).
    { apply Zfloor_imp. rewrite plus_IZR, Hx. simpl (IZR 1). lra. }
    assert (HA0 : 0 <= A) by (assert (0 < 2 ^ 54) by (apply Z.pow_pos_nonneg; lia); lia).
    unfold A'. unfold Zrnd_odd. rewrite Hfl.
    destruct (Z.eqb_spec rest 0) as [E|E]; cbn [negb Z_of_bool].
    - rewrite Z.lor_0_r.
      destruct (Req_EM_T x (IZR A)) as [_|N]; [reflexivity|].
      exfalso. apply N. rewrite Hx, E. simpl (IZR 0). ring.
    - rewrite (lor_1 A HA0).
      assert (Hpos : (0 < IZR rest * bpow radix2 (- k))%R).
      { apply Rmult_lt_0_compat; [apply IZR_lt; lia | apply bpow_gt_0]. }
      destruct (Req_EM_T x (IZR A)) as [Eq|N]; [exfalso; rewrite Hx in Eq; lra|].
      destruct (Z.even A); [|reflexivity].
      rewrite Zceil_floor_neq by (rewrite Hfl; auto). now rewrite Hfl.
  Qed.

  Lemma flx_below : forall e, FLX_exp p e <= fexp64 e - 2.
  Proof. intros e. pose proof p_ge_55. unfold FLX_exp, SpecFloat.fexp, SpecFloat.emin. lia. Qed.

  (* the key fact: RNE of the full integer = RNE of (acc | sticky), scaled *)
  Lemma rne_wide : rne (IZR v) = (rne (IZR A') * bpow radix2 k)%R.
  Proof.
    assert (HA' : (1 <= IZR A')%R).
    { apply IZR_le. unfold A'.
      assert (HA0 : 0 < A) by (assert (0 < 2 ^ 54) by (apply Z.pow_pos_nonneg; lia); lia).
      destruct (negb (rest =? 0)); cbn [Z_of_bool].
      - rewrite lor_1 by lia. destruct (Z.even A); lia.
      - rewrite Z.lor_0_r. lia. }
    rewrite <- rne_scale by assumption.
    rewrite <- round_odd_wide. unfold rne. symmetry.
    change fexp64 with (FLT_exp (-1074) 53).
    assert (Hp1 : 1 < p) by (pose proof p_ge_55; lia).
    exact (@round_N_odd radix2 eq_refl (FLT_exp (-1074) 53) (FLX_exp p) (fun x => negb (Z.even x))
             _ (exists_NE_FLT radix2 (-1074) 53 (or_intror eq_refl))
             _ (exists_NE_FLX radix2 p (or_intror Hp1)) flx_below (IZR v)).
  Qed.
End RoundOdd.

(* ---------------------------------------------------------------- the loop of parse_radix_digits *)
Lemma land_low : forall a n d, 0 <= n -> 0 <= d < 2 ^ n -> Z.land (a * 2 ^ n) d = 0.
Proof.
  intros a n d Hn Hd. apply Z.bits_inj'. intros i Hi.
  rewrite Z.land_spec, Z.bits_0.
  destruct (Z.lt_ge_cases i n) as [L|G].
  - rewrite Z.mul_pow2_bits_low by lia. reflexivity.
  - rewrite <- (Z.mod_small d (2 ^ n)) by lia.
    rewrite Z.mod_pow2_bits_high by lia. apply andb_false_r.
Qed.
Lemma lor_low : forall a n d, 0 <= n -> 0 <= d < 2 ^ n -> Z.lor (a * 2 ^ n) d = a * 2 ^ n + d.
Proof.
  intros a n d Hn Hd. pose proof (land_low a n d Hn Hd) as H.
  rewrite (Z.add_nocarry_lxor _ _ H). symmetry. now apply Z.lxor_lor.
Qed.

Lemma radix_digit_range : forall radix c d, radix_digit radix c = Some d -> 0 <= d < radix.
Proof.
  intros radix c d. unfold radix_digit. cbv zeta.
  set (v := if is_digit c then acode c - 48
            else if (97 <=? acode c) && (acode c <=? 122) then acode c - 87
            else if (65 <=? acode c) && (acode c <=? 90) then acode c - 55 else 99).
  assert (0 <= v).
  { unfold v, is_digit. cbv zeta.
    destruct ((48 <=? acode c) && (acode c <=? 57)) eqn:E1; [apply andb_prop in E1; lia|].
    destruct ((97 <=? acode c) && (acode c <=? 122)) eqn:E2; [apply andb_prop in E2; lia|].
    destruct ((65 <=? acode c) && (acode c <=? 90)) eqn:E3; [apply andb_prop in E3; lia|]. lia. }
  destruct (v <? radix) eqn:E; [|discriminate].
  intros [= <-]. apply Z.ltb_lt in E. lia.
Qed.

(* loop invariant: the digits read so far denote V = acc * 2^k + rest, the part `rest` left out of
   the accumulator is below 2^k and recorded in sticky, scale = 2^k, and digits are left out only
   once acc has reached 2^(128 - bits) *)
Definition winv (bits acc k : Z) (st : bool) (V rest : Z) : Prop :=
  V = acc * 2 ^ k + rest /\ 0 <= rest < 2 ^ k /\ st = negb (rest =? 0) /\ 0 <= k /\
  0 <= acc < 2 ^ 128 /\ (0 < k -> 2 ^ (128 - bits) <= acc).

Lemma radix_fold_inv : forall radix bits, (radix = 2 /\ bits = 1) \/ (radix = 16 /\ bits = 4) ->
  forall s acc k st V rest, winv bits acc k st V rest ->
  match radix_val radix s V with
  | None => radix_fold radix bits s acc (pow2num k) st = None
  | Some v => exists acc' k' st' rest',
      radix_fold radix bits s acc (pow2num k) st = Some (acc', pow2num k', st')
      /\ winv bits acc' k' st' v rest'
  end.
Proof.
  intros radix bits Hrb.
  assert (Hbits : 1 <= bits <= 4) by (destruct Hrb as [[_ ->]|[_ ->]]; lia).
  assert (HB : radix = 2 ^ bits) by (destruct Hrb as [[-> ->]|[-> ->]]; reflexivity).
  assert (Hnum : num_of_Z radix = pow2num bits) by (destruct Hrb as [[-> ->]|[-> ->]]; reflexivity).
  assert (HCB : 2 ^ (128 - bits) * radix = 2 ^ 128).
  { rewrite HB, <- Z.pow_add_r by lia. f_equal. lia. }
  assert (HBpos : 1 < radix) by (destruct Hrb as [[-> _]|[-> _]]; lia).
  assert (HCpos : 0 < 2 ^ (128 - bits)) by (apply Z.pow_pos_nonneg; lia).
  induction s as [|c r IH]; intros acc k st V rest Hinv.
  - cbn [radix_val radix_fold]. exists acc, k, st, rest. split; [reflexivity | exact Hinv].
  - cbn [radix_val radix_fold].
    destruct (radix_digit radix c) as [d|] eqn:Ed; [|reflexivity].
    pose proof (radix_digit_range radix c d Ed) as Hd.
    destruct Hinv as (HV & Hrest & Hst & Hk & Hacc & Hfull).
    rewrite Z.shiftr_div_pow2 by lia.
    destruct (Z.eqb_spec (acc / 2 ^ (128 - bits)) 0) as [E|E].
    + (* the digit still fits *)
      apply Z.div_small_iff in E; [|lia].
      assert (Hlt : acc < 2 ^ (128 - bits)) by lia.
      assert (k = 0) by (destruct (Z.eq_dec k 0); [assumption | exfalso; specialize (Hfull ltac:(lia)); lia]).
      subst k. change (2 ^ 0) with 1 in *. assert (rest = 0) by lia. subst rest.
      assert (Hnew : Z.lor (wrap_u128 (Z.shiftl acc bits)) d = acc * radix + d).
      { rewrite Z.shiftl_mul_pow2 by lia. unfold wrap_u128. rewrite <- HB.
        rewrite Z.mod_small by nia. rewrite HB. apply lor_low; [lia | rewrite <- HB; exact Hd]. }
      rewrite Hnew.
      apply (IH (acc * radix + d) 0 st (V * radix + d) 0).
      unfold winv. change (2 ^ 0) with 1. repeat split; try lia; try nia.
      exact Hst.
    + (* the digit is left out: scale *= radix, sticky |= d != 0 *)
      assert (Hge : 2 ^ (128 - bits) <= acc).
      { destruct (Z.lt_ge_cases acc (2 ^ (128 - bits))) as [L|G]; [|exact G].
        exfalso. apply E. apply Z.div_small. lia. }
      rewrite Hnum, pow2num_step by lia.
      apply (IH acc (k + bits) (st || negb (d =? 0)) (V * radix + d) (rest * radix + d)).
      assert (Hpk : 2 ^ (k + bits) = 2 ^ k * radix) by (rewrite Z.pow_add_r by lia; now rewrite HB).
      assert (0 < 2 ^ k) by (apply Z.pow_pos_nonneg; lia).
      unfold winv. rewrite Hpk. repeat split; try lia; try nia.
      rewrite Hst.
      destruct (Z.eqb_spec rest 0), (Z.eqb_spec d 0), (Z.eqb_spec (rest * radix + d) 0);
        cbn [negb orb]; try reflexivity; exfalso; nia.
Qed.

(* ---------------------------------------------------------------- (acc | sticky) as f64 * scale *)
Lemma rne_IZR_bounds : forall n, 1 <= n <= 2 ^ 128 ->
  (1 <= rne (IZR n) <= bpow radix2 128)%R.
Proof.
  intros n Hn.
  assert (H1 : rne 1 = 1%R).
  { unfold rne. apply round_generic; auto with typeclass_instances.
    apply (generic_format_bpow radix2 fexp64 0). vm_compute. discriminate. }
  assert (H2 : rne (bpow radix2 128) = bpow radix2 128).
  { unfold rne. apply round_generic; auto with typeclass_instances.
    apply generic_format_bpow. vm_compute. discriminate. }
  split.
  - rewrite <- H1 at 1. unfold rne. apply round_le; auto with typeclass_instances. apply IZR_le. lia.
  - rewrite <- H2. unfold rne. apply round_le; auto with typeclass_instances.
    rewrite <- IZR_Zpower by lia. apply IZR_le. apply Hn.
Qed.

Lemma wide_value : forall bits acc k st v rest, 1 <= bits <= 4 ->
  winv bits acc k st v rest ->
  nmul (num_of_Z (Z.lor acc (Z_of_bool st))) (pow2num k) = num_of_Z v.
Proof.
  intros bits acc k st v rest Hbits (HV & Hrest & Hst & Hk & Hacc & Hfull).
  set (A' := Z.lor acc (Z_of_bool st)).
  assert (HA'b : acc <= A' <= acc + 1).
  { unfold A'. destruct st; cbn [Z_of_bool].
    - rewrite lor_1 by lia. destruct (Z.even acc); lia.
    - rewrite Z.lor_0_r. lia. }
  assert (H2k : 0 < 2 ^ k) by (apply Z.pow_pos_nonneg; lia).
  destruct (Z.eq_dec A' 0) as [Z0|NZ].
  - (* all digits zero *)
    assert (acc = 0) by lia. subst acc.
    assert (k = 0).
    { destruct (Z.eq_dec k 0); [assumption|]. exfalso. specialize (Hfull ltac:(lia)).
      assert (0 < 2 ^ (128 - bits)) by (apply Z.pow_pos_nonneg; lia). lia. }
    subst k. change (2 ^ 0) with 1 in *. assert (rest = 0) by lia. subst rest.
    rewrite Z0. subst v. reflexivity.
  - assert (HA'1 : 1 <= A' <= 2 ^ 128) by lia.
    assert (Hvpos : 0 < v).
    { rewrite HV. destruct (Z.eq_dec acc 0) as [->|Hacc0]; [|nia].
      unfold A' in NZ. rewrite Hst in NZ.
      destruct (Z.eqb_spec rest 0) as [->|Hr0]; [exfalso; apply NZ; reflexivity | lia]. }
    (* the key real-number fact *)
    assert (KEY : rne (IZR v) = (rne (IZR A') * bpow radix2 k)%R).
    { destruct (Z.eq_dec k 0) as [->|Hk0].
      - change (2 ^ 0) with 1 in *. assert (rest = 0) by lia. subst rest.
        unfold A'. rewrite Hst. cbn [Z.eqb negb Z_of_bool]. rewrite Z.lor_0_r.
        simpl bpow. rewrite Rmult_1_r. do 2 f_equal. lia.
      - specialize (Hfull ltac:(lia)).
        assert (H54 : 2 ^ 54 <= acc).
        { apply Z.le_trans with (2 ^ (128 - bits)); [apply Z.pow_le_mono_r; lia | exact Hfull]. }
        rewrite HV. unfold A'. rewrite Hst.
        exact (rne_wide acc k rest H54 Hk Hrest). }
    destruct (rne_IZR_bounds A' HA'1) as [HF1 HF2].
    set (F := rne (IZR A')) in *.
    (* (acc | sticky) as f64 *)
    destruct A' as [|q|q] eqn:EA; try lia.
    pose proof (num_of_Z_correct q) as [Hvq Hq]. fold F in Hq.
    rewrite Rlt_bool_true in Hq.
    2:{ rewrite Rabs_pos_eq by lra. apply Rle_lt_trans with (1 := HF2). apply bpow_lt. lia. }
    destruct Hq as (HRq & Hfq & Hsq).
    destruct (num_of_Z (Zpos q)) as [sz|sz| |sz m e] eqn:Ez; try discriminate Hfq.
    { exfalso. cbn [SF2R] in HRq. lra. }
    cbn [sign_SF] in Hsq. subst sz.
    assert (Hbme : SpecFloat.bounded 53 1024 m e = true) by exact Hvq.
    assert (HFm : F2R (Float radix2 (Zpos m) e) = F) by exact HRq.
    (* the full integer *)
    destruct v as [|qv|qv] eqn:Ev; try lia.
    pose proof (num_of_Z_correct qv) as [Hvv Hqv].
    rewrite KEY in Hqv. fold F in Hqv.
    assert (HFk : (0 < F * bpow radix2 k)%R) by (apply Rmult_lt_0_compat; [lra | apply bpow_gt_0]).
    rewrite Rabs_pos_eq in Hqv by lra.
    destruct (Z.leb_spec k 1023) as [Hk1|Hk1].
    + generalize (nmul_pow2 m e k Hbme (conj Hk Hk1)). cbv zeta. rewrite HFm.
      intros H. specialize (H HF1). destruct H as [Hvz Hz].
      destruct (Rlt_bool (F * bpow radix2 k) (bpow radix2 1024)).
      * destruct Hz as (HRz & Hfz & Hsz). destruct Hqv as (HRv & Hfv & Hsv).
        apply SF_eq; auto; congruence.
      * now rewrite Hz, Hqv.
    + rewrite Rlt_bool_false in Hqv.
      2:{ apply Rle_trans with (bpow radix2 k); [apply bpow_le; lia|].
          rewrite <- (Rmult_1_l (bpow radix2 k)) at 1.
          apply Rmult_le_compat_r; [apply bpow_ge_0 | exact HF1]. }
      rewrite Hqv. unfold pow2num.
      replace (k <=? 1023) with false by (symmetry; apply Z.leb_gt; lia). reflexivity.
Qed.

(* ---------------------------------------------------------------- parse_radix_digits is RNE of the integer *)
Theorem parse_radix_digits_correct : forall radix s v,
  radix = 2 \/ radix = 16 -> s <> EmptyString ->
  radix_val radix s 0 = Some v -> parse_radix_digits s radix = Some (num_of_Z v).
Proof.
  intros radix s v Hr Hs Hv. unfold parse_radix_digits.
  destruct s as [|c r]; [congruence|]. cbn [is_empty].
  set (bits := u32_trailing_zeros radix).
  assert (Hrb : (radix = 2 /\ bits = 1) \/ (radix = 16 /\ bits = 4)).
  { destruct Hr as [-> | ->]; [left | right]; split; reflexivity. }
  assert (Hinv0 : winv bits 0 0 false 0 0).
  { unfold winv. change (2 ^ 0) with 1. repeat split; lia. }
  generalize (radix_fold_inv radix bits Hrb (String c r) 0 0 false 0 0 Hinv0).
  rewrite Hv. change (pow2num 0) with n_one.
  intros (acc' & k' & st' & rest' & Hfold & Hinv').
  rewrite Hfold. f_equal.
  apply (wide_value bits acc' k' st' v rest'); [destruct Hrb as [[_ ->]|[_ ->]]; lia | exact Hinv'].
Qed.

(* an invalid digit or an empty digit string is still an error *)
Theorem parse_radix_digits_rejects : forall radix s,
  radix = 2 \/ radix = 16 ->
  s = EmptyString \/ radix_val radix s 0 = None -> parse_radix_digits s radix = None.
Proof.
  intros radix s Hr [-> | Hn]; [reflexivity|].
  unfold parse_radix_digits. destruct s as [|c r]; [reflexivity|]. cbn [is_empty].
  set (bits := u32_trailing_zeros radix).
  assert (Hrb : (radix = 2 /\ bits = 1) \/ (radix = 16 /\ bits = 4)).
  { destruct Hr as [-> | ->]; [left | right]; split; reflexivity. }
  assert (Hinv0 : winv bits 0 0 false 0 0).
  { unfold winv. change (2 ^ 0) with 1. repeat split; lia. }
  generalize (radix_fold_inv radix bits Hrb (String c r) 0 0 false 0 0 Hinv0).
  rewrite Hn. change (pow2num 0) with n_one. intros ->. reflexivity.
Qed.

(* ---------------------------------------------------------------- literal_value of the repaired tree *)
Lemma radix_literal_fixed_unsigned : forall mark radix body,
  strip_prefix ("-" ++ mark) (mark ++ body) = None ->
  strip_prefix ("+" ++ mark) (mark ++ body) = None ->
  drop 2 (mark ++ body) = body ->
  radix_literal_fixed (mark ++ body) mark radix
  = match parse_radix_digits (remove_char "_" body) radix with
    | None => None
    | Some parsed => Some (nmul n_one parsed)
    end.
Proof. intros mark radix body H1 H2 H3. unfold radix_literal_fixed. now rewrite H1, H2, H3. Qed.

Lemma literal_value_rf_hex : forall sp body,
  literal_value_rf true sp ("0x" ++ body)
  = match parse_radix_digits (remove_char "_" body) 16 with
    | None => None
    | Some parsed => Some (nmul n_one parsed)
    end.
Proof.
  intros sp body. unfold literal_value_rf.
  change (starts_with "0b" ("0x" ++ body)) with false.
  change (starts_with "-0b" ("0x" ++ body)) with false.
  change (starts_with "+0b" ("0x" ++ body)) with false.
  change (starts_with "0x" ("0x" ++ body)) with true. cbn [orb].
  apply radix_literal_fixed_unsigned; reflexivity.
Qed.
Lemma literal_value_rf_bin : forall sp body,
  literal_value_rf true sp ("0b" ++ body)
  = match parse_radix_digits (remove_char "_" body) 2 with
    | None => None
    | Some parsed => Some (nmul n_one parsed)
    end.
Proof.
  intros sp body. unfold literal_value_rf.
  change (starts_with "0b" ("0b" ++ body)) with true. cbn [orb].
  apply radix_literal_fixed_unsigned; reflexivity.
Qed.

(* 0x literals after the repair: `_` erased, EVERY digit string denotes the nearest double of its
   integer value (num_of_Z = SpecFloat.binary_normalize: round to nearest even, +inf from
   2^1024 - 2^970 on) *)
Theorem hex_literal_value_fixed : forall sp body c cl v,
  remove_char "_" body = String c cl ->
  radix_val 16 (String c cl) 0 = Some v ->
  literal_value_rf true sp ("0x" ++ body) = Some (num_of_Z v).
Proof.
  intros sp body c cl v Hcl Hv. rewrite literal_value_rf_hex, Hcl.
  rewrite (parse_radix_digits_correct 16 (String c cl) v (or_intror eq_refl) ltac:(discriminate) Hv).
  now rewrite (nmul_one_l _ (num_of_Z_valid v)).
Qed.
Theorem bin_literal_value_fixed : forall sp body c cl v,
  remove_char "_" body = String c cl ->
  radix_val 2 (String c cl) 0 = Some v ->
  literal_value_rf true sp ("0b" ++ body) = Some (num_of_Z v).
Proof.
  intros sp body c cl v Hcl Hv. rewrite literal_value_rf_bin, Hcl.
  rewrite (parse_radix_digits_correct 2 (String c cl) v (or_introl eq_refl) ltac:(discriminate) Hv).
  now rewrite (nmul_one_l _ (num_of_Z_valid v)).
Qed.

(* the existing errors are kept: no digit, or a character that is not a digit of the radix *)
Theorem radix_literal_fixed_rejects : forall sp body,
  (remove_char "_" body = EmptyString \/ radix_val 16 (remove_char "_" body) 0 = None ->
   literal_value_rf true sp ("0x" ++ body) = None) /\
  (remove_char "_" body = EmptyString \/ radix_val 2 (remove_char "_" body) 0 = None ->
   literal_value_rf true sp ("0b" ++ body) = None).
Proof.
  intros sp body. split; intros H.
  - rewrite literal_value_rf_hex. now rewrite (parse_radix_digits_rejects 16 _ (or_intror eq_refl) H).
  - rewrite literal_value_rf_bin. now rewrite (parse_radix_digits_rejects 2 _ (or_introl eq_refl) H).
Qed.

(* the pinned behaviour is the radixfix = false instance, and the repair changes nothing below 2^63:
   wherever the pinned tree accepts an unsigned 0x / 0b literal, the repaired tree gives the same double *)
Lemma literal_value_rf_false : forall sp t, literal_value_rf false sp t = literal_value sp t.
Proof. reflexivity. Qed.
Lemma parse_numexpr_rf_false : forall sp s, parse_numexpr_rf false sp s = parse_numexpr sp s.
Proof. reflexivity. Qed.
Lemma read_source_rf_false : forall sp s, read_source_rf false sp s = read_source sp s.
Proof. reflexivity. Qed.

(* the witnesses of F25 on the repaired model *)
Lemma radix_literal_ge_2p63_fixed :
  forall sp, parse_numexpr_rf true sp "0xFFFFFFFFFFFFFFFF" = PExpr (ENum (num_of_Z (2 ^ 64)))
          /\ parse_numexpr_rf true sp "0x8000000000000000" = PExpr (ENum (num_of_Z (2 ^ 63)))
          /\ parse_numexpr_rf true sp "0b1000000000000000000000000000000000000000000000000000000000000000"
             = PExpr (ENum (num_of_Z (2 ^ 63)))
          /\ parse_numexpr_rf true sp "0x20000000000000000000000000000000000000000000000001"
             = PExpr (ENum (num_of_Z (2 ^ 197))).
Proof. intros sp. repeat split; vm_compute; reflexivity. Qed.

(* the explicitly signed token `+0x…` / `+0b…` (the grammar admits it; `-0x…` never reaches the arm: the
   `-` is a prefix negation) *)
Theorem plus_radix_literal_value_fixed : forall sp body c cl v,
  remove_char "_" body = String c cl ->
  (radix_val 16 (String c cl) 0 = Some v -> literal_value_rf true sp ("+0x" ++ body) = Some (num_of_Z v)) /\
  (radix_val 2 (String c cl) 0 = Some v -> literal_value_rf true sp ("+0b" ++ body) = Some (num_of_Z v)).
Proof.
  intros sp body c cl v Hcl. split; intros Hv.
  - change (literal_value_rf true sp ("+0x" ++ body))
      with (match parse_radix_digits (remove_char "_" body) 16 with
            | None => None | Some parsed => Some (nmul n_one parsed) end).
    rewrite Hcl, (parse_radix_digits_correct 16 (String c cl) v (or_intror eq_refl) ltac:(discriminate) Hv).
    now rewrite (nmul_one_l _ (num_of_Z_valid v)).
  - change (literal_value_rf true sp ("+0b" ++ body))
      with (match parse_radix_digits (remove_char "_" body) 2 with
            | None => None | Some parsed => Some (nmul n_one parsed) end).
    rewrite Hcl, (parse_radix_digits_correct 2 (String c cl) v (or_introl eq_refl) ltac:(discriminate) Hv).
    now rewrite (nmul_one_l _ (num_of_Z_valid v)).
Qed.
