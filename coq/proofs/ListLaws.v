(* ListLaws.v — laws of the list built-ins of BuiltinsList.v (property C14). *)
From Coq Require Import String Ascii List ZArith Bool Lia Permutation Sorted Floats.SpecFloat.
Require Import Blots.Num Blots.gen.Builtins Blots.Ast Blots.Value Blots.Outcome Blots.Access
  Blots.BuiltinsList Blots.proofs.ValueInd Blots.proofs.Order.
Import ListNotations.
Open Scope list_scope.

(* ---------- reverse ---------- *)
Lemma reverse_involutive l r :
  bi_reverse [VList l] = Ok r -> bi_reverse [r] = Ok (VList l).
Proof.
  cbn. intros H. injection H as <-. cbn. now rewrite rev_involutive.
Qed.

Lemma reverse_spec l : bi_reverse [VList l] = Ok (VList (rev l)).
Proof. reflexivity. Qed.

(* ---------- concat ---------- *)
Lemma concat_app a b : bi_concat [VList a; VList b] = Ok (VList (a ++ b)).
Proof. unfold bi_concat. cbn [concat_args]. now rewrite app_nil_r. Qed.

Lemma concat_args_lists ls : concat_args (map VList ls) = List.concat ls.
Proof. induction ls as [|l ls IH]; cbn; [reflexivity|]. now rewrite IH. Qed.

Lemma concat_lists ls : bi_concat (map VList ls) = Ok (VList (List.concat ls)).
Proof. unfold bi_concat. now rewrite concat_args_lists. Qed.

(* ---------- chunk / flatten ---------- *)
Lemma chunk_acc_concat {A} (l : list A) n room cur :
  List.concat (chunk_acc l n room cur) = cur ++ l.
Proof.
  revert room cur. induction l as [|x l IH]; intros room cur; cbn.
  - destruct cur; cbn; [reflexivity|]. now rewrite !app_nil_r.
  - destruct room; cbn; rewrite IH; [reflexivity|]. now rewrite <- app_assoc.
Qed.

Lemma chunks_concat {A} (l : list A) n : List.concat (chunks l n) = l.
Proof. unfold chunks. now rewrite chunk_acc_concat. Qed.

Lemma flatten_items_lists ls : flatten_items (map VList ls) = List.concat ls.
Proof. induction ls as [|l ls IH]; cbn; [reflexivity|]. now rewrite IH. Qed.

(* every chunk but the last has exactly n elements, the last has between 1 and n *)
Definition chunk_shape {A} (n : nat) (cs : list (list A)) : Prop :=
  forall i c, nth_error cs i = Some c ->
    (1 <= length c <= n)%nat /\ (S i < length cs -> length c = n)%nat.

Lemma chunk_acc_shape {A} (l : list A) n room cur :
  (1 <= n)%nat -> (length cur + room = n)%nat -> (cur = [] -> l = [] \/ room = n)%nat ->
  chunk_shape n (chunk_acc l n room cur).
Proof.
  intros Hn. revert room cur. induction l as [|x l IH]; intros room cur Hlen Hcur; cbn.
  - destruct cur as [|c0 cur]; intros i c Hi.
    + destruct i; discriminate.
    + destruct i as [|i]; cbn in Hi; [|destruct i; discriminate].
      injection Hi as <-. cbn in *. split; [lia|]. intros; lia.
  - destruct room as [|k].
    + (* cur is full *)
      assert (Hc : length cur = n) by lia.
      intros i c Hi. destruct i as [|i]; cbn in Hi.
      * injection Hi as <-. split; [lia|]. auto.
      * assert (IH' := IH (n - 1)%nat [x]).
        assert (chunk_shape n (chunk_acc l n (n - 1) [x])) as Hs.
        { apply IH'; cbn; [lia|]. discriminate. }
        destruct (Hs i c Hi) as [H1 H2]. split; [exact H1|]. cbn. intros. apply H2. lia.
    + apply IH.
      * rewrite app_length. cbn. lia.
      * intros E. destruct cur; discriminate.
Qed.

Lemma chunks_shape {A} (l : list A) n : (1 <= n)%nat -> chunk_shape n (chunks l n).
Proof. intros Hn. apply chunk_acc_shape; [assumption|cbn; lia|]. intros _. now right. Qed.

(* ---------- head / tail ---------- *)
Lemma head_tail_rebuild_list x l :
  bi_head [VList (x :: l)] = Ok x /\ bi_tail [VList (x :: l)] = Ok (VList l).
Proof.
  split; [reflexivity|]. unfold bi_tail, slice_get. cbn [arg nth_error obind].
  replace (1 <=? Z.of_nat (length (x :: l)))%Z with true by (symmetry; apply Z.leb_le; cbn [length]; lia).
  rewrite Z.leb_refl. cbn [andb].
  replace (Z.to_nat (Z.of_nat (length (x :: l)) - 1)) with (length l) by (cbn [length]; lia).
  cbn. now rewrite firstn_all.
Qed.

Lemma head_tail_empty_list :
  bi_head [VList []] = Ok VNull /\ bi_tail [VList []] = Ok (VList []).
Proof. split; reflexivity. Qed.

(* ====================================================================== sorting *)
Lemma SS_app {A} (R : A -> A -> Prop) l1 l2 :
  StronglySorted R l1 -> StronglySorted R l2 -> (forall a b, In a l1 -> In b l2 -> R a b) ->
  StronglySorted R (l1 ++ l2).
Proof.
  induction l1 as [|x l1 IH]; cbn; intros H1 H2 H; [assumption|].
  inversion H1 as [|? ? Hs Hf]; subst. constructor.
  - apply IH; auto.
  - apply Forall_app. split; [assumption|]. apply Forall_forall. intros b Hb. apply H; auto.
Qed.

Lemma SS_rev {A} (R : A -> A -> Prop) l :
  StronglySorted R l -> StronglySorted (fun a b => R b a) (rev l).
Proof.
  induction l as [|x l IH]; cbn; intros H; [constructor|].
  inversion H as [|? ? Hs Hf]; subst. apply SS_app.
  - auto.
  - repeat constructor.
  - intros a b Ha [<-|[]]. rewrite Forall_forall in Hf. apply Hf. now apply in_rev.
Qed.

(* k and x are equivalent for the strict order lt: neither is less than the other *)
Definition equiv {A} (lt : A -> A -> bool) (k x : A) : bool := negb (lt k x) && negb (lt x k).


(* a sorted list is determined by its equivalence-class subsequences: every stable sort of the
   same input under the same strict weak order returns the same list (this is what lets the
   insertion sort stand for std's driftsort on inputs longer than 20) *)
Section SortUnique.
  Context {A : Type}.
  Variable lt : A -> A -> bool.
  Variable P : A -> Prop.
  Hypothesis irrefl : forall x, P x -> lt x x = false.

  Lemma sorted_stable_unique l1 : forall l2,
    Forall P l1 -> Forall P l2 ->
    StronglySorted (fun a b => lt b a = false) l1 ->
    StronglySorted (fun a b => lt b a = false) l2 ->
    (forall k, P k -> filter (equiv lt k) l1 = filter (equiv lt k) l2) ->
    l1 = l2.
  Proof.
    induction l1 as [|x t1 IH]; intros l2 P1 P2 S1 S2 H.
    - destruct l2 as [|y t2]; [reflexivity|].
      inversion P2 as [|? ? Py _]; subst. specialize (H y Py). cbn in H.
      unfold equiv in H at 1. rewrite (irrefl y Py) in H. discriminate.
    - inversion P1 as [|? ? Px Pt1]; subst.
      assert (Hxx : equiv lt x x = true) by (unfold equiv; now rewrite irrefl).
      destruct l2 as [|y t2].
      { specialize (H x Px). cbn in H. rewrite Hxx in H. discriminate. }
      inversion P2 as [|? ? Py Pt2]; subst.
      assert (Hyy : equiv lt y y = true) by (unfold equiv; now rewrite irrefl).
      inversion S1 as [|? ? S1' F1]; subst. inversion S2 as [|? ? S2' F2]; subst.
      (* x occurs in y :: t2, so y is not greater than x; and symmetrically *)
      assert (Hx2 : In x (y :: t2)).
      { assert (In x (filter (equiv lt x) (y :: t2))) as HI
          by (rewrite <- (H x Px); cbn; rewrite Hxx; now left).
        apply filter_In in HI. tauto. }
      assert (Hy1 : In y (x :: t1)).
      { assert (In y (filter (equiv lt y) (x :: t1))) as HI
          by (rewrite (H y Py); cbn; rewrite Hyy; now left).
        apply filter_In in HI. tauto. }
      assert (Lxy : lt x y = false).
      { destruct Hx2 as [->|Hx2]; [now apply irrefl|]. rewrite Forall_forall in F2. now apply F2. }
      assert (Lyx : lt y x = false).
      { destruct Hy1 as [->|Hy1]; [now apply irrefl|]. rewrite Forall_forall in F1. now apply F1. }
      assert (Exy : equiv lt x y = true) by (unfold equiv; now rewrite Lxy, Lyx).
      assert (x = y) as ->.
      { specialize (H x Px). cbn in H. rewrite Hxx, Exy in H. congruence. }
      f_equal. apply IH; auto.
      intros k Pk. specialize (H k Pk). cbn in H. destruct (equiv lt k y); congruence.
  Qed.
End SortUnique.

(* ====================================================================== sort on values *)
Lemma mutually_comparable_spec l :
  mutually_comparable l = true <->
  (forall a b, In a l -> In b l -> exists o, compare a b = Some o).
Proof.
  unfold mutually_comparable. rewrite forallb_forall. split.
  - intros H a b Ha Hb. specialize (H a Ha). rewrite forallb_forall in H. specialize (H b Hb).
    destruct (compare a b) as [o|]; [now exists o|discriminate].
  - intros H a Ha. apply forallb_forall. intros b Hb. destruct (H a b Ha Hb) as [o ->]. reflexivity.
Qed.

Lemma value_less_spec a b : value_less a b = true <-> compare a b = Some Lt.
Proof.
  unfold value_less, cmp_or_eq, is_Lt. destruct (compare a b) as [[]|]; split; congruence.
Qed.

Section ValueOrder.
  Variable l : list value.
  Hypothesis Hmc : mutually_comparable l = true.
  Let P := fun x => In x l.

  Lemma vl_irrefl x : P x -> value_less x x = false.
  Proof.
    intros Hx. destruct (value_less x x) eqn:E; [|reflexivity].
    apply value_less_spec in E. assert (E' := E). apply compare_lt_gt in E'. congruence.
  Qed.

  Lemma vl_asym x y : P x -> P y -> value_less x y = true -> value_less y x = false.
  Proof.
    intros _ _ H. apply value_less_spec in H. apply compare_lt_gt in H.
    unfold value_less, cmp_or_eq. now rewrite H.
  Qed.

  Lemma vl_negtrans x y z : P x -> P y -> P z ->
    value_less x y = false -> value_less y z = false -> value_less x z = false.
  Proof.
    intros Hx Hy Hz H1 H2.
    destruct (proj1 (mutually_comparable_spec l) Hmc z y Hz Hy) as [o2 E2].
    destruct (proj1 (mutually_comparable_spec l) Hmc y x Hy Hx) as [o1 E1].
    assert (N2 : o2 <> Gt).
    { intros ->. apply compare_lt_gt in E2. apply value_less_spec in E2. congruence. }
    assert (N1 : o1 <> Gt).
    { intros ->. apply compare_lt_gt in E1. apply value_less_spec in E1. congruence. }
    assert (T := compare_trans z y x o2 o1 E2 E1 N2 N1).
    destruct (value_less x z) eqn:E; [|reflexivity].
    apply value_less_spec in E. apply compare_lt_gt in E. rewrite E in T.
    destruct o2, o1; cbn in T; congruence.
  Qed.

  (* "not less" is the documented non-strict order on comparable values *)
  Lemma vl_not_less_ulte a b : P a -> P b -> value_less b a = false -> ulte a b = true.
  Proof.
    intros Ha Hb H.
    destruct (proj1 (mutually_comparable_spec l) Hmc a b Ha Hb) as [o E].
    unfold ulte. rewrite E. destruct o; try reflexivity.
    apply compare_lt_gt in E. apply value_less_spec in E. congruence.
  Qed.

  Lemma vl_equiv_ceq k x : P k -> P x ->
    equiv value_less k x = match compare k x with Some Eq => true | _ => false end.
  Proof.
    intros Hk Hx. unfold equiv.
    destruct (proj1 (mutually_comparable_spec l) Hmc k x Hk Hx) as [o E]. rewrite E.
    destruct o.
    - assert (E' := E). apply compare_eq_sym in E'.
      unfold value_less, cmp_or_eq. now rewrite E, E'.
    - apply value_less_spec in E. now rewrite E.
    - apply compare_lt_gt in E. apply value_less_spec in E. rewrite E. now rewrite andb_false_r.
  Qed.
End ValueOrder.

Definition same_class (k x : value) : bool :=
  match compare k x with Some Eq => true | _ => false end.

Lemma filter_ext_in' {A} (f g : A -> bool) l : (forall x, In x l -> f x = g x) -> filter f l = filter g l.
Proof.
  induction l as [|x l IH]; cbn; intros H; [reflexivity|].
  rewrite (H x) by now left. rewrite IH; [reflexivity|]. intros; apply H; now right.
Qed.

(* ====================================================================== chunk / flatten *)
(* chunk's size argument after the `as usize` cast, as the model clamps it *)
Definition chunk_size (l : list value) (x : num) : nat :=
  Z.to_nat (Z.min (as_usize x) (Z.max 1 (Z.of_nat (length l)))).

Lemma chunk_ok l x : (as_usize x =? 0)%Z = false ->
  bi_chunk [VList l; VNum x] = Ok (VList (map VList (chunks l (chunk_size l x)))).
Proof. intros H. unfold bi_chunk. cbn [arg nth_error obind as_number as_list]. now rewrite H. Qed.

Lemma chunk_zero l x : (as_usize x =? 0)%Z = true -> bi_chunk [VList l; VNum x] = Err.
Proof. intros H. unfold bi_chunk. cbn [arg nth_error obind as_number as_list]. now rewrite H. Qed.

Lemma clamp_nonneg hi z : (0 <= hi)%Z -> (0 <= clamp 0 hi z)%Z.
Proof.
  intros H. unfold clamp. destruct (z <? 0)%Z eqn:E1; [lia|].
  destruct (hi <? z)%Z eqn:E2; [lia|]. apply Z.ltb_ge in E1. lia.
Qed.

Lemma as_usize_nonneg x : (0 <= as_usize x)%Z.
Proof.
  assert (HU : (0 <= U64_MAX)%Z) by (unfold U64_MAX; lia).
  unfold as_usize, cast_int.
  destruct x as [s|s| |s m e].
  - destruct (Z_of_num_trunc (S754_zero s)); [now apply clamp_nonneg|lia].
  - destruct s; [lia|exact HU].
  - lia.
  - destruct (Z_of_num_trunc (S754_finite s m e)); [now apply clamp_nonneg|lia].
Qed.

(* flatten(chunk(l, n)) == l whenever chunk succeeds (n >= 1 after the cast) *)
Lemma flatten_chunk l x c : bi_chunk [VList l; VNum x] = Ok c -> bi_flatten [c] = Ok (VList l).
Proof.
  destruct (as_usize x =? 0)%Z eqn:E.
  - rewrite chunk_zero by assumption. discriminate.
  - rewrite chunk_ok by assumption. intros H; injection H as <-.
    unfold bi_flatten. cbn [arg nth_error obind as_list]. now rewrite flatten_items_lists, chunks_concat.
Qed.

(* every chunk has exactly n elements except the last, which has between 1 and n; the chunks
   concatenate to l; n is the requested size (or the list length when the request is larger) *)
Lemma chunk_lengths l x c : bi_chunk [VList l; VNum x] = Ok c ->
  exists cs n, c = VList (map VList cs) /\ (1 <= n)%nat /\
    Z.of_nat n = Z.min (as_usize x) (Z.max 1 (Z.of_nat (length l))) /\
    chunk_shape n cs /\ List.concat cs = l.
Proof.
  destruct (as_usize x =? 0)%Z eqn:E.
  - rewrite chunk_zero by assumption. discriminate.
  - rewrite chunk_ok by assumption. intros H; injection H as <-.
    assert (Hx := as_usize_nonneg x). apply Z.eqb_neq in E.
    exists (chunks l (chunk_size l x)), (chunk_size l x).
    assert (1 <= chunk_size l x)%nat by (unfold chunk_size; lia).
    split; [reflexivity|]. split; [assumption|]. split; [unfold chunk_size; lia|].
    split; [now apply chunks_shape|apply chunks_concat].
Qed.

(* a request larger than the list gives the single chunk [l], as slice::chunks does *)
Lemma chunks_one {A} (l : list A) n : l <> [] -> (length l <= n)%nat -> chunks l n = [l].
Proof.
  intros Hne Hn. unfold chunks.
  assert (G : forall (l cur : list A) room, (length l <= room)%nat -> cur ++ l <> [] ->
             chunk_acc l n room cur = [cur ++ l]).
  { clear. induction l as [|x l IH]; intros cur room Hr Hc; cbn.
    - rewrite app_nil_r in *. destruct cur; [congruence|reflexivity].
    - destruct room as [|k]; [cbn in Hr; lia|].
      rewrite IH; [now rewrite <- app_assoc|cbn in Hr; lia|]. destruct cur; discriminate. }
  now apply (G l [] n).
Qed.
