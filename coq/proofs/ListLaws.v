(* ListLaws.v — laws of the list built-ins of BuiltinsList.v (property C14). *)
From Coq Require Import String Ascii List ZArith Bool Lia Permutation Sorted.
Require Import Blots.Num Blots.gen.Builtins Blots.Ast Blots.Value Blots.Outcome Blots.Access
  Blots.BuiltinsList Blots.proofs.ValueInd Blots.proofs.Order.
Import ListNotations.
Open Scope list_scope.

(* ---------- reverse ---------- *)
Lemma reverse_involutive l r :
  bi_reverse [VList l] = Ok r -> bi_reverse [r] = Ok (VList l).
Proof.
  cbn. intros H. injection H as <-. cbn. now rewrite rev_involutive.
Qed.

Lemma reverse_spec l : bi_reverse [VList l] = Ok (VList (rev l)).
Proof. reflexivity. Qed.

(* ---------- concat ---------- *)
Lemma concat_app a b : bi_concat [VList a; VList b] = Ok (VList (a ++ b)).
Proof. unfold bi_concat. cbn [concat_args]. now rewrite app_nil_r. Qed.

Lemma concat_args_lists ls : concat_args (map VList ls) = List.concat ls.
Proof. induction ls as [|l ls IH]; cbn; [reflexivity|]. now rewrite IH. Qed.

Lemma concat_lists ls : bi_concat (map VList ls) = Ok (VList (List.concat ls)).
Proof. unfold bi_concat. now rewrite concat_args_lists. Qed.

(* ---------- chunk / flatten ---------- *)
Lemma chunk_acc_concat {A} (l : list A) n room cur :
  List.concat (chunk_acc l n room cur) = cur ++ l.
Proof.
  revert room cur. induction l as [|x l IH]; intros room cur; cbn.
  - destruct cur; cbn; [reflexivity|]. now rewrite !app_nil_r.
  - destruct room; cbn; rewrite IH; [reflexivity|]. now rewrite <- app_assoc.
Qed.

Lemma chunks_concat {A} (l : list A) n : List.concat (chunks l n) = l.
Proof. unfold chunks. now rewrite chunk_acc_concat. Qed.

Lemma flatten_items_lists ls : flatten_items (map VList ls) = List.concat ls.
Proof. induction ls as [|l ls IH]; cbn; [reflexivity|]. now rewrite IH. Qed.

(* every chunk but the last has exactly n elements, the last has between 1 and n *)
Definition chunk_shape {A} (n : nat) (cs : list (list A)) : Prop :=
  forall i c, nth_error cs i = Some c ->
    (1 <= length c <= n)%nat /\ (S i < length cs -> length c = n)%nat.

Lemma chunk_acc_shape {A} (l : list A) n room cur :
  (1 <= n)%nat -> (length cur + room = n)%nat -> (cur = [] -> l = [] \/ room = n)%nat ->
  chunk_shape n (chunk_acc l n room cur).
Proof.
  intros Hn. revert room cur. induction l as [|x l IH]; intros room cur Hlen Hcur; cbn.
  - destruct cur as [|c0 cur]; intros i c Hi.
    + destruct i; discriminate.
    + destruct i as [|i]; cbn in Hi; [|destruct i; discriminate].
      injection Hi as <-. cbn in *. split; [lia|]. intros; lia.
  - destruct room as [|k].
    + (* cur is full *)
      assert (Hc : length cur = n) by lia.
      intros i c Hi. destruct i as [|i]; cbn in Hi.
      * injection Hi as <-. split; [lia|]. auto.
      * assert (IH' := IH (n - 1)%nat [x]).
        assert (chunk_shape n (chunk_acc l n (n - 1) [x])) as Hs.
        { apply IH'; cbn; [lia|]. discriminate. }
        destruct (Hs i c Hi) as [H1 H2]. split; [exact H1|]. cbn. intros. apply H2. lia.
    + apply IH.
      * rewrite app_length. cbn. lia.
      * intros E. destruct cur; discriminate.
Qed.

Lemma chunks_shape {A} (l : list A) n : (1 <= n)%nat -> chunk_shape n (chunks l n).
Proof. intros Hn. apply chunk_acc_shape; [assumption|cbn; lia|]. intros _. now right. Qed.

(* ---------- head / tail ---------- *)
Lemma head_tail_rebuild_list x l :
  bi_head [VList (x :: l)] = Ok x /\ bi_tail [VList (x :: l)] = Ok (VList l).
Proof.
  split; [reflexivity|]. unfold bi_tail, slice_get. cbn [arg nth_error obind].
  replace (1 <=? Z.of_nat (length (x :: l)))%Z with true by (symmetry; apply Z.leb_le; cbn [length]; lia).
  rewrite Z.leb_refl. cbn [andb].
  replace (Z.to_nat (Z.of_nat (length (x :: l)) - 1)) with (length l) by (cbn [length]; lia).
  cbn. now rewrite firstn_all.
Qed.

Lemma head_tail_empty_list :
  bi_head [VList []] = Ok VNull /\ bi_tail [VList []] = Ok (VList []).
Proof. split; reflexivity. Qed.
