(* ListLaws.v — laws of the list built-ins of BuiltinsList.v (property C14). *)
From Coq Require Import String Ascii List ZArith Bool Lia Permutation Sorted Floats.SpecFloat.
Require Import Blots.Num Blots.gen.Builtins Blots.Ast Blots.Value Blots.Outcome Blots.Access
  Blots.BuiltinsList Blots.proofs.ValueInd Blots.proofs.Order.
Import ListNotations.
Open Scope list_scope.

(* ---------- reverse ---------- *)
Lemma reverse_involutive l r :
  bi_reverse [VList l] = Ok r -> bi_reverse [r] = Ok (VList l).
Proof.
  cbn. intros H. injection H as <-. cbn. now rewrite rev_involutive.
Qed.

Lemma reverse_spec l : bi_reverse [VList l] = Ok (VList (rev l)).
Proof. reflexivity. Qed.

(* ---------- concat ---------- *)
Lemma concat_app a b : bi_concat [VList a; VList b] = Ok (VList (a ++ b)).
Proof. unfold bi_concat. cbn [concat_args]. now rewrite app_nil_r. Qed.

Lemma concat_args_lists ls : concat_args (map VList ls) = List.concat ls.
Proof. induction ls as [|l ls IH]; cbn; [reflexivity|]. now rewrite IH. Qed.

Lemma concat_lists ls : bi_concat (map VList ls) = Ok (VList (List.concat ls)).
Proof. unfold bi_concat. now rewrite concat_args_lists. Qed.

(* ---------- chunk / flatten ---------- *)
Lemma chunk_acc_concat {A} (l : list A) n room cur :
  List.concat (chunk_acc l n room cur) = cur ++ l.
Proof.
  revert room cur. induction l as [|x l IH]; intros room cur; cbn.
  - destruct cur; cbn; [reflexivity|]. now rewrite !app_nil_r.
  - destruct room; cbn; rewrite IH; [reflexivity|]. now rewrite <- app_assoc.
Qed.

Lemma chunks_concat {A} (l : list A) n : List.concat (chunks l n) = l.
Proof. unfold chunks. now rewrite chunk_acc_concat. Qed.

Lemma flatten_items_lists ls : flatten_items (map VList ls) = List.concat ls.
Proof. induction ls as [|l ls IH]; cbn; [reflexivity|]. now rewrite IH. Qed.

(* every chunk but the last has exactly n elements, the last has between 1 and n *)
Definition chunk_shape {A} (n : nat) (cs : list (list A)) : Prop :=
  forall i c, nth_error cs i = Some c ->
    (1 <= length c <= n)%nat /\ (S i < length cs -> length c = n)%nat.

Lemma chunk_acc_shape {A} (l : list A) n room cur :
  (1 <= n)%nat -> (length cur + room = n)%nat -> (cur = [] -> l = [] \/ room = n)%nat ->
  chunk_shape n (chunk_acc l n room cur).
Proof.
  intros Hn. revert room cur. induction l as [|x l IH]; intros room cur Hlen Hcur; cbn.
  - destruct cur as [|c0 cur]; intros i c Hi.
    + destruct i; discriminate.
    + destruct i as [|i]; cbn in Hi; [|destruct i; discriminate].
      injection Hi as <-. cbn in *. split; [lia|]. intros; lia.
  - destruct room as [|k].
    + (* cur is full *)
      assert (Hc : length cur = n) by lia.
      intros i c Hi. destruct i as [|i]; cbn in Hi.
      * injection Hi as <-. split; [lia|]. auto.
      * assert (IH' := IH (n - 1)%nat [x]).
        assert (chunk_shape n (chunk_acc l n (n - 1) [x])) as Hs.
        { apply IH'; cbn; [lia|]. discriminate. }
        destruct (Hs i c Hi) as [H1 H2]. split; [exact H1|]. cbn. intros. apply H2. lia.
    + apply IH.
      * rewrite app_length. cbn. lia.
      * intros E. destruct cur; discriminate.
Qed.

Lemma chunks_shape {A} (l : list A) n : (1 <= n)%nat -> chunk_shape n (chunks l n).
Proof. intros Hn. apply chunk_acc_shape; [assumption|cbn; lia|]. intros _. now right. Qed.

(* ---------- head / tail ---------- *)
Lemma head_tail_rebuild_list x l :
  bi_head [VList (x :: l)] = Ok x /\ bi_tail [VList (x :: l)] = Ok (VList l).
Proof.
  split; [reflexivity|]. unfold bi_tail, slice_get. cbn [arg nth_error obind].
  replace (1 <=? Z.of_nat (length (x :: l)))%Z with true by (symmetry; apply Z.leb_le; cbn [length]; lia).
  rewrite Z.leb_refl. cbn [andb].
  replace (Z.to_nat (Z.of_nat (length (x :: l)) - 1)) with (length l) by (cbn [length]; lia).
  cbn. now rewrite firstn_all.
Qed.

Lemma head_tail_empty_list :
  bi_head [VList []] = Ok VNull /\ bi_tail [VList []] = Ok (VList []).
Proof. split; reflexivity. Qed.

(* ====================================================================== sorting *)
Lemma SS_app {A} (R : A -> A -> Prop) l1 l2 :
  StronglySorted R l1 -> StronglySorted R l2 -> (forall a b, In a l1 -> In b l2 -> R a b) ->
  StronglySorted R (l1 ++ l2).
Proof.
  induction l1 as [|x l1 IH]; cbn; intros H1 H2 H; [assumption|].
  inversion H1 as [|? ? Hs Hf]; subst. constructor.
  - apply IH; auto.
  - apply Forall_app. split; [assumption|]. apply Forall_forall. intros b Hb. apply H; auto.
Qed.

Lemma SS_rev {A} (R : A -> A -> Prop) l :
  StronglySorted R l -> StronglySorted (fun a b => R b a) (rev l).
Proof.
  induction l as [|x l IH]; cbn; intros H; [constructor|].
  inversion H as [|? ? Hs Hf]; subst. apply SS_app.
  - auto.
  - repeat constructor.
  - intros a b Ha [<-|[]]. rewrite Forall_forall in Hf. apply Hf. now apply in_rev.
Qed.

Section SortGeneric.
  Context {A : Type}.
  Variable lt : A -> A -> bool.
  Let step := fun (prefix_rev : list A) (x : A) => insert_tail lt x prefix_rev.

  Lemma insert_tail_perm x p : Permutation (x :: p) (insert_tail lt x p).
  Proof.
    induction p as [|y p IH]; cbn; [reflexivity|].
    destruct (lt x y); [|reflexivity].
    rewrite perm_swap. now constructor.
  Qed.

  Lemma fold_insert_perm l acc : Permutation (l ++ acc) (fold_left step l acc).
  Proof.
    revert acc. induction l as [|x l IH]; intros acc; cbn; [reflexivity|].
    rewrite <- IH. unfold step. rewrite <- insert_tail_perm. apply Permutation_middle.
  Qed.

  Lemma insertion_sort_perm l : Permutation l (insertion_sort lt l).
  Proof.
    unfold insertion_sort. rewrite <- Permutation_rev. fold step.
    rewrite <- fold_insert_perm. now rewrite app_nil_r.
  Qed.

  Lemma insertion_sort_length l : length (insertion_sort lt l) = length l.
  Proof. symmetry. apply Permutation_length, insertion_sort_perm. Qed.

  (* the comparator is a strict weak order on the elements that satisfy P *)
  Variable P : A -> Prop.
  Hypothesis asym : forall x y, P x -> P y -> lt x y = true -> lt y x = false.
  Hypothesis negtrans : forall x y z, P x -> P y -> P z ->
    lt x y = false -> lt y z = false -> lt x z = false.

  Lemma insert_tail_P x p : P x -> Forall P p -> Forall P (insert_tail lt x p).
  Proof.
    intros Hx Hp. eapply Permutation_Forall; [apply insert_tail_perm|]. now constructor.
  Qed.

  Definition desc (p : list A) := StronglySorted (fun y z => lt y z = false) p.

  Lemma insert_tail_desc x p : P x -> Forall P p -> desc p -> desc (insert_tail lt x p).
  Proof.
    intros Hx. induction p as [|y p IH]; intros Hp Hd; cbn.
    - repeat constructor.
    - inversion Hp as [|? ? Py Pp]; subst. inversion Hd as [|? ? Hs Hf]; subst.
      destruct (lt x y) eqn:E.
      + constructor; [now apply IH|].
        eapply Permutation_Forall; [apply insert_tail_perm|]. constructor; [now apply asym|assumption].
      + constructor; [assumption|]. constructor; [assumption|].
        rewrite Forall_forall in *. intros z Hz. apply (negtrans x y z); auto.
  Qed.

  Lemma fold_insert_desc l acc :
    Forall P l -> Forall P acc -> desc acc -> desc (fold_left step l acc) /\ Forall P (fold_left step l acc).
  Proof.
    revert acc. induction l as [|x l IH]; intros acc Hl Ha Hd; cbn; [split; assumption|].
    inversion Hl; subst. apply IH; auto; unfold step.
    - now apply insert_tail_P.
    - now apply insert_tail_desc.
  Qed.

  (* the result is non-decreasing: no later element is less than an earlier one *)
  Lemma insertion_sort_sorted l :
    Forall P l -> StronglySorted (fun a b => lt b a = false) (insertion_sort lt l).
  Proof.
    intros Hl. unfold insertion_sort. apply (SS_rev (fun y z => lt y z = false)).
    apply (fold_insert_desc l []); auto. constructor.
  Qed.

  (* stability: for every k, the elements equivalent to k keep their input order *)
  Definition equiv (k x : A) : bool := negb (lt k x) && negb (lt x k).

  Lemma insert_tail_stable k x p :
    P k -> P x -> Forall P p ->
    filter (equiv k) (rev (insert_tail lt x p)) = filter (equiv k) (rev p ++ [x]).
  Proof.
    intros Hk Hx. induction p as [|y p IH]; intros Hp; cbn; [reflexivity|].
    inversion Hp as [|? ? Py Pp]; subst.
    destruct (lt x y) eqn:E; [|reflexivity].
    cbn. rewrite !filter_app, IH by assumption. rewrite filter_app, <- !app_assoc. f_equal.
    cbn. destruct (equiv k x) eqn:Ex, (equiv k y) eqn:Ey; try reflexivity.
    exfalso. unfold equiv in *.
    apply andb_prop in Ex as [_ Ex2]. apply andb_prop in Ey as [Ey1 _].
    apply negb_true_iff in Ex2, Ey1. rewrite (negtrans x k y) in E; auto. discriminate.
  Qed.

  Lemma fold_insert_stable k l acc :
    P k -> Forall P l -> Forall P acc ->
    filter (equiv k) (rev (fold_left step l acc)) = filter (equiv k) (rev acc ++ l).
  Proof.
    intros Hk. revert acc. induction l as [|x l IH]; intros acc Hl Ha; cbn.
    - now rewrite app_nil_r.
    - inversion Hl; subst. rewrite IH; auto; [|now apply insert_tail_P].
      unfold step. change (x :: l) with ([x] ++ l).
      rewrite !filter_app, insert_tail_stable by assumption.
      rewrite filter_app, <- app_assoc. reflexivity.
  Qed.

  Lemma insertion_sort_stable k l :
    P k -> Forall P l -> filter (equiv k) (insertion_sort lt l) = filter (equiv k) l.
  Proof. intros Hk Hl. unfold insertion_sort. fold step. now rewrite fold_insert_stable. Qed.
End SortGeneric.

(* a sorted list is determined by its equivalence-class subsequences: every stable sort of the
   same input under the same strict weak order returns the same list (this is what lets the
   insertion sort stand for std's driftsort on inputs longer than 20) *)
Section SortUnique.
  Context {A : Type}.
  Variable lt : A -> A -> bool.
  Variable P : A -> Prop.
  Hypothesis irrefl : forall x, P x -> lt x x = false.

  Lemma sorted_stable_unique l1 : forall l2,
    Forall P l1 -> Forall P l2 ->
    StronglySorted (fun a b => lt b a = false) l1 ->
    StronglySorted (fun a b => lt b a = false) l2 ->
    (forall k, P k -> filter (equiv lt k) l1 = filter (equiv lt k) l2) ->
    l1 = l2.
  Proof.
    induction l1 as [|x t1 IH]; intros l2 P1 P2 S1 S2 H.
    - destruct l2 as [|y t2]; [reflexivity|].
      inversion P2 as [|? ? Py _]; subst. specialize (H y Py). cbn in H.
      unfold equiv in H at 1. rewrite (irrefl y Py) in H. discriminate.
    - inversion P1 as [|? ? Px Pt1]; subst.
      assert (Hxx : equiv lt x x = true) by (unfold equiv; now rewrite irrefl).
      destruct l2 as [|y t2].
      { specialize (H x Px). cbn in H. rewrite Hxx in H. discriminate. }
      inversion P2 as [|? ? Py Pt2]; subst.
      assert (Hyy : equiv lt y y = true) by (unfold equiv; now rewrite irrefl).
      inversion S1 as [|? ? S1' F1]; subst. inversion S2 as [|? ? S2' F2]; subst.
      (* x occurs in y :: t2, so y is not greater than x; and symmetrically *)
      assert (Hx2 : In x (y :: t2)).
      { assert (In x (filter (equiv lt x) (y :: t2))) as HI
          by (rewrite <- (H x Px); cbn; rewrite Hxx; now left).
        apply filter_In in HI. tauto. }
      assert (Hy1 : In y (x :: t1)).
      { assert (In y (filter (equiv lt y) (x :: t1))) as HI
          by (rewrite (H y Py); cbn; rewrite Hyy; now left).
        apply filter_In in HI. tauto. }
      assert (Lxy : lt x y = false).
      { destruct Hx2 as [->|Hx2]; [now apply irrefl|]. rewrite Forall_forall in F2. now apply F2. }
      assert (Lyx : lt y x = false).
      { destruct Hy1 as [->|Hy1]; [now apply irrefl|]. rewrite Forall_forall in F1. now apply F1. }
      assert (Exy : equiv lt x y = true) by (unfold equiv; now rewrite Lxy, Lyx).
      assert (x = y) as ->.
      { specialize (H x Px). cbn in H. rewrite Hxx, Exy in H. congruence. }
      f_equal. apply IH; auto.
      intros k Pk. specialize (H k Pk). cbn in H. destruct (equiv lt k y); congruence.
  Qed.
End SortUnique.

(* ====================================================================== sort on values *)
Lemma mutually_comparable_spec l :
  mutually_comparable l = true <->
  (forall a b, In a l -> In b l -> exists o, compare a b = Some o).
Proof.
  unfold mutually_comparable. rewrite forallb_forall. split.
  - intros H a b Ha Hb. specialize (H a Ha). rewrite forallb_forall in H. specialize (H b Hb).
    destruct (compare a b) as [o|]; [now exists o|discriminate].
  - intros H a Ha. apply forallb_forall. intros b Hb. destruct (H a b Ha Hb) as [o ->]. reflexivity.
Qed.

Lemma value_less_spec a b : value_less a b = true <-> compare a b = Some Lt.
Proof.
  unfold value_less, cmp_or_eq, is_Lt. destruct (compare a b) as [[]|]; split; congruence.
Qed.

Section ValueOrder.
  Variable l : list value.
  Hypothesis Hmc : mutually_comparable l = true.
  Let P := fun x => In x l.

  Lemma vl_irrefl x : P x -> value_less x x = false.
  Proof.
    intros Hx. destruct (value_less x x) eqn:E; [|reflexivity].
    apply value_less_spec in E. assert (E' := E). apply compare_lt_gt in E'. congruence.
  Qed.

  Lemma vl_asym x y : P x -> P y -> value_less x y = true -> value_less y x = false.
  Proof.
    intros _ _ H. apply value_less_spec in H. apply compare_lt_gt in H.
    unfold value_less, cmp_or_eq. now rewrite H.
  Qed.

  Lemma vl_negtrans x y z : P x -> P y -> P z ->
    value_less x y = false -> value_less y z = false -> value_less x z = false.
  Proof.
    intros Hx Hy Hz H1 H2.
    destruct (proj1 (mutually_comparable_spec l) Hmc z y Hz Hy) as [o2 E2].
    destruct (proj1 (mutually_comparable_spec l) Hmc y x Hy Hx) as [o1 E1].
    assert (N2 : o2 <> Gt).
    { intros ->. apply compare_lt_gt in E2. apply value_less_spec in E2. congruence. }
    assert (N1 : o1 <> Gt).
    { intros ->. apply compare_lt_gt in E1. apply value_less_spec in E1. congruence. }
    assert (T := compare_trans z y x o2 o1 E2 E1 N2 N1).
    destruct (value_less x z) eqn:E; [|reflexivity].
    apply value_less_spec in E. apply compare_lt_gt in E. rewrite E in T.
    destruct o2, o1; cbn in T; congruence.
  Qed.

  (* "not less" is the documented non-strict order on comparable values *)
  Lemma vl_not_less_ulte a b : P a -> P b -> value_less b a = false -> ulte a b = true.
  Proof.
    intros Ha Hb H.
    destruct (proj1 (mutually_comparable_spec l) Hmc a b Ha Hb) as [o E].
    unfold ulte. rewrite E. destruct o; try reflexivity.
    apply compare_lt_gt in E. apply value_less_spec in E. congruence.
  Qed.

  Lemma vl_equiv_ceq k x : P k -> P x ->
    equiv value_less k x = match compare k x with Some Eq => true | _ => false end.
  Proof.
    intros Hk Hx. unfold equiv.
    destruct (proj1 (mutually_comparable_spec l) Hmc k x Hk Hx) as [o E]. rewrite E.
    destruct o.
    - assert (E' := E). apply compare_eq_sym in E'.
      unfold value_less, cmp_or_eq. now rewrite E, E'.
    - apply value_less_spec in E. now rewrite E.
    - apply compare_lt_gt in E. apply value_less_spec in E. rewrite E. now rewrite andb_false_r.
  Qed.
End ValueOrder.

Definition same_class (k x : value) : bool :=
  match compare k x with Some Eq => true | _ => false end.

Lemma filter_ext_in' {A} (f g : A -> bool) l : (forall x, In x l -> f x = g x) -> filter f l = filter g l.
Proof.
  induction l as [|x l IH]; cbn; intros H; [reflexivity|].
  rewrite (H x) by now left. rewrite IH; [reflexivity|]. intros; apply H; now right.
Qed.

Lemma sort_ok l : sort_determined l = true ->
  bi_sort [VList l] = Ok (VList (insertion_sort value_less l)).
Proof. intros H. cbn. now rewrite H. Qed.

Lemma sort_unspecified l : sort_determined l = false -> bi_sort [VList l] = Unmodelled.
Proof. intros H. cbn. now rewrite H. Qed.

Lemma sort_perm l r : bi_sort [VList l] = Ok r -> exists l', r = VList l' /\ Permutation l l'.
Proof.
  cbn. destruct (sort_determined l); [|discriminate]. intros H; injection H as <-.
  eexists; split; [reflexivity|]. apply insertion_sort_perm.
Qed.

Lemma sort_sorted l : mutually_comparable l = true ->
  exists l', bi_sort [VList l] = Ok (VList l') /\
             StronglySorted (fun a b => ulte a b = true) l'.
Proof.
  intros Hmc. exists (insertion_sort value_less l). split.
  - apply sort_ok. unfold sort_determined. rewrite Hmc. apply orb_true_r.
  - assert (HP : Forall (fun x => In x l) l) by (apply Forall_forall; auto).
    assert (S := insertion_sort_sorted value_less (fun x => In x l)
                   (vl_asym l) (vl_negtrans l Hmc) l HP).
    assert (Pm := insertion_sort_perm value_less l).
    (* transport membership to the sorted list *)
    assert (Hin : forall x, In x (insertion_sort value_less l) -> In x l).
    { intros x Hx. eapply Permutation_in; [symmetry; exact Pm|exact Hx]. }
    revert S Hin. generalize (insertion_sort value_less l) as s.
    induction s as [|a s IH]; intros S Hin; [constructor|].
    inversion S as [|? ? S' F]; subst. constructor.
    + apply IH; auto. intros; apply Hin; now right.
    + rewrite Forall_forall in *. intros b Hb.
      apply (vl_not_less_ulte l Hmc); [apply Hin; now left|apply Hin; now right|now apply F].
Qed.

Lemma sort_stable l : mutually_comparable l = true ->
  exists l', bi_sort [VList l] = Ok (VList l') /\
             forall k, In k l -> filter (same_class k) l' = filter (same_class k) l.
Proof.
  intros Hmc. exists (insertion_sort value_less l). split.
  - apply sort_ok. unfold sort_determined. rewrite Hmc. apply orb_true_r.
  - intros k Hk.
    assert (HP : Forall (fun x => In x l) l) by (apply Forall_forall; auto).
    assert (St := insertion_sort_stable value_less (fun x => In x l)
                    (vl_negtrans l Hmc) k l Hk HP).
    assert (Pm := insertion_sort_perm value_less l).
    rewrite (filter_ext_in' (same_class k) (equiv value_less k) (insertion_sort value_less l)).
    + rewrite St. apply filter_ext_in'. intros x Hx. unfold same_class.
      now apply (vl_equiv_ceq l Hmc).
    + intros x Hx. unfold same_class. symmetry. apply (vl_equiv_ceq l Hmc); [assumption|].
      eapply Permutation_in; [symmetry; exact Pm|exact Hx].
Qed.

(* every list that is a sorted, stable rearrangement of l is the model's answer: the model stands
   for any stable sorting algorithm on mutually comparable input *)
Lemma sort_any_stable_sort l l' :
  mutually_comparable l = true -> Permutation l l' ->
  StronglySorted (fun a b => value_less b a = false) l' ->
  (forall k, In k l -> filter (equiv value_less k) l' = filter (equiv value_less k) l) ->
  bi_sort [VList l] = Ok (VList l').
Proof.
  intros Hmc Pm S Stb. rewrite sort_ok by (unfold sort_determined; rewrite Hmc; apply orb_true_r).
  do 2 f_equal. symmetry.
  assert (HP : Forall (fun x => In x l) l) by (apply Forall_forall; auto).
  apply (sorted_stable_unique value_less (fun x => In x l) (vl_irrefl l)).
  - apply Forall_forall. intros x Hx. eapply Permutation_in; [symmetry; exact Pm|exact Hx].
  - eapply Permutation_Forall; [apply insertion_sort_perm|exact HP].
  - exact S.
  - apply (insertion_sort_sorted value_less (fun x => In x l) (vl_asym l) (vl_negtrans l Hmc)). exact HP.
  - intros k Hk. rewrite (Stb k Hk). symmetry.
    apply (insertion_sort_stable value_less (fun x => In x l) (vl_negtrans l Hmc)); assumption.
Qed.

(* ====================================================================== sort_by *)
Lemma insertion_sort_map {A B} (lt : B -> B -> bool) (h : A -> B) (l : list A) :
  insertion_sort lt (map h l) = map h (insertion_sort (fun a b => lt (h a) (h b)) l).
Proof.
  unfold insertion_sort. rewrite map_rev. f_equal.
  assert (G : forall acc,
    fold_left (fun p x => insert_tail lt x p) (map h l) (map h acc) =
    map h (fold_left (fun p x => insert_tail (fun a b => lt (h a) (h b)) x p) l acc)).
  { induction l as [|x l IH]; intros acc; cbn; [reflexivity|].
    rewrite <- IH. f_equal.
    clear. induction acc as [|y acc IHa]; cbn; [reflexivity|].
    destruct (lt (h x) (h y)); cbn; [now rewrite IHa|reflexivity]. }
  exact (G []).
Qed.

Section SortBy.
  Variable St : Type.
  Variable call : value -> value -> list value -> St -> outcome value * St.
  Notation sort_by_list := (sort_by_list St call).
  Notation insert_tail_by := (insert_tail_by St call).
  Notation insertion_sort_by := (insertion_sort_by St call).
  Notation keys_of := (keys_of St call).
  Notation sort_by_cmp := (sort_by_cmp St call).

  (* ---- permutation, for every callback whatsoever ---- *)
  Lemma insert_tail_by_perm func x p st r st' :
    insert_tail_by func x p st = (Ok r, st') -> Permutation (x :: p) r.
  Proof.
    revert st r st'. induction p as [|y p IH]; intros st r st'; cbn.
    - intros H; injection H as <- _. reflexivity.
    - destruct (sort_by_cmp func x y st) as [c st1]. destruct c as [[]| | | |]; try discriminate.
      + intros H; injection H as <- _. reflexivity.
      + destruct (BuiltinsList.insert_tail_by St call func x p st1) as [res st2] eqn:E.
        destruct res; cbn; try discriminate. intros H; injection H as <- _.
        rewrite perm_swap. constructor. now apply (IH st1 _ st2).
      + intros H; injection H as <- _. reflexivity.
  Qed.

  Lemma insertion_sort_by_perm func l acc st r st' :
    insertion_sort_by func l acc st = (Ok r, st') -> Permutation (rev acc ++ l) r.
  Proof.
    revert acc st. induction l as [|x l IH]; intros acc st; cbn.
    - intros H; injection H as <- _. now rewrite app_nil_r.
    - destruct (BuiltinsList.insert_tail_by St call func x acc st) as [res st1] eqn:E.
      destruct res as [p'| | | |]; try discriminate.
      intros H. apply IH in H. rewrite <- H.
      apply insert_tail_by_perm in E.
      etransitivity; [|apply Permutation_app_tail; etransitivity; [exact E|apply Permutation_rev]].
      symmetry. cbn. etransitivity; [apply Permutation_middle|].
      apply Permutation_app_tail, Permutation_rev.
  Qed.

  Lemma keys_of_snd func l st kl st' : keys_of func l st = (Ok kl, st') -> map snd kl = l.
  Proof.
    revert st kl st'. induction l as [|x l IH]; intros st kl st'; cbn.
    - intros H; injection H as <- _. reflexivity.
    - destruct (call func func [x] st) as [k st1]. destruct k; try discriminate.
      destruct (BuiltinsList.keys_of St call func l st1) as [more st2] eqn:E.
      destruct more; cbn; try discriminate. intros H; injection H as <- _.
      cbn. f_equal. now apply (IH st1 _ st2).
  Qed.

  Lemma sort_by_list_perm func l st r st' :
    sort_by_list func l st = (Ok r, st') -> Permutation l r.
  Proof.
    unfold BuiltinsList.sort_by_list. destruct (length l <=? 20)%nat.
    - intros H. apply insertion_sort_by_perm in H. exact H.
    - destruct (is_function func); cbn.
      + destruct (BuiltinsList.keys_of St call func l st) as [keyed st1] eqn:E.
        destruct keyed as [kl| | | |]; try discriminate.
        destruct (mutually_comparable (map fst kl)); [|discriminate].
        intros H; injection H as <- _.
        apply keys_of_snd in E. rewrite <- E at 1. apply Permutation_map, insertion_sort_perm.
      + intros H; injection H as <- _. reflexivity.
  Qed.

  Lemma sort_by_perm func l st r st' :
    bi_sort_by St call [VList l; func] st = (Ok r, st') -> exists l', r = VList l' /\ Permutation l l'.
  Proof.
    unfold bi_sort_by. cbn.
    destruct (BuiltinsList.sort_by_list St call func l st) as [res st1] eqn:E.
    destruct res; cbn; try discriminate. intros H; injection H as <- _.
    eexists; split; [reflexivity|]. now apply sort_by_list_perm in E.
  Qed.

  (* ---- order and stability on the keys, for a callback that is a function of its argument ---- *)
  Variable func : value.
  Variable key : value -> value.
  Hypothesis Hfun : is_function func = true.
  Hypothesis Hkey : forall x st, fst (call func func [x] st) = Ok (key x).
  Let key_less := fun a b => value_less (key a) (key b).

  Lemma sort_by_cmp_key a b st : fst (sort_by_cmp func a b st) = Ok (cmp_or_eq (key a) (key b)).
  Proof.
    unfold BuiltinsList.sort_by_cmp. rewrite Hfun.
    assert (Ha := Hkey a st). destruct (call func func [a] st) as [ra st1]. cbn in Ha. subst ra.
    assert (Hb := Hkey b st1). destruct (call func func [b] st1) as [rb st2]. cbn in Hb. subst rb.
    reflexivity.
  Qed.

  Lemma insert_tail_by_key x p st :
    fst (insert_tail_by func x p st) = Ok (insert_tail key_less x p).
  Proof.
    revert st. induction p as [|y p IH]; intros st; cbn; [reflexivity|].
    assert (Hc := sort_by_cmp_key x y st).
    destruct (sort_by_cmp func x y st) as [c st1]. cbn in Hc. subst c.
    unfold key_less at 1, value_less. destruct (cmp_or_eq (key x) (key y)); cbn; try reflexivity.
    assert (H := IH st1). destruct (BuiltinsList.insert_tail_by St call func x p st1) as [res st2].
    cbn in H. subst res. reflexivity.
  Qed.

  Lemma insertion_sort_by_key l acc st :
    fst (insertion_sort_by func l acc st) =
    Ok (rev (fold_left (fun p x => insert_tail key_less x p) l acc)).
  Proof.
    revert acc st. induction l as [|x l IH]; intros acc st; cbn; [reflexivity|].
    assert (H := insert_tail_by_key x acc st).
    destruct (BuiltinsList.insert_tail_by St call func x acc st) as [res st1]. cbn in H. subst res.
    apply IH.
  Qed.

  Lemma keys_of_key l st : fst (keys_of func l st) = Ok (map (fun x => (key x, x)) l).
  Proof.
    revert st. induction l as [|x l IH]; intros st; cbn; [reflexivity|].
    assert (H := Hkey x st). destruct (call func func [x] st) as [k st1]. cbn in H. subst k.
    assert (H := IH st1). destruct (BuiltinsList.keys_of St call func l st1) as [more st2].
    cbn in H. subst more. reflexivity.
  Qed.

  (* with mutually comparable keys the result is the stable sort by key *)
  Lemma sort_by_list_key l st :
    mutually_comparable (map key l) = true ->
    fst (sort_by_list func l st) = Ok (insertion_sort key_less l).
  Proof.
    intros Hmc. unfold BuiltinsList.sort_by_list. destruct (length l <=? 20)%nat.
    - apply insertion_sort_by_key.
    - rewrite Hfun. cbn.
      assert (H := keys_of_key l st). destruct (BuiltinsList.keys_of St call func l st) as [keyed st1].
      cbn in H. subst keyed.
      rewrite map_map. change (map (fun x => fst (key x, x)) l) with (map key l). rewrite Hmc. cbn.
      f_equal.
      rewrite (insertion_sort_map (fun a b => value_less (fst a) (fst b)) (fun x => (key x, x)) l).
      rewrite map_map. cbn. now rewrite map_id.
  Qed.

  Lemma sort_by_key l st :
    mutually_comparable (map key l) = true ->
    fst (bi_sort_by St call [VList l; func] st) = Ok (VList (insertion_sort key_less l)).
  Proof.
    intros Hmc. unfold bi_sort_by. cbn.
    assert (H := sort_by_list_key l st Hmc).
    destruct (BuiltinsList.sort_by_list St call func l st) as [res st1]. cbn in H. subst res. reflexivity.
  Qed.

  (* strict weak order of key_less on the elements of l *)
  Section KeyOrder.
    Variable l : list value.
    Hypothesis Hmc : mutually_comparable (map key l) = true.
    Let P := fun x => In x l.
    Lemma kl_asym x y : P x -> P y -> key_less x y = true -> key_less y x = false.
    Proof. intros Hx Hy. apply (vl_asym (map key l)); now apply in_map. Qed.
    Lemma kl_negtrans x y z : P x -> P y -> P z ->
      key_less x y = false -> key_less y z = false -> key_less x z = false.
    Proof. intros Hx Hy Hz. apply (vl_negtrans (map key l) Hmc); now apply in_map. Qed.
  End KeyOrder.

  Lemma sort_by_sorted l st :
    mutually_comparable (map key l) = true ->
    exists l', fst (bi_sort_by St call [VList l; func] st) = Ok (VList l') /\
               StronglySorted (fun a b => ulte (key a) (key b) = true) l'.
  Proof.
    intros Hmc. exists (insertion_sort key_less l). split; [now apply sort_by_key|].
    assert (HP : Forall (fun x => In x l) l) by (apply Forall_forall; auto).
    assert (S := insertion_sort_sorted key_less (fun x => In x l) (kl_asym l) (kl_negtrans l Hmc) l HP).
    assert (Pm := insertion_sort_perm key_less l).
    assert (Hin : forall x, In x (insertion_sort key_less l) -> In x l).
    { intros x Hx. eapply Permutation_in; [symmetry; exact Pm|exact Hx]. }
    revert S Hin. generalize (insertion_sort key_less l) as s.
    induction s as [|a s IH]; intros S Hin; [constructor|].
    inversion S as [|? ? S' F]; subst. constructor.
    + apply IH; auto. intros; apply Hin; now right.
    + rewrite Forall_forall in *. intros b Hb.
      apply (vl_not_less_ulte (map key l) Hmc); [apply in_map, Hin; now left|apply in_map, Hin; now right|].
      now apply F.
  Qed.

  Lemma sort_by_stable l st :
    mutually_comparable (map key l) = true ->
    exists l', fst (bi_sort_by St call [VList l; func] st) = Ok (VList l') /\
               forall k, In k l ->
                 filter (fun x => same_class (key k) (key x)) l' = filter (fun x => same_class (key k) (key x)) l.
  Proof.
    intros Hmc. exists (insertion_sort key_less l). split; [now apply sort_by_key|].
    intros k Hk.
    assert (HP : Forall (fun x => In x l) l) by (apply Forall_forall; auto).
    assert (Stb := insertion_sort_stable key_less (fun x => In x l) (kl_negtrans l Hmc) k l Hk HP).
    assert (Pm := insertion_sort_perm key_less l).
    assert (E : forall x, In x l -> same_class (key k) (key x) = equiv key_less k x).
    { intros x Hx. unfold same_class. symmetry.
      apply (vl_equiv_ceq (map key l) Hmc); now apply in_map. }
    rewrite (filter_ext_in' _ (equiv key_less k) (insertion_sort key_less l)).
    - rewrite Stb. symmetry. now apply filter_ext_in'.
    - intros x Hx. apply E. eapply Permutation_in; [symmetry; exact Pm|exact Hx].
  Qed.
End SortBy.

(* ====================================================================== chunk / flatten *)
(* chunk's size argument after the `as usize` cast, as the model clamps it *)
Definition chunk_size (l : list value) (x : num) : nat :=
  Z.to_nat (Z.min (as_usize x) (Z.max 1 (Z.of_nat (length l)))).

Lemma chunk_ok l x : (as_usize x =? 0)%Z = false ->
  bi_chunk [VList l; VNum x] = Ok (VList (map VList (chunks l (chunk_size l x)))).
Proof. intros H. unfold bi_chunk. cbn [arg nth_error obind as_number as_list]. now rewrite H. Qed.

Lemma chunk_zero l x : (as_usize x =? 0)%Z = true -> bi_chunk [VList l; VNum x] = Err.
Proof. intros H. unfold bi_chunk. cbn [arg nth_error obind as_number as_list]. now rewrite H. Qed.

Lemma clamp_nonneg hi z : (0 <= hi)%Z -> (0 <= clamp 0 hi z)%Z.
Proof.
  intros H. unfold clamp. destruct (z <? 0)%Z eqn:E1; [lia|].
  destruct (hi <? z)%Z eqn:E2; [lia|]. apply Z.ltb_ge in E1. lia.
Qed.

Lemma as_usize_nonneg x : (0 <= as_usize x)%Z.
Proof.
  assert (HU : (0 <= U64_MAX)%Z) by (unfold U64_MAX; lia).
  unfold as_usize, cast_int.
  destruct x as [s|s| |s m e].
  - destruct (Z_of_num_trunc (S754_zero s)); [now apply clamp_nonneg|lia].
  - destruct s; [lia|exact HU].
  - lia.
  - destruct (Z_of_num_trunc (S754_finite s m e)); [now apply clamp_nonneg|lia].
Qed.

(* flatten(chunk(l, n)) == l whenever chunk succeeds (n >= 1 after the cast) *)
Lemma flatten_chunk l x c : bi_chunk [VList l; VNum x] = Ok c -> bi_flatten [c] = Ok (VList l).
Proof.
  destruct (as_usize x =? 0)%Z eqn:E.
  - rewrite chunk_zero by assumption. discriminate.
  - rewrite chunk_ok by assumption. intros H; injection H as <-.
    unfold bi_flatten. cbn [arg nth_error obind as_list]. now rewrite flatten_items_lists, chunks_concat.
Qed.

(* every chunk has exactly n elements except the last, which has between 1 and n; the chunks
   concatenate to l; n is the requested size (or the list length when the request is larger) *)
Lemma chunk_lengths l x c : bi_chunk [VList l; VNum x] = Ok c ->
  exists cs n, c = VList (map VList cs) /\ (1 <= n)%nat /\
    Z.of_nat n = Z.min (as_usize x) (Z.max 1 (Z.of_nat (length l))) /\
    chunk_shape n cs /\ List.concat cs = l.
Proof.
  destruct (as_usize x =? 0)%Z eqn:E.
  - rewrite chunk_zero by assumption. discriminate.
  - rewrite chunk_ok by assumption. intros H; injection H as <-.
    assert (Hx := as_usize_nonneg x). apply Z.eqb_neq in E.
    exists (chunks l (chunk_size l x)), (chunk_size l x).
    assert (1 <= chunk_size l x)%nat by (unfold chunk_size; lia).
    split; [reflexivity|]. split; [assumption|]. split; [unfold chunk_size; lia|].
    split; [now apply chunks_shape|apply chunks_concat].
Qed.

(* a request larger than the list gives the single chunk [l], as slice::chunks does *)
Lemma chunks_one {A} (l : list A) n : l <> [] -> (length l <= n)%nat -> chunks l n = [l].
Proof.
  intros Hne Hn. unfold chunks.
  assert (G : forall (l cur : list A) room, (length l <= room)%nat -> cur ++ l <> [] ->
             chunk_acc l n room cur = [cur ++ l]).
  { clear. induction l as [|x l IH]; intros cur room Hr Hc; cbn.
    - rewrite app_nil_r in *. destruct cur; [congruence|reflexivity].
    - destruct room as [|k]; [cbn in Hr; lia|].
      rewrite IH; [now rewrite <- app_assoc|cbn in Hr; lia|]. destruct cur; discriminate. }
  now apply (G l [] n).
Qed.
