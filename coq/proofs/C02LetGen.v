(* C02LetGen.v — LET-ABSTRACTION beyond head contexts (C02).

   Setting (that of C02Let.v): a scope chain fr in which x holds the cell-free value v and the
   assignment-free expression s evaluates to v (the state after `x = s`).  C02Let.v proved
   osame (C[x]) (C[s]) for HEAD contexts: the occurrence is the first thing C evaluates apart from atoms.
   Here the occurrence may sit ANYWHERE that is evaluated at most once, in the scope of the binding, outside
   lambdas and do-blocks ([sctx], "sequential contexts"): after arbitrary assignment-free siblings that are
   evaluated BEFORE it (left operands, the accessed value, the callee, earlier call arguments, earlier list
   items, the condition of a conditional whose branch holds the occurrence) — siblings that may allocate
   function cells, call functions and built-ins, or fail — and inside a conditional branch that is taken
   or NOT taken (then C[x] and C[s] are the same evaluation).

   What makes it work, and was named as missing in notes/C02.md:
     (a) the renaming is not fixed in advance: the induction over the context carries "for every store st'
         reachable from st by evaluating assignment-free expressions" ([Inv]), and the renaming
         shift |st'| k is chosen AT the occurrence (existential in [srel2]); everything older than the store at
         which the context was entered is fixed by it ([fixes_below]);
     (b) "every intermediate value mentions existing cells only" — C02Wf.v (evaluation preserves cfg_wf and
         returns such values): a sibling's value w evaluated before the occurrence satisfies ren rho w = w;
     (c) s evaluated later gives the same value: store-extension invariance (C02Sim.v) moves the hypothesis on
         s from st to st'.
   Still excluded (kept in the Prop [let_abstraction_full_stmt] of C02Let.v): several occurrences (each one
   inserts a block of cells: the renaming must grow DURING the run — here it is chosen once); occurrences
   under a lambda / do-block; siblings with assignments before the occurrence; function-valued s.  And the
   step from the two-statement program `x = s; C[x]` to the hypotheses used here ("s evaluates to v in the
   scope that already binds x") needs WEAKENING: evaluation does not depend on a binding of a name that no
   expression and no function body reachable from the scope mentions — [weakening_stmt] below, not proved. *)
From Coq Require Import String Ascii List ZArith Bool Lia.
Require Import Blots.Num Blots.gen.Builtins Blots.Ast Blots.Value Blots.Outcome Blots.Binop
               Blots.Env Blots.Eval Blots.BuiltinsHof Blots.Program Blots.EvalInst Blots.EvalFull
               Blots.proofs.ExprInd Blots.proofs.ValueInd Blots.proofs.Frames Blots.proofs.StoreMono
               Blots.proofs.Scoping Blots.proofs.InstMono
               Blots.proofs.C02Ren Blots.proofs.C02Sim Blots.proofs.C02Ops Blots.proofs.C02Keep Blots.proofs.C02Twice
               Blots.proofs.C02Let Blots.proofs.C02OpsFull Blots.proofs.C02Wf.
Import ListNotations.
Open Scope string_scope.
Open Scope list_scope.
Open Scope nat_scope.

(* eA = C[x], eB = C[s] for a sequential context C *)
Inductive sctx (x : string) (s : expr) : expr -> expr -> Prop :=
| S_hole : sctx x s (EId x) s
| S_binl : forall op a b e, sctx x s a b -> sctx x s (EBin op a e) (EBin op b e)
| S_binr : forall op t a b, no_assign t = true -> sctx x s a b -> sctx x s (EBin op t a) (EBin op t b)
| S_accl : forall a b e, sctx x s a b -> sctx x s (EAccess a e) (EAccess b e)
| S_accr : forall t a b, no_assign t = true -> sctx x s a b -> sctx x s (EAccess t a) (EAccess t b)
| S_dot : forall a b f, sctx x s a b -> sctx x s (EDot a f) (EDot b f)
| S_un : forall op a b, sctx x s a b -> sctx x s (EUn op a) (EUn op b)
| S_out : forall a b, sctx x s a b -> sctx x s (EOutput a) (EOutput b)
| S_cond : forall a b t f, sctx x s a b -> sctx x s (ECond a t f) (ECond b t f)
| S_then : forall t a b f, no_assign t = true -> sctx x s a b -> sctx x s (ECond t a f) (ECond t b f)
| S_else : forall t e a b, no_assign t = true -> sctx x s a b -> sctx x s (ECond t e a) (ECond t e b)
| S_callf : forall a b args, sctx x s a b -> sctx x s (ECall a args) (ECall b args)
| S_calla : forall t pre a b rest, no_assign t = true -> Forall (fun e => no_assign e = true) pre ->
    sctx x s a b -> sctx x s (ECall t (pre ++ a :: rest)) (ECall t (pre ++ b :: rest))
| S_list : forall pre l tr a b rest, Forall (fun c => no_assign (cnode c) = true) pre ->
    sctx x s a b -> sctx x s (EList (pre ++ Cm l a tr :: rest)) (EList (pre ++ Cm l b tr :: rest)).

(* every head context is a sequential context *)
Lemma atom_no_assign : forall t, atom t -> no_assign t = true.
Proof. intros t H. destruct t; try contradiction; reflexivity. Qed.
Lemma hctx_sctx : forall x s a b, hctx x s a b -> sctx x s a b.
Proof.
  intros x s a b H. induction H.
  - apply S_hole. - apply S_binl; assumption. - apply S_binr; [apply atom_no_assign|]; assumption.
  - apply S_accl; assumption. - apply S_dot; assumption. - apply S_un; assumption. - apply S_out; assumption.
  - apply S_cond; assumption.
  - apply (S_calla x s t [] a b rest); [apply atom_no_assign; assumption|constructor|assumption].
  - apply (S_list x s [] l tr a b rest); [constructor|assumption].
Qed.

(* a renaming that fixes every index below n fixes every value that mentions such indices only *)
Definition fixes_below (n : nat) (rho : nat -> nat) : Prop := forall id, id < n -> rho id = id.
Lemma ren_fix_below : forall n rho, fixes_below n rho -> forall v, ids_lt n v = true -> ren rho v = v.
Proof.
  intros n rho Hfix. induction v as [y|y| |y|l IH|r IH|id ar bd sc IH|bi|y IH] using value_ind';
    intros H; cbn [ren ids_lt] in *; try reflexivity.
  - f_equal. apply map_fix. rewrite forallb_forall in H. rewrite Forall_forall in *.
    intros y Hy. apply IH; [exact Hy|apply H; exact Hy].
  - f_equal. apply map_fix. rewrite forallb_forall in H. rewrite Forall_forall in *.
    intros [k y] Hy. f_equal. apply (IH (k, y) Hy). apply (H (k, y) Hy).
  - apply andb_true_iff in H. destruct H as [Hid H]. apply Nat.ltb_lt in Hid.
    rewrite (Hfix id Hid). f_equal. apply map_fix. rewrite forallb_forall in H. rewrite Forall_forall in *.
    intros [k y] Hy. f_equal. apply (IH (k, y) Hy). apply (H (k, y) Hy).
  - f_equal. apply IH. exact H.
Qed.
Lemma shift_fixes_below : forall n k, fixes_below n (shift n k).
Proof. intros n k id Hid. unfold shift. apply Nat.ltb_lt in Hid. rewrite Hid. reflexivity. Qed.

Section LetGen.
  Variable release : bool.
  Variable bi : callback -> binop -> value -> value -> store -> outcome value * store.
  Variable bu : callback -> builtin -> list value -> store -> outcome value * store.
  Hypothesis Hops : ops_commute bi bu.
  Hypothesis Hwfo : ops_wf bi bu.
  Hypothesis Hkeep : forall d c e r c', evalD release bi bu d c e = (r, c') -> store_keep (fst c) (fst c').
  Variable d : nat.
  Notation evD := (evalD release bi bu d).
  Notation evE := (evalE release bi (AD release bi bu d)).

  Variable x : string.
  Variable s : expr.
  Variable fr : frames.
  Variable v : value.
  Hypothesis Hv : cell_free v = true.

  (* what holds at every store from which a part of the context is entered *)
  Definition Inv (st : store) : Prop :=
    frames_lt (length st) fr = true /\
    evD (st, fr) (EId x) = (Ok v, (st, fr)) /\
    exists st1, evD (st, fr) s = (Ok v, (st1, fr)).

  Lemma eid_any_store : forall st st', evD (st, fr) (EId x) = (Ok v, (st, fr)) -> evD (st', fr) (EId x) = (Ok v, (st', fr)).
  Proof.
    intros st st'. unfold evalD. cbn [evalE snd].
    destruct (String.eqb x "infinity" || String.eqb x "inf"); [intros H; inversion H; reflexivity|].
    destruct (String.eqb x "constants"); intros H; inversion H; reflexivity.
  Qed.

  Lemma v_fix : forall n rho, fixes_below n rho -> ren rho v = v.
  Proof. intros n rho H. apply (ren_fix_below n rho H). eapply ids_lt_mono; [|exact Hv]. lia. Qed.

  (* evaluating an assignment-free sibling keeps the invariant (the renaming used at the occurrence is chosen later) *)
  Lemma Inv_step : forall st t o st' fr', Inv st -> no_assign t = true ->
    evD (st, fr) t = (o, (st', fr')) ->
    fr' = fr /\ Inv st' /\ length st <= length st' /\ (forall w, o = Ok w -> ids_lt (length st') w = true).
  Proof.
    intros st t o st' fr' (Hfr & Hx & st1 & Hs) Hna Et.
    pose proof (evalD_pure_frames release bi bu d t (st, fr) o (st', fr') Hna Et) as E. cbn [snd] in E. subst fr'.
    split; [reflexivity|].
    destruct Hwfo as [Hw1 Hw2].
    pose proof (evalD_wf release bi bu Hw1 Hw2 d t (st, fr) (proj1 (cfg_wf_iff (st, fr)) Hfr)) as (L & W & V).
    rewrite Et in L, W, V. cbn [fst snd] in L, W, V.
    destruct (Hkeep d _ _ _ _ Et) as [Hlen Hk]. cbn [fst] in Hlen, Hk.
    assert (Hfr' : frames_lt (length st') fr = true) by (apply (cfg_wf_iff (st', fr)); exact W).
    split; [|split; [exact L|exact V]].
    split; [exact Hfr'|split; [eapply eid_any_store; exact Hx|]].
    destruct (store_extension_invariance release bi bu Hops _ (shift_inj (length st) (length st' - length st))
                d s st st' fr (Ok v) st1 fr (sinv_shift st st' Hlen Hk) Hs) as (sB' & E & _).
    rewrite (renFr_shift_fix _ _ fr Hfr) in E. cbn [oren omap obind] in E.
    rewrite (v_fix _ _ (shift_fixes_below (length st) (length st' - length st))) in E.
    exists sB'. exact E.
  Qed.

  (* ---- the relation between C[x] and C[s], both started from (st, fr) ---- *)
  Definition srelG {A} (f : (nat -> nat) -> A -> A) (st : store) (rA rB : outcome A * cfg) : Prop :=
    (exists rho, (forall a b : nat, rho a = rho b -> a = b) /\ fixes_below (length st) rho /\
                 C02Sim.simG rho (f rho) rA rB)
    \/ rB = rA.
  Definition srel2 := srelG ren.
  Definition srelL := srelG (fun rho => map (ren rho)).

  Lemma Hbi' : forall rho, (forall a b : nat, rho a = rho b -> a = b) -> forall cbA cbB, cb_eqv rho cbA cbB ->
    forall op l r, Mfun rho (ren rho) (bi cbA op l r) (bi cbB op (ren rho l) (ren rho r)).
  Proof. intros rho Hinj. exact (proj1 (Hops rho Hinj)). Qed.
  Lemma Hbu' : forall rho, (forall a b : nat, rho a = rho b -> a = b) -> forall cbA cbB, cb_eqv rho cbA cbB ->
    forall b args, Mfun rho (ren rho) (bu cbA b args) (bu cbB b (map (ren rho) args)).
  Proof. intros rho Hinj. exact (proj2 (Hops rho Hinj)). Qed.
  Lemma Hap' : forall rho, (forall a b : nat, rho a = rho b -> a = b) ->
    forall fr0, cb_eqv rho (AD release bi bu d fr0) (AD release bi bu d (renFr rho fr0)).
  Proof. intros rho Hinj fr0. apply (AD_sim rho Hinj release bi bu (Hbi' rho Hinj) (Hbu' rho Hinj)). Qed.
  Lemma sub_sim' : forall rho, (forall a b : nat, rho a = rho b -> a = b) -> forall e sA sB fr0, sinv rho sA sB ->
    C02Sim.simG rho (ren rho) (evD (sA, fr0) e) (evD (sB, renFr rho fr0) e).
  Proof. intros rho Hinj e sA sB fr0 H. apply (evalD_sim rho Hinj release bi bu (Hbi' rho Hinj) (Hbu' rho Hinj)); exact H. Qed.
  Lemma subs_simR : forall rho, (forall a b : nat, rho a = rho b -> a = b) -> forall (l : list expr),
    Forall (simR rho evE evE) l.
  Proof. intros rho Hinj l. apply Forall_forall. intros e _ sA sB fr0 Hs. exact (sub_sim' rho Hinj e sA sB fr0 Hs). Qed.
  Lemma subs_simRC : forall rho, (forall a b : nat, rho a = rho b -> a = b) -> forall (l : list (commented expr)),
    Forall (fun cm => simR rho evE evE (cnode cm)) l.
  Proof. intros rho Hinj l. apply Forall_forall. intros e _ sA sB fr0 Hs. exact (sub_sim' rho Hinj (cnode e) sA sB fr0 Hs). Qed.

  Ltac step H :=
    match type of H with C02Sim.simG _ _ ?XA ?XB =>
      revert H; destruct XA as [?rA [?sA ?frA]]; destruct XB as [?rB [?sB ?frB]];
      intros (?E & ?E & ?Hs); cbn [fst snd] in *; subst end.
  Ltac stepM H :=
    match type of H with _ = omap _ (fst ?XA) /\ sinv _ (snd ?XA) (snd ?XB) =>
      revert H; destruct XA as [?rA ?sA]; destruct XB as [?rB ?sB];
      intros (?E & ?Hs); cbn [fst snd] in *; subst end.
  Ltac done := split; [reflexivity|split; [reflexivity|assumption]].
  Ltac same E := right; unfold evalD in *; cbn [evalE]; rewrite E; reflexivity.

  (* the occurrence inside a list of call arguments / list items, after assignment-free ones *)
  Lemma evalL_hole : forall a b rest,
    (forall st, Inv st -> srel2 st (evD (st, fr) a) (evD (st, fr) b)) ->
    forall pre, Forall (fun e => no_assign e = true) pre -> forall st, Inv st ->
      srelL st (evalL evE (st, fr) (pre ++ a :: rest)) (evalL evE (st, fr) (pre ++ b :: rest)).
  Proof.
    intros a b rest Hab pre HF. induction HF as [|t pre Ht _ IH]; intros st HI; cbn [app evalL].
    - destruct (Hab st HI) as [(rho & Hinj & Hfix & H)|E]; [|right; unfold evalD in E; rewrite E; reflexivity].
      left. exists rho. split; [exact Hinj|split; [exact Hfix|]]. unfold evalD in H. step H.
      destruct rA; cbn [omap obind cast_fail]; try done.
      pose proof (evalL_sim rho _ _ rest (subs_simR rho Hinj rest) sA sB frA Hs) as H2. step H2.
      destruct rA; cbn [omap obind map]; done.
    - destruct (evE (st, fr) t) as [o [st' fr']] eqn:Et.
      destruct (Inv_step st t o st' fr' HI Ht Et) as (-> & HI' & Hlen & Hw).
      destruct o as [w| | | |]; try (right; reflexivity).
      destruct (IH st' HI') as [(rho & Hinj & Hfix & H)|E]; [|right; rewrite E; reflexivity].
      left. exists rho. split; [exact Hinj|split; [intros id Hid; apply Hfix; lia|]]. step H.
      destruct rA; cbn [omap obind map]; try done.
      split; [cbn [fst omap obind map]; rewrite (ren_fix_below _ rho Hfix w (Hw w eq_refl)); reflexivity|].
      split; [reflexivity|assumption].
  Qed.
  Lemma evalCL_hole : forall l0 tr a b rest,
    (forall st, Inv st -> srel2 st (evD (st, fr) a) (evD (st, fr) b)) ->
    forall pre, Forall (fun c => no_assign (cnode c) = true) pre -> forall st, Inv st ->
      srelL st (evalCL evE (st, fr) (pre ++ Cm l0 a tr :: rest)) (evalCL evE (st, fr) (pre ++ Cm l0 b tr :: rest)).
  Proof.
    intros l0 tr a b rest Hab pre HF. induction HF as [|[lt t tt] pre Ht _ IH]; intros st HI; cbn [app evalCL].
    - destruct (Hab st HI) as [(rho & Hinj & Hfix & H)|E]; [|right; unfold evalD in E; rewrite E; reflexivity].
      left. exists rho. split; [exact Hinj|split; [exact Hfix|]]. unfold evalD in H. step H.
      destruct rA; cbn [omap obind cast_fail]; try done.
      pose proof (evalCL_sim rho _ _ rest (subs_simRC rho Hinj rest) sA sB frA Hs) as H2. step H2.
      destruct rA; cbn [omap obind map]; done.
    - cbn [cnode] in Ht. destruct (evE (st, fr) t) as [o [st' fr']] eqn:Et.
      destruct (Inv_step st t o st' fr' HI Ht Et) as (-> & HI' & Hlen & Hw).
      destruct o as [w| | | |]; try (right; reflexivity).
      destruct (IH st' HI') as [(rho & Hinj & Hfix & H)|E]; [|right; rewrite E; reflexivity].
      left. exists rho. split; [exact Hinj|split; [intros id Hid; apply Hfix; lia|]]. step H.
      destruct rA; cbn [omap obind map]; try done.
      split; [cbn [fst omap obind map]; rewrite (ren_fix_below _ rho Hfix w (Hw w eq_refl)); reflexivity|].
      split; [reflexivity|assumption].
  Qed.

  Theorem sctx_sim : forall eA eB, sctx x s eA eB ->
    forall st, Inv st -> srel2 st (evD (st, fr) eA) (evD (st, fr) eB).
  Proof.
    intros eA eB H. induction H; intros st HI.
    - (* the occurrence *)
      destruct HI as (Hfr & Hx & st1 & Hs). left.
      destruct (Hkeep d _ _ _ _ Hs) as [Hlen Hk]. cbn [fst] in Hlen, Hk.
      exists (shift (length st) (length st1 - length st)).
      split; [apply shift_inj|split; [apply shift_fixes_below|]].
      rewrite Hx, Hs. split; [cbn [fst omap obind]; rewrite (v_fix _ _ (shift_fixes_below _ _)); reflexivity|].
      split; [cbn [fst snd]; symmetry; apply renFr_shift_fix; exact Hfr|]. cbn [fst snd]. apply sinv_shift; assumption.
    - (* EBin, occurrence on the left *)
      destruct (IHsctx st HI) as [(rho & Hinj & Hfix & IH)|E]; [|same E]. left. exists rho. split; [exact Hinj|split; [exact Hfix|]].
      unfold evalD in *. cbn [evalE]. step IH. destruct rA; cbn [omap obind]; try done.
      pose proof (sub_sim' rho Hinj e sA sB frA Hs) as H2. unfold evalD in H2. step H2.
      destruct rA; cbn [omap obind]; try done.
      pose proof (Hbi' rho Hinj _ _ (Hap' rho Hinj frA0) op a0 a1 sA0 sB0 Hs0) as H3. stepM H3. done.
    - (* EBin, sibling first *)
      unfold evalD in *. cbn [evalE]. destruct (evE (st, fr) t) as [o [st' fr']] eqn:Et.
      destruct (Inv_step st t o st' fr' HI H Et) as (-> & HI' & Hlen & Hw).
      destruct o as [w| | | |]; try (right; reflexivity).
      destruct (IHsctx st' HI') as [(rho & Hinj & Hfix & IH)|E]; [|right; rewrite E; reflexivity].
      left. exists rho. split; [exact Hinj|split; [intros id Hid; apply Hfix; lia|]]. step IH.
      destruct rA; cbn [omap obind]; try done.
      pose proof (Hbi' rho Hinj _ _ (Hap' rho Hinj frA) op w a0 sA sB Hs) as H3.
      rewrite (ren_fix_below _ rho Hfix w (Hw w eq_refl)) in H3. stepM H3. done.
    - (* EAccess, occurrence on the left *)
      destruct (IHsctx st HI) as [(rho & Hinj & Hfix & IH)|E]; [|same E]. left. exists rho. split; [exact Hinj|split; [exact Hfix|]].
      unfold evalD in *. cbn [evalE]. step IH. destruct rA; cbn [omap obind]; try done.
      pose proof (sub_sim' rho Hinj e sA sB frA Hs) as H2. unfold evalD in H2. step H2.
      destruct rA; cbn [omap obind]; try done. rewrite (access_val_ren rho). done.
    - (* EAccess, sibling first *)
      unfold evalD in *. cbn [evalE]. destruct (evE (st, fr) t) as [o [st' fr']] eqn:Et.
      destruct (Inv_step st t o st' fr' HI H Et) as (-> & HI' & Hlen & Hw).
      destruct o as [w| | | |]; try (right; reflexivity).
      destruct (IHsctx st' HI') as [(rho & Hinj & Hfix & IH)|E]; [|right; rewrite E; reflexivity].
      left. exists rho. split; [exact Hinj|split; [intros id Hid; apply Hfix; lia|]]. step IH.
      destruct rA; cbn [omap obind]; try done.
      rewrite <- (ren_fix_below _ rho Hfix w (Hw w eq_refl)) at 2. rewrite (access_val_ren rho). done.
    - (* EDot *)
      destruct (IHsctx st HI) as [(rho & Hinj & Hfix & IH)|E]; [|same E]. left. exists rho. split; [exact Hinj|split; [exact Hfix|]].
      unfold evalD in *. cbn [evalE]. step IH. destruct rA; cbn [omap obind]; try done.
      rewrite (dot_val_ren rho). done.
    - (* EUn *)
      destruct (IHsctx st HI) as [(rho & Hinj & Hfix & IH)|E]; [|same E]. left. exists rho. split; [exact Hinj|split; [exact Hfix|]].
      unfold evalD in *. cbn [evalE]. step IH. destruct rA; cbn [omap obind]; try done.
      destruct op; rewrite ?as_number_ren, ?as_bool_ren;
        [destruct (as_number a0)|destruct (as_bool a0)|destruct (as_bool a0)]; done.
    - (* EOutput *)
      destruct (IHsctx st HI) as [IH|E]; [left; exact IH|right; exact E].
    - (* ECond, occurrence in the condition *)
      destruct (IHsctx st HI) as [(rho & Hinj & Hfix & IH)|E]; [|same E]. left. exists rho. split; [exact Hinj|split; [exact Hfix|]].
      unfold evalD in *. cbn [evalE]. step IH. destruct rA; cbn [omap obind]; try done.
      rewrite as_bool_ren. destruct (as_bool a0) as [[|]| | | |]; cbn [cast_fail]; try done.
      + exact (sub_sim' rho Hinj t sA sB frA Hs).
      + exact (sub_sim' rho Hinj f sA sB frA Hs).
    - (* ECond, occurrence in the then-branch: taken or not *)
      unfold evalD in *. cbn [evalE]. destruct (evE (st, fr) t) as [o [st' fr']] eqn:Et.
      destruct (Inv_step st t o st' fr' HI H Et) as (-> & HI' & Hlen & Hw).
      destruct o as [w| | | |]; try (right; reflexivity).
      destruct (as_bool w) as [[|]| | | |]; try (right; reflexivity).
      destruct (IHsctx st' HI') as [(rho & Hinj & Hfix & IH)|E]; [|right; exact E].
      left. exists rho. split; [exact Hinj|split; [intros id Hid; apply Hfix; lia|exact IH]].
    - (* ECond, occurrence in the else-branch *)
      unfold evalD in *. cbn [evalE]. destruct (evE (st, fr) t) as [o [st' fr']] eqn:Et.
      destruct (Inv_step st t o st' fr' HI H Et) as (-> & HI' & Hlen & Hw).
      destruct o as [w| | | |]; try (right; reflexivity).
      destruct (as_bool w) as [[|]| | | |]; try (right; reflexivity).
      destruct (IHsctx st' HI') as [(rho & Hinj & Hfix & IH)|E]; [|right; exact E].
      left. exists rho. split; [exact Hinj|split; [intros id Hid; apply Hfix; lia|exact IH]].
    - (* ECall, occurrence in the callee *)
      destruct (IHsctx st HI) as [(rho & Hinj & Hfix & IH)|E]; [|same E]. left. exists rho. split; [exact Hinj|split; [exact Hfix|]].
      unfold evalD in *. cbn [evalE]. step IH. destruct rA; cbn [omap obind]; try done.
      pose proof (evalL_sim rho _ _ args (subs_simR rho Hinj args) sA sB frA Hs) as H2. step H2.
      destruct rA; cbn [omap obind cast_fail]; try done.
      rewrite is_function_ren. destruct (negb (is_function a0)); [done|].
      pose proof (Hap' rho Hinj frA0 a0 a0 (flatten_spreads a1) sA0 sB0 Hs0) as H3.
      rewrite <- (flatten_spreads_ren rho) in H3. stepM H3. done.
    - (* ECall, occurrence in an argument *)
      unfold evalD in *. cbn [evalE]. destruct (evE (st, fr) t) as [o [st' fr']] eqn:Et.
      destruct (Inv_step st t o st' fr' HI H Et) as (-> & HI' & Hlen & Hw).
      destruct o as [w| | | |]; try (right; reflexivity).
      destruct (evalL_hole a b rest IHsctx pre H0 st' HI') as [(rho & Hinj & Hfix & IH)|E]; [|right; rewrite E; reflexivity].
      left. exists rho. split; [exact Hinj|split; [intros id Hid; apply Hfix; lia|]]. step IH.
      destruct rA; cbn [omap obind cast_fail]; try done.
      destruct (negb (is_function w)); [done|].
      pose proof (Hap' rho Hinj frA w w (flatten_spreads a0) sA sB Hs) as H3.
      rewrite (ren_fix_below _ rho Hfix w (Hw w eq_refl)) in H3.
      rewrite <- (flatten_spreads_ren rho) in H3. stepM H3. done.
    - (* EList *)
      unfold evalD in *. cbn [evalE].
      destruct (evalCL_hole l tr a b rest IHsctx pre H st HI) as [(rho & Hinj & Hfix & IH)|E]; [|right; rewrite E; reflexivity].
      left. exists rho. split; [exact Hinj|split; [exact Hfix|]]. step IH.
      destruct rA; cbn [omap obind fst snd]; try done.
      rewrite flatten_spreads_ren. done.
  Qed.

  (* LET-ABSTRACTION for sequential contexts and cell-free values *)
  Theorem let_abstraction_seq : forall st eA eB rA cA rB cB,
    Inv st -> sctx x s eA eB ->
    evD (st, fr) eA = (rA, cA) -> evD (st, fr) eB = (rB, cB) ->
    osame rA rB.
  Proof.
    intros st eA eB rA cA rB cB HI H HA HB.
    destruct (sctx_sim eA eB H st HI) as [(rho & _ & _ & E1 & _)|E].
    - rewrite HA, HB in E1. cbn [fst] in E1. subst rB. apply osame_oren.
    - rewrite HA, HB in E. inversion E; subst. destruct rA; cbn; try exact I. reflexivity.
  Qed.
End LetGen.

(* ---- the two evaluators ---- *)
Theorem let_abstraction_seq_inst : forall release d x s st st1 fr v eA eB rA cA rB cB,
  frames_lt (length st) fr = true ->
  evalD release binop_impl builtin_impl d (st, fr) (EId x) = (Ok v, (st, fr)) ->
  evalD release binop_impl builtin_impl d (st, fr) s = (Ok v, (st1, fr)) ->
  cell_free v = true ->
  sctx x s eA eB ->
  evalD release binop_impl builtin_impl d (st, fr) eA = (rA, cA) ->
  evalD release binop_impl builtin_impl d (st, fr) eB = (rB, cB) ->
  osame rA rB.
Proof.
  intros release d x s st st1 fr v eA eB rA cA rB cB Hwf Hx Hs Hv H HA HB.
  eapply (let_abstraction_seq release binop_impl builtin_impl ops_commute_inst ops_wf_inst
            (evalD_store_keep release) d x s fr v Hv st eA eB rA cA rB cB); try eassumption.
  split; [exact Hwf|split; [exact Hx|exists st1; exact Hs]].
Qed.
Theorem let_abstraction_seq_full : forall release d x s st st1 fr v eA eB rA cA rB cB,
  frames_lt (length st) fr = true ->
  evalD release binop_impl builtin_full d (st, fr) (EId x) = (Ok v, (st, fr)) ->
  evalD release binop_impl builtin_full d (st, fr) s = (Ok v, (st1, fr)) ->
  cell_free v = true ->
  sctx x s eA eB ->
  evalD release binop_impl builtin_full d (st, fr) eA = (rA, cA) ->
  evalD release binop_impl builtin_full d (st, fr) eB = (rB, cB) ->
  osame rA rB.
Proof.
  intros release d x s st st1 fr v eA eB rA cA rB cB Hwf Hx Hs Hv H HA HB.
  eapply (let_abstraction_seq release binop_impl builtin_full ops_commute_full ops_wf_full
            (evalD_store_keep_full release) d x s fr v Hv st eA eB rA cA rB cB); try eassumption.
  split; [exact Hwf|split; [exact Hx|exists st1; exact Hs]].
Qed.

(* if C[s] succeeds then C[x] succeeds (and conversely): in this setting both directions hold, because s is
   known to succeed from every store the context can reach; an error of s pre-empting an earlier error of C
   belongs to the two-statement formulation, see [let_program_stmt] *)
Corollary let_abstraction_seq_success : forall release d x s st st1 fr v eA eB,
  frames_lt (length st) fr = true ->
  evalD release binop_impl builtin_full d (st, fr) (EId x) = (Ok v, (st, fr)) ->
  evalD release binop_impl builtin_full d (st, fr) s = (Ok v, (st1, fr)) ->
  cell_free v = true ->
  sctx x s eA eB ->
  is_ok (fst (evalD release binop_impl builtin_full d (st, fr) eA)) =
  is_ok (fst (evalD release binop_impl builtin_full d (st, fr) eB)).
Proof.
  intros release d x s st st1 fr v eA eB Hwf Hx Hs Hv H.
  destruct (evalD release binop_impl builtin_full d (st, fr) eA) as [rA cA] eqn:HA.
  destruct (evalD release binop_impl builtin_full d (st, fr) eB) as [rB cB] eqn:HB.
  pose proof (let_abstraction_seq_full release d x s st st1 fr v eA eB rA cA rB cB Hwf Hx Hs Hv H HA HB) as Ho.
  cbn [fst]. destruct rA, rB; cbn in Ho; try contradiction; reflexivity.
Qed.

(* ---- kept, not proved ---- *)
(* WEAKENING: a binding of a name that nothing mentions does not influence evaluation.  "Nothing mentions x":
   x is not free in the expression, and no function value reachable from the scope chain has x free in its body
   ([val_mentions], hereditarily through captured scopes) — an invariant of the evaluation of expressions that
   do not mention x.  With it the hypotheses of [let_abstraction_seq] follow from the run of `x = s` itself,
   giving the two-statement law [let_program_stmt].  Without the freshness of x in the FUNCTIONS of the scope the
   law is false:  f = y => x + y; then  x = 1; f(1)  versus  f(1). *)
Fixpoint val_mentions (x : string) (v : value) : bool :=
  match v with
  | VLam _ _ body sc => mem x (free_vars body []) || existsb (fun kv => match kv with (_, w) => val_mentions x w end) sc
  | VList l => existsb (val_mentions x) l
  | VRec r => existsb (fun kv => match kv with (_, w) => val_mentions x w end) r
  | VSpread w => val_mentions x w
  | _ => false
  end.
Definition frames_mention (x : string) (fr : frames) : bool :=
  existsb (fun kf => existsb (fun kv => val_mentions x (snd kv)) (snd kf)) fr.
Definition weakening_stmt : Prop :=
  forall release d x w e st k f fr r st' fr',
    mem x (free_vars e []) = false -> no_assign e = true -> frames_mention x ((k, f) :: fr) = false ->
    val_mentions x w = false ->
    evalD release binop_impl builtin_full d (st, (k, f) :: fr) e = (r, (st', fr')) ->
    evalD release binop_impl builtin_full d (st, (k, (x, w) :: f) :: fr) e = (r, (st', (k, (x, w) :: f) :: fr)).
Definition let_program_stmt : Prop :=
  forall release d x s C_x C_s st fr v c1 rA cA rB cB,
    frames_lt (length st) fr = true -> no_assign s = true -> no_assign C_s = true ->
    sctx x s C_x C_s ->
    (* x fresh *)
    mem x (free_vars C_s []) = false -> frames_mention x fr = false ->
    (* program A:  x = s; C[x]      program B:  C[s]      both succeed *)
    evalD release binop_impl builtin_full d (st, fr) (EAssign x s) = (Ok v, c1) ->
    cell_free v = true ->
    evalD release binop_impl builtin_full d c1 C_x = (Ok rA, cA) ->
    evalD release binop_impl builtin_full d (st, fr) C_s = (Ok rB, cB) ->
    same_up_to_cells rA rB.
