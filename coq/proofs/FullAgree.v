(* FullAgree.v — the evaluator with EVERY transcribed built-in (EvalFull.builtin_full) treats its
   callback parametrically on closed values: the hypothesis of CallSite.v's simulation.  So C04's
   call-site independence also covers functions that call sort_by / group_by / count_by with a
   callback, and every pure list, string, record and aggregate built-in. *)
From Coq Require Import String Ascii List ZArith Bool Lia Permutation.
Require Import Blots.Num Blots.gen.Builtins Blots.Ast Blots.Value Blots.Outcome Blots.Binop
               Blots.Env Blots.Eval Blots.BuiltinsHof Blots.Program Blots.EvalInst Blots.EvalFull
               Blots.BuiltinsList Blots.BuiltinsAgg Blots.BuiltinsText
               Blots.proofs.ValueInd Blots.proofs.StoreMono Blots.proofs.Closed Blots.proofs.ClosedOps
               Blots.proofs.SortLaws Blots.proofs.FullClosed Blots.proofs.CallSite.
Import ListNotations.
Open Scope list_scope.
Open Scope nat_scope.

Section ByAgree.
  Variable cb1 cb2 : callback.
  Variable s0 : store.
  Hypothesis Hag : cb_agree s0 cb1 cb2.
  Hypothesis Hcl : cb_closed s0 cb1.

  (* one callback step: same on both sides, closed result, store grows *)
  Ltac cbstep f args st :=
    let E := fresh "E" in let Hs := fresh "Hs" in let Hr := fresh "Hr" in
    rewrite <- (Hag f f args st) by assumption;
    destruct (cb1 f f args st) as [?o ?s1] eqn:E;
    destruct (Hcl f f args st _ _ ltac:(assumption) ltac:(assumption) ltac:(assumption) ltac:(assumption) E) as [Hs Hr].

  Definition grows {A} (st : store) (x : outcome A * store) : Prop := store_le st (snd x).

  Lemma sort_by_cmp_agree : forall func a b st,
    store_le s0 st -> closed_value st func -> closed_value st a -> closed_value st b ->
    sort_by_cmp store cb1 func a b st = sort_by_cmp store cb2 func a b st /\
    grows st (sort_by_cmp store cb1 func a b st).
  Proof.
    intros func a b st Hs0 Hf Ha Hb. unfold sort_by_cmp, grows.
    destruct (is_function func); [|split; [reflexivity|apply store_le_refl]].
    assert (Hla : closed_list st [a]) by (constructor; [exact Ha|constructor]).
    cbstep func [a] st.
    destruct o; try (split; [reflexivity|exact Hs]).
    assert (Hs01 : store_le s0 s1) by exact (store_le_trans _ _ _ Hs0 Hs).
    assert (Hf1 : closed_value s1 func) by exact (closed_mono _ _ _ Hs Hf).
    assert (Hlb : closed_list s1 [b]) by (constructor; [exact (closed_mono _ _ _ Hs Hb)|constructor]).
    cbstep func [b] s1.
    assert (store_le st s2) by exact (store_le_trans _ _ _ Hs Hs1).
    destruct o; (split; [reflexivity|assumption]).
  Qed.

  Lemma merge_by_agree : forall func left right st,
    store_le s0 st -> closed_value st func -> closed_list st left -> closed_list st right ->
    merge_by store cb1 func left right st = merge_by store cb2 func left right st /\
    grows st (merge_by store cb1 func left right st).
  Proof.
    intros func left. induction left as [|a left' IHl]; intros right st Hs0 Hf Hl Hr.
    - rewrite !merge_by_nil_l. split; [reflexivity|apply store_le_refl].
    - revert st Hs0 Hf Hl Hr. induction right as [|b right' IHr]; intros st Hs0 Hf Hl Hr.
      + rewrite !merge_by_nil_r. split; [reflexivity|apply store_le_refl].
      + rewrite !merge_by_cons.
        inversion Hl as [|? ? Ha Hl']; subst. inversion Hr as [|? ? Hb Hr']; subst.
        destruct (sort_by_cmp_agree func b a st Hs0 Hf Hb Ha) as [Heq Hg]. rewrite <- Heq.
        destruct (sort_by_cmp store cb1 func b a st) as [c st1]. unfold grows in Hg. cbn [snd] in Hg.
        assert (Hs01 : store_le s0 st1) by exact (store_le_trans _ _ _ Hs0 Hg).
        assert (Hf1 : closed_value st1 func) by exact (closed_mono _ _ _ Hg Hf).
        assert (Hl1 : closed_list st1 (a :: left')) by exact (closed_list_mono _ _ _ Hg Hl).
        assert (Hr1 : closed_list st1 (b :: right')) by exact (closed_list_mono _ _ _ Hg Hr).
        inversion Hl1 as [|? ? Ha1 Hl1']; subst. inversion Hr1 as [|? ? Hb1 Hr1']; subst.
        destruct c as [[]| | | |]; try (split; [reflexivity|exact Hg]).
        * destruct (IHl (b :: right') st1 Hs01 Hf1 Hl1' Hr1) as [Heq2 Hg2]. rewrite <- Heq2.
          destruct (merge_by store cb1 func left' (b :: right') st1) as [res st2]. unfold grows in *. cbn [snd] in *.
          split; [reflexivity|exact (store_le_trans _ _ _ Hg Hg2)].
        * destruct (IHr st1 Hs01 Hf1 Hl1 Hr1') as [Heq2 Hg2]. rewrite <- Heq2.
          destruct (merge_by store cb1 func (a :: left') right' st1) as [res st2]. unfold grows in *. cbn [snd] in *.
          split; [reflexivity|exact (store_le_trans _ _ _ Hg Hg2)].
        * destruct (IHl (b :: right') st1 Hs01 Hf1 Hl1' Hr1) as [Heq2 Hg2]. rewrite <- Heq2.
          destruct (merge_by store cb1 func left' (b :: right') st1) as [res st2]. unfold grows in *. cbn [snd] in *.
          split; [reflexivity|exact (store_le_trans _ _ _ Hg Hg2)].
  Qed.

  Lemma perm_closed : forall st l m, Permutation l m -> closed_list st l -> closed_list st m.
  Proof. intros st l m Hp Hc. unfold closed_list in *. eapply Permutation_Forall; eauto. Qed.
  Lemma firstn_closed : forall st n l, closed_list st l -> closed_list st (firstn n l).
  Proof. intros st n l Hc. eapply closed_incl; [exact Hc|]. intros x Hx. eapply in_firstn_in; eauto. Qed.
  Lemma skipn_closed : forall st n l, closed_list st l -> closed_list st (skipn n l).
  Proof. intros st n l Hc. eapply closed_incl; [exact Hc|]. intros x Hx. eapply in_skipn_in; eauto. Qed.

  Lemma merge_sort_by_fuel_agree : forall fuel func l st,
    store_le s0 st -> closed_value st func -> closed_list st l ->
    merge_sort_by_fuel store cb1 fuel func l st = merge_sort_by_fuel store cb2 fuel func l st /\
    grows st (merge_sort_by_fuel store cb1 fuel func l st).
  Proof.
    induction fuel as [|f IH]; intros func l st Hs0 Hf Hl; cbn [merge_sort_by_fuel].
    - split; [reflexivity|apply store_le_refl].
    - destruct (Datatypes.length l <? 2); [split; [reflexivity|apply store_le_refl]|].
      destruct (IH func (firstn (Datatypes.length l / 2) l) st Hs0 Hf (firstn_closed _ _ _ Hl)) as [Heq Hg].
      rewrite <- Heq.
      destruct (merge_sort_by_fuel store cb1 f func (firstn (Datatypes.length l / 2) l) st) as [sl st1] eqn:E1.
      unfold grows in Hg. cbn [snd] in Hg.
      destruct sl as [left'| | | |]; try (split; [reflexivity|exact Hg]).
      assert (Hs01 : store_le s0 st1) by exact (store_le_trans _ _ _ Hs0 Hg).
      assert (Hf1 : closed_value st1 func) by exact (closed_mono _ _ _ Hg Hf).
      assert (Hl1 : closed_list st1 l) by exact (closed_list_mono _ _ _ Hg Hl).
      assert (Hleft : closed_list st1 left').
      { eapply perm_closed; [eapply (merge_sort_by_fuel_perm store cb1); exact E1|]. apply firstn_closed; exact Hl1. }
      destruct (IH func (skipn (Datatypes.length l / 2) l) st1 Hs01 Hf1 (skipn_closed _ _ _ Hl1)) as [Heq2 Hg2].
      rewrite <- Heq2.
      destruct (merge_sort_by_fuel store cb1 f func (skipn (Datatypes.length l / 2) l) st1) as [sr st2] eqn:E2.
      unfold grows in Hg2. cbn [snd] in Hg2.
      assert (Hst2 : store_le st st2) by exact (store_le_trans _ _ _ Hg Hg2).
      destruct sr as [right'| | | |]; try (split; [reflexivity|exact Hst2]).
      assert (Hs02 : store_le s0 st2) by exact (store_le_trans _ _ _ Hs0 Hst2).
      assert (Hright : closed_list st2 right').
      { eapply perm_closed; [eapply (merge_sort_by_fuel_perm store cb1); exact E2|].
        apply skipn_closed. exact (closed_list_mono _ _ _ Hg2 Hl1). }
      destruct (merge_by_agree func left' right' st2 Hs02 (closed_mono _ _ _ Hg2 Hf1)
                  (closed_list_mono _ _ _ Hg2 Hleft) Hright) as [Heq3 Hg3].
      split; [exact Heq3|]. unfold grows in *. exact (store_le_trans _ _ _ Hst2 Hg3).
  Qed.

  Definition post' := @post.

  Lemma bi_sort_by_agree : forall args st,
    store_le s0 st -> closed_list st args ->
    bi_sort_by store cb1 args st = bi_sort_by store cb2 args st /\
    post (fun s v => closed_value s v) st (bi_sort_by store cb1 args st).
  Proof.
    intros args st Hs0 Hc. unfold bi_sort_by.
    destruct (BuiltinsList.arg args 1) as [func| | | |] eqn:E1;
      try (split; [reflexivity|split; [apply store_le_refl|intros ? Hq; discriminate Hq]]).
    destruct (BuiltinsList.arg args 0) as [a0| | | |] eqn:E0; cbn [obind];
      try (split; [reflexivity|split; [apply store_le_refl|intros ? Hq; discriminate Hq]]).
    pose proof (barg_closed _ _ _ _ Hc E1) as Hf. pose proof (barg_closed _ _ _ _ Hc E0) as Ha0.
    destruct a0; cbn [BuiltinsList.as_list];
      try (split; [reflexivity|split; [apply store_le_refl|intros ? Hq; discriminate Hq]]).
    apply closed_VList in Ha0. unfold sort_by_list.
    destruct (merge_sort_by_fuel_agree (Datatypes.length l) func l st Hs0 Hf Ha0) as [Heq Hg]. rewrite <- Heq.
    destruct (merge_sort_by_fuel store cb1 (Datatypes.length l) func l st) as [res st1] eqn:E.
    unfold grows in Hg. cbn [snd] in Hg.
    split; [reflexivity|split; [exact Hg|]]. cbn [fst snd]. intros v Hv.
    destruct res as [m| | | |]; try discriminate Hv. cbn in Hv. inversion Hv; subst.
    apply closed_VList. eapply perm_closed; [eapply (merge_sort_by_fuel_perm store cb1); exact E|].
    exact (closed_list_mono _ _ _ Hg Ha0).
  Qed.

  (* ---- group_by / count_by ---- *)
  Lemma keyed_items_agree : forall func l st,
    store_le s0 st -> closed_value st func -> closed_list st l ->
    keyed_items store cb1 func l st = keyed_items store cb2 func l st /\
    post (fun s keyed => Forall (fun kv : string * value => closed_value s (snd kv)) keyed) st
         (keyed_items store cb1 func l st).
  Proof.
    intros func l. induction l as [|item rest IH]; intros st Hs0 Hf Hl; cbn [keyed_items].
    - split; [reflexivity|split; [apply store_le_refl|intros a Ha; inversion Ha; constructor]].
    - inversion Hl as [|? ? Hi Hr]; subst.
      assert (Hla : closed_list st [item]) by (constructor; [exact Hi|constructor]).
      cbstep func [item] st.
      destruct o as [k| | | |]; try (split; [reflexivity|split; [exact Hs|intros ? Hq; discriminate Hq]]).
      destruct k; try (split; [reflexivity|split; [exact Hs|intros ? Hq; discriminate Hq]]).
      assert (Hs01 : store_le s0 s1) by exact (store_le_trans _ _ _ Hs0 Hs).
      destruct (IH s1 Hs01 (closed_mono _ _ _ Hs Hf) (closed_list_mono _ _ _ Hs Hr)) as [Heq [Hle Hq]].
      rewrite <- Heq.
      destruct (keyed_items store cb1 func rest s1) as [more st2]. cbn [fst snd] in *.
      split; [reflexivity|split; [exact (store_le_trans _ _ _ Hs Hle)|]].
      intros a Ha. destruct more as [m| | | |]; try discriminate Ha. cbn in Ha. inversion Ha; subst.
      constructor; [cbn [snd]; exact (closed_mono _ _ _ (store_le_trans _ _ _ Hs Hle) Hi)|].
      apply Hq; reflexivity.
  Qed.

  Lemma group_push_items : forall groups key item g x,
    In g (group_push groups key item) -> In x (snd g) ->
    x = item \/ exists g', In g' groups /\ In x (snd g').
  Proof.
    induction groups as [|[k items] rest IH]; intros key item g x Hg Hx; cbn [group_push] in Hg.
    - destruct Hg as [<-|[]]. cbn in Hx. destruct Hx as [<-|[]]. left; reflexivity.
    - destruct (String.eqb key k).
      + destruct Hg as [<-|Hg].
        * cbn [snd] in Hx. apply in_app_or in Hx. destruct Hx as [Hx|[<-|[]]]; [right|left; reflexivity].
          exists (k, items). split; [left; reflexivity|exact Hx].
        * right. exists g. split; [right; exact Hg|exact Hx].
      + destruct Hg as [<-|Hg].
        * right. exists (k, items). split; [left; reflexivity|exact Hx].
        * destruct (IH _ _ _ _ Hg Hx) as [He|[g' [Hg' Hx']]]; [left; exact He|].
          right. exists g'. split; [right; exact Hg'|exact Hx'].
  Qed.
  Lemma groups_fold_items : forall keyed groups g x,
    In g (fold_left (fun groups kv => group_push groups (fst kv) (snd kv)) keyed groups) -> In x (snd g) ->
    (exists kv : string * value, In kv keyed /\ x = snd kv) \/ exists g', In g' groups /\ In x (snd g').
  Proof.
    induction keyed as [|kv rest IH]; intros groups g x Hg Hx; cbn [fold_left] in Hg.
    - right. exists g. split; assumption.
    - destruct (IH _ _ _ Hg Hx) as [[kv' [Hin He]]|[g' [Hg' Hx']]].
      + left. exists kv'. split; [right; exact Hin|exact He].
      + destruct (group_push_items _ _ _ _ _ Hg' Hx') as [He|[g'' [Hg'' Hx'']]].
        * left. exists kv. split; [left; reflexivity|exact He].
        * right. exists g''. split; assumption.
  Qed.

  Lemma by_prologue_closed : forall st args func l, closed_list st args ->
    by_prologue args = Ok (func, l) -> closed_value st func /\ closed_list st l.
  Proof.
    intros st args func l Hc H. unfold by_prologue in H.
    destruct (BuiltinsList.arg args 1) as [f0| | | |] eqn:E1; try discriminate. cbn [obind] in H.
    destruct (BuiltinsList.arg args 0) as [a0| | | |] eqn:E0; try discriminate. cbn [obind] in H.
    destruct (BuiltinsList.as_list a0) as [l0| | | |] eqn:El; try discriminate. cbn [obind] in H.
    destruct (is_function f0); try discriminate. inversion H; subst.
    split; [eapply barg_closed; eauto|].
    pose proof (barg_closed _ _ _ _ Hc E0) as Ha0. destruct a0; try discriminate. inversion El; subst.
    apply closed_VList. exact Ha0.
  Qed.

  Lemma bi_group_by_agree : forall args st,
    store_le s0 st -> closed_list st args ->
    bi_group_by store cb1 args st = bi_group_by store cb2 args st /\
    post (fun s v => closed_value s v) st (bi_group_by store cb1 args st).
  Proof.
    intros args st Hs0 Hc. unfold bi_group_by.
    destruct (by_prologue args) as [[func l]| | | |] eqn:Ep;
      try (split; [reflexivity|split; [apply store_le_refl|intros ? Hq; discriminate Hq]]).
    destruct (by_prologue_closed _ _ _ _ Hc Ep) as [Hf Hl].
    destruct (keyed_items_agree func l st Hs0 Hf Hl) as [Heq [Hle Hq]]. rewrite <- Heq.
    destruct (keyed_items store cb1 func l st) as [keyed st1]. cbn [fst snd] in *.
    split; [reflexivity|split; [exact Hle|]]. intros v Hv.
    destruct keyed as [k| | | |]; try discriminate Hv. cbn in Hv. inversion Hv; subst.
    specialize (Hq k eq_refl). apply closed_VRec. unfold closed_frame. rewrite Forall_forall.
    intros kv Hkv. apply in_map_iff in Hkv. destruct Hkv as [g [<- Hg]]. cbn [snd].
    apply closed_VList. unfold closed_list. rewrite Forall_forall. intros x Hx.
    unfold groups_of in Hg. destruct (groups_fold_items _ _ _ _ Hg Hx) as [[kv [Hin ->]]|[g' [[] _]]].
    rewrite Forall_forall in Hq. apply Hq; exact Hin.
  Qed.

  Lemma bi_count_by_agree : forall args st,
    store_le s0 st -> closed_list st args ->
    bi_count_by store cb1 args st = bi_count_by store cb2 args st /\
    post (fun s v => closed_value s v) st (bi_count_by store cb1 args st).
  Proof.
    intros args st Hs0 Hc. unfold bi_count_by.
    destruct (by_prologue args) as [[func l]| | | |] eqn:Ep;
      try (split; [reflexivity|split; [apply store_le_refl|intros ? Hq; discriminate Hq]]).
    destruct (by_prologue_closed _ _ _ _ Hc Ep) as [Hf Hl].
    destruct (keyed_items_agree func l st Hs0 Hf Hl) as [Heq [Hle Hq]]. rewrite <- Heq.
    destruct (keyed_items store cb1 func l st) as [keyed st1]. cbn [fst snd] in *.
    split; [reflexivity|split; [exact Hle|]]. intros v Hv.
    destruct keyed as [k| | | |]; try discriminate Hv. cbn in Hv. inversion Hv; subst.
    apply closed_VRec. unfold closed_frame. rewrite Forall_forall.
    intros kv Hkv. apply in_map_iff in Hkv. destruct Hkv as [g [<- Hg]]. exact I.
  Qed.

  (* the dispatcher of EvalFull.v *)
  Theorem builtin_full_agree0 : forall b args st,
    store_le s0 st -> closed_list st args ->
    builtin_full cb1 b args st = builtin_full cb2 b args st /\
    post (fun s v => closed_value s v) st (builtin_full cb1 b args st).
  Proof.
    intros b args st Hs0 Hc.
    assert (Hpure : forall f, (forall v, f args = Ok v -> closed_value st v) ->
              pure_bi f args st = pure_bi f args st /\ post (fun s v => closed_value s v) st (pure_bi f args st)).
    { intros f Hf. split; [reflexivity|]. unfold pure_bi, post. cbn [fst snd].
      split; [apply store_le_refl|exact Hf]. }
    destruct b; cbn [builtin_full];
      try (exact (builtin_impl_agree cb1 cb2 s0 Hag Hcl _ args st Hs0 Hc));
      try (apply Hpure;
           first [ apply bi_range_closed | apply bi_min_closed | apply bi_max_closed | apply bi_avg_closed
                 | apply bi_sum_closed | apply bi_prod_closed | apply bi_median_closed
                 | apply bi_percentile_closed | apply bi_len_closed | apply bi_dot_closed
                 | apply bi_split_closed | apply bi_replace_closed | apply bi_includes_closed
                 | apply bi_keys_closed | apply bi_convert_closed | apply bi_round_closed | apply bi_random_closed
                 | apply bi_to_number_closed | apply bi_to_string_closed | apply bi_join_full_closed
                 | intros v;
                   first [ apply bi_head_closed | apply bi_tail_closed | apply bi_slice_closed
                         | apply bi_concat_closed | apply bi_unique_closed | apply bi_sort_closed
                         | apply bi_reverse_closed | apply bi_values_closed | apply bi_entries_closed
                         | apply bi_flatten_closed | apply bi_zip_closed | apply bi_chunk_closed ];
                   exact Hc ]);
      first [apply bi_sort_by_agree | apply bi_group_by_agree | apply bi_count_by_agree]; assumption.
  Qed.
End ByAgree.

Lemma builtin_full_agree : forall cb1 cb2 s0, cb_agree s0 cb1 cb2 -> cb_closed s0 cb1 ->
  forall b args st, store_le s0 st -> closed_list st args ->
    builtin_full cb1 b args st = builtin_full cb2 b args st /\
    (forall res st', builtin_full cb1 b args st = (res, st') -> store_le st st' /\ closed_res st' res).
Proof.
  intros cb1 cb2 s0 Hag Hcl b args st Hs0 Ha.
  destruct (builtin_full_agree0 cb1 cb2 s0 Hag Hcl b args st Hs0 Ha) as [Heq [Hle Hq]].
  split; [exact Heq|]. intros res st' H. rewrite H in Hle, Hq. cbn [fst snd] in *. split; [exact Hle|exact Hq].
Qed.

(* CALL-SITE INDEPENDENCE for the evaluator with every transcribed built-in *)
Theorem call_site_independent_full : forall release d fr1 fr2 this f args st,
  lookup fr1 "inputs" = lookup fr2 "inputs" ->
  (forall v, lookup fr1 "inputs" = Some v -> closed_value st v) ->
  closed_value st this -> closed_value st f -> closed_list st args ->
  AD release binop_impl builtin_full d fr1 this f args st =
  AD release binop_impl builtin_full d fr2 this f args st.
Proof.
  intros release d fr1 fr2 this f args st Hi Hic Hthis Hf Hargs.
  destruct (AD_indep release binop_impl builtin_full binop_impl_agree builtin_full_agree d) as [HA _].
  apply (HA fr1 fr2 st Hi Hic this f args st (store_le_refl st) Hthis Hf Hargs).
Qed.

Theorem call_result_closed_full : forall release d fr this f args st r st',
  (forall v, lookup fr "inputs" = Some v -> closed_value st v) ->
  closed_value st this -> closed_value st f -> closed_list st args ->
  AD release binop_impl builtin_full d fr this f args st = (r, st') ->
  store_le st st' /\ (forall v, r = Ok v -> closed_value st' v).
Proof.
  intros release d fr this f args st r st' Hic Hthis Hf Hargs H.
  destruct (AD_indep release binop_impl builtin_full binop_impl_agree builtin_full_agree d) as [_ HB].
  exact (HB fr st Hic this f args st r st' (store_le_refl st) Hthis Hf Hargs H).
Qed.
