(* C02Blind.v — no pure built-in observes the IDENTITY of a function cell.
   A third instance of proofs/RelPure.v, with the value relation [same_up_to_cells] (equal after erasing
   every cell index).  It is strictly stronger than commuting with injective renamings (C02OpsFull.v):
   [f0, f0] and [f0, f1] are the same up to cells but no single renaming relates them — so this says that
   the 32 pure arms of EvalFull.builtin_full (unique / includes / sort included) cannot tell "the same
   function twice" from "two functions with the same definition", which is what a pointer comparison
   inside a built-in would do. *)
From Coq Require Import String Ascii List ZArith Bool Lia.
Require Import Blots.Num Blots.gen.Builtins Blots.Ast Blots.Value Blots.Outcome Blots.Binop
               Blots.Env Blots.Eval Blots.BuiltinsHof Blots.Program Blots.EvalInst Blots.EvalFull
               Blots.proofs.ValueInd Blots.proofs.C02Ren Blots.proofs.C02Twice
               Blots.proofs.EmitHO Blots.proofs.RelPure.
Import ListNotations.
Open Scope list_scope.
Open Scope nat_scope.

Notation zr := (fun _ : nat => 0).

Lemma map_eq_Forall2 {A B} (f : A -> B) : forall l l', map f l = map f l' -> Forall2 (fun a b => f a = f b) l l'.
Proof.
  induction l as [|x l IH]; intros [|y l'] H; cbn in H; try discriminate; constructor.
  - congruence.
  - apply IH. congruence.
Qed.
Lemma Forall2_map_eq {A B} (f : A -> B) : forall l l', Forall2 (fun a b => f a = f b) l l' -> map f l = map f l'.
Proof. induction 1; cbn; congruence. Qed.

Lemma same_inv : forall v v', same_up_to_cells v v' ->
  match v with
  | VNum x => v' = VNum x
  | VBool b => v' = VBool b
  | VNull => v' = VNull
  | VStr s => v' = VStr s
  | VList l => exists l', v' = VList l' /\ Forall2 same_up_to_cells l l'
  | VRec r => exists r', v' = VRec r' /\ Forall2 (RRf same_up_to_cells) r r'
  | VLam _ _ _ _ => exists id' ps' b' sc', v' = VLam id' ps' b' sc'
  | VBuiltin b => v' = VBuiltin b
  | VSpread w => exists w', v' = VSpread w' /\ same_up_to_cells w w'
  end.
Proof.
  unfold same_up_to_cells, erase. intros v v' H.
  destruct v; destruct v'; cbn [ren] in H; try discriminate H; try (symmetry; exact H).
  - eexists. split; [reflexivity|]. injection H as H. apply map_eq_Forall2 in H. exact H.
  - eexists. split; [reflexivity|]. injection H as H. apply map_eq_Forall2 in H.
    clear - H. induction H as [|[k x] [k' x'] r r' E _ IH]; constructor; [|exact IH].
    cbn in E. injection E as E1 E2. split; assumption.
  - repeat eexists.
  - eexists. split; [reflexivity|]. injection H as H. exact H.
Qed.
Lemma same_list : forall l l', Forall2 same_up_to_cells l l' -> same_up_to_cells (VList l) (VList l').
Proof. intros l l' H. unfold same_up_to_cells, erase in *. cbn [ren]. f_equal. apply Forall2_map_eq. exact H. Qed.
Lemma same_rec : forall r r', Forall2 (RRf same_up_to_cells) r r' -> same_up_to_cells (VRec r) (VRec r').
Proof.
  intros r r' H. unfold same_up_to_cells, erase in *. cbn [ren]. f_equal.
  induction H as [|[k x] [k' x'] r r' [E V] _ IH]; cbn; [reflexivity|]. cbn in E, V. unfold same_up_to_cells, erase in V.
  congruence.
Qed.
Lemma same_compare : forall a a' b b', same_up_to_cells a a' -> same_up_to_cells b b' -> compare a b = compare a' b'.
Proof.
  unfold same_up_to_cells, erase. intros a a' b b' Ha Hb.
  rewrite <- (compare_ren zr a b), <- (compare_ren zr a' b'), Ha, Hb. reflexivity.
Qed.
Lemma same_equals : forall a a' b b', same_up_to_cells a a' -> same_up_to_cells b b' -> equals a b = equals a' b'.
Proof.
  unfold same_up_to_cells, erase. intros a a' b b' Ha Hb.
  rewrite <- (equals_ren zr a b), <- (equals_ren zr a' b'), Ha, Hb. reflexivity.
Qed.

Lemma osame_orel : forall r r', orel_gen same_up_to_cells r r' -> osame r r'.
Proof. intros [v| | | |] [v'| | | |] H; exact H. Qed.

(* every pure arm of builtin_full: arguments equal up to cell indices give outcomes equal up to cell indices *)
Theorem pure_builtins_blind_to_cells : forall b f, pure_arm_of b = Some f ->
  forall args args', Forall2 same_up_to_cells args args' -> osame (f args) (f args').
Proof.
  intros b f E args args' H. apply osame_orel.
  exact (pure_arms_R_eq same_up_to_cells same_inv (fun x => eq_refl) (fun x => eq_refl) eq_refl (fun x => eq_refl)
           same_list same_compare same_equals b f E args args' H).
Qed.

(* as the dispatcher sees it: the store is not touched and the outcome is blind to cell identity *)
Corollary builtin_full_pure_blind : forall cb cb' b f, pure_arm_of b = Some f ->
  forall args args' st st', Forall2 same_up_to_cells args args' ->
    osame (fst (builtin_full cb b args st)) (fst (builtin_full cb' b args' st')) /\
    snd (builtin_full cb b args st) = st /\ snd (builtin_full cb' b args' st') = st'.
Proof.
  intros cb cb' b f E args args' st st' H. rewrite !(builtin_full_pure _ b f E). unfold pure_bi. cbn [fst snd].
  split; [exact (pure_builtins_blind_to_cells b f E args args' H)|split; reflexivity].
Qed.

(* the pair that no renaming relates *)
Example blind_example :
  let f0 := VLam 0 [AReq "x"%string] (EId "x"%string) [] in
  let f1 := VLam 1 [AReq "x"%string] (EId "x"%string) [] in
  Forall2 same_up_to_cells [VList [f0; f0]] [VList [f0; f1]] /\
  BuiltinsList.bi_unique [VList [f0; f0]] = Ok (VList [f0]) /\
  BuiltinsList.bi_unique [VList [f0; f1]] = Ok (VList [f0]).
Proof. cbn. split; [repeat constructor|split; reflexivity]. Qed.
