(* DisplayNumDischarge2.v — C20: the executable library models satisfy the real-valued
   specifications that C20_accuracy assumes of Rust's core::fmt / dec2flt:
     fmt_prec_exec_accurate    {:.N$}   prints the nearest multiple of 10^-N         (every N >= 0)
     fmt_exp14_exec_correct    {:.14e}  is x correctly rounded to 15 significant digits, in the
                                        documented shape  -?d.d{14}e-?d+             (valid doubles)
     parse_f64_exec_close      parse::<f64> of a 15-digit mantissa is the nearest double, hence
                                        within 2e-15
   Flocq real-number layer (the four allow-listed axioms). *)
From Coq Require Import ZArith Reals Bool String Ascii List Lia Lra QArith Qreals Qabs Qpower Floats.SpecFloat.
From Flocq Require Import Core.Core Calc.Bracket Calc.Div IEEE754.BinarySingleNaN IEEE754.PrimFloat.
Require Import Blots.Num Blots.Outcome Blots.DisplayNum.
Require Import Blots.proofs.DisplayNumGroup Blots.proofs.DisplayNumSpec Blots.proofs.DisplayNumText
               Blots.proofs.DisplayNumInt Blots.proofs.DisplayNum Blots.proofs.DisplayNumAcc
               Blots.proofs.DisplayNumFloat Blots.proofs.DisplayNumFinite Blots.proofs.DisplayNumAccStd
               Blots.proofs.DisplayNumAccAll Blots.proofs.DisplayNumDischarge1.
Import ListNotations.
Open Scope R_scope.

Local Existing Instance vexp.

(* ---------- small real-number facts ---------- *)
Lemma IZR_pow10 : forall n, (0 <= n)%Z -> IZR (10 ^ n) = p10 n.
Proof. intros n H. exact (IZR_Zpower radix10 n H). Qed.

Lemma IZR_pow2 : forall n, (0 <= n)%Z -> IZR (2 ^ n) = bpow radix2 n.
Proof. intros n H. exact (IZR_Zpower radix2 n H). Qed.

Lemma Rabs_cond_Ropp : forall s v, Rabs (cond_Ropp s v) = Rabs v.
Proof. intros [|] v; cbn [cond_Ropp]; [apply Rabs_Ropp|reflexivity]. Qed.

Lemma cond_Ropp_minus : forall s a b, cond_Ropp s a - cond_Ropp s b = cond_Ropp s (a - b).
Proof. intros [|] a b; cbn [cond_Ropp]; ring. Qed.

Lemma cond_Ropp_mult : forall s a b, cond_Ropp s a * b = cond_Ropp s (a * b).
Proof. intros [|] a b; cbn [cond_Ropp]; ring. Qed.

Lemma IZR_cond_Zopp : forall s z, IZR (cond_Zopp s z) = cond_Ropp s (IZR z).
Proof. intros [|] z; cbn [cond_Zopp cond_Ropp]; [apply opp_IZR|reflexivity]. Qed.

(* a/b <= c/d from the cross-multiplied inequality *)
Lemma frac_le : forall a b c d, 0 < b -> 0 < d -> a * d <= c * b -> a / b <= c / d.
Proof.
  intros a b c d Hb Hd H.
  replace (a / b) with (a * d * / (b * d)) by (field; lra).
  replace (c / d) with (c * b * / (b * d)) by (field; lra).
  apply Rmult_le_compat_r; [|exact H].
  left. apply Rinv_0_lt_compat. now apply Rmult_lt_0_compat.
Qed.

Lemma frac_lt : forall a b c d, 0 < b -> 0 < d -> a * d < c * b -> a / b < c / d.
Proof.
  intros a b c d Hb Hd H.
  replace (a / b) with (a * d * / (b * d)) by (field; lra).
  replace (c / d) with (c * b * / (b * d)) by (field; lra).
  apply Rmult_lt_compat_r; [|exact H].
  apply Rinv_0_lt_compat. now apply Rmult_lt_0_compat.
Qed.

(* an integer q with |2(q*d - n)| <= d is within 1/2 of n/d *)
Lemma int_close : forall q n d : Z, (0 < d)%Z -> (Z.abs (2 * (q * d - n)) <= d)%Z ->
  Rabs (IZR q - IZR n / IZR d) <= / 2.
Proof.
  intros q n d Hd H.
  assert (D : 0 < IZR d) by now apply (IZR_lt 0).
  apply IZR_le in H. rewrite abs_IZR, mult_IZR, minus_IZR, mult_IZR in H.
  rewrite Rabs_mult, (Rabs_pos_eq 2) in H by lra.
  replace (IZR q - IZR n / IZR d) with ((IZR q * IZR d - IZR n) * / IZR d) by (field; lra).
  rewrite Rabs_mult, (Rabs_pos_eq (/ IZR d)) by (left; now apply Rinv_0_lt_compat).
  apply Rmult_le_reg_r with (IZR d); [exact D|].
  rewrite Rmult_assoc, Rinv_l, Rmult_1_r by lra. lra.
Qed.

(* ---------- the real value of a finite double through mag_frac ---------- *)
Lemma RV_finite : forall s m e,
  RV (S754_finite s m e) = cond_Ropp s (IZR (Zpos m) * bpow radix2 e).
Proof.
  intros s m e. unfold RV. cbn [SF2R]. rewrite F2R_cond_Zopp. unfold F2R. cbn [Fnum Fexp]. reflexivity.
Qed.

Lemma mag_frac_R : forall m e N D, mag_frac m e = (N, D) ->
  (0 < N)%Z /\ (0 < D)%Z /\ IZR (Zpos m) * bpow radix2 e = IZR N / IZR D.
Proof.
  intros m e N D H. destruct (mag_frac_pos _ _ _ _ H) as [HN HD]. split; [exact HN|]. split; [exact HD|].
  destruct (mag_frac_cases _ _ _ _ H) as [(E & -> & ->)|(E & -> & ->)].
  - rewrite mult_IZR, IZR_pow2 by exact E. field.
  - rewrite IZR_pow2 by lia. rewrite bpow_opp. field. apply Rgt_not_eq, bpow_gt_0.
Qed.

Lemma RV_mag_frac : forall s m e N D, mag_frac m e = (N, D) ->
  RV (S754_finite s m e) = cond_Ropp s (IZR N / IZR D) /\ Rabs (RV (S754_finite s m e)) = IZR N / IZR D.
Proof.
  intros s m e N D H. destruct (mag_frac_R _ _ _ _ H) as (HN & HD & E).
  rewrite RV_finite, E. split; [reflexivity|]. rewrite Rabs_cond_Ropp. apply Rabs_pos_eq.
  apply Rmult_le_pos; [apply IZR_le; lia|]. left. apply Rinv_0_lt_compat. now apply (IZR_lt 0).
Qed.

(* ---------- Q2R of the texts' values ---------- *)
Lemma Q2R_Qmake_pow10 : forall a n, (0 <= n)%Z ->
  Q2R (Qmake a (Z.to_pos (10 ^ n))) = IZR a / p10 n.
Proof.
  intros a n Hn. unfold Q2R. cbn [Qnum Qden].
  rewrite Z2Pos.id by (apply Z.pow_pos_nonneg; lia). now rewrite IZR_pow10.
Qed.

(* ====================================================================================
   {:.N$} : the executable model prints the nearest multiple of 10^-N
   ==================================================================================== *)
Theorem fmt_prec_exec_accurate : forall m dp, Num.is_finite m = true -> (0 <= dp)%Z ->
  Rabs (Q2R (denote_plain (fmt_prec_exec m dp)) - RV m) <= / 2 * p10 (- dp).
Proof.
  intros x n F Hn. rewrite fmt_prec_exec_value by assumption.
  rewrite Q2R_Qmake_pow10 by exact Hn. rewrite IZR_cond_Zopp.
  assert (T : 0 < p10 n) by apply p10_pos.
  destruct x as [s|s| |s m e]; try discriminate F.
  - cbn [prec_q nsign]. unfold RV. cbn [SF2R].
    replace (cond_Ropp s 0 / p10 n - 0) with 0 by (destruct s; cbn [cond_Ropp]; field; lra).
    rewrite Rabs_R0. pose proof (p10_pos (- n)). lra.
  - cbn [prec_q nsign]. destruct (mag_frac m e) as [N D] eqn:E.
    destruct (RV_mag_frac s m e N D E) as [RVx _]. destruct (mag_frac_R _ _ _ _ E) as (HN & HD & _).
    rewrite RVx.
    assert (P : (0 < 10 ^ n)%Z) by (apply Z.pow_pos_nonneg; lia).
    destruct (div_rhe_spec (N * 10 ^ n) D ltac:(nia) HD) as [Q0 Q1].
    set (q := div_rhe (N * 10 ^ n) D) in *.
    pose proof (int_close q (N * 10 ^ n) D HD Q1) as C.
    rewrite mult_IZR, IZR_pow10 in C by exact Hn.
    replace (cond_Ropp s (IZR q) / p10 n) with (cond_Ropp s (IZR q / p10 n))
      by (destruct s; cbn [cond_Ropp]; field; lra).
    rewrite cond_Ropp_minus, Rabs_cond_Ropp.
    assert (DD : 0 < IZR D) by now apply (IZR_lt 0).
    replace (IZR q / p10 n - IZR N / IZR D) with ((IZR q - IZR N * p10 n / IZR D) * / p10 n) by (field; lra).
    rewrite Rabs_mult, (Rabs_pos_eq (/ p10 n)) by (left; now apply Rinv_0_lt_compat).
    rewrite bpow_opp. apply Rmult_le_compat_r; [left; now apply Rinv_0_lt_compat|exact C].
Qed.

(* ====================================================================================
   the decade of a positive fraction: e10_frac
   ==================================================================================== *)
Lemma ge_pow10_iff : forall N D k, (0 < N)%Z -> (0 < D)%Z ->
  (ge_pow10 N D k = true <-> p10 k <= IZR N / IZR D).
Proof.
  intros N D k HN HD. unfold ge_pow10.
  assert (DD : 0 < IZR D) by now apply (IZR_lt 0).
  destruct (0 <=? k)%Z eqn:E.
  - apply Z.leb_le in E. rewrite Z.leb_le. split; intros H.
    + apply IZR_le in H. rewrite mult_IZR, IZR_pow10 in H by exact E.
      apply Rmult_le_reg_r with (IZR D); [exact DD|].
      unfold Rdiv. rewrite Rmult_assoc, Rinv_l, Rmult_1_r by lra. lra.
    + apply le_IZR. rewrite mult_IZR, IZR_pow10 by exact E.
      apply Rmult_le_compat_r with (r := IZR D) in H; [|lra].
      unfold Rdiv in H. rewrite Rmult_assoc, Rinv_l, Rmult_1_r in H by lra. lra.
  - apply Z.leb_gt in E. rewrite Z.leb_le.
    assert (P : 0 < p10 (- k)) by apply p10_pos.
    assert (EP : p10 k = / p10 (- k)).
    { replace k with (- - k)%Z at 1 by lia. apply bpow_opp. }
    split; intros H.
    + apply IZR_le in H. rewrite mult_IZR, IZR_pow10 in H by lia. rewrite EP.
      replace (/ p10 (- k)) with (1 / p10 (- k)) by (unfold Rdiv; ring).
      apply frac_le; lra.
    + apply le_IZR. rewrite mult_IZR, IZR_pow10 by lia. rewrite EP in H.
      apply Rmult_le_compat_r with (r := IZR D * p10 (- k)) in H; [|nra].
      replace (/ p10 (- k) * (IZR D * p10 (- k))) with (IZR D) in H by (field; lra).
      replace (IZR N / IZR D * (IZR D * p10 (- k))) with (IZR N * p10 (- k)) in H by (field; lra).
      exact H.
Qed.

Lemma ge_pow10_false : forall N D k, (0 < N)%Z -> (0 < D)%Z ->
  ge_pow10 N D k = false -> IZR N / IZR D < p10 k.
Proof.
  intros N D k HN HD H. apply Rnot_le_lt. intros C.
  apply (ge_pow10_iff N D k HN HD) in C. congruence.
Qed.

Lemma fix_k_spec : forall fuel N D k, (0 < N)%Z -> (0 < D)%Z ->
  p10 (k - Z.of_nat fuel) <= IZR N / IZR D < p10 (k + Z.of_nat fuel + 1) ->
  p10 (fix_k fuel N D k) <= IZR N / IZR D < p10 (fix_k fuel N D k + 1) /\
  (k - Z.of_nat fuel <= fix_k fuel N D k <= k + Z.of_nat fuel)%Z.
Proof.
  induction fuel as [|f IH]; intros N D k HN HD [L U].
  - cbn [fix_k]. change (Z.of_nat 0) with 0%Z in *.
    replace (k - 0)%Z with k in L by lia. replace (k + 0 + 1)%Z with (k + 1)%Z in U by lia.
    split; [split; assumption|lia].
  - cbn [fix_k]. rewrite Nat2Z.inj_succ in L, U.
    destruct (ge_pow10 N D k) eqn:G; cbn [negb].
    + destruct (ge_pow10 N D (k + 1)) eqn:G1.
      * apply (ge_pow10_iff N D (k + 1) HN HD) in G1.
        destruct (IH N D (k + 1)%Z HN HD) as [A B].
        { split.
          - eapply Rle_trans; [|exact G1]. apply bpow_le. lia.
          - replace (k + 1 + Z.of_nat f + 1)%Z with (k + Z.succ (Z.of_nat f) + 1)%Z by lia. exact U. }
        split; [exact A|lia].
      * apply (ge_pow10_iff N D k HN HD) in G. apply (ge_pow10_false N D (k + 1) HN HD) in G1.
        split; [split; assumption|lia].
    + apply (ge_pow10_false N D k HN HD) in G.
      destruct (IH N D (k - 1)%Z HN HD) as [A B].
      { split.
        - replace (k - 1 - Z.of_nat f)%Z with (k - Z.succ (Z.of_nat f))%Z by lia. exact L.
        - eapply Rlt_le_trans; [exact G|]. apply bpow_le. lia. }
      split; [exact A|lia].
Qed.

(* N/D between two powers of two, from the bit lengths *)
Lemma ratio_pow2_bounds : forall N D, (0 < N)%Z -> (0 < D)%Z ->
  let L := (Z.log2 N - Z.log2 D)%Z in
  bpow radix2 (L - 1) <= IZR N / IZR D < bpow radix2 (L + 1).
Proof.
  intros N D HN HD L.
  destruct (Z.log2_spec N HN) as [N1 N2]. destruct (Z.log2_spec D HD) as [D1 D2].
  pose proof (Z.log2_nonneg N) as An. pose proof (Z.log2_nonneg D) as Ad.
  apply IZR_le in N1. apply IZR_lt in N2. apply IZR_le in D1. apply IZR_lt in D2.
  rewrite IZR_pow2 in N1, N2, D1, D2 by lia.
  assert (DD : 0 < IZR D) by now apply (IZR_lt 0).
  assert (NN : 0 < IZR N) by now apply (IZR_lt 0).
  set (a := Z.log2 N) in *. set (b := Z.log2 D) in *.
  assert (Pb : 0 < bpow radix2 (Z.succ b)) by apply bpow_gt_0.
  assert (Pb0 : 0 < bpow radix2 b) by apply bpow_gt_0.
  split.
  - replace (bpow radix2 (L - 1)) with (bpow radix2 a / bpow radix2 (Z.succ b)).
    + apply frac_le; try assumption.
      apply Rle_trans with (IZR N * IZR D); [|apply Rmult_le_compat_l; lra].
      apply Rmult_le_compat_r; lra.
    + unfold Rdiv. rewrite <- bpow_opp, <- bpow_plus. f_equal. unfold L. lia.
  - replace (bpow radix2 (L + 1)) with (bpow radix2 (Z.succ a) / bpow radix2 b).
    + apply frac_lt; try assumption.
      apply Rle_lt_trans with (IZR N * IZR D); [apply Rmult_le_compat_l; lra|].
      apply Rmult_lt_compat_r; lra.
    + unfold Rdiv. rewrite <- bpow_opp, <- bpow_plus. f_equal. unfold L. lia.
Qed.

(* 10^j <= 2^i and 2^i <= 10^j, decided on integers *)
Definition le10_2 (j i : Z) : bool :=
  (10 ^ Z.max j 0 * 2 ^ Z.max (- i) 0 <=? 2 ^ Z.max i 0 * 10 ^ Z.max (- j) 0)%Z.
Definition le2_10 (i j : Z) : bool :=
  (2 ^ Z.max i 0 * 10 ^ Z.max (- j) 0 <=? 10 ^ Z.max j 0 * 2 ^ Z.max (- i) 0)%Z.

Lemma bpow_split : forall (r : radix) k, bpow r k = bpow r (Z.max k 0) / bpow r (Z.max (- k) 0).
Proof.
  intros r k. unfold Rdiv. rewrite <- bpow_opp, <- bpow_plus. f_equal. lia.
Qed.

Lemma le10_2_correct : forall j i, le10_2 j i = true -> p10 j <= bpow radix2 i.
Proof.
  intros j i H. unfold le10_2 in H. apply Z.leb_le in H. apply IZR_le in H.
  rewrite !mult_IZR, !IZR_pow10, !IZR_pow2 in H by lia.
  rewrite (bpow_split radix10 j), (bpow_split radix2 i).
  apply frac_le; try apply bpow_gt_0. lra.
Qed.

Lemma le2_10_correct : forall i j, le2_10 i j = true -> bpow radix2 i <= p10 j.
Proof.
  intros i j H. unfold le2_10 in H. apply Z.leb_le in H. apply IZR_le in H.
  rewrite !mult_IZR, !IZR_pow10, !IZR_pow2 in H by lia.
  rewrite (bpow_split radix10 j), (bpow_split radix2 i).
  apply frac_le; try apply bpow_gt_0. lra.
Qed.

(* the starting estimate of e10_frac is within 8 decades, for every bit-length difference that
   occurs in binary64 (checked exhaustively over the range) *)
Definition est_k0 (L : Z) : Z := ((L * 1233) / 4096)%Z.
Definition est_ok (L : Z) : bool :=
  le10_2 (est_k0 L - 8) (L - 1) && le2_10 (L + 1) (est_k0 L + 8 + 1) &&
  (-330 <=? est_k0 L)%Z && (est_k0 L <=? 310)%Z.

Fixpoint forall_range (n : nat) (lo : Z) (P : Z -> bool) : bool :=
  match n with O => true | S n' => P lo && forall_range n' (lo + 1)%Z P end.

Lemma forall_range_spec : forall n lo P, forall_range n lo P = true ->
  forall z, (lo <= z < lo + Z.of_nat n)%Z -> P z = true.
Proof.
  induction n as [|n IH]; intros lo P H z Hz; [lia|].
  cbn [forall_range] in H. apply andb_true_iff in H. destruct H as [H0 H1].
  destruct (Z.eq_dec z lo) as [->|Ne]; [exact H0|].
  apply (IH (lo + 1)%Z P H1). lia.
Qed.

Lemma est_all : forall_range (Z.to_nat 2110) (-1080) est_ok = true.
Proof. vm_compute. reflexivity. Qed.

Lemma est_ok_range : forall L, (-1080 <= L <= 1029)%Z -> est_ok L = true.
Proof.
  intros L HL. apply (forall_range_spec _ _ _ est_all).
  rewrite Z2Nat.id by lia. lia.
Qed.

(* sizes of a valid double *)
Lemma valid_finite_bounds : forall s m e, valid (S754_finite s m e) ->
  (Zpos m < 2 ^ 53)%Z /\ (-1074 <= e <= 971)%Z.
Proof.
  intros s m e V. unfold valid in V. cbn [valid_binary] in V.
  split; [exact (valid_mantissa_bound m e V)|].
  unfold bounded in V. apply andb_true_iff in V. destruct V as [C B].
  apply Zle_bool_imp_le in B. unfold canonical_mantissa in C. apply Zeq_bool_eq in C.
  unfold SpecFloat.fexp, SpecFloat.emin in C. lia.
Qed.

Lemma mag_frac_log2_range : forall s m e N D, valid (S754_finite s m e) -> mag_frac m e = (N, D) ->
  (-1080 <= Z.log2 N - Z.log2 D <= 1029)%Z.
Proof.
  intros s m e N D V H. destruct (valid_finite_bounds s m e V) as [Hm He].
  destruct (mag_frac_pos _ _ _ _ H) as [HN HD].
  pose proof (Z.log2_nonneg N) as An. pose proof (Z.log2_nonneg D) as Ad.
  destruct (mag_frac_cases _ _ _ _ H) as [(E & EN & ED)|(E & EN & ED)].
  - subst D. change (Z.log2 1) with 0%Z.
    assert (N < 2 ^ 1024)%Z.
    { subst N. replace 1024%Z with (53 + 971)%Z by lia. rewrite Z.pow_add_r by lia.
      assert (2 ^ e <= 2 ^ 971)%Z by (apply Z.pow_le_mono_r; lia).
      assert (0 < 2 ^ e)%Z by (apply Z.pow_pos_nonneg; lia). nia. }
    assert (Z.log2 N < 1024)%Z by (apply Z.log2_lt_pow2; lia). lia.
  - subst N. subst D. rewrite Z.log2_pow2 by lia.
    assert (Z.log2 (Z.pos m) < 53)%Z by (apply Z.log2_lt_pow2; lia). lia.
Qed.

Theorem e10_frac_spec : forall s m e N D, valid (S754_finite s m e) -> mag_frac m e = (N, D) ->
  p10 (e10_frac N D) <= IZR N / IZR D < p10 (e10_frac N D + 1) /\ (-340 <= e10_frac N D <= 320)%Z.
Proof.
  intros s m e N D V H. destruct (mag_frac_pos _ _ _ _ H) as [HN HD].
  pose proof (mag_frac_log2_range s m e N D V H) as R.
  pose proof (ratio_pow2_bounds N D HN HD) as B. cbv zeta in B.
  set (L := (Z.log2 N - Z.log2 D)%Z) in *.
  pose proof (est_ok_range L R) as O. unfold est_ok in O.
  apply andb_true_iff in O. destruct O as [O O4]. apply andb_true_iff in O. destruct O as [O O3].
  apply andb_true_iff in O. destruct O as [O1 O2].
  apply le10_2_correct in O1. apply le2_10_correct in O2.
  apply Z.leb_le in O3. apply Z.leb_le in O4.
  unfold e10_frac. fold L. fold (est_k0 L).
  destruct (fix_k_spec 8 N D (est_k0 L) HN HD) as [A C].
  { change (Z.of_nat 8) with 8%Z. split; [lra|]. destruct B as [_ B]. lra. }
  change (Z.of_nat 8) with 8%Z in C. split; [exact A|lia].
Qed.

(* a double with a positive value has its sign bit clear *)
Lemma RV_pos_nsign : forall a, 0 < RV a -> nsign a = false.
Proof.
  intros [s|s| |s m e] H; unfold RV in H; cbn [SF2R] in H; try lra.
  destruct s; [|reflexivity]. exfalso.
  rewrite F2R_cond_Zopp in H. cbn [cond_Ropp] in H.
  assert (0 < F2R (Float radix2 (Z.pos m) e)) by (apply F2R_gt_0; reflexivity). lra.
Qed.

Lemma decade_unique : forall v a b, p10 a <= v < p10 (a + 1) -> p10 b <= v < p10 (b + 1) -> a = b.
Proof.
  intros v a b [A1 A2] [B1 B2].
  assert (a < b + 1)%Z by (apply (lt_bpow radix10); lra).
  assert (b < a + 1)%Z by (apply (lt_bpow radix10); lra). lia.
Qed.

(* ====================================================================================
   {:.14e} : 15 significant digits, correctly rounded
   ==================================================================================== *)
Lemma scale_rhe_spec : forall N D j, (0 < N)%Z -> (0 < D)%Z ->
  (0 <= scale_rhe N D j)%Z /\ Rabs (IZR (scale_rhe N D j) - IZR N / IZR D * p10 j) <= / 2.
Proof.
  intros N D j HN HD. unfold scale_rhe.
  assert (DD : 0 < IZR D) by now apply (IZR_lt 0).
  destruct (0 <=? j)%Z eqn:E.
  - apply Z.leb_le in E.
    assert (P : (0 < 10 ^ j)%Z) by (apply Z.pow_pos_nonneg; lia).
    destruct (div_rhe_spec (N * 10 ^ j) D ltac:(nia) HD) as [Q0 Q1]. split; [exact Q0|].
    pose proof (int_close _ _ _ HD Q1) as C. rewrite mult_IZR, IZR_pow10 in C by exact E.
    replace (IZR N / IZR D * p10 j) with (IZR N * p10 j / IZR D) by (field; lra). exact C.
  - apply Z.leb_gt in E.
    assert (P : (0 < 10 ^ (- j))%Z) by (apply Z.pow_pos_nonneg; lia).
    assert (HD' : (0 < D * 10 ^ (- j))%Z) by nia.
    destruct (div_rhe_spec N (D * 10 ^ (- j)) ltac:(lia) HD') as [Q0 Q1]. split; [exact Q0|].
    pose proof (int_close _ _ _ HD' Q1) as C. rewrite mult_IZR, IZR_pow10 in C by lia.
    assert (PP : 0 < p10 (- j)) by apply p10_pos.
    replace (p10 j) with (/ p10 (- j)).
    + replace (IZR N / IZR D * / p10 (- j)) with (IZR N / (IZR D * p10 (- j))) by (field; lra). exact C.
    + rewrite <- bpow_opp. f_equal. lia.
Qed.

Lemma in_decade_R : forall x k, in_decade x k -> p10 k <= Rabs (RV x) < p10 (k + 1).
Proof.
  intros x k [L U]. apply Qle_Rle in L. apply Qlt_Rlt in U.
  rewrite Q2R_p10, Q2R_Qabs, Q2R_num in L. rewrite Q2R_p10, Q2R_Qabs, Q2R_num in U.
  split; assumption.
Qed.

Lemma Q2R_half : Q2R (1 # 2) = / 2.
Proof. unfold Q2R. cbn [Qnum Qden]. lra. Qed.

(* the text  sign d.d{14} e k'  : shape, read-back of the exponent, and value *)
Lemma exp14_text : forall s q' k' x k,
  (10 ^ 14 <= q' < 10 ^ 15)%Z -> (I32_MIN <= k' <= I32_MAX)%Z ->
  Rabs (cond_Ropp s (IZR q' / p10 14) * p10 k' - RV x) <= / 2 * p10 (k - 14) ->
  exists ms es kk,
    split_once "e"%char (sign_text s ++ fixed_digits q' 14 ++ "e"%char :: int_to_text k') = Some (ms, es) /\
    mant14_shape ms = true /\ parse_i32 es = Some kk /\
    (Qabs (denote_plain ms * Qpower (10 # 1) kk - num_to_Q x) <= (1 # 2) * Qpower (10 # 1) (k - 14)%Z)%Q /\
    wf_exponent es = true.
Proof.
  intros s q' k' x k Hq Hk Herr.
  destruct (fixed_digits_15 q' Hq) as (d & fp & Efd & Hd & Hf & Hl & Hv). rewrite Efd.
  assert (Hi : all_digits [d] = true) by (unfold all_digits; cbn; now rewrite Hd).
  rewrite app_assoc.
  change (sign_text s ++ d :: "."%char :: fp) with (mk_plain s [d] (Some fp)).
  exists (mk_plain s [d] (Some fp)), (int_to_text k'), k'.
  split; [apply split_once_sci; [exact Hi|exact Hf]|].
  split.
  { unfold mant14_shape. rewrite strip_sign_mk_plain by exact Hi.
    change (mk_plain false [d] (Some fp)) with (d :: "."%char :: fp). cbv beta iota.
    rewrite Hd, Hf, Hl. reflexivity. }
  split; [now apply parse_i32_int_to_text|].
  split; [|apply int_to_text_spec].
  apply Rle_Qle. rewrite Q2R_Qabs, Q2R_minus, Q2R_mult, Q2R_num, Q2R_mult, !Q2R_p10, Q2R_half.
  rewrite denote_plain_mk_plain by exact Hi. cbv zeta. unfold dec_value.
  change ([d] ++ fp) with (d :: fp). rewrite Hv, Hl. change (pow10 14) with (10 ^ 14)%Z.
  assert (EQ : Q2R (if s then - (q' # Z.to_pos (10 ^ 14)) else q' # Z.to_pos (10 ^ 14)) =
               cond_Ropp s (IZR q' / p10 14)).
  { destruct s; cbn [cond_Ropp]; rewrite ?Q2R_opp, Q2R_Qmake_pow10 by lia; reflexivity. }
  rewrite EQ. exact Herr.
Qed.

Theorem fmt_exp14_exec_correct_strong : forall x k, valid x -> Num.is_finite x = true -> in_decade x k ->
  exists ms es kk, split_once "e"%char (fmt_exp14_exec x) = Some (ms, es) /\ mant14_shape ms = true /\
    parse_i32 es = Some kk /\
    (Qabs (denote_plain ms * Qpower (10 # 1) kk - num_to_Q x) <= (1 # 2) * Qpower (10 # 1) (k - 14)%Z)%Q /\
    wf_exponent es = true.
Proof.
  intros x k V F Hk. apply in_decade_R in Hk.
  destruct x as [s|s| |s m e]; try discriminate F.
  - exfalso. unfold RV in Hk. cbn [SF2R] in Hk. rewrite Rabs_R0 in Hk. pose proof (p10_pos k). lra.
  - unfold fmt_exp14_exec. destruct (mag_frac m e) as [N D] eqn:E.
    destruct (mag_frac_pos _ _ _ _ E) as [HN HD].
    destruct (RV_mag_frac s m e N D E) as [RVx RAx]. rewrite RAx in Hk.
    destruct (e10_frac_spec s m e N D V E) as [Dk Rk].
    assert (Ek : e10_frac N D = k) by (eapply decade_unique; eassumption).
    cbv zeta. rewrite Ek in *.
    destruct (scale_rhe_spec N D (14 - k) HN HD) as [Q0 Qc].
    set (q := scale_rhe N D (14 - k)) in *. set (v := IZR N / IZR D) in *.
    assert (E14 : p10 14 = p10 k * p10 (14 - k)) by (rewrite <- bpow_plus; f_equal; lia).
    assert (E15 : p10 15 = p10 (k + 1) * p10 (14 - k)) by (rewrite <- bpow_plus; f_equal; lia).
    assert (Pj : 0 < p10 (14 - k)) by apply p10_pos.
    assert (W : p10 14 <= v * p10 (14 - k) < p10 15).
    { rewrite E14, E15. split; [apply Rmult_le_compat_r; lra|apply Rmult_lt_compat_r; lra]. }
    rewrite <- (IZR_pow10 14), <- (IZR_pow10 15) in W by lia.
    apply Rabs_le_inv in Qc.
    assert (Qr : (10 ^ 14 <= q <= 10 ^ 15)%Z).
    { split.
      - destruct (Z_le_gt_dec (10 ^ 14) q) as [ok|bad]; [exact ok|exfalso].
        assert (B : (q + 1 <= 10 ^ 14)%Z) by lia. apply IZR_le in B. rewrite plus_IZR in B. lra.
      - destruct (Z_le_gt_dec q (10 ^ 15)) as [ok|bad]; [exact ok|exfalso].
        assert (B : (10 ^ 15 + 1 <= q)%Z) by lia. apply IZR_le in B. rewrite plus_IZR in B. lra. }
    (* q * 10^(k-14) is within half a unit of v *)
    assert (Pi : p10 (14 - k) * p10 (k - 14) = 1).
    { rewrite <- bpow_plus. replace (14 - k + (k - 14))%Z with 0%Z by lia. reflexivity. }
    assert (Pk : 0 < p10 (k - 14)) by apply p10_pos.
    assert (Cl : Rabs (IZR q * p10 (k - 14) - v) <= / 2 * p10 (k - 14)).
    { replace (IZR q * p10 (k - 14) - v) with ((IZR q - v * p10 (14 - k)) * p10 (k - 14)).
      - rewrite Rabs_mult, (Rabs_pos_eq (p10 (k - 14))) by lra.
        apply Rmult_le_compat_r; [lra|]. apply Rabs_le. lra.
      - rewrite Rmult_minus_distr_r, Rmult_assoc, Pi. ring. }
    assert (Rr : (I32_MIN <= k <= I32_MAX)%Z /\ (I32_MIN <= k + 1 <= I32_MAX)%Z).
    { unfold I32_MIN, I32_MAX. change (2 ^ 31)%Z with 2147483648%Z. lia. }
    change (if s then ["-"%char] else []) with (sign_text s).
    destruct (q =? 10 ^ 15)%Z eqn:C; cbv beta iota.
    + apply Z.eqb_eq in C.
      apply (exp14_text s (10 ^ 14)%Z (k + 1)%Z (S754_finite s m e) k); [lia|tauto|].
      rewrite RVx, cond_Ropp_mult, cond_Ropp_minus, Rabs_cond_Ropp.
      rewrite C in Cl. rewrite !IZR_pow10 in * by lia.
      replace (p10 14 / p10 14 * p10 (k + 1)) with (p10 15 * p10 (k - 14)); [exact Cl|].
      rewrite <- bpow_plus. replace (15 + (k - 14))%Z with (k + 1)%Z by lia. field.
      apply Rgt_not_eq. apply p10_pos.
    + apply Z.eqb_neq in C.
      apply (exp14_text s q k (S754_finite s m e) k); [lia|tauto|].
      rewrite RVx, cond_Ropp_mult, cond_Ropp_minus, Rabs_cond_Ropp.
      replace (IZR q / p10 14 * p10 k) with (IZR q * p10 (k - 14)); [exact Cl|].
      replace (k - 14)%Z with (k + - (14))%Z by lia. rewrite bpow_plus, bpow_opp. field.
      apply Rgt_not_eq. apply p10_pos.
Qed.

Theorem fmt_exp14_exec_correct : forall x k, valid x -> Num.is_finite x = true -> in_decade x k ->
  exists ms es kk, split_once "e"%char (fmt_exp14_exec x) = Some (ms, es) /\ mant14_shape ms = true /\
    parse_i32 es = Some kk /\
    (Qabs (denote_plain ms * Qpower (10 # 1) kk - num_to_Q x) <= (1 # 2) * Qpower (10 # 1) (k - 14)%Z)%Q.
Proof.
  intros x k V F Hk.
  destruct (fmt_exp14_exec_correct_strong x k V F Hk) as (ms & es & kk & A & B & C & D & _).
  now exists ms, es, kk.
Qed.

(* ====================================================================================
   parse::<f64> : rn_ratio is round-to-nearest-even of the fraction
   ==================================================================================== *)
Local Instance Hprec53d : Prec_gt_0 53 := PrimFloat.Hprec.
Local Instance Hmax1024d : Prec_lt_emax 53 1024 := PrimFloat.Hmax.

Lemma new_location_equiv : forall D r, (0 < D)%Z ->
  Bracket.new_location D r loc_Exact = SpecFloat.new_location D r.
Proof.
  intros D r HD. destruct D as [|p|p]; try lia.
  case p as [p|p|]; [reflexivity| |reflexivity].
  unfold Bracket.new_location, SpecFloat.new_location; simpl.
  unfold Bracket.new_location_even, SpecFloat.new_location_even; simpl.
  now case Zeq_bool; [|case r as [|rp|rp]; case Z.compare].
Qed.

Theorem rn_ratio_correct_full : forall s N D, (0 < N)%Z -> (0 < D)%Z ->
  let v := IZR N / IZR D in
  valid (rn_ratio s N D) /\
  (Rabs (rnd64 v) < bpow radix2 1024 ->
   RV (rn_ratio s N D) = cond_Ropp s (rnd64 v) /\ Num.is_finite (rn_ratio s N D) = true /\
   sign_SF (rn_ratio s N D) = s).
Proof.
  intros s N D HN HD v. unfold rn_ratio.
  destruct (N =? 0)%Z eqn:E0; [apply Z.eqb_eq in E0; lia|].
  set (sh := Z.max 0 (64 + Z.log2 D - Z.log2 N)).
  assert (Hsh : (0 <= sh)%Z) by (unfold sh; lia).
  pose proof (Fdiv_core_correct radix2 N 0 D 0 (- sh) HN HD) as B.
  unfold Fdiv_core in B.
  rewrite Zle_bool_true in B by lia.
  replace (0 - 0 - - sh)%Z with sh in B by lia.
  change (Zpower radix2 sh) with (2 ^ sh)%Z in B.
  destruct (Z.div_eucl (N * 2 ^ sh) D) as [q r].
  rewrite (new_location_equiv D r HD) in B.
  replace (F2R (Float radix2 N 0)) with (IZR N) in B by (unfold F2R; cbn [Fnum Fexp bpow]; ring).
  replace (F2R (Float radix2 D 0)) with (IZR D) in B by (unfold F2R; cbn [Fnum Fexp bpow]; ring).
  fold v in B.
  assert (DD : 0 < IZR D) by now apply (IZR_lt 0).
  assert (NN : 0 < IZR N) by now apply (IZR_lt 0).
  assert (Pv : 0 < v) by (unfold v; apply Rmult_lt_0_compat; [exact NN|now apply Rinv_0_lt_compat]).
  set (x := cond_Ropp s v).
  assert (Sx : Rlt_bool x 0 = s).
  { destruct s; unfold x; cbn [cond_Ropp]; [apply Rlt_bool_true; lra|apply Rlt_bool_false; lra]. }
  assert (Ax : Rabs x = v) by (unfold x; rewrite Rabs_cond_Ropp; apply Rabs_pos_eq; lra).
  assert (Nx : x <> 0) by (intros Z; rewrite Z, Rabs_R0 in Ax; lra).
  assert (Cx : (- sh <= cexp radix2 fexp64 x)%Z).
  { rewrite <- cexp_abs, Ax. unfold cexp.
    pose proof (ratio_pow2_bounds N D HN HD) as [Lb _]. fold v in Lb.
    assert (M : (Z.log2 N - Z.log2 D <= mag radix2 v)%Z).
    { apply mag_ge_bpow. rewrite Rabs_pos_eq by lra. exact Lb. }
    unfold SpecFloat.fexp, SpecFloat.emin. unfold sh. lia. }
  rewrite <- Ax in B.
  pose proof (binary_round_aux_correct' 53 1024 _ _ mode_NE x q (- sh) (SpecFloat.new_location D r) Nx B Cx) as C.
  cbv zeta in C. rewrite Sx in C. rewrite <- binary_round_aux_equiv in C.
  destruct C as [Vz C]. split; [exact Vz|]. intros Bd.
  change (round_mode mode_NE) with ZnearestE in C.
  assert (Rx : rnd64 x = cond_Ropp s (rnd64 v)).
  { unfold x. destruct s; cbn [cond_Ropp]; [apply round_NE_opp|reflexivity]. }
  rewrite Rx, Rabs_cond_Ropp in C. rewrite Rlt_bool_true in C by exact Bd.
  destruct C as (Ev & Fz & Sz). split; [exact Ev|]. split; [now rewrite <- finite_SF|exact Sz].
Qed.

Theorem rn_ratio_correct : forall s N D, (0 < N)%Z -> (0 < D)%Z ->
  let v := IZR N / IZR D in
  valid (rn_ratio s N D) /\
  (Rabs (rnd64 v) < bpow radix2 1024 ->
   RV (rn_ratio s N D) = cond_Ropp s (rnd64 v) /\ Num.is_finite (rn_ratio s N D) = true).
Proof.
  intros s N D HN HD v. destruct (rn_ratio_correct_full s N D HN HD) as [V C]. split; [exact V|].
  intros B. destruct (C B) as (R1 & F1 & _). now split.
Qed.

(* parse::<f64> of a 15-digit mantissa text is within 2e-15 of it (it is the nearest double) *)
Theorem parse_f64_exec_close : forall t, mant14_shape t = true ->
  exists m, parse_f64_exec t = Some m /\ Num.is_finite m = true /\
    (Qabs (num_to_Q m - denote_plain t) <= 2 # 1000000000000000)%Q.
Proof.
  intros t H. destruct (mant14_inv1 t H) as (neg & d & fp & -> & Hd & Hf & Hl).
  assert (Hi : all_digits [d] = true) by (unfold all_digits; cbn; now rewrite Hd).
  rewrite (parse_f64_exec_mant14 neg d fp Hd Hf Hl).
  set (Nn := digits_value (d :: fp)).
  assert (Bn : (0 <= Nn < 10 ^ 15)%Z).
  { assert (Fa : forallb is_digit (d :: fp) = true).
    { cbn [forallb]. rewrite Hd. now apply all_digits_forallb. }
    pose proof (digits_value_bound (d :: fp) Fa) as Bv. cbn [length] in Bv. rewrite Hl in Bv. exact Bv. }
  assert (Ev : Q2R (denote_plain (mk_plain neg [d] (Some fp))) = cond_Ropp neg (IZR Nn / p10 14)).
  { rewrite denote_plain_mk_plain by exact Hi. cbv zeta. unfold dec_value.
    change ([d] ++ fp) with (d :: fp). fold Nn. rewrite Hl. change (pow10 14) with (10 ^ 14)%Z.
    destruct neg; cbn [cond_Ropp]; rewrite ?Q2R_opp, Q2R_Qmake_pow10 by lia; reflexivity. }
  exists (rn_ratio neg Nn (10 ^ 14)). split; [reflexivity|].
  assert (P14 : p10 14 = 100000000000000).
  { rewrite <- (IZR_pow10 14) by lia. reflexivity. }
  destruct (Z.eq_dec Nn 0) as [Z0|NZ].
  - rewrite Z0 in *. unfold rn_ratio. change (0 =? 0)%Z with true. cbv iota. split; [reflexivity|].
    apply Rle_Qle. rewrite Q2R_Qabs, Q2R_minus, Ev.
    replace (Q2R (num_to_Q (S754_zero neg))) with 0 by (symmetry; apply Q2R_0).
    replace (0 - cond_Ropp neg (0 / p10 14)) with 0 by (destruct neg; cbn [cond_Ropp]; rewrite P14; field).
    rewrite Rabs_R0. unfold Q2R. cbn [Qnum Qden]. lra.
  - assert (HN : (0 < Nn)%Z) by lia.
    destruct (rn_ratio_correct neg Nn (10 ^ 14) HN ltac:(lia)) as [Vz Cz]. cbv zeta in Cz.
    rewrite IZR_pow10 in Cz by lia.
    set (v := IZR Nn / p10 14) in *.
    assert (Bv : / p10 14 <= v < 10).
    { unfold v. rewrite P14. destruct Bn as [_ Bu]. apply IZR_lt in Bu.
      assert (HN1 : (1 <= Nn)%Z) by lia. apply IZR_le in HN1.
      change (IZR (10 ^ 15)) with 1000000000000000 in Bu. split.
      - unfold Rdiv. apply Rmult_le_compat_r with (r := / 100000000000000) in HN1; lra.
      - apply Rmult_lt_reg_r with 100000000000000; [lra|]. unfold Rdiv.
        rewrite Rmult_assoc, Rinv_l by lra. lra. }
    assert (Av : Rabs v = v) by (apply Rabs_pos_eq; rewrite P14 in Bv; lra).
    assert (Ov : Rabs (rnd64 v) < bpow radix2 1024).
    { eapply Rle_lt_trans; [apply (rnd_abs_le_bpow v 4); [lia|]|apply bpow_lt; lia].
      rewrite Av. change (bpow radix2 4) with 16. lra. }
    destruct (Cz Ov) as [Rz Fz]. split; [exact Fz|].
    apply Rle_Qle. rewrite Q2R_Qabs, Q2R_minus, Q2R_num, Ev, Rz. fold v.
    rewrite cond_Ropp_minus, Rabs_cond_Ropp.
    assert (Lv : bpow radix2 (-1022) <= Rabs v).
    { rewrite Av. apply Rle_trans with (/ p10 14); [|lra].
      rewrite P14. apply Rle_trans with (bpow radix2 (-47)); [apply bpow_le; lia|].
      change (bpow radix2 (-47)) with (/ 140737488355328). apply Rinv_le_contravar; lra. }
    eapply Rle_trans; [apply (rnd_rel v Lv)|]. rewrite Av.
    change (bpow radix2 (-53)) with (/ 9007199254740992).
    unfold Q2R. cbn [Qnum Qden]. lra.
Qed.
