(* proofs/NumTextRef.v — the executable reference rn_decimal IS IEEE-754 round-to-nearest-even
   of the decimal's rational value (Flocq's [round radix2 (FLT_exp -1074 53) ZnearestE]),
   with overflow to infinity at 2^1024. *)
From Coq Require Import ZArith Reals Floats.SpecFloat Bool Lia Lra.
From Flocq Require Import Core.Core IEEE754.BinarySingleNaN.
Require Import Blots.Num Blots.NumText Blots.proofs.NumTextFloat.
Open Scope Z_scope.

Local Existing Instance Hprec.
Local Existing Instance Hmax.
Local Instance fexp64_valid : Valid_exp fexp64 := fexp_correct 53 1024 Hprec.

(* the rational m * 10^e as a real *)
Definition dec_R (m e : Z) : R :=
  if 0 <=? e then IZR (m * 10 ^ e) else (IZR m / IZR (10 ^ (- e)))%R.

Definition rne (v : R) : R := round radix2 fexp64 ZnearestE v.

(* what it means for a spec_float to be the rounding of v (overflow -> +infinity) *)
Definition is_rounding_pos (z : spec_float) (v : R) : Prop :=
  vb z = true /\
  if Rlt_bool (Rabs (rne v)) (bpow radix2 1024)
  then SF2R radix2 z = rne v /\ is_finite_SF z = true /\ sign_SF z = false
  else z = S754_infinity false.

Lemma rn_pos_main_nonneg : forall m e p, 0 <= e -> Zpos m * 10 ^ e = Zpos p ->
  is_rounding_pos (SpecFloat.binary_round 53 1024 false p 0) (dec_R (Zpos m) e).
Proof.
  intros m e p He Hp. unfold is_rounding_pos, dec_R, rne.
  replace (0 <=? e) with true by (symmetry; now apply Z.leb_le).
  rewrite Hp, binary_round_equiv.
  generalize (binary_round_correct 53 1024 Hprec Hmax mode_NE false p 0). cbv zeta.
  replace (F2R (Float radix2 (cond_Zopp false (Zpos p)) 0)) with (IZR (Zpos p)).
  2:{ unfold F2R, cond_Zopp, Fnum, Fexp. simpl bpow. now rewrite Rmult_1_r. }
  intros [Hv H]. split; [exact Hv|]. exact H.
Qed.

Lemma rn_pos_main_neg : forall m e d, e < 0 -> 10 ^ (- e) = Zpos d ->
  is_rounding_pos (rn_ratio m d) (dec_R (Zpos m) e).
Proof.
  intros m e d He Hd. unfold is_rounding_pos, dec_R, rne, rn_ratio, Num.prec, Num.emax.
  replace (0 <=? e) with false by (symmetry; now apply Z.leb_gt).
  rewrite Hd.
  generalize (Bdiv_correct_aux 53 1024 Hprec Hmax mode_NE false m 0 false d 0). cbv zeta.
  replace (F2R (Float radix2 (cond_Zopp false (Zpos m)) 0)) with (IZR (Zpos m)).
  2:{ unfold F2R, cond_Zopp, Fnum, Fexp. simpl bpow. now rewrite Rmult_1_r. }
  replace (F2R (Float radix2 (cond_Zopp false (Zpos d)) 0)) with (IZR (Zpos d)).
  2:{ unfold F2R, cond_Zopp, Fnum, Fexp. simpl bpow. now rewrite Rmult_1_r. }
  destruct (SFdiv_core_binary 53 1024 (Zpos m) 0 (Zpos d) 0) as [[q e'] l].
  rewrite binary_round_aux_equiv. cbn [xorb].
  intros [Hv H]. split; [exact Hv|]. exact H.
Qed.

(* ---------------------------------------------------------------- the two guards of rn_pos *)
Lemma pow10_ge_2p1024 : forall e, 400 < e -> 2 ^ 1024 <= 10 ^ e.
Proof.
  intros e He. apply Z.le_trans with (10 ^ 401).
  - vm_compute. discriminate.
  - apply Z.pow_le_mono_r; lia.
Qed.

Lemma rne_bpow_1024 : rne (bpow radix2 1024) = bpow radix2 1024.
Proof.
  unfold rne. apply round_generic; auto with typeclass_instances.
  apply generic_format_bpow. vm_compute. discriminate.
Qed.

Lemma rn_pos_overflow_guard : forall m e, 400 < e ->
  is_rounding_pos (S754_infinity false) (dec_R (Zpos m) e).
Proof.
  intros m e He. unfold is_rounding_pos, dec_R.
  replace (0 <=? e) with true by (symmetry; apply Z.leb_le; lia).
  split; [reflexivity|].
  rewrite Rlt_bool_false; [reflexivity|].
  assert (Hle : (bpow radix2 1024 <= IZR (Zpos m * 10 ^ e))%R).
  { rewrite <- IZR_Zpower by lia. apply IZR_le. change (radix2 ^ 1024) with (2 ^ 1024).
    pose proof (pow10_ge_2p1024 e He).
    assert (0 < 10 ^ e) by (apply Z.pow_pos_nonneg; lia). nia. }
  apply Rle_trans with (rne (IZR (Zpos m * 10 ^ e))).
  - rewrite <- rne_bpow_1024. unfold rne. apply round_le; auto with typeclass_instances.
  - apply Rle_abs.
Qed.

Lemma small_ratio : forall m k, 400 + Z.log2 (Zpos m) < k -> Zpos m * 2 ^ 1076 <= 10 ^ k.
Proof.
  intros m k Hk. set (L := Z.log2 (Zpos m)) in *.
  assert (HL : 0 <= L) by apply Z.log2_nonneg.
  destruct (Z.log2_spec (Zpos m) ltac:(lia)) as [_ Hm]. fold L in Hm.
  assert (H1 : 10 ^ (L + 401) <= 10 ^ k) by (apply Z.pow_le_mono_r; lia).
  assert (H2 : 2 ^ L <= 10 ^ L) by (apply Z.pow_le_mono_l; lia).
  assert (H3 : 2 ^ 1077 <= 10 ^ 401) by (vm_compute; discriminate).
  rewrite Z.pow_add_r in H1 by lia.
  assert (H4 : Z.succ L = L + 1) by lia. rewrite H4, Z.pow_add_r in Hm by lia.
  assert (0 < 2 ^ L) by (apply Z.pow_pos_nonneg; lia).
  assert (0 < 10 ^ L) by (apply Z.pow_pos_nonneg; lia).
  assert (H5 : 2 ^ 1077 = 2 * 2 ^ 1076) by (vm_compute; reflexivity).
  assert (0 < 2 ^ 1076) by (vm_compute; reflexivity).
  nia.
Qed.

Lemma rne_tiny : forall v, (0 <= v <= bpow radix2 (-1076))%R -> rne v = 0%R.
Proof.
  intros v [H0 H1]. apply Rle_antisym.
  - replace 0%R with (rne (bpow radix2 (-1076))).
    + unfold rne. apply round_le; auto with typeclass_instances.
    + unfold rne. apply (round_N_small_pos radix2 fexp64 _ _ (-1075)).
      * split; [apply Rle_refl | apply bpow_lt; lia].
      * vm_compute. reflexivity.
  - replace 0%R with (rne 0) by (unfold rne; apply round_0; auto with typeclass_instances).
    unfold rne. apply round_le; auto with typeclass_instances.
Qed.

Lemma rn_pos_underflow_guard : forall m e, e < - (400 + Z.log2 (Zpos m)) ->
  is_rounding_pos (S754_zero false) (dec_R (Zpos m) e).
Proof.
  intros m e He. unfold is_rounding_pos, dec_R.
  assert (HL : 0 <= Z.log2 (Zpos m)) by apply Z.log2_nonneg.
  replace (0 <=? e) with false by (symmetry; apply Z.leb_gt; lia).
  split; [reflexivity|].
  assert (Hz : rne (IZR (Zpos m) / IZR (10 ^ (- e))) = 0%R).
  { apply rne_tiny.
    assert (HD : 0 < 10 ^ (- e)) by (apply Z.pow_pos_nonneg; lia).
    assert (HDR : (0 < IZR (10 ^ (- e)))%R) by (apply IZR_lt; exact HD).
    split.
    - apply Rmult_le_pos; [apply IZR_le; lia | left; now apply Rinv_0_lt_compat].
    - pose proof (small_ratio m (- e) ltac:(lia)) as Hs.
      replace (bpow radix2 (-1076)) with (/ IZR (2 ^ 1076))%R.
      2:{ change (-1076) with (- (1076)). rewrite bpow_opp. f_equal. }
      assert (HP : (0 < IZR (2 ^ 1076))%R) by (apply IZR_lt; vm_compute; reflexivity).
      apply Rmult_le_reg_r with (IZR (10 ^ (- e))); [exact HDR|].
      unfold Rdiv. rewrite Rmult_assoc, Rinv_l, Rmult_1_r by lra.
      apply Rmult_le_reg_l with (IZR (2 ^ 1076)); [exact HP|].
      rewrite <- Rmult_assoc, Rinv_r, Rmult_1_l by lra.
      rewrite <- mult_IZR. apply IZR_le. lia. }
  rewrite Hz, Rabs_R0. rewrite Rlt_bool_true by apply bpow_gt_0.
  repeat split; reflexivity.
Qed.

(* ---------------------------------------------------------------- rn_pos, rn_decimal *)
Theorem rn_pos_correct : forall m e, is_rounding_pos (rn_pos m e) (dec_R (Zpos m) e).
Proof.
  intros m e. unfold rn_pos.
  destruct (400 <? e) eqn:E1; [apply rn_pos_overflow_guard; now apply Z.ltb_lt|].
  destruct (e <? - (400 + Z.log2 (Zpos m))) eqn:E2; [apply rn_pos_underflow_guard; now apply Z.ltb_lt|].
  destruct (0 <=? e) eqn:E3.
  - apply Z.leb_le in E3.
    assert (Hp : exists p, Zpos m * 10 ^ e = Zpos p).
    { assert (0 < 10 ^ e) by (apply Z.pow_pos_nonneg; lia).
      destruct (Zpos m * 10 ^ e) eqn:E; try (exists p; reflexivity); nia. }
    destruct Hp as [p Hp]. rewrite Hp. unfold Num.prec, Num.emax. now apply rn_pos_main_nonneg.
  - apply Z.leb_gt in E3.
    assert (Hd : exists d, 10 ^ (- e) = Zpos d).
    { assert (0 < 10 ^ (- e)) by (apply Z.pow_pos_nonneg; lia).
      destruct (10 ^ (- e)) eqn:E; try (exists p; reflexivity); lia. }
    destruct Hd as [d Hd]. rewrite Hd. now apply rn_pos_main_neg.
Qed.

(* the signed statement: for m > 0, rn_decimal s m e is a valid double; when the rounded
   magnitude is below 2^1024 its real value is (-1)^s * RNE(m * 10^e) and its sign bit is s;
   otherwise it is the infinity of sign s *)
Theorem rn_decimal_correct : forall s m e,
  let v := dec_R (Zpos m) e in
  let z := rn_decimal s (Zpos m) e in
  vb z = true /\
  if Rlt_bool (Rabs (rne v)) (bpow radix2 1024)
  then SF2R radix2 z = (if s then - rne v else rne v)%R /\ is_finite_SF z = true /\ sign_SF z = s
  else z = S754_infinity s.
Proof.
  intros s m e v z. unfold z, rn_decimal.
  destruct (rn_pos_correct m e) as [Hv H]. fold v in H.
  destruct (Rlt_bool (Rabs (rne v)) (bpow radix2 1024)).
  - destruct H as (HR & HF & HS).
    destruct (rn_pos m e) as [sz|sz| |sz mz ez]; try discriminate HF; simpl in HS; subst sz.
    + destruct s; simpl in *; repeat split; auto. rewrite <- HR. lra.
    + destruct s; cbn [with_sign SFopp negb].
      * repeat split; auto. cbn [SF2R]. cbn [SF2R] in HR. rewrite <- HR.
        rewrite <- F2R_Zopp. reflexivity.
      * repeat split; auto.
  - rewrite H. destruct s; split; reflexivity.
Qed.

(* `n as f64` for a positive integer (num_of_Z, used by the radix literals) is RNE of the integer *)
Theorem num_of_Z_correct : forall p, is_rounding_pos (num_of_Z (Zpos p)) (IZR (Zpos p)).
Proof.
  intros p. generalize (rn_pos_main_nonneg p 0 p ltac:(lia) ltac:(rewrite Z.pow_0_r; lia)).
  unfold dec_R. change (0 <=? 0) with true. cbv iota. rewrite Z.pow_0_r, Z.mul_1_r. exact (fun H => H).
Qed.
