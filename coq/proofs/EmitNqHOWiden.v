(* EmitNqHOWiden.v — C05: the widened class of emittable values (EmitNqHO.emit_ok: NaN under the repaired
   literal, strings and record keys with both quote kinds) contains the earlier one (EmitHO.emit_ok), for
   every choice of the knobs; closures at any capture depth. *)
From Coq Require Import String Ascii List ZArith Bool Lia.
Require Import Blots.Num Blots.gen.Builtins Blots.Ast Blots.Value Blots.Outcome Blots.Env Blots.Emit
               Blots.proofs.ValueInd.
Require Blots.proofs.EmitHO Blots.proofs.EmitNqHO.
Import ListNotations.
Open Scope list_scope.

Lemma emit_ok_widens opok biok nanfix : forall v,
  EmitHO.emit_ok opok biok v = true -> EmitNqHO.emit_ok opok biok nanfix v = true.
Proof.
  induction v using value_ind'; intros Hok; try reflexivity; try discriminate.
  - cbn in *. rewrite Hok. now destruct nanfix.
  - cbn [EmitHO.emit_ok EmitNqHO.emit_ok] in *.
    induction H as [|x l Hx _ IH]; [reflexivity|]. cbn in *.
    apply andb_prop in Hok as [A B]. now rewrite (Hx A), (IH B).
  - cbn [EmitHO.emit_ok EmitNqHO.emit_ok] in *. apply andb_prop in Hok as [Hnd Hok]. rewrite Hnd. cbn [andb].
    clear Hnd. induction H as [|[k x] l Hx _ IH]; [reflexivity|]. cbn in *.
    apply andb_prop in Hok as [A B]. apply andb_prop in A as [_ A]. now rewrite (Hx A), (IH B).
  - cbn [EmitHO.emit_ok EmitNqHO.emit_ok] in *.
    apply andb_prop in Hok as [Hok Hsc]. apply andb_prop in Hok as [Hok Hnm]. apply andb_prop in Hok as [Hb Hfv].
    apply andb_true_intro. split; [apply andb_true_intro; split; [apply andb_true_intro; split|]|].
    + exact Hb.
    + exact Hfv.
    + exact Hnm.
    + clear - H Hsc. induction H as [|[k x] l Hx _ IH]; [reflexivity|]. cbn in *.
      apply andb_prop in Hsc as [A B]. now rewrite (Hx A), (IH B).
  - exact Hok.
Qed.
