(* JsonNumsOk.v — property C06, closing "Partial (i)": the decidable hypothesis [json_nums_ok]
   of the input-echo theorems holds for every serde_json::Number, hence for every document the
   parser model returns.
     1. [num_of_Z_finite]: `n as f64` is finite for every n a u64 or an i64 can hold
        (-2^63 <= n < 2^64; in fact for |n| <= 2^64), by Flocq: num_of_Z is round-to-nearest-even
        of the integer (NumTextRef.rn_decimal_correct, itself on BinarySingleNaN.
        binary_round_correct), rounding is monotone, 2^64 is representable and below 2^1024.
     2. [jnum_wf] (JsonWf.v: integer ranges, Float finite) implies [jnum_ok]; it is preserved by
        sj_build, established by to_json for EVERY serialisable value (Number::from_f64 / the `0`
        fallback), and established by the parser model json_from_str as soon as the text->double
        conversion never returns a non-finite value (serde_json answers "number out of range").
     3. the input-echo theorems restated for parsed documents, without json_nums_ok.
   Depends on the four standard-library axioms of Flocq/Reals (allow-list) through 1. only. *)
From Coq Require Import String Ascii List ZArith Bool Lia Reals Lra Floats.SpecFloat.
Require Import ZifyBool.
From Flocq Require Import Core.Core IEEE754.BinarySingleNaN.
Require Import Blots.Num Blots.gen.Builtins Blots.Ast Blots.Value Blots.Outcome Blots.NumText.
Require Import Blots.Json Blots.JsonText Blots.JsonWf.
Require Import Blots.proofs.NumText Blots.proofs.NumTextFloat Blots.proofs.NumTextRef Blots.proofs.NumTextJson.
Require Import Blots.proofs.ValueInd Blots.proofs.JsonMaps Blots.proofs.JsonRT Blots.proofs.JsonEcho.
Require Import Blots.proofs.JsonTextRT Blots.proofs.JsonTextDoc.
Import ListNotations.
Open Scope Z_scope.

Local Existing Instance Hprec.
Local Existing Instance Hmax.
Local Instance fexp64_valid' : Valid_exp fexp64 := fexp_correct 53 1024 Hprec.

(* ------------------------------------------------------------------ 1. u64 / i64 `as f64` *)
Lemma rne_bpow_64 : rne (bpow radix2 64) = bpow radix2 64.
Proof.
  unfold rne. apply round_generic; auto with typeclass_instances.
  apply generic_format_bpow. vm_compute. discriminate.
Qed.

Lemma rne_small_int : forall p, Zpos p <= 2 ^ 64 ->
  (Rabs (rne (IZR (Zpos p))) < bpow radix2 1024)%R.
Proof.
  intros p Hp.
  assert (H0 : (0 <= rne (IZR (Zpos p)))%R).
  { unfold rne. apply round_ge_generic; auto with typeclass_instances.
    - apply generic_format_0.
    - apply IZR_le. lia. }
  rewrite Rabs_pos_eq by exact H0.
  apply Rle_lt_trans with (bpow radix2 64).
  - rewrite <- rne_bpow_64. unfold rne. apply round_le; auto with typeclass_instances.
    change (bpow radix2 64) with (IZR (Z.pow_pos 2 64)). apply IZR_le. exact Hp.
  - apply bpow_lt. reflexivity.
Qed.

Lemma is_finite_SF_eq : forall x : num, is_finite x = is_finite_SF x.
Proof. now intros [ | | | ]. Qed.
Lemma is_finite_opp : forall x, is_finite (SFopp x) = is_finite x.
Proof. now intros [ | | | ]. Qed.

Lemma num_of_Z_pos_finite : forall p, Zpos p <= 2 ^ 64 -> is_finite (num_of_Z (Zpos p)) = true.
Proof.
  intros p Hp. destruct (num_of_Z_correct p) as [_ H].
  rewrite Rlt_bool_true in H by (apply rne_small_int; exact Hp).
  rewrite is_finite_SF_eq. tauto.
Qed.

(* u64 and i64 `as f64` never overflow: Number::as_f64 of an integer Number is finite *)
Theorem num_of_Z_finite : forall z, - 2 ^ 64 <= z <= 2 ^ 64 -> is_finite (num_of_Z z) = true.
Proof.
  intros [|p|p] Hz.
  - reflexivity.
  - apply num_of_Z_pos_finite. lia.
  - change (Zneg p) with (- Zpos p).
    rewrite num_of_Z_neg_rn_decimal by lia.
    rewrite (rn_decimal_sign true (Zpos p) 0) by lia.
    rewrite <- num_of_Z_rn_decimal by lia.
    change (with_sign true (num_of_Z (Zpos p))) with (SFopp (num_of_Z (Zpos p))).
    rewrite is_finite_opp. apply num_of_Z_pos_finite. lia.
Qed.
Corollary num_of_Z_finite_u64_i64 : forall z, - 2 ^ 63 <= z < 2 ^ 64 -> is_finite (num_of_Z z) = true.
Proof. intros z Hz. apply num_of_Z_finite. lia. Qed.

(* ------------------------------------------------------------------ 2. the Number invariant *)
Theorem jnum_wf_ok : forall n, jnum_wf n = true -> jnum_ok n = true.
Proof.
  intros [z|z|x]; unfold jnum_wf, jnum_ok, jnum_as_f64, U64_MAX, I64_MIN; intros H.
  - apply num_of_Z_finite. lia.
  - apply num_of_Z_finite. lia.
  - exact H.
Qed.
(* the double of every well-formed Number is a valid binary64 as soon as its Float is *)
Lemma jnum_double_as_f64 : forall n, jnum_double n = true -> is_double (jnum_as_f64 n) = true.
Proof. intros [z|z|x] H; cbn; [apply num_of_Z_valid|apply num_of_Z_valid|exact H]. Qed.

(* -------- json_all: generic facts *)
Lemma json_all_arr p l : json_all p (JArr l) = forallb (json_all p) l.
Proof. reflexivity. Qed.
Lemma json_all_obj p m : json_all p (JObj m) = forallb (fun kv => json_all p (snd kv)) m.
Proof. reflexivity. Qed.

Lemma json_all_impl (p q : jnumber -> bool) :
  (forall n, p n = true -> q n = true) -> forall j, json_all p j = true -> json_all q j = true.
Proof.
  intros Hpq. induction j as [| |n|s|l IH|m IH] using json_ind'; try (cbn; congruence).
  - cbn. apply Hpq.
  - rewrite !json_all_arr, !forallb_forall. rewrite Forall_forall in IH. intros H x Hx. auto.
  - rewrite !json_all_obj, !forallb_forall. rewrite Forall_forall in IH. intros H x Hx. auto.
Qed.
Lemma forallb_ext_in' {A} (f g : A -> bool) l :
  (forall x, In x l -> f x = g x) -> forallb f l = forallb g l.
Proof.
  induction l as [|a l IH]; intros H; [reflexivity|]. cbn.
  rewrite (H a (or_introl eq_refl)), IH; [reflexivity|]. intros x Hx. apply H. now right.
Qed.
Lemma json_nums_ok_all : forall j, json_nums_ok j = json_all jnum_ok j.
Proof.
  induction j as [| |n|s|l IH|m IH] using json_ind'; try reflexivity.
  - cbn [json_nums_ok]. rewrite json_all_arr. apply forallb_ext_in'. rewrite Forall_forall in IH. exact IH.
  - cbn [json_nums_ok]. rewrite json_all_obj. apply forallb_ext_in'. rewrite Forall_forall in IH. exact IH.
Qed.
Lemma json_text_ok_wf : forall j, json_text_ok j = json_wf j.
Proof.
  unfold json_wf.
  induction j as [| |n|s|l IH|m IH] using json_ind'; try reflexivity.
  - cbn [json_text_ok]. rewrite json_all_arr. apply forallb_ext_in'. rewrite Forall_forall in IH. exact IH.
  - cbn [json_text_ok]. rewrite json_all_obj. apply forallb_ext_in'. rewrite Forall_forall in IH. exact IH.
Qed.

(* every number of a well-formed document has a finite double *)
Theorem json_wf_nums_ok : forall d, json_wf d = true -> json_nums_ok d = true.
Proof. intros d H. rewrite json_nums_ok_all. exact (json_all_impl _ _ jnum_wf_ok d H). Qed.

(* serde_json's map builder keeps the numbers it is given *)
Lemma json_all_sj_build p : forall d, json_all p d = true -> json_all p (sj_build d) = true.
Proof.
  induction d as [| |n|s|l IH|m IH] using json_ind'; try (cbn; congruence).
  - cbn [sj_build]. rewrite !json_all_arr, !forallb_forall. intros H y Hy.
    apply in_map_iff in Hy as (x & <- & Hx). rewrite Forall_forall in IH. auto.
  - rewrite sj_build_obj, !json_all_obj, !forallb_forall. intros H [k y] Hy.
    apply bmap_collect_in in Hy. apply in_mapv in Hy as (x & Hx & ->). cbn.
    rewrite Forall_forall in IH. apply (IH (k, x) Hx). apply (H (k, x) Hx).
Qed.
Theorem json_wf_sj_build : forall d, json_wf d = true -> json_wf (sj_build d) = true.
Proof. exact (json_all_sj_build jnum_wf). Qed.

(* the canonical form (every number as its double, members sorted, last duplicate wins) *)
Lemma json_all_jcanon (p q : jnumber -> bool) :
  (forall n, p n = true -> q (JFloat (jnum_as_f64 n)) = true) ->
  forall d, json_all p d = true -> json_all q (jcanon d) = true.
Proof.
  intros Hpq. induction d as [| |n|s|l IH|m IH] using json_ind'; try (cbn; congruence).
  - cbn. apply Hpq.
  - cbn [jcanon]. rewrite !json_all_arr, !forallb_forall. intros H y Hy.
    apply in_map_iff in Hy as (x & <- & Hx). rewrite Forall_forall in IH. auto.
  - rewrite jcanon_obj, !json_all_obj, !forallb_forall. intros H [k y] Hy.
    apply bmap_collect_in in Hy. apply in_mapv in Hy as (x & Hx & ->). cbn.
    rewrite Forall_forall in IH. apply (IH (k, x) Hx). apply (H (k, x) Hx).
Qed.
Lemma json_wf_jcanon : forall d, json_wf d = true -> json_wf (jcanon d) = true.
Proof. apply json_all_jcanon. intros n Hn. exact (jnum_wf_ok n Hn). Qed.
Lemma json_doubles_jcanon : forall d, json_doubles d = true -> json_doubles (jcanon d) = true.
Proof. apply json_all_jcanon. exact jnum_double_as_f64. Qed.

(* to_json builds well-formed Numbers from ANY serialisable value: Number::from_f64 is None for
   NaN / infinities and the fallback is Number::from(0) *)
Theorem json_wf_to_json : forall s, json_wf (to_json s) = true.
Proof.
  unfold json_wf.
  induction s as [x|x| |s|l IH|r IH|n a b sc _|n] using svalue_ind'; try reflexivity.
  - cbn. unfold jnum_of_f64. destruct (is_finite x) eqn:E; [exact E|reflexivity].
  - rewrite to_json_list, json_all_arr, forallb_forall. intros y Hy.
    apply in_map_iff in Hy as (x & <- & Hx). rewrite Forall_forall in IH. auto.
  - rewrite to_json_rec, json_all_obj, forallb_forall. intros [k y] Hy.
    apply bmap_collect_in in Hy. apply in_mapv in Hy as (x & Hx & ->). cbn.
    rewrite Forall_forall in IH. apply (IH (k, x) Hx).
Qed.
Lemma json_doubles_to_json : forall s, svalue_doubles s = true -> json_doubles (to_json s) = true.
Proof.
  unfold json_doubles.
  induction s as [x|x| |s|l IH|r IH|n a b sc _|n] using svalue_ind'; try reflexivity.
  - cbn. unfold jnum_of_f64. intros H. destruct (is_finite x); [exact H|reflexivity].
  - cbn [svalue_doubles]. rewrite to_json_list, json_all_arr, !forallb_forall. intros H y Hy.
    apply in_map_iff in Hy as (x & <- & Hx). rewrite Forall_forall in IH. auto.
  - cbn [svalue_doubles]. rewrite to_json_rec, json_all_obj, !forallb_forall. intros H [k y] Hy.
    apply bmap_collect_in in Hy. apply in_mapv in Hy as (x & Hx & ->). cbn.
    rewrite Forall_forall in IH. apply (IH (k, x) Hx). apply (H (k, x) Hx).
Qed.
Lemma svalue_doubles_sv_of : forall v, value_doubles v = true -> svalue_doubles (sv_of v) = true.
Proof.
  induction v as [x|x| |s|l IH|r IH|id ar bd sc _|bi|v _] using value_ind'; try reflexivity.
  - cbn. congruence.
  - cbn [value_doubles sv_of svalue_doubles]. rewrite !forallb_forall. intros H y Hy.
    apply in_map_iff in Hy as (x & <- & Hx). rewrite Forall_forall in IH. auto.
  - cbn [value_doubles]. rewrite sv_of_rec. cbn [svalue_doubles]. rewrite !forallb_forall.
    intros H [k y] Hy. apply in_mapv in Hy as (x & Hx & ->). cbn.
    rewrite Forall_forall in IH. apply (IH (k, x) Hx). apply (H (k, x) Hx).
Qed.
(* whatever a run outputs is a document of well-formed Numbers *)
Theorem json_wf_write_outputs : forall outs, json_wf (write_outputs outs) = true.
Proof.
  intros outs. unfold write_outputs, json_wf. rewrite json_all_obj, forallb_forall.
  intros kv Hkv. apply in_map_iff in Hkv as ([k s] & <- & _). cbn. apply json_wf_to_json.
Qed.

(* everything that builds a serde_json::Value on the modelled paths keeps the invariant *)
Theorem number_invariant_established :
  (forall s, json_wf (to_json s) = true) /\
  (forall outs, json_wf (write_outputs outs) = true) /\
  (forall d, json_wf d = true -> json_wf (sj_build d) = true) /\
  (forall d, json_wf d = true -> json_wf (jcanon d) = true).
Proof.
  split; [exact json_wf_to_json|]. split; [exact json_wf_write_outputs|].
  split; [exact json_wf_sj_build|exact json_wf_jcanon].
Qed.

(* ------------------------------------------------------------------ the parser model *)
(* digits read by the scanner are digits *)
Lemma span_digits_ok : forall s l r, span_digits s = (l, r) -> digits_ok l = true.
Proof.
  induction s as [|c s IH]; intros l r H; cbn [span_digits] in H.
  - now inversion H.
  - destruct (is_digit c) eqn:Ec.
    + destruct (span_digits s) as [d rest] eqn:Es. inversion H; subst.
      change (digit_ok (byte c - 48) && digits_ok d = true).
      rewrite (IH d r eq_refl). unfold JsonText.is_digit in Ec. unfold digit_ok. lia.
    + now inversion H.
Qed.
Lemma digits_val_nonneg' : forall l acc, digits_ok l = true -> 0 <= acc -> 0 <= JsonText.digits_val acc l.
Proof.
  induction l as [|d l IH]; intros acc Hl Ha; cbn [JsonText.digits_val]; [exact Ha|].
  cbn in Hl. apply andb_prop in Hl as [Hd Hl]. apply IH; [exact Hl|]. unfold digit_ok in Hd. lia.
Qed.

Lemma depth_fold_le l n :
  Forall (fun x => (jdepth x <= n)%nat) l -> (fold_right (fun x acc => Nat.max (jdepth x) acc) O l <= n)%nat.
Proof. induction 1; cbn; lia. Qed.
Lemma depth_fold_le_m (m : list (string * json)) n :
  Forall (fun kv => (jdepth (snd kv) <= n)%nat) m ->
  (fold_right (fun kv acc => Nat.max (jdepth (snd kv)) acc) O m <= n)%nat.
Proof. induction 1; cbn; lia. Qed.

Section ParseSound.
  Variable float_of_tok : numtok -> option num.
  Variable p : jnumber -> bool.
  Hypothesis Hp_pos : forall z, 0 <= z <= U64_MAX -> p (JPosInt z) = true.
  Hypothesis Hp_neg : forall z, I64_MIN <= z < 0 -> p (JNegInt z) = true.
  Hypothesis Hp_float : forall t x, float_of_tok t = Some x -> p (JFloat x) = true.

  Lemma scan_number_int_digits s t rest :
    scan_number s = Some (t, rest) -> digits_ok (t_int t) = true.
  Proof.
    unfold scan_number.
    set (s1 := if byte (ch s) =? 45 then match s with String _ r => r | _ => s end else s).
    destruct (span_digits s1) as [ip r1] eqn:E. apply span_digits_ok in E. intros H.
    assert (G : t_int t = ip).
    { repeat match type of H with
             | context [match ?x with _ => _ end] => destruct x eqn:?; try discriminate H
             end; inversion H; reflexivity. }
    now rewrite G.
  Qed.

  Lemma classify_number_sound t n :
    digits_ok (t_int t) = true -> classify_number float_of_tok t = Some n -> p n = true.
  Proof.
    intros Hd. unfold classify_number.
    pose proof (digits_val_nonneg' (t_int t) 0 Hd ltac:(lia)) as Hn.
    assert (HF : option_map JFloat (float_of_tok t) = Some n -> p n = true).
    { destruct (float_of_tok t) as [x|] eqn:E; [|discriminate]. cbn. intros H; inversion H; subst.
      exact (Hp_float t x E). }
    destruct (t_frac t), (t_exp t); try exact HF.
    destruct (negb (t_neg t)).
    - destruct (JsonText.digits_val 0 (t_int t) <=? U64_MAX') eqn:E; [|exact HF].
      intros H; inversion H; subst. apply Hp_pos. unfold U64_MAX, U64_MAX' in *. lia.
    - destruct ((JsonText.digits_val 0 (t_int t) =? 0) || (2 ^ 63 <? JsonText.digits_val 0 (t_int t))) eqn:E;
        [exact HF|].
      intros H; inversion H; subst. apply Hp_neg. unfold I64_MIN. lia.
  Qed.

  Lemma parse_number_sound s n r : parse_number float_of_tok s = Some (n, r) -> p n = true.
  Proof.
    unfold parse_number. destruct (scan_number s) as [[t rest]|] eqn:E; [|discriminate].
    destruct (classify_number float_of_tok t) as [n'|] eqn:C; [|discriminate].
    intros H; inversion H; subst.
    exact (classify_number_sound t n (scan_number_int_digits s t r E) C).
  Qed.

  (* the two inner loops (named in JsonTextDoc.v) only assemble what the element parser returns *)
  Lemma elems_of_sound (pv : string -> option (json * string)) (P : json -> Prop) :
    (forall s x r, pv s = Some (x, r) -> P x) ->
    forall k s j r, elems_of pv k s = Some (j, r) -> exists xs, j = JArr xs /\ Forall P xs.
  Proof.
    intros Hpv. induction k as [|k IH]; intros s j r H; [discriminate|]. cbn [elems_of] in H.
    destruct (pv s) as [[x r1]|] eqn:E; [|discriminate]. apply Hpv in E. cbv zeta in H.
    destruct (byte (ch (skip_ws r1)) =? 44).
    - destruct (elems_of pv k (drop 1 (skip_ws r1))) as [[j' r2]|] eqn:E2; [|discriminate].
      destruct (IH _ _ _ E2) as (xs & -> & Hxs). inversion H; subst. exists (x :: xs). split; [reflexivity|].
      now constructor.
    - destruct (byte (ch (skip_ws r1)) =? 93); [|discriminate]. inversion H; subst.
      exists [x]. split; [reflexivity|]. now constructor.
  Qed.
  Lemma members_of_sound (pv : string -> option (json * string)) (P : json -> Prop) :
    (forall s x r, pv s = Some (x, r) -> P x) ->
    forall k s j r, members_of pv k s = Some (j, r) ->
      exists m, j = JObj m /\ Forall (fun kv => P (snd kv)) m.
  Proof.
    intros Hpv. induction k as [|k IH]; intros s j r H; [discriminate|]. cbn [members_of] in H.
    cbv zeta in H.
    destruct (byte (ch (skip_ws s)) =? 34); [|discriminate].
    destruct (parse_str (drop 1 (skip_ws s))) as [[key r1]|]; [|discriminate].
    destruct (byte (ch (skip_ws r1)) =? 58); [|discriminate].
    destruct (pv (drop 1 (skip_ws r1))) as [[x r2]|] eqn:E; [|discriminate]. apply Hpv in E.
    destruct (byte (ch (skip_ws r2)) =? 44).
    - destruct (members_of pv k (drop 1 (skip_ws r2))) as [[j' r3]|] eqn:E2; [|discriminate].
      destruct (IH _ _ _ E2) as (xs & -> & Hxs). inversion H; subst. exists ((key, x) :: xs).
      split; [reflexivity|]. now constructor.
    - destruct (byte (ch (skip_ws r2)) =? 125); [|discriminate]. inversion H; subst.
      exists [(key, x)]. split; [reflexivity|]. now constructor.
  Qed.

  (* whatever parse_value returns carries only numbers satisfying p, and is nested at most
     remaining_depth - 1 deep *)
  Lemma parse_value_sound : forall fuel rd s j r,
    parse_value float_of_tok fuel rd s = Some (j, r) ->
    json_all p j = true /\ (jdepth j <= Nat.pred rd)%nat.
  Proof.
    induction fuel as [|f IH]; intros rd s j r H; [discriminate|].
    cbn [parse_value] in H. destruct (skip_ws s) as [|c t] eqn:Es; [discriminate|]. cbv zeta in H.
    destruct (byte c =? 110).
    { destruct (lit "null" (String c t)); inversion H; subst. split; [reflexivity|cbn; lia]. }
    destruct (byte c =? 116).
    { destruct (lit "true" (String c t)); inversion H; subst. split; [reflexivity|cbn; lia]. }
    destruct (byte c =? 102).
    { destruct (lit "false" (String c t)); inversion H; subst. split; [reflexivity|cbn; lia]. }
    destruct (byte c =? 34).
    { destruct (parse_str t) as [[x r']|]; inversion H; subst. split; [reflexivity|cbn; lia]. }
    destruct (byte c =? 91).
    { destruct rd as [|[|rd']]; try discriminate.
      destruct (byte (ch (skip_ws t)) =? 93).
      - inversion H; subst. split; [reflexivity|cbn; lia].
      - apply (elems_of_sound (parse_value float_of_tok f (S rd'))
                 (fun x => json_all p x = true /\ (jdepth x <= rd')%nat)) in H.
        + destruct H as (xs & -> & Hxs). split.
          * rewrite json_all_arr. apply forallb_forall. rewrite Forall_forall in Hxs. intros x Hx.
            apply (Hxs x Hx).
          * cbn [jdepth Nat.pred]. apply le_n_S. apply depth_fold_le.
            eapply Forall_impl; [|exact Hxs]. cbn. tauto.
        + intros s0 x r0 Hx. exact (IH _ _ _ _ Hx). }
    destruct (byte c =? 123).
    { destruct rd as [|[|rd']]; try discriminate.
      destruct (byte (ch (skip_ws t)) =? 125).
      - inversion H; subst. split; [reflexivity|cbn; lia].
      - apply (members_of_sound (parse_value float_of_tok f (S rd'))
                 (fun x => json_all p x = true /\ (jdepth x <= rd')%nat)) in H.
        + destruct H as (xs & -> & Hxs). split.
          * rewrite json_all_obj. apply forallb_forall. rewrite Forall_forall in Hxs. intros x Hx.
            apply (Hxs x Hx).
          * cbn [jdepth Nat.pred]. apply le_n_S. apply depth_fold_le_m.
            eapply Forall_impl; [|exact Hxs]. cbn. tauto.
        + intros s0 x r0 Hx. exact (IH _ _ _ _ Hx). }
    destruct ((byte c =? 45) || JsonText.is_digit c); [|discriminate].
    destruct (parse_number float_of_tok (String c t)) as [[x r']|] eqn:E; [|discriminate].
    inversion H; subst. split; [exact (parse_number_sound _ _ _ E)|cbn; lia].
  Qed.

  Theorem json_from_str_sound : forall s d,
    json_from_str float_of_tok s = Some d -> json_all p d = true /\ (jdepth d <= 127)%nat.
  Proof.
    intros s d. unfold json_from_str.
    destruct (parse_value float_of_tok (S (String.length s)) 128 s) as [[j rest]|] eqn:E; [|discriminate].
    destruct (skip_ws rest); [|discriminate]. intros H; inversion H; subst.
    exact (parse_value_sound _ _ _ _ _ E).
  Qed.
End ParseSound.

(* the only thing asked of the text->double conversion: it never returns NaN or an infinity
   (serde_json: "number out of range") *)
Definition fot_finite (float_of_tok : numtok -> option num) : Prop :=
  forall t x, float_of_tok t = Some x -> is_finite x = true.
(* ... and what it returns is a binary64 datum *)
Definition fot_doubles (float_of_tok : numtok -> option num) : Prop :=
  forall t x, float_of_tok t = Some x -> is_double x = true.

(* every document the parser model returns consists of well-formed Numbers, and is nested at most
   127 deep *)
Theorem json_from_str_wf : forall fot s d,
  fot_finite fot -> json_from_str fot s = Some d -> json_wf d = true /\ (jdepth d <= 127)%nat.
Proof.
  intros fot s d Hf. apply (json_from_str_sound fot jnum_wf).
  - intros z Hz. unfold jnum_wf, U64_MAX in *. lia.
  - intros z Hz. unfold jnum_wf, I64_MIN in *. lia.
  - intros t x Hx. exact (Hf t x Hx).
Qed.
Theorem json_from_str_doubles : forall fot s d,
  fot_doubles fot -> json_from_str fot s = Some d -> json_doubles d = true.
Proof.
  intros fot s d Hf H. apply (json_from_str_sound fot jnum_double) in H; [tauto|reflexivity|reflexivity|].
  intros t x Hx. exact (Hf t x Hx).
Qed.
(* the statement asked for: the decidable hypothesis of the echo theorems holds for every
   document the parser model returns *)
Theorem json_from_str_nums_ok : forall fot s d,
  fot_finite fot -> json_from_str fot s = Some d -> json_nums_ok d = true.
Proof. intros fot s d Hf H. apply json_wf_nums_ok. exact (proj1 (json_from_str_wf fot s d Hf H)). Qed.

(* ------------------------------------------------------------------ 3. the echo theorems, restated *)
Section EchoParsed.
  Variable pfs : string -> option (list lamarg * string).
  Variable pbody : string -> outcome expr.
  Variable emit : expr -> list (string * svalue) -> string.
  Variable nameof : lam_id -> option string.
  Variable fot : numtok -> option num.
  Hypothesis H_fot : fot_finite fot.

  (* input_echo for well-formed documents (the invariant of serde_json::Value) *)
  Theorem input_echo_wf d :
    json_wf d = true -> json_no_reserved pfs (sj_build d) = true ->
    (do v <- to_value pbody (from_json pfs (sj_build d)); do s <- from_value emit nameof v; Ok (to_json s))
    = Ok (jcanon d)
    /\ json_equiv (jcanon d) d.
  Proof. intros Hw. apply input_echo. now apply json_wf_nums_ok. Qed.

  (* input_echo for whatever the parser returned for an input text: no hypothesis on numbers *)
  Theorem input_echo_parsed s d :
    json_from_str fot s = Some d -> json_no_reserved pfs (sj_build d) = true ->
    (do v <- to_value pbody (from_json pfs (sj_build d)); do s <- from_value emit nameof v; Ok (to_json s))
    = Ok (jcanon d)
    /\ json_equiv (jcanon d) d.
  Proof. intros Hs. apply input_echo. exact (json_from_str_nums_ok fot s d H_fot Hs). Qed.

  Theorem cli_echo_object_parsed s m key name x :
    json_from_str fot s = Some (JObj m) ->
    forallb (fun kv => json_no_reserved pfs (sj_build (snd kv))) m = true ->
    jlookup m key = Some x ->
    cli_echo pfs pbody emit nameof (JObj m) key name = Ok (JObj [(name, jcanon x)]).
  Proof. intros Hs. apply cli_echo_object. exact (json_from_str_nums_ok fot s _ H_fot Hs). Qed.

  Theorem cli_echo_non_object_parsed s d name :
    json_from_str fot s = Some d -> (forall m, d <> JObj m) ->
    json_no_reserved pfs (sj_build d) = true ->
    cli_echo pfs pbody emit nameof d "value_1" name = Ok (JObj [(name, jcanon d)]).
  Proof.
    intros Hs Hno. apply cli_echo_non_object; [exact Hno|]. exact (json_from_str_nums_ok fot s d H_fot Hs).
  Qed.
End EchoParsed.
