(* Comments.v — C09: the documents produced by the formatter model account for every comment
   of the commented AST, in order.  See coq/Formatter.v for the model. *)
From Coq Require Import String Ascii List ZArith Bool Lia.
Require Import Blots.Num Blots.gen.Builtins Blots.Ast Blots.Formatter Blots.proofs.ExprInd.
Import ListNotations.
Open Scope list_scope.

(* ------------------------------------------------------------------ document algebra *)
Lemma dac_app : forall a b, doc_all_comments (a ++ b) = doc_all_comments a ++ doc_all_comments b.
Proof. intros; unfold doc_all_comments; apply flat_map_app. Qed.
Lemma dc_app : forall a b, doc_comments (a ++ b) = doc_comments a ++ doc_comments b.
Proof. intros; unfold doc_comments; apply flat_map_app. Qed.
Lemma dop_app : forall a b, doc_opaque (a ++ b) = doc_opaque a ++ doc_opaque b.
Proof. intros; unfold doc_opaque; apply flat_map_app. Qed.
Lemma dac_cons : forall p d, doc_all_comments (p :: d) = piece_all_comments p ++ doc_all_comments d.
Proof. reflexivity. Qed.

Lemma dac_dcomment_lines : forall l, doc_all_comments (dcomment_lines l) = l.
Proof.
  induction l as [|c r IH]; [reflexivity|].
  destruct r as [|c2 r']; [reflexivity|].
  change (dcomment_lines (c :: c2 :: r')) with (Comment c :: Nl :: dcomment_lines (c2 :: r')).
  rewrite !dac_cons, IH. reflexivity.
Qed.
Lemma dac_trailing_doc : forall tr, doc_all_comments (trailing_doc tr) = trailing_comments tr.
Proof. destruct tr as [t|]; [|reflexivity]. cbn [trailing_doc]. rewrite dac_cons. apply dac_dcomment_lines. Qed.
Lemma dac_leading_doc : forall i l, doc_all_comments (leading_doc i l) = l.
Proof.
  intros i l; induction l as [|c r IH]; [reflexivity|].
  unfold leading_doc in *; cbn [flat_map]. rewrite dac_app, IH. reflexivity.
Qed.
Lemma dac_repeat_nl : forall n, doc_all_comments (repeat Nl n) = [].
Proof. induction n; [reflexivity|]. cbn [repeat]. rewrite dac_cons, IHn. reflexivity. Qed.
Lemma dac_wrap_parens : forall b d, doc_all_comments (wrap_parens b d) = doc_all_comments d.
Proof. intros [] d; [|reflexivity]. unfold wrap_parens. rewrite !dac_app. cbn. now rewrite app_nil_r. Qed.
Lemma dac_protect_minus : forall d b, doc_all_comments (protect_minus d b) = doc_all_comments d.
Proof.
  intros d b. unfold protect_minus. destruct (negb b && starts_with_minus (render d)); [|reflexivity].
  rewrite !dac_app. cbn. now rewrite app_nil_r.
Qed.

(* a document shows every comment it accounts for as soon as what it printed opaquely is comment-free *)
Lemma dc_eq_dac : forall d, forallb cfree (doc_opaque d) = true -> doc_comments d = doc_all_comments d.
Proof.
  induction d as [|p d IH]; [reflexivity|]. intros H.
  change (p :: d) with ([p] ++ d) in *. rewrite dop_app in H. rewrite forallb_app in H.
  apply andb_prop in H as [Hp Hd]. rewrite dc_app, dac_app, (IH Hd). f_equal.
  destruct p; try reflexivity; cbn in Hp; cbn; unfold cfree in Hp;
    (destruct (expr_comments e); [reflexivity|discriminate]).
Qed.

(* ------------------------------------------------------------------ well-formed comment attachment *)
(* What the parser always produces and the formatter relies on: the return expression of a
   do-block carries no trailing comment (expressions.rs:2208-2212 sets None). *)
Fixpoint wf_ast (e : expr) : bool :=
  match e with
  | EList items => forallb (fun c => wf_ast (cnode c)) items
  | ERec entries =>
      forallb (fun c => match cnode c with
                        | REntry (KStatic _) v => wf_ast v
                        | REntry (KDyn k) v => wf_ast k && wf_ast v
                        | REntry (KShort _) _ => true
                        | REntry (KSpread x) _ => wf_ast x
                        end) entries
  | ELam _ body => wf_ast body
  | ECond c t f => wf_ast c && wf_ast t && wf_ast f
  | EDo stmts ret =>
      forallb (fun c => wf_ast (cnode c)) stmts && wf_ast (cnode ret)
      && match ctrailing ret with None => true | Some _ => false end
  | EAssign _ v => wf_ast v
  | EOutput x => wf_ast x
  | ECall f args => wf_ast f && forallb wf_ast args
  | EAccess a i => wf_ast a && wf_ast i
  | EDot a _ => wf_ast a
  | EBin _ l r => wf_ast l && wf_ast r
  | EUn _ a => wf_ast a
  | EFact a => wf_ast a
  | ESpread a => wf_ast a
  | _ => true
  end.

(* ------------------------------------------------------------------ layouts *)
Section Layouts.
  Variable O : oracles.
  Variable w : nat.
  Variable rec : expr -> nat -> doc.

  (* "the recursive call accounts for the comments of x" *)
  Definition keeps (x : expr) : Prop := forall i, doc_all_comments (rec x i) = expr_comments x.

  Lemma list_items_keeps : forall l inner,
    Forall (fun c => keeps (cnode c)) l ->
    doc_all_comments (list_items_doc rec l inner) = items_comments expr_comments l.
  Proof.
    induction l as [|[lead n tr] r IH]; intros inner H; [reflexivity|].
    inversion H as [|? ? Hn Hr]; subst. cbn [cnode] in Hn. cbn [list_items_doc items_comments].
    rewrite !dac_app, dac_leading_doc, dac_trailing_doc, (Hn inner), (IH inner Hr). reflexivity.
  Qed.

  Lemma list_doc_keeps : forall items i,
    Forall (fun c => keeps (cnode c)) items ->
    doc_all_comments (list_doc rec items i) = items_comments expr_comments items.
  Proof.
    intros items i H. destruct items as [|c r]; [reflexivity|].
    unfold list_doc. rewrite !dac_app, (list_items_keeps _ _ H). cbn. now rewrite app_nil_r.
  Qed.

  Definition keeps_entry (r : rentry) : Prop :=
    match r with
    | REntry (KStatic _) v => keeps v
    | REntry (KDyn k) v => keeps k /\ keeps v
    | REntry (KShort _) _ => True
    | REntry (KSpread x) _ => keeps x
    end.

  Lemma entry_doc_keeps : forall r i, keeps_entry r ->
    doc_all_comments (entry_doc O rec r i) = entry_comments expr_comments r.
  Proof.
    intros [[key|k|name|x] v] i H; cbn [entry_doc entry_comments keeps_entry] in *.
    - rewrite dac_cons. apply H.
    - destruct H as [Hk Hv]. rewrite !dac_app, (Hk i), (Hv i). reflexivity.
    - reflexivity.
    - apply H.
  Qed.

  Lemma rec_entries_keeps : forall l inner,
    Forall (fun c => keeps_entry (cnode c)) l ->
    doc_all_comments (rec_entries_doc O rec l inner) = entries_comments expr_comments l.
  Proof.
    induction l as [|[lead n tr] r IH]; intros inner H; [reflexivity|].
    inversion H as [|? ? Hn Hr]; subst. cbn [cnode] in Hn. cbn [rec_entries_doc entries_comments].
    rewrite !dac_app, dac_leading_doc, dac_trailing_doc, (entry_doc_keeps _ inner Hn), (IH inner Hr).
    reflexivity.
  Qed.

  Lemma record_doc_keeps : forall entries i,
    Forall (fun c => keeps_entry (cnode c)) entries ->
    doc_all_comments (record_doc O rec entries i) = entries_comments expr_comments entries.
  Proof.
    intros entries i H. destruct entries as [|c r]; [reflexivity|].
    unfold record_doc. rewrite !dac_app, (rec_entries_keeps _ _ H). cbn. now rewrite app_nil_r.
  Qed.

  Lemma lambda_doc_keeps : forall args body i, keeps body ->
    doc_all_comments (lambda_doc O w rec args body i) = expr_comments body.
  Proof.
    intros args body i H. unfold lambda_doc. cbv zeta.
    destruct (is_do body); [rewrite dac_app; apply H|].
    match goal with |- context [if ?b then _ else _] => destruct b end;
      rewrite dac_app, dac_wrap_parens; apply H.
  Qed.

  Lemma do_stmts_keeps : forall l inner first,
    Forall (fun c => keeps (cnode c)) l ->
    doc_all_comments (do_stmts_doc rec l inner first) = items_comments expr_comments l.
  Proof.
    induction l as [|[lead n tr] r IH]; intros inner first H; [reflexivity|].
    inversion H as [|? ? Hn Hr]; subst. cbn [cnode] in Hn. cbn [do_stmts_doc items_comments].
    rewrite !dac_app, dac_leading_doc, dac_trailing_doc, dac_protect_minus, (Hn inner), (IH inner false Hr).
    reflexivity.
  Qed.

  Lemma do_doc_keeps : forall stmts ret i,
    Forall (fun c => keeps (cnode c)) stmts -> keeps (cnode ret) -> ctrailing ret = None ->
    doc_all_comments (do_doc rec stmts ret i) = expr_comments (EDo stmts ret).
  Proof.
    intros stmts [rl rn rt] i Hs Hr Ht. cbn in Ht; subst rt.
    unfold do_doc. cbn [cleading cnode expr_comments trailing_comments].
    rewrite !dac_app, (do_stmts_keeps _ _ _ Hs), dac_leading_doc, (Hr _). cbn. now rewrite !app_nil_r.
  Qed.

  Lemma call_doc_keeps : forall f args i, keeps f -> Forall keeps args ->
    doc_all_comments (call_doc O rec f args i) = expr_comments (ECall f args).
  Proof.
    intros f args i Hf Ha. unfold call_doc. cbv zeta. cbn [expr_comments].
    assert (Hargs : forall inner,
      doc_all_comments (flat_map (fun a => [Nl; ind inner] ++ rec a inner ++ [Code ","]) args)
      = flat_map expr_comments args).
    { intro inner. induction Ha as [|x l Hx Hl IH]; [reflexivity|].
      cbn [flat_map]. rewrite !dac_app, (Hx _), IH. cbn. now rewrite app_nil_r. }
    destruct args;
      rewrite ?dac_app, ?dac_wrap_parens, ?Hargs, ?(Hf _); cbn; rewrite ?app_nil_r; reflexivity.
  Qed.

  Lemma binop_doc_keeps : forall op l r i, keeps l -> keeps r ->
    doc_all_comments (binop_doc O w rec op l r i) = expr_comments (EBin op l r).
  Proof.
    intros op l r i Hl Hr. unfold binop_doc. cbv zeta. cbn [expr_comments].
    repeat match goal with |- context [if ?b then _ else _] =>
      lazymatch b with
      | o_needs_parens _ _ _ _ => fail
      | _ => destruct b
      end end;
    rewrite ?dac_app, ?dac_wrap_parens, ?(Hl _), ?(Hr _); cbn; rewrite ?app_nil_r; reflexivity.
  Qed.

  (* the conditional layout walks down the else-if chain *)
  Definition cond_keeps (el : expr) : Prop :=
    forall fc ft ec et i,
      (forall j, doc_all_comments (fc j) = ec) -> (forall j, doc_all_comments (ft j) = et) ->
      doc_all_comments (cond_doc w rec fc ft el i) = ec ++ et ++ expr_comments el.

  Lemma cond_doc_step : forall el,
    keeps el ->
    (forall c2 t2 e2, el = ECond c2 t2 e2 -> keeps c2 /\ keeps t2 /\ cond_keeps e2) ->
    cond_keeps el.
  Proof.
    intros el Hel Hsub fc ft ec et i Hc Ht.
    destruct el; cbn [cond_doc];
      try (match goal with |- context [if ?b then _ else _] => destruct b end;
           rewrite !dac_app, ?Hc, ?Ht, ?(Hel _); cbn; rewrite ?app_nil_r; reflexivity).
    destruct (Hsub _ _ _ eq_refl) as (H1 & H2 & H3).
    match goal with |- context [if ?b then _ else _] => destruct b end;
      rewrite !dac_app, ?Hc, ?Ht, (H3 _ _ _ _ i (H1) (H2)); cbn; rewrite ?app_nil_r; reflexivity.
  Qed.
End Layouts.

(* ------------------------------------------------------------------ the formatter *)
Section Fmt.
  Variable O : oracles.
  Variable w : nat.
  Let fmtd := fmtd O w.

  Lemma fmtd_eq : forall e i, fmtd e i = impl_doc O w fmtd e i.
  Proof. intros e i; destruct e; reflexivity. Qed.

  Definition K (e : expr) : Prop := wf_ast e = true -> keeps fmtd e.
  Definition KC (e : expr) : Prop := wf_ast e = true -> cond_keeps w fmtd e.

  Lemma opaque_keeps : forall e s, doc_all_comments [Opaque e s] = expr_comments e.
  Proof. intros; cbn. apply app_nil_r. Qed.

  Ltac opaque_case :=
    let HK := fresh "HK" in
    match goal with |- K ?e /\ KC ?e =>
      assert (HK : K e) by
        (intros _ ?; rewrite fmtd_eq; unfold impl_doc; cbn [multiline_doc contains_comments];
         rewrite ?andb_false_r; cbn [negb andb];
         repeat match goal with |- context [if ?b then _ else _] => destruct b end; apply opaque_keeps);
      split; [exact HK | intros Hw; apply cond_doc_step; [exact (HK Hw) | intros; discriminate]]
    end.
  Ltac finish HK :=
    split; [exact HK | intros Hw; apply cond_doc_step; [exact (HK Hw) | intros; discriminate]].

  Lemma fmtd_keeps_and_cond : forall e, K e /\ KC e.
  Proof.
    apply expr_ind'.
    - intros; opaque_case.
    - intros; opaque_case.
    - intros; opaque_case.
    - opaque_case.
    - intros; opaque_case.
    - intros; opaque_case.
    - intros; opaque_case.
    - (* EList *)
      intros items H.
      assert (HK : K (EList items)).
      { intros Hw i. rewrite fmtd_eq. unfold impl_doc.
        match goal with |- context [if ?b then _ else _] => destruct b end; [apply opaque_keeps|].
        cbn [multiline_doc]. apply list_doc_keeps.
        cbn [wf_ast] in Hw. rewrite forallb_forall in Hw.
        rewrite Forall_forall in *. intros c Hc. apply (H c Hc). apply Hw, Hc. }
      finish HK.
    - (* ERec *)
      intros entries H.
      assert (HK : K (ERec entries)).
      { intros Hw i. rewrite fmtd_eq. unfold impl_doc.
        match goal with |- context [if ?b then _ else _] => destruct b end; [apply opaque_keeps|].
        cbn [multiline_doc]. apply record_doc_keeps.
        cbn [wf_ast] in Hw. rewrite forallb_forall in Hw.
        rewrite Forall_forall in *. intros c Hc. specialize (H c Hc). specialize (Hw c Hc).
        destruct c as [lead [k v] tr]; cbn [cnode Pentry Pkey keeps_entry] in *.
        destruct k; cbn [Pkey] in H.
        + apply H, Hw.
        + apply andb_prop in Hw as [Hk Hv]. destruct H as [[Hk' _] [Hv' _]]. split; auto.
        + exact I.
        + destruct H as [[Hx _] _]. apply Hx, Hw. }
      finish HK.
    - (* ELam *)
      intros args body [IHe _].
      assert (HK : K (ELam args body)).
      { intros Hw i. rewrite fmtd_eq. cbn [impl_doc expr_comments]. apply lambda_doc_keeps. apply IHe, Hw. }
      finish HK.
    - (* ECond *)
      intros e1 e2 e3 [K1 _] [K2 _] [K3 KC3].
      assert (HK : K (ECond e1 e2 e3)).
      { intros Hw i. cbn [wf_ast] in Hw. apply andb_prop in Hw as [Hw H3]. apply andb_prop in Hw as [H1 H2].
        rewrite fmtd_eq. unfold impl_doc.
        match goal with |- context [if ?b then _ else _] => destruct b end; [apply opaque_keeps|].
        cbn [multiline_doc expr_comments]. apply (KC3 H3); [apply (K1 H1)|apply (K2 H2)]. }
      split; [exact HK|].
      intros Hw; apply cond_doc_step; [exact (HK Hw)|].
      intros c2 t2 e2' Heq; injection Heq as <- <- <-.
      cbn [wf_ast] in Hw. apply andb_prop in Hw as [Hw H3]. apply andb_prop in Hw as [H1 H2].
      repeat split; auto.
    - (* EDo *)
      intros stmts ret H [IHr _].
      assert (HK : K (EDo stmts ret)).
      { intros Hw i. rewrite fmtd_eq. cbn [impl_doc multiline_doc].
        cbn [wf_ast] in Hw. apply andb_prop in Hw as [Hw Ht]. apply andb_prop in Hw as [Hs Hr].
        apply do_doc_keeps.
        - rewrite forallb_forall in Hs. rewrite Forall_forall in *. intros c Hc. apply (H c Hc), Hs, Hc.
        - apply IHr, Hr.
        - destruct (ctrailing ret); [discriminate|reflexivity]. }
      finish HK.
    - (* EAssign *)
      intros x v [IHe _].
      assert (HK : K (EAssign x v)).
      { intros Hw i. rewrite fmtd_eq. unfold impl_doc.
        match goal with |- context [if ?b then _ else _] => destruct b end; [apply opaque_keeps|].
        cbn [multiline_doc expr_comments]. rewrite dac_cons. apply IHe, Hw. }
      finish HK.
    - (* EOutput *)
      intros v [IHe _].
      assert (HK : K (EOutput v)).
      { intros Hw i. rewrite fmtd_eq. unfold impl_doc.
        match goal with |- context [if ?b then _ else _] => destruct b end; [apply opaque_keeps|].
        cbn [multiline_doc expr_comments]. rewrite dac_cons. apply IHe, Hw. }
      finish HK.
    - (* ECall *)
      intros f args [IHf _] H.
      assert (HK : K (ECall f args)).
      { intros Hw i. rewrite fmtd_eq. unfold impl_doc.
        match goal with |- context [if ?b then _ else _] => destruct b end; [apply opaque_keeps|].
        cbn [multiline_doc]. cbn [wf_ast] in Hw. apply andb_prop in Hw as [Hf Ha].
        apply call_doc_keeps; [apply IHf, Hf|].
        rewrite forallb_forall in Ha. rewrite Forall_forall in *. intros a Hin. apply (H a Hin), Ha, Hin. }
      finish HK.
    - (* EAccess *)
      intros a ix [IHa _] [IHi _].
      assert (HK : K (EAccess a ix)).
      { intros Hw i. rewrite fmtd_eq. unfold impl_doc.
        match goal with |- context [if ?b then _ else _] => destruct b end; [apply opaque_keeps|].
        cbn [multiline_doc]. match goal with |- context [if ?b then _ else _] => destruct b end; [|apply opaque_keeps].
        cbn [wf_ast] in Hw. apply andb_prop in Hw as [H1 H2].
        rewrite !dac_app, dac_wrap_parens, (IHa H1 _), (IHi H2 _). cbn. now rewrite app_nil_r. }
      finish HK.
    - (* EDot *)
      intros a f [IHa _].
      assert (HK : K (EDot a f)).
      { intros Hw i. rewrite fmtd_eq. unfold impl_doc.
        match goal with |- context [if ?b then _ else _] => destruct b end; [apply opaque_keeps|].
        cbn [multiline_doc]. match goal with |- context [if ?b then _ else _] => destruct b end; [|apply opaque_keeps].
        rewrite !dac_app, dac_wrap_parens, (IHa Hw _). cbn. now rewrite app_nil_r. }
      finish HK.
    - (* EBin *)
      intros op e1 e2 [IH1 _] [IH2 _].
      assert (HK : K (EBin op e1 e2)).
      { intros Hw i. rewrite fmtd_eq. unfold impl_doc.
        match goal with |- context [if ?b then _ else _] => destruct b end; [apply opaque_keeps|].
        cbn [multiline_doc]. cbn [wf_ast] in Hw. apply andb_prop in Hw as [H1 H2].
        apply binop_doc_keeps; [apply IH1, H1|apply IH2, H2]. }
      finish HK.
    - (* EUn *)
      intros op x [IHx _].
      assert (HK : K (EUn op x)).
      { intros Hw i. rewrite fmtd_eq. unfold impl_doc.
        match goal with |- context [if ?b then _ else _] => destruct b end; [apply opaque_keeps|].
        cbn [multiline_doc]. match goal with |- context [if ?b then _ else _] => destruct b end; [|apply opaque_keeps].
        rewrite !dac_app, dac_wrap_parens, (IHx Hw _). reflexivity. }
      finish HK.
    - (* EFact *)
      intros x [IHx _].
      assert (HK : K (EFact x)).
      { intros Hw i. rewrite fmtd_eq. unfold impl_doc.
        match goal with |- context [if ?b then _ else _] => destruct b end; [apply opaque_keeps|].
        cbn [multiline_doc]. match goal with |- context [if ?b then _ else _] => destruct b end; [|apply opaque_keeps].
        rewrite !dac_app, dac_wrap_parens, (IHx Hw _). cbn. now rewrite app_nil_r. }
      finish HK.
    - (* ESpread *)
      intros x [IHx _].
      assert (HK : K (ESpread x)).
      { intros Hw i. rewrite fmtd_eq. unfold impl_doc.
        match goal with |- context [if ?b then _ else _] => destruct b end; [apply opaque_keeps|].
        cbn [multiline_doc]. match goal with |- context [if ?b then _ else _] => destruct b end; [|apply opaque_keeps].
        rewrite !dac_app, (IHx Hw _). reflexivity. }
      finish HK.
  Qed.

  (* Every comment of the AST is either shown by the document or sits under an expression the
     formatter printed opaquely — nothing else happens to comments, for every layout. *)
  Theorem fmtd_accounts_for_all_comments : forall e i,
    wf_ast e = true -> doc_all_comments (fmtd e i) = expr_comments e.
  Proof. intros e i Hw. apply (proj1 (fmtd_keeps_and_cond e) Hw). Qed.

  (* doc_comments_preserved: the shown comments are exactly the AST's, whenever what was printed
     opaquely is comment-free *)
  Theorem fmtd_comments_preserved : forall e i,
    wf_ast e = true -> forallb cfree (doc_opaque (fmtd e i)) = true ->
    doc_comments (fmtd e i) = expr_comments e.
  Proof. intros e i Hw Ho. rewrite (dc_eq_dac _ Ho). now apply fmtd_accounts_for_all_comments. Qed.
End Fmt.

(* ------------------------------------------------------------------ statement drivers *)
Definition wf_stmt (s : stmt) : bool :=
  match s with St (SExpr e) _ _ _ | St (SOut e) _ _ _ => wf_ast e | St (SComment _) _ _ _ => true end.

Lemma dac_join_spacing : forall l,
  doc_all_comments (join_spacing l) = flat_map (fun x => doc_all_comments (fst (fst x))) l.
Proof.
  induction l as [|[[d s] e] rest IH]; [reflexivity|].
  destruct rest as [|[[d2 s2] e2] rest'].
  - cbn. now rewrite app_nil_r.
  - cbn [join_spacing flat_map fst] in *. rewrite !dac_app, dac_repeat_nl, IH. reflexivity.
Qed.

Lemma dac_concat : forall l, doc_all_comments (concat l) = flat_map doc_all_comments l.
Proof. induction l as [|d r IH]; [reflexivity|]. cbn [concat flat_map]. now rewrite dac_app, IH. Qed.

Lemma flat_map_map_first : forall {A B C} (f : bool -> A -> B) (g : B -> list C) (h : A -> list C) l,
  (forall b x, In x l -> g (f b x) = h x) -> flat_map g (map_first f l) = flat_map h l.
Proof.
  intros A B C f g h l H. destruct l as [|x r]; [reflexivity|].
  cbn [map_first flat_map]. rewrite (H true x (or_introl eq_refl)). f_equal.
  assert (H' : forall y, In y r -> g (f false y) = h y) by (intros; apply H; now right).
  clear H. induction r as [|y r IH]; [reflexivity|].
  cbn [map flat_map]. rewrite (H' y (or_introl eq_refl)), IH; [reflexivity|]. intros; apply H'; now right.
Qed.

Section Drivers.
  Variable O : oracles.

  Lemma format_expr_accounts : forall e mw, wf_ast e = true ->
    doc_all_comments (format_expr_doc O e mw) = expr_comments e.
  Proof. intros. unfold format_expr_doc. now apply fmtd_accounts_for_all_comments. Qed.

  Lemma lib_stmt_accounts : forall mw first s, wf_stmt s = true ->
    doc_all_comments (fst (fst (lib_stmt O mw first s))) = stmt_comments s.
  Proof.
    intros mw first [k eol sl el] Hw. cbn [lib_stmt fst stmt_comments].
    assert (Hk : doc_all_comments
                   (protect_minus
                      match k with
                      | SComment c => [Comment c]
                      | SOut e => format_expr_doc O (EOutput e) mw
                      | SExpr e => format_expr_doc O e mw
                      end first)
                 = match k with SExpr e | SOut e => expr_comments e | SComment c => [c] end).
    { rewrite dac_protect_minus.
      destruct k; cbn in Hw; [now apply format_expr_accounts| |reflexivity].
      rewrite format_expr_accounts; [reflexivity|exact Hw]. }
    destruct eol as [c|]; [rewrite dac_app|]; rewrite Hk; [reflexivity|now rewrite app_nil_r].
  Qed.

  (* library driver (blots-wasm format_blots): every comment of the program is accounted for *)
  Theorem lib_driver_accounts : forall mw p d,
    forallb wf_stmt p = true ->
    format_lib O mw p = Some d ->
    doc_all_comments d = program_comments p.
  Proof.
    intros mw p d Hw Hd. unfold format_lib in Hd.
    assert (d = join_spacing (map_first (lib_stmt O mw) p))
      by (destruct p; [discriminate|now injection Hd]).
    subst d. rewrite dac_join_spacing. unfold program_comments.
    rewrite forallb_forall in Hw. clear Hd.
    apply flat_map_map_first. intros b x Hx. apply lib_stmt_accounts. now apply Hw.
  Qed.

  Lemma cli_stmt_accounts : forall first s, wf_stmt s = true ->
    doc_all_comments (cli_stmt O first s) = stmt_comments s.
  Proof.
    intros first [k eol sl el] Hs. cbn [cli_stmt stmt_comments]. rewrite !dac_app.
    replace (doc_all_comments [Nl]) with (@nil string) by reflexivity. rewrite app_nil_r. f_equal.
    - destruct k; cbn in Hs; [rewrite dac_protect_minus; now apply format_expr_accounts| |reflexivity].
      rewrite format_expr_accounts; [reflexivity|exact Hs].
    - now destruct eol.
  Qed.

  (* CLI driver (blots --format): the same *)
  Theorem cli_driver_accounts : forall p,
    forallb wf_stmt p = true ->
    doc_all_comments (format_cli O p) = program_comments p.
  Proof.
    intros p Hw. unfold format_cli, program_comments. rewrite dac_concat. rewrite forallb_forall in Hw.
    apply flat_map_map_first. intros b x Hx. apply cli_stmt_accounts. now apply Hw.
  Qed.
End Drivers.
